(* C10 -- the head matrix has the algebraic structure of the symmetric BEM.
   Statements about the assembly model coq/Geom/Assembly.v (Details::HeadMatrix, deflate, operators.h blocks)
   at the R instance of the numeric record; kernels S and D, areas and vertex positions are arbitrary.
   Hypothesis wf_indexed = the conclusion of C11's generate_indices_bijection for the dumped geometry. *)
From Coq Require Import List NArith ZArith Reals.
From OM Require Import Base.Ops Geom.Assembly Geom.AssemblyProofs Geom.DeflateValue.
From OM Require Geom.InverseMC.
Import ListNotations.
Local Open Scope R_scope.

(* dimension = #vertices with an unknown + #current-carrying triangles *)
Theorem headmat_dimension : forall (g : igeom R),
  gnparams g = (nvalid g + ncurrent g + nbarrier_tris g)%N -> gnbarrier g = nbarrier_tris g ->
  hm_dim g = (nvalid g + ncurrent g)%N.
Proof. exact (@headmat_dimension_lemma R). Qed.
Print Assumptions headmat_dimension.

(* the three edge vectors N uses for the three corners of a triangle sum to zero *)
Theorem edge_vectors_sum_zero : forall pos t, distinct3 t ->
  vadd3 (CB RO pos t (tv0 t)) (CB RO pos t (tv1 t)) (CB RO pos t (tv2 t)) = (0, 0, 0).
Proof. exact AssemblyProofs.edge_vectors_sum_zero. Qed.
Print Assumptions edge_vectors_sum_zero.

(* "a constant potential produces no current": for an ARBITRARY S, any factor, any meshes, any v1 *)
Theorem N_row_sum_zero : forall pos area fac S m1 m2 v1, mesh_wf m2 ->
  Rsum (fun v2 => Nval RO pos area fac S m1 m2 v1 v2) (mverts m2) = 0.
Proof. exact Nval_row_sum_zero. Qed.
Print Assumptions N_row_sum_zero.
Theorem N_col_sum_zero : forall pos area fac S m1 m2 v2, mesh_wf m1 ->
  Rsum (fun v1 => Nval RO pos area fac S m1 m2 v1 v2) (mverts m1) = 0.
Proof. exact Nval_col_sum_zero. Qed.
Print Assumptions N_col_sum_zero.
Theorem N_symmetric_on_one_mesh : forall pos area fac S m v1 v2, (forall i j, S i j = S j i) ->
  Nval RO pos area fac S m m v1 v2 = Nval RO pos area fac S m m v2 v1.
Proof. exact Nval_sym. Qed.
Print Assumptions N_symmetric_on_one_mesh.

(* the N block of two different meshes, as written into the packed symmetric matrix (one cell per unordered
   pair, factor 0.5 on a shared vertex), leaves the sum of every potential row over all potential columns unchanged *)
Theorem N_offdiag_block_keeps_potential_row_sums : forall pos area g VV, wf_indexed g VV ->
  forall rho coeff S m1 m2, In rho VV -> mesh_wf m1 -> mesh_wf m2 -> incl (mverts m1) VV -> incl (mverts m2) VV ->
  forall M, rowsum (N_off RO pos area g M coeff S m1 m2) (vix g rho) (Cidx g VV) = rowsum M (vix g rho) (Cidx g VV).
Proof. intros pos area g VV WF rho coeff S m1 m2 H1 H2 H3 H4 H5 M. exact (N_off_keeps pos area g VV WF rho coeff S m1 m2 H1 H2 H3 H4 H5 M). Qed.
Print Assumptions N_offdiag_block_keeps_potential_row_sums.
Theorem N_diag_block_keeps_potential_row_sums : forall pos area g VV, wf_indexed g VV ->
  forall rho coeff S m, In rho VV -> mesh_wf m -> incl (mverts m) VV -> (forall i j, S i j = S j i) ->
  forall M, rowsum (N_diag RO pos area g M coeff S m (mverts m)) (vix g rho) (Cidx g VV) = rowsum M (vix g rho) (Cidx g VV).
Proof. intros pos area g VV WF rho coeff S m H1 H2 H3 H4 M. exact (N_diag_keeps pos area g VV WF rho coeff S m H1 H2 H3 H4 M). Qed.
Print Assumptions N_diag_block_keeps_potential_row_sums.

(* the regularisation touches only cells (i,j) with BOTH i and j an index of a vertex of an outermost mesh of a part *)
Theorem deflate_support : forall (g : igeom R) M r c, (~ In r (outer_idx g) \/ ~ In c (outer_idx g)) ->
  mget RO (deflate RO g M) r c = mget RO M r c.
Proof. exact (deflate_frame (fun _ => (0, 0, 0)) (fun _ => 0) (fun _ _ => 0) (fun _ _ _ => 0)). Qed.
Print Assumptions deflate_support.

(* ... and on the vertex block of one outermost mesh it is the rank-one update coef * 1 1^T: every cell, diagonal
   included, receives coef exactly once (vertices duplicate free with pairwise different indices) *)
Theorem deflate_adds_constant_on_outer_block : forall (g : igeom R) coef vs, NoDup vs ->
  (forall u v, In u vs -> In v vs -> vix g u = vix g v -> u = v) ->
  forall M r c, In r vs -> In c vs ->
  mget RO (deflate_mesh RO g M coef vs) (vix g r) (vix g c) = mget RO M (vix g r) (vix g c) + coef.
Proof. exact deflate_mesh_value. Qed.
Print Assumptions deflate_adds_constant_on_outer_block.

(* every potential row whose vertex is not on an outermost mesh of a deflated part sums to zero over all
   potential columns -- whatever the kernels S and D, conductivities, orientations, ordering of unknowns.
   No hypothesis on D is needed: D and D* only write current x potential cells. *)
Theorem potential_rows_sum_zero_off_outer : forall K pos area Sk Dk g VV, wf_indexed g VV ->
  forall rho, In rho VV -> ~ In (vix g rho) (outer_idx g) ->
  Rsum (fun u => mget RO (headmat RO K pos area Sk Dk g) (vix g rho) (vix g u)) VV = 0.
Proof. exact headmat_rowsum_zero. Qed.
Print Assumptions potential_rows_sum_zero_off_outer.

(* "deflation is applied to every conductive component": holds when the bookkeeping lists every non-isolated
   outermost mesh in some part ... *)
Definition every_outer_mesh_in_a_part {F} (g : igeom F) : Prop :=
  forall k, (k < length (gmeshes g))%nat -> mouter (gmesh g k) = true -> misolated (gmesh g k) = false ->
  exists part, In part (gparts g) /\ In k part.
Theorem deflate_applied_to_every_conductive_component_partial : forall (g : igeom R),
  every_outer_mesh_in_a_part g ->
  forall k a, (k < length (gmeshes g))%nat -> mouter (gmesh g k) = true -> misolated (gmesh g k) = false ->
  In a (mverts (gmesh g k)) -> In (vix g a) (outer_idx g).
Proof.
  intros g H k a Hk Ho Hi Ha. destruct (H k Hk Ho Hi) as [part [Hp Hkp]].
  unfold outer_idx. apply in_flat_map. exists part; split; auto. apply in_flat_map. exists k; split; auto.
  rewrite Ho. apply in_map; auto.
Qed.
Print Assumptions deflate_applied_to_every_conductive_component_partial.
(* ... and is refuted on the pinned tree: a component bounded by a single mesh is in no part (conn.size()>1),
   then NO row is regularised and the whole matrix (here: potentials only) annihilates the constant vector,
   for every choice of kernels *)
Theorem deflate_applied_to_every_conductive_component_refuted :
  exists (g : igeom R) VV, wf_indexed g VV /\ ~ every_outer_mesh_in_a_part g /\
    hm_dim g = N.of_nat (length VV) /\
    forall K pos area Sk Dk rho, In rho VV ->
      Rsum (fun u => mget RO (headmat RO K pos area Sk Dk g) (vix g rho) (vix g u)) VV = 0.
Proof.
  exists one_layer, one_layer_VV. split; [exact one_layer_wf|]. split; [|split; [reflexivity|]].
  - intros H. destruct (H 0%nat) as [part [[] _]]; simpl; auto.
  - intros. apply no_parts_all_rows_sum_zero; auto. exact one_layer_wf.
Qed.
Print Assumptions deflate_applied_to_every_conductive_component_refuted.
Theorem no_parts_all_rows_sum_zero : forall K pos area Sk Dk (g : igeom R) VV,
  wf_indexed g VV -> gparts g = [] ->
  forall rho, In rho VV -> Rsum (fun u => mget RO (headmat RO K pos area Sk Dk g) (vix g rho) (vix g u)) VV = 0.
Proof. exact AssemblyProofs.no_parts_all_rows_sum_zero. Qed.
Print Assumptions no_parts_all_rows_sum_zero.

(* the i_first==0 sentinel of deflate: characterisation, harmless cases, and the case where it picks another mesh *)
Theorem ifirst_characterised : forall (g : igeom R) part,
  snd (part_scan g part) = first_nonzero (map (first_ix g) (outers g part)).
Proof. exact (@part_scan_ifirst R). Qed.
Print Assumptions ifirst_characterised.
Theorem ifirst_zero_case_partial : forall (g : igeom R) part,
  ifirst_intended g part <> 0%N -> snd (part_scan g part) = ifirst_intended g part.
Proof. exact (@ifirst_partial_lemma R). Qed.
Print Assumptions ifirst_zero_case_partial.
Theorem ifirst_single_outer_mesh : forall (g : igeom R) part k,
  outers g part = [k] -> snd (part_scan g part) = ifirst_intended g part.
Proof. exact (@ifirst_single_lemma R). Qed.
Print Assumptions ifirst_single_outer_mesh.
Theorem ifirst_zero_case_refuted :
  exists (g : igeom R) part, snd (part_scan g part) <> ifirst_intended g part.
Proof. exists ifirst_witness, [0%nat; 1%nat]. destruct ifirst_zero_case_lemma as [-> ->]. discriminate. Qed.
Print Assumptions ifirst_zero_case_refuted.

(* abstract linear algebra (MathComp, coq/Geom/InverseMC.v; the statements are the Definitions there):
   A \in unitmx -> A *m invmx A = 1 /\ invmx A *m A = 1;  a right inverse is THE inverse;
   a square matrix all of whose rows sum to zero is not invertible (links the row-sum theorems to singularity) *)
Theorem inverse_identity : InverseMC.inverse_identity_statement.
Proof. exact InverseMC.inverse_identity_mc. Qed.
Print Assumptions inverse_identity.
Theorem right_inverse_unique : InverseMC.right_inverse_unique_statement.
Proof. exact InverseMC.right_inverse_unique. Qed.
Print Assumptions right_inverse_unique.
Theorem zero_row_sums_singular : InverseMC.zero_row_sums_singular_statement.
Proof. exact InverseMC.zero_row_sums_singular. Qed.
Print Assumptions zero_row_sums_singular.

(* hypotheses are satisfiable *)
Example wf_indexed_example : wf_indexed one_layer one_layer_VV.
Proof. exact one_layer_wf. Qed.
Example mesh_wf_example : mesh_wf tetra_mesh.
Proof. destruct (wf_mesh _ _ one_layer_wf (mkPair 0 0 1%Z 1 1 1) (or_introl eq_refl)) as [W _]. exact W. Qed.

(* ------------------------------------------------------------------------------------------------------------
   The well-formedness premise discharged (C11's bridge coq/Geom/IndexBridgeC10.v): for EVERY geometry that
   Geometry::finalize accepts (default ordering) whose mesh files are well formed (distinct vertex references,
   non-degenerate triangles over them), the indexed geometry read off the finalized model satisfies wf_indexed.
   The headline theorems therefore hold for every loaded geometry, with no premise on the bookkeeping. *)
From OM Require Geom.GeomModel Geom.IndexBridgeC10.

Theorem potential_rows_sum_zero_for_every_loaded_geometry :
  forall g hasc zero snz fi sig sinv ind K pos area Sk Dk,
  GeomModel.finalize g hasc zero snz false = (GeomModel.StOk, Some fi) -> IndexBridgeC10.meshes_well_formed g ->
  let G := IndexBridgeC10.to_igeom g fi sig sinv ind in
  forall rho, In rho (IndexBridgeC10.VV g fi) -> ~ In (vix G rho) (outer_idx G) ->
  Rsum (fun u => mget RO (headmat RO K pos area Sk Dk G) (vix G rho) (vix G u)) (IndexBridgeC10.VV g fi) = 0.
Proof.
  intros g hasc zero snz fi sig sinv ind K pos area Sk Dk Hf Hw G rho Hr Ho.
  apply headmat_rowsum_zero; auto. unfold G. eapply IndexBridgeC10.finalize_wf_indexed; eauto.
Qed.
Print Assumptions potential_rows_sum_zero_for_every_loaded_geometry.

Theorem N_blocks_keep_potential_row_sums_for_every_loaded_geometry :
  forall g hasc zero snz fi sig sinv ind K pos area Sk Dk,
  GeomModel.finalize g hasc zero snz false = (GeomModel.StOk, Some fi) -> IndexBridgeC10.meshes_well_formed g ->
  let G := IndexBridgeC10.to_igeom g fi sig sinv ind in
  forall rho p M, In rho (IndexBridgeC10.VV g fi) -> In p (gpairs G) ->
  rowsum (pair_step RO K pos area Sk Dk G M p) (vix G rho) (Cidx G (IndexBridgeC10.VV g fi))
  = rowsum M (vix G rho) (Cidx G (IndexBridgeC10.VV g fi)).
Proof.
  intros g hasc zero snz fi sig sinv ind K pos area Sk Dk Hf Hw G rho p M Hr Hp.
  apply (pair_step_keeps K pos area Sk Dk G (IndexBridgeC10.VV g fi)); auto.
  unfold G. eapply IndexBridgeC10.finalize_wf_indexed; eauto.
Qed.
Print Assumptions N_blocks_keep_potential_row_sums_for_every_loaded_geometry.

Theorem no_parts_all_rows_sum_zero_for_every_loaded_geometry :
  forall g hasc zero snz fi sig sinv ind K pos area Sk Dk,
  GeomModel.finalize g hasc zero snz false = (GeomModel.StOk, Some fi) -> IndexBridgeC10.meshes_well_formed g ->
  let G := IndexBridgeC10.to_igeom g fi sig sinv ind in
  gparts G = [] ->
  forall rho, In rho (IndexBridgeC10.VV g fi) ->
  Rsum (fun u => mget RO (headmat RO K pos area Sk Dk G) (vix G rho) (vix G u)) (IndexBridgeC10.VV g fi) = 0.
Proof.
  intros g hasc zero snz fi sig sinv ind K pos area Sk Dk Hf Hw G Hp rho Hr.
  apply AssemblyProofs.no_parts_all_rows_sum_zero; auto. unfold G. eapply IndexBridgeC10.finalize_wf_indexed; eauto.
Qed.
Print Assumptions no_parts_all_rows_sum_zero_for_every_loaded_geometry.

(* ------------------------------------------------------------------------------------------------------------
   Why the four singular-matrix findings (hole, hole+blob, shell0, shell00) are forced by the structure of the code
   (coq/Geom/CavityKernel.v).  A cavity wall W: current barrier, not an outermost mesh of a part (never deflated),
   vertices of its own, and Gauss' law for the constant on W seen from the other meshes it communicates with (the only
   hypothesis on a kernel: the D rows of those meshes sum to zero over W).  Then EVERY row of the head matrix sums
   to zero over the columns of W's vertices: the indicator vector of W is in the kernel, whatever S, the
   conductivities and the orientations are. *)
From OM Require Geom.CavityKernel.
Theorem cavity_wall_indicator_in_kernel : forall K pos area Sk Dk (g : igeom R) VV, wf_indexed g VV ->
  forall w, let W := gmesh g w in
  mesh_wf W -> incl (mverts W) VV -> mbarrier W = true ->
  (forall v, In v (mverts W) -> ~ In (vix g v) (outer_idx g)) ->
  (forall p k, In p (gpairs g) -> (k = pm1 p \/ k = pm2 p) -> k <> w ->
     forall v, In v (mverts (gmesh g k)) -> ~ In v (mverts W)) ->
  (forall p k t1, In p (gpairs g) -> (k = pm1 p \/ k = pm2 p) -> k <> w -> In t1 (mtris (gmesh g k)) ->
     Rsum (fun t2 => Dk (tid t1) (tid t2) 0%nat + Dk (tid t1) (tid t2) 1%nat + Dk (tid t1) (tid t2) 2%nat) (mtris W) = 0) ->
  forall r, Rsum (fun v => mget RO (headmat RO K pos area Sk Dk g) r (vix g v)) (mverts W) = 0.
Proof. intros K pos area Sk Dk g VV WF w W. exact (CavityKernel.cavity_wall_indicator_in_kernel_lemma K pos area Sk Dk g VV WF w). Qed.
Print Assumptions cavity_wall_indicator_in_kernel.

(* ------------------------------------------------------------------------------------------------------------
   The other assembly functions built from the same blocks (coq/Geom/AssemblyOps.v): which cells they can write.
   Valid for every numeric instance (in particular IEEE doubles); a cell outside stays exactly zero. *)
From OM Require Import Geom.AssemblyOps Geom.AssemblyOpsProofs.
Theorem untouched_cells_stay_zero : forall (F : Type) (o : Ops F) ws r c,
  (forall w, In w ws -> (wi w, wj w) <> (r, c)) -> rat o (apply_raw o sempty ws) r c = f0 o.
Proof. exact @apply_raw_zero. Qed.
Print Assumptions untouched_cells_stay_zero.
Theorem surfsource_support : forall (F : Type) (o : Ops F) K pos area g Sk Dk src cond bnds w,
  In w (surfsource_writes o K pos area g Sk Dk src cond bnds) ->
  exists b, In b bnds /\ let m := gmesh g (fst (fst b)) in
    (In (wi w) (map (vix g) (mverts m)) \/ (mbarrier m = false /\ In (wi w) (map tix (mtris m)))) /\
    (In (wj w) (map (vix g) (mverts src)) \/ exists t2 i, In t2 (mtris src) /\ wj w = vix g (tvi t2 i)).
Proof. exact @surfsource_sites. Qed.
Print Assumptions surfsource_support.
Theorem eit_transmat_rows_are_barrier_triangles : forall (F : Type) (o : Ops F) K area g Sk Dk p w,
  In w (eit_pair o K area g Sk Dk p) ->
  mbarrier (gmesh g (pm1 p)) = true /\ In (wi w) (map tix (mtris (gmesh g (pm1 p)))).
Proof. exact @eit_pair_sites. Qed.
Print Assumptions eit_transmat_rows_are_barrier_triangles.
Theorem ferguson_columns_are_potentials : forall (F : Type) (o : Ops F) pos area g Mag Fk jump npts w,
  In w (ferguson_writes o pos area g Mag Fk jump npts) ->
  exists m, In m (gmeshes g) /\ misolated m = false /\ In (wj w) (map (vix g) (mverts m)).
Proof. exact @ferguson_sites. Qed.
Print Assumptions ferguson_columns_are_potentials.
Theorem head2meg_columns_are_valid_potentials : forall (F : Type) (o : Ops F) g FM nverts dirs w,
  In w (meg_writes o g FM nverts dirs) -> wj w <> NOIDX /\ exists v, (v < nverts)%nat /\ wj w = vix g (N.of_nat v).
Proof. exact @meg_sites. Qed.
Print Assumptions head2meg_columns_are_valid_potentials.
Theorem surf2vol_support : forall (F : Type) (o : Ops F) K g Dp Sp doms w,
  In w (surf2vol_writes o K g Dp Sp doms) ->
  exists cond bnds pts, In (cond, bnds, pts) doms /\ In (wi w) pts /\
    exists b, In b bnds /\ let m := gmesh g (fst b) in
      (exists t i, In t (mtris m) /\ wj w = vix g (tvi t i)) \/ (mbarrier m = false /\ In (wj w) (map tix (mtris m))).
Proof. exact @surf2vol_sites. Qed.
Print Assumptions surf2vol_support.
Theorem head2ecog_support : forall (F : Type) (g : igeom F) hits w,
  In w (interp_writes g hits) ->
  exists a b c wa wb wc, In (a, b, c, (wa, wb, wc)) hits /\ (wi w < N.of_nat (length hits))%N /\
    (wj w = vix g a \/ wj w = vix g b \/ wj w = vix g c) /\ wset w = true.
Proof. exact @interp_sites. Qed.
Print Assumptions head2ecog_support.

(* ------------------------------------------------------------------------------------------------------------
   Round 3: the dimension for every loaded geometry (counting bridge, coq/Geom/DimensionBridgeC10.v), and the
   loaded-geometry corollaries under the OLD ordering of the unknowns (coq/Geom/IndexBridgeC10Old.v: every mesh
   vertex carries an unknown; meshes share no vertex, as the code requires for that ordering). *)
From OM Require Geom.GeomProofs Geom.OldOrdering Geom.DimensionBridgeC10 Geom.IndexBridgeC10Old.

Theorem headmat_dimension_for_every_loaded_geometry : forall g hasc zero snz fi sig sinv ind,
  GeomModel.finalize g hasc zero snz false = (GeomModel.StOk, Some fi) ->
  hm_dim (IndexBridgeC10.to_igeom g fi sig sinv ind)
  = N.of_nat (GeomProofs.valid_count (seq 0 (GeomModel.g_nv g)) (GeomModel.mk_invalid (GeomModel.fi_marks fi))
              + GeomProofs.ntris GeomModel.live (GeomModel.g_meshes g) (GeomModel.mk_flags (GeomModel.fi_marks fi))).
Proof. exact DimensionBridgeC10.hm_dim_new. Qed.
Print Assumptions headmat_dimension_for_every_loaded_geometry.

Theorem headmat_dimension_for_every_loaded_geometry_old_ordering : forall g hasc zero snz fi sig sinv ind,
  GeomModel.finalize g hasc zero snz true = (GeomModel.StOk, Some fi) ->
  NoDup (flat_map GeomModel.lm_verts (GeomModel.g_meshes g)) ->
  (forall x, In x (flat_map GeomModel.lm_verts (GeomModel.g_meshes g)) -> (x < GeomModel.g_nv g)%nat) ->
  hm_dim (IndexBridgeC10.to_igeom g fi sig sinv ind)
  = N.of_nat (OldOrdering.old_total (GeomModel.g_meshes g) (GeomModel.mk_flags (GeomModel.fi_marks fi))).
Proof. exact DimensionBridgeC10.hm_dim_old. Qed.
Print Assumptions headmat_dimension_for_every_loaded_geometry_old_ordering.

Theorem potential_rows_sum_zero_for_every_loaded_geometry_old_ordering :
  forall g hasc zero snz fi sig sinv ind K pos area Sk Dk,
  GeomModel.finalize g hasc zero snz true = (GeomModel.StOk, Some fi) -> IndexBridgeC10.meshes_well_formed g ->
  NoDup (flat_map GeomModel.lm_verts (GeomModel.g_meshes g)) ->
  let G := IndexBridgeC10.to_igeom g fi sig sinv ind in
  forall rho, In rho (IndexBridgeC10Old.VVold g) -> ~ In (vix G rho) (outer_idx G) ->
  Rsum (fun u => mget RO (headmat RO K pos area Sk Dk G) (vix G rho) (vix G u)) (IndexBridgeC10Old.VVold g) = 0.
Proof.
  intros g hasc zero snz fi sig sinv ind K pos area Sk Dk Hf Hw ND G rho Hr Ho.
  apply headmat_rowsum_zero; auto. unfold G. eapply IndexBridgeC10Old.finalize_old_wf_indexed; eauto.
Qed.
Print Assumptions potential_rows_sum_zero_for_every_loaded_geometry_old_ordering.

Theorem N_blocks_keep_potential_row_sums_for_every_loaded_geometry_old_ordering :
  forall g hasc zero snz fi sig sinv ind K pos area Sk Dk,
  GeomModel.finalize g hasc zero snz true = (GeomModel.StOk, Some fi) -> IndexBridgeC10.meshes_well_formed g ->
  NoDup (flat_map GeomModel.lm_verts (GeomModel.g_meshes g)) ->
  let G := IndexBridgeC10.to_igeom g fi sig sinv ind in
  forall rho p M, In rho (IndexBridgeC10Old.VVold g) -> In p (gpairs G) ->
  rowsum (pair_step RO K pos area Sk Dk G M p) (vix G rho) (Cidx G (IndexBridgeC10Old.VVold g))
  = rowsum M (vix G rho) (Cidx G (IndexBridgeC10Old.VVold g)).
Proof.
  intros g hasc zero snz fi sig sinv ind K pos area Sk Dk Hf Hw ND G rho p M Hr Hp.
  apply (pair_step_keeps K pos area Sk Dk G (IndexBridgeC10Old.VVold g)); auto.
  unfold G. eapply IndexBridgeC10Old.finalize_old_wf_indexed; eauto.
Qed.
Print Assumptions N_blocks_keep_potential_row_sums_for_every_loaded_geometry_old_ordering.

(* ------------------------------------------------------------------------------------------------------------
   Round 4: algebra of the assembly that other properties lean on (coq/Geom/AssemblyLinear.v, AssemblyRelabel.v). *)
From OM Require Geom.AssemblyLinear Geom.AssemblyRelabel.

(* the packed storage: one cell per unordered pair; (i,j) and (j,i) read the same value *)
Theorem headmat_symmetric_storage : forall K pos area Sk Dk (g : igeom R) i j,
  mget RO (headmat RO K pos area Sk Dk g) i j = mget RO (headmat RO K pos area Sk Dk g) j i.
Proof. exact AssemblyLinear.headmat_symmetric. Qed.
Print Assumptions headmat_symmetric_storage.
(* an assignment through (i,j) is read back through (j,i); accumulations through (i,j) and (j,i) add up in one cell *)
Theorem transposed_writes_share_one_cell : forall (M : store R) i j x y,
  mget RO (mset M i j x) j i = x /\ mget RO (madd RO (madd RO M i j x) j i y) i j = mget RO M i j + x + y.
Proof. intros. split; [apply AssemblyLinear.transposed_cell_assign | apply AssemblyLinear.transposed_cell_accumulate]. Qed.
Print Assumptions transposed_writes_share_one_cell.
Theorem accumulations_commute : forall (M : store R) i j x k l y r c,
  mget RO (madd RO (madd RO M i j x) k l y) r c = mget RO (madd RO (madd RO M k l y) i j x) r c.
Proof. exact AssemblyLinear.accumulations_commute. Qed.
Print Assumptions accumulations_commute.
(* the cells that are ASSIGNED (S blocks: two triangle indices) are never cells that are accumulated into
   (N, D, D*, deflate all have a vertex index): assignments and accumulations cannot overwrite each other *)
Theorem assigned_cells_are_not_accumulated : forall (g : igeom R) VV, wf_indexed g VV ->
  forall p t1 t2, In p (gpairs g) ->
  (In t1 (mtris (gmesh g (pm1 p))) \/ In t1 (mtris (gmesh g (pm2 p)))) ->
  (In t2 (mtris (gmesh g (pm1 p))) \/ In t2 (mtris (gmesh g (pm2 p)))) ->
  forall r c, In r (Cidx g VV) \/ In c (Cidx g VV) -> hit (tix t1) (tix t2) r c = false.
Proof. exact AssemblyLinear.assigned_cells_are_not_accumulated. Qed.
Print Assumptions assigned_cells_are_not_accumulated.

(* each entry is a fixed linear functional of the kernel family: linear in (Sk,Dk) jointly, for EVERY indexed geometry,
   the coefficients (orientation*K, sigma, sigma_inv, indicator, edge vectors, areas, index tables) not depending on
   the kernels *)
Theorem headmat_depends_on_kernels_entrywise : forall K pos area (g : igeom R) S1 S2 D1 D2 a b i j,
  mget RO (headmat RO K pos area (fun t u => a * S1 t u + b * S2 t u) (fun t u k => a * D1 t u k + b * D2 t u k) g) i j
  = a * mget RO (headmat RO K pos area S1 D1 g) i j + b * mget RO (headmat RO K pos area S2 D2 g) i j.
Proof. exact AssemblyLinear.headmat_linear_in_kernels_lemma. Qed.
Print Assumptions headmat_depends_on_kernels_entrywise.

(* relabelling the unknowns by an injective pi conjugates the head matrix.  The two label-dependent places of the
   code are explicit: pi acts as a translation on the triangle blocks of the pairs that go through a temporary
   SymBloc/Bloc (all_pairs_translated), and pi 0 = 0 (the i_first==0 sentinel of deflate) *)
Theorem headmat_relabel_conjugate : forall K pos area Sk Dk (g : igeom R) (pi : N -> N),
  (forall a b, pi a = pi b -> a = b) -> pi NOIDX = NOIDX -> pi 0%N = 0%N ->
  AssemblyRelabel.all_pairs_translated K g pi ->
  forall i j, mget RO (headmat RO K pos area Sk Dk (AssemblyRelabel.relab pi g)) (pi i) (pi j)
            = mget RO (headmat RO K pos area Sk Dk g) i j.
Proof. intros. apply AssemblyRelabel.headmat_relabel_conjugate_lemma; auto. Qed.
Print Assumptions headmat_relabel_conjugate.

(* old-ordering variants of the remaining loaded-geometry statements *)
Theorem no_parts_all_rows_sum_zero_for_every_loaded_geometry_old_ordering :
  forall g hasc zero snz fi sig sinv ind K pos area Sk Dk,
  GeomModel.finalize g hasc zero snz true = (GeomModel.StOk, Some fi) -> IndexBridgeC10.meshes_well_formed g ->
  NoDup (flat_map GeomModel.lm_verts (GeomModel.g_meshes g)) ->
  let G := IndexBridgeC10.to_igeom g fi sig sinv ind in
  gparts G = [] ->
  forall rho, In rho (IndexBridgeC10Old.VVold g) ->
  Rsum (fun u => mget RO (headmat RO K pos area Sk Dk G) (vix G rho) (vix G u)) (IndexBridgeC10Old.VVold g) = 0.
Proof.
  intros g hasc zero snz fi sig sinv ind K pos area Sk Dk Hf Hw ND G Hp rho Hr.
  apply AssemblyProofs.no_parts_all_rows_sum_zero; auto. unfold G. eapply IndexBridgeC10Old.finalize_old_wf_indexed; eauto.
Qed.
Print Assumptions no_parts_all_rows_sum_zero_for_every_loaded_geometry_old_ordering.

(* the cavity-wall theorem for every loaded geometry, default and old ordering: only the hypotheses about the wall
   itself remain (current barrier, never deflated, own vertices, Gauss) *)
Theorem cavity_wall_indicator_in_kernel_for_every_loaded_geometry :
  forall g hasc zero snz fi sig sinv ind K pos area Sk Dk,
  GeomModel.finalize g hasc zero snz false = (GeomModel.StOk, Some fi) -> IndexBridgeC10.meshes_well_formed g ->
  let G := IndexBridgeC10.to_igeom g fi sig sinv ind in
  forall w, let W := gmesh G w in
  mesh_wf W -> incl (mverts W) (IndexBridgeC10.VV g fi) -> mbarrier W = true ->
  (forall v, In v (mverts W) -> ~ In (vix G v) (outer_idx G)) ->
  (forall p k, In p (gpairs G) -> (k = pm1 p \/ k = pm2 p) -> k <> w -> forall v, In v (mverts (gmesh G k)) -> ~ In v (mverts W)) ->
  (forall p k t1, In p (gpairs G) -> (k = pm1 p \/ k = pm2 p) -> k <> w -> In t1 (mtris (gmesh G k)) ->
     Rsum (fun t2 => Dk (tid t1) (tid t2) 0%nat + Dk (tid t1) (tid t2) 1%nat + Dk (tid t1) (tid t2) 2%nat) (mtris W) = 0) ->
  forall r, Rsum (fun v => mget RO (headmat RO K pos area Sk Dk G) r (vix G v)) (mverts W) = 0.
Proof.
  intros g hasc zero snz fi sig sinv ind K pos area Sk Dk Hf Hw G w W.
  apply (CavityKernel.cavity_wall_indicator_in_kernel_lemma K pos area Sk Dk G (IndexBridgeC10.VV g fi)).
  unfold G. eapply IndexBridgeC10.finalize_wf_indexed; eauto.
Qed.
Print Assumptions cavity_wall_indicator_in_kernel_for_every_loaded_geometry.

Theorem cavity_wall_indicator_in_kernel_for_every_loaded_geometry_old_ordering :
  forall g hasc zero snz fi sig sinv ind K pos area Sk Dk,
  GeomModel.finalize g hasc zero snz true = (GeomModel.StOk, Some fi) -> IndexBridgeC10.meshes_well_formed g ->
  NoDup (flat_map GeomModel.lm_verts (GeomModel.g_meshes g)) ->
  let G := IndexBridgeC10.to_igeom g fi sig sinv ind in
  forall w, let W := gmesh G w in
  mesh_wf W -> incl (mverts W) (IndexBridgeC10Old.VVold g) -> mbarrier W = true ->
  (forall v, In v (mverts W) -> ~ In (vix G v) (outer_idx G)) ->
  (forall p k, In p (gpairs G) -> (k = pm1 p \/ k = pm2 p) -> k <> w -> forall v, In v (mverts (gmesh G k)) -> ~ In v (mverts W)) ->
  (forall p k t1, In p (gpairs G) -> (k = pm1 p \/ k = pm2 p) -> k <> w -> In t1 (mtris (gmesh G k)) ->
     Rsum (fun t2 => Dk (tid t1) (tid t2) 0%nat + Dk (tid t1) (tid t2) 1%nat + Dk (tid t1) (tid t2) 2%nat) (mtris W) = 0) ->
  forall r, Rsum (fun v => mget RO (headmat RO K pos area Sk Dk G) r (vix G v)) (mverts W) = 0.
Proof.
  intros g hasc zero snz fi sig sinv ind K pos area Sk Dk Hf Hw ND G w W.
  apply (CavityKernel.cavity_wall_indicator_in_kernel_lemma K pos area Sk Dk G (IndexBridgeC10Old.VVold g)).
  unfold G. eapply IndexBridgeC10Old.finalize_old_wf_indexed; eauto.
Qed.
Print Assumptions cavity_wall_indicator_in_kernel_for_every_loaded_geometry_old_ordering.

(* Round 5: the dimension-bookkeeping clause at the level of single vertices: in every geometry accepted by finalize,
   a vertex of ANY mesh that is not isolated -- in particular a rim vertex shared with an excluded mesh -- has an unknown
   index that is a row of the head matrix (never the "no unknown" marker, which is >= the dimension) *)
Theorem participating_mesh_vertices_have_rows : forall g hasc zero snz fi sig sinv ind,
  GeomModel.finalize g hasc zero snz false = (GeomModel.StOk, Some fi) -> IndexBridgeC10.meshes_well_formed g ->
  forall k v, (k < length (GeomModel.g_meshes g))%nat ->
  GeomModel.f_iso (nth k (GeomModel.mk_flags (GeomModel.fi_marks fi)) GeomModel.flags0) = false ->
  In v (mverts (gmesh (IndexBridgeC10.to_igeom g fi sig sinv ind) k)) ->
  (vix (IndexBridgeC10.to_igeom g fi sig sinv ind) v < hm_dim (IndexBridgeC10.to_igeom g fi sig sinv ind))%N.
Proof. exact DimensionBridgeC10.participating_vertex_has_row. Qed.
Print Assumptions participating_mesh_vertices_have_rows.
