(* C10 -- algebraic structure of the head matrix. Statements only; proofs in Geom/AssemblyProofs.v *)
From OM Require Import Base.Ops Geom.Assembly.
