(* C11 - a loaded geometry is a consistent model (placeholder, filled below) *)
From OM Require Import Base.Lists Geom.GeomModel.
