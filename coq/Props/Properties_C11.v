(* C11 - a loaded geometry is a consistent model: indices, orientations, domains.
   Property theorems only: each is closed by [exact <lemma>] and followed by Print Assumptions.
   The model is coq/Geom/GeomModel.v (what Geometry derives from a description), coq/Geom/CondFile.v (conductivity
   file).  Geometry enters through oracles handed in as data (solid-angle sign per interface, insideness per probe
   and interface) and through explicit hypotheses on them (monotone chain). *)
From OM Require Import Base.Lists Base.Ops Geom.MeshTopo Geom.GeomModel Geom.GeomProofs Geom.OldOrdering Geom.FinalizeProofs Geom.Laminar Geom.CondFile Geom.CondProofs Geom.SaveGeom Geom.MeshTopoProofs.
From Coq Require Import Permutation.
Local Open Scope Z_scope.

(* --- unknown indices (new ordering): for every geometry, every flag assignment, every excluded-vertex set *)
Theorem generate_indices_bijection : forall g fl invalid,
  let ix := generate_indices g false fl invalid in
  let Nv := valid_count (seq 0 (g_nv g)) invalid in
  let Nt := ntris live (g_meshes g) fl in
  let B := ntris barf (g_meshes g) fl in
  assigned (ix_v ix) ++ sel live fl (ix_t ix) = zseq 0 (Nv + Nt)
  /\ sel barf fl (ix_t ix) = zseq (Z.of_nat (Nv + Nt)) B
  /\ (forall v, (v < g_nv g)%nat -> memn v invalid = true -> nth v (ix_v ix) 0 = -1)
  /\ (forall v, (v < g_nv g)%nat -> memn v invalid = false -> 0 <= nth v (ix_v ix) 0 < Z.of_nat Nv)
  /\ sel isof fl (ix_t ix) = repeat (-1) (ntris isof (g_meshes g) fl)
  /\ length (ix_v ix) = g_nv g /\ length (ix_t ix) = length (g_meshes g)
  /\ ix_n ix = Z.of_nat (Nv + Nt) + Z.of_nat B /\ ix_nb ix = Z.of_nat B.
Proof. exact generate_indices_new_spec. Qed.
Print Assumptions generate_indices_bijection.

(* the same on what Geometry::finalize really produces: its flags satisfy isolated => current_barrier, so the first
   range is exactly {valid vertices} U {triangles of meshes that are not current barriers} *)
Theorem finalize_flags_isolated_are_barriers : forall g hasc zero snz old fi,
  finalize g hasc zero snz old = (StOk, Some fi) ->
  forall m, f_iso (nth m (mk_flags (fi_marks fi)) flags0) = true -> f_cb (nth m (mk_flags (fi_marks fi)) flags0) = true.
Proof. exact finalize_good. Qed.
Print Assumptions finalize_flags_isolated_are_barriers.

Theorem finalize_indices_bijection : forall g hasc zero snz fi, finalize g hasc zero snz false = (StOk, Some fi) ->
  let fl := mk_flags (fi_marks fi) in let invalid := mk_invalid (fi_marks fi) in let ix := fi_idx fi in
  let Nv := valid_count (seq 0 (g_nv g)) invalid in
  let Nt := ntris carries_current (g_meshes g) fl in
  let B := ntris barf (g_meshes g) fl in
  assigned (ix_v ix) ++ sel carries_current fl (ix_t ix) = zseq 0 (Nv + Nt)
  /\ sel barf fl (ix_t ix) = zseq (Z.of_nat (Nv + Nt)) B
  /\ sel isof fl (ix_t ix) = repeat (-1) (ntris isof (g_meshes g) fl)
  /\ ix_n ix = Z.of_nat (Nv + Nt) + Z.of_nat B /\ ix_nb ix = Z.of_nat B.
Proof. exact finalize_indices. Qed.
Print Assumptions finalize_indices_bijection.

(* the enumeration 0,1,...,N-1 has no repetition and covers exactly [0,N): "bijection onto [0,N)" *)
Theorem index_list_is_range : forall a n, NoDup (zseq a n) /\ forall x, In x (zseq a n) <-> a <= x < a + Z.of_nat n.
Proof. intros a n. split; [apply zseq_NoDup | intros x; apply zseq_In]. Qed.
Print Assumptions index_list_is_range.

(* --- OLD_ORDERING: per mesh its vertex references, then its triangles.  The code asserts is_nested(); what the
   numbering needs is that no vertex is referenced twice - that is the hypothesis (a "nested" geometry in the code's
   sense may still share vertices, see old_ordering_needs_disjoint_meshes) *)
Theorem old_ordering_bijection : forall g fl invalid,
  NoDup (flat_map lm_verts (g_meshes g)) -> (forall x, In x (flat_map lm_verts (g_meshes g)) -> (x < g_nv g)%nat) ->
  let ix := generate_indices g true fl invalid in
  let No := old_total (g_meshes g) fl in
  let B := ntris barf (g_meshes g) fl in
  old_order (ix_v ix) (g_meshes g) fl (ix_t ix) = zseq 0 No
  /\ sel barf fl (ix_t ix) = zseq (Z.of_nat No) B
  /\ sel isof fl (ix_t ix) = repeat (-1) (ntris isof (g_meshes g) fl)
  /\ length (ix_v ix) = g_nv g /\ length (ix_t ix) = length (g_meshes g)
  /\ ix_n ix = Z.of_nat No + Z.of_nat B /\ ix_nb ix = Z.of_nat B.
Proof. exact old_ordering_spec. Qed.
Print Assumptions old_ordering_bijection.

(* without the hypothesis the old ordering is not injective: two meshes referencing the same vertex overwrite its
   index (two triangles sharing vertex 0, one per mesh) *)
Theorem old_ordering_needs_disjoint_meshes :
  exists g fl, let ix := generate_indices g true fl [] in
  ~ NoDup (old_order (ix_v ix) (g_meshes g) fl (ix_t ix)).
Proof.
  exists (mkGeom 5 [mkLMesh [0;1;2]%nat [(0,1,2)%nat]; mkLMesh [0;3;4]%nat [(0,3,4)%nat]] []), [flags0; flags0].
  vm_compute. intros H. inversion H; subst. apply H2. vm_compute. tauto.
Qed.
Print Assumptions old_ordering_needs_disjoint_meshes.

(* --- mesh-pair quantities are symmetric in the pair (any numeric instance) *)
Theorem pair_quantities_symmetric : forall (F : Type) (o : Ops F) g conds m1 m2,
  sigma o g conds m1 m2 = sigma o g conds m2 m1 /\ sigma_inv o g conds m1 m2 = sigma_inv o g conds m2 m1
  /\ indicator o g conds m1 m2 = indicator o g conds m2 m1 /\ relative_orientation g m1 m2 = relative_orientation g m2 m1.
Proof.
  intros F o g conds m1 m2. repeat split; try apply eval_common_sym. apply relative_orientation_sym.
Qed.
Print Assumptions pair_quantities_symmetric.

Theorem common_domains_is_symmetric_filter : forall g m1 m2,
  common_domains g m1 m2 = filter (fun k => dom_has_mesh (dom g k) m1 && dom_has_mesh (dom g k) m2) (seq 0 (length (g_doms g))).
Proof. exact common_domains_sym_form. Qed.
Print Assumptions common_domains_is_symmetric_filter.

(* --- communicating mesh pairs *)
Theorem mesh_pairs_characterised : forall g fl snz i j s,
  In (i, j, s) (make_mesh_pairs g fl snz) <->
  (j <= i < length (g_meshes g))%nat /\ communicating g fl snz i j = true /\ s = relative_orientation g i j.
Proof. exact pairs_In. Qed.
Print Assumptions mesh_pairs_characterised.

Theorem mesh_pairs_no_duplicates : forall g fl snz,
  NoDup (map (fun p => (fst (fst p), snd (fst p))) (make_mesh_pairs g fl snz)).
Proof. exact pairs_NoDup. Qed.
Print Assumptions mesh_pairs_no_duplicates.

Theorem mesh_pairs_cover_each_unordered_pair_once : forall g fl snz i j,
  (i < length (g_meshes g))%nat -> (j < length (g_meshes g))%nat -> (forall a b, snz a b = snz b a) ->
  communicating g fl snz i j = true ->
  In (Nat.max i j, Nat.min i j, relative_orientation g i j) (make_mesh_pairs g fl snz)
  /\ (i <> j -> forall s, ~ In (Nat.min i j, Nat.max i j, s) (make_mesh_pairs g fl snz)).
Proof. exact pairs_cover_once. Qed.
Print Assumptions mesh_pairs_cover_each_unordered_pair_once.

(* --- outermost domain *)
Theorem outermost_identified : forall g k, outermost_domain g = Some k ->
  (k < length (g_doms g))%nat /\ no_inside (dom g k) = true /\ forall j, (j < k)%nat -> no_inside (dom g j) = false.
Proof. exact outermost_domain_spec. Qed.
Print Assumptions outermost_identified.

Theorem outermost_unique_found : forall g k, (k < length (g_doms g))%nat -> no_inside (dom g k) = true ->
  (forall j, (j < length (g_doms g))%nat -> no_inside (dom g j) = true -> j = k) -> outermost_domain g = Some k.
Proof. exact outermost_domain_unique. Qed.
Print Assumptions outermost_unique_found.

Theorem outermost_absent_iff : forall g, outermost_domain g = None <-> forall d, In d (g_doms g) -> no_inside d = false.
Proof. exact outermost_domain_none. Qed.
Print Assumptions outermost_absent_iff.

Theorem outermost_meshes_flagged : forall g fl k m,
  length (set_outermost g fl k) = length fl /\
  f_cb (nth m (set_outermost g fl k) flags0) = f_cb (nth m fl flags0) /\
  f_iso (nth m (set_outermost g fl k) flags0) = f_iso (nth m fl flags0) /\
  f_out (nth m (set_outermost g fl k) flags0) =
    (f_out (nth m fl flags0) || (memn m (flat_map (fun b => map snd (b_om b)) (dom g k)) && Nat.ltb m (length fl)
                                  && negb (f_iso (nth m fl flags0)))).
Proof. intros g fl k m. rewrite set_outermost_raise. apply raise_out_spec. Qed.
Print Assumptions outermost_meshes_flagged.

(* --- nested / non-nested classification *)
Theorem nested_flag_characterised : forall g outer, check_nested g outer = true <->
  (forall k, (k < length (g_doms g))%nat -> k <> outer -> (count_inside (dom g k) < 2)%nat)
  /\ (forall m, (m < length (g_meshes g))%nat -> oriented_sum g m mod 4294967296 <> 0).
Proof. exact check_nested_iff. Qed.
Print Assumptions nested_flag_characterised.

(* full statement wanted: check_nested g outer = true <-> chain_spec g.  The faithful model satisfies only one
   direction (and that under the orientation criterion) ... *)
Theorem nested_classification_correct_partial : forall g outer, chain_spec g ->
  (forall m, (m < length (g_meshes g))%nat -> oriented_sum g m mod 4294967296 <> 0) -> check_nested g outer = true.
Proof. exact nested_partial. Qed.
Print Assumptions nested_classification_correct_partial.

(* ... and violates the other: two sibling inclusions (topology of data/HeadNNb) are classified nested *)
Theorem nested_classification_correct_refuted :
  exists g outer, outermost_domain g = Some outer /\ check_nested g outer = true /\ ~ chain_spec g.
Proof. exact nested_refuted. Qed.
Print Assumptions nested_classification_correct_refuted.

(* --- every point off the surfaces lies in exactly one domain (nested chain, monotone insideness) *)
Theorem unique_domain_nested_chain : forall g n ins ss,
  Forall2 (@Permutation _) ss (chain_sigs n) -> Permutation (map sig_of (g_doms g)) ss -> monotone n ins ->
  exists k, (k < length (g_doms g))%nat /\ dom_contains ins (dom g k) = true /\ domain_of_point g ins = Some k
            /\ forall k', (k' < length (g_doms g))%nat -> dom_contains ins (dom g k') = true -> k' = k.
Proof.
  intros g n ins ss F P M. apply count_one_unique. eapply unique_domain_chain; eauto.
Qed.
Print Assumptions unique_domain_nested_chain.

(* general case: the interfaces form a forest under inclusion (parent = the smallest enclosing interface), the domains
   are those of a valid decomposition (one per interface: inside it and outside its children; the exterior: outside
   the roots), listed in any order with their boundaries in any order.  Hypotheses on the insideness oracle: inside a
   surface => inside its parent; two surfaces with the same parent (or two roots) have disjoint interiors. *)
Theorem unique_domain_general : forall g n parent depth ins ss,
  (forall i j, parent i = Some j -> (j < n)%nat /\ depth i = S (depth j)) ->
  (forall i, parent i = None -> depth i = 0%nat) ->
  (forall i j, (i < n)%nat -> ins i = true -> parent i = Some j -> ins j = true) ->
  (forall i j, (i < n)%nat -> (j < n)%nat -> i <> j -> parent i = parent j -> ins i = true -> ins j = true -> False) ->
  Forall2 (@Permutation _) ss (laminar_sigs n parent) -> Permutation (map sig_of (g_doms g)) ss ->
  exists k, (k < length (g_doms g))%nat /\ dom_contains ins (dom g k) = true /\ domain_of_point g ins = Some k
            /\ forall k', (k' < length (g_doms g))%nat -> dom_contains ins (dom g k') = true -> k' = k.
Proof.
  intros g n parent depth ins ss H1 H2 H3 H4 F P. apply count_one_unique.
  rewrite (filter_ext _ (fun d => contains_sig ins (sig_of d))) by (intros; apply dom_contains_sig).
  rewrite <- filter_map_len. rewrite (count_perm _ _ _ P).
  rewrite (Forall2_count (contains_sig ins) (contains_sig ins) _ _ _ (fun a b Hab => forallb_perm _ a b Hab) F).
  eapply laminar_unique; eauto.
Qed.
Print Assumptions unique_domain_general.

(* the hypotheses are satisfiable: two sibling inclusions 0,1 inside the body 2, a point inside inclusion 1 *)
Example laminar_hypotheses_satisfiable :
  let parent := fun i => match i with 0%nat | 1%nat => Some 2%nat | _ => None end in
  let depth := fun i => match i with 0%nat | 1%nat => 1%nat | _ => 0%nat end in
  let ins := fun i => match i with 0%nat => false | _ => true end in
  (forall i j, parent i = Some j -> (j < 3)%nat /\ depth i = S (depth j))
  /\ (forall i, parent i = None -> depth i = 0%nat)
  /\ length (filter (contains_sig ins) (laminar_sigs 3 parent)) = 1%nat.
Proof.
  cbv zeta. split; [|split].
  - intros [|[|i]] j H; inversion H; subst; simpl; split; auto.
  - intros [|[|i]] H; try discriminate; reflexivity.
  - vm_compute. reflexivity.
Qed.

Example chain3_hypotheses_satisfiable :
  monotone 3 (fun i => Nat.leb 1 i) /\ length (filter (contains_sig (fun i => Nat.leb 1 i)) (chain_sigs 3)) = 1%nat.
Proof. split; [intros k Hk; destruct k as [|[|[|k]]]; simpl; auto; lia | vm_compute; reflexivity]. Qed.

(* --- orientation: with Gauss' law as a hypothesis on the solid-angle sign ("reversing every member mesh reverses the
   sign"), the interface kept by the reader always has sign -1 (the library's outward convention), whatever the
   winding in the files; an interface whose sign is neither +1 nor -1 is rejected *)
Theorem interface_oriented_outward : forall (solid : list (Z * nat) -> Z),
  (forall i, solid (map neg_om i) = - solid i) ->
  forall i i', (solid i = 1 \/ solid i = -1) -> orient_iface (solid i) i = Some i' -> solid i' = -1.
Proof. exact repaired_interface_sign. Qed.
Print Assumptions interface_oriented_outward.

Theorem unclosed_interface_is_rejected : forall (solid : list (Z * nat) -> Z) i,
  solid i <> 1 -> solid i <> -1 -> orient_iface (solid i) i = None.
Proof. exact unclosed_interface_rejected. Qed.
Print Assumptions unclosed_interface_is_rejected.

(* --- Geometry::save(.geom) (repaired): the Meshes section lists each mesh used by some domain exactly once *)
Theorem saved_description_lists_every_mesh_once : forall g, NoDup (saved_meshes g)
  /\ forall m, In m (saved_meshes g) <-> exists d b om, In d (g_doms g) /\ In b d /\ In om (b_om b) /\ snd om = m.
Proof. exact saved_meshes_spec. Qed.
Print Assumptions saved_description_lists_every_mesh_once.

(* --- conductivities are attached by name, for any line order, comments anywhere, any domain order *)
Theorem cond_attached_by_name : forall (V : Type) (ls : list (cline V)) doms vs,
  load_cond true ls doms = Some vs <-> map (fun d => first_entry d ls) doms = map (@Some V) vs.
Proof. exact load_cond_spec. Qed.
Print Assumptions cond_attached_by_name.

Theorem cond_attached_by_name_order_free : forall (V : Type) (ls ls' : list (cline V)) doms,
  Permutation ls ls' -> NoDup (names V ls) -> load_cond true ls' doms = load_cond true ls doms.
Proof. exact load_cond_order_free. Qed.
Print Assumptions cond_attached_by_name_order_free.

Theorem cond_comments_ignored : forall (V : Type) n (ls : list (cline V)),
  first_entry n (filter (fun l => match l with CComment => false | _ => true end) ls) = first_entry n ls.
Proof. exact first_entry_no_comments. Qed.
Print Assumptions cond_comments_ignored.

Theorem cond_missing_domain_rejected : forall (V : Type) (ls : list (cline V)) doms d,
  In d doms -> first_entry d ls = None -> load_cond true ls doms = None.
Proof. exact load_cond_missing. Qed.
Print Assumptions cond_missing_domain_rejected.

(* --- the index hypotheses of other properties, discharged for every finalized geometry with well-formed mesh files
   (coq/Geom/IndexBridge*.v).  wf_indexed is the hypothesis of C10's head-matrix theorems (Properties_C10.v),
   well_indexed that of C05's loop theorems (Properties_C05.v). *)
From OM Require Geom.Assembly Geom.AssemblyProofs Geom.ParLoopsGeom.
From OM Require Import Geom.IndexBridge Geom.IndexBridgeC10 Geom.IndexBridgeC05.

Theorem finalize_gives_wf_indexed : forall g hasc zero snz fi sig sinv ind,
  finalize g hasc zero snz false = (StOk, Some fi) -> meshes_well_formed g ->
  AssemblyProofs.wf_indexed (to_igeom g fi sig sinv ind) (VV g fi).
Proof. intros. eapply finalize_wf_indexed; eauto. Qed.
Print Assumptions finalize_gives_wf_indexed.

(* isolated meshes are never flagged outermost (needed by the deflation; true since the repair of set_to_outermost) *)
Theorem isolated_mesh_never_outermost : forall g hasc zero snz old fi, finalize g hasc zero snz old = (StOk, Some fi) ->
  forall m, f_iso (nth m (mk_flags (fi_marks fi)) flags0) = true -> f_out (nth m (mk_flags (fi_marks fi)) flags0) = false.
Proof. exact finalize_quiet. Qed.
Print Assumptions isolated_mesh_never_outermost.

Theorem finalize_gives_well_indexed : forall g hasc zero snz fi,
  finalize g hasc zero snz false = (StOk, Some fi) -> meshes_well_formed g ->
  ParLoopsGeom.well_indexed (isV g fi) (assembly_meshes g fi).
Proof. intros. eapply finalize_well_indexed; eauto. Qed.
Print Assumptions finalize_gives_well_indexed.


(* --- character level (coq/Geom/GeomLex.v, under the token-level readers; tied by correspondence on the files and on
   textual variants of them): what io_utils::token accepts between a keyword and the colon *)
From OM Require Import Geom.GeomFile Geom.GeomFileProofs Geom.GeomLex Geom.GeomLexProofs.

Theorem lexer_name_after_one_blank : forall sp name rest, isspace sp = true -> plain name -> name <> [] ->
  token (mkS (sp :: name ++ 58%nat :: rest) false) = (mkS rest false, name).
Proof. exact token_one_blank. Qed.
Print Assumptions lexer_name_after_one_blank.

Theorem lexer_two_blanks_rejected : forall sp1 sp2 l, isspace sp1 = true -> isspace sp2 = true ->
  bad (fst (token (mkS (sp1 :: sp2 :: l) false))) = true.
Proof. exact token_two_blanks. Qed.
Print Assumptions lexer_two_blanks_rejected.

Theorem lexer_blank_before_colon_rejected : forall sp name sp2 rest, isspace sp = true -> plain name -> name <> [] ->
  isspace sp2 = true -> bad (fst (token (mkS (sp :: name ++ sp2 :: 58%nat :: rest) false))) = true.
Proof. exact token_blank_before_colon. Qed.
Print Assumptions lexer_blank_before_colon_rejected.

Theorem lexer_failed_stream_is_inert : forall s, bad s = true ->
  ws s = s /\ skip_comments s = s /\ (forall p, mtch p s = s) /\ (forall p, mtch_opt p s = (s, false))
  /\ read_nat s = (s, 0%nat) /\ read_word s = (s, []) /\ token s = (s, []) /\ filename s = (s, []) /\ line_tokens s = (s, []).
Proof. exact failed_stream_is_inert. Qed.
Print Assumptions lexer_failed_stream_is_inert.

Theorem lexer_comment_line_skipped : forall f body rest, ~ In 10%nat body ->
  skip_comments_l (S f) (35%nat :: body ++ 10%nat :: rest) = skip_comments_l f rest.
Proof. exact comment_line_skipped. Qed.
Print Assumptions lexer_comment_line_skipped.

(* the character-level reader refines the token level on a well-formed Domains section: lines "Domain name: tok tok ..."
   (one blank after the keyword, names without blanks or colon, tokens without blanks) are read back, one after the
   other, as the names and token lists they were written from - whatever follows *)
Theorem lexer_reads_rendered_domains : forall ds rest,
  Forall (fun d => plain (fst d) /\ fst d <> [] /\ Forall word (snd d)) ds ->
  read_domains V11 (length ds) (mkS (render_lines ds ++ rest) false)
  = (mkS rest false, map (fun d => (fst d, map dtok_of (snd d))) ds).
Proof. exact read_domains_rendered. Qed.
Print Assumptions lexer_reads_rendered_domains.

(* --- .cond round trip at character level: a file written line by line (comments anywhere, "name value" entries in any
   order) is read back as the names of its entries in order; the k-th entry carries the k-th value, so with
   cond_attached_by_name the name -> value table is recovered.  (A name without a value token is an error since e52f7cb;
   whether a token is a number is modelled in coq/Geom/CondSensors.v.) *)
From OM Require Import Geom.CondLexProofs.
Theorem cond_render_roundtrip : forall ls, Forall kline_ok ls -> lex_cond (render_cond ls) = Some (entry_names ls).
Proof. exact CondLexProofs.cond_render_roundtrip. Qed.
Print Assumptions cond_render_roundtrip.

(* --- the character-level reader refines the token-level one on a whole well-formed file (1.1 syntax with a Meshes
   section and named entries: what save_geom writes and the sample data use).  Not covered by the theorem (tied by
   co-execution on every generated file): 1.0 syntax, unnamed entries, interface shorthand, comments / free layout;
   MeshFile (vtp) sections are outside the model. *)
From OM Require Import Geom.GeomLexRefine.
Theorem lexer_refines_token_reader : forall cm ci cd ms ifs ds, well_formed_render cm ci cd ms ifs ds ->
  lex_geom (render_v11 cm ci cd ms ifs ds) = Some (tokens_v11 ms ifs ds).
Proof. exact GeomLexRefine.lexer_refines_token_reader. Qed.
Print Assumptions lexer_refines_token_reader.

(* consequence: reading the rendered file and resolving its names gives the description the token-level theorems
   (parse_geom, rename_equivariant, ...) talk about *)
Theorem rendered_file_parses_as_its_tokens : forall cm ci cd ms ifs ds payload f T,
  well_formed_render cm ci cd ms ifs ds -> to_gfile (tokens_v11 ms ifs ds) payload = Some (f, T) ->
  match lex_geom (render_v11 cm ci cd ms ifs ds) with
  | Some x => match to_gfile x payload with Some (f', T') => parse_geom (numname_of T') f' | None => None end
  | None => None
  end = parse_geom (numname_of T) f.
Proof.
  intros cm ci cd ms ifs ds payload f T W H. rewrite (GeomLexRefine.lexer_refines_token_reader _ _ _ _ _ _ W), H. reflexivity.
Qed.
Print Assumptions rendered_file_parses_as_its_tokens.

Local Open Scope nat_scope.
(* a concrete instance, computed: one mesh "m" stored in "a.tri", interface "I: +m", domains "A: -I" and "B: I" *)
Example lexer_refines_token_reader_instance :
  lex_geom (render_v11 [49] [49] [50] [([109], [97; 46; 116; 114; 105])] [([73], [[43; 109]])] [([65], [[45; 73]]); ([66], [[73]])])
  = Some (tokens_v11 [([109], [97; 46; 116; 114; 105])] [([73], [[43; 109]])] [([65], [[45; 73]]); ([66], [[73]])]).
Proof. vm_compute. reflexivity. Qed.

(* --- mixed named / unnamed sections: an unnamed `Mesh:` / `Interface:` entry is called by its position in the section *)
Theorem unnamed_entry_is_named_by_its_position : forall (A : Type) numname (l : list (option nat * A)) j a,
  nth_error l j = Some (None, a) -> nth_error (name_entries numname V11 0 l) j = Some (numname j, a).
Proof. intros A. exact (@GeomFileProofs.unnamed_entry_named_by_position A). Qed.
Print Assumptions unnamed_entry_is_named_by_its_position.
