(* C13 -- placeholder, filled below *)
From OM Require Import Base.Lists Maths.Dense Maths.DenseModel.
