(* C19 -- truncated or corrupted files are rejected cleanly (format logic; crash/time/memory are observed, not proved).
   Statements only; proofs are in Maths/BinCodecProofs.v, Geom/MeshCountProofs.v. *)
From OM Require Import Base.Lists Maths.BinCodec Maths.BinCodecProofs Maths.AsciiCodec Maths.IOFront Maths.IOFrontProofs Geom.MeshCount Geom.MeshCountProofs.
Local Open Scope Z_scope.

(* every strict prefix of a binary Vector / Matrix / SymMatrix file is refused by the binary reader *)
Theorem bin_strict_prefix_rejected : forall o m,
  wf o -> kind_of o <> KSparse -> (m < length (encode o))%nat ->
  exists e, decode_as (kind_of o) (firstn m (encode o)) = Err e.
Proof. exact BinCodecProofs.bin_strict_prefix_rejected. Qed.
Print Assumptions bin_strict_prefix_rejected.

(* the sparse format stores no entry count: any byte string that ends inside the header or inside a
   16-byte entry is refused (holds on the repaired reader) *)
Theorem bin_sparse_partial_entry_rejected : forall bs,
  (Z.of_nat (length bs) < 8 \/ (Z.of_nat (length bs) - 8) mod 16 <> 0) -> forall o, decode_as KSparse bs <> Ok o.
Proof. exact BinCodecProofs.bin_sparse_partial_entry_rejected. Qed.
Print Assumptions bin_sparse_partial_entry_rejected.

(* a file too short for its header is refused whatever the target kind (repaired: the header variable is no
   longer read uninitialised, so no quantification over its garbage value is needed) *)
Theorem bin_short_header_rejected : forall k bs, (length bs < 4)%nat -> decode_as k bs = Err EHeader.
Proof. exact BinCodecProofs.bin_short_header_rejected. Qed.
Print Assumptions bin_short_header_rejected.

(* the text reader is a total function of the token view: every token stream yields Ok or Error *)
Theorem txt_reader_total : forall k ls, (exists o, txt_decode k ls = Ok o) \/ (exists e, txt_decode k ls = Err e).
Proof. intros k ls. destruct (txt_decode k ls); eauto. Qed.
Print Assumptions txt_reader_total.

(* the front end's second attempt (auto-detection): on the pinned tree a strict prefix of a binary Matrix file whose
   first byte is the character '1' was accepted by the text reader as a 1x1 matrix (witness below, confirmed on the
   code, then repaired by fix ef4293b: the text format now demands a tag made of text characters only).  On the
   repaired front end the same witness is refused: *)
Definition w_full49 : obj := OFull 49 2 (repeat 0 98).
Definition w_view : list line :=
  [{| l_empty := false; l_term := false; l_vals := [4607182418800017408]; l_i := Some 1; l_j := None; l_v := None;
      l_hnl := Some 1; l_hnc := None |}].
(* residual: a prefix made of text characters only IS a text file -- the first byte of that same file *)
Definition w_view1 : list line :=
  [{| l_empty := false; l_term := false; l_vals := [4607182418800017408]; l_i := None; l_j := None; l_v := None;
      l_hnl := Some 1; l_hnc := None |}].
Theorem load_prefix_rejected_refuted :
  exists m, (m < length (encode w_full49))%nat /\
    load [FMat; FTxt; FTex; FBin] 0 KFull {| f_bytes := firstn m (encode w_full49); f_lines := w_view1; f_ascii := true |}
    = Ok (OFull 1 1 [4607182418800017408]).
Proof. exists 1%nat. split; [vm_compute; lia|vm_compute; reflexivity]. Qed.
Print Assumptions load_prefix_rejected_refuted.

Example fallback_witness_now_rejected :
  load [FMat; FTxt; FTex; FBin] 0 KFull {| f_bytes := firstn 20 (encode w_full49); f_lines := w_view; f_ascii := true |}
  = Err EStorage.
Proof. vm_compute. reflexivity. Qed.

(* under the hypothesis that auto-detection does not offer the file to another reader, the front end refuses it *)
Theorem load_prefix_rejected_partial : forall order o m ls,
  wf o -> kind_of o <> KSparse -> (m < length (encode o))%nat ->
  (forall f, In f order -> f <> FBin -> identify f (fst (read_tag (firstn m (encode o)))) {| f_bytes := firstn m (encode o); f_lines := ls; f_ascii := false |} = false) ->
  exists e, load order 0 (kind_of o) {| f_bytes := firstn m (encode o); f_lines := ls; f_ascii := false |} = Err e.
Proof. exact IOFrontProofs.load_prefix_rejected_partial. Qed.
Print Assumptions load_prefix_rejected_partial.

(* mesh readers (tri, off): a successful read has consumed exactly the announced numbers of vertices and
   triangles from the file -- nothing is invented (holds on the repaired readers) *)
Theorem tri_announced_count_checked : forall ts pts trs,
  read_tri ts = MOk (pts, trs) ->
  exists (npts ntr : Z) (rest : list mtok),
    Z.of_nat (length pts) = Z.max 0 npts /\ Z.of_nat (length trs) = Z.max 0 ntr /\
    Z.of_nat (length ts) = 2 + 6 * Z.max 0 npts + 4 + 3 * Z.max 0 ntr + Z.of_nat (length rest) /\
    Forall (fun t => forallb (fun a => (0 <=? a) && (a <? npts)) t = true) trs.
Proof. exact MeshCountProofs.tri_announced_count_checked. Qed.
Print Assumptions tri_announced_count_checked.

Theorem off_announced_count_checked : forall ts pts trs,
  read_off ts = MOk (pts, trs) ->
  exists (npts ntr : Z) (rest : list mtok),
    Z.of_nat (length pts) = Z.max 0 npts /\ Z.of_nat (length trs) = Z.max 0 ntr /\
    Z.of_nat (length ts) = 4 + 3 * Z.max 0 npts + 4 * Z.max 0 ntr + Z.of_nat (length rest) /\
    k_word (nth 0 ts {| k_c1 := false; k_us := 0; k_u := 0; k_ds := 0; k_d := 0; k_word := 0 |}) = 1.
Proof. exact MeshCountProofs.off_announced_count_checked. Qed.
Print Assumptions off_announced_count_checked.

Theorem tri_short_file_rejected : forall ts npts r1 u r0,
  get_char ts = MOk (u, r0) -> get_uint r0 = MOk (npts, r1) -> Z.of_nat (length r1) < 6 * npts ->
  exists e, read_tri ts = MErr e.
Proof. exact MeshCountProofs.tri_short_file_rejected. Qed.
Print Assumptions tri_short_file_rejected.

(* .mesh (binary) reader, byte level with the stream's fail flag: an accepted file holds at least the vertices and
   triangles it announces (12 bytes each) -- the reader cannot return more than the file contains *)
From OM Require Import Geom.ReaderCounts Geom.ReaderCountsProofs.
Theorem mesh_announced_count_checked : forall bs pts trs,
  read_mesh bs = MOk (pts, trs) ->
  12 * Z.of_nat (length pts) <= Z.of_nat (length bs) /\ 12 * Z.of_nat (length trs) <= Z.of_nat (length bs).
Proof. intros bs pts trs H. apply ReaderCountsProofs.mesh_announced_count_checked in H. tauto. Qed.
Print Assumptions mesh_announced_count_checked.

(* bnd reader (line-structured tokens, keywords, counts, stream tests -- Geom/ReaderCounts.v, tied by the sweep) *)
Theorem bnd_announced_count_checked : forall s pts trs,
  read_bnd s = MOk (pts, trs) ->
  exists npts ntr : Z,
    Z.of_nat (length pts) = Z.max 0 npts /\ Z.of_nat (length trs) = Z.max 0 ntr /\
    3 * Z.max 0 npts + 3 * Z.max 0 ntr + 2 <= Z.of_nat (rtotal s).
Proof. exact ReaderCountsProofs.bnd_announced_count_checked. Qed.
Print Assumptions bnd_announced_count_checked.

Theorem bnd_short_file_rejected : forall s pts trs,
  Z.of_nat (rtotal s) < 3 * Z.of_nat (length pts) + 3 * Z.of_nat (length trs) + 2 -> read_bnd s <> MOk (pts, trs).
Proof. exact ReaderCountsProofs.bnd_short_file_rejected. Qed.
Print Assumptions bnd_short_file_rejected.

(* .geom / .cond readers: c11's character-level models (Geom/GeomLex.v, tied exactly by C11).  They are total functions
   of the text; a failed stream stays failed through a Domains section; and a Domains section announced with n entries
   yields n entries, each of which consumed its own `Domain` keyword from the text, or the stream is failed (and
   lex_geom answers None: the file is refused).  The chain from the start of the file to the section (the input only
   shrinks through every earlier extraction) is proved for the section's own operations only. *)
From OM Require Import Geom.GeomFile Geom.GeomLex Geom.GeomLexCounts.
Theorem geom_reader_total : forall text, (exists x, lex_geom text = Some x) \/ lex_geom text = None.
Proof. exact GeomLexCounts.geom_reader_total. Qed.
Print Assumptions geom_reader_total.
Theorem cond_reader_total : forall text, (exists x, lex_cond text = Some x) \/ lex_cond text = None.
Proof. exact GeomLexCounts.cond_reader_total. Qed.
Print Assumptions cond_reader_total.
Theorem geom_domains_announced_count_checked : forall v n s s' l, read_domains v n s = (s', l) ->
  length l = n /\ (bad s' = false -> (6 * n + slen s' <= slen s)%nat).
Proof. exact GeomLexCounts.read_domains_count. Qed.
Print Assumptions geom_domains_announced_count_checked.
Theorem geom_failed_stream_stays_failed : forall v n s, bad s = true -> bad (fst (read_domains v n s)) = true.
Proof. exact GeomLexCounts.read_domains_bad. Qed.
Print Assumptions geom_failed_stream_stays_failed.

(* .cond definition loop (token level, repaired reader: a value that cannot be read is an error) and the lookup of the
   domain names; Sensors::load column-count logic.  Models Geom/CondSensors.v, tied outcome-exactly by the sweep. *)
From OM Require Import Geom.CondSensors Geom.CondSensorsProofs.
(* no hang on the model side: every turn of the loop consumes input, so with fuel above the size of the file the loop
   has ended by itself -- the answer of the model never comes from running out of fuel.  (A reader that spins, like the
   seeded change C19-5, shows up as the outcome class `timeout`, which is neither Ok nor Error.) *)
Theorem cond_loop_terminates : forall fuel s acc, (ctotal s < fuel)%nat -> cond_loop fuel s acc <> CFuel.
Proof. exact CondSensorsProofs.cond_loop_terminates. Qed.
Print Assumptions cond_loop_terminates.
Theorem cond_answer_is_own : forall s acc, cond_loop (S (ctotal s)) s acc <> CFuel.
Proof. exact CondSensorsProofs.cond_answer_is_own. Qed.
Print Assumptions cond_answer_is_own.
Theorem cond_strict_total : forall header_ok s doms, load_cond_strict header_ok s doms = true \/ load_cond_strict header_ok s doms = false.
Proof. exact CondSensorsProofs.cond_strict_total. Qed.
Print Assumptions cond_strict_total.
Theorem cond_accept_all_defined : forall s doms, load_cond_strict true s doms = true ->
  exists names, cond_loop (S (ctotal s)) s [] = COk names /\ forall d, In d doms -> In d names.
Proof. exact CondSensorsProofs.cond_accept_all_defined. Qed.
Print Assumptions cond_accept_all_defined.

(* Sensors::load reads the file twice; when the counting pass and the reading pass ignore the same lines (the code:
   the lines without any character, and only those) the reading pass reads exactly the counted lines *)
Theorem sensors_passes_agree : forall (cskip rskip : sline -> bool) ls,
  (forall l, cskip l = rskip l) -> read_rows rskip (length (counted cskip ls)) ls = counted cskip ls.
Proof. exact CondSensorsProofs.sensors_passes_agree. Qed.
Print Assumptions sensors_passes_agree.
Theorem sensors_uniform_columns : forall ls n k nc rows, sensors_load ls = SOk n k nc rows ->
  let ne := filter (fun l => negb (s_empty l)) ls in
  n = length ne /\ (3 <= nc)%nat /\ nc <> 4%nat /\ map fst rows = map s_idx ne /\
  exists c, (c = nc \/ c = S nc) /\ forall l, In l ne -> s_ntok l = c.
Proof. exact CondSensorsProofs.sensors_uniform_columns. Qed.
Print Assumptions sensors_uniform_columns.
Theorem sensors_short_line_rejected : forall ls l0 t l,
  filter (fun l => negb (s_empty l)) ls = l0 :: t -> In l t -> s_ntok l <> s_ntok l0 -> sensors_load ls = SErr.
Proof. exact CondSensorsProofs.sensors_short_line_rejected. Qed.
Print Assumptions sensors_short_line_rejected.
