(* C03 - scaling laws.  Kernel level over the real-number instance of Geom/Kernels.v / Geom/Quadrature.v:
   homogeneity degree of every kernel when all lengths are multiplied by s > 0 (`scl s`; dipole moments and
   directions unchanged); the coplanarity test of solid_angle / analyticD3::f is the only non-homogeneous
   ingredient: `_partial` statements assume it takes the same branch, the `_refuted` statements show the absolute
   form (pinned tree) does not, the unconditional statements hold for the relative form (repaired tree).
   Algebraic level (MathComp, Geom/ScalingAlgebra.v): block degrees => gain laws for lengths and conductivities. *)
From Coq Require Import Reals Lra List QArith.
From OM Require Import Base.Ops Base.Vec3 Base.OpsR Base.Rigid Geom.Kernels Geom.Quadrature
                       Geom.ScaleKernels Geom.CoplanarForms.
Local Open Scope R_scope.

(* ---- real-number facts ------------------------------------------------------------------------------------- *)
Theorem sqrt_scale : forall s x, 0 <= s -> sqrt (s * s * x) = s * sqrt x.
Proof. exact Rigid.sqrt_scale. Qed.
Print Assumptions sqrt_scale.

Theorem ln_ratio_scale : forall k a b, k <> 0 -> ln ((k * a) / (k * b)) = ln (a / b).
Proof. exact ScaleKernels.ln_ratio_scale. Qed.
Print Assumptions ln_ratio_scale.

Theorem atan2_pos_scale : forall k y x, 0 < k -> Ratan2 (k * y) (k * x) = Ratan2 y x.
Proof. exact Ratan2_pos_scale. Qed.
Print Assumptions atan2_pos_scale.

(* ---- vectors -------------------------------------------------------------------------------------------------- *)
Theorem norm_scale : forall s u, 0 <= s -> normR (scl s u) = s * normR u.
Proof. exact scl_norm. Qed.
Print Assumptions norm_scale.

Theorem det_scale : forall s a b c, det3R (scl s a) (scl s b) (scl s c) = s * s * s * det3R a b c.
Proof. exact scl_det3. Qed.
Print Assumptions det_scale.

(* ---- the coplanarity test ------------------------------------------------------------------------------------- *)
Theorem coplanar_relative_scale_invariant : forall s d y1 y2 y3, 0 < s ->
  coplanar_rel (s * s * s * d) (s * y1) (s * y2) (s * y3) = coplanar_rel d y1 y2 y3.
Proof. exact coplanar_rel_scale. Qed.
Print Assumptions coplanar_relative_scale_invariant.

Theorem coplanar_absolute_scale_refuted : exists s d y1 y2 y3, 0 < s /\
  coplanar_abs (s * s * s * d) (s * y1) (s * y2) (s * y3) <> coplanar_abs d y1 y2 y3.
Proof. exact coplanar_abs_scale_refuted. Qed.
Print Assumptions coplanar_absolute_scale_refuted.

Theorem model_coplanar_form :
  (forall d y1 y2 y3, coplanar_test OpsR d y1 y2 y3 = coplanar_abs d y1 y2 y3) \/
  (forall d y1 y2 y3, coplanar_test OpsR d y1 y2 y3 = coplanar_rel d y1 y2 y3).
Proof. exact kernels_coplanar_form. Qed.
Print Assumptions model_coplanar_form.

(* ---- solid angle: degree 0 ------------------------------------------------------------------------------------ *)
Theorem solid_angle_scale_partial : forall s, 0 < s -> forall x v1 v2 v3, cop_same s x v1 v2 v3 ->
  solid_angle OpsR (scl s x) (scl s v1) (scl s v2) (scl s v3) = solid_angle OpsR x v1 v2 v3.
Proof. exact ScaleKernels.solid_angle_scale_partial. Qed.
Print Assumptions solid_angle_scale_partial.

Theorem solid_angle_scale_refuted :
  (forall d y1 y2 y3, coplanar_test OpsR d y1 y2 y3 = coplanar_abs d y1 y2 y3) ->
  exists s x v1 v2 v3, 0 < s /\
    solid_angle OpsR (scl s x) (scl s v1) (scl s v2) (scl s v3) <> solid_angle OpsR x v1 v2 v3.
Proof. exact solid_angle_abs_scale_refuted. Qed.
Print Assumptions solid_angle_scale_refuted.

Lemma rel_cop_same : (forall d y1 y2 y3, coplanar_test OpsR d y1 y2 y3 = coplanar_rel d y1 y2 y3) ->
  forall s, 0 < s -> forall x v1 v2 v3, cop_same s x v1 v2 v3.
Proof. intros H s Hs x v1 v2 v3. unfold cop_same; cbv zeta. rewrite !H. apply coplanar_rel_scale; exact Hs. Qed.

Theorem solid_angle_scale :
  (forall d y1 y2 y3, coplanar_test OpsR d y1 y2 y3 = coplanar_rel d y1 y2 y3) ->
  forall s, 0 < s -> forall x v1 v2 v3,
  solid_angle OpsR (scl s x) (scl s v1) (scl s v2) (scl s v3) = solid_angle OpsR x v1 v2 v3.
Proof. intros H s Hs x v1 v2 v3. apply ScaleKernels.solid_angle_scale_partial; [exact Hs | apply rel_cop_same; assumption]. Qed.
Print Assumptions solid_angle_scale.

Example solid_angle_partial_hypothesis_satisfiable :
  (forall d y1 y2 y3, coplanar_test OpsR d y1 y2 y3 = coplanar_abs d y1 y2 y3) ->
  cop_same 2 (mkV 0 0 0) (mkV 1 0 0) (mkV 0 1 0) (mkV 0 0 1).
Proof.
  intros H. unfold cop_same; cbv zeta.
  match goal with |- ?a = ?b => transitivity b; [| reflexivity] end.
  match goal with |- coplanar_test OpsR ?d ?y1 ?y2 ?y3 = coplanar_test OpsR ?d' ?z1 ?z2 ?z3 => rewrite (H d y1 y2 y3), (H d' z1 z2 z3) end.
  unfold coplanar_abs, Rltb.
  replace (det3R (vsubR (mkV 1 0 0) (mkV 0 0 0)) (vsubR (mkV 0 1 0) (mkV 0 0 0)) (vsubR (mkV 0 0 1) (mkV 0 0 0))) with 1
    by (unfold det3, dot, cross; cbn; ring).
  rewrite thrR_val.
  destruct (Rlt_dec (Rabs (2 * 2 * 2 * 1)) (/ 10000000000)) as [A | A]; destruct (Rlt_dec (Rabs 1) (/ 10000000000)) as [B | B];
    first [reflexivity | exfalso; apply Rabs_def2 in A; lra | exfalso; apply Rabs_def2 in B; lra].
Qed.

(* ---- Green kernel 0, analyticS 1, Ferguson 0, analyticD3 0, dipole potential -2, DipPotDer -3 ---------- *)
Theorem integral_simplified_green_scale : forall s, 0 < s -> forall p0x n0 p1x n1 p1p0 n10,
  integral_simplified_green OpsR (scl s p0x) (s * n0) (scl s p1x) (s * n1) (scl s p1p0) (s * n10)
  = integral_simplified_green OpsR p0x n0 p1x n1 p1p0 n10.
Proof. exact green_scl. Qed.
Print Assumptions integral_simplified_green_scale.

Theorem analyticS_scale_partial : forall s, 0 < s -> forall v0 v1 v2 x, cop_same s x v0 v1 v2 ->
  analyticS_f OpsR (analyticS_init_triangle OpsR (scl s v0) (scl s v1) (scl s v2)) (scl s x)
  = s * analyticS_f OpsR (analyticS_init_triangle OpsR v0 v1 v2) x.
Proof. exact analyticS_f_scale_triangle. Qed.
Print Assumptions analyticS_scale_partial.

Theorem analyticS_scale :
  (forall d y1 y2 y3, coplanar_test OpsR d y1 y2 y3 = coplanar_rel d y1 y2 y3) ->
  forall s, 0 < s -> forall v0 v1 v2 x,
  analyticS_f OpsR (analyticS_init_triangle OpsR (scl s v0) (scl s v1) (scl s v2)) (scl s x)
  = s * analyticS_f OpsR (analyticS_init_triangle OpsR v0 v1 v2) x.
Proof. intros H s Hs v0 v1 v2 x. apply analyticS_f_scale_triangle; [exact Hs | apply rel_cop_same; assumption]. Qed.
Print Assumptions analyticS_scale.

Theorem triangle_area_scale : forall s, 0 < s -> forall v0 v1 v2,
  triangle_area OpsR (scl s v0) (scl s v1) (scl s v2) = s * s * triangle_area OpsR v0 v1 v2.
Proof. exact ScaleKernels.triangle_area_scale. Qed.
Print Assumptions triangle_area_scale.

Theorem ferguson_term_scale_partial : forall s, 0 < s -> forall x Vv A B area, cop_same s x Vv A B ->
  ferguson_term OpsR (scl s x) (scl s Vv) (scl s A) (scl s B) (s * s * area) = ferguson_term OpsR x Vv A B area.
Proof. exact ScaleKernels.ferguson_term_scale. Qed.
Print Assumptions ferguson_term_scale_partial.

Theorem ferguson_term_scale :
  (forall d y1 y2 y3, coplanar_test OpsR d y1 y2 y3 = coplanar_rel d y1 y2 y3) ->
  forall s, 0 < s -> forall x Vv A B area,
  ferguson_term OpsR (scl s x) (scl s Vv) (scl s A) (scl s B) (s * s * area) = ferguson_term OpsR x Vv A B area.
Proof. intros H s Hs x Vv A B area. apply ScaleKernels.ferguson_term_scale; [exact Hs | apply rel_cop_same; assumption]. Qed.
Print Assumptions ferguson_term_scale.

Theorem analyticD3_scale_partial : forall s, 0 < s -> forall v0 v1 v2 x, cop_same s x v0 v1 v2 ->
  analyticD3_f OpsR (analyticD3_init OpsR (scl s v0) (scl s v1) (scl s v2)) (scl s x)
  = analyticD3_f OpsR (analyticD3_init OpsR v0 v1 v2) x.
Proof. exact analyticD3_f_scale. Qed.
Print Assumptions analyticD3_scale_partial.

Theorem analyticD3_scale_refuted :
  (forall d y1 y2 y3, coplanar_test OpsR d y1 y2 y3 = coplanar_abs d y1 y2 y3) ->
  exists s v0 v1 v2 x, 0 < s /\
    analyticD3_f OpsR (analyticD3_init OpsR (scl s v0) (scl s v1) (scl s v2)) (scl s x)
    <> analyticD3_f OpsR (analyticD3_init OpsR v0 v1 v2) x.
Proof. exact analyticD3_abs_scale_refuted. Qed.
Print Assumptions analyticD3_scale_refuted.

Theorem analyticD3_scale :
  (forall d y1 y2 y3, coplanar_test OpsR d y1 y2 y3 = coplanar_rel d y1 y2 y3) ->
  forall s, 0 < s -> forall v0 v1 v2 x,
  analyticD3_f OpsR (analyticD3_init OpsR (scl s v0) (scl s v1) (scl s v2)) (scl s x)
  = analyticD3_f OpsR (analyticD3_init OpsR v0 v1 v2) x.
Proof. intros H s Hs v0 v1 v2 x. apply analyticD3_f_scale; [exact Hs | apply rel_cop_same; assumption]. Qed.
Print Assumptions analyticD3_scale.

Theorem dipole_potential_scale : forall s, 0 < s -> forall r0 q r,
  dipole_potential OpsR (scl s r0) q (scl s r) = / (s * s) * dipole_potential OpsR r0 q r.
Proof. exact ScaleKernels.dipole_potential_scale. Qed.
Print Assumptions dipole_potential_scale.

Theorem analyticDipPotDer_scale : forall s, 0 < s -> forall r0 q p0 p1 p2 r,
  analyticDipPotDer_f OpsR (analyticDipPotDer_init OpsR (scl s r0) q (scl s p0) (scl s p1) (scl s p2)) (scl s r)
  = scl (/ (s * s * s)) (analyticDipPotDer_f OpsR (analyticDipPotDer_init OpsR r0 q p0 p1 p2) r).
Proof. exact analyticDipPotDer_f_scale. Qed.
Print Assumptions analyticDipPotDer_scale.

(* ---- quadrature: nodes scale exactly, integrals gain s^2, the adaptive rule refines the same way ------------ *)
Theorem gauss_point_scale : forall s p t0 t1 t2,
  quad_node OpsR p (scl s t0) (scl s t1) (scl s t2) = scl s (quad_node OpsR p t0 t1 t2).
Proof. exact quad_node_scale. Qed.
Print Assumptions gauss_point_scale.

Theorem triangle_integration_scale : forall s, 0 < s -> forall rule (f f' : V3 -> R) c, 0 < c ->
  (forall p, f' (scl s p) = c * f p) -> forall t0 t1 t2,
  triangle_integration_rule OpsR (RS_scalar OpsR) rule f' (scl s t0) (scl s t1) (scl s t2)
  = s * s * c * triangle_integration_rule OpsR (RS_scalar OpsR) rule f t0 t1 t2.
Proof. intros s Hs rule f f' c Hc H t0 t1 t2. exact (ScaleKernels.triangle_integration_scale s Hs rule f f' c H t0 t1 t2). Qed.
Print Assumptions triangle_integration_scale.

Theorem adaptive_integration_scale : forall s, 0 < s -> forall rule (f f' : V3 -> R) c, 0 < c ->
  (forall p, f' (scl s p) = c * f p) -> forall tol level t0 t1 t2 coarse,
  adaptive_integration_rule OpsR (RS_scalar OpsR) rule tol f' (scl s t0) (scl s t1) (scl s t2) (s * s * c * coarse) level
  = s * s * c * adaptive_integration_rule OpsR (RS_scalar OpsR) rule tol f t0 t1 t2 coarse level.
Proof. intros s Hs rule f f' c Hc H tol level t0 t1 t2 coarse. exact (ScaleKernels.adaptive_integration_scale s Hs rule f f' c Hc H tol level t0 t1 t2 coarse). Qed.
Print Assumptions adaptive_integration_scale.

Theorem adaptive_integration_scale_vector : forall s, 0 < s -> forall rule (f f' : V3 -> V3) c, 0 < c ->
  (forall p, f' (scl s p) = scl c (f p)) -> forall tol level t0 t1 t2 coarse,
  adaptive_integration_rule OpsR (RS_vec3 OpsR) rule tol f' (scl s t0) (scl s t1) (scl s t2) (scl (s * s * c) coarse) level
  = scl (s * s * c) (adaptive_integration_rule OpsR (RS_vec3 OpsR) rule tol f t0 t1 t2 coarse level).
Proof. intros s Hs rule f f' c Hc H tol level t0 t1 t2 coarse. exact (ScaleKernels.adaptive_integration_scale_v s Hs rule f f' c Hc H tol level t0 t1 t2 coarse). Qed.
Print Assumptions adaptive_integration_scale_vector.

(* block degrees: an S entry has degree 3, a D entry degree 2, the dipole right-hand side 0 (triangle rows) and -1 (vertex rows) *)
Theorem S_entry_scale :
  (forall d y1 y2 y3, coplanar_test OpsR d y1 y2 y3 = coplanar_rel d y1 y2 y3) ->
  forall s, 0 < s -> forall rule v0 v1 v2 t0 t1 t2,
  triangle_integration_rule OpsR (RS_scalar OpsR) rule
     (analyticS_f OpsR (analyticS_init_triangle OpsR (scl s v0) (scl s v1) (scl s v2))) (scl s t0) (scl s t1) (scl s t2)
  = s * s * s * triangle_integration_rule OpsR (RS_scalar OpsR) rule
     (analyticS_f OpsR (analyticS_init_triangle OpsR v0 v1 v2)) t0 t1 t2.
Proof.
  intros H s Hs rule v0 v1 v2 t0 t1 t2.
  apply (ScaleKernels.triangle_integration_scale s Hs rule _ _ s).
  intros p. apply analyticS_f_scale_triangle; [exact Hs | apply rel_cop_same; assumption].
Qed.
Print Assumptions S_entry_scale.

Theorem D_entry_scale :
  (forall d y1 y2 y3, coplanar_test OpsR d y1 y2 y3 = coplanar_rel d y1 y2 y3) ->
  forall s, 0 < s -> forall rule v0 v1 v2 t0 t1 t2,
  triangle_integration_rule OpsR (RS_vec3 OpsR) rule
     (analyticD3_f OpsR (analyticD3_init OpsR (scl s v0) (scl s v1) (scl s v2))) (scl s t0) (scl s t1) (scl s t2)
  = scl (s * s * 1) (triangle_integration_rule OpsR (RS_vec3 OpsR) rule
     (analyticD3_f OpsR (analyticD3_init OpsR v0 v1 v2)) t0 t1 t2).
Proof.
  intros H s Hs rule v0 v1 v2 t0 t1 t2.
  apply (ScaleKernels.triangle_integration_scale_v s Hs rule _ _ 1).
  intros p. rewrite analyticD3_f_scale by (exact Hs || (apply rel_cop_same; assumption)). unfold scl. v3.
Qed.
Print Assumptions D_entry_scale.

Theorem dipole_rhs_triangle_rows_scale : forall s, 0 < s -> forall rule r0 q tol level t0 t1 t2 coarse,
  adaptive_integration_rule OpsR (RS_scalar OpsR) rule tol (dipole_potential OpsR (scl s r0) q) (scl s t0) (scl s t1) (scl s t2)
     (s * s * / (s * s) * coarse) level
  = s * s * / (s * s) * adaptive_integration_rule OpsR (RS_scalar OpsR) rule tol (dipole_potential OpsR r0 q) t0 t1 t2 coarse level.
Proof.
  intros s Hs rule r0 q tol level t0 t1 t2 coarse.
  apply (ScaleKernels.adaptive_integration_scale s Hs rule _ _ (/ (s * s))).
  - apply Rinv_0_lt_compat. apply Rmult_lt_0_compat; assumption.
  - intros p. apply ScaleKernels.dipole_potential_scale; exact Hs.
Qed.
Print Assumptions dipole_rhs_triangle_rows_scale.

(* ---- assembly level: block degrees of the head matrix of C10's assembly model (kernels as parameters) ------------ *)
From OM Require Geom.Assembly Geom.AssemblyProofs Geom.ScaleAssembly.

(* H(s) = s * D_s H D_s with D_s = diag(I_v, s I_t): from the kernel degrees (S_entry_scale: 3, D_entry_scale: 2, edge
   products and areas: 2) through Details::HeadMatrix (S, N computed from the stored S values, D) and Details::deflate *)
Theorem headmat_length_scale : forall (s : R) (pos pos' : N -> R * R * R) (area area' : N -> R)
    (Sk Sk' : N -> N -> R) (Dk Dk' : N -> N -> nat -> R) (istri : N -> bool) (geo : Assembly.igeom R) (K : R),
  s <> 0 ->
  (forall t1 v1 t2 v2, Assembly.dot AssemblyProofs.RO (Assembly.CB AssemblyProofs.RO pos' t1 v1) (Assembly.CB AssemblyProofs.RO pos' t2 v2)
                       = s * s * Assembly.dot AssemblyProofs.RO (Assembly.CB AssemblyProofs.RO pos t1 v1) (Assembly.CB AssemblyProofs.RO pos t2 v2)) ->
  (forall t, area' t = s * s * area t) ->
  (forall a b, Sk' a b = s * s * s * Sk a b) ->
  (forall a b i, Dk' a b i = s * s * Dk a b i) ->
  (forall k t, In t (Assembly.mtris (Assembly.gmesh geo k)) -> istri (Assembly.tix t) = true) ->
  (forall v, istri (Assembly.vix geo v) = false) -> istri 0%N = false ->
  forall r c, Assembly.mget AssemblyProofs.RO (Assembly.headmat AssemblyProofs.RO K pos' area' Sk' Dk' geo) r c
              = s * ScaleAssembly.phi s istri r * ScaleAssembly.phi s istri c
                * Assembly.mget AssemblyProofs.RO (Assembly.headmat AssemblyProofs.RO K pos area Sk Dk geo) r c.
Proof. exact ScaleAssembly.headmat_length_scale. Qed.
Print Assumptions headmat_length_scale.

(* H(k) = k * E_k H E_k with E_k = diag(I_v, k^-1 I_t): pair coefficients sigma*k, sigma^-1/k, indicator unchanged *)
Theorem headmat_sigma_scale : forall (k : R) (pos : N -> R * R * R) (area : N -> R)
    (Sk : N -> N -> R) (Dk : N -> N -> nat -> R) (istri : N -> bool) (geo : Assembly.igeom R) (K : R),
  k <> 0 ->
  (forall j t, In t (Assembly.mtris (Assembly.gmesh geo j)) -> istri (Assembly.tix t) = true) ->
  (forall v, istri (Assembly.vix geo v) = false) -> istri 0%N = false ->
  forall r c, Assembly.mget AssemblyProofs.RO (Assembly.headmat AssemblyProofs.RO K pos area Sk Dk (ScaleAssembly.geo' (/ k) k 1 geo)) r c
              = k * ScaleAssembly.phi (/ k) istri r * ScaleAssembly.phi (/ k) istri c
                * Assembly.mget AssemblyProofs.RO (Assembly.headmat AssemblyProofs.RO K pos area Sk Dk geo) r c.
Proof. exact ScaleAssembly.headmat_sigma_scale. Qed.
Print Assumptions headmat_sigma_scale.

(* ---- algebraic lift (MathComp): block degrees => gain laws --------------------------------------------------- *)
Set Warnings "-notation-overridden,-ambiguous-paths,-notation-incompatible-format".
From mathcomp Require Import all_ssreflect all_algebra.
From OM Require Import Geom.ScalingAlgebra.
Import GRing.Theory.
Local Open Scope ring_scope.
Local Close Scope R_scope.

(* H = [N D^T; D S] invertible, rhs [bv; bt]; lengths*s: N*s, D*s^2, S*s^3, bv/s, bt  =>  potentials * s^-2 *)
Theorem potentials_length_scale : forall (F : fieldType) (nv nt m : nat)
  (N : 'M[F]_nv) (Dt : 'M[F]_(nv, nt)) (D : 'M[F]_(nt, nv)) (S : 'M[F]_nt) (bv : 'M[F]_(nv, m)) (bt : 'M[F]_(nt, m)),
  block_mx N Dt D S \in unitmx -> forall s : F, s != 0 -> forall xs : 'M[F]_(nv + nt, m),
  block_mx (s *: N) (s ^+ 2 *: Dt) (s ^+ 2 *: D) (s ^+ 3 *: S) *m xs = col_mx (s^-1 *: bv) bt ->
  usubmx xs = s ^- 2 *: usubmx (invmx (block_mx N Dt D S) *m col_mx bv bt).
Proof. move=> F nv nt m N Dt D S bv bt Hinv s s0 xs. exact: ScalingAlgebra.potentials_length_scale. Qed.
Print Assumptions potentials_length_scale.

Theorem gain_eeg_scale : forall (F : fieldType) (nv nt m p : nat)
  (N : 'M[F]_nv) (Dt : 'M[F]_(nv, nt)) (D : 'M[F]_(nt, nv)) (S : 'M[F]_nt) (bv : 'M[F]_(nv, m)) (bt : 'M[F]_(nt, m)),
  block_mx N Dt D S \in unitmx -> forall s : F, s != 0 -> forall (A : 'M[F]_(p, nv)) (xs : 'M[F]_(nv + nt, m)),
  block_mx (s *: N) (s ^+ 2 *: Dt) (s ^+ 2 *: D) (s ^+ 3 *: S) *m xs = col_mx (s^-1 *: bv) bt ->
  A *m usubmx xs = s ^- 2 *: (A *m usubmx (invmx (block_mx N Dt D S) *m col_mx bv bt)).
Proof. move=> F nv nt m p N Dt D S bv bt Hinv s s0 A xs. exact: ScalingAlgebra.gain_eeg_scale. Qed.
Print Assumptions gain_eeg_scale.

Theorem gain_meg_scale : forall (F : fieldType) (nv nt m p : nat)
  (N : 'M[F]_nv) (Dt : 'M[F]_(nv, nt)) (D : 'M[F]_(nt, nv)) (S : 'M[F]_nt) (bv : 'M[F]_(nv, m)) (bt : 'M[F]_(nt, m)),
  block_mx N Dt D S \in unitmx -> forall s : F, s != 0 -> forall (M : 'M[F]_(p, nv)) (P : 'M[F]_(p, m)) (xs : 'M[F]_(nv + nt, m)),
  block_mx (s *: N) (s ^+ 2 *: Dt) (s ^+ 2 *: D) (s ^+ 3 *: S) *m xs = col_mx (s^-1 *: bv) bt ->
  (s ^- 2 *: P) + M *m usubmx xs = s ^- 2 *: (P + M *m usubmx (invmx (block_mx N Dt D S) *m col_mx bv bt)).
Proof. move=> F nv nt m p N Dt D S bv bt Hinv s s0 M P xs. exact: ScalingAlgebra.gain_meg_scale. Qed.
Print Assumptions gain_meg_scale.

Theorem gain_internal_potential_scale : forall (F : fieldType) (nv nt m p : nat)
  (N : 'M[F]_nv) (Dt : 'M[F]_(nv, nt)) (D : 'M[F]_(nt, nv)) (S : 'M[F]_nt) (bv : 'M[F]_(nv, m)) (bt : 'M[F]_(nt, m)),
  block_mx N Dt D S \in unitmx -> forall s : F, s != 0 ->
  forall (Bv : 'M[F]_(p, nv)) (Bt : 'M[F]_(p, nt)) (P : 'M[F]_(p, m)) (xs : 'M[F]_(nv + nt, m)),
  block_mx (s *: N) (s ^+ 2 *: Dt) (s ^+ 2 *: D) (s ^+ 3 *: S) *m xs = col_mx (s^-1 *: bv) bt ->
  (s ^- 2 *: P) + row_mx Bv (s *: Bt) *m xs = s ^- 2 *: (P + row_mx Bv Bt *m (invmx (block_mx N Dt D S) *m col_mx bv bt)).
Proof. move=> F nv nt m p N Dt D S bv bt Hinv s s0 Bv Bt P xs. exact: ScalingAlgebra.gain_internal_pot_scale. Qed.
Print Assumptions gain_internal_potential_scale.

(* derived laws for the other source kinds (same head matrix, other right-hand-side degrees) *)
Theorem gain_eit_unit_current_scale : forall (F : fieldType) (nv nt m p : nat)
  (N : 'M[F]_nv) (Dt : 'M[F]_(nv, nt)) (D : 'M[F]_(nt, nv)) (S : 'M[F]_nt) (bv : 'M[F]_(nv, m)) (bt : 'M[F]_(nt, m)),
  block_mx N Dt D S \in unitmx -> forall s : F, s != 0 -> forall (A : 'M[F]_(p, nv)) (xs : 'M[F]_(nv + nt, m)),
  block_mx (s *: N) (s ^+ 2 *: Dt) (s ^+ 2 *: D) (s ^+ 3 *: S) *m xs = col_mx bv (s *: bt) ->
  A *m usubmx xs = s^-1 *: (A *m usubmx (invmx (block_mx N Dt D S) *m col_mx bv bt)).
Proof. move=> F nv nt m p N Dt D S bv bt Hinv s s0 A xs. exact: ScalingAlgebra.gain_eit_unit_current_scale. Qed.
Print Assumptions gain_eit_unit_current_scale.

Theorem gain_eit_unit_density_scale : forall (F : fieldType) (nv nt m p : nat)
  (N : 'M[F]_nv) (Dt : 'M[F]_(nv, nt)) (D : 'M[F]_(nt, nv)) (S : 'M[F]_nt) (bv : 'M[F]_(nv, m)) (bt : 'M[F]_(nt, m)),
  block_mx N Dt D S \in unitmx -> forall s : F, s != 0 -> forall (A : 'M[F]_(p, nv)) (xs : 'M[F]_(nv + nt, m)),
  block_mx (s *: N) (s ^+ 2 *: Dt) (s ^+ 2 *: D) (s ^+ 3 *: S) *m xs = col_mx (s ^+ 2 *: bv) (s ^+ 3 *: bt) ->
  A *m usubmx xs = s *: (A *m usubmx (invmx (block_mx N Dt D S) *m col_mx bv bt)).
Proof. move=> F nv nt m p N Dt D S bv bt Hinv s s0 A xs. exact: ScalingAlgebra.gain_eit_unit_density_scale. Qed.
Print Assumptions gain_eit_unit_density_scale.

Theorem gain_surface_source_scale : forall (F : fieldType) (nv nt m p : nat)
  (N : 'M[F]_nv) (Dt : 'M[F]_(nv, nt)) (D : 'M[F]_(nt, nv)) (S : 'M[F]_nt) (bv : 'M[F]_(nv, m)) (bt : 'M[F]_(nt, m)),
  block_mx N Dt D S \in unitmx -> forall s : F, s != 0 -> forall (A : 'M[F]_(p, nv)) (xs : 'M[F]_(nv + nt, m)),
  block_mx (s *: N) (s ^+ 2 *: Dt) (s ^+ 2 *: D) (s ^+ 3 *: S) *m xs = col_mx (s *: bv) (s ^+ 2 *: bt) ->
  A *m usubmx xs = A *m usubmx (invmx (block_mx N Dt D S) *m col_mx bv bt).
Proof. move=> F nv nt m p N Dt D S bv bt Hinv s s0 A xs. exact: ScalingAlgebra.gain_surface_source_scale. Qed.
Print Assumptions gain_surface_source_scale.

(* conductivities*k: N*k, D*1, S/k, bv, bt/k  =>  potentials / k, MEG unchanged *)
Theorem gain_sigma_scale : forall (F : fieldType) (nv nt m p : nat)
  (N : 'M[F]_nv) (Dt : 'M[F]_(nv, nt)) (D : 'M[F]_(nt, nv)) (S : 'M[F]_nt) (bv : 'M[F]_(nv, m)) (bt : 'M[F]_(nt, m)),
  block_mx N Dt D S \in unitmx -> forall k : F, k != 0 -> forall (A : 'M[F]_(p, nv)) (xk : 'M[F]_(nv + nt, m)),
  block_mx (k *: N) (1 *: Dt) (1 *: D) (k^-1 *: S) *m xk = col_mx bv (k^-1 *: bt) ->
  A *m usubmx xk = k^-1 *: (A *m usubmx (invmx (block_mx N Dt D S) *m col_mx bv bt)).
Proof. move=> F nv nt m p N Dt D S bv bt Hinv k k0 A xk. exact: ScalingAlgebra.gain_sigma_scale. Qed.
Print Assumptions gain_sigma_scale.

Theorem gain_meg_sigma_invariant : forall (F : fieldType) (nv nt m p : nat)
  (N : 'M[F]_nv) (Dt : 'M[F]_(nv, nt)) (D : 'M[F]_(nt, nv)) (S : 'M[F]_nt) (bv : 'M[F]_(nv, m)) (bt : 'M[F]_(nt, m)),
  block_mx N Dt D S \in unitmx -> forall k : F, k != 0 -> forall (M : 'M[F]_(p, nv)) (P : 'M[F]_(p, m)) (xk : 'M[F]_(nv + nt, m)),
  block_mx (k *: N) (1 *: Dt) (1 *: D) (k^-1 *: S) *m xk = col_mx bv (k^-1 *: bt) ->
  P + (k *: M) *m usubmx xk = P + M *m usubmx (invmx (block_mx N Dt D S) *m col_mx bv bt).
Proof. move=> F nv nt m p N Dt D S bv bt Hinv k k0 M P xk. exact: ScalingAlgebra.gain_meg_sigma_invariant. Qed.
Print Assumptions gain_meg_sigma_invariant.

Theorem gain_internal_potential_sigma_scale : forall (F : fieldType) (nv nt m p : nat)
  (N : 'M[F]_nv) (Dt : 'M[F]_(nv, nt)) (D : 'M[F]_(nt, nv)) (S : 'M[F]_nt) (bv : 'M[F]_(nv, m)) (bt : 'M[F]_(nt, m)),
  block_mx N Dt D S \in unitmx -> forall k : F, k != 0 ->
  forall (Bv : 'M[F]_(p, nv)) (Bt : 'M[F]_(p, nt)) (P : 'M[F]_(p, m)) (xk : 'M[F]_(nv + nt, m)),
  block_mx (k *: N) (1 *: Dt) (1 *: D) (k^-1 *: S) *m xk = col_mx bv (k^-1 *: bt) ->
  (k^-1 *: P) + row_mx Bv (k^-1 *: Bt) *m xk = k^-1 *: (P + row_mx Bv Bt *m (invmx (block_mx N Dt D S) *m col_mx bv bt)).
Proof. move=> F nv nt m p N Dt D S bv bt Hinv k k0 Bv Bt P xk. exact: ScalingAlgebra.gain_internal_pot_sigma_scale. Qed.
Print Assumptions gain_internal_potential_sigma_scale.

(* the invertibility hypothesis is satisfiable (identity blocks, 2 potentials + 3 currents over the rationals) *)
Example lift_hypotheses_satisfiable : (block_mx 1%:M 0 0 1%:M : 'M[rat]_(2 + 3)) \in unitmx.
Proof. by rewrite -scalar_mx_block unitmx1. Qed.
