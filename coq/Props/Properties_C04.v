(* C04 -- direct and adjoint gain computations give the same lead fields (exact algebra over any field).
   Model: Geom/Gain.v (gain.h: linsolve, GainEEG, GainMEG, GainEEGadjoint, GainMEGadjoint, GainEEGMEGadjoint).
   Premises visible in the statements:
     solveLin_spec  -- LAPACK contract: SymMatrix::solveLin returns H^-1 B for invertible H (assumed, not verified);
     col i S = dsm1 i -- column i of the batch source matrix is the source column of dipole i alone: this is C08's
                       theorem dsm_column_local (Properties_C08.v) about the DipSourceMat loop. *)
From mathcomp Require Import all_ssreflect all_algebra.
From OM Require Import Geom.Gain.
Set Implicit Arguments.
Unset Strict Implicit.
Unset Printing Implicit Defensive.
Import GRing.Theory.
Local Open Scope ring_scope.

Section C04.
Variable R : fieldType.
Variables n me mm nd : nat.
Variable H : 'M[R]_n.
Variable A : 'M[R]_(me, n).
Variable B : 'M[R]_(mm, n).
Variable S : 'M[R]_(n, nd).
Variable P : 'M[R]_(mm, nd).
Variable dsm1 : 'I_nd -> 'cV[R]_n.
Variable solveLin : 'M[R]_n -> forall k, 'M[R]_(n, k) -> 'M[R]_(n, k).
Hypothesis solveLin_spec : forall (M : 'M[R]_n) k (X : 'M[R]_(n, k)), M \in unitmx -> solveLin M X = invmx M *m X.

(* gain.h:48: transposing, solving and transposing back multiplies on the right by (H^-1)^T *)
Theorem linsolve_transposes_twice : forall k (X : 'M[R]_(k, n)),
  H \in unitmx -> linsolve H solveLin X = X *m (invmx H)^T.
Proof. exact: Gain.linsolve_transposes_twice. Qed.

Theorem adjoint_eq_direct :
  H^T = H -> H \in unitmx -> (forall i, col i S = dsm1 i) ->
  gain_adjoint H A dsm1 solveLin = gain_direct A S (invmx H).
Proof. exact: Gain.adjoint_eq_direct. Qed.

(* the primary-field column is added exactly once per dipole *)
Theorem meg_adjoint_eq_direct :
  H^T = H -> H \in unitmx -> (forall i, col i S = dsm1 i) ->
  gain_meg_adjoint H B P dsm1 solveLin = gain_meg_direct B S P (invmx H).
Proof. exact: Gain.meg_adjoint_eq_direct. Qed.

(* the combined computation (one solve for the stacked sensor rows, row ranges [0,me) and [me,me+mm)) *)
Theorem combined_eq_separate_eeg : H \in unitmx ->
  gain_eegmeg_adjoint_eeg H A B dsm1 solveLin = gain_adjoint H A dsm1 solveLin.
Proof. exact: Gain.combined_eq_separate_eeg. Qed.

Theorem combined_eq_separate_meg : H \in unitmx ->
  gain_eegmeg_adjoint_meg H A B P dsm1 solveLin = gain_meg_adjoint H B P dsm1 solveLin.
Proof. exact: Gain.combined_eq_separate_meg. Qed.

(* the row ranges of gain.h are the two blocks of the stacked solution *)
Theorem submat_rows_up : forall (M : 'M[R]_(me + mm, n)), submat_rows 0 me M = usubmx M.
Proof. exact: Gain.submat_rows_up. Qed.
Theorem submat_rows_down : forall (M : 'M[R]_(me + mm, n)), submat_rows me mm M = dsubmx M.
Proof. exact: Gain.submat_rows_down. Qed.

(* what the adjoint path computes when H is not symmetric: symmetry is needed, and is the only thing needed *)
Theorem adjoint_general : H \in unitmx -> (forall i, col i S = dsm1 i) ->
  gain_adjoint H A dsm1 solveLin = A *m (invmx H)^T *m S.
Proof. exact: Gain.adjoint_general. Qed.
(* C08's clause "and therefore of every dipole gain" for the adjoint classes: column i is a function of dipole i's own source
   column and primary-field column only, whatever the batch (no blocks, no neighbours) *)
Theorem gain_adjoint_column_local : forall i, col i (gain_adjoint H A dsm1 solveLin) = linsolve H solveLin A *m dsm1 i.
Proof. exact: Gain.gain_adjoint_col. Qed.
Theorem gain_meg_adjoint_column_local : forall i,
  col i (gain_meg_adjoint H B P dsm1 solveLin) = linsolve H solveLin B *m dsm1 i + col i P.
Proof. exact: Gain.gain_meg_adjoint_col. Qed.
Theorem gain_eegmeg_adjoint_eeg_column_local : forall i,
  col i (gain_eegmeg_adjoint_eeg H A B dsm1 solveLin) = submat_rows 0 me (linsolve H solveLin (eegmeg_rhs A B)) *m dsm1 i.
Proof. exact: Gain.gain_eegmeg_adjoint_eeg_col. Qed.
Theorem gain_eegmeg_adjoint_meg_column_local : forall i,
  col i (gain_eegmeg_adjoint_meg H A B P dsm1 solveLin) = submat_rows me mm (linsolve H solveLin (eegmeg_rhs A B)) *m dsm1 i + col i P.
Proof. exact: Gain.gain_eegmeg_adjoint_meg_col. Qed.
End C04.

Print Assumptions linsolve_transposes_twice.
Print Assumptions adjoint_eq_direct.
Print Assumptions meg_adjoint_eq_direct.
Print Assumptions combined_eq_separate_eeg.
Print Assumptions combined_eq_separate_meg.
Print Assumptions submat_rows_up.
Print Assumptions submat_rows_down.
Print Assumptions adjoint_general.

(* the premises are satisfiable: the identity head matrix with the exact solver *)
Example premises_satisfiable (R : fieldType) (n : nat) :
  let H := (1%:M : 'M[R]_n) in
  let solve := (fun (M : 'M[R]_n) k (X : 'M[R]_(n, k)) => invmx M *m X) in
  H^T = H /\ H \in unitmx /\
  (forall (M : 'M[R]_n) k (X : 'M[R]_(n, k)), M \in unitmx -> solve M k X = invmx M *m X).
Proof. by split; [rewrite trmx1 | split; [rewrite unitmx1 | ]]. Qed.

(* without symmetry the two paths differ: 2x2 witness over the rationals, H = [[1,1],[0,1]] *)
Example adjoint_needs_symmetry :
  let H : 'M[rat]_2 := \matrix_(i, j) (if (i == 0) || (j == 1) then 1 else 0) in
  let A : 'M[rat]_(1, 2) := \row_j (if j == 0 then 1 else 0) in
  let S : 'M[rat]_(2, 1) := \col_i (if i == 1 then 1 else 0) in
  H \in unitmx /\ A *m (invmx H)^T *m S <> A *m invmx H *m S.
Proof.
set H := (X in let H := X in _); set A := (X in let A := X in _); set S := (X in let S := X in _) => /=.
have HV : H *m (\matrix_(i, j) (if i == j then 1 else if (i == 0) then -1 else 0)) = 1%:M.
  apply/matrixP => i j; rewrite !mxE !big_ord_recl big_ord0 !mxE /=.
  by case: i => [[|[|i]] Hi] //; case: j => [[|[|j]] Hj] //=; rewrite ?mulr1 ?mul1r ?mulr0 ?mul0r ?addr0 ?add0r ?mulrN ?mulr1 ?subrr.
have Hu : H \in unitmx by case/mulmx1_unit: HV.
split => // E.
have IV : invmx H = \matrix_(i, j) (if i == j then 1 else if (i == 0) then -1 else 0).
  by rewrite -[RHS]mul1mx -(mulVmx Hu) -mulmxA HV mulmx1.
move/matrixP/(_ 0 0): E; rewrite IV !mxE !big_ord_recl !big_ord0 !mxE /= !big_ord_recl !big_ord0 !mxE /=.
by rewrite !mulr0 !mul0r !mulr1 !mul1r !addr0 !add0r => /eqP; rewrite eq_sym oppr_eq0 oner_eq0.
Qed.

(* ---- the premise `col i S = dsm1 i` discharged from C08's loop model (Geom/Sources.v) ----
   S is what the DipSourceMat model returns for the batch, dsm1 i what it returns for dipole i alone (each from
   arbitrary initial buffer contents): then the adjoint gains equal the direct ones, with no column premise left. *)
From Coq Require ZArith List.
From OM Require Import Base.Ops Geom.AdaptInt Geom.Sources Geom.GainBridge.
Section C04_with_C08.
Variable R : fieldType.
Variable contains : domain (F:=R) -> pt (F:=R) -> bool.
Variable IDer : dipole (F:=R) -> triangle (F:=R) -> pt (F:=R).
Variable IPot : dipole (F:=R) -> triangle (F:=R) -> R.
Variable K : R.
Variable geo : geometry (F:=R).
Variable named : option BinNums.Z.
Variables n me mm nd : nat.
Variable ds : list (dipole (F:=R)).
Variable d0 : dipole (F:=R).
Variables init init1 : list R.
Variable M : list (list R).
Variable H : 'M[R]_n.
Variable A : 'M[R]_(me, n).
Variable B : 'M[R]_(mm, n).
Variable P : 'M[R]_(mm, nd).
Variable solveLin : 'M[R]_n -> forall k, 'M[R]_(n, k) -> 'M[R]_(n, k).
Hypothesis solveLin_spec : forall (X : 'M[R]_n) k (Y : 'M[R]_(n, k)), X \in unitmx -> solveLin X Y = invmx X *m Y.

Theorem adjoint_eq_direct_dsm :
  List.length ds = nd -> List.length init = g_size geo -> List.length init1 = g_size geo ->
  DSM (FOps R) contains IDer IPot K geo named init ds = Some M ->
  H^T = H -> H \in unitmx ->
  gain_adjoint H A (dsm1_of contains IDer IPot K geo named n ds d0 init1) solveLin
  = gain_direct A (S_of n nd M) (invmx H).
Proof. move=> Hd Hi Hi1 Hb Hs Hu; exact: (GainBridge.adjoint_eq_direct_dsm d0 Hd Hi Hi1 Hb A solveLin_spec Hs Hu). Qed.

Theorem meg_adjoint_eq_direct_dsm :
  List.length ds = nd -> List.length init = g_size geo -> List.length init1 = g_size geo ->
  DSM (FOps R) contains IDer IPot K geo named init ds = Some M ->
  H^T = H -> H \in unitmx ->
  gain_meg_adjoint H B P (dsm1_of contains IDer IPot K geo named n ds d0 init1) solveLin
  = gain_meg_direct B (S_of n nd M) P (invmx H).
Proof. move=> Hd Hi Hi1 Hb Hs Hu; exact: (GainBridge.meg_adjoint_eq_direct_dsm d0 Hd Hi Hi1 Hb B P solveLin_spec Hs Hu). Qed.
End C04_with_C08.
Print Assumptions adjoint_eq_direct_dsm.
Print Assumptions meg_adjoint_eq_direct_dsm.

(* ---- sanity of the executable reference the implementation is compared with (exact rational arithmetic) ---- *)
From OM Require Geom.GainFloat Geom.GainFloatExamples Geom.AdaptIntProofs.
Example reference_solve_exact :
  GainFloatExamples.qmat_eq
    (GainFloat.matmul AdaptIntProofs.QOps GainFloatExamples.exH
       (GainFloat.solve AdaptIntProofs.QOps GainFloatExamples.exH GainFloatExamples.exS) 2)
    GainFloatExamples.exS = true.
Proof. exact GainFloatExamples.solve_exact_example. Qed.

(* ---- the model is written with the index arithmetic of the *current* source (coq/Gen/GenGain.v is regenerated from
   symmatrix.cpp and gain.h by translators/t_gain.py before every build) ---- *)
From Coq Require String.
From OM Require Gen.GenGain Geom.GainSites.
Local Notation z0 := BinNums.Z0.
Local Notation z1 := (BinNums.Zpos BinNums.xH).
Theorem solveLin_call_ok : forall nlin rn rc : BinNums.Z,
  BinInt.Z.le z0 rn -> BinInt.Z.le z1 rc -> GenGain.gen_solveLin_assert nlin rn rc = true ->
  GenGain.gen_sptrf_uplo = GenGain.gen_sptrs_uplo /\
  GenGain.gen_sptrf_n nlin rn rc = nlin /\ GenGain.gen_sptrs_n nlin rn rc = nlin /\
  GenGain.gen_sptrs_nrhs nlin rn rc = rc /\ GenGain.gen_sptrs_ldb nlin rn rc = rn /\
  BinInt.Z.add (BinInt.Z.mul (GenGain.gen_sptrs_ldb nlin rn rc) (BinInt.Z.sub (GenGain.gen_sptrs_nrhs nlin rn rc) z1)) (GenGain.gen_sptrs_n nlin rn rc)
    = BinInt.Z.mul rn rc /\
  (BinInt.Z.le z1 nlin -> BinInt.Z.le (BinInt.Z.max z1 (GenGain.gen_sptrs_n nlin rn rc)) (GenGain.gen_sptrs_ldb nlin rn rc)).
Proof. exact GainSites.solveLin_call_ok. Qed.

Theorem linsolve_steps_ok :
  GenGain.gen_linsolve_steps = (GenGain.StTranspose :: GenGain.StSolve :: GenGain.StRetTranspose :: nil)%list.
Proof. exact GainSites.linsolve_steps_ok. Qed.

Theorem adjoint_columns_ok : forall i dc : BinNums.Z,
  GenGain.gen_eeg_adjoint_rhs = GainSites.name_eeg /\ GenGain.gen_meg_adjoint_rhs = GainSites.name_meg /\
  GenGain.gen_eeg_adjoint_dip i dc = (i, z1, z0, dc, z0) /\ GenGain.gen_meg_adjoint_dip i dc = (i, z1, z0, dc, z0) /\
  GenGain.gen_both_adjoint_dip i dc = (i, z1, z0, dc, z0) /\
  GenGain.gen_eeg_adjoint_plus i = None /\ GenGain.gen_meg_adjoint_plus i = Some i /\
  GenGain.gen_both_eeg_plus i = None /\ GenGain.gen_both_meg_plus i = Some i.
Proof. exact GainSites.adjoint_columns_ok. Qed.

Theorem eegmeg_ranges_ok : forall i me mm n : BinNums.Z,
  GenGain.gen_rhs_shape me mm n = (BinInt.Z.add me mm, n) /\
  GenGain.gen_rhs_row_eeg i me mm n = i /\ GenGain.gen_rhs_row_meg i me mm n = BinInt.Z.add me i /\
  GenGain.gen_both_eeg_range me mm n = (z0, me, z0, n) /\ GenGain.gen_both_meg_range me mm n = (me, mm, z0, n).
Proof. exact GainSites.eegmeg_ranges_ok. Qed.
Theorem dsm_integrators_agree : GenGain.gen_dsm_default_integrator = GenGain.gen_dsm_tool_integrator.
Proof. exact GainSites.dsm_integrators_agree. Qed.
Theorem translator_clean : GenGain.gen_problems = nil.
Proof. exact GainSites.translator_clean. Qed.
Print Assumptions solveLin_call_ok.
Print Assumptions eegmeg_ranges_ok.

(* ---- GainEEGMEGadjoint fills its right-hand side with getlin (the only library user of SparseMatrix::getlin):
   with getlin = row (C14's theorem for the sparse container; Matrix::getlin: C13) the row-by-row construction is the
   stacked matrix of the model above; with a getlin that loses the entry of column 0 the combined EEG lead field is wrong
   while GainEEGadjoint (which never calls getlin) is right -- the formal counterpart of a getlin defect. ---- *)
Section C04_getlin.
Variable R : fieldType.
Variables n me mm nd : nat.
Variable H : 'M[R]_n.
Variable A : 'M[R]_(me, n).
Variable B : 'M[R]_(mm, n).
Variable P : 'M[R]_(mm, nd).
Variable dsm1 : 'I_nd -> 'cV[R]_n.
Variable solveLin : 'M[R]_n -> forall k, 'M[R]_(n, k) -> 'M[R]_(n, k).
Variable getlinA : 'I_me -> 'rV[R]_n.
Variable getlinB : 'I_mm -> 'rV[R]_n.

Theorem combined_rows_eq_eeg :
  (forall i, getlinA i = row i A) -> (forall i, getlinB i = row i B) ->
  gain_eegmeg_rows_eeg H dsm1 solveLin getlinA getlinB = gain_eegmeg_adjoint_eeg H A B dsm1 solveLin.
Proof. exact: Gain.combined_rows_eq_eeg. Qed.

Theorem combined_rows_eq_meg :
  (forall i, getlinA i = row i A) -> (forall i, getlinB i = row i B) ->
  gain_eegmeg_rows_meg H P dsm1 solveLin getlinA getlinB = gain_eegmeg_adjoint_meg H A B P dsm1 solveLin.
Proof. exact: Gain.combined_rows_eq_meg. Qed.
End C04_getlin.
Print Assumptions combined_rows_eq_eeg.

(* what-if witness (not a refutation of the faithful model): its situation -- an electrode row with an entry in column 0 --
   is replayed on the real code by corpus/C04/scalp-first-electrode-at-unknown-0.json on every run *)
Example lossy_getlin_breaks_combined :
  let H : 'M[rat]_1 := 1%:M in
  let A : 'M[rat]_(1, 1) := 1%:M in
  let B : 'M[rat]_(0, 1) := 0 in
  let dsm1 : 'I_1 -> 'cV[rat]_1 := fun _ => 1%:M in
  let solve := (fun (M : 'M[rat]_1) k (X : 'M[rat]_(1, k)) => invmx M *m X) in
  let getlin_bad : 'I_1 -> 'rV[rat]_1 := fun i => \row_j (if (j : nat) == 0%N then 0 else A i j) in
  gain_eegmeg_rows_eeg H dsm1 solve getlin_bad (fun i => row i B) 0 0 = 0 /\
  gain_adjoint H A dsm1 solve 0 0 = 1.
Proof. exact: Gain.getlin_defect_breaks_combined. Qed.
Print Assumptions lossy_getlin_breaks_combined.
