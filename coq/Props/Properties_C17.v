(* C17 — results depend on the inputs only, not on earlier operations in the process.
   Property theorems only: each is closed by [exact <lemma>] and followed by Print Assumptions.

   IO state machine (Maths/IOState.v): [step c W o (p, fs)] is one public operation (X::load, X::save, the
   manipulator forms used by matrix_convert, maths::info) on process state p and file system fs;
   [inproc_after c W h o fs0] runs o in the process that executed the history h from a fresh process on fs0,
   [fresh_after c W h o fs0] runs o in a FRESH process on the file system left by h.  [repaired] is the code
   after the fix: commits, [pinned] the tree as found.  W (codec outcome tables, iteration order of the
   formats, suffix of every name) is universally quantified. *)
From OM Require Import Base.Lists Maths.IOState Maths.IOStateProofs.
Local Open Scope Z_scope.

Theorem io_history_independent : forall W h o fs0,
  snd (inproc_after repaired W h o fs0) = snd (fresh_after repaired W h o fs0)
  /\ snd (fst (inproc_after repaired W h o fs0)) = snd (fst (fresh_after repaired W h o fs0)).
Proof. exact io_history_independent_lemma. Qed.
Print Assumptions io_history_independent.

Theorem io_trace_equals_fresh_process_trace : forall W h fs,
  trace repaired W h (pst0, fs) = trace_fresh repaired W h fs.
Proof. intros; apply trace_fresh_eq; split; reflexivity. Qed.
Print Assumptions io_trace_equals_fresh_process_trace.

Theorem io_current_format_unset_between_operations : forall W h fs,
  cur (fst (run repaired W h (pst0, fs))) = None /\ perm (fst (run repaired W h (pst0, fs))) = false.
Proof. intros; apply run_clean; split; reflexivity. Qed.
Print Assumptions io_current_format_unset_between_operations.

Theorem save_then_load_unaffected_by_prior_success : forall W h k1 n1 k2 n2 fs0,
  trace repaired W [Save k1 n1; Load k2 n2] (run repaired W h (pst0, fs0))
  = trace repaired W [Save k1 n1; Load k2 n2] (pst0, snd (run repaired W h (pst0, fs0))).
Proof. exact save_then_load_lemma. Qed.
Print Assumptions save_then_load_unaffected_by_prior_success.

Theorem tag_string_independent_of_previous_file : forall t t' h,
  tag_string repaired (read_tag repaired t h) h = tag_string repaired (read_tag repaired t' h) h.
Proof. exact tagstr_repaired. Qed.
Print Assumptions tag_string_independent_of_previous_file.

(* consistency with C07's front-end model (Maths/IOFront.v): same tag, same byte class for the text format *)
Theorem tag_string_is_the_tag_of_the_front_end_model : forall t bytes,
  tag_string repaired (read_tag repaired t (firstn 32 bytes)) (firstn 32 bytes) = fst (Maths.IOFront.read_tag bytes).
Proof. exact tagstr_is_IOFront_tag. Qed.
Print Assumptions tag_string_is_the_tag_of_the_front_end_model.

(* the tree as found: shortest distinguishing histories (length 2) *)
Theorem io_history_independent_pinned_refuted : exists W h o fs0,
  snd (inproc_after pinned W h o fs0) <> snd (fresh_after pinned W h o fs0).
Proof. exists Wref, [Load KMat 0%nat], (Load KVec 1%nat), fsref. exact io_pinned_refuted_lemma. Qed.
Print Assumptions io_history_independent_pinned_refuted.

Theorem readtag_short_file_pinned_refuted : exists W h o fs0,
  snd (inproc_after pinned W h o fs0) <> snd (fresh_after pinned W h o fs0)
  /\ snd (inproc_after {| consume_before_open := true; tag_at_gcount := false; whole_tag := false |} W h o fs0)
     <> snd (fresh_after {| consume_before_open := true; tag_at_gcount := false; whole_tag := false |} W h o fs0).
Proof.
  exists Wref, [Load KMat 2%nat], (Load KMat 3%nat), fsref. split.
  - exact readtag_pinned_refuted_lemma.
  - exact (proj2 io_fix_open_only).
Qed.
Print Assumptions readtag_short_file_pinned_refuted.

Example io_refutation_world_is_history_independent_once_repaired :
  snd (inproc_after repaired Wref [Load KMat 0%nat] (Load KVec 1%nat) fsref) = (1001, [Matlab])
  /\ snd (inproc_after repaired Wref [Load KMat 2%nat] (Load KMat 3%nat) fsref) = (139, [Bin]).
Proof. vm_compute. split; reflexivity. Qed.

(* the tree as found, partial statement: histories whose operations all open their file and (for reads) find at least
   32 bytes leave no trace; [all_good W h s] checks this along the run, [good W fs o] for the last operation *)
From OM Require Import Maths.IOPinnedPartial.
Theorem io_history_independent_pinned_partial : forall W h o fs0,
  all_good W h (pst0, fs0) = true -> good W (snd (run pinned W h (pst0, fs0))) o = true ->
  snd (inproc_after pinned W h o fs0) = snd (fresh_after pinned W h o fs0)
  /\ snd (fst (inproc_after pinned W h o fs0)) = snd (fst (fresh_after pinned W h o fs0)).
Proof. exact io_pinned_partial_lemma. Qed.
Print Assumptions io_history_independent_pinned_partial.

Example io_pinned_partial_hypotheses_satisfiable :
  all_good Wref [Load KVec 1%nat; Load KMat 2%nat] (pst0, fsref) = true
  /\ good Wref (snd (run pinned Wref [Load KVec 1%nat; Load KMat 2%nat] (pst0, fsref))) (Load KVec 1%nat) = true.
Proof. vm_compute. split; reflexivity. Qed.

(* breadth-first search over histories (Maths/IOSearch.v): shortest distinguishing history, computed inside Coq *)
From OM Require Import Maths.IOSearch.
Theorem io_shortest_distinguishing_history_pinned :
  bfs pinned Wref fsref alpha_ref 4 = Some ([Load KMat 0%nat], Load KVec 1%nat)
  /\ bfs {| consume_before_open := true; tag_at_gcount := false; whole_tag := false |} Wref fsref alpha_ref 4 = Some ([Load KMat 2%nat], Load KMat 3%nat)
  /\ bfs repaired Wref fsref alpha_ref 3 = None
  /\ forall c W fs o, distinguishes c W fs [] o = false.
Proof. exact (conj bfs_pinned (conj bfs_open_fix_only (conj bfs_repaired no_witness_of_length_0))). Qed.
Print Assumptions io_shortest_distinguishing_history_pinned.

(* ======================= object state machines (Geom/GeomState.v, SensorsState.v, MeshState.v) ======================= *)
From OM Require Import Geom.GeomState Geom.SensorsState Geom.MeshState Geom.StateProofs.

(* Geometry: [g_last fixed W h o] = public observation (status, #vertices, #meshes, #domains, nb_parameters,
   #communicating pairs, #isolated parts, #invalid vertices, nb_current_barrier_triangles, nested) of operation o after
   history h on a fresh object; fixed = true is the code after the fix: commit (clear() resets the derived containers) *)
Theorem geometry_history_independent : forall W h i, g_last true W h (GLoad i) = g_last true W [] (GLoad i).
Proof. exact geometry_last_lemma. Qed.
Print Assumptions geometry_history_independent.

Theorem geometry_everything_after_a_load_is_history_independent : forall W h i t,
  g_trace true W (GLoad i :: t) (g_run true W h gst0) = g_trace true W (GLoad i :: t) gst0.
Proof. exact geometry_history_independent_lemma. Qed.
Print Assumptions geometry_everything_after_a_load_is_history_independent.

Theorem geometry_reload_pinned_refuted : exists W h o, g_last false W h o <> g_last false W [] o.
Proof. exists Gref, [GLoad 0%nat], (GLoad 0%nat). exact (proj1 geometry_reload_pinned_refuted_lemma). Qed.
Print Assumptions geometry_reload_pinned_refuted.

Theorem geometry_stale_invalid_vertices_pinned_refuted : exists W h o,
  nth 4 (g_last false W h o) 0 <> nth 4 (g_last false W [] o) 0.
Proof. exists Gref, [GLoad 1%nat], (GLoad 2%nat). destruct geometry_stale_invalid_pinned_refuted_lemma as [-> ->]. discriminate. Qed.
Print Assumptions geometry_stale_invalid_vertices_pinned_refuted.

Theorem assemble_twice_equal : forall fixed W s n,
  g_trace fixed W (repeat GHeadMat (S n)) s = repeat (snd (g_step fixed W GHeadMat s)) (S n).
Proof. exact assemble_twice_lemma. Qed.
Print Assumptions assemble_twice_equal.

Theorem assemble_after_other_assemblies_equal : forall fixed W h s, forallb is_assembly h = true ->
  snd (g_step fixed W GHeadMat (g_run fixed W h s)) = snd (g_step fixed W GHeadMat s).
Proof. exact assemble_after_other_assemblies_lemma. Qed.
Print Assumptions assemble_after_other_assemblies_equal.

Theorem headmat_after_reload_pinned_refuted_repaired_equal :
  snd (g_step false Gref GHeadMat (g_run false Gref [GLoad 0%nat; GLoad 0%nat] gst0)) <> snd (g_step false Gref GHeadMat (g_run false Gref [GLoad 0%nat] gst0))
  /\ snd (g_step true Gref GHeadMat (g_run true Gref [GLoad 0%nat; GLoad 0%nat] gst0)) = snd (g_step true Gref GHeadMat (g_run true Gref [GLoad 0%nat] gst0)).
Proof. exact headmat_after_reload_lemma. Qed.
Print Assumptions headmat_after_reload_pinned_refuted_repaired_equal.

(* Sensors: observation = exception class, or (m_nb, #positions, #orientation rows, #weights, #radii, #injection lists,
   hasNames, names, m_pointSensorIdx) *)
Theorem sensors_history_independent : forall geom W h i, s_last true geom W h i = s_last true geom W [] i.
Proof. exact sensors_history_independent_lemma. Qed.
Print Assumptions sensors_history_independent.

Theorem sensors_reload_pinned_refuted : exists geom W h i, s_last false geom W h i <> s_last false geom W [] i.
Proof. exists false, Sref, [0%nat], 0%nat. exact (proj1 sensors_reload_pinned_refuted_lemma). Qed.
Print Assumptions sensors_reload_pinned_refuted.

Theorem sensors_stale_orientations_pinned_refuted : exists geom W h i,
  nth 3 (s_last false geom W h i) 0 <> nth 3 (s_last false geom W [] i) 0.
Proof. exists false, Sref, [0%nat], 1%nat. destruct sensors_stale_orientations_pinned_refuted_lemma as [-> ->]. discriminate. Qed.
Print Assumptions sensors_stale_orientations_pinned_refuted.

(* Mesh (stand-alone): m_repaired = the current code (flags reset by clear(), private geometry kept) *)
Theorem mesh_reload_triangle_indices_refuted : exists W h o, m_last m_repaired W h o <> m_last m_repaired W [] o.
Proof. exists Mref, [MLoad 0%nat], (MLoad 1%nat). exact (proj1 mesh_reload_refuted_lemma). Qed.
Print Assumptions mesh_reload_triangle_indices_refuted.

Theorem mesh_reload_partial : forall c W h i,
  y_gverts (m_run c W h mst0) = [] -> clear_flags c = true -> m_last c W h (MLoad i) = m_last c W [] (MLoad i).
Proof. exact mesh_partial_lemma. Qed.
Print Assumptions mesh_reload_partial.

Theorem mesh_flags_history_independent : forall W h i,
  let s := fst (m_step m_repaired W (MLoad i) (m_run m_repaired W h mst0)) in
  y_outer s = false /\ y_cb s = false /\ y_iso s = false.
Proof. exact mesh_flags_lemma. Qed.
Print Assumptions mesh_flags_history_independent.

Theorem mesh_history_independent_if_private_geometry_cleared : forall W h i, m_last m_ideal W h (MLoad i) = m_last m_ideal W [] (MLoad i).
Proof. exact mesh_ideal_lemma. Qed.
Print Assumptions mesh_history_independent_if_private_geometry_cleared.

Theorem mesh_source_flag_pinned_refuted :
  nth 5 (m_last m_pinned Mref [MLoad 0%nat; MSurfSource] (MLoad 0%nat)) 0 <> nth 5 (m_last m_pinned Mref [] (MLoad 0%nat)) 0
  /\ m_last m_repaired Mref [MLoad 0%nat; MSurfSource] (MLoad 0%nat) = m_last m_repaired Mref [] (MLoad 0%nat).
Proof. destruct mesh_source_flag_pinned_refuted_lemma as (-> & -> & H). split; [discriminate | exact H]. Qed.
Print Assumptions mesh_source_flag_pinned_refuted.

Theorem surfsource_assemble_twice_equal : forall c W s,
  hd 0 (snd (m_step c W MSurfSource (fst (m_step c W MSurfSource s)))) = hd 0 (snd (m_step c W MSurfSource s)).
Proof. exact surfsource_twice_lemma. Qed.
Print Assumptions surfsource_assemble_twice_equal.

Example mesh_partial_hypothesis_satisfiable : y_gverts (m_run m_repaired Mref [] mst0) = [] /\ clear_flags m_repaired = true.
Proof. split; reflexivity. Qed.

(* ======================= one Vector / Matrix / SymMatrix / SparseMatrix object under repeated load (Maths/LinOpState.v) ======================= *)
From OM Require Import Maths.LinOpState.

Theorem linop_reload_history_independent : forall sparse W h i, l_last true sparse W h i = l_last true sparse W [] i.
Proof. exact linop_history_independent_lemma. Qed.
Print Assumptions linop_reload_history_independent.

Theorem dense_reload_history_independent_pinned : forall fixed W h i, l_last fixed false W h i = l_last fixed false W [] i.
Proof. exact dense_history_independent_lemma. Qed.
Print Assumptions dense_reload_history_independent_pinned.

Theorem sparse_reload_pinned_refuted : exists W h i, l_last false true W h i <> l_last false true W [] i.
Proof. exists Lref, [0%nat], 1%nat. exact (proj1 sparse_reload_pinned_refuted_lemma). Qed.
Print Assumptions sparse_reload_pinned_refuted.

(* the known finding pinned down: of a freshly loaded stand-alone Mesh ONLY the numbering of the private geometry
   (geometry().vertices(), Mesh::triangle) depends on the history; status, sizes, flags and the triangles relative to
   the mesh's own vertex list (what Mesh::save writes) do not - for all histories and all well-formed files *)
From OM Require Import Geom.MeshLocalProofs.
Theorem mesh_local_view_history_independent : forall W h i,
  wf_mdesc (nth i W dummy_mdesc) -> m_status (nth i W dummy_mdesc) = 0 ->
  m_observe_local 0 (fst (m_step m_repaired W (MLoad i) (m_run m_repaired W h mst0)))
  = m_observe_local 0 (fst (m_step m_repaired W (MLoad i) mst0)).
Proof. intros; apply mesh_local_history_independent_lemma; auto. Qed.
Print Assumptions mesh_local_view_history_independent.

Example mesh_local_view_hypotheses_satisfiable : wf_mdesc (nth 1 Mref dummy_mdesc) /\ m_status (nth 1 Mref dummy_mdesc) = 0.
Proof. split; [repeat constructor | reflexivity]. Qed.

(* ======================= the current source (coq/Gen/GenC17.v, regenerated from the working tree on every run) ======================= *)
(* translators/t_c17_state.py reads the statements the models depend on (where GetCurrentFormat() is called relative to
   the open, how ReadTag terminates its buffer, the try/catch shape of every X::load/save, the statements of
   Geometry::clear, Mesh::clear, the resets of Sensors::load, SparseMatrix::load, the flag assignments of SurfSourceMat)
   and says which variant of each machine the code is.  The theorems below are stated for THAT variant: they stop
   compiling when a source change leaves the repaired variant. *)
From OM Require Import Gen.GenC17.
Theorem current_code_is_the_repaired_variant :
  code_io_cfg = repaired /\ code_get_current_resets = true /\ code_load_save_retry_shape = true
  /\ code_sparse_load_clears = true /\ code_geometry_clear_resets_derived = true /\ code_sensors_load_resets = true
  /\ code_mesh_cfg = m_repaired /\ code_surfsource_marks_source = true.
Proof. repeat split; reflexivity. Qed.
Print Assumptions current_code_is_the_repaired_variant.

Theorem io_history_independent_current_code : forall W h o fs0,
  snd (inproc_after code_io_cfg W h o fs0) = snd (fresh_after code_io_cfg W h o fs0)
  /\ snd (fst (inproc_after code_io_cfg W h o fs0)) = snd (fst (fresh_after code_io_cfg W h o fs0)).
Proof. exact io_history_independent_lemma. Qed.
Print Assumptions io_history_independent_current_code.

Theorem geometry_sensors_linop_history_independent_current_code :
  (forall W h i, g_last code_geometry_clear_resets_derived W h (GLoad i) = g_last code_geometry_clear_resets_derived W [] (GLoad i))
  /\ (forall geom W h i, s_last code_sensors_load_resets geom W h i = s_last code_sensors_load_resets geom W [] i)
  /\ (forall sparse W h i, l_last code_sparse_load_clears sparse W h i = l_last code_sparse_load_clears sparse W [] i).
Proof. exact (conj geometry_last_lemma (conj sensors_history_independent_lemma linop_history_independent_lemma)). Qed.
Print Assumptions geometry_sensors_linop_history_independent_current_code.

Theorem mesh_local_view_history_independent_current_code : forall W h i,
  wf_mdesc (nth i W dummy_mdesc) -> m_status (nth i W dummy_mdesc) = 0 ->
  m_observe_local 0 (fst (m_step code_mesh_cfg W (MLoad i) (m_run code_mesh_cfg W h mst0)))
  = m_observe_local 0 (fst (m_step code_mesh_cfg W (MLoad i) mst0)).
Proof. intros; apply mesh_local_history_independent_lemma; auto. Qed.
Print Assumptions mesh_local_view_history_independent_current_code.

(* ======================= follow-up: computations on shared objects, finalize() twice ======================= *)
From OM Require Import Maths.ComputeState.

(* purity machine (Maths/ComputeState.v): [c_last init W h k] = (result, mask of changed operands) of computation k after
   the computations h on the same shared operands.  For a catalogue whose computations are declared const on every
   shared operand: result and operands are those of freshly built inputs, for all histories *)
Theorem compute_history_independent : forall init W h k, pure W ->
  c_last init W h k = c_last init W [] k /\ c_run init W (h ++ [k]) init = init.
Proof. exact compute_history_independent_lemma. Qed.
Print Assumptions compute_history_independent.

(* frame rule for catalogues with declared writes *)
Theorem compute_result_fresh_if_no_earlier_write_to_its_operands : forall init W h k o, nth_error W k = Some o ->
  (forall j oj, In j h -> nth_error W j = Some oj -> forall i, In i (c_reads o) -> memN i (c_writes oj) = false) ->
  fst (c_last init W h k) = c_fresh o.
Proof. exact compute_frame_lemma. Qed.
Print Assumptions compute_result_fresh_if_no_earlier_write_to_its_operands.

Theorem compute_in_place_factorisation_refuted :
  c_last [11; 12] Cref_bad [0%nat] 0%nat <> c_last [11; 12] Cref_bad [] 0%nat
  /\ c_last [11; 12] Cref_bad [0%nat] 1%nat <> c_last [11; 12] Cref_bad [] 1%nat
  /\ c_last [11; 12] Cref_good [0%nat] 1%nat = c_last [11; 12] Cref_good [] 1%nat.
Proof. exact compute_in_place_refuted_lemma. Qed.
Print Assumptions compute_in_place_factorisation_refuted.

(* the catalogue read from the current signatures (gain.h, assemble.h, symmatrix.h) declares no write on a shared operand *)
Theorem compute_catalogue_of_the_current_code_is_const_correct : Forall (fun p => snd p = []) code_compute_catalogue.
Proof. repeat constructor. Qed.
Print Assumptions compute_catalogue_of_the_current_code_is_const_correct.

Theorem compute_history_independent_current_code : forall init fr h k,
  let W := map (fun p => {| c_reads := fst (fst p); c_writes := snd (fst p); c_fresh := snd p |}) (combine code_compute_catalogue fr) in
  c_last init W h k = c_last init W [] k.
Proof.
  intros init fr h k W. apply compute_history_independent_lemma.
  intros o Ho. unfold W in Ho. apply in_map_iff in Ho. destruct Ho as ([[r w] f] & <- & Hin). simpl.
  apply in_combine_l in Hin.
  exact (proj1 (Forall_forall _ _) compute_catalogue_of_the_current_code_is_const_correct _ Hin).
Qed.
Print Assumptions compute_history_independent_current_code.

(* finalize() again on a freshly loaded geometry: nothing changes (repaired); the tree as found appended *)
Theorem finalize_twice_idempotent : forall W i s0,
  fst (g_step true W GFinalize (fst (g_step true W (GLoad i) s0))) = fst (g_step true W (GLoad i) s0)
  /\ (d_finalized (nth i W dummy_desc) = true ->
      snd (g_step true W GFinalize (fst (g_step true W (GLoad i) s0))) = g_observe 0 (fst (g_step true W (GLoad i) s0))).
Proof. exact finalize_idempotent_lemma. Qed.
Print Assumptions finalize_twice_idempotent.

Theorem geometry_refinalize_pinned_refuted :
  snd (g_step false Gref GFinalize (g_run false Gref [GLoad 0%nat] gst0)) <> g_observe 0 (g_run false Gref [GLoad 0%nat] gst0)
  /\ snd (g_step true Gref GFinalize (g_run true Gref [GLoad 0%nat] gst0)) = g_observe 0 (g_run true Gref [GLoad 0%nat] gst0).
Proof. exact geometry_refinalize_pinned_refuted_lemma. Qed.
Print Assumptions geometry_refinalize_pinned_refuted.

(* ======================= widening round: conductivities changed in place, reader registries ======================= *)
From OM Require Import Geom.ReaderRegistry.

(* set_conductivity in place + finalize() = loading the same geometry with those conductivities: every derived quantity
   (pairs, parts, invalid vertices, indices, barrier count, nested, hence HeadMat) is recomputed from the current inputs *)
Theorem finalize_is_a_function_of_inputs : forall W i j s0,
  d_finalized (nth i W dummy_desc) = true -> d_finalized (nth j W dummy_desc) = true ->
  same_geometry (nth i W dummy_desc) (nth j W dummy_desc) = true ->
  g_step true W (GSetCond j) (fst (g_step true W (GLoad i) s0))
  = (fst (g_step true W (GLoad j) s0), g_observe 0 (fst (g_step true W (GLoad j) s0))).
Proof. exact finalize_is_a_function_of_inputs_lemma. Qed.
Print Assumptions finalize_is_a_function_of_inputs.

Example finalize_function_hypotheses_satisfiable :
  d_finalized (nth 1 Gref dummy_desc) = true /\ d_finalized (nth 2 Gref dummy_desc) = true /\ same_geometry (nth 1 Gref dummy_desc) (nth 2 Gref dummy_desc) = true.
Proof. vm_compute. repeat split; reflexivity. Qed.

(* a load after programmatic construction on the same object is the fresh load (instance of the general theorem) *)
Theorem load_after_programmatic_construction_is_fresh : forall W h i t,
  g_trace true W (GLoad i :: t) (g_run true W (h ++ [GPollute]) gst0) = g_trace true W (GLoad i :: t) gst0.
Proof. intros. apply geometry_history_independent_lemma. Qed.
Print Assumptions load_after_programmatic_construction_is_fresh.

(* reader registries: one clone per load => no load, failed or not, changes the registry, and every load gets the status
   the file gives to a fresh reader *)
Theorem failed_geom_load_leaves_registry_unchanged : forall h r,
  r_trace true h r = (map (fun p => status_of (snd p)) h, r).
Proof. exact failed_load_leaves_registry_unchanged_lemma. Qed.
Print Assumptions failed_geom_load_leaves_registry_unchanged.

Theorem prototype_reuse_refuted :
  fst (r_trace false [(0%nat, FFailAfterOpen 2137); (0%nat, FOk)] [false; false]) = [2137; 2130]
  /\ fst (r_trace true [(0%nat, FFailAfterOpen 2137); (0%nat, FOk)] [false; false]) = [2137; 0].
Proof. exact prototype_reuse_refuted_lemma. Qed.
Print Assumptions prototype_reuse_refuted.

Theorem readers_are_cloned_in_the_current_code : code_readers_are_cloned = true.
Proof. reflexivity. Qed.
Print Assumptions readers_are_cloned_in_the_current_code.

(* round 5: assemblies interleaved on several geometries; a process-wide memo is a hidden shared operand *)
Theorem multi_geometry_assemblies_history_independent : forall init W h k, pure W ->
  c_last init W h k = c_last init W [] k /\ c_run init W (h ++ [k]) init = init.
Proof. exact compute_history_independent_lemma. Qed.
Print Assumptions multi_geometry_assemblies_history_independent.

Theorem process_wide_memo_refuted :
  fst (c_last [11; 12; 13] Cref_memo [0%nat] 1%nat) <> fst (c_last [11; 12; 13] Cref_memo [] 1%nat)
  /\ c_last [11; 12; 13] Cref_nomemo [0%nat] 1%nat = c_last [11; 12; 13] Cref_nomemo [] 1%nat.
Proof. exact process_wide_memo_refuted_lemma. Qed.
Print Assumptions process_wide_memo_refuted.

(* round 7: the outcome (exception or matrix) of SurfSourceMat against a second head does not depend on what an earlier
   assembly left on the same Mesh object *)
Theorem surfsource_outcome_independent_of_earlier_assemblies : forall c W s s',
  y_desc s = y_desc s' -> hd 0 (snd (m_step c W MSurfSource2 s)) = hd 0 (snd (m_step c W MSurfSource2 s')).
Proof. exact surfsource_outcome_independent_of_flags_lemma. Qed.
Print Assumptions surfsource_outcome_independent_of_earlier_assemblies.
