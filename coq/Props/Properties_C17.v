(* C17 — results depend on the inputs only, not on earlier operations in the process.
   Property theorems only: each is closed by [exact <lemma>] and followed by Print Assumptions.

   IO state machine (Maths/IOState.v): [step c W o (p, fs)] is one public operation (X::load, X::save, the
   manipulator forms used by matrix_convert, maths::info) on process state p and file system fs;
   [inproc_after c W h o fs0] runs o in the process that executed the history h from a fresh process on fs0,
   [fresh_after c W h o fs0] runs o in a FRESH process on the file system left by h.  [repaired] is the code
   after the fix: commits, [pinned] the tree as found.  W (codec outcome tables, iteration order of the
   formats, suffix of every name) is universally quantified. *)
From OM Require Import Base.Lists Maths.IOState Maths.IOStateProofs.
Local Open Scope Z_scope.

Theorem io_history_independent : forall W h o fs0,
  snd (inproc_after repaired W h o fs0) = snd (fresh_after repaired W h o fs0)
  /\ snd (fst (inproc_after repaired W h o fs0)) = snd (fst (fresh_after repaired W h o fs0)).
Proof. exact io_history_independent_lemma. Qed.
Print Assumptions io_history_independent.

Theorem io_trace_equals_fresh_process_trace : forall W h fs,
  trace repaired W h (pst0, fs) = trace_fresh repaired W h fs.
Proof. intros; apply trace_fresh_eq; split; reflexivity. Qed.
Print Assumptions io_trace_equals_fresh_process_trace.

Theorem io_current_format_unset_between_operations : forall W h fs,
  cur (fst (run repaired W h (pst0, fs))) = None /\ perm (fst (run repaired W h (pst0, fs))) = false.
Proof. intros; apply run_clean; split; reflexivity. Qed.
Print Assumptions io_current_format_unset_between_operations.

Theorem save_then_load_unaffected_by_prior_success : forall W h k1 n1 k2 n2 fs0,
  trace repaired W [Save k1 n1; Load k2 n2] (run repaired W h (pst0, fs0))
  = trace repaired W [Save k1 n1; Load k2 n2] (pst0, snd (run repaired W h (pst0, fs0))).
Proof. exact save_then_load_lemma. Qed.
Print Assumptions save_then_load_unaffected_by_prior_success.

Theorem tag_string_independent_of_previous_file : forall t t' h, cstr (read_tag repaired t h) = cstr (read_tag repaired t' h).
Proof. exact tagstr_repaired. Qed.
Print Assumptions tag_string_independent_of_previous_file.

(* the tree as found: shortest distinguishing histories (length 2) *)
Theorem io_history_independent_pinned_refuted : exists W h o fs0,
  snd (inproc_after pinned W h o fs0) <> snd (fresh_after pinned W h o fs0).
Proof. exists Wref, [Load KMat 0%nat], (Load KVec 1%nat), fsref. exact io_pinned_refuted_lemma. Qed.
Print Assumptions io_history_independent_pinned_refuted.

Theorem readtag_short_file_pinned_refuted : exists W h o fs0,
  snd (inproc_after pinned W h o fs0) <> snd (fresh_after pinned W h o fs0)
  /\ snd (inproc_after {| consume_before_open := true; tag_at_gcount := false |} W h o fs0)
     <> snd (fresh_after {| consume_before_open := true; tag_at_gcount := false |} W h o fs0).
Proof.
  exists Wref, [Load KMat 2%nat], (Load KMat 3%nat), fsref. split.
  - exact readtag_pinned_refuted_lemma.
  - exact (proj2 io_fix_open_only).
Qed.
Print Assumptions readtag_short_file_pinned_refuted.

Example io_refutation_world_is_history_independent_once_repaired :
  snd (inproc_after repaired Wref [Load KMat 0%nat] (Load KVec 1%nat) fsref) = (1001, [Matlab])
  /\ snd (inproc_after repaired Wref [Load KMat 2%nat] (Load KMat 3%nat) fsref) = (139, [Bin]).
Proof. vm_compute. split; reflexivity. Qed.
