(* C14 — Sparse and block matrix containers agree with their dense equivalents.
   Property theorems only: each is closed by [exact <lemma>] and followed by Print Assumptions.
   [sdn A i j] is the dense matrix with the same entries as the sparse matrix A;
   [swf_sp] is the representation invariant every public mutation preserves (sp_upd_wf). *)
From OM Require Import Base.Lists Maths.Dense Maths.SparseModel Maths.SparseProofs Maths.Ranges Maths.RangesProofs Maths.FastSparseProofs.
Local Open Scope Z_scope.

Theorem c14_invariant_preserved : forall A i j f A', swf_sp A -> sp_upd A i j f = Some A' -> swf_sp A'.
Proof. exact sp_upd_wf. Qed.
Print Assumptions c14_invariant_preserved.

Theorem c14_element_write : forall A i j f A', sp_upd A i j f = Some A' ->
  forall a b, sdn A' a b = if ((a =? i) && (b =? j))%nat then f (sdn A i j) else sdn A a b.
Proof. exact sp_upd_view. Qed.
Print Assumptions c14_element_write.

Theorem c14_element_read : forall A i j,
  sp_get A i j = if ((i <? snl A) && (j <? snc A))%nat then Some (sdn A i j) else None.
Proof. exact sp_get_spec. Qed.
Print Assumptions c14_element_read.

Theorem c14_mul_vector : forall A x r, swf_sp A -> sp_mulv A x = Some r ->
  length r = snl A /\ forall i, (i < snl A)%nat -> nth i r 0 = sumn (snc A) (fun j => sdn A i j * nth j x 0).
Proof. exact sp_mulv_spec. Qed.
Print Assumptions c14_mul_vector.

Theorem c14_mul_vector_rejects : forall A x, swf_sp A ->
  (sp_mulv A x = None <-> (snl A = 0%nat \/ exists e, In e (stank A) /\ (length x <= snd (fst e))%nat)).
Proof. exact sp_mulv_rejects. Qed.
Print Assumptions c14_mul_vector_rejects.

Theorem c14_mul_full : forall A B M, swf_sp A -> sp_mulm A B = Some M ->
  snc A = dnl B /\ dnl M = snl A /\ dnc M = dnc B /\ dwf M /\
  forall i k, (i < snl A)%nat -> (k < dnc B)%nat -> dget M i k = sumn (snc A) (fun j => sdn A i j * dget B j k).
Proof. exact sp_mulm_spec. Qed.
Print Assumptions c14_mul_full.

Theorem c14_mul_symmetric : forall A B M, swf_sp A -> sp_mulsym A B = Some M ->
  snc A = sn B /\ dnl M = snl A /\ dnc M = sn B /\ dwf M /\
  forall i k, (i < snl A)%nat -> (k < sn B)%nat -> dget M i k = sumn (snc A) (fun j => sdn A i j * sget B j k).
Proof. exact sp_mulsym_spec. Qed.
Print Assumptions c14_mul_symmetric.

Theorem c14_mul_nonconformable_rejected : forall A bnl bnc bget, sp_mul_gen A bnl bnc bget = None <-> snc A <> bnl.
Proof. exact sp_mul_gen_rejects. Qed.
Print Assumptions c14_mul_nonconformable_rejected.

Theorem c14_mul_sparse : forall A B C, swf_sp A -> swf_sp B -> sp_mulsp A B = Some C ->
  snc A = snl B /\ snl C = snl A /\ snc C = snc B /\ swf_sp C /\
  forall i c, (i < snl A)%nat -> (c < snc B)%nat -> sdn C i c = sumn (snc A) (fun j => sdn A i j * sdn B j c).
Proof. exact sp_mulsp_spec. Qed.
Print Assumptions c14_mul_sparse.

Theorem c14_full_mul_sparse : forall M A R, swf_sp A -> full_mul_sparse M A = Some R ->
  dnc M = snl A /\ dnl R = dnl M /\ dnc R = snc A /\ dwf R /\
  forall k j, (k < dnl M)%nat -> (j < snc A)%nat -> dget R k j = sumn (snl A) (fun i => dget M k i * sdn A i j).
Proof. exact full_mul_sparse_spec. Qed.
Print Assumptions c14_full_mul_sparse.

Theorem c14_sum : forall A B C, swf_sp A -> swf_sp B -> sp_add A B = Some C ->
  snl A = snl B /\ snc A = snc B /\ snl C = snl A /\ snc C = snc A /\ swf_sp C /\
  forall i j, sdn C i j = sdn A i j + sdn B i j.
Proof. exact sp_add_spec. Qed.
Print Assumptions c14_sum.

Theorem c14_sum_rejects : forall A B, sp_add A B = None <-> (snl A <> snl B \/ snc A <> snc B).
Proof. exact sp_add_rejects. Qed.
Print Assumptions c14_sum_rejects.

Theorem c14_transpose : forall A, swf_sp A ->
  snl (sp_transpose A) = snc A /\ snc (sp_transpose A) = snl A /\ swf_sp (sp_transpose A) /\
  forall i j, sdn (sp_transpose A) i j = sdn A j i.
Proof. exact sp_transpose_spec. Qed.
Print Assumptions c14_transpose.

Theorem c14_row_get : forall A i r j, sp_getlin A i = Some r -> (j < snc A)%nat ->
  length r = snc A /\ nth j r 0 = sdn A i j.
Proof. exact sp_getlin_nth. Qed.
Print Assumptions c14_row_get.

Theorem c14_row_set : forall A v i A', swf_sp A -> sp_setlin A v i = Some A' ->
  snl A' = snl A /\ snc A' = snc A /\ swf_sp A' /\
  forall a b, sdn A' a b = if ((a =? i) && (b <? length v))%nat then nth b v 0 else sdn A a b.
Proof. exact sp_setlin_spec. Qed.
Print Assumptions c14_row_set.

Theorem c14_row_set_rejects : forall A v i, sp_setlin A v i = None <-> (snl A <= i \/ snc A < length v)%nat.
Proof. exact sp_setlin_rejects. Qed.
Print Assumptions c14_row_set_rejects.

Theorem c14_norm : forall A, swf_sp A ->
  sp_frob2 A = sumn (snl A) (fun i => sumn (snc A) (fun j => sdn A i j * sdn A i j)).
Proof. exact sp_frob2_spec. Qed.
Print Assumptions c14_norm.

Theorem c14_to_dense : forall A, swf_sp A ->
  dnl (sp_to_dense A) = snl A /\ dnc (sp_to_dense A) = snc A /\
  forall i j, (i < snl A)%nat -> (j < snc A)%nat -> dget (sp_to_dense A) i j = sdn A i j.
Proof. exact sp_to_dense_spec. Qed.
Print Assumptions c14_to_dense.

(* ranges *)
Theorem c14_intersect_is_overlap : forall r q, rwf r -> rwf q -> (rintersect r q = true <-> overlap r q).
Proof. exact rintersect_iff_overlap. Qed.
Print Assumptions c14_intersect_is_overlap.

Theorem c14_ranges_add : forall rs q, Inv rs -> rwf q ->
  match ranges_add rs q with
  | (rs', ROk i) => Inv rs' /\ (i < length rs')%nat /\ nth i rs' (0,0)%nat = q /\
                    ((rs' = rs /\ In q rs) \/ (rs' = rs ++ [q] /\ forall r, In r rs -> ~ overlap r q))
  | (rs', ROverlap) => rs' = rs /\ exists r, In r rs /\ r <> q /\ overlap r q
  | _ => False
  end.
Proof. exact ranges_add_spec. Qed.
Print Assumptions c14_ranges_add.

Theorem c14_ranges_always_disjoint : forall qs, Forall rwf qs ->
  Inv (fold_left (fun rs q => fst (ranges_add rs q)) qs []).
Proof. exact ranges_reachable_inv. Qed.
Print Assumptions c14_ranges_always_disjoint.

Theorem c14_find_index_unique : forall rs ind i, Inv rs ->
  (find_index rs ind = ROk i <-> ((i < length rs)%nat /\ rcontains (nth i rs (0,0)%nat) ind = true)).
Proof. exact find_index_unique. Qed.
Print Assumptions c14_find_index_unique.

Theorem c14_unknown_index_rejected : forall rs ind,
  find_index rs ind = RNoBlock <-> (forall j, (j < length rs)%nat -> rcontains (nth j rs (0,0)%nat) ind = false).
Proof. exact find_index_none. Qed.
Print Assumptions c14_unknown_index_rejected.

(* blocks *)
Theorem c14_block_entry_in_one_block : forall rows cols i j i' j' a, Inv rows -> Inv cols ->
  blk_addr rows cols i j = Some a -> blk_addr rows cols i' j' = Some a -> i = i' /\ j = j'.
Proof. exact blk_addr_injective. Qed.
Print Assumptions c14_block_entry_in_one_block.

Theorem c14_block_address_consistent : forall rows cols i j bi bj ii jj, Inv rows -> Inv cols ->
  blk_addr rows cols i j = Some (bi, bj, ii, jj) ->
  (bi < length rows /\ bj < length cols /\
  rcontains (nth bi rows (0,0)) i = true /\ rcontains (nth bj cols (0,0)) j = true /\
  ii < rlen (nth bi rows (0,0)) /\ jj < rlen (nth bj cols (0,0)) /\
  i = fst (nth bi rows (0,0)) + ii /\ j = fst (nth bj cols (0,0)) + jj)%nat.
Proof. exact blk_addr_spec. Qed.
Print Assumptions c14_block_address_consistent.

Theorem c14_symblock_symmetric : forall rs i j, sblk_addr rs i j = sblk_addr rs j i.
Proof. exact sblk_addr_symmetric. Qed.
Print Assumptions c14_symblock_symmetric.

Theorem c14_symblock_entry_in_one_block : forall rs i j i' j' a, Inv rs -> (i <= j)%nat -> (i' <= j')%nat ->
  sblk_addr rs i j = Some a -> sblk_addr rs i' j' = Some a -> i = i' /\ j = j'.
Proof. exact sblk_addr_injective. Qed.
Print Assumptions c14_symblock_entry_in_one_block.

Theorem c14_symblock_rejects_overlap : forall rs ir jr, Inv rs -> rwf ir -> rwf jr ->
  (exists r, In r rs /\ r <> ir /\ overlap r ir) -> sblk_add_block rs ir jr = BErr rs ROverlap.
Proof. exact sblk_add_block_rejects_overlap. Qed.
Print Assumptions c14_symblock_rejects_overlap.

Theorem c14_symblock_add_keeps_invariant : forall rs ir jr rs' bi bj nr nc, Inv rs -> rwf ir -> rwf jr ->
  sblk_add_block rs ir jr = BOk rs' bi bj nr nc ->
  (Inv rs' /\ bi < length rs' /\ bj < length rs' /\
  fst (nth bi rs' (0,0)) <= fst (nth bj rs' (0,0)) /\ nr = rlen (nth bi rs' (0,0)) /\ nc = rlen (nth bj rs' (0,0)))%nat.
Proof. exact sblk_add_block_inv. Qed.
Print Assumptions c14_symblock_add_keeps_invariant.

(* the compressed-row "fast" variant built by FastSparseMatrix(const SparseMatrix&): row pointers, element
   access and product agree with the map-based matrix (hence with the dense one), for every well-formed
   matrix incl. empty rows, trailing empty rows and the empty matrix *)
Theorem c14_fast_row_pointers : forall A k, swf_sp A -> (k <= snl A)%nat ->
  nth k (crow (to_csr A)) O = cnt_lt k (stank A) /\ length (crow (to_csr A)) = S (snl A).
Proof. exact crow_spec. Qed.
Print Assumptions c14_fast_row_pointers.

Theorem c14_fast_element_read : forall A i j, swf_sp A -> (i < snl A)%nat -> csr_get (to_csr A) i j = sdn A i j.
Proof. exact csr_get_eq. Qed.
Print Assumptions c14_fast_element_read.

Theorem c14_fast_mul_vector : forall A x r, swf_sp A -> csr_mulv (to_csr A) x = Some r ->
  length r = snl A /\ forall i, (i < snl A)%nat -> nth i r 0 = sumn (snc A) (fun j => sdn A i j * nth j x 0).
Proof. exact csr_mulv_eq. Qed.
Print Assumptions c14_fast_mul_vector.

(* non-vacuity: a concrete well-formed matrix and a concrete reachable Ranges state *)
Example c14_nonvacuous :
  swf_sp {| snl := 3; snc := 4; stank := [((0,1)%nat, 5); ((2,0)%nat, -7); ((2,3)%nat, 2)] |} /\
  Inv [(0,2)%nat; (5,6)%nat; (3,4)%nat].
Proof.
  split.
  - split; simpl; [repeat constructor | repeat constructor; simpl; lia].
  - split; [repeat constructor; unfold rwf; simpl; lia|].
    intros a b ind Ha Hb; simpl in Ha, Hb.
    destruct a as [|[|[|a]]]; destruct b as [|[|[|b]]]; try lia; simpl; rewrite !rcontains_iff; simpl; lia.
Qed.
Print Assumptions c14_nonvacuous.
