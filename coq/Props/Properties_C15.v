(* C15 -- Meshes survive a save/load round trip and keep their orientation.
   Property theorems only: each is closed by [exact <lemma>] and followed by Print Assumptions.
   The model (Geom/MeshCodec.v) is generic in the coordinate type C, its equality [ceq] (operator== of double)
   and the rounding [rnd] of the format (text: the six digits operator<< writes; .mesh: float32): the theorems
   hold for every such C, ceq, rnd.  [reloaded m] is the mesh a reader builds from what a writer stored:
   geometry = the rounded coordinates in vertices() order, vertices() = all of them in order,
   triangles = the mesh-local index triples of m, in the same order and with the same winding. *)
From OM Require Import Base.Lists Geom.MeshCodec Geom.MeshFormat Geom.MeshCodecFast Geom.MeshCodecProofs Geom.MeshCodecBytes Geom.MeshFillProofs.
From Coq Require Import NArith.

Section C15.
Variable C : Type.
Variable ceq : C -> C -> bool.
Variable rnd : C -> C.
Variable c0 : C.
Notation mesh := (mesh C).

(* ---- save then load, text formats (token level) *)
Theorem c15_mesh_roundtrip_tri : forall m : mesh,
  wf_mesh C m -> fits32 (nv m) = true -> fits32 (nt m) = true ->
  pdistinct C ceq (map (vrnd C rnd) (coords C c0 m)) -> locally_consistent C m ->
  exists s, save_tri C rnd c0 m = Ok s /\ load_tri C ceq s = Ok (reloaded C rnd c0 m).
Proof. exact (roundtrip_tri C ceq rnd c0). Qed.

Theorem c15_mesh_roundtrip_off : forall m : mesh,
  wf_mesh C m -> fits32 (nv m) = true -> fits32 (nt m) = true ->
  pdistinct C ceq (map (vrnd C rnd) (coords C c0 m)) -> locally_consistent C m ->
  exists s, save_off C rnd c0 m = Ok s /\ load_off C ceq s = Ok (reloaded C rnd c0 m).
Proof. exact (roundtrip_off C ceq rnd c0). Qed.

Theorem c15_mesh_roundtrip_bnd : forall m : mesh,
  wf_mesh C m -> fits32 (nv m) = true -> fits32 (nt m) = true ->
  pdistinct C ceq (map (vrnd C rnd) (coords C c0 m)) -> locally_consistent C m ->
  exists s, save_bnd C rnd c0 m = Ok s /\ load_bnd C ceq s = Ok (reloaded C rnd c0 m).
Proof. exact (roundtrip_bnd C ceq rnd c0). Qed.

(* ---- save then load, .mesh (byte level: little-endian 32-bit counts, a float32 is one opaque 4-byte item whose
   value is [rnd x]; the reader sizes its arrays with the 32-bit products 3*npts and 3*ntrgs, hence the bounds).
   No idempotence of [rnd] is needed: the file holds [rnd x] and the reader widens it back exactly. *)
Theorem c15_mesh_roundtrip_mesh : forall m : mesh,
  wf_mesh C m -> fits32 (3 * nv m) = true -> fits32 (3 * nt m) = true ->
  pdistinct C ceq (map (vrnd C rnd) (coords C c0 m)) -> locally_consistent C m ->
  exists s, save_mesh C rnd c0 m = Ok s /\ load_mesh C ceq s = Ok (reloaded C rnd c0 m).
Proof. exact (roundtrip_mesh C ceq rnd c0). Qed.

(* ---- what [reloaded] means in the words of the property *)
Theorem c15_reloaded_same_counts : forall m : mesh,
  nv (reloaded C rnd c0 m) = nv m /\ nt (reloaded C rnd c0 m) = nt m /\ length (gv (reloaded C rnd c0 m)) = nv m.
Proof. exact (reloaded_counts C rnd c0). Qed.

Theorem c15_reloaded_same_triangles : forall m : mesh, wf_mesh C m ->
  local_triangles (reloaded C rnd c0 m) = local_triangles m.
Proof. exact (reloaded_triangles C rnd c0). Qed.

Theorem c15_reloaded_rounded_coordinates : forall m : mesh,
  coords C c0 (reloaded C rnd c0 m) = map (vrnd C rnd) (coords C c0 m).
Proof. exact (reloaded_coords C rnd c0). Qed.

(* ---- orientation *)
(* a mesh in which no directed edge is used twice (consistent winding: inward or outward, closed or open)
   passes has_correct_orientation whatever the vertex indices are, so update(true) does not touch it *)
Theorem c15_consistent_winding_preserved : forall m : mesh,
  locally_consistent C m -> has_correct_orientation m = true /\ update m = m.
Proof. exact (consistent_preserved C). Qed.

(* flood_fill_consistent, for the faithful model of the fill (stack order, visited list, adjacency = counter of shared
   vertices reaching 2, decision by has_same_edge against the CURRENT orientation of the popped triangle, fuel = number
   of triangles).  Hypotheses: triangles with three different vertices; edge-orientable = some choice [sg] of
   "keep or flip" per triangle has no two triangles running along a common edge in the same direction; edge-connected =
   every triangle is reachable from triangle 0 (where the code starts) by steps between triangles sharing two vertices.
   Conclusion: whenever the orientation check fires (hco_fast = has_correct_orientation is false) the repaired list is an
   orientation of the same triangles in which EVERY pair of triangles is consistent.
   Ingredients: two-colouring step (decide_flip), completeness of the depth-first traversal within [length ts] rounds
   (fill_full: stack/visited invariant, closure of the visited set under adjacency), global flip (an orientation that
   agrees with triangle 0 exists).  Not covered: that the check fires for every inconsistent orientable mesh. *)
Theorem c15_flood_fill_consistent : forall (ix : nat -> N) (ts0 : list tri),
  (forall i, i < length ts0 -> nondeg (tnth ts0 i)) ->
  (exists sg, orientation_of ts0 sg /\ consistent_all sg) ->
  (forall j, j < length ts0 -> reach ts0 j) ->
  hco_fast ix ts0 = false ->
  orientation_of ts0 (correct_local ix ts0) /\ consistent_all (correct_local ix ts0).
Proof. exact correct_local_makes_consistent. Qed.

Theorem c15_flood_fill_consistent_fill : forall ts0 : list tri,
  (forall i, i < length ts0 -> nondeg (tnth ts0 i)) ->
  (exists sg, orientation_of ts0 sg /\ consistent_all sg) ->
  (forall j, j < length ts0 -> reach ts0 j) -> 0 < length ts0 ->
  orientation_of ts0 (fill (length ts0) [0] [0] ts0) /\ consistent_all (fill (length ts0) [0] [0] ts0).
Proof. exact fill_makes_consistent. Qed.

(* without connectivity: every triangle the fill visits ends in the orientation [sg], the others are untouched *)
Theorem c15_flood_fill_visited_invariant : forall ts0 sg : list tri,
  (forall i, i < length ts0 -> nondeg (tnth ts0 i)) ->
  orientation_of ts0 sg -> consistent_all sg -> 0 < length ts0 -> tnth sg 0 = tnth ts0 0 ->
  exists vis, In 0 vis /\ inv ts0 sg vis (fill (length ts0) [0] [0] ts0).
Proof. exact fill_consistent. Qed.

Theorem c15_flood_fill_all_visited : forall ts0 sg vis ts, inv ts0 sg vis ts -> orientation_of ts0 sg ->
  (forall i, i < length ts0 -> In i vis) -> ts = sg.
Proof. exact fill_all_visited. Qed.

Theorem c15_flood_fill_only_flips_partial : forall (ix : nat -> N) (ts : list tri),
  Forall2 same_or_flipped ts (correct_local ix ts).
Proof. exact correct_local_sof. Qed.

(* the connectivity hypothesis is about edges: with "connected" read as connected through vertices the statement is false for the code: the fill walks across
   edges only.  Bow-tie: triangle (0,1,2) touches the pair (2,3,4),(3,4,5) at vertex 2; the pair is inconsistent, a
   consistent orientation exists (flip the last triangle), every edge belongs to at most two triangles, and
   correct_local_orientation leaves the mesh as it is.  Replayed on the implementation by checks/c15.py. *)
Theorem c15_flood_fill_consistent_refuted :
  (forall i, i < length bowtie -> nondeg (tnth bowtie i)) /\
  orientation_of bowtie bowtie_sg /\ consistent_all bowtie_sg /\
  NoDup (flat_map dedges bowtie_sg) /\
  correct_local N.of_nat bowtie = bowtie /\ hco_tr N.of_nat (correct_local N.of_nat bowtie) = false.
Proof. exact bowtie_refutes. Qed.

(* ---- the efficient definitions the extracted model runs are the proved ones *)
Theorem c15_fast_orientation_check_equiv : forall (ix : nat -> N) (ts : list tri), hco_fast ix ts = hco_tr ix ts.
Proof. exact hco_fast_eq. Qed.

Theorem c15_position_table_equiv : forall (l : list nat) (g : nat), vpos_t (postab l) g = vpos l g.
Proof. exact vpos_t_eq. Qed.

(* ---- de-duplication by coordinates *)
Theorem c15_add_vertices_distinct : forall vs : list (V3 C),
  pdistinct C ceq vs -> add_vertices C ceq [] vs = (vs, seq 0 (length vs)).
Proof. exact (add_vertices_fresh C ceq rnd c0). Qed.

Theorem c15_geometry_never_holds_equal_vertices : forall g v,
  geom_distinct C ceq c0 g -> geom_distinct C ceq c0 (fst (add_vertex C ceq g v)).
Proof. exact (add_vertex_distinct C ceq rnd c0). Qed.

(* premise-free behaviour of the readers' point insertion, into any geometry (fresh: g = []; a stand-alone Mesh that
   has loaded a file before keeps that file's points in its private geometry): the geometry stays free of equal
   vertices, every point of the file is represented by a vertex equal to it, and (operator== being an equivalence)
   points equal to each other - within the file or to a point already there - become one vertex *)
Theorem c15_add_vertices_any_points : forall (vs : list (V3 C)) (g : list (V3 C)), geom_distinct C ceq c0 g ->
  let (g', im) := add_vertices C ceq g vs in
  geom_distinct C ceq c0 g' /\ length im = length vs /\ (exists ext, g' = g ++ ext) /\
  forall k, k < length vs -> nth k im 0 < length g' /\
    (nth (nth k im 0) g' (v0 C c0) = nth k vs (v0 C c0) \/ veq C ceq (nth (nth k im 0) g' (v0 C c0)) (nth k vs (v0 C c0)) = true).
Proof. exact (add_vertices_spec C ceq rnd c0). Qed.

Theorem c15_load_merges_repeated_points : forall (vs g : list (V3 C)),
  (forall a, veq C ceq a a = true) -> (forall a b, veq C ceq a b = true -> veq C ceq b a = true) ->
  (forall a b c, veq C ceq a b = true -> veq C ceq b c = true -> veq C ceq a c = true) ->
  geom_distinct C ceq c0 g ->
  forall i j, i < length vs -> j < length vs -> veq C ceq (nth i vs (v0 C c0)) (nth j vs (v0 C c0)) = true ->
  nth i (snd (add_vertices C ceq g vs)) 0 = nth j (snd (add_vertices C ceq g vs)) 0.
Proof. exact (repeated_points_merge C ceq rnd c0). Qed.

(* ---- merge (om_mesh_concat), after the repair of Mesh::add_mesh *)
Theorem c15_merge_keeps_triangles : forall m1 m2 m3 : mesh, merge C ceq c0 m1 m2 = Ok m3 ->
  exists raw, merge_raw C ceq c0 m1 m2 = Ok raw /\
    length (tr m3) = nt m1 + nt m2 /\ Forall2 same_or_flipped (tr raw) (tr m3) /\
    gv m3 = gv raw /\ mv m3 = mv raw.
Proof. exact (merge_spec C ceq rnd c0). Qed.

Theorem c15_merge_shares_coincident_vertices : forall m1 m2 r : mesh, merge_raw C ceq c0 m1 m2 = Ok r ->
  length (tr r) = nt m1 + nt m2 /\ geom_distinct C ceq c0 (gv r) /\ NoDup (mv r) /\
  (forall i, In i (mv r) -> i < length (gv r)).
Proof. exact (merge_raw_spec C ceq rnd c0). Qed.

(* ---- the writers number vertices by their position in vertices(), never by Vertex::index() *)
Theorem c15_writers_ignore_vertex_index : forall (m : mesh) (ix ix' : nat -> N),
  isave_tri C rnd c0 {| im_mesh := m; im_index := ix |} = isave_tri C rnd c0 {| im_mesh := m; im_index := ix' |} /\
  isave_off C rnd c0 {| im_mesh := m; im_index := ix |} = isave_off C rnd c0 {| im_mesh := m; im_index := ix' |} /\
  isave_bnd C rnd c0 {| im_mesh := m; im_index := ix |} = isave_bnd C rnd c0 {| im_mesh := m; im_index := ix' |} /\
  isave_mesh C rnd c0 {| im_mesh := m; im_index := ix |} = isave_mesh C rnd c0 {| im_mesh := m; im_index := ix' |} /\
  isave_vtk C rnd c0 {| im_mesh := m; im_index := ix |} = isave_vtk C rnd c0 {| im_mesh := m; im_index := ix' |}.
Proof. exact (writers_ignore_index C rnd c0). Qed.

(* ... so a mesh that shares its geometry with other meshes (vertices() = positions 42.. of the geometry) is written
   with indices 0..nv-1: every index written is below nv and names, in vertices(), the vertex the triangle uses *)
Theorem c15_written_indices_are_positions : forall (m : mesh) lt, wf_mesh C m -> local_triangles m = Some lt ->
  length lt = nt m /\
  forall k, k < nt m -> forall s, s < 3 ->
    nth s (tverts (nth k lt (0, 0, 0))) 0 < nv m /\
    nth (nth s (tverts (nth k lt (0, 0, 0))) 0) (mv m) 0 = nth s (tverts (nth k (tr m) (0, 0, 0))) 0.
Proof. exact (written_indices_are_positions C ceq rnd c0). Qed.

(* ---- format selection by file name (MeshIO::create) *)
Theorem c15_format_by_suffix : forall pre stem ext : list nat,
  (pre = [] \/ exists d, pre = d ++ [47]) -> stem <> [] -> ~ In 47 stem -> ~ In 47 ext -> ~ In 46 ext ->
  format_of (pre ++ stem ++ 46 :: ext) = registry (map lower ext).
Proof. exact format_of_name. Qed.

Theorem c15_format_case_insensitive : forall pre stem ext ext' : list nat,
  (pre = [] \/ exists d, pre = d ++ [47]) -> stem <> [] -> ~ In 47 stem ->
  ~ In 47 ext -> ~ In 46 ext -> ~ In 47 ext' -> ~ In 46 ext' -> map lower ext = map lower ext' ->
  format_of (pre ++ stem ++ 46 :: ext) = format_of (pre ++ stem ++ 46 :: ext').
Proof. exact format_case_insensitive. Qed.

(* ---- VTK writer *)
Theorem c15_vtk_writer_token_structure : forall m : mesh, wf_mesh C m ->
  save_vtk C rnd c0 m =
  Ok ([TW wHash; TW wvtk; TW wDataFile; TW wVersion; TW w20; TNL;
       TW wMesh; TW wfile; TW wgenerated; TW wby; TW wOpenMEEG; TNL;
       TW wASCII; TNL; TW wDATASET; TW wPOLYDATA; TNL;
       TW wPOINTS; TNum (nv m); TW wfloat; TNL]
      ++ flat_map (vline C rnd false) (coords C c0 m)
      ++ [TW wPOLYGONS; TNum (nt m); TNum (nt m * 4); TNL]
      ++ flat_map (tline C true) (map (tri_map (locf (mv m))) (tr m))
      ++ [TW wCELL_DATA; TNum (nt m); TNL; TW wPOINT_DATA; TNum (nv m); TNL;
          TW wNORMALS; TW wnormals; TW wfloat; TNL]
      ++ flat_map (fun _ => [TNrm; TNrm; TNrm; TNL]) (mv m)).
Proof. exact (vtk_structure C rnd c0). Qed.

Theorem c15_vtk_writer_line_count : forall (m : mesh) s, wf_mesh C m ->
  save_vtk C rnd c0 m = Ok s -> nlines C s = 9 + 2 * nv m + nt m.
Proof. exact (vtk_line_count C ceq rnd c0). Qed.

End C15.

Print Assumptions c15_mesh_roundtrip_tri.
Print Assumptions c15_mesh_roundtrip_off.
Print Assumptions c15_mesh_roundtrip_bnd.
Print Assumptions c15_mesh_roundtrip_mesh.
Print Assumptions c15_reloaded_same_counts.
Print Assumptions c15_reloaded_same_triangles.
Print Assumptions c15_reloaded_rounded_coordinates.
Print Assumptions c15_consistent_winding_preserved.
Print Assumptions c15_flood_fill_only_flips_partial.
Print Assumptions c15_flood_fill_consistent.
Print Assumptions c15_flood_fill_consistent_fill.
Print Assumptions c15_flood_fill_visited_invariant.
Print Assumptions c15_flood_fill_all_visited.
Print Assumptions c15_flood_fill_consistent_refuted.
Print Assumptions c15_fast_orientation_check_equiv.
Print Assumptions c15_position_table_equiv.
Print Assumptions c15_add_vertices_distinct.
Print Assumptions c15_geometry_never_holds_equal_vertices.
Print Assumptions c15_add_vertices_any_points.
Print Assumptions c15_load_merges_repeated_points.
Print Assumptions c15_merge_keeps_triangles.
Print Assumptions c15_merge_shares_coincident_vertices.
Print Assumptions c15_writers_ignore_vertex_index.
Print Assumptions c15_written_indices_are_positions.
Print Assumptions c15_format_by_suffix.
Print Assumptions c15_format_case_insensitive.
Print Assumptions c15_vtk_writer_token_structure.
Print Assumptions c15_vtk_writer_line_count.

(* ---- the hypotheses are satisfiable, and the distinctness premise is necessary.
   Coordinates are numbers here; rnd6 maps 51 to 50 (two points closer than the digits written). *)
Definition rnd_ex := rnd_ex'.
(* fan' : centre points (50,50,0) and (51,50,0), corners (0,0,0) (100,0,0) (100,100,0) (0,100,0),
   triangles (0,2,3) (0,3,4) (1,4,5) (1,5,2) *)
Definition fan : MeshCodec.mesh nat := fan'.

Example c15_hypotheses_satisfiable :
  wf_mesh nat fan /\ locally_consistent nat fan /\ fits32 (nv fan) = true /\ fits32 (nt fan) = true /\
  pdistinct nat Nat.eqb (map (vrnd nat (fun x => x)) (coords nat 0 fan)).
Proof. exact fan_ok. Qed.

(* without distinct rounded coordinates: the file is read, but the two centre points have become one vertex
   of the geometry, referenced twice by vertices() *)
Theorem c15_mesh_roundtrip_needs_distinct_refuted :
  exists m : MeshCodec.mesh nat, wf_mesh nat m /\ locally_consistent nat m /\
    exists s m', save_tri nat rnd_ex 0 m = Ok s /\ load_tri nat Nat.eqb s = Ok m' /\
      nv m' = nv m /\ length (gv m') = 5 /\ mv m' = [0; 0; 1; 2; 3; 4] /\
      tr m' = [(0, 1, 2); (0, 2, 3); (0, 3, 4); (0, 4, 1)].
Proof. exact fan_collides. Qed.
Print Assumptions c15_mesh_roundtrip_needs_distinct_refuted.

(* an inconsistent mesh IS changed by load: the second triangle of a square wound the wrong way is flipped *)
Theorem c15_inconsistent_mesh_is_reoriented :
  exists m : MeshCodec.mesh nat, wf_mesh nat m /\
    exists s m', save_off nat (fun x => x) 0 m = Ok s /\ load_off nat Nat.eqb s = Ok m' /\
      local_triangles m = Some [(0, 1, 2); (1, 2, 3)] /\ tr m' = [(0, 1, 2); (2, 1, 3)] /\
      has_correct_orientation m' = true.
Proof. exact square_reoriented. Qed.
Print Assumptions c15_inconsistent_mesh_is_reoriented.

(* a file listing a point twice loads into a fresh mesh object and into a used one as the same mesh (local triangles,
   coordinates, 5 distinct vertices for 6 entries); only the numbering inside the private geometry differs *)
Example c15_repeated_point_fresh_and_reused :
  exists s a b, save_tri nat rnd_ex 0 fan = Ok s /\
    load_tri nat Nat.eqb s = Ok a /\ reload_tri nat Nat.eqb [(0, 0, 0); (7, 7, 7)] s = Ok b /\
    length (gv a) = 5 /\ mv a = [0; 0; 1; 2; 3; 4] /\
    length (gv b) = 6 /\ mv b = [2; 2; 0; 3; 4; 5] /\
    local_triangles a = local_triangles b /\ coords nat 0 a = coords nat 0 b.
Proof. exact seam_fresh_and_reused. Qed.

(* the hypotheses of c15_flood_fill_consistent are satisfiable: the square (0,1,2),(1,2,3) *)
Example c15_flood_fill_hypotheses_satisfiable :
  let ts := [(0, 1, 2); (1, 2, 3)] in
  (forall i, i < length ts -> nondeg (tnth ts i)) /\
  (exists sg, orientation_of ts sg /\ consistent_all sg) /\
  (forall j, j < length ts -> reach ts j) /\ hco_fast N.of_nat ts = false.
Proof. exact square_fill_hyps. Qed.

(* HEAD.TRI, x.Mesh, d.ir/a.b.BND are tri, mesh, bnd; d.tri/x, .tri, a.tri.bak have no known suffix *)
Example c15_format_examples :
  format_of [72; 69; 65; 68; 46; 84; 82; 73] = Some 0 /\ format_of [120; 46; 77; 101; 115; 104] = Some 3 /\
  format_of [100; 46; 105; 114; 47; 97; 46; 98; 46; 66; 78; 68] = Some 2 /\
  format_of [100; 46; 116; 114; 105; 47; 120] = None /\ format_of [46; 116; 114; 105] = None /\
  format_of [97; 46; 116; 114; 105; 46; 98; 97; 107] = None.
Proof. exact format_examples. Qed.
