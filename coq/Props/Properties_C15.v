(* C15 -- placeholder, replaced below *)
From OM Require Import Base.Lists Geom.MeshCodec.
Theorem c15_flip_involutive : forall t, flip (flip t) = t.
Proof. intros [[a b] c]; reflexivity. Qed.
Print Assumptions c15_flip_involutive.
