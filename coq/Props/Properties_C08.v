(* C08 -- each source column depends only on its own source, linearly.
   Models: Geom/AdaptInt.v (Integrator), Geom/Sources.v (DipSourceMat loop with the reused buffer as explicit state,
   operatorDipolePotDer/Pot accumulation, DipSource2MEGMat, DipSource2InternalPotMat).
   The structure theorems hold for every numeric instance (any F, any Ops F, any kernels, any containment test);
   the linearity theorems are over the reals with the kernels' linearity in the moment as an explicit premise. *)
From Coq Require Import List ZArith Bool Arith Reals QArith Permutation.
From OM Require Import Base.Ops Base.Lists Geom.AdaptInt Geom.AdaptIntProofs Geom.Sources Geom.SourcesProofs
                       Geom.SourcesLinear Geom.RunC08.
Import ListNotations.

Section AnyInstance.
Context {F : Type} (o : Ops F).
Variable contains : domain (F:=F) -> pt (F:=F) -> bool.
Variable IDer : dipole (F:=F) -> triangle (F:=F) -> pt (F:=F).
Variable IPot : dipole (F:=F) -> triangle (F:=F) -> F.
Variable K : F.
Local Notation DSM := (DSM o contains IDer IPot K).
Local Notation dsm_col := (dsm_col o contains IDer IPot K).

(* refinement: the loop that threads rhs_col computes column by column what each dipole gives alone, whatever the
   initial (uninitialised) content of the buffer *)
Theorem dsm_loop_eq_map : forall geo named init ds,
  length init = g_size geo -> DSM geo named init ds = omap (dsm_col geo named) ds.
Proof. exact (SourcesProofs.dsm_loop_eq_map o contains IDer IPot K). Qed.

(* column i of a batch = column 0 of the dipole alone *)
Theorem dsm_column_local : forall geo named init init' ds M i d0,
  length init = g_size geo -> length init' = g_size geo ->
  DSM geo named init ds = Some M -> (i < length ds)%nat ->
  DSM geo named init' [nth i ds d0] = Some [nth i M []].
Proof. exact (SourcesProofs.dsm_column_local o contains IDer IPot K). Qed.

(* a batch throws iff one of its dipoles alone throws *)
Theorem dsm_failure_local : forall geo named init ds,
  length init = g_size geo ->
  (DSM geo named init ds = None <-> exists d, In d ds /\ DSM geo named init [d] = None).
Proof. exact (SourcesProofs.dsm_failure_local o contains IDer IPot K). Qed.

(* any re-indexing of the dipole list (permutation, repetition, sub-list) re-indexes the columns *)
Theorem dsm_reindex : forall geo named init init' ds M d0 (p : list nat),
  length init = g_size geo -> length init' = g_size geo ->
  DSM geo named init ds = Some M -> (forall i, In i p -> (i < length ds)%nat) ->
  DSM geo named init' (map (fun i => nth i ds d0) p) = Some (map (fun i => nth i M []) p).
Proof. exact (SourcesProofs.dsm_reindex o contains IDer IPot K). Qed.

Theorem dsm_permutation : forall geo named init init' ds ds' M,
  length init = g_size geo -> length init' = g_size geo ->
  Permutation ds ds' -> DSM geo named init ds = Some M ->
  exists M', DSM geo named init' ds' = Some M' /\ Permutation M M'.
Proof. exact (SourcesProofs.dsm_permutation o contains IDer IPot K). Qed.

Theorem dsm_split : forall geo named init i1 i2 ds1 ds2 M1 M2,
  length init = g_size geo -> length i1 = g_size geo -> length i2 = g_size geo ->
  DSM geo named i1 ds1 = Some M1 -> DSM geo named i2 ds2 = Some M2 ->
  DSM geo named init (ds1 ++ ds2) = Some (M1 ++ M2).
Proof. exact (SourcesProofs.dsm_split o contains IDer IPot K). Qed.

Theorem dsm_repeat : forall geo named init ds M,
  length init = g_size geo -> DSM geo named init ds = Some M ->
  DSM geo named init (ds ++ ds) = Some (M ++ M).
Proof. exact (SourcesProofs.dsm_repeat o contains IDer IPot K). Qed.

Theorem dsm_shape : forall geo named init ds M,
  length init = g_size geo -> DSM geo named init ds = Some M ->
  length M = length ds /\ forall c, In c M -> length c = g_size geo.
Proof. exact (SourcesProofs.dsm_shape o contains IDer IPot K). Qed.

(* a dipole in a domain of conductivity 0 gives exactly the zero column *)
Theorem dsm_zero_in_nonconductive : forall geo named init ds M i d0 k dom,
  length init = g_size geo -> DSM geo named init ds = Some M -> (i < length ds)%nat ->
  lookup_domain contains geo named (nth i ds d0) = Some (k, dom) -> feqb o (dm_cond dom) (f0 o) = true ->
  nth i M [] = zeros o (g_size geo).
Proof. exact (SourcesProofs.dsm_zero_in_nonconductive o contains IDer IPot K). Qed.

(* naming the domain = letting the library locate the dipoles, when they lie in the named domain *)
Theorem dsm_named_domain_eq_located : forall geo n init init' ds,
  length init = g_size geo -> length init' = g_size geo ->
  (forall d, In d ds -> exists r, domain_of_point contains geo (dpos d) = Some r /\ domain_of_name geo n = Some r) ->
  DSM geo (Some n) init ds = DSM geo None init' ds.
Proof. exact (SourcesProofs.dsm_named_domain_eq_located o contains IDer IPot K). Qed.

(* domain(name) is the domain of that name when names are unique (uniqueness itself: C11) *)
Theorem domain_of_name_unique : forall (geo : geometry (F:=F)) k dom,
  nth_error (g_domains geo) k = Some dom -> NoDup (map dm_name (g_domains geo)) ->
  domain_of_name geo (dm_name dom) = Some (k, dom).
Proof. exact SourcesProofs.domain_of_name_unique. Qed.

Variable MagFactor : F.
Variable kpot : dipole (F:=F) -> pt (F:=F) -> F.

Theorem ds2meg_column_local : forall S ds i d0,
  (i < length ds)%nat -> DS2MEG o MagFactor S [nth i ds d0] = [nth i (DS2MEG o MagFactor S ds) []].
Proof. exact (SourcesProofs.ds2meg_column_local o MagFactor). Qed.

Theorem ds2meg_reindex : forall S ds d0 (p : list nat),
  (forall i, In i p -> (i < length ds)%nat) ->
  DS2MEG o MagFactor S (map (fun i => nth i ds d0) p) = map (fun i => nth i (DS2MEG o MagFactor S ds) []) p.
Proof. exact (SourcesProofs.ds2meg_reindex o MagFactor). Qed.

Theorem ds2ip_column_local : forall geo named pts ds M i d0,
  DS2IP o contains K kpot geo named pts ds = Some M -> (i < length ds)%nat ->
  DS2IP o contains K kpot geo named pts [nth i ds d0] = Some [nth i M []].
Proof. exact (SourcesProofs.ds2ip_column_local o contains K kpot). Qed.

Theorem ds2ip_reindex : forall geo named pts ds M d0 (p : list nat),
  DS2IP o contains K kpot geo named pts ds = Some M -> (forall i, In i p -> (i < length ds)%nat) ->
  DS2IP o contains K kpot geo named pts (map (fun i => nth i ds d0) p) = Some (map (fun i => nth i M []) p).
Proof. exact (SourcesProofs.ds2ip_reindex o contains K kpot). Qed.
End AnyInstance.

Print Assumptions dsm_loop_eq_map.
Print Assumptions dsm_column_local.
Print Assumptions dsm_failure_local.
Print Assumptions dsm_reindex.
Print Assumptions dsm_permutation.
Print Assumptions dsm_split.
Print Assumptions dsm_repeat.
Print Assumptions dsm_shape.
Print Assumptions dsm_zero_in_nonconductive.
Print Assumptions dsm_named_domain_eq_located.
Print Assumptions domain_of_name_unique.
Print Assumptions ds2meg_column_local.
Print Assumptions ds2meg_reindex.
Print Assumptions ds2ip_column_local.
Print Assumptions ds2ip_reindex.

(* The reset matters: in the model with `rhs_col.set(0.0)` removed, column locality fails (witness: one domain,
   one triangle, two dipoles; provenance instance, so the statement is about which kernel values reach the column). *)
Definition w_tri : triangle (F:=list Z) := @mkTriangle (list Z) 3 (0, 1, 2)%nat (([7%Z], [], []), ([], [], []), ([], [], [])).
Definition w_geo : geometry (F:=list Z) :=
  @mkGeometry (list Z) [@mkDomain (list Z) 0 [0%Z] [@mkBoundary (list Z) true [@mkOMesh (list Z) (@mkMesh (list Z) [w_tri] false) 1]]] 4.
Definition w_dip (k : Z) : dipole (F:=list Z) := (([k], [0%Z], []), ([], [], [])).
Theorem dsm_noreset_not_local :
  exists M c,
    DSM_noreset PROV s_contains s_IDer s_IPot [0%Z] w_geo None (zeros PROV 4) [w_dip 1; w_dip 2] = Some M /\
    DSM_noreset PROV s_contains s_IDer s_IPot [0%Z] w_geo None (zeros PROV 4) [w_dip 2] = Some [c] /\
    nth 1 M [] <> c.
Proof. eexists; eexists; split; [vm_compute; reflexivity|split; [vm_compute; reflexivity|vm_compute; discriminate]]. Qed.
Print Assumptions dsm_noreset_not_local.

(* the same inputs through the model of the code as it is: local *)
Example dsm_reset_local_on_witness :
  exists M c,
    DSM PROV s_contains s_IDer s_IPot [0%Z] w_geo None (junk 4) [w_dip 1; w_dip 2] = Some M /\
    DSM PROV s_contains s_IDer s_IPot [0%Z] w_geo None (zeros PROV 4) [w_dip 2] = Some [c] /\
    nth 1 M [] = c.
Proof. eexists; eexists; split; [vm_compute; reflexivity|split; vm_compute; reflexivity]. Qed.

(* ---------------- the integrator, over the reals ---------------- *)
Local Open Scope R_scope.

(* fixed rule: exactly linear, for every rule, triangle, integrands; T = double (scalarV) or Vect3 (vect3V) *)
Theorem triangle_integration_linear : forall (T : Type) (V : VOps T), VLaws V ->
  forall (rule : qrule) (a b : R) (f g : pt -> T) (t : tri),
  triangle_integration ROps V rule (fun p => vadd V (vscale V a (f p)) (vscale V b (g p))) t
  = vadd V (vscale V a (triangle_integration ROps V rule f t)) (vscale V b (triangle_integration ROps V rule g t)).
Proof. exact (@AdaptIntProofs.triangle_integration_linear). Qed.
Print Assumptions triangle_integration_linear.

Theorem value_types_are_vector_spaces : VLaws (scalarV ROps) /\ VLaws (vect3V ROps).
Proof. exact (conj scalar_laws vect3_laws). Qed.
Print Assumptions value_types_are_vector_spaces.

(* adaptive scheme: homogeneous for every factor (also 0 and negative ones), every depth, tolerance, rule *)
Theorem adaptive_homogeneous : forall (T : Type) (V : VOps T), VLaws V ->
  forall (rule : qrule) (tol a : R) (f : pt -> T) (n : nat) (t : tri),
  integrate ROps V rule tol (fun p => vscale V a (f p)) n t = vscale V a (integrate ROps V rule tol f n t).
Proof. exact (@AdaptIntProofs.adaptive_homogeneous). Qed.
Print Assumptions adaptive_homogeneous.

(* ... because the refinement tree is the same (relative stopping rule) *)
Theorem adaptive_same_tree : forall (T : Type) (V : VOps T), VLaws V ->
  forall (rule : qrule) (tol a : R) (f : pt -> T) (level : nat) (t : tri) (c : T), a <> 0 ->
  adaptive_tree ROps V rule tol (fun p => vscale V a (f p)) level t (vscale V a c) = adaptive_tree ROps V rule tol f level t c.
Proof. exact (@AdaptIntProofs.adaptive_tree_homogeneous). Qed.
Print Assumptions adaptive_same_tree.

(* additivity is NOT a theorem for the adaptive scheme: exact rational witness where f and g are refined twice and
   f+g once, and the integrals differ *)
Theorem adaptive_additive_refuted :
  (forall p, (cx_f p + cx_g p == px p * px p)%Q) /\
  ~ (cx_int (fun p => cx_f p + cx_g p) == cx_int cx_f + cx_int cx_g)%Q /\
  adaptive_tree QOps (scalarV QOps) cx_rule (1#2)%Q (fun p => (cx_f p + cx_g p)%Q) 1 cx_tri
      (triangle_integration QOps (scalarV QOps) cx_rule (fun p => (cx_f p + cx_g p)%Q) cx_tri) = Leaf /\
  adaptive_tree QOps (scalarV QOps) cx_rule (1#2)%Q cx_f 1 cx_tri
      (triangle_integration QOps (scalarV QOps) cx_rule cx_f cx_tri) = Node Leaf Leaf Leaf Leaf.
Proof. exact adaptive_not_additive_Q. Qed.
Print Assumptions adaptive_additive_refuted.

(* ---------------- linearity of the columns in the moment ---------------- *)
Section Moment.
Variable contains : domain (F:=R) -> pt (F:=R) -> bool.
Variable K : R.
Variable rule : qrule (F:=R).
Variable tol : R.
Variable kder : dipole (F:=R) -> triangle (F:=R) -> pt (F:=R) -> pt (F:=R).
Variable kpot : dipole (F:=R) -> pt (F:=R) -> R.

(* fixed rule (max_depth = 0): column(p, a q1 + b q2) = a column(p,q1) + b column(p,q2) *)
Theorem dsm_linear_in_moment : forall geo named p q1 q2 a b c1 c2,
  kernels_linear kder kpot ->
  dsm_colk contains K rule tol kder kpot 0 geo named (p, q1) = Some c1 ->
  dsm_colk contains K rule tol kder kpot 0 geo named (p, q2) = Some c2 ->
  dsm_colk contains K rule tol kder kpot 0 geo named (p, plc a b q1 q2) = Some (lc a b c1 c2).
Proof. exact (dsm_linear_in_moment_fixed contains K rule tol kder kpot). Qed.

(* any depth (adaptive integration): column(p, a q) = a column(p,q) *)
Theorem dsm_homogeneous_in_moment : forall depth geo named p q a c,
  kernels_homogeneous kder kpot ->
  dsm_colk contains K rule tol kder kpot depth geo named (p, q) = Some c ->
  dsm_colk contains K rule tol kder kpot depth geo named (p, pscale ROps a q) = Some (map (Rmult a) c).
Proof. intros depth. exact (SourcesLinear.dsm_homogeneous_in_moment contains K rule tol depth kder kpot). Qed.

Theorem kernels_linear_homogeneous : kernels_linear kder kpot -> kernels_homogeneous kder kpot.
Proof. exact (SourcesLinear.kernels_linear_homogeneous kder kpot). Qed.

Variable MagFactor : R.
Theorem ds2meg_linear : forall S p q1 q2 a b,
  DS2MEG ROps MagFactor S [(p, plc a b q1 q2)]
  = lcM a b (DS2MEG ROps MagFactor S [(p, q1)]) (DS2MEG ROps MagFactor S [(p, q2)]).
Proof. exact (SourcesLinear.ds2meg_linear MagFactor). Qed.

Theorem ds2ip_linear : forall geo named pts p q1 q2 a b M1 M2,
  (forall p q1 q2 a b r, kpot (p, plc a b q1 q2) r = a * kpot (p, q1) r + b * kpot (p, q2) r) ->
  DS2IP ROps contains K kpot geo named pts [(p, q1)] = Some M1 ->
  DS2IP ROps contains K kpot geo named pts [(p, q2)] = Some M2 ->
  DS2IP ROps contains K kpot geo named pts [(p, plc a b q1 q2)] = Some (lcM a b M1 M2).
Proof. exact (SourcesLinear.ds2ip_linear contains K kpot). Qed.
End Moment.
Print Assumptions dsm_linear_in_moment.
Print Assumptions dsm_homogeneous_in_moment.
Print Assumptions kernels_linear_homogeneous.
Print Assumptions ds2meg_linear.
Print Assumptions ds2ip_linear.

(* the premise kernels_linear is satisfiable by kernels of the code's shape: Dipole::potential itself
   (q.(r-r0)/|r-r0|^3) and a derivative kernel of the form  -(n . (q - 3 (q.x) x / |x|^2)) / |x|^3 * P1(r) *)
Definition ex_kpot (d : dipole (F:=R)) (r : pt (F:=R)) : R :=
  let x := psub ROps r (dpos d) in pdot ROps (dmom d) x / (pnorm2 ROps x * sqrt (pnorm2 ROps x)).
Definition ex_kder (d : dipole (F:=R)) (t : triangle (F:=R)) (r : pt (F:=R)) : pt (F:=R) :=
  let x := psub ROps r (dpos d) in
  let n := t0 (tr_pts t) in
  let inv := / pnorm2 ROps x in
  let em := pdot ROps n (psub ROps (dmom d) (pscale ROps (3 * pdot ROps (dmom d) x * inv) x)) * (inv * sqrt inv) in
  pscale ROps (- em) (t1 (tr_pts t)).
Example kernels_linear_satisfiable : kernels_linear ex_kder ex_kpot.
Proof.
  split.
  - intros p q1 q2 a b t r. apply pt_eq;
      cbv [ex_kder plc padd pscale psub pdot px py pz dpos dmom fst snd fmul fadd fsub ROps pnorm2]; unfold Rdiv; ring.
  - intros p q1 q2 a b r.
    cbv [ex_kpot plc padd pscale psub pdot px py pz dpos dmom fst snd fmul fadd fsub fdiv ROps pnorm2]; unfold Rdiv; ring.
Qed.

(* ---------------- the premise checked for the code's kernels (transcribed in Geom/Kernels.v by C16) ----------------
   code_kder = analyticDipPotDer(dipole,T).f, code_kpot = Dipole::potential: both linear in the moment, so the two column
   theorems hold for them without any kernel premise left (their correspondence with the C++ is C16's tie). *)
From OM Require Geom.SourcesKernels.
Theorem code_kernels_linear : kernels_linear SourcesKernels.code_kder SourcesKernels.code_kpot.
Proof. exact SourcesKernels.code_kernels_linear. Qed.
Print Assumptions code_kernels_linear.

Theorem dsm_linear_in_moment_code : forall contains K rule tol geo named p q1 q2 a b c1 c2,
  dsm_colk contains K rule tol SourcesKernels.code_kder SourcesKernels.code_kpot 0 geo named (p, q1) = Some c1 ->
  dsm_colk contains K rule tol SourcesKernels.code_kder SourcesKernels.code_kpot 0 geo named (p, q2) = Some c2 ->
  dsm_colk contains K rule tol SourcesKernels.code_kder SourcesKernels.code_kpot 0 geo named (p, plc a b q1 q2) = Some (lc a b c1 c2).
Proof. exact SourcesKernels.dsm_linear_in_moment_code. Qed.
Print Assumptions dsm_linear_in_moment_code.

Theorem dsm_homogeneous_in_moment_code : forall contains K rule tol depth geo named p q a c,
  dsm_colk contains K rule tol SourcesKernels.code_kder SourcesKernels.code_kpot depth geo named (p, q) = Some c ->
  dsm_colk contains K rule tol SourcesKernels.code_kder SourcesKernels.code_kpot depth geo named (p, pscale ROps a q) = Some (map (Rmult a) c).
Proof. exact SourcesKernels.dsm_homogeneous_in_moment_code. Qed.
Print Assumptions dsm_homogeneous_in_moment_code.

Theorem ds2ip_linear_code : forall contains K geo named pts p q1 q2 a b M1 M2,
  DS2IP ROps contains K SourcesKernels.code_kpot geo named pts [(p, q1)] = Some M1 ->
  DS2IP ROps contains K SourcesKernels.code_kpot geo named pts [(p, q2)] = Some M2 ->
  DS2IP ROps contains K SourcesKernels.code_kpot geo named pts [(p, plc a b q1 q2)] = Some (lcM a b M1 M2).
Proof. exact SourcesKernels.ds2ip_linear_code. Qed.
Print Assumptions ds2ip_linear_code.

(* ---------------- SurfSourceMat and EITSourceMat (Geom/SurfEIT.v): column structure, any instance, any kernels ----------------
   Both functions fill a zero matrix by `mat(r,c) += x` writes; the model is the program-order list of writes applied to a
   matrix state.  The amplitudes of the sources multiply the columns afterwards (the operators are matrices), so linearity in
   the amplitudes is matrix algebra; what the loops could get wrong is which writes reach which column. *)
From OM Require Geom.SurfEIT Geom.SurfEITProofs.
Section SurfEITProps.
Context {F : Type} (o : Ops F).

(* column j of the filled matrix = the writes addressed to column j applied to a zero column, in program order *)
Theorem run_writes_col : forall nrows ncols (ws : list (SurfEIT.write (F:=F))) j, (j < ncols)%nat ->
  nth j (SurfEIT.run_writes o nrows ncols ws) [] = SurfEIT.run_col o nrows ws j.
Proof. exact (SurfEITProofs.run_writes_col o). Qed.

Variable TM : nat -> nat -> F.       (* transmat of EITSourceMat: built from the geometry before the electrodes are looked at *)
(* column k of EITSourceMat = column 0 of EITSourceMat for electrode k alone; re-indexing the electrodes re-indexes columns *)
Theorem eit_column_local : forall size (es : list (SurfEIT.electrode (F:=F))) k, (k < length es)%nat ->
  nth 0 (SurfEIT.EIT o TM size [nth k es []]) [] = nth k (SurfEIT.EIT o TM size es) [].
Proof. exact (SurfEITProofs.eit_column_local o TM). Qed.

Theorem eit_reindex : forall size (es : list (SurfEIT.electrode (F:=F))) (p : list nat) k,
  (forall i, In i p -> (i < length es)%nat) -> (k < length p)%nat ->
  nth k (SurfEIT.EIT o TM size (map (fun i => nth i es []) p)) [] = nth (nth k p 0%nat) (SurfEIT.EIT o TM size es) [].
Proof. exact (SurfEITProofs.eit_reindex o TM). Qed.

Variable ST : Type.
Variable st_v : ST -> nat * nat * nat.
Variable NV : nat -> nat -> nat -> list ST -> F.
Variable DV : nat -> nat -> ST -> pt (F:=F).
Variable K : F.
(* column j of SurfSourceMat depends on the source mesh only through the source triangles around source vertex j *)
Theorem ssm_column_star : forall size cond bounds nsv (src src' : list ST) j, (j < nsv)%nat ->
  SurfEIT.star ST st_v src j = SurfEIT.star ST st_v src' j ->
  nth j (SurfEIT.SSM o ST st_v NV DV K size cond bounds nsv src) [] = nth j (SurfEIT.SSM o ST st_v NV DV K size cond bounds nsv src') [].
Proof. exact (SurfEITProofs.ssm_column_star o ST st_v NV DV K). Qed.

(* only vertex rows of the meshes bounding the source's domain and triangle rows of those that are not current barriers are
   written (the barrier guard is the repaired code: before the fix SurfSourceMat wrote rows beyond the matrix) *)
Theorem ssm_rows : forall cond bounds nsv (src : list ST) w,
  In w (SurfEIT.ssm_writes o ST st_v NV DV K cond bounds nsv src) ->
  exists b om, In b bounds /\ In om (SurfEIT.bb_meshes b) /\
    (In (SurfEIT.wrow w) (SurfEIT.bm_verts (SurfEIT.bo_mesh om)) \/
     (SurfEIT.bm_barrier (SurfEIT.bo_mesh om) = false /\ In (SurfEIT.wrow w) (SurfEIT.bm_tris (SurfEIT.bo_mesh om)))).
Proof. exact (SurfEITProofs.ssm_rows o ST st_v NV DV K). Qed.
End SurfEITProps.
Print Assumptions run_writes_col.
Print Assumptions eit_column_local.
Print Assumptions eit_reindex.
Print Assumptions ssm_column_star.
Print Assumptions ssm_rows.
