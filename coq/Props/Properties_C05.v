(* C05 -- Parallel assembly is race-free and independent of the thread schedule.
   Property theorems only: each is closed by [exact <lemma>] and followed by Print Assumptions.

   Model (Geom/ParLoops.v): a store slot -> F; an iteration is a straight-line list of actions
   Read / Write (value = function of the values the iteration has read) / Crit (atomic) / Throw; a schedule is any
   list of thread indices (it contains every interleaving respecting program order and critical-section
   atomicity); [finished] = every iteration ran to its end.  The loop descriptors [loop_*] are REGENERATED from the
   C++ sources by translators/t_parloops.py on every run (Gen/GenParLoops.v).
   [well_indexed] is C11's index-bijection statement, here a named hypothesis: distinct triangles / vertices of a
   mesh have distinct unknown indices and the vertex and triangle unknown ranges are disjoint. *)
From OM Require Import Base.Lists Geom.ParLoops Geom.ParLoopsProofs Geom.ParLoopsCrit Geom.ParLoopsGeom Geom.ParLoopsLoops
  Geom.ParLoopsExamples Gen.GenParLoops Geom.ParLoopsConfigs.
From OM Require Gen.GenParLoops_clang Gen.GenParLoops_apple Gen.ParLoopsLoops_clang.
From Coq Require Import Reals Permutation.
Local Open Scope Z_scope.

(* ================= general theorems: every loop, every iteration count, every schedule, every F ================= *)

Theorem drf_schedule_independent : forall (F E : Type) its, conflict_free F E its -> forall sch st,
  finished F E (run F E sch (init F E its st)) ->
  store_eq F (c_store F E (run F E sch (init F E its st))) (run_seq F E its st).
Proof. exact conflict_free_schedule_independent. Qed.
Print Assumptions drf_schedule_independent.

Theorem any_two_complete_schedules_agree : forall (F E : Type) its, conflict_free F E its -> forall s1 s2 st,
  finished F E (run F E s1 (init F E its st)) -> finished F E (run F E s2 (init F E its st)) ->
  store_eq F (c_store F E (run F E s1 (init F E its st))) (c_store F E (run F E s2 (init F E its st))).
Proof. exact conflict_free_any_two_schedules. Qed.
Print Assumptions any_two_complete_schedules_agree.

Theorem complete_schedules_exist : forall (F E : Type) its st, finished F E (run F E (seq_sched F E its) (init F E its st)).
Proof. exact seq_sched_complete. Qed.
Print Assumptions complete_schedules_exist.

Theorem owner_computes_is_race_free : forall (F E : Type) its, conflict_free F E its -> DRF F E its.
Proof. exact conflict_free_DRF. Qed.
Print Assumptions owner_computes_is_race_free.

(* critical accumulation, any F (doubles included): the result is the contributions applied in SOME order of the
   iterations -- "equal up to summation order" *)
Theorem critical_sum_some_iteration_order : forall (F E : Type) (fadd : F -> F -> F) (f0 : F) cs sch st,
  finished F E (run F E sch (init F E (crit_its F E fadd f0 cs) st)) ->
  exists order, Permutation order (seq 0 (length cs)) /\
    c_store F E (run F E sch (init F E (crit_its F E fadd f0 cs) st)) =
    apply_accs F fadd (flat_map (contrib_of F cs) order) st.
Proof. exact critical_sum_some_order. Qed.
Print Assumptions critical_sum_some_iteration_order.

Theorem critical_sum_slot_value : forall (F : Type) (fadd : F -> F -> F) svs st s,
  apply_accs F fadd svs st s = fold_left fadd (map snd (filter (fun sv => slot_eqb (fst sv) s) svs)) (st s).
Proof. exact apply_accs_slot. Qed.
Print Assumptions critical_sum_slot_value.

(* with a commutative and associative addition the order is irrelevant *)
Theorem critical_sum_schedule_independent : forall (F E : Type) (fadd : F -> F -> F) (f0 : F),
  (forall a b, fadd a b = fadd b a) -> (forall a b c, fadd (fadd a b) c = fadd a (fadd b c)) ->
  forall cs sch st, finished F E (run F E sch (init F E (crit_its F E fadd f0 cs) st)) ->
  store_eq F (c_store F E (run F E sch (init F E (crit_its F E fadd f0 cs) st))) (run_seq F E (crit_its F E fadd f0 cs) st).
Proof. exact ParLoopsCrit.critical_sum_schedule_independent. Qed.
Print Assumptions critical_sum_schedule_independent.

Theorem critical_sum_schedule_independent_R : forall (E : Type) (cs : list (list (slot * R))) sch st,
  finished R E (run R E sch (init R E (crit_its R E Rplus R0 cs) st)) ->
  store_eq R (c_store R E (run R E sch (init R E (crit_its R E Rplus R0 cs) st))) (run_seq R E (crit_its R E Rplus R0 cs) st).
Proof. exact ParLoopsExamples.critical_sum_schedule_independent_R. Qed.
Print Assumptions critical_sum_schedule_independent_R.

(* ... and without associativity (doubles) it is not: the full statement is refuted on a saturating addition *)
Theorem critical_sum_bitwise_refuted :
  exists (cs : list (list (slot * Z))) s1 s2 slot,
    finished Z unit (run Z unit s1 (init Z unit (crit_its Z unit sat_add 0 cs) (fun _ => 0))) /\
    finished Z unit (run Z unit s2 (init Z unit (crit_its Z unit sat_add 0 cs) (fun _ => 0))) /\
    c_store Z unit (run Z unit s1 (init Z unit (crit_its Z unit sat_add 0 cs) (fun _ => 0))) slot <>
    c_store Z unit (run Z unit s2 (init Z unit (crit_its Z unit sat_add 0 cs) (fun _ => 0))) slot.
Proof. exact critical_sum_order_matters_without_associativity. Qed.
Print Assumptions critical_sum_bitwise_refuted.

(* exceptions: ThreadException as a state machine, the mutex-protected assignment is one atomic step *)
Theorem rethrow_iff_some_iteration_threw : forall (F E : Type) its sch st,
  finished F E (run F E sch (init F E its st)) ->
  (c_ptr F E (run F E sch (init F E its st)) <> None <-> exists i it, nth_error its i = Some it /\ athrows F E it <> None).
Proof. exact ParLoopsProofs.rethrow_iff_some_iteration_threw. Qed.
Print Assumptions rethrow_iff_some_iteration_threw.

Theorem rethrown_exception_was_raised_by_an_iteration : forall (F E : Type) its sch st e,
  c_ptr F E (run F E sch (init F E its st)) = Some e -> exists i it, nth_error its i = Some it /\ athrows F E it = Some e.
Proof. exact rethrown_exception_was_raised. Qed.
Print Assumptions rethrown_exception_was_raised_by_an_iteration.

Theorem region_raises_iff_some_iteration_threw : forall (F E : Type) (r : region F E) sch st,
  r_wrapped F E r = true -> r_rethrow F E r = true -> finished F E (run F E sch (init F E (r_its F E r) st)) ->
  ((exists e, region_outcome F E r sch st = Raised F E e) <->
   exists i it, nth_error (r_its F E r) i = Some it /\ athrows F E it <> None).
Proof. exact region_raises_iff. Qed.
Print Assumptions region_raises_iff_some_iteration_threw.

Theorem region_without_rethrow_swallows : forall (F E : Type) (r : region F E) sch st e,
  r_rethrow F E r = false -> region_outcome F E r sch st <> Raised F E e.
Proof. exact region_without_rethrow_never_raises. Qed.
Print Assumptions region_without_rethrow_swallows.

Theorem region_returns_the_sequential_result : forall (F E : Type) (r : region F E) sch st,
  conflict_free F E (r_its F E r) ->
  (forall i it, nth_error (r_its F E r) i = Some it -> athrows F E it = None) ->
  finished F E (run F E sch (init F E (r_its F E r) st)) ->
  exists st', region_outcome F E r sch st = Returned F E st' /\ store_eq F st' (run_seq F E (r_its F E r) st).
Proof. exact region_returns_sequential_result. Qed.
Print Assumptions region_returns_the_sequential_result.

(* ================= the translator's view of the sources (fails when the source changes) ================= *)

(* nine live parallel loops, each with a theorem below; a tenth loop makes this fail *)
Theorem all_parallel_loops_are_covered : gen_region_count = 9%nat.
Proof. reflexivity. Qed.

(* ThreadException: capture under the mutex, catch (...) around the body, Rethrow rethrows the stored pointer *)
Theorem thread_exception_is_as_modelled :
  gen_te_capture_locked = true /\ gen_te_capture_stores = true /\ gen_te_run_catches_all = true /\ gen_te_rethrow_rethrows = true.
Proof. repeat split; reflexivity. Qed.

(* statements inside omp critical are wrapped in a nested e.Run: an exception never leaves the critical construct
   (leaving it is non-conforming OpenMP: the runtime terminates the program instead of letting it reach Rethrow) *)
Theorem critical_sections_capture_exceptions :
  gen_critical_capture = true /\ Gen.GenParLoops_clang.gen_critical_capture = true /\ Gen.GenParLoops_apple.gen_critical_capture = true.
Proof. repeat split; reflexivity. Qed.

(* no noexcept boundary (noexcept function or destructor containing .at( / om_assert / throw) below the loop bodies:
   an exception raised by the accessors the bodies call can reach ThreadException::Run *)
Theorem no_throwing_noexcept_below_the_loops :
  gen_throwing_noexcept = 0%nat /\ Gen.GenParLoops_clang.gen_throwing_noexcept = 0%nat /\ Gen.GenParLoops_apple.gen_throwing_noexcept = 0%nat.
Proof. repeat split; reflexivity. Qed.

(* ++pb inside BlocksBase::D is harmless only because the compiled ProgressBar is the empty one *)
Theorem progressbar_is_empty : gen_progressbar_empty = true.
Proof. reflexivity. Qed.

(* every region: whole body inside e.Run, e.Rethrow() right after the loop *)
Theorem loops_catch_and_rethrow : forall (F E : Type) fadd f0,
  (forall a b c d e f, let r := loop_operators_h_BlocksBase_D F E fadd f0 a b c d e f in r_wrapped F E r = true /\ r_rethrow F E r = true) /\
  (forall a b c d e f, let r := loop_operators_h_DiagonalBlock_S F E fadd f0 a b c d e f in r_wrapped F E r = true /\ r_rethrow F E r = true) /\
  (forall a b c d e f g h i, let r := loop_operators_h_DiagonalBlock_N F E fadd f0 a b c d e f g h i in r_wrapped F E r = true /\ r_rethrow F E r = true) /\
  (forall a b c d e f g, let r := loop_operators_h_NonDiagonalBlock_S F E fadd f0 a b c d e f g in r_wrapped F E r = true /\ r_rethrow F E r = true) /\
  (forall a b c d e f g h i j k, let r := loop_operators_h_NonDiagonalBlock_N F E fadd f0 a b c d e f g h i j k in r_wrapped F E r = true /\ r_rethrow F E r = true) /\
  (forall a b c d e f, let r := loop_assembleHeadMat_cpp_deflate F E fadd f0 a b c d e f in r_wrapped F E r = true /\ r_rethrow F E r = true) /\
  (forall a b c d e f g h, let r := loop_operators_cpp_operatorFerguson F E fadd f0 a b c d e f g h in r_wrapped F E r = true /\ r_rethrow F E r = true) /\
  (forall a b c d, let r := loop_operators_cpp_operatorDipolePotDer F E fadd f0 a b c d in r_wrapped F E r = true /\ r_rethrow F E r = true) /\
  (forall a b c d, let r := loop_operators_cpp_operatorDipolePot F E fadd f0 a b c d in r_wrapped F E r = true /\ r_rethrow F E r = true).
Proof. intros; repeat split; reflexivity. Qed.
Print Assumptions loops_catch_and_rethrow.

(* ================= per-loop theorems over the generated descriptors ================= *)

(* D blocks: BlocksBase::D, operators.h *)
Theorem loop_D_DRF : forall (F E : Type) fadd f0 isV ms m1 m2 c a val exn,
  well_indexed isV ms -> In m1 ms -> In m2 ms -> sym_inj (fun i => 0 <= i) a ->
  conflict_free F E (r_its F E (loop_operators_h_BlocksBase_D F E fadd f0 (m_triangles m1) (m_triangles m2) c a val exn)).
Proof. exact loop_D_cf_sym. Qed.
Print Assumptions loop_D_DRF.

Theorem loop_D_DRF_matrix_target : forall (F E : Type) fadd f0 (domr domc : Z -> Prop) ts1 ts2 c a val exn,
  NoDup (map t_index ts1) -> ord_inj domr domc a ->
  (forall t, In t ts1 -> domr (t_index t)) -> (forall t k, In t ts2 -> domc (t_vertex t k)) ->
  conflict_free F E (r_its F E (loop_operators_h_BlocksBase_D F E fadd f0 ts1 ts2 c a val exn)).
Proof. exact loop_D_cf_ord. Qed.
Print Assumptions loop_D_DRF_matrix_target.

(* S blocks *)
Theorem loop_S_diagonal_DRF : forall (F E : Type) fadd f0 (domr domc : Z -> Prop) ts k c a val exn,
  NoDup (map t_index ts) -> row_inj domr domc a ->
  domr (t_index (nth k ts dtri)) -> (forall t, In t ts -> domc (t_index t)) ->
  conflict_free F E (r_its F E (loop_operators_h_DiagonalBlock_S F E fadd f0 ts k c a val exn)).
Proof. exact loop_S_diag_cf. Qed.
Print Assumptions loop_S_diagonal_DRF.

Theorem loop_S_nondiagonal_DRF : forall (F E : Type) fadd f0 (domr domc : Z -> Prop) ts1 t1 ts2 c a val exn,
  NoDup (map t_index ts2) -> row_inj domr domc a ->
  domr (t_index t1) -> (forall t, In t ts2 -> domc (t_index t)) ->
  conflict_free F E (r_its F E (loop_operators_h_NonDiagonalBlock_S F E fadd f0 ts1 t1 ts2 c a val exn)).
Proof. exact loop_S_nondiag_cf. Qed.
Print Assumptions loop_S_nondiagonal_DRF.

(* N blocks reading the S block of the SAME matrix: triangle x triangle reads against vertex x vertex writes *)
Theorem loop_N_diagonal_DRF : forall (F E : Type) fadd f0 isV ms m k c a val exn,
  well_indexed isV ms -> In m ms -> sym_inj (fun i => 0 <= i) a -> (k < length (m_vertices m))%nat ->
  conflict_free F E (r_its F E (loop_operators_h_DiagonalBlock_N F E fadd f0 (m_vertices m) k c a (m_adj m) c a val exn)).
Proof. exact loop_N_diag_cf_alias. Qed.
Print Assumptions loop_N_diagonal_DRF.

Theorem loop_N_nondiagonal_DRF : forall (F E : Type) fadd f0 isV ms m1 m2 v1 c a val exn,
  well_indexed isV ms -> In m1 ms -> In m2 ms -> sym_inj (fun i => 0 <= i) a -> In v1 (m_vertices m1) ->
  conflict_free F E (r_its F E (loop_operators_h_NonDiagonalBlock_N F E fadd f0 (m_vertices m1) v1 (m_vertices m2) c a (m_adj m1) (m_adj m2) c a val exn)).
Proof. exact loop_N_nondiag_cf_alias. Qed.
Print Assumptions loop_N_nondiagonal_DRF.

(* N blocks reading a separate temporary S block (SymBloc / Bloc) *)
Theorem loop_N_diagonal_DRF_separate_S : forall (F E : Type) fadd f0 (domr domc : Z -> Prop) vs k c a adj cS aS val exn,
  NoDup vs -> cS <> c -> row_inj domr domc a -> domr (nth k vs 0) -> (forall v, In v vs -> domc v) ->
  conflict_free F E (r_its F E (loop_operators_h_DiagonalBlock_N F E fadd f0 vs k c a adj cS aS val exn)).
Proof. exact loop_N_diag_cf_sep. Qed.
Print Assumptions loop_N_diagonal_DRF_separate_S.

Theorem loop_N_nondiagonal_DRF_separate_S : forall (F E : Type) fadd f0 (domr domc : Z -> Prop) vs1 v1 vs2 c a adj1 adj2 cS aS val exn,
  NoDup vs2 -> cS <> c -> row_inj domr domc a -> domr v1 -> (forall v, In v vs2 -> domc v) ->
  conflict_free F E (r_its F E (loop_operators_h_NonDiagonalBlock_N F E fadd f0 vs1 v1 vs2 c a adj1 adj2 cS aS val exn)).
Proof. exact loop_N_nondiag_cf_sep. Qed.
Print Assumptions loop_N_nondiagonal_DRF_separate_S.

(* deflation of the head matrix *)
Theorem loop_deflate_DRF : forall (F E : Type) fadd f0 (domr domc : Z -> Prop) vs k c a val exn,
  NoDup vs -> row_inj domr domc a -> domr (nth k vs 0) -> (forall v, In v vs -> domc v) ->
  conflict_free F E (r_its F E (loop_assembleHeadMat_cpp_deflate F E fadd f0 vs k c a val exn)).
Proof. exact loop_deflate_cf. Qed.
Print Assumptions loop_deflate_DRF.

(* operators.cpp *)
Theorem loop_ferguson_DRF : forall (F E : Type) fadd f0 vs c off nlin v0 v1 v2 exn,
  NoDup vs -> 0 <= off -> off + 2 < nlin ->
  conflict_free F E (r_its F E (loop_operators_cpp_operatorFerguson F E fadd f0 vs c off nlin v0 v1 v2 exn)).
Proof. exact loop_ferguson_cf. Qed.
Print Assumptions loop_ferguson_DRF.

Theorem loop_dipolepot_DRF : forall (F E : Type) fadd f0 ts c val exn,
  NoDup (map t_index ts) ->
  conflict_free F E (r_its F E (loop_operators_cpp_operatorDipolePot F E fadd f0 ts c val exn)).
Proof. exact loop_dipolepot_cf. Qed.
Print Assumptions loop_dipolepot_DRF.

(* the one accumulation over shared vertices: race free BECAUSE it is inside omp critical, for any mesh at all *)
Theorem loop_dipolepotder_DRF : forall (F E : Type) fadd f0 ts c val exn,
  DRF F E (r_its F E (loop_operators_cpp_operatorDipolePotDer F E fadd f0 ts c val exn)).
Proof. exact loop_potder_DRF. Qed.
Print Assumptions loop_dipolepotder_DRF.

Theorem loop_dipolepotder_is_a_critical_sum : forall (F E : Type) fadd f0 ts c val,
  r_its F E (loop_operators_cpp_operatorDipolePotDer F E fadd f0 ts c val (fun _ => None)) =
  crit_its F E fadd f0 (potder_contribs F c val ts).
Proof. exact loop_potder_shape. Qed.
Print Assumptions loop_dipolepotder_is_a_critical_sum.

(* without the pragma the same statements race and the result depends on the schedule (two triangles sharing an edge) *)
Theorem unprotected_accumulation_races : ~ DRF Z unit (potder_unprotected [ex_t4; ex_t5]).
Proof. exact potder_unprotected_not_DRF. Qed.
Print Assumptions unprotected_accumulation_races.

Theorem unprotected_accumulation_refuted :
  exists sch s,
    finished Z unit (run Z unit sch (init Z unit (potder_unprotected [ex_t4; ex_t5]) (fun _ => 0))) /\
    c_store Z unit (run Z unit sch (init Z unit (potder_unprotected [ex_t4; ex_t5]) (fun _ => 0))) s
      <> run_seq Z unit (potder_unprotected [ex_t4; ex_t5]) (fun _ => 0) s.
Proof. exact potder_unprotected_schedule_dependent. Qed.
Print Assumptions unprotected_accumulation_refuted.

(* ================= the other build configurations (conditional compilation evaluated under each) ================= *)
(* clang / libomp on Linux -- the property's second observation point.  Gen/ParLoopsLoops_clang.v is the per-loop proof
   script re-checked against GenParLoops_clang; the statements that matter most are repeated here. *)
Module C := Gen.GenParLoops_clang.
Module LC := Gen.ParLoopsLoops_clang.

Theorem clang_all_parallel_loops_are_covered : C.gen_region_count = 9%nat /\ C.gen_critical_sections = 1%nat.
Proof. split; reflexivity. Qed.

Theorem clang_loop_dipolepotder_DRF : forall (F E : Type) fadd f0 ts c val exn,
  DRF F E (r_its F E (C.loop_operators_cpp_operatorDipolePotDer F E fadd f0 ts c val exn)).
Proof. exact LC.loop_potder_DRF. Qed.
Print Assumptions clang_loop_dipolepotder_DRF.

Theorem clang_loop_dipolepotder_is_a_critical_sum : forall (F E : Type) fadd f0 ts c val,
  r_its F E (C.loop_operators_cpp_operatorDipolePotDer F E fadd f0 ts c val (fun _ => None)) =
  crit_its F E fadd f0 (LC.potder_contribs F c val ts).
Proof. exact LC.loop_potder_shape. Qed.
Print Assumptions clang_loop_dipolepotder_is_a_critical_sum.

Theorem clang_loop_D_DRF : forall (F E : Type) fadd f0 isV ms m1 m2 c a val exn,
  well_indexed isV ms -> In m1 ms -> In m2 ms -> sym_inj (fun i => 0 <= i) a ->
  conflict_free F E (r_its F E (C.loop_operators_h_BlocksBase_D F E fadd f0 (m_triangles m1) (m_triangles m2) c a val exn)).
Proof. exact LC.loop_D_cf_sym. Qed.
Print Assumptions clang_loop_D_DRF.

Theorem clang_owner_computes_loops_DRF : forall (F E : Type) fadd f0,
  (forall (domr domc : Z -> Prop) ts k c a val exn, NoDup (map t_index ts) -> LC.row_inj domr domc a ->
     domr (t_index (nth k ts dtri)) -> (forall t, In t ts -> domc (t_index t)) ->
     conflict_free F E (r_its F E (C.loop_operators_h_DiagonalBlock_S F E fadd f0 ts k c a val exn))) /\
  (forall (domr domc : Z -> Prop) ts1 t1 ts2 c a val exn, NoDup (map t_index ts2) -> LC.row_inj domr domc a ->
     domr (t_index t1) -> (forall t, In t ts2 -> domc (t_index t)) ->
     conflict_free F E (r_its F E (C.loop_operators_h_NonDiagonalBlock_S F E fadd f0 ts1 t1 ts2 c a val exn))) /\
  (forall isV ms m k c a val exn, well_indexed isV ms -> In m ms -> sym_inj (fun i => 0 <= i) a -> (k < length (m_vertices m))%nat ->
     conflict_free F E (r_its F E (C.loop_operators_h_DiagonalBlock_N F E fadd f0 (m_vertices m) k c a (m_adj m) c a val exn))) /\
  (forall isV ms m1 m2 v1 c a val exn, well_indexed isV ms -> In m1 ms -> In m2 ms -> sym_inj (fun i => 0 <= i) a -> In v1 (m_vertices m1) ->
     conflict_free F E (r_its F E (C.loop_operators_h_NonDiagonalBlock_N F E fadd f0 (m_vertices m1) v1 (m_vertices m2) c a (m_adj m1) (m_adj m2) c a val exn))) /\
  (forall (domr domc : Z -> Prop) vs k c a val exn, NoDup vs -> LC.row_inj domr domc a -> domr (nth k vs 0) -> (forall v, In v vs -> domc v) ->
     conflict_free F E (r_its F E (C.loop_assembleHeadMat_cpp_deflate F E fadd f0 vs k c a val exn))) /\
  (forall vs c off nlin v0 v1 v2 exn, NoDup vs -> 0 <= off -> off + 2 < nlin ->
     conflict_free F E (r_its F E (C.loop_operators_cpp_operatorFerguson F E fadd f0 vs c off nlin v0 v1 v2 exn))) /\
  (forall ts c val exn, NoDup (map t_index ts) ->
     conflict_free F E (r_its F E (C.loop_operators_cpp_operatorDipolePot F E fadd f0 ts c val exn))).
Proof.
  intros F E fadd f0. repeat split.
  - exact (LC.loop_S_diag_cf F E fadd f0). - exact (LC.loop_S_nondiag_cf F E fadd f0).
  - exact (LC.loop_N_diag_cf_alias F E fadd f0). - exact (LC.loop_N_nondiag_cf_alias F E fadd f0).
  - exact (LC.loop_deflate_cf F E fadd f0). - exact (LC.loop_ferguson_cf F E fadd f0). - exact (LC.loop_dipolepot_cf F E fadd f0).
Qed.
Print Assumptions clang_owner_computes_loops_DRF.

(* macOS (`__APPLE__`, clang): the pinned source itself drops the omp critical of operatorDipolePotDer.  The other eight
   loops and the exception machinery are literally those of the g++ configuration; the accumulation is NOT race free
   and its result depends on the schedule (full statement refuted; recorded as a known finding for macOS builds and
   replayed by the check on a clang build of operators.cpp with -D__APPLE__). *)
Theorem apple_other_loops_unchanged :
  Gen.GenParLoops_apple.loop_operators_h_BlocksBase_D = Gen.GenParLoops_gcc.loop_operators_h_BlocksBase_D /\
  Gen.GenParLoops_apple.loop_operators_h_DiagonalBlock_S = Gen.GenParLoops_gcc.loop_operators_h_DiagonalBlock_S /\
  Gen.GenParLoops_apple.loop_operators_h_DiagonalBlock_N = Gen.GenParLoops_gcc.loop_operators_h_DiagonalBlock_N /\
  Gen.GenParLoops_apple.loop_operators_h_NonDiagonalBlock_S = Gen.GenParLoops_gcc.loop_operators_h_NonDiagonalBlock_S /\
  Gen.GenParLoops_apple.loop_operators_h_NonDiagonalBlock_N = Gen.GenParLoops_gcc.loop_operators_h_NonDiagonalBlock_N /\
  Gen.GenParLoops_apple.loop_assembleHeadMat_cpp_deflate = Gen.GenParLoops_gcc.loop_assembleHeadMat_cpp_deflate /\
  Gen.GenParLoops_apple.loop_operators_cpp_operatorFerguson = Gen.GenParLoops_gcc.loop_operators_cpp_operatorFerguson /\
  Gen.GenParLoops_apple.loop_operators_cpp_operatorDipolePot = Gen.GenParLoops_gcc.loop_operators_cpp_operatorDipolePot /\
  Gen.GenParLoops_apple.gen_region_count = Gen.GenParLoops_gcc.gen_region_count /\
  Gen.GenParLoops_apple.gen_progressbar_empty = Gen.GenParLoops_gcc.gen_progressbar_empty /\
  Gen.GenParLoops_apple.gen_te_capture_locked = Gen.GenParLoops_gcc.gen_te_capture_locked /\
  Gen.GenParLoops_apple.gen_te_run_catches_all = Gen.GenParLoops_gcc.gen_te_run_catches_all /\
  Gen.GenParLoops_apple.gen_te_rethrow_rethrows = Gen.GenParLoops_gcc.gen_te_rethrow_rethrows.
Proof. exact apple_other_loops_are_the_gcc_ones. Qed.

Theorem apple_loop_dipolepotder_DRF_refuted : ~ DRF Z unit apple_potder_its.
Proof. exact apple_potder_not_DRF. Qed.
Print Assumptions apple_loop_dipolepotder_DRF_refuted.

Theorem apple_loop_dipolepotder_schedule_independence_refuted :
  exists sch s,
    finished Z unit (run Z unit sch (init Z unit apple_potder_its (fun _ => 0))) /\
    c_store Z unit (run Z unit sch (init Z unit apple_potder_its (fun _ => 0))) s
      <> run_seq Z unit apple_potder_its (fun _ => 0) s.
Proof. exact apple_potder_schedule_dependent. Qed.
Print Assumptions apple_loop_dipolepotder_schedule_independence_refuted.

(* ================= the container kinds the templates are instantiated with satisfy the addressing hypotheses ================= *)
Theorem symmatrix_addressing : sym_inj (fun i => 0 <= i) pidx.
Proof. exact pidx_sym_inj. Qed.
Print Assumptions symmatrix_addressing.
Theorem matrix_addressing : forall n, ord_inj (fun i => 0 <= i < n) (fun _ => True) (cmidx n).
Proof. exact cmidx_ord_inj. Qed.
Print Assumptions matrix_addressing.
Theorem symbloc_addressing : forall off, sym_inj (fun i => off <= i) (fun i j => pidx (i - off) (j - off)).
Proof. exact symbloc_sym_inj. Qed.
Print Assumptions symbloc_addressing.
Theorem bloc_addressing : forall n i0 j0, ord_inj (fun i => i0 <= i < i0 + n) (fun j => j0 <= j) (fun i j => cmidx n (i - i0) (j - j0)).
Proof. exact bloc_ord_inj. Qed.
Print Assumptions bloc_addressing.
Theorem symmetric_addressing_is_row_injective : forall dom a, sym_inj dom a -> row_inj dom dom a.
Proof. exact sym_row_inj. Qed.
Theorem ordered_addressing_is_row_injective : forall d1 d2 a, ord_inj d1 d2 a -> row_inj d1 d2 a.
Proof. exact ord_row_inj. Qed.

(* ================= the hypotheses are satisfiable ================= *)
Example well_indexed_is_satisfiable : well_indexed (fun v => v < 4) [ex_mesh].
Proof. exact ex_mesh_well_indexed. Qed.

Example loop_D_on_the_example_mesh : forall (F E : Type) fadd f0 val exn,
  conflict_free F E (r_its F E (loop_operators_h_BlocksBase_D F E fadd f0 (m_triangles ex_mesh) (m_triangles ex_mesh) 0%nat pidx val exn)).
Proof.
  intros. eapply loop_D_cf_sym with (ms := [ex_mesh]); [exact ex_mesh_well_indexed|left; reflexivity|left; reflexivity|exact pidx_sym_inj].
Qed.
