(* C20 — Command-line tools compute exactly what the library computes: the argument-handling part.
   Property theorems only.  [gen_tools] is the table regenerated from apps/*.cpp and apps/tools/*.cpp by
   translators/t_cli.py on every run; [run_tool], [block_option], [num_args], [find_argument] model
   OpenMEEG/include/commandline.h and the shape of the tools' main functions (coq/Geom/Cli.v).
   A command line is a list of tokens (byte lists), argv[0] included; statements hold for ALL command lines. *)
From Coq Require Import List Arith ZArith Bool String.
From OM Require Import Geom.Cli Geom.CliProofs Gen.GenCli Geom.CliTool Geom.CliStrings Geom.CliConv Geom.GainAssoc.
Import ListNotations.

(* ---- parameters are read where they were given ---- *)

(* an accepted option only reads opt_parms[k] with k <= num_args, i.e. inside argv *)
Theorem c20_indices_in_range : forall t b argv i u,
  In t gen_tools -> In b (t_blocks t) -> block_option argv b = Ret (Some i) ->
  In u (b_uses b) -> guard_holds (u_guard u) (num_args argv i) = true ->
  u_k u <= num_args argv i /\ i + u_k u < List.length argv.
Proof. exact indices_in_range. Qed.
Print Assumptions c20_indices_in_range.

(* what is read as parameter k>=1 never starts with '-' (it is not the next option) *)
Theorem c20_reads_are_parameters : forall t b argv i u tk,
  In t gen_tools -> In b (t_blocks t) -> block_option argv b = Ret (Some i) ->
  In u (b_uses b) -> guard_holds (u_guard u) (num_args argv i) = true -> 1 <= u_k u ->
  nth_error argv (i + u_k u) = Some tk -> is_dash tk = false.
Proof. exact reads_are_parameters. Qed.
Print Assumptions c20_reads_are_parameters.

(* with exactly the mandatory or exactly all documented parameters, every one of them is read (none is skipped) *)
Theorem c20_documented_parameters_all_read : forall t b argv i k,
  In t gen_tools -> In b (t_blocks t) -> block_option argv b = Ret (Some i) ->
  (num_args argv i = nmand b \/ num_args argv i = List.length (b_parms b)) ->
  1 <= k <= num_args argv i -> In (k, i + k) (block_reads b i (num_args argv i)).
Proof. exact documented_parameters_all_read. Qed.
Print Assumptions c20_documented_parameters_all_read.

(* documented order = order read.  [b_doc] is the list of parameters the tool's help text prints for the option, in that
   order, each classified from its wording; [u_kind] is what the code does with opt_parms[k], classified from the TYPE it
   is handed to (Geometry constructor argument 0/1, Matrix, SymMatrix, SparseMatrix, Sensors, Mesh, save, a string).
   On a line with all documented parameters and on a line with the mandatory ones only, the k-th parameter goes where the
   k-th documented parameter says.  (Two parameters of the same kind, e.g. two Matrix files, are told apart only by the
   differential runs.) *)
Theorem c20_documented_order_read : forall t b argv i u,
  In t gen_tools -> In b (t_blocks t) -> block_option argv b = Ret (Some i) ->
  (num_args argv i = List.length (doc_full b) \/ num_args argv i = List.length (doc_mand b)) ->
  In u (b_uses b) -> guard_holds (u_guard u) (num_args argv i) = true -> 1 <= u_k u ->
  exists d, nth_error (if num_args argv i =? List.length (doc_full b) then doc_full b else doc_mand b) (u_k u - 1) = Some d
            /\ compat d (u_kind u) = true.
Proof. exact documented_order_read. Qed.
Print Assumptions c20_documented_order_read.

(* -old-ordering reaches every Geometry: in a tool that declares the flag, every Geometry an option block builds gets
   OLD_ORDERING = (the flag is on the command line), for every command line.  [b_geo] is extracted by the translator
   from the constructor calls `Geometry x(a,b[,flag])` of each block. *)
Theorem c20_old_ordering_reaches_every_geometry : forall t b argv o,
  In t gen_tools -> ordering_var t <> None -> In b (t_blocks t) -> In o (block_orderings t argv b) ->
  o = bool_value argv tok_old_ordering false.
Proof. exact old_ordering_reaches_every_geometry. Qed.
Print Assumptions c20_old_ordering_reaches_every_geometry.

Example c20_ex_assemble_has_ordering_flag :
  ordering_var tool_om_assemble <> None /\
  List.length (filter (fun b => negb (match b_geo b with [] => true | _ => false end)) (t_blocks tool_om_assemble)) = 10.
Proof. vm_compute. split; [discriminate|reflexivity]. Qed.

(* no tool, on no command line, reads argv[argc] or beyond *)
Theorem c20_no_read_outside_argv : forall t argv, In t gen_tools -> r_final (run_tool t argv) <> FCrash.
Proof. exact no_read_outside_argv. Qed.
Print Assumptions c20_no_read_outside_argv.

(* positional tools (om_minverser, om_forward): argv[k] only after argc>k was checked *)
Theorem c20_positional_in_range : forall t argv k s,
  In t gen_tools -> In (k, s) (t_argv_uses t) -> pre_exit t argv = None -> k < List.length argv.
Proof. exact positional_in_range. Qed.
Print Assumptions c20_positional_in_range.

(* the option parser accepts only when one of the aliases is on the line with its mandatory parameters *)
Theorem c20_accept_means_mandatory_given : forall argv b i,
  block_option argv b = Ret (Some i) ->
  exists a, In a (b_aliases b) /\ find_argument argv a = Some i /\ nmand b <= num_args argv i.
Proof. exact block_option_some. Qed.
Print Assumptions c20_accept_means_mandatory_given.

(* ---- aliases ---- *)
(* two aliases of one option (same variant) give the same run: same block, same positions read, same status *)
Theorem c20_aliases_equivalent : forall t b a a' pre post,
  In t gen_tools -> In b (t_blocks t) -> In a (b_aliases b) -> In a' (b_aliases b) ->
  (In a (b_variant b) <-> In a' (b_variant b)) ->
  (forall c, In c (all_aliases t) -> ~ In c pre /\ ~ In c post) ->
  run_blocks (pre ++ a :: post) (t_blocks t) 0 0 (t_unknown_exit t) =
  run_blocks (pre ++ a' :: post) (t_blocks t) 0 0 (t_unknown_exit t).
Proof. exact aliases_equivalent. Qed.
Print Assumptions c20_aliases_equivalent.

(* every option name introduced by the tool's help text is accepted by one of its option blocks *)
Theorem c20_documented_aliases_accepted : forall t a,
  In t gen_tools -> In a (t_documented t) -> exists b, In b (t_blocks t) /\ In a (b_aliases b).
Proof. exact documented_accepted. Qed.
Print Assumptions c20_documented_aliases_accepted.

(* alias -> variant partition: the aliases that switch a block to its variant (-DipSourceMatNoAdapt, -DSMNA, -dsmna: no
   adaptive integration) are disjoint from the option names the help text documents, so every documented alias (-dsm
   included) runs the documented computation: its variant bit is false on every command line *)
Theorem c20_alias_variant_partition : forall t b a,
  In t gen_tools -> In b (t_blocks t) -> In a (t_documented t) -> ~ In a (b_variant b).
Proof. exact alias_variant_partition. Qed.
Print Assumptions c20_alias_variant_partition.

Theorem c20_documented_alias_default_variant : forall t b a pre post,
  In t gen_tools -> In b (t_blocks t) -> In a (t_documented t) ->
  variant_of (pre ++ a :: post) b (List.length pre) = false.
Proof. exact documented_alias_default_variant. Qed.
Print Assumptions c20_documented_alias_default_variant.

Example c20_ex_dsm_variants :
  map (fun a => map e_variant (r_execs (run_tool tool_om_assemble (cmdline ["om_assemble"; a; "g"; "c"; "d"; "o"]%string))))
      ["-DipSourceMat"; "-DSM"; "-dsm"; "-DipSourceMatNoAdapt"; "-DSMNA"; "-dsmna"]%string
  = [[false]; [false]; [false]; [true]; [true]; [true]].
Proof. vm_compute. reflexivity. Qed.

(* ---- invalid and incomplete command lines ---- *)
(* an option given with fewer than its mandatory parameters: status 1 *)
Theorem c20_incomplete_rejected : forall t b a argv i,
  In t gen_tools -> In b (t_blocks t) -> In a (b_aliases b) -> pre_exit t argv = None ->
  find_argument argv a = Some i -> num_args argv i < nmand b ->
  r_final (run_tool t argv) = FExit 1%Z.
Proof. exact incomplete_rejected. Qed.
Print Assumptions c20_incomplete_rejected.

(* every early return taken without -h/--help has a non-zero status and nothing has run *)
Theorem c20_early_return_nonzero : forall t argv c,
  In t gen_tools -> help_mode argv = false -> pre_exit t argv = Some c ->
  c <> 0%Z /\ r_final (run_tool t argv) = FExit c /\ r_execs (run_tool t argv) = [].
Proof. exact early_return_nonzero. Qed.
Print Assumptions c20_early_return_nonzero.

Theorem c20_too_few_arguments_nonzero : forall t k argv,
  In t gen_tools -> has_argc_check t k = true -> List.length argv < k -> help_mode argv = false ->
  exists c, c <> 0%Z /\ r_final (run_tool t argv) = FExit c /\ r_execs (run_tool t argv) = [].
Proof. exact too_few_arguments_nonzero. Qed.
Print Assumptions c20_too_few_arguments_nonzero.

(* om_minverser with fewer than two file names (pinned tree: status 0 because help() called exit(0); repaired) *)
Theorem c20_minverser_incomplete_nonzero : forall argv,
  List.length argv < 3 -> help_mode argv = false ->
  exists c, c <> 0%Z /\ r_final (run_tool tool_om_minverser argv) = FExit c /\ r_execs (run_tool tool_om_minverser argv) = [].
Proof. exact minverser_incomplete_nonzero. Qed.
Print Assumptions c20_minverser_incomplete_nonzero.

(* a required file-name option (-i, -o, -g, -i1, -i2) that is absent, empty or last on the line *)
Theorem c20_required_option_missing_rejected : forall t p v argv,
  In t gen_tools -> In p (t_pre t) -> In (CEmpty v) (pc_conds p) -> var_empty t argv v = true ->
  help_mode argv = false ->
  exists c, c <> 0%Z /\ r_final (run_tool t argv) = FExit c /\ r_execs (run_tool t argv) = [].
Proof. exact required_option_missing_rejected. Qed.
Print Assumptions c20_required_option_missing_rejected.

(* two different options of om_assemble / om_gain on one line: status 1 *)
Theorem c20_conflicting_rejected : forall t argv j j' b b',
  In t gen_tools -> pre_exit t argv = None -> j <> j' ->
  nth_error (t_blocks t) j = Some b -> nth_error (t_blocks t) j' = Some b' ->
  present argv b -> present argv b' ->
  r_final (run_tool t argv) = FExit 1%Z.
Proof. exact conflicting_rejected. Qed.
Print Assumptions c20_conflicting_rejected.

Theorem c20_alias_given_present : forall argv b a, In a (b_aliases b) -> In a argv -> present argv b.
Proof. exact alias_given_present. Qed.
Print Assumptions c20_alias_given_present.

(* no known option on the line of om_assemble / om_gain: non-zero status, nothing has run *)
Theorem c20_unknown_option_rejected : forall t argv,
  In t gen_tools -> t_blocks t <> [] -> pre_exit t argv = None ->
  (forall b a, In b (t_blocks t) -> In a (b_aliases b) -> ~ In a argv) ->
  exists c, c <> 0%Z /\ r_final (run_tool t argv) = FExit c /\ r_execs (run_tool t argv) = [].
Proof. exact unknown_option_rejected. Qed.
Print Assumptions c20_unknown_option_rejected.

(* "rejected lines write nothing": for any table, when at most one option of the tool is on the line ... *)
Theorem c20_rejected_runs_nothing_partial : forall t argv c,
  pre_exit t argv = None -> t_blocks t <> [] ->
  (forall j j' b b', nth_error (t_blocks t) j = Some b -> nth_error (t_blocks t) j' = Some b' ->
                     present argv b -> present argv b' -> j = j') ->
  r_final (run_tool t argv) = FExit c -> r_execs (run_tool t argv) = [].
Proof. exact rejected_runs_nothing. Qed.
Print Assumptions c20_rejected_runs_nothing_partial.

(* ... and, since the options are counted before any block runs (repaired tree), for EVERY command line whose program
   name does not start with '-': a line rejected by the argument handling has started no work.
   (pinned tree: refuted by -HM g c o1 -DSM g c d o2, which wrote o1 before exit 1) *)
Theorem c20_rejected_runs_nothing : forall t argv c,
  In t gen_tools -> is_dash (hd [] argv) = false ->
  r_final (run_tool t argv) = FExit c -> r_execs (run_tool t argv) = [].
Proof. exact rejected_runs_nothing_full. Qed.
Print Assumptions c20_rejected_runs_nothing.

Example c20_ex_conflict_rejected_before_work :
  let r := run_tool tool_om_assemble (cmdline ["om_assemble"; "-HM"; "g"; "c"; "o1"; "-DSM"; "g"; "c"; "d"; "o2"]%string) in
  r_final r = FExit 1%Z /\ r_execs r = [].
Proof. vm_compute. split; reflexivity. Qed.

(* the typed-option tools reject every argument they did not recognise (repaired tree; pinned tree: refuted by
   om_check_geom -g m.geom -q).  [marked] = argv[0], first -h/--help, first occurrence of each declared option and
   the value it takes. *)
Theorem c20_unknown_argument_rejected : forall t argv i,
  In t gen_tools -> has_unknown_check t = true -> help_mode argv = false ->
  1 <= i < List.length argv -> marked t argv i = false ->
  exists c, c <> 0%Z /\ r_final (run_tool t argv) = FExit c /\ r_execs (run_tool t argv) = [].
Proof. exact unknown_argument_rejected. Qed.
Print Assumptions c20_unknown_argument_rejected.

Example c20_ex_typed_tools_check_unknown :
  map has_unknown_check [tool_om_matrix_convert; tool_om_check_geom; tool_om_mesh_convert; tool_om_mesh_concat] = [true; true; true; true]
  /\ r_final (run_tool tool_om_check_geom (cmdline ["om_check_geom"; "-g"; "m.geom"; "-q"]%string)) = FExit 1%Z.
Proof. vm_compute. split; reflexivity. Qed.

(* ---- documented behaviour of the parameter list ---- *)
(* a value starting with '-' ends the parameter list: negative numbers cannot be passed as option parameters *)
Theorem c20_negative_number_cuts_argument_list : forall pre o args t post,
  Forall (fun x => is_dash x = false) args -> is_dash t = true ->
  num_args (pre ++ o :: args ++ t :: post) (List.length pre) = List.length args.
Proof. exact num_args_cut. Qed.
Print Assumptions c20_negative_number_cuts_argument_list.

(* the law of the parser: the parameters of an option END at the next argument starting with '-', whatever follows.  An
   option with fewer than its mandatory parameters is rejected even when more arguments (a flag, another option and its
   parameters) are left on the command line *)
Theorem c20_truncated_then_flag_rejected : forall pre a args flag post nm,
  ~ In a pre -> Forall (fun x => is_dash x = false) args -> is_dash flag = true -> List.length args < nm ->
  option3 (pre ++ a :: args ++ flag :: post) a nm = Exit 1%Z.
Proof. exact truncated_then_flag_rejected. Qed.
Print Assumptions c20_truncated_then_flag_rejected.

Example c20_ex_truncated_then_flag :
  let r := run_tool tool_om_assemble (cmdline ["om_assemble"; "-HM"; "g"; "c"; "-old-ordering"]%string) in
  r_final r = FExit 1%Z /\ r_execs r = [].
Proof. vm_compute. split; reflexivity. Qed.

Theorem c20_all_parameters_counted : forall pre o args,
  Forall (fun x => is_dash x = false) args -> num_args (pre ++ o :: args) (List.length pre) = List.length args.
Proof. exact num_args_all. Qed.
Print Assumptions c20_all_parameters_counted.

(* -CM ... out 0.1 -0.2 : seven parameters were meant (alpha, beta), six would be seen (0.1 taken as gamma); since the
   options are counted first, the negative value counts as a second option and the line is rejected before any work *)
Example c20_cm_negative_beta :
  let r := run_tool tool_om_assemble (cmdline ["om_assemble"; "-CM"; "g"; "c"; "s"; "dom"; "out"; "0.1"; "-0.2"]%string) in
  r_final r = FExit 1%Z /\ r_execs r = [] /\
  num_args (cmdline ["om_assemble"; "-CM"; "g"; "c"; "s"; "dom"; "out"; "0.1"; "-0.2"]%string) 1 = 6.
Proof. vm_compute. repeat split; reflexivity. Qed.

(* typed options (-i file, -tx value, ...) take the token after the first occurrence of the name, whatever it is *)
Theorem c20_typed_reads_next_token : forall pre name v post,
  ~ In name pre -> typed_lookup (pre ++ name :: v :: post) name = VAt (S (List.length pre)) v.
Proof. exact typed_reads_next_token. Qed.
Print Assumptions c20_typed_reads_next_token.

(* ... except that a string option (file or format name) never takes a token starting with '-' (repaired tree;
   pinned tree: om_matrix_convert -i m -o -of ascii wrote a file named -of) *)
Theorem c20_string_option_skips_option : forall pre name v post dflt,
  ~ In name pre -> is_dash v = true -> string_value (pre ++ name :: v :: post) name dflt = dflt.
Proof. exact string_value_skips_option. Qed.
Print Assumptions c20_string_option_skips_option.

Example c20_ex_missing_value_rejected :
  r_final (run_tool tool_om_matrix_convert (cmdline ["om_matrix_convert"; "-i"; "m.bin"; "-o"; "-of"; "ascii"]%string)) = FExit 1%Z.
Proof. vm_compute. reflexivity. Qed.

(* om_matrix_convert: for every command line, the file names and formats the generated table feeds into the conversion
   are the documented ones: -i / -o name the files, -if forces the input format (else the reader identifies the content),
   -of forces the output format (else the suffix of the OUTPUT name selects it; table from the maths IO classes) *)
Theorem c20_matrix_convert_formats : forall argv,
  conv_plan_of gen_suffix_formats tool_om_matrix_convert argv = Some (conv_plan_spec argv).
Proof. exact matrix_convert_plan. Qed.
Print Assumptions c20_matrix_convert_formats.

Example c20_ex_suffix_table :
  map (fun s => format_of_suffix gen_suffix_formats (s2t s)) ["a.txt"; "b.bin"; "c.mat"; "d.tex"; "e.x.bin"; "noext"; "f.dat"]%string
  = map s2t ["ascii"; "binary"; "matlab"; "tex"; "binary"; ""; ""]%string.
Proof. exact suffix_table. Qed.

Theorem c20_typed_name_last : forall pre name, ~ In name pre -> typed_lookup (pre ++ [name]) name = VAtEnd.
Proof. exact typed_name_last. Qed.
Print Assumptions c20_typed_name_last.

(* ---- hypotheses are satisfiable: concrete accepted / rejected lines on the generated table ---- *)
Example c20_ex_dsm_domain_accepted :
  let r := run_tool tool_om_assemble (cmdline ["om_assemble"; "-DSM"; "g"; "c"; "d"; "out"; "Brain"]%string) in
  r_final r = FDone /\ map e_reads (r_execs r) = [[(5, 6); (1, 2); (2, 3); (3, 4); (0, 1); (4, 5)]].
Proof. vm_compute. split; reflexivity. Qed.

Example c20_ex_incomplete :
  r_final (run_tool tool_om_assemble (cmdline ["om_assemble"; "-HM"; "g"; "c"]%string)) = FExit 1%Z.
Proof. vm_compute. reflexivity. Qed.

Example c20_ex_alias_twice_rejected :
  r_final (run_tool tool_om_assemble (cmdline ["om_assemble"; "-HM"; "g"; "c"; "o"; "-hm"; "g"; "c"; "o2"]%string)) = FExit 1%Z.
Proof. vm_compute. reflexivity. Qed.

Example c20_ex_ecog_optional :
  map e_reads (r_execs (run_tool tool_om_assemble (cmdline ["om_assemble"; "-H2ECOGM"; "g"; "c"; "e"; "out"]%string)))
    = [[(1, 2); (2, 3); (3, 4); (4, 5)]] /\
  map e_reads (r_execs (run_tool tool_om_assemble (cmdline ["om_assemble"; "-H2ECOGM"; "g"; "c"; "e"; "Cortex"; "out"]%string)))
    = [[(1, 2); (2, 3); (3, 4); (4, 5); (5, 6)]].
Proof. vm_compute. split; reflexivity. Qed.

(* ---- the re-associated gain products (MathComp; kept last because the import changes notations) ---- *)
Set Warnings "-notation-overridden,-ambiguous-paths".
From mathcomp Require Import all_ssreflect all_algebra.
Local Open Scope ring_scope.

(* om_gain computes (A*Hinv)*S to spare memory; over any ring this is A*(Hinv*S) *)
Theorem c20_gain_reassociated_eq : forall (R : ringType) m n p
  (A : 'M[R]_(m,n)) (Hinv : 'M[R]_n) (S : 'M[R]_(n,p)),
  (A *m Hinv) *m S = A *m (Hinv *m S).
Proof. exact gain_reassoc. Qed.
Print Assumptions c20_gain_reassociated_eq.

Theorem c20_gain_meg_reassociated_eq : forall (R : ringType) m n p
  (A : 'M[R]_(m,n)) (Hinv : 'M[R]_n) (S : 'M[R]_(n,p)) (S2 : 'M[R]_(m,p)),
  S2 + (A *m Hinv) *m S = S2 + A *m (Hinv *m S).
Proof. exact gain_meg_reassoc. Qed.
Print Assumptions c20_gain_meg_reassociated_eq.
