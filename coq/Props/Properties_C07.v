(* C07 -- matrices and vectors survive a save/load round trip in every format.
   Statements only; proofs are in Maths/*Proofs.v. *)
From OM Require Import Base.Lists Maths.BinCodec Maths.BinCodecProofs Maths.AsciiCodec Maths.IOFront Maths.IOFrontProofs Maths.AsciiCodecProofs.
Local Open Scope Z_scope.

(* binary: an object whose shape the size test can identify decodes to itself, bit for bit *)
Theorem bin_roundtrip : forall o, wf o -> ~ ambiguous o -> decode_as (kind_of o) (encode o) = Ok o.
Proof. exact BinCodecProofs.bin_roundtrip. Qed.
Print Assumptions bin_roundtrip.

Theorem bin_ambiguous_rejected : forall o, wf o -> ambiguous o -> decode_as (kind_of o) (encode o) = Err EStorage.
Proof. exact BinCodecProofs.bin_ambiguous_rejected. Qed.
Print Assumptions bin_ambiguous_rejected.

Theorem bin_ambiguity_characterised : forall o, wf o ->
  (ambiguous o <->
   match o with
   | OSym n _ => n = 0 \/ n = 1
   | OSparse nl nc es => Z.of_nat (length es) < ALLOC_MAX -> nl * nc < 2 * ALLOC_MAX -> 2 * Z.of_nat (length es) = nl * nc
   | _ => False
   end) \/ (exists nl nc es, o = OSparse nl nc es /\ (ALLOC_MAX <= Z.of_nat (length es) \/ 2 * ALLOC_MAX <= nl * nc)).
Proof. exact BinCodecProofs.bin_ambiguity_characterised. Qed.
Print Assumptions bin_ambiguity_characterised.

Theorem bin_never_misreads : forall o o', wf o -> decode_as (kind_of o) (encode o) = Ok o' -> o' = o.
Proof. exact BinCodecProofs.bin_never_misreads. Qed.
Print Assumptions bin_never_misreads.

Theorem bin_cross_kind : forall o k o', wf o -> decode_as k (encode o) = Ok o' -> k = kind_of o \/ ambiguous o.
Proof. exact BinCodecProofs.bin_cross_kind. Qed.
Print Assumptions bin_cross_kind.

Example bin_roundtrip_ex : decode_as KVec (encode (OVec [4607182418800017408; 0; 9223372036854775808])) = Ok (OVec [4607182418800017408; 0; 9223372036854775808]).
Proof. vm_compute. reflexivity. Qed.
Example wf_ex : wf (OSparse 2 3 [((0, 1), 5); ((1, 0), 7)]) /\ ~ ambiguous (OSparse 2 3 [((0, 1), 5); ((1, 0), 7)]).
Proof.
  split; [|vm_compute; discriminate].
  unfold wf, word. rewrite W32_val, W64_val. cbn [sorted_keys fst snd]. repeat split; try lia; try reflexivity.
  repeat (constructor; [cbn [fst snd]; lia|]). constructor.
Qed.

(* front end with the explicit stream state: ReadTag leaves a good stream at offset 0 for every file length, so
   save-then-load through a ".bin" name returns the object also for files below the 32-byte tag (a Vector of 3 is
   28 bytes).  Refuted on the pinned tree (witness confirmed on the code, then repaired: fix commit 6ea0b72). *)
Theorem read_tag_restores_stream : forall bs, snd (read_tag bs) = {| s_pos := 0; s_fail := false |}.
Proof. exact IOFrontProofs.read_tag_stream. Qed.
Print Assumptions read_tag_restores_stream.

Theorem small_file_roundtrip : forall order o ls a,
  wf o -> ~ ambiguous o -> load order 0 (kind_of o) {| f_bytes := encode o; f_lines := ls; f_ascii := a |} = Ok o.
Proof. exact IOFrontProofs.small_file_roundtrip. Qed.
Print Assumptions small_file_roundtrip.

Example small_file_ex : (length (encode (OVec [1; 2; 3]%Z)) < 32)%nat /\ wf (OVec [1; 2; 3]%Z).
Proof. split; [vm_compute; lia|]. unfold wf, word. rewrite W32_val, W64_val. split; [cbn; lia|]. repeat constructor; lia. Qed.

(* ---- text format (token level; libc formatting/lexing assumed: a printed double reads back as rnd6 of it) ---- *)
Section TextFormat.
  Variable rnd6 : Z -> Z.
  Variable dofz : Z -> Z.
  Hypothesis rnd6_idem : forall w, rnd6 (rnd6 w) = rnd6 w.
  Hypothesis rnd6_word : forall w, word w -> word (rnd6 w).

  Theorem txt_roundtrip : forall o, wf_txt o -> ~ txt_rejected_shape o -> ~ txt_empty_full o ->
    txt_decode (kind_of o) (view rnd6 dofz (txt_encode o)) = Ok (round_obj rnd6 o).
  Proof. exact (AsciiCodecProofs.txt_roundtrip rnd6 dofz). Qed.

  (* exactly: vectors / symmetric matrices of at most one row, one-column matrices of >= 2 rows, sparse without entry *)
  Theorem txt_ambiguous_rejected : forall o, wf_txt o -> txt_rejected_shape o ->
    exists e, txt_decode (kind_of o) (view rnd6 dofz (txt_encode o)) = Err e.
  Proof. exact (AsciiCodecProofs.txt_ambiguous_rejected rnd6 dofz). Qed.

  Theorem txt_never_misreads : forall o o', wf_txt o ->
    (match o with OFull nl nc _ => (nl = 0 \/ nc = 0) -> (nl = 0 /\ nc = 0) | _ => True end) ->
    txt_decode (kind_of o) (view rnd6 dofz (txt_encode o)) = Ok o' -> o' = round_obj rnd6 o.
  Proof. exact (AsciiCodecProofs.txt_never_misreads rnd6 dofz). Qed.

  (* the text READER alone turns the (empty) file of a 0x1 matrix into the 0x0 matrix ... *)
  Theorem txt_never_misreads_codec_refuted :
    exists o o', wf_txt o /\ txt_decode (kind_of o) (view rnd6 dofz (txt_encode o)) = Ok o' /\ o' <> round_obj rnd6 o.
  Proof. exact (AsciiCodecProofs.txt_never_misreads_codec_refuted rnd6 dofz). Qed.

  (* ... but load() never offers an empty file to the text reader: it fails for every kind and detection order *)
  Theorem txt_empty_file_rejected : forall order k ls,
    exists e, load order 1 k {| f_bytes := []; f_lines := ls; f_ascii := false |} = Err e.
  Proof. exact IOFrontProofs.txt_empty_file_rejected. Qed.

  Theorem txt_load_is_codec : forall k fl,
    f_ascii fl = true -> forallb is_text (fst (read_tag (f_bytes fl))) = true ->
    starts_with MAGIC_MAT (fst (read_tag (f_bytes fl))) = false ->
    load [FMat; FTxt; FTex; FBin] 1 k fl = txt_decode k (f_lines fl).
  Proof. exact IOFrontProofs.txt_load_is_codec. Qed.

  Theorem convert_preserves : forall o, wf o -> wf_txt o -> ~ ambiguous o -> ~ txt_rejected_shape o -> ~ txt_empty_full o ->
    (forall o1, decode_as (kind_of o) (encode o) = Ok o1 ->
       txt_decode (kind_of o1) (view rnd6 dofz (txt_encode o1)) = Ok (round_obj rnd6 o)) /\
    (forall o1, txt_decode (kind_of o) (view rnd6 dofz (txt_encode o)) = Ok o1 ->
       decode_as (kind_of o1) (encode o1) = Ok (round_obj rnd6 o) /\
       txt_decode (kind_of o1) (view rnd6 dofz (txt_encode o1)) = Ok (round_obj rnd6 o)).
  Proof. exact (IOFrontProofs.convert_preserves rnd6 dofz rnd6_idem rnd6_word). Qed.
End TextFormat.
Print Assumptions txt_roundtrip.
Print Assumptions txt_ambiguous_rejected.
Print Assumptions txt_never_misreads.
Print Assumptions txt_never_misreads_codec_refuted.
Print Assumptions txt_empty_file_rejected.
Print Assumptions txt_load_is_codec.
Print Assumptions convert_preserves.

Example txt_hyp_ex : wf_txt (OFull 2 3 [1;2;3;4;5;6]%Z) /\ ~ txt_rejected_shape (OFull 2 3 [1;2;3;4;5;6]%Z) /\ ~ txt_empty_full (OFull 2 3 [1;2;3;4;5;6]%Z).
Proof. cbn. repeat split; try lia; intros H; lia. Qed.

(* ---- tex (BrainVisa texture; token level, repaired reader) ---- *)
From OM Require Import Maths.TexCodec Maths.TexCodecProofs Maths.CscCodec Maths.CscCodecProofs.
Theorem tex_roundtrip : forall (rnd6 dofz : Z -> Z) (vint : Z -> option Z) nl nc vs,
  1 <= nl -> 1 <= nc -> nl * nc < ALLOC_MAX -> length vs = (Z.to_nat nl * Z.to_nat nc)%nat ->
  tex_decode (xview rnd6 dofz vint (tex_encode nl nc vs)) = Ok (OFull nl nc (map rnd6 vs)).
Proof. exact TexCodecProofs.tex_roundtrip. Qed.
Print Assumptions tex_roundtrip.

Theorem tex_no_column_rejected : forall (rnd6 dofz : Z -> Z) (vint : Z -> option Z) nl vs,
  tex_decode (xview rnd6 dofz vint (tex_encode nl 0 vs)) = Err EHeader.
Proof. exact TexCodecProofs.tex_no_column_rejected. Qed.
Print Assumptions tex_no_column_rejected.

(* ---- MATLAB sparse CSC conversion: FINITE statement only (every sparsity pattern of every shape listed, values
   +0.0 / -0.0 / distinct words): read_csc (write_csc m) returns m with its dimensions, entry count and stored zeros.
   The statement for every sorted bounded map is not proved. *)
Theorem csc_roundtrip_small :
  forallb (fun s => csc_sweep (fst s) (snd s) sweep_val)
    [(0,0);(0,3);(3,0);(1,1);(1,4);(4,1);(2,2);(2,3);(3,2);(3,3);(3,4);(4,3)]%nat = true.
Proof. exact CscCodecProofs.csc_sweep_all. Qed.
Print Assumptions csc_roundtrip_small.

(* MATLAB sparse CSC conversion, in general: for every strictly sorted (row,col)->value map within its dimensions,
   read_sparse of what write_sparse hands to libmatio is the map itself -- dimensions, entry count and every stored
   word (so a stored +0.0 or -0.0 survives).  The container between the two is assumed faithful. *)
Theorem csc_roundtrip : forall nl nc es, 0 <= nl -> 0 <= nc -> sorted_keys es ->
  (forall e, In e es -> 0 <= fst (fst e) < nl /\ 0 <= snd (fst e) < nc) ->
  read_csc (write_csc nl nc es) = Ok (OSparse nl nc es).
Proof. exact CscCodecProofs.csc_roundtrip. Qed.
Print Assumptions csc_roundtrip.

(* the format a file name selects: the suffix after the LAST dot of the path, whatever dots come before it
   (dotted directories, "./", dotted base names) *)
Theorem format_from_last_suffix : forall pre ext, ~ In 46 ext -> fmt_of_path (pre ++ 46 :: ext) = fmt_of_suffix (suffix_class ext).
Proof. exact IOFrontProofs.format_from_last_suffix. Qed.
Print Assumptions format_from_last_suffix.
