(* C16 -- integration kernels equal the integrals they stand for: what is PROVED.
   Models: Geom/Quadrature.v (integrator.h) over the tables regenerated from the source (Gen/GenQuadTables.v),
   Geom/Kernels.v (vect3.h, analytics.h, dipole.h, operators.h).  Real-instance statements are exact-arithmetic
   statements (rounding is measured by the correspondence runs, not proved).
   NOT proved here (compared numerically by the check, discretisation class): analyticS::f = int_T 1/|x-y| dy,
   the analyticD3 components = int_T phi_i (y-x).n/|y-x|^3 dy, the Ferguson vertex term.
   The monomial integral on the reference triangle is DEFINED by Dirichlet's formula a! b! c!/(a+b+c+2)!
   (dirichletQ / dirichletR, pintegral); it is not derived from a measure-theoretic integral. *)
From Coq Require Import Reals QArith Qabs ZArith List Lia Lra.
From Coquelicot Require Coquelicot.
Import Coquelicot.Hierarchy Coquelicot.RInt.
From OM Require Import Base.Ops Base.OpsR Base.Vec3 Gen.GenQuadTables Geom.Kernels Geom.Quadrature
                       Geom.QuadTablesProofs Geom.QuadTablesBig Geom.QuadProofs Geom.KernelProofs
                       Geom.QuadSymmetry Geom.AdaptiveProofs Geom.EdgeIntegral Geom.SolidAngleValues Geom.GreenFallback Geom.AdaptiveQuadratic Geom.SolidAngleSplit Geom.AnalyticSInPlane.
From Coq Require Import Permutation.
Import ListNotations.

(* ---------------------------------------------------------------- reachable rules *)
Theorem safe_order_reaches_only_1_2_3 : forall n, (1 <= safe_order n <= 3)%nat.
Proof. exact safe_order_range. Qed.
Print Assumptions safe_order_reaches_only_1_2_3.

Theorem rule_sizes : map (fun o => length (rule_of_order o)) [0; 1; 2; 3]%nat = [3; 6; 7; 16]%nat.
Proof. exact rule_lengths. Qed.
Print Assumptions rule_sizes.

(* ---------------------------------------------------------------- moments (exact rationals) *)
Theorem rule_1_moments : forall a b c, (a + b + c <= 4)%nat ->
  (- (1 # 100000000000000) <= moment (rule_of_order 1) a b c - dirichletQ a b c /\
   moment (rule_of_order 1) a b c - dirichletQ a b c <= 1 # 100000000000000)%Q.
Proof. exact (rule_moments 1 ltac:(lia)). Qed.
Print Assumptions rule_1_moments.

Theorem rule_2_moments : forall a b c, (a + b + c <= 5)%nat ->
  (- (1 # 100000000000000) <= moment (rule_of_order 2) a b c - dirichletQ a b c /\
   moment (rule_of_order 2) a b c - dirichletQ a b c <= 1 # 100000000000000)%Q.
Proof. exact (rule_moments 2 ltac:(lia)). Qed.
Print Assumptions rule_2_moments.

Theorem rule_3_moments : forall a b c, (a + b + c <= 8)%nat ->
  (- (1 # 100000000000000) <= moment (rule_of_order 3) a b c - dirichletQ a b c /\
   moment (rule_of_order 3) a b c - dirichletQ a b c <= 1 # 100000000000000)%Q.
Proof. exact (rule_moments 3 ltac:(lia)). Qed.
Print Assumptions rule_3_moments.

(* the unreachable 3-point rule, for completeness: degree 2 *)
Theorem rule_0_moments : forall a b c, (a + b + c <= 2)%nat ->
  (- (1 # 100000000000000) <= moment (rule_of_order 0) a b c - dirichletQ a b c /\
   moment (rule_of_order 0) a b c - dirichletQ a b c <= 1 # 100000000000000)%Q.
Proof. exact (rule_moments 0 ltac:(lia)). Qed.
Print Assumptions rule_0_moments.

(* the degrees 4 / 5 / 8 are the ones actually achieved: one degree higher a monomial is off by > 1e-7 *)
Theorem rule_1_degree_is_4 : ((1 # 10000000) < Qabs (moment_r (rule_of_order 1) 5 0 0 - dirichletQ 5 0 0))%Q.
Proof. exact rule1_degree_sharp. Qed.
Print Assumptions rule_1_degree_is_4.
Theorem rule_2_degree_is_5 : ((1 # 10000000) < Qabs (moment_r (rule_of_order 2) 6 0 0 - dirichletQ 6 0 0))%Q.
Proof. exact rule2_degree_sharp. Qed.
Print Assumptions rule_2_degree_is_5.
Theorem rule_3_degree_is_8 : ((1 # 10000000) < Qabs (moment_r (rule_of_order 3) 9 0 0 - dirichletQ 9 0 0))%Q.
Proof. exact rule3_degree_sharp. Qed.
Print Assumptions rule_3_degree_is_8.
Theorem moment_r_is_moment : forall rule a b c, (moment_r rule a b c == moment rule a b c)%Q.
Proof. exact moment_r_eq. Qed.
Print Assumptions moment_r_is_moment.

Theorem rule_weights_sum_half : forall order, (1 <= order <= 3)%nat ->
  (- (5 # 1000000000000000) <= weights_sum (rule_of_order order) - (1 # 2) /\
   weights_sum (rule_of_order order) - (1 # 2) <= 5 # 1000000000000000)%Q.
Proof. exact rule_weights_sum_half_lemma. Qed.
Print Assumptions rule_weights_sum_half.

(* the 15-decimal tables are not normalised: the deviations, exactly *)
Theorem rule_weights_sum_deviation :
  (weights_sum (rule_of_order 1) - (1 # 2) == - (2 # 1000000000000000) /\
   weights_sum (rule_of_order 2) - (1 # 2) == 1 # 1000000000000000 /\
   weights_sum (rule_of_order 3) - (1 # 2) == - (5 # 1000000000000000))%Q.
Proof. exact weights_sums. Qed.
Print Assumptions rule_weights_sum_deviation.

Theorem rule_points_barycentric : forall order p, (order <= 3)%nat -> In p (rule_of_order order) ->
  (- (2 # 1000000000000000) <= qp_l0 p + qp_l1 p + qp_l2 p - 1 /\ qp_l0 p + qp_l1 p + qp_l2 p - 1 <= 2 # 1000000000000000 /\
   0 <= qp_l0 p /\ 0 <= qp_l1 p /\ 0 <= qp_l2 p /\ 0 < qp_w p)%Q.
Proof. exact rule_points_barycentric_lemma. Qed.
Print Assumptions rule_points_barycentric.

(* ---------------------------------------------------------------- orbit structure of the node sets *)
(* rules 0,1,2: every permutation of the barycentric coordinates (weights carried along) maps the node list onto a
   permutation of itself: the node set is closed under the symmetric group with equal weights on an orbit *)
Theorem quadrature_point_set_symmetric : forall order s, (order <= 2)%nat -> In s perms6 ->
  Permutation (map s (rule_of_order order)) (rule_of_order order).
Proof. exact rule_symmetric_perm. Qed.
Print Assumptions quadrature_point_set_symmetric.

(* all rules incl. the 16-point one: closed up to 1e-15 in each coordinate, weights EXACTLY equal on an orbit *)
Theorem quadrature_point_set_symmetric_partial : forall order s p, (order <= 3)%nat -> In s perms6 -> In p (rule_of_order order) ->
  exists q, In q (rule_of_order order) /\ (qp_w q == qp_w (s p))%Q /\
    (- (1 # 1000000000000000) <= qp_l0 (s p) - qp_l0 q /\ qp_l0 (s p) - qp_l0 q <= 1 # 1000000000000000)%Q /\
    (- (1 # 1000000000000000) <= qp_l1 (s p) - qp_l1 q /\ qp_l1 (s p) - qp_l1 q <= 1 # 1000000000000000)%Q /\
    (- (1 # 1000000000000000) <= qp_l2 (s p) - qp_l2 q /\ qp_l2 (s p) - qp_l2 q <= 1 # 1000000000000000)%Q.
Proof. exact rule_closed_spec. Qed.
Print Assumptions quadrature_point_set_symmetric_partial.

(* the 16-point table is NOT exactly symmetric (orbit 0.658861384496479, 0.170569307751760, 0.170569307751761) *)
Theorem quadrature_point_set_symmetric_rule3_refuted : rule_symmetric (rule_of_order 3) = false.
Proof. exact rule_3_not_symmetric. Qed.
Print Assumptions quadrature_point_set_symmetric_rule3_refuted.

(* what survives for rule 3: its moments are invariant under permutations of the exponents within 1e-15 *)
Theorem rule_3_moments_permutation_invariant : forall a b c, (a + b + c <= 8)%nat ->
  ((- (1 # 1000000000000000) <= moment (rule_of_order 3) a b c - moment (rule_of_order 3) b c a /\
    moment (rule_of_order 3) a b c - moment (rule_of_order 3) b c a <= 1 # 1000000000000000) /\
   (- (1 # 1000000000000000) <= moment (rule_of_order 3) a b c - moment (rule_of_order 3) b a c /\
    moment (rule_of_order 3) a b c - moment (rule_of_order 3) b a c <= 1 # 1000000000000000))%Q.
Proof. exact rule3_moments_perm. Qed.
Print Assumptions rule_3_moments_permutation_invariant.

(* ---------------------------------------------------------------- over the reals *)
Local Open Scope R_scope.

Theorem rule_k_moments_R : forall order a b c, (order <= 3)%nat -> (a + b + c <= rule_degree order)%nat ->
  Rabs (refquad (rule_of_order order) (monoR a b c) - dirichletR a b c) <= / IZR (10 ^ 14).
Proof. exact rule_moments_R. Qed.
Print Assumptions rule_k_moments_R.

(* linearity lift: every polynomial of degree <= degree(rule) in the barycentric coordinates, given as a list of
   (coefficient, exponents); integral = Dirichlet's formula term by term (definition) *)
Theorem polynomial_exactness : forall order (p : list term), (order <= 3)%nat -> pdeg_le (rule_degree order) p ->
  Rabs (refquad (rule_of_order order) (peval p) - pintegral p) <= / IZR (10 ^ 14) * pnorm1 p.
Proof. exact polynomial_exactness_ref. Qed.
Print Assumptions polynomial_exactness.

(* the model's triangle_integration on ANY triangle is area2 times the reference rule on f o barycentric map *)
Theorem affine_image : forall rule (f : vec3 R -> R) t0 t1 t2,
  triangle_integration_rule OpsR (RS_scalar OpsR) rule f t0 t1 t2 =
  area2 OpsR t0 t1 t2 * refquad rule (fun l0 l1 l2 => f (bary_point OpsR l0 l1 l2 t0 t1 t2)).
Proof. exact affine_image_lemma. Qed.
Print Assumptions affine_image.

Theorem polynomial_exactness_on_triangle : forall order (f : vec3 R -> R) t0 t1 t2 p,
  (order <= 3)%nat -> pdeg_le (rule_degree order) p ->
  (forall l0 l1 l2, f (bary_point OpsR l0 l1 l2 t0 t1 t2) = peval p l0 l1 l2) ->
  Rabs (triangle_integration OpsR (RS_scalar OpsR) order f t0 t1 t2 - area2 OpsR t0 t1 t2 * pintegral p)
    <= / IZR (10 ^ 14) * pnorm1 p * area2 OpsR t0 t1 t2.
Proof. exact polynomial_exactness_lemma. Qed.
Print Assumptions polynomial_exactness_on_triangle.

Theorem constants_integrate_to_area : forall order c t0 t1 t2, (order <= 3)%nat ->
  Rabs (triangle_integration OpsR (RS_scalar OpsR) order (fun _ => c) t0 t1 t2 - c * (area2 OpsR t0 t1 t2 / 2))
    <= / IZR (10 ^ 14) * Rabs c * area2 OpsR t0 t1 t2.
Proof. exact constants_integrate_to_area_lemma. Qed.
Print Assumptions constants_integrate_to_area.

(* the template at T = Vect3 (analyticD3, analyticDipPotDer) is the scalar rule component by component, so the
   exactness statements above apply to each component (NOT so for the adaptive stopping test, which uses the vector norm) *)
Theorem vec3_integrands_componentwise : forall rule (f : vec3 R -> vec3 R) t0 t1 t2,
  let r := triangle_integration_rule OpsR (RS_vec3 OpsR) rule f t0 t1 t2 in
  vx r = triangle_integration_rule OpsR (RS_scalar OpsR) rule (fun v => vx (f v)) t0 t1 t2 /\
  vy r = triangle_integration_rule OpsR (RS_scalar OpsR) rule (fun v => vy (f v)) t0 t1 t2 /\
  vz r = triangle_integration_rule OpsR (RS_scalar OpsR) rule (fun v => vz (f v)) t0 t1 t2.
Proof. exact triangle_integration_vec3_components_lemma. Qed.
Print Assumptions vec3_integrands_componentwise.

Theorem refinement_partition : forall t0 t1 t2 : vec3 R,
  let m0 := midpoint OpsR t1 t2 in let m1 := midpoint OpsR t2 t0 in let m2 := midpoint OpsR t0 t1 in
  area2 OpsR t0 m1 m2 + area2 OpsR m0 t1 m2 + area2 OpsR m0 m1 t2 + area2 OpsR m0 m1 m2 = area2 OpsR t0 t1 t2.
Proof. exact refinement_partition_lemma. Qed.
Print Assumptions refinement_partition.

(* adaptive integration: whatever quantity I the rule approximates within eps*area2 on EVERY triangle, and that is
   additive under the midpoint split, Integrator::integrate approximates within eps*area2, for every order, depth
   and tolerance (in particular: rule exact (eps = 0) => adaptive exact) *)
Theorem adaptive_error_bound : forall ord depth tol (f : vec3 R -> R) (I : vec3 R -> vec3 R -> vec3 R -> R) eps,
  (forall t0 t1 t2,
    I t0 t1 t2 = I t0 (midpoint OpsR t2 t0) (midpoint OpsR t0 t1) + I (midpoint OpsR t1 t2) t1 (midpoint OpsR t0 t1)
               + I (midpoint OpsR t1 t2) (midpoint OpsR t2 t0) t2 + I (midpoint OpsR t1 t2) (midpoint OpsR t2 t0) (midpoint OpsR t0 t1)) ->
  (forall t0 t1 t2,
    Rabs (triangle_integration_rule OpsR (RS_scalar OpsR) (rule_of_order (safe_order ord)) f t0 t1 t2 - I t0 t1 t2)
      <= eps * area2 OpsR t0 t1 t2) ->
  forall t0 t1 t2,
    Rabs (integrate OpsR (RS_scalar OpsR) ord depth tol f t0 t1 t2 - I t0 t1 t2) <= eps * area2 OpsR t0 t1 t2.
Proof. exact integrate_error_bound_lemma. Qed.
Print Assumptions adaptive_error_bound.

(* its hypotheses are satisfiable: constants (I = c*area), unconditional *)
Theorem adaptive_exact_on_constants : forall ord depth tol c t0 t1 t2,
  Rabs (integrate OpsR (RS_scalar OpsR) ord depth tol (fun _ => c) t0 t1 t2 - c * (area2 OpsR t0 t1 t2 / 2))
    <= / IZR (10 ^ 14) * Rabs c * area2 OpsR t0 t1 t2.
Proof. exact adaptive_constants_lemma. Qed.
Print Assumptions adaptive_exact_on_constants.

(* exactly symmetric rules: the reference sum of ANY integrand is invariant under rotation / swap of the coordinates
   (hence under all six permutations) -- per-triangle vertex rotation does not change the rule's value *)
Theorem symmetric_rule_sum_rotation_invariant : forall order (g : R -> R -> R -> R), (order <= 2)%nat ->
  refquad (rule_of_order order) (fun l0 l1 l2 => g l1 l2 l0) = refquad (rule_of_order order) g.
Proof. exact refquad_rot_invariant. Qed.
Print Assumptions symmetric_rule_sum_rotation_invariant.
Theorem symmetric_rule_sum_swap_invariant : forall order (g : R -> R -> R -> R), (order <= 2)%nat ->
  refquad (rule_of_order order) (fun l0 l1 l2 => g l1 l0 l2) = refquad (rule_of_order order) g.
Proof. exact refquad_swap_invariant. Qed.
Print Assumptions symmetric_rule_sum_swap_invariant.

(* affine integrands c + g.x, UNCONDITIONAL: Integrator::integrate = area * f(centroid) within the 1e-14 band of the
   vertex values, at every order, depth and tolerance (refined = coarse up to the band at every depth) *)
Theorem adaptive_exact_on_affine : forall ord depth tol c (g : vec3 R) t0 t1 t2,
  Rabs (integrate OpsR (RS_scalar OpsR) ord depth tol (fun v => c + dot OpsR g v) t0 t1 t2
        - area2 OpsR t0 t1 t2 * (c / 2 + (dot OpsR g t0 + dot OpsR g t1 + dot OpsR g t2) / 6))
    <= / IZR (10 ^ 14) * (Rabs c + Rabs (dot OpsR g t0) + Rabs (dot OpsR g t1) + Rabs (dot OpsR g t2)) * area2 OpsR t0 t1 t2.
Proof. exact adaptive_exact_on_affine_lemma. Qed.
Print Assumptions adaptive_exact_on_affine.

(* polynomials of degree <= degree(rule), CONDITIONAL on: an additive integral I given on every triangle by Dirichlet's
   formula for f's coefficients in that triangle's barycentric coordinates, coefficient norm <= K on every triangle *)
Theorem adaptive_exact_on_polynomials : forall ord (f : vec3 R -> R) (I : vec3 R -> vec3 R -> vec3 R -> R) K,
  (forall t0 t1 t2,
    I t0 t1 t2 = I t0 (midpoint OpsR t2 t0) (midpoint OpsR t0 t1) + I (midpoint OpsR t1 t2) t1 (midpoint OpsR t0 t1)
               + I (midpoint OpsR t1 t2) (midpoint OpsR t2 t0) t2 + I (midpoint OpsR t1 t2) (midpoint OpsR t2 t0) (midpoint OpsR t0 t1)) ->
  (forall t0 t1 t2, exists p,
    pdeg_le (rule_degree (safe_order ord)) p /\
    (forall l0 l1 l2, f (bary_point OpsR l0 l1 l2 t0 t1 t2) = peval p l0 l1 l2) /\
    I t0 t1 t2 = area2 OpsR t0 t1 t2 * pintegral p /\ pnorm1 p <= K) ->
  forall depth tol t0 t1 t2,
    Rabs (integrate OpsR (RS_scalar OpsR) ord depth tol f t0 t1 t2 - I t0 t1 t2) <= / IZR (10 ^ 14) * K * area2 OpsR t0 t1 t2.
Proof. exact adaptive_exact_on_polynomials_lemma. Qed.
Print Assumptions adaptive_exact_on_polynomials.

(* degree <= 2, UNCONDITIONAL (no integral, additivity or norm hypothesis): f(x) = c + g.x + x.Q.x.  The bounds Ma, Mq are on the
   Bernstein coefficients g.s_i and q(s_i,s_j) of the ROOT triangle only; they are inherited by every sub-triangle (de Casteljau:
   convex combinations), so the band is uniform over the refinement tree.  quad_I is area2 (c/2 + sum g.s_i/6 + sum_{i<=j} q(s_i,s_j)/12). *)
Theorem adaptive_exact_on_polynomials_degree2 : forall c q11 q22 q33 q12 q13 q23 (g : vec3 R) ord depth tol Ma Mq t0 t1 t2,
  quad_P q11 q22 q33 q12 q13 q23 g Ma Mq t0 t1 t2 ->
  Rabs (integrate OpsR (RS_scalar OpsR) ord depth tol (quadf c q11 q22 q33 q12 q13 q23 g) t0 t1 t2
        - quad_I c q11 q22 q33 q12 q13 q23 g t0 t1 t2)
    <= / IZR (10 ^ 14) * (Rabs c + 3 * Ma + 9 * Mq) * area2 OpsR t0 t1 t2.
Proof. exact adaptive_exact_on_quadratics_lemma. Qed.
Print Assumptions adaptive_exact_on_polynomials_degree2.

(* the invariant is satisfiable on every triangle (take the maxima), e.g. *)
Example quad_P_satisfiable :
  quad_P 1 0 0 0 0 0 (mkV 0 0 1) 0 1 (mkV 0 0 0) (mkV 1 0 0) (mkV 0 1 0).
Proof. unfold quad_P, bil, dot; cbn. rewrite ?Rmult_0_l, ?Rmult_0_r, ?Rmult_1_l, ?Rplus_0_l, ?Rplus_0_r, ?Rabs_R0, ?Rabs_R1. lra. Qed.

(* ---------------------------------------------------------------- kernels *)
Theorem D3_components_sum_to_solid_angle : forall v0 v1 v2 x : vec3 R,
  let r := analyticD3_f OpsR (analyticD3_init OpsR v0 v1 v2) x in
  vx r + vy r + vz r = solid_angle OpsR x v0 v1 v2.
Proof. exact D3_components_sum_to_solid_angle_lemma. Qed.
Print Assumptions D3_components_sum_to_solid_angle.

Theorem solid_angle_cyclic : forall x v1 v2 v3 : vec3 R, solid_angle OpsR x v1 v2 v3 = solid_angle OpsR x v2 v3 v1.
Proof. exact solid_angle_cyclic_lemma. Qed.
Print Assumptions solid_angle_cyclic.

Theorem solid_angle_swap_neg : forall x v1 v2 v3 : vec3 R, solid_angle OpsR x v1 v3 v2 = - solid_angle OpsR x v1 v2 v3.
Proof. exact solid_angle_swap_neg_lemma. Qed.
Print Assumptions solid_angle_swap_neg.

Theorem green_log_argument_positive : forall p0 p1 x : vec3 R,
  let p0x := vsub OpsR p0 x in let p1x := vsub OpsR p1 x in let p1p0 := vsub OpsR p1 p0 in
  0 < norm2 OpsR (cross OpsR p0x p1p0) ->
  0 < green_arg OpsR p0x (norm OpsR p0x) p1x (norm OpsR p1x) p1p0 (norm OpsR p1p0).
Proof. exact green_log_argument_positive_lemma. Qed.
Print Assumptions green_log_argument_positive.

Theorem green_log_branch_taken_off_the_edge_line : forall p0 p1 x : vec3 R,
  let p0x := vsub OpsR p0 x in let p1x := vsub OpsR p1 x in let p1p0 := vsub OpsR p1 p0 in
  let arg := green_arg OpsR p0x (norm OpsR p0x) p1x (norm OpsR p1x) p1p0 (norm OpsR p1p0) in
  0 < norm2 OpsR (cross OpsR p0x p1p0) -> fisnormal OpsR arg = true ->
  integral_simplified_green OpsR p0x (norm OpsR p0x) p1x (norm OpsR p1x) p1p0 (norm OpsR p1p0) = ln arg.
Proof. exact green_log_branch_lemma. Qed.
Print Assumptions green_log_branch_taken_off_the_edge_line.

Theorem green_nonpositive_argument_only_on_edge_line : forall p0 p1 x : vec3 R,
  let p0x := vsub OpsR p0 x in let p1x := vsub OpsR p1 x in let p1p0 := vsub OpsR p1 p0 in
  green_arg OpsR p0x (norm OpsR p0x) p1x (norm OpsR p1x) p1p0 (norm OpsR p1p0) <= 0 ->
  cross OpsR p0x p1p0 = mkV 0 0 0.
Proof. exact green_fallback_on_line_lemma. Qed.
Print Assumptions green_nonpositive_argument_only_on_edge_line.

(* closed form = integral, PROVED for the edge term: log(arg) of integral_simplified_green is the line integral of
   1/|x-y| along the edge p0->p1 (Coquelicot's Riemann integral), for every x off the edge line *)
Theorem green_log_is_edge_integral : forall p0 p1 x : vec3 R,
  let p0x := vsub OpsR p0 x in let p1x := vsub OpsR p1 x in let e := vsub OpsR p1 p0 in
  0 < norm2 OpsR (cross OpsR p0x e) ->
  Coquelicot.RInt.is_RInt (fun t => norm OpsR e / norm OpsR (vsub OpsR (vadd OpsR p0 (vscale OpsR t e)) x)) 0 1
          (ln (green_arg OpsR p0x (norm OpsR p0x) p1x (norm OpsR p1x) e (norm OpsR e))).
Proof. exact green_log_is_edge_integral_lemma. Qed.
Print Assumptions green_log_is_edge_integral.

(* ON the edge line.  Whenever the denominator |p1x||e| - p1x.e vanishes (x on the edge or on its extension on the
   first-vertex side; over R the quotient is then num * /0 = 0, over doubles +inf or NaN) the model takes the FALLBACK branch *)
Theorem green_fallback_when_denominator_vanishes : forall (p0x p1x e : vec3 R) (n0 n1 ne : R),
  n1 * ne - dot OpsR p1x e = 0 ->
  integral_simplified_green OpsR p0x n0 p1x n1 e ne = Rabs (ln (n1 / n0)).
Proof. exact green_fallback_when_denominator_vanishes_lemma. Qed.
Print Assumptions green_fallback_when_denominator_vanishes.

(* for x = p0 - s (p1-p0), s > 0 (extension of the edge beyond its first vertex) the value is the finite closed form
   ln((1+s)/s) ... *)
Theorem green_on_edge_line_value : forall (p0 p1 : vec3 R) (s : R), 0 < s -> 0 < norm OpsR (vsub OpsR p1 p0) ->
  let e := vsub OpsR p1 p0 in let x := vsub OpsR p0 (vscale OpsR s e) in
  integral_simplified_green OpsR (vsub OpsR p0 x) (norm OpsR (vsub OpsR p0 x)) (vsub OpsR p1 x) (norm OpsR (vsub OpsR p1 x))
                            e (norm OpsR e) = ln ((1 + s) / s).
Proof. exact green_on_line_value. Qed.
Print Assumptions green_on_edge_line_value.

(* ... which is again the line integral of 1/|x-y| along the edge: closed form = integral on the line as well *)
Theorem green_on_edge_line_is_edge_integral : forall (p0 p1 : vec3 R) (s : R), 0 < s -> 0 < norm OpsR (vsub OpsR p1 p0) ->
  let e := vsub OpsR p1 p0 in let x := vsub OpsR p0 (vscale OpsR s e) in
  Coquelicot.RInt.is_RInt (fun t => norm OpsR e / norm OpsR (vsub OpsR (vadd OpsR p0 (vscale OpsR t e)) x)) 0 1 (ln ((1 + s) / s)).
Proof. exact green_on_line_is_edge_integral. Qed.
Print Assumptions green_on_edge_line_is_edge_integral.

Example green_on_edge_line_dyadic_point :
  let p0 := mkV 0 0 0 in let p1 := mkV 1 0 0 in let x := mkV (-1) 0 0 in
  integral_simplified_green OpsR (vsub OpsR p0 x) (norm OpsR (vsub OpsR p0 x)) (vsub OpsR p1 x) (norm OpsR (vsub OpsR p1 x))
                            (vsub OpsR p1 p0) (norm OpsR (vsub OpsR p1 p0)) = ln 2.
Proof. exact green_on_line_dyadic. Qed.

(* analyticS::f for x IN THE PLANE of the triangle and off the three edge lines (family covered: S_n.(v0-x) = 0, the three
   cross products non-zero, the three log arguments normal doubles): the model's value is the code's decomposition
   sum_i (p_i x . nu_i) * int_{edge i} 1/|x-y| dl  with each edge term a Riemann integral.  NOT proved: the divergence-theorem
   step  int int_T 1/|x-y| dS = that sum  (classical; stays measured by the reference quadrature). *)
Theorem analyticS_in_plane_is_sum_of_edge_integrals : forall v0 v1 v2 x : vec3 R,
  let a := analyticS_init OpsR v0 v1 v2 in
  dot OpsR (vsub OpsR v0 x) (S_n a) = 0 ->
  0 < norm2 OpsR (cross OpsR (vsub OpsR v0 x) (vsub OpsR v1 v0)) ->
  0 < norm2 OpsR (cross OpsR (vsub OpsR v1 x) (vsub OpsR v2 v1)) ->
  0 < norm2 OpsR (cross OpsR (vsub OpsR v2 x) (vsub OpsR v0 v2)) ->
  fisnormal OpsR (edge_arg v0 v1 x) = true -> fisnormal OpsR (edge_arg v1 v2 x) = true -> fisnormal OpsR (edge_arg v2 v0 x) = true ->
  exists I0 I1 I2,
    Coquelicot.RInt.is_RInt (edge_integrand v0 v1 x) 0 1 I0 /\ Coquelicot.RInt.is_RInt (edge_integrand v1 v2 x) 0 1 I1 /\
    Coquelicot.RInt.is_RInt (edge_integrand v2 v0 x) 0 1 I2 /\
    analyticS_f OpsR a x = dot OpsR (vsub OpsR v0 x) (S_nu0 a) * I0 + dot OpsR (vsub OpsR v1 x) (S_nu1 a) * I1
                           + dot OpsR (vsub OpsR v2 x) (S_nu2 a) * I2.
Proof. exact analyticS_in_plane_lemma. Qed.
Print Assumptions analyticS_in_plane_is_sum_of_edge_integrals.

(* solid angle: additivity when the triangle is split by a point m = (1-t) v2 + t v3 of an edge, branch conditions explicit:
   none of the three coplanarity tests fires, the three denominators are positive (each |Omega| < PI, atan branch of atan2).
   (The 4-way midpoint split is six such splits through the centre of the median quadrilateral, plus solid_angle_cyclic.) *)
Theorem solid_angle_edge_split_additive : forall (x v1 v2 v3 : vec3 R) (t : R),
  let m := vadd OpsR (vscale OpsR (1 - t) v2) (vscale OpsR t v3) in
  let Y1 := vsub OpsR v1 x in let Y2 := vsub OpsR v2 x in let Y3 := vsub OpsR v3 x in let Ym := vsub OpsR m x in
  0 <= t <= 1 ->
  coplanar_test OpsR (det3 OpsR Y1 Y2 Y3) (norm OpsR Y1) (norm OpsR Y2) (norm OpsR Y3) = false ->
  coplanar_test OpsR (det3 OpsR Y1 Y2 Ym) (norm OpsR Y1) (norm OpsR Y2) (norm OpsR Ym) = false ->
  coplanar_test OpsR (det3 OpsR Y1 Ym Y3) (norm OpsR Y1) (norm OpsR Ym) (norm OpsR Y3) = false ->
  0 < solid_angle_den OpsR Y1 Y2 Y3 (norm OpsR Y1) (norm OpsR Y2) (norm OpsR Y3) ->
  0 < solid_angle_den OpsR Y1 Y2 Ym (norm OpsR Y1) (norm OpsR Y2) (norm OpsR Ym) ->
  0 < solid_angle_den OpsR Y1 Ym Y3 (norm OpsR Y1) (norm OpsR Ym) (norm OpsR Y3) ->
  solid_angle OpsR x v1 v2 v3 = solid_angle OpsR x v1 v2 m + solid_angle OpsR x v1 m v3.
Proof. exact solid_angle_edge_split_lemma. Qed.
Print Assumptions solid_angle_edge_split_additive.

(* a value forced by symmetry: the coordinate octant, 4 PI / 8 *)
Theorem solid_angle_octant : forall a b c, 0 < a -> 0 < b -> 0 < c ->
  solid_angle OpsR (mkV 0 0 0) (mkV a 0 0) (mkV 0 b 0) (mkV 0 0 c) = PI / 2.
Proof. exact solid_angle_octant_lemma. Qed.
Print Assumptions solid_angle_octant.

(* ---------------------------------------------------------------- hypotheses are satisfiable *)
Example green_hypothesis_satisfiable :
  0 < norm2 OpsR (cross OpsR (vsub OpsR (mkV 0 0 0) (mkV 0 1 0)) (vsub OpsR (mkV 1 0 0) (mkV 0 0 0))).
Proof. unfold norm2, sqr, cross, vsub; cbn. lra. Qed.

Example polynomial_hypothesis_satisfiable : pdeg_le (rule_degree 3) [(2, (3, 3, 2)%nat); (-1, (0, 0, 0)%nat)].
Proof. repeat constructor; cbn; lia. Qed.
