(* C09 - Sensors attach to the nearest point of the right surface; weights sum to one.
   Property theorems only.  Models: Geom/Danielsson.v (danielsson.cpp), Geom/SensorsModel.v
   (assembleSensors.cpp, sensors.h/.cpp), instantiated over the reals (Geom/V3R.v); the same Gallina
   terms run over Q in the correspondence (Geom/RunC09.v).  Distances are squared distances (see the
   header of Danielsson.v). *)
From Coq Require Import Reals QArith List.
From OM Require Import Base.Ops Geom.V3Q Geom.V3R Geom.Danielsson Geom.DanielssonProofs.
Import ListNotations.
Local Open Scope R_scope.

(* every branch of dpc (interior, each clamped edge, each clamped vertex, t>1 on an edge) returns
   non-negative weights that sum to one *)
Theorem dpc_weights_nonneg_sum1 : forall p T al0 d2 al ins,
  dist_point_triangle Rops p T al0 = DOk d2 al ins ->
  0 <= get3 al 0 /\ 0 <= get3 al 1 /\ 0 <= get3 al 2 /\ get3 al 0 + get3 al 1 + get3 al 2 = 1.
Proof. exact DanielssonProofs.dpc_weights_nonneg_sum1. Qed.
Print Assumptions dpc_weights_nonneg_sum1.

(* the point the weights reconstruct is a convex combination of the vertices (previous theorem) and the
   returned distance is the distance from p to that point *)
Theorem dpc_in_triangle : forall p T al0 d2 al ins,
  dist_point_triangle Rops p T al0 = DOk d2 al ins ->
  d2 = vnorm2 Rops (vsub Rops p (recon Rops T al)).
Proof. exact DanielssonProofs.dpc_distance_of_recon. Qed.
Print Assumptions dpc_in_triangle.

Theorem dpc_ignores_initial_alphas : forall p T al0 al0',
  dist_point_triangle Rops p T al0 = dist_point_triangle Rops p T al0'.
Proof. exact DanielssonProofs.dpc_ignores_initial_alphas. Qed.
Print Assumptions dpc_ignores_initial_alphas.
