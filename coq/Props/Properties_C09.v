(* C09 - Sensors attach to the nearest point of the right surface; weights sum to one.
   Property theorems only.  Models: Geom/Danielsson.v (danielsson.cpp), Geom/SensorsModel.v
   (assembleSensors.cpp, sensors.h/.cpp) - the code AS IT IS, including the stale weights of dist_point_geom -
   instantiated over the reals (Geom/V3R.v); the same Gallina
   terms run over Q in the correspondence (Geom/RunC09.v).  Distances are squared distances (see the
   header of Danielsson.v). *)
From Coq Require Import Reals QArith List.
From OM Require Import Base.Ops Geom.V3Q Geom.V3R Geom.Danielsson Geom.DanielssonProofs Geom.SensorsModel Geom.ScanProofs Geom.C09Witness Geom.NearestProofs Geom.ClosestOracleModel Geom.ClosestOracle.
Import ListNotations.
Local Open Scope R_scope.

(* every branch of dpc (interior, each clamped edge, each clamped vertex, t>1 on an edge) returns
   non-negative weights that sum to one *)
Theorem dpc_weights_nonneg_sum1 : forall p T al0 d2 al ins,
  dist_point_triangle Rops p T al0 = DOk d2 al ins ->
  0 <= get3 al 0 /\ 0 <= get3 al 1 /\ 0 <= get3 al 2 /\ get3 al 0 + get3 al 1 + get3 al 2 = 1.
Proof. exact DanielssonProofs.dpc_weights_nonneg_sum1. Qed.
Print Assumptions dpc_weights_nonneg_sum1.

(* the point the weights reconstruct is a convex combination of the vertices (previous theorem) and the
   returned distance is the distance from p to that point *)
Theorem dpc_in_triangle : forall p T al0 d2 al ins,
  dist_point_triangle Rops p T al0 = DOk d2 al ins ->
  d2 = vnorm2 Rops (vsub Rops p (recon Rops T al)).
Proof. exact DanielssonProofs.dpc_distance_of_recon. Qed.
Print Assumptions dpc_in_triangle.

Theorem dpc_ignores_initial_alphas : forall p T al0 al0',
  dist_point_triangle Rops p T al0 = dist_point_triangle Rops p T al0'.
Proof. exact DanielssonProofs.dpc_ignores_initial_alphas. Qed.
Print Assumptions dpc_ignores_initial_alphas.

(* nearest point, PARTIAL, all ten leaves (interior, three edges, six clamped-vertex paths).  EXTRA HYPOTHESIS
   [no_obtuse_corner_on_clamped_side p T]: with (cA,cB,cC) the barycentric coordinates of the orthogonal projection of
   p on the plane of T, whenever two of them are negative the angle of T at the third vertex is not obtuse.
   Without it the statement is false (next theorem: the witness has cA<0, cC<0 and an obtuse angle... at the vertex
   that stays). *)
Theorem dpc_nearest_partial : forall p T al0 d2 al ins,
  dist_point_triangle Rops p T al0 = DOk d2 al ins -> no_obtuse_corner_on_clamped_side p T ->
  forall a b c, 0 <= a -> 0 <= b -> 0 <= c -> a + b + c = 1 ->
  d2 <= vnorm2 Rops (vsub Rops p (recon Rops T (a, b, c))).
Proof. exact NearestProofs.dpc_nearest_all_leaves. Qed.
Print Assumptions dpc_nearest_partial.

(* the independent oracle used as the reference by the check is sound: what it returns is a nearest point *)
Theorem closest_oracle_sound : forall p T al, closest_oracle Rops p T = Some al ->
  0 <= get3 al 0 /\ 0 <= get3 al 1 /\ 0 <= get3 al 2 /\ get3 al 0 + get3 al 1 + get3 al 2 = 1 /\
  forall a b c, 0 <= a -> 0 <= b -> 0 <= c -> a + b + c = 1 ->
    vnorm2 Rops (vsub Rops p (recon Rops T al)) <= vnorm2 Rops (vsub Rops p (recon Rops T (a, b, c))).
Proof. exact ClosestOracle.closest_oracle_sound. Qed.
Print Assumptions closest_oracle_sound.

(* dpc is NOT always a nearest point: rational witness (DESIGN 4 row 13), replayed on the code by the check.
   The triangle contains a point at squared distance 1 from p, dpc answers vertex A at 194/25. *)
Theorem dpc_nearest_refuted : exists (p : @vec Q) (T : @tri Q) (q : @vec Q) d2 al ins,
  dist_point_triangle Qops p T (0%Q, 0%Q, 0%Q) = DOk d2 al ins /\
  Qleb 0 (get3 q 0) = true /\ Qleb 0 (get3 q 1) = true /\ Qleb 0 (get3 q 2) = true /\
  Qeq_bool (get3 q 0 + get3 q 1 + get3 q 2) 1 = true /\
  Qltb (vnorm2 Qops (vsub Qops p (recon Qops T q))) d2 = true.
Proof.
  exists w13_p, w13_T, w13_q, (194 # 25)%Q, (qv 1 0 0), false. vm_compute. repeat split.
Qed.
Print Assumptions dpc_nearest_refuted.

(* dist_point_interface: the triangle returned belongs to the interface, the weights are that triangle's own,
   and no triangle of the interface is closer (strict < keeps the first minimum) *)
Theorem interface_min_is_min : forall p ifc al0 st,
  dist_point_interface Rops p ifc al0 = st -> is_err st = None ->
  (forall mi ti t, nth_tri ifc mi ti = Some t -> exists d al ins, dist_point_triangle Rops p (fst t) (vzero Rops) = DOk d al ins) /\
  ((forall mi ti, nth_tri ifc mi ti = None) /\ is_d st = None /\ is_al st = al0 /\ is_near st = None
   \/
   exists mi ti t d ins, is_near st = Some (mi, ti) /\ nth_tri ifc mi ti = Some t /\ is_d st = Some d /\
     dist_point_triangle Rops p (fst t) (vzero Rops) = DOk d (is_al st) ins /\
     forall mi' ti' t' d' al' ins', nth_tri ifc mi' ti' = Some t' ->
        dist_point_triangle Rops p (fst t') (vzero Rops) = DOk d' al' ins' -> d <= d').
Proof. exact ScanProofs.interface_min_is_min. Qed.
Print Assumptions interface_min_is_min.

(* dist_point_geom AS IT IS.  The triangle and the distance handed back are right in every declaration order... *)
Theorem geom_returns_nearest_triangle : forall p g al0 st,
  dist_point_geom Rops p g al0 = st -> gs_err st = None -> zero_bounds g <> [] ->
  exists b mi ti t d al ins, In b (zero_bounds g) /\ gs_near st = Some (fst b, mi, ti) /\ nth_tri (snd b) mi ti = Some t /\
      gs_d st = Some d /\ dist_point_triangle Rops p (fst t) (vzero Rops) = DOk d al ins /\ all_ge p (zero_bounds g) d.
Proof. exact ScanProofs.geom_nearest_triangle. Qed.
Print Assumptions geom_returns_nearest_triangle.

(* ... but the weights handed back are those of the nearest triangle of the LAST boundary scanned *)
Theorem geom_alphas_are_of_last_boundary_scanned : forall p g al0 st l bl,
  dist_point_geom Rops p g al0 = st -> gs_err st = None -> zero_bounds g = l ++ [bl] ->
  exists mi ti t d ins, nth_tri (snd bl) mi ti = Some t /\
      dist_point_triangle Rops p (fst t) (vzero Rops) = DOk d (gs_al st) ins /\ all_ge p [bl] d.
Proof. exact ScanProofs.geom_alphas_of_last. Qed.
Print Assumptions geom_alphas_are_of_last_boundary_scanned.

(* geom_alphas_belong_to_returned_triangle, PARTIAL.  Extra hypothesis [last_is_strictly_nearest p l bl]: the boundaries
   of zero-conductivity domains, in scan order, are l ++ [bl] and the last one, bl, has a triangle strictly nearer to p
   than every triangle of the boundaries in l.  (With the hypothesis dropped the statement is false: next theorem.) *)
Theorem geom_alphas_belong_to_returned_triangle_partial : forall p g al0 st l bl,
  dist_point_geom Rops p g al0 = st -> gs_err st = None -> zero_bounds g = l ++ [bl] ->
  last_is_strictly_nearest p l bl ->
  exists b mi ti t d ins, In b (zero_bounds g) /\ gs_near st = Some (fst b, mi, ti) /\ nth_tri (snd b) mi ti = Some t /\
      gs_d st = Some d /\ dist_point_triangle Rops p (fst t) (vzero Rops) = DOk d (gs_al st) ins /\ all_ge p (zero_bounds g) d.
Proof. exact ScanProofs.geom_alphas_belong_partial. Qed.
Print Assumptions geom_alphas_belong_to_returned_triangle_partial.

(* instance: exactly one boundary of a zero-conductivity domain (only the air is non-conductive) *)
Theorem geom_alphas_belong_single_boundary : forall p g al0 st bl,
  dist_point_geom Rops p g al0 = st -> gs_err st = None -> zero_bounds g = [bl] ->
  exists b mi ti t d ins, In b (zero_bounds g) /\ gs_near st = Some (fst b, mi, ti) /\ nth_tri (snd b) mi ti = Some t /\
      gs_d st = Some d /\ dist_point_triangle Rops p (fst t) (vzero Rops) = DOk d (gs_al st) ins /\ all_ge p (zero_bounds g) d.
Proof. exact ScanProofs.geom_alphas_belong_single. Qed.
Print Assumptions geom_alphas_belong_single_boundary.

(* REFUTED in general (DESIGN 4 row 12, known finding): two zero-conductivity domains, each bounded by one triangle;
   the nearest triangle belongs to the first, the weights handed back are the second's.  Replayed on the real
   dist_point_geom by the check every run. *)
Theorem geom_alphas_belong_to_returned_triangle_refuted : exists (p : @vec Q) (g : @geometry Q) t al,
  let st := dist_point_geom Qops p g (0%Q, 0%Q, 0%Q) in
  gs_near st = Some (0, 0, 0)%nat /\ nth_tri [[t]] 0 0 = Some t /\
  dist_point_triangle Qops p (fst t) (0%Q, 0%Q, 0%Q) = DOk 1%Q al true /\ gs_d st = Some 1%Q /\ gs_al st <> al.
Proof.
  exists w12_p, w12_g, w12_T1, (qv (1 # 2) (1 # 4) (1 # 4)). vm_compute. repeat split. discriminate.
Qed.
Print Assumptions geom_alphas_belong_to_returned_triangle_refuted.

Theorem row_support_le3_on_triangle : forall (ix : idx3) (al : @vec R),
  (length (write_row ix al) <= 3)%nat /\
  forall c, In c (map fst (write_row ix al)) -> c = get3 ix 0 \/ c = get3 ix 1 \/ c = get3 ix 2.
Proof. exact ScanProofs.row_support_le3. Qed.
Print Assumptions row_support_le3_on_triangle.

Theorem row_sums_to_one : forall (ix : idx3) (al : @vec R), distinct3 ix ->
  get3 al 0 + get3 al 1 + get3 al 2 = 1 -> row_sum (write_row ix al) = 1.
Proof. exact ScanProofs.row_sums_to_one. Qed.
Print Assumptions row_sums_to_one.

Theorem constant_potential_read_back : forall (ix : idx3) (al : @vec R) (c : R), distinct3 ix ->
  get3 al 0 + get3 al 1 + get3 al 2 = 1 -> row_apply Rops (write_row ix al) (fun _ => c) = c.
Proof. exact ScanProofs.constant_potential_read_back. Qed.
Print Assumptions constant_potential_read_back.

(* a whole row of Head2EEGMat as the code is (FULL): entries on the nearest triangle of the non-conductive
   boundaries, values = non-negative weights summing to one (those of the nearest triangle of the last boundary
   scanned), so a constant potential is read back *)
Theorem head2eeg_row_weights : forall g p r l bl, ids_ok g -> zero_bounds g = l ++ [bl] ->
  head2eeg_row Rops g p = Some r ->
  exists b mi ti t d al0 ins al,
    In b (zero_bounds g) /\ nth_tri (snd b) mi ti = Some t /\
    dist_point_triangle Rops p (fst t) (vzero Rops) = DOk d al0 ins /\ all_ge p (zero_bounds g) d /\
    r = write_row (snd t) al /\
    (exists mi' ti' t' d' ins', nth_tri (snd bl) mi' ti' = Some t' /\
        dist_point_triangle Rops p (fst t') (vzero Rops) = DOk d' al ins') /\
    0 <= get3 al 0 /\ 0 <= get3 al 1 /\ 0 <= get3 al 2 /\ get3 al 0 + get3 al 1 + get3 al 2 = 1 /\
    (distinct3 (snd t) -> row_sum r = 1 /\ forall c, row_apply Rops r (fun _ => c) = c).
Proof. exact ScanProofs.head2eeg_row_weights. Qed.
Print Assumptions head2eeg_row_weights.

(* PARTIAL (same extra hypothesis as geom_alphas_belong_to_returned_triangle_partial): the entries are the returned
   triangle's own weights *)
Theorem head2eeg_row_correct_partial : forall g p r l bl, ids_ok g -> zero_bounds g = l ++ [bl] ->
  last_is_strictly_nearest p l bl ->
  head2eeg_row Rops g p = Some r ->
  exists b mi ti t d al ins,
    In b (zero_bounds g) /\ nth_tri (snd b) mi ti = Some t /\
    dist_point_triangle Rops p (fst t) (vzero Rops) = DOk d al ins /\
    r = write_row (snd t) al /\ all_ge p (zero_bounds g) d.
Proof. exact ScanProofs.head2eeg_row_spec_partial. Qed.
Print Assumptions head2eeg_row_correct_partial.

Theorem head2ecog_row_correct : forall ifc p r,
  head2ecog_row Rops ifc p = Some r ->
  exists mi ti t d al ins, nth_tri ifc mi ti = Some t /\
    dist_point_triangle Rops p (fst t) (vzero Rops) = DOk d al ins /\ r = write_row (snd t) al /\
    (forall mi' ti' t' d' al' ins', nth_tri ifc mi' ti' = Some t' ->
        dist_point_triangle Rops p (fst t') (vzero Rops) = DOk d' al' ins' -> d <= d') /\
    get3 al 0 + get3 al 1 + get3 al 2 = 1 /\
    (distinct3 (snd t) -> row_sum r = 1 /\ forall c, row_apply Rops r (fun _ => c) = c).
Proof. exact ScanProofs.head2ecog_row_spec. Qed.
Print Assumptions head2ecog_row_correct.

Theorem weights_matrix_groups_by_label : forall labels (w : list R) names nb ix,
  group_labels [] 0 labels = (names, nb, ix) ->
  NoDup names /\ nb = length names /\ (forall l, In l names <-> In l labels) /\
  forall s i l wi, nth_error labels i = Some l -> nth_error w i = Some wi -> (s < nb)%nat ->
     weights_entry Rops ix w s i = if Nat.eqb (nth s names 0%nat) l then wi else 0.
Proof. exact ScanProofs.weights_matrix_groups. Qed.
Print Assumptions weights_matrix_groups_by_label.


(* the label-based constructors (sensors.h init_labels): same grouping law - two integration points share a row exactly
   when they carry the same label (repeated labels in any order); the row is the position of the label's first
   occurrence and the object keeps one row per integration point *)
Theorem weights_matrix_ctor_groups_by_label : forall (labels : list nat) (w : list R),
  fst (ctor_weights_matrix Rops labels w) = length labels /\
  length (ctor_index labels) = length labels /\
  (forall i li, nth_error labels i = Some li ->
     exists k, nth_error (ctor_index labels) i = Some k /\ index_of labels li = Some k /\ nth_error labels k = Some li /\
     forall s wi, nth_error w i = Some wi -> weights_entry Rops (ctor_index labels) w s i = if Nat.eqb k s then wi else 0) /\
  (forall i j li lj ki kj, nth_error labels i = Some li -> nth_error labels j = Some lj ->
     nth_error (ctor_index labels) i = Some ki -> nth_error (ctor_index labels) j = Some kj -> (ki = kj <-> li = lj)).
Proof. exact ScanProofs.ctor_groups_by_label. Qed.
Print Assumptions weights_matrix_ctor_groups_by_label.


(* file semantics of Sensors::load: the weights are the last column exactly when the file has 7 numeric columns, labelled or
   not; in an unlabelled file every integration point is its own sensor *)
Theorem file_weights_are_the_seventh_column : forall ncol (lastcol : list R) i wi, nth_error lastcol i = Some wi ->
  nth_error (file_weights Rops ncol lastcol) i = Some (if Nat.eqb ncol 7 then wi else 1).
Proof. exact ScanProofs.file_weights_spec. Qed.
Print Assumptions file_weights_are_the_seventh_column.

Theorem unlabelled_file_weight_matrix_is_diagonal : forall ncol (lastcol : list R) s i wi, nth_error lastcol i = Some wi ->
  weights_entry Rops (unlabelled_index (length lastcol)) (file_weights Rops ncol lastcol) s i =
  if Nat.eqb i s then (if Nat.eqb ncol 7 then wi else 1) else 0.
Proof. exact ScanProofs.unlabelled_entry. Qed.
Print Assumptions unlabelled_file_weight_matrix_is_diagonal.


(* the labelled / unlabelled decision of Sensors::load: labelled iff NO line's first token looks like a float (contains
   exactly one '.'), whatever the position of the lines *)
Theorem file_is_labelled_iff_no_line_starts_with_a_float : forall dots, file_is_labelled dots = true <-> forall b, In b dots -> b = false.
Proof. exact ScanProofs.labelled_rule. Qed.
Print Assumptions file_is_labelled_iff_no_line_starts_with_a_float.
Theorem file_label_rule_ignores_line_order : forall dots dots', (forall b, In b dots <-> In b dots') -> file_is_labelled dots = file_is_labelled dots'.
Proof. exact ScanProofs.labelled_rule_ignores_line_order. Qed.
Print Assumptions file_label_rule_ignores_line_order.

(* hypotheses are satisfiable / the models compute what one expects on small instances *)
Example head2eeg_row_example :
  head2eeg_row Qops w12_g w12_p = Some [(0%nat, 11 # 16); (1%nat, 1 # 16); (2%nat, 1 # 4)]%Q.
Proof. exact C09Witness.head2eeg_row_example. Qed.
Example weights_matrix_example :
  weights_matrix Qops [7; 3; 7; 9]%nat [1; 2; 3; 4]%Q = (3%nat, [[1; 0; 3; 0]; [0; 2; 0; 0]; [0; 0; 0; 4]]%Q).
Proof. exact C09Witness.weights_matrix_example. Qed.
(* the hypothesis of the partial theorem is satisfiable: same triangles, domains declared in the other order *)
Example geom_other_order_example :
  let st := dist_point_geom Qops w12_p w12_g' qzero in
  gs_near st = Some (0, 0, 0)%nat /\ gs_d st = Some 1%Q /\ gs_al st = qv (1 # 2) (1 # 4) (1 # 4).
Proof. exact C09Witness.geom_alphas_other_order_w. Qed.
(* what the property asks for on the refuting input (the variant keeping the minimum's weights) *)
Example geom_repaired_example :
  let st := dist_point_geom_repaired Qops w12_p w12_g qzero in
  gs_near st = Some (0, 0, 0)%nat /\ gs_d st = Some 1%Q /\ gs_al st = qv (1 # 2) (1 # 4) (1 # 4).
Proof. exact C09Witness.geom_alphas_repaired_w. Qed.
