(* C06 placeholder; filled below *)
From OM Require Import Base.Lists Geom.GeomModel.
