(* C06 - results do not depend on how the same head model is written down.
   Property theorems only (each closed by [exact <lemma>], followed by Print Assumptions).
   Part A (stdlib): combinatorics on coq/Geom/GeomModel.v, GeomFile.v, MeshTopo.v.
   Part B (MathComp): algebra of relabelling the unknowns and of the common reference.
   Not a theorem: the size of the analytic-inner / quadrature-outer asymmetry (measured, calib/C06.json). *)
From OM Require Import Base.Lists Base.Ops Geom.MeshTopo Geom.GeomModel Geom.GeomProofs Geom.GeomFile Geom.GeomFileProofs
  Geom.MeshTopoProofs Geom.FloodProofs Geom.Equivariance.
From Coq Require Import Permutation.
Local Open Scope Z_scope.

(* --- A1. relabelling the vertices inside the mesh files *)
Theorem relabel_vertices_equivariant : forall ms ms' pis t ims t' ims',
  Forall2 (fun pm m' => relabelled (fst pm) (snd pm) m') (combine pis ms) ms' -> length pis = length ms ->
  import_points [] ms = (t, ims) -> import_points [] ms' = (t', ims') ->
  Permutation t t' /\ length t' = length t
  /\ forall k lts lts', (k < length ms)%nat ->
       map_tris (nth k ims []) (m_tris (nth k ms (mkMesh [] []))) = Some lts ->
       map_tris (nth k ims' []) (m_tris (nth k ms' (mkMesh [] []))) = Some lts' ->
       map (tri_points t') lts' = map (tri_points t) lts.
Proof. exact relabel_import. Qed.
Print Assumptions relabel_vertices_equivariant.

(* two index maps that both enumerate [0,N) on the same label-free unknowns differ by a permutation of [0,N) *)
Theorem unknown_indices_related_by_induced_permutation :
  forall (U : Type) (us : list U) (idx idx' : U -> Z) (N : nat),
  Permutation (map idx us) (zseq 0 N) -> Permutation (map idx' us) (zseq 0 N) ->
  (forall u, In u us -> induced U us idx idx' (idx u) = idx' u)
  /\ (forall x, 0 <= x < Z.of_nat N -> 0 <= induced U us idx idx' x < Z.of_nat N)
  /\ (forall x y, 0 <= x < Z.of_nat N -> 0 <= y < Z.of_nat N -> induced U us idx idx' x = induced U us idx idx' y -> x = y).
Proof.
  intros U us idx idx' N E E'. split; [|split].
  - intros u Hu. eapply induced_spec; eauto.
  - intros x Hx. eapply induced_range; eauto.
  - intros x y Hx Hy. eapply induced_inj; eauto.
Qed.
Print Assumptions unknown_indices_related_by_induced_permutation.

(* --- A1'. declaring the meshes in another order: same point set; an imported triangle joins the points of its own
   file whatever the position of its mesh; everything derived from the domains follows the renumbering *)
Theorem reorder_meshes_equivariant :
  (forall ms ms' t ims t' ims', Permutation ms ms' ->
     import_points [] ms = (t, ims) -> import_points [] ms' = (t', ims') -> Permutation t t' /\ length t' = length t)
  /\ (forall ms t ims k lts, import_points [] ms = (t, ims) -> (k < length ms)%nat ->
       map_tris (nth k ims []) (m_tris (nth k ms (mkMesh [] []))) = Some lts ->
       map (tri_points t) lts = map (tri_points (m_pts (nth k ms (mkMesh [] [])))) (m_tris (nth k ms (mkMesh [] []))))
  /\ (forall (pi : nat -> nat), (forall a b, pi a = pi b -> a = b) -> forall g g',
       g_doms g' = map (map (ren_gb pi)) (g_doms g) ->
       (forall m, domains_of g' (pi m) = domains_of g m)
       /\ (forall m1 m2, common_domains g' (pi m1) (pi m2) = common_domains g m1 m2)
       /\ (forall m1 m2, relative_orientation g' (pi m1) (pi m2) = relative_orientation g m1 m2)
       /\ (forall ins, domain_of_point g' ins = domain_of_point g ins)
       /\ (forall (F : Type) (o : Ops F) conds m1 m2,
             sigma o g' conds (pi m1) (pi m2) = sigma o g conds m1 m2
             /\ sigma_inv o g' conds (pi m1) (pi m2) = sigma_inv o g conds m1 m2
             /\ indicator o g' conds (pi m1) (pi m2) = indicator o g conds m1 m2)).
Proof.
  split; [exact import_points_order_free|]. split; [exact imported_triangles_label_free|].
  intros pi Hpi g g' Hd. split; [|split; [|split; [|split]]].
  - intros m. apply (domains_of_ren pi Hpi g g' Hd).
  - intros m1 m2. apply (common_domains_ren pi Hpi g g' Hd).
  - intros m1 m2. apply (relative_orientation_ren pi Hpi g g' Hd).
  - intros ins. apply (domain_of_point_ren pi g g' Hd).
  - intros F o conds m1 m2. repeat split; apply (eval_common_ren pi Hpi g g' Hd).
Qed.
Print Assumptions reorder_meshes_equivariant.

(* --- A2. listing a domain's boundaries in another order *)
Theorem reorder_domain_boundaries_equivariant : forall g g', same_up_to_boundary_order g g' ->
  (forall m, domains_of g' m = domains_of g m)
  /\ (forall m1 m2, common_domains g' m1 m2 = common_domains g m1 m2)
  /\ (forall m1 m2, relative_orientation g' m1 m2 = relative_orientation g m1 m2)
  /\ outermost_domain g' = outermost_domain g
  /\ (forall ins, domain_of_point g' ins = domain_of_point g ins)
  /\ (forall (F : Type) (o : Ops F) conds m1 m2,
        sigma o g' conds m1 m2 = sigma o g conds m1 m2 /\ sigma_inv o g' conds m1 m2 = sigma_inv o g conds m1 m2
        /\ indicator o g' conds m1 m2 = indicator o g conds m1 m2).
Proof.
  intros g g' H. split; [|split; [|split; [|split; [|split]]]].
  - apply domains_of_reorder; auto.
  - apply common_domains_reorder; auto.
  - apply relative_orientation_reorder; auto.
  - apply outermost_domain_reorder; auto.
  - apply domain_of_point_reorder; auto.
  - intros F o conds m1 m2. repeat split; apply sigma_reorder; auto.
Qed.
Print Assumptions reorder_domain_boundaries_equivariant.

(* --- A3. renaming meshes, interfaces, domains; concrete syntaxes *)
Theorem rename_equivariant : forall (f : nat -> nat), (forall a b, f a = f b -> a = b) -> forall numname g,
  parse_geom (fun k => f (numname k)) (ren_file f g) = option_map (ren_parsed f) (parse_geom numname g).
Proof. exact parse_rename. Qed.
Print Assumptions rename_equivariant.

Theorem rename_keeps_description : forall (f : nat -> nat) p, p_desc (ren_parsed f p) = p_desc p.
Proof. reflexivity. Qed.

Theorem legacy_syntax_equivalent : forall numname ms ds, Forall (fun e : option nat * mesh => fst e = None) ms ->
  parse_geom numname (mkGFile V10 None ms [] ds) = parse_geom numname (mkGFile V11 None ms [] ds).
Proof. exact legacy_same_as_shorthand. Qed.
Print Assumptions legacy_syntax_equivalent.

Theorem omitted_sign_is_plus : forall (A : Type) (l : list (nat * A)) ts ds,
  resolve_meshes l (map plus_stok ts) = resolve_meshes l ts /\ resolve_bounds l (map plus_dtok ds) = resolve_bounds l ds.
Proof. intros A l ts ds. split; [apply resolve_meshes_plus|apply resolve_bounds_plus]. Qed.
Print Assumptions omitted_sign_is_plus.

Theorem shared_keyword_ends_domain_line : forall (A : Type) (ifs : list (nat * A)) ts rest,
  (forall t, In t ts -> t <> DShared) -> resolve_bounds ifs (ts ++ DShared :: rest) = resolve_bounds ifs ts.
Proof. intros A. exact (@resolve_bounds_shared A). Qed.
Print Assumptions shared_keyword_ends_domain_line.

(* --- A4. windings *)
Theorem consistent_mesh_untouched : forall ts, has_correct_orientation ts = true -> correct_local_orientation ts = ts.
Proof. exact consistent_untouched. Qed.
Print Assumptions consistent_mesh_untouched.

Theorem triangle_rotation_keeps_consistent_mesh : forall ts ts', Forall2 rotated ts ts' ->
  has_correct_orientation ts' = has_correct_orientation ts
  /\ (has_correct_orientation ts = true -> correct_local_orientation ts' = ts').
Proof. intros ts ts' H. split; [apply rotation_keeps_verdict; auto|apply rotation_consistent_untouched; auto]. Qed.
Print Assumptions triangle_rotation_keeps_consistent_mesh.

Theorem whole_mesh_flip_keeps_consistent_mesh : forall ts,
  has_correct_orientation (map tri_flip ts) = has_correct_orientation ts
  /\ (has_correct_orientation ts = true -> correct_local_orientation (map tri_flip ts) = map tri_flip ts).
Proof. intros ts. split; [apply flip_keeps_verdict|apply flip_consistent_untouched]. Qed.
Print Assumptions whole_mesh_flip_keeps_consistent_mesh.

(* the repair itself: on a connected mesh of non-degenerate triangles that admits a coherent orientation [tgt] (no
   directed edge used by two triangles) agreeing with the first triangle, the stack-based flood fill of
   Mesh::correct_local_orientation ends exactly with [tgt]: afterwards every adjacent pair is consistent *)
Theorem flood_fill_consistent : forall orig tgt : list tri,
  (0 < length orig)%nat -> length tgt = length orig ->
  (forall k, (k < length orig)%nat -> nondeg (nth k orig (0, 0, 0)%nat)) ->
  (forall k, (k < length orig)%nat -> nth k tgt (0, 0, 0)%nat = nth k orig (0, 0, 0)%nat \/ nth k tgt (0, 0, 0)%nat = tri_flip (nth k orig (0, 0, 0)%nat)) ->
  nth 0 tgt (0, 0, 0)%nat = nth 0 orig (0, 0, 0)%nat ->
  (forall k j, (k < length orig)%nat -> (j < length orig)%nat -> k <> j ->
     forall e, In e (tri_edges (nth k tgt (0, 0, 0)%nat)) -> In e (tri_edges (nth j tgt (0, 0, 0)%nat)) -> False) ->
  (forall j, (j < length orig)%nat -> reach orig j) ->
  has_correct_orientation orig = false -> correct_local_orientation orig = tgt.
Proof. exact repair_reaches_target. Qed.
Print Assumptions flood_fill_consistent.

(* a tetrahedron whose third face is written the wrong way round *)
Example flood_fill_tetrahedron :
  correct_local_orientation [(0, 1, 2); (0, 3, 1); (3, 1, 2); (0, 2, 3)]%nat = [(0, 1, 2); (0, 3, 1); (1, 3, 2); (0, 2, 3)]%nat.
Proof. vm_compute. reflexivity. Qed.

(* Gauss' law enters as the relation between the two solid-angle signs handed to the reader: s for the files as they
   are, -s after reversing every mesh of the interface *)
Theorem global_flip_by_solid_angle_sign : forall (tris : nat -> list tri) (i i1 i2 : list (Z * nat)) (s : Z),
  (forall om, In om i -> fst om = 1 \/ fst om = -1) -> (s = 1 \/ s = -1) ->
  orient_iface s i = Some i1 -> orient_iface (- s) i = Some i2 ->
  oriented_tris (fun m => map tri_flip (tris m)) i2 = oriented_tris tris i1.
Proof. exact global_flip_same_oriented_interface. Qed.
Print Assumptions global_flip_by_solid_angle_sign.

Example global_flip_hypotheses_satisfiable :
  orient_iface 1 [(1, 0%nat); (-1, 1%nat)] = Some [(-1, 0%nat); (1, 1%nat)] /\ orient_iface (-1) [(1, 0%nat); (-1, 1%nat)] = Some [(1, 0%nat); (-1, 1%nat)].
Proof. split; reflexivity. Qed.

(* --- A5. the head matrix of c10's assembly model (coq/Geom/Assembly.v, R instance) under a renumbering of the vertex
   unknowns that fixes the triangle indices (what a vertex relabelling does: relabel_vertices_equivariant +
   generate_indices_bijection): every cell of the assembled, not yet deflated, matrix moves with the renumbering.  This
   discharges the hypothesis of label_free_matrices_are_conjugate for the head matrix with only the kernels, areas and
   positions abstract.  Deflation is excluded on purpose: its coefficient is read at the FIRST vertex of the first
   outermost mesh (Details::deflate), so it is not label-free (the solution modulo constants is). *)
From Coq Require Reals.
From OM Require Geom.Assembly Geom.AssemblyProofs Geom.HeadMatRelabel.
Notation R := Rdefinitions.R (only parsing).
Theorem head_matrix_follows_vertex_renumbering :
  forall (K : R) (pos : N -> R * R * R) (area : N -> R) (Sk : N -> N -> R) (Dk : N -> N -> nat -> R)
         (g g' : Assembly.igeom R) (pi : N -> N),
  (forall a b, pi a = pi b -> a = b) ->
  Assembly.gmeshes g' = Assembly.gmeshes g -> Assembly.gpairs g' = Assembly.gpairs g ->
  (forall v, Assembly.vix g' v = pi (Assembly.vix g v)) ->
  (forall k t, In t (Assembly.mtris (Assembly.gmesh g k)) -> pi (Assembly.tix t) = Assembly.tix t) ->
  forall r c, Assembly.mget AssemblyProofs.RO (Assembly.assemble_pairs AssemblyProofs.RO K pos area Sk Dk g') (pi r) (pi c)
            = Assembly.mget AssemblyProofs.RO (Assembly.assemble_pairs AssemblyProofs.RO K pos area Sk Dk g) r c.
Proof. exact HeadMatRelabel.assemble_pairs_relabel. Qed.
Print Assumptions head_matrix_follows_vertex_renumbering.

(* --- B. algebra (MathComp) *)
From mathcomp Require Import all_ssreflect all_fingroup all_algebra.
From OM Require Import Geom.GainAlgebra.
Import GRing.Theory.
Local Open Scope ring_scope.

Theorem gain_perm_invariant : forall (F : fieldType) m n k (s : 'S_n) (A : 'M[F]_(m, n)) (H : 'M[F]_n) (S : 'M[F]_(n, k)),
  H \in unitmx ->
  (A *m (perm_mx s)^T) *m invmx (perm_mx s *m H *m (perm_mx s)^T) *m (perm_mx s *m S) = A *m invmx H *m S.
Proof. exact GainAlgebra.gain_perm_invariant. Qed.
Print Assumptions gain_perm_invariant.

Theorem permuted_head_matrix_invertible : forall (F : fieldType) n (s : 'S_n) (H : 'M[F]_n),
  H \in unitmx -> perm_mx s *m H *m (perm_mx s)^T \in unitmx.
Proof. exact GainAlgebra.unitmx_conj_perm. Qed.
Print Assumptions permuted_head_matrix_invertible.

Theorem gain_reference_shift : forall (F : fieldType) m n k (A : 'M[F]_(m, n)) (V : 'M[F]_(n, k)) (c : 'rV[F]_k),
  A *m (const_mx 1 : 'cV_n) = (const_mx 1 : 'cV_m) ->
  A *m (V + (const_mx 1 : 'cV_n) *m c) = A *m V + (const_mx 1 : 'cV_m) *m c.
Proof. exact GainAlgebra.gain_reference_shift. Qed.
Print Assumptions gain_reference_shift.

Theorem rereferenced_gain_invariant : forall (F : fieldType) m n k (s : 'S_n) (r : 'rV[F]_m) (A : 'M[F]_(m, n)) (H : 'M[F]_n)
  (S : 'M[F]_(n, k)) (c : 'rV[F]_k),
  H \in unitmx -> r *m (const_mx 1 : 'cV_m) = 1%:M ->
  reref r ((A *m (perm_mx s)^T) *m invmx (perm_mx s *m H *m (perm_mx s)^T) *m (perm_mx s *m S) + (const_mx 1 : 'cV_m) *m c)
  = reref r (A *m invmx H *m S).
Proof. exact GainAlgebra.gain_redescription_invariant. Qed.
Print Assumptions rereferenced_gain_invariant.

(* link between A and B: matrices whose entries are functions of the label-free unknowns, enumerated in two orders that
   differ by a permutation s, are P H P^T, P S, A P^T; hence the gain does not depend on the enumeration *)
Theorem label_free_matrices_are_conjugate : forall (F : fieldType) (U : Type) (n m k : nat)
  (Kh : U -> U -> F) (Ks : U -> 'I_k -> F) (Ka : 'I_m -> U -> F) (u : 'I_n -> U) (s : 'S_n),
  headmx Kh (u \o s) = perm_mx s *m headmx Kh u *m (perm_mx s)^T
  /\ srcmx Ks (u \o s) = perm_mx s *m srcmx Ks u
  /\ sensmx Ka (u \o s) = sensmx Ka u *m (perm_mx s)^T.
Proof.
  intros F U n m k Kh Ks Ka u s. split; [apply headmx_relabel|split; [apply srcmx_relabel|apply sensmx_relabel]].
Qed.
Print Assumptions label_free_matrices_are_conjugate.

Theorem gain_enumeration_free : forall (F : fieldType) (U : Type) (n m k : nat)
  (Kh : U -> U -> F) (Ks : U -> 'I_k -> F) (Ka : 'I_m -> U -> F) (u : 'I_n -> U) (s : 'S_n),
  headmx Kh u \in unitmx ->
  sensmx Ka (u \o s) *m invmx (headmx Kh (u \o s)) *m srcmx Ks (u \o s) = sensmx Ka u *m invmx (headmx Kh u) *m srcmx Ks u.
Proof. exact GainAlgebra.gain_enumeration_free. Qed.
Print Assumptions gain_enumeration_free.
