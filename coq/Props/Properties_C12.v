(* C12 - Geometry validity checks are sound and complete.
   Orchestration (Geom/Checks.v: Mesh::has_self_intersection, Mesh::intersection, Geometry::selfCheck / check /
   check_inner, om_check_geom exit status, om_assemble -HM refusal): theorems for an ARBITRARY triangle-triangle
   predicate [isect] and point-in-interface predicate [inside].
   Predicate (Geom/TriTri.v, transcription of Triangle_triangle_intersection.h): the two plane rejections are proved
   sound (with the relative snapping of fix c0ef322); symmetry in the arguments is refuted on a non-generic pair (tritri_symmetry_refuted)
   and, like the agreement with exact geometry on the interval-overlap and coplanar branches, only validated on pairs
   in generic position by the check (not theorems). *)
From Coq Require Import Reals QArith List Bool.
From OM Require Import Base.Ops Geom.V3Q Geom.V3R Geom.TriTri Geom.TriTriProofs Geom.SegTriProofs Geom.Checks Geom.ChecksProofs Geom.RunC12.
Import ListNotations.

Section Orchestration.
Variable T : Type.
Variable vid : T -> nat * nat * nat.
Variable isect : T -> T -> bool.
Variable P : Type.
Variable inside : P -> bool.

(* has_self_intersection after the fix: commit: a pair (t1 at or before t2 in iteration order) that shares no vertex
   and intersects is reported, and nothing else *)
Theorem self_intersection_reported_iff_ordered : forall m : list T,
  has_self_intersection T vid isect m = true <->
  exists l1 t1 l2 t2, m = l1 ++ t1 :: l2 /\ In t2 (t1 :: l2) /\ disjoint_vertices T vid t1 t2 /\ isect t1 t2 = true.
Proof. exact (self_intersection_iff_ordered T vid isect). Qed.

(* with a symmetric predicate: exactly when two triangles of the mesh sharing no vertex intersect *)
Theorem self_intersection_reported_iff : forall m : list T, (forall a b, isect a b = isect b a) ->
  (has_self_intersection T vid isect m = true <->
   exists t1 t2, In t1 m /\ In t2 m /\ disjoint_vertices T vid t1 t2 /\ isect t1 t2 = true).
Proof. exact (self_intersection_iff T vid isect). Qed.

(* the pinned text (third conjunct tests tit1->vertex(2)) never reports anything *)
Theorem self_intersection_pinned_never_reports : forall m : list T, has_self_intersection_pinned T vid isect m = false.
Proof. exact (pinned_never_reports T vid isect). Qed.

Theorem mesh_intersection_iff : forall m1 m2 : list T,
  mesh_intersection T isect m1 m2 = true <-> exists t1 t2, In t1 m1 /\ In t2 m2 /\ isect t1 t2 = true.
Proof. exact (ChecksProofs.mesh_intersection_iff T isect). Qed.

Theorem selfCheck_iff : forall nested ms,
  self_check T vid isect nested ms = true <->
  (forall m, In m ms -> has_self_intersection T vid isect m = false) /\
  (nested = true -> forall l1 m1 l2 m2, ms = l1 ++ m1 :: l2 -> In m2 l2 -> mesh_intersection T isect m1 m2 = false).
Proof. exact (self_check_iff T vid isect). Qed.

Theorem check_iff : forall ms m,
  check_mesh T vid isect ms m = true <->
  has_self_intersection T vid isect m = false /\ forall mesh, In mesh ms -> mesh_intersection T isect mesh m = false.
Proof. exact (check_mesh_iff T vid isect). Qed.

Theorem check_inner_iff : forall nested ds,
  check_inner P inside nested ds = true <-> nested = true /\ forall d, In d ds -> inside d = true.
Proof. exact (ChecksProofs.check_inner_iff P inside). Qed.

Theorem tool_exit_status_iff : forall nested ms m dips,
  (om_check_geom T vid isect P inside nested ms m dips = 0%nat \/ om_check_geom T vid isect P inside nested ms m dips = 1%nat) /\
  (om_check_geom T vid isect P inside nested ms m dips = 0%nat <->
   self_check T vid isect nested ms = true /\
   (forall mm, m = Some mm -> check_mesh T vid isect ms mm = true) /\
   (forall ds, dips = Some ds -> nested = true /\ check_inner P inside nested ds = true)).
Proof. exact (tool_exit_status T vid isect P inside). Qed.

Theorem assemble_refuses_iff : forall (HM : Type) (assemble : list (list T) -> HM) nested ms,
  (om_assemble_hm T vid isect assemble nested ms = (0%nat, Some (assemble ms)) <-> self_check T vid isect nested ms = true) /\
  (om_assemble_hm T vid isect assemble nested ms = (1%nat, None) <-> self_check T vid isect nested ms = false).
Proof. intros HM. exact (@assemble_refuses T vid isect HM). Qed.
End Orchestration.
Print Assumptions self_intersection_reported_iff_ordered.
Print Assumptions self_intersection_reported_iff.
Print Assumptions self_intersection_pinned_never_reports.
Print Assumptions mesh_intersection_iff.
Print Assumptions selfCheck_iff.
Print Assumptions check_iff.
Print Assumptions check_inner_iff.
Print Assumptions tool_exit_status_iff.
Print Assumptions assemble_refuses_iff.


(* selfCheck for geometries loaded WITH conductivities: triangle indices (unsigned(-1) on an isolated mesh), the
   current-barrier / isolated / outermost flags - anything attached to a triangle (decoration D) - play no role: the verdict
   is that of the bare meshes.  So selfCheck_iff above holds verbatim for a geometry loaded with any conductivity file, and
   a self-check that consults triangle indices (seeded change C12-5) departs from the model. *)
Theorem selfCheck_ignores_indices_and_flags : forall (T D : Type) (vid : T -> nat * nat * nat) (isect : T -> T -> bool) nested
    (ms : list (list (D * T))),
  self_check (D * T) (fun t => vid (snd t)) (fun a b => isect (snd a) (snd b)) nested ms =
  self_check T vid isect nested (map (map snd) ms).
Proof. exact self_check_decorated. Qed.
Print Assumptions selfCheck_ignores_indices_and_flags.

Theorem self_intersection_ignores_indices_and_flags : forall (T D : Type) (vid : T -> nat * nat * nat) (isect : T -> T -> bool)
    (m : list (D * T)),
  has_self_intersection (D * T) (fun t => vid (snd t)) (fun a b => isect (snd a) (snd b)) m =
  has_self_intersection T vid isect (map snd m).
Proof. exact hsi_decorated. Qed.
Print Assumptions self_intersection_ignores_indices_and_flags.

(* DESIGN 4 row 15, on the transcribed predicate itself: two crossing triangles that share no vertex; the predicate
   says they intersect, the pinned loop answers "no self intersection", the repaired loop reports it.
   Replayed on the code by the check (Mesh::has_self_intersection must answer true). *)
Definition cross_T1 : stri := ((0, 1, 2)%nat, ((0, 0, 0), (4, 0, 0), (0, 4, 0))%Q).
Definition cross_T2 : stri := ((3, 4, 5)%nat, ((1, 1, -1), (1, 1, 1), (2, 2, 1))%Q).
Theorem self_intersection_refuted_on_pinned :
  s_isect cross_T1 cross_T2 = true /\ share_no_vertex stri fst cross_T1 cross_T2 = true /\
  has_self_intersection_pinned stri fst s_isect [cross_T1; cross_T2] = false /\
  has_self_intersection stri fst s_isect [cross_T1; cross_T2] = true.
Proof. vm_compute. repeat split. Qed.
Print Assumptions self_intersection_refuted_on_pinned.

(* the transcribed predicate: plane rejections are sound (no common point at all) *)
Local Open Scope R_scope.
Theorem plane_rejection_sound : forall p1 q1 r1 p2 q2 r2 dp1 dq1 dr1,
  plane_dists Rops p1 q1 r1 p2 q2 r2 = (dp1, dq1, dr1) -> 0 < dp1 * dq1 -> 0 < dp1 * dr1 ->
  tri_tri_overlap_3d Rops p1 q1 r1 p2 q2 r2 = false /\ disjoint_tri p1 q1 r1 p2 q2 r2.
Proof. exact plane_rejection_1. Qed.
Print Assumptions plane_rejection_sound.

Theorem plane_rejection_sound_other_side : forall p1 q1 r1 p2 q2 r2 dp2 dq2 dr2,
  plane_dists2 p1 q1 r1 p2 q2 r2 = (dp2, dq2, dr2) -> 0 < dp2 * dq2 -> 0 < dp2 * dr2 ->
  tri_tri_overlap_3d Rops p1 q1 r1 p2 q2 r2 = false /\ disjoint_tri p1 q1 r1 p2 q2 r2.
Proof. exact plane_rejection_2. Qed.
Print Assumptions plane_rejection_sound_other_side.


(* Symmetry in the arguments is FALSE for the transcribed predicate (hence for Triangle::intersects, which agrees with
   it on this input): two triangles of non-zero area, disjoint (exact computation in the check), in non-generic position
   (the vertex (1,0,8) of the second is collinear with the edge (1,0,13)-(1,0,9) of the first): intersects(T1,T2) = true,
   intersects(T2,T1) = false.  Outside C12's quantifier (no clearance); replayed on the code every run (known finding). *)
Definition asym_T1 : @tri3 Q := ((1, 0, 13), (9, 2, -7), (1, 0, 9))%Q.
Definition asym_T2 : @tri3 Q := ((1, 0, 8), (9, -2, -6), (5, -1, 9))%Q.
Definition area_vec (t : @tri3 Q) : @vec Q := vcross Qops (vsub Qops (get3 t 1) (get3 t 0)) (vsub Qops (get3 t 2) (get3 t 0)).
Theorem tritri_symmetry_refuted :
  tri_intersects Qops asym_T1 asym_T2 = true /\ tri_intersects Qops asym_T2 asym_T1 = false /\
  area_vec asym_T1 <> (0, 0, 0)%Q /\ area_vec asym_T2 <> (0, 0, 0)%Q.
Proof. vm_compute. repeat split; discriminate. Qed.
Print Assumptions tritri_symmetry_refuted.


(* the exact verdict is scale invariant: scaling all six points by s > 0 preserves the answer of the exact oracle
   (so the predicate must answer alike on uniformly scaled copies of a pair - exercised by the check at 2^-13, 2^-10, 2^10) *)
Theorem exact_verdict_scale_invariant : forall s t1 t2, 0 < s -> isect_oracle Rops (tsc s t1) (tsc s t2) = isect_oracle Rops t1 t2.
Proof. exact isect_oracle_scale. Qed.
Print Assumptions exact_verdict_scale_invariant.

(* The exact oracle against which Triangle::intersects is validated means what it says (over the reals):
   each verdict of seg_tri is exact for the closed segment [a,b] and the closed triangle (u,v,w) - `Some true` exhibits
   the common point (parameter -Da/S on the segment, weights s2/S, s3/S, s1/S in the triangle, S the sum of the three
   signed volumes), `Some false` excludes any common point (both ends strictly on one side of the plane, or the three
   volumes - the weights of a would-be common point times one common factor - do not share a strict sign). *)
Theorem oracle_segment_hit_is_a_common_point : forall a b u v w, seg_tri Rops a b u v w = Some true -> seg_meets_tri a b u v w.
Proof. exact seg_tri_true_sound. Qed.
Print Assumptions oracle_segment_hit_is_a_common_point.

Theorem oracle_segment_miss_has_no_common_point : forall a b u v w, seg_tri Rops a b u v w = Some false -> ~ seg_meets_tri a b u v w.
Proof. exact seg_tri_false_sound. Qed.
Print Assumptions oracle_segment_miss_has_no_common_point.

(* a positive verdict of the oracle: an edge of one triangle meets the other one, hence the closed triangles are not disjoint *)
Theorem oracle_intersecting_verdict_sound : forall p1 q1 r1 p2 q2 r2,
  isect_oracle Rops (p1, q1, r1) (p2, q2, r2) = Some true ->
  an_edge_meets p1 q1 r1 p2 q2 r2 /\ ~ disjoint_tri p1 q1 r1 p2 q2 r2.
Proof. exact isect_oracle_true_sound. Qed.
Print Assumptions oracle_intersecting_verdict_sound.

(* a negative verdict: no edge of either triangle meets the other triangle.  PARTIAL with respect to disjointness: that two
   non-coplanar triangles none of whose edges meets the other are disjoint (their common segment would end on an edge) is
   not proved here. *)
Theorem oracle_disjoint_verdict_partial : forall p1 q1 r1 p2 q2 r2,
  isect_oracle Rops (p1, q1, r1) (p2, q2, r2) = Some false -> ~ an_edge_meets p1 q1 r1 p2 q2 r2.
Proof. exact isect_oracle_false_no_edge_meets. Qed.
Print Assumptions oracle_disjoint_verdict_partial.

(* all three verdicts of seg_tri occur (rational instance, evaluated) *)
Example oracle_verdicts_occur :
  seg_tri Qops (qv 1 1 (-1)) (qv 1 1 1) (qv 0 0 0) (qv 4 0 0) (qv 0 4 0) = Some true /\
  seg_tri Qops (qv 5 5 (-1)) (qv 5 5 1) (qv 0 0 0) (qv 4 0 0) (qv 0 4 0) = Some false /\
  seg_tri Qops (qv 1 1 1) (qv 1 1 2) (qv 0 0 0) (qv 4 0 0) (qv 0 4 0) = Some false /\
  seg_tri Qops (qv 1 1 0) (qv 1 1 2) (qv 0 0 0) (qv 4 0 0) (qv 0 4 0) = None.
Proof. exact seg_tri_examples. Qed.

(* hypotheses are satisfiable: a clean two-mesh nested model passes, the tool exits 0 *)
Example clean_example :
  let far : stri := ((6, 7, 8)%nat, ((0, 0, 9), (4, 0, 9), (0, 4, 9))%Q) in
  self_check stri fst s_isect true [[cross_T1]; [far]] = true /\
  om_check_geom stri fst s_isect nat (fun _ => true) true [[cross_T1]; [far]] None (Some [0%nat]) = 0%nat /\
  om_check_geom stri fst s_isect nat (fun _ => true) true [[cross_T1]; [cross_T2]] None None = 1%nat.
Proof. vm_compute. repeat split. Qed.
