(* C01 — forward solutions agree with the analytic layered-sphere solution.
   LEVEL: other.  The discretisation bound of the symmetric BEM (and its decrease under refinement) is NOT a theorem here;
   it is measured against calib/C01.json by checks/c01.py.  What is proved below are properties of the analytic ORACLE
   (coq/Geom/Sphere.v, R instance of the numeric record) whose IEEE-double extraction is what the pipeline is compared with.
   Notation: rv = 3-vectors over R; rdot/rcross/rscale/rnorm; qrot a b c d = rotation of the unit quaternion (a,b,c,d);
   lists are innermost layer first; sarvas is in units of mu0/(4 pi). *)
From Coq Require Import Reals List ZArith Lra.
From OM Require Import Base.Ops Geom.SphereVec Geom.Sphere Geom.SphereProofs Geom.SpherePotProofs Geom.SphereMoreProofs.
Import ListNotations.
Local Open Scope R_scope.

(* --- MEG oracle (Sarvas) --- *)
Theorem sarvas_radial_dipole_zero : forall q r0 r : rv,
  rcross q r0 = rzero -> sarvas ROps_c01 q r0 r = rzero.
Proof. exact sarvas_radial_zero. Qed.
Print Assumptions sarvas_radial_dipole_zero.

(* by typing: the oracle takes the dipole and the sensor position only -- no conductivity, no radius *)
Theorem sarvas_has_no_conductivity_argument :
  forall (sigmas1 sigmas2 radii1 radii2 : list R) (q r0 r : rv),
  (fun (_ _ : list R) => (sarvas ROps_c01 : rv -> rv -> rv -> rv) q r0 r) sigmas1 radii1
  = (fun (_ _ : list R) => sarvas ROps_c01 q r0 r) sigmas2 radii2.
Proof. reflexivity. Qed.
Print Assumptions sarvas_has_no_conductivity_argument.

Theorem radial_component_primary_only : forall q r0 r : rv, rnorm r0 < rnorm r ->
  rdot r (sarvas ROps_c01 q r0 r) = rdot r (biot_savart_primary ROps_c01 q r0 r).
Proof. exact sarvas_radial_component. Qed.
Print Assumptions radial_component_primary_only.

Theorem sarvas_rigid : forall a b c d : R, a*a + b*b + c*c + d*d = 1 -> forall q r0 r : rv,
  sarvas ROps_c01 (qrot a b c d q) (qrot a b c d r0) (qrot a b c d r) = qrot a b c d (sarvas ROps_c01 q r0 r).
Proof. exact sarvas_rot. Qed.
Print Assumptions sarvas_rigid.

Theorem sarvas_scale : forall (q r0 r : rv) (s : R), 0 < s -> rnorm r0 < rnorm r ->
  sarvas ROps_c01 q (rscale s r0) (rscale s r) = rscale (/ (s * s)) (sarvas ROps_c01 q r0 r).
Proof. exact sarvas_scale_len. Qed.
Print Assumptions sarvas_scale.

(* --- EEG oracle (N-layer series) --- *)
Theorem sphere_pot_rigid : forall a b c d : R, a*a + b*b + c*c + d*d = 1 ->
  forall (radii sigmas : list R) (q r0 r : rv) (nterms : nat),
  sphere_pot ROps_c01 radii sigmas (qrot a b c d q) (qrot a b c d r0) (qrot a b c d r) nterms
  = sphere_pot ROps_c01 radii sigmas q r0 r nterms.
Proof. exact sphere_pot_rot. Qed.
Print Assumptions sphere_pot_rigid.

Theorem sphere_pot_scale_length : forall (radii sigmas : list R) (q r0 r : rv) (nterms : nat) (s : R),
  0 < s -> radii <> [] -> outer_radius ROps_c01 radii <> 0 -> rnorm r <> 0 ->
  sphere_pot ROps_c01 (map (Rmult s) radii) sigmas q (rscale s r0) (rscale s r) nterms
  = / (s * s) * sphere_pot ROps_c01 radii sigmas q r0 r nterms.
Proof. exact sphere_pot_scale_len. Qed.
Print Assumptions sphere_pot_scale_length.

Theorem sphere_pot_scale_sigma : forall (radii sigmas : list R) (q r0 r : rv) (nterms : nat) (k : R),
  k <> 0 -> sigmas <> [] -> Forall (fun x => x <> 0) sigmas ->
  sphere_pot ROps_c01 radii (map (Rmult k) sigmas) q r0 r nterms = / k * sphere_pot ROps_c01 radii sigmas q r0 r nterms.
Proof. exact sphere_pot_scale_sig. Qed.
Print Assumptions sphere_pot_scale_sigma.

(* the layer recursion solves the interface conditions (continuity of V and of sigma dV/dr), degree by degree *)
Theorem layer_step_interface_conditions : forall (n : nat) (x s a b : R),
  fpow_pos ROps_c01 x (Pos.of_succ_nat (2 * n)) <> 0 ->
  let rho := fpow_pos ROps_c01 x (Pos.of_succ_nat (2 * n)) in
  let '(a', b') := layer_step ROps_c01 n (x, s) (a, b) in
  a' + b' / rho = a + b / rho /\
  INR n * a' - (INR n + 1) * (b' / rho) = s * (INR n * a - (INR n + 1) * (b / rho)).
Proof. exact layer_step_conditions. Qed.
Print Assumptions layer_step_interface_conditions.

Theorem outer_surface_zero_normal_current : forall n : nat,
  let '(a, b) := layer_ab ROps_c01 [] n in INR n * a - (INR n + 1) * b = 0.
Proof. exact layer_start_neumann. Qed.
Print Assumptions outer_surface_zero_normal_current.

(* layers of equal conductivity are invisible: any N-layer model with one conductivity is the homogeneous sphere *)
Theorem equal_conductivities_collapse : forall (radii sigmas : list R) (sg : R) (q r0 r : rv) (nterms : nat),
  sg <> 0 -> sigmas <> [] -> Forall (eq sg) sigmas ->
  sphere_pot ROps_c01 radii sigmas q r0 r nterms = sphere_pot ROps_c01 [outer_radius ROps_c01 radii] [sg] q r0 r nterms.
Proof. exact equal_sigma_collapse. Qed.
Print Assumptions equal_conductivities_collapse.

(* one layer: coefficient (2n+1)/n of the classical homogeneous-sphere series; centred dipole = closed form *)
Theorem one_layer_series_coefficient : forall n : nat, (0 < n)%nat ->
  sphere_coef ROps_c01 [] n = (2 * INR n + 1) / INR n.
Proof. exact one_layer_coef. Qed.
Print Assumptions one_layer_series_coefficient.

Theorem legendre_rec_spec : forall x : R,
  legendre ROps_c01 0 x = 1 /\ legendre ROps_c01 1 x = x /\
  (forall n : nat, (INR (S n) + 1) * legendre ROps_c01 (S (S n)) x =
                   (2 * INR (S n) + 1) * x * legendre ROps_c01 (S n) x - INR (S n) * legendre ROps_c01 n x) /\
  legendre_d ROps_c01 0 x = 0 /\ legendre_d ROps_c01 1 x = 1 /\
  (forall n : nat, legendre_d ROps_c01 (S (S n)) x =
                   x * legendre_d ROps_c01 (S n) x + (INR (S n) + 1) * legendre ROps_c01 (S n) x).
Proof. exact legendre_spec. Qed.
Print Assumptions legendre_rec_spec.

(* the recursion for P_n' really is the derivative of the Legendre polynomial computed by the three-term recursion *)
Theorem legendre_d_is_derivative : forall (n : nat) (x : R),
  derivable_pt_lim (fun y => legendre ROps_c01 n y) x (legendre_d ROps_c01 n x).
Proof. exact legendre_d_derivative. Qed.
Print Assumptions legendre_d_is_derivative.

(* the accumulator loop computes  acc + sum_i c_i (qr d_(n+i) - qw d_(n+i-1))  with d = solid Legendre derivatives *)
Theorem series_computes_stated_sum : forall (cs : list R) (t m2 qr qw : R) (k : nat) (acc : R),
  series ROps_c01 cs t m2 qr qw (S k) (leg_state ROps_c01 t m2 k) acc = acc + series_sum cs t m2 qr qw (S k).
Proof. exact series_is_sum. Qed.
Print Assumptions series_computes_stated_sum.

(* sanity of the whole chain against the closed form of the homogeneous sphere: for a dipole at the centre the series
   (any number of terms >= 1) equals the closed form 3 q.r/(4 pi sigma R^2 |r|) *)
Theorem one_layer_series_first_terms : forall (Ro sg : R) (q r : rv) (nterms : nat),
  0 < Ro -> rnorm r <> 0 -> (1 <= nterms)%nat ->
  sphere_pot ROps_c01 [Ro] [sg] q rzero r nterms = homog_closed ROps_c01 Ro sg q rzero r.
Proof. exact centre_dipole_closed_form. Qed.
Print Assumptions one_layer_series_first_terms.

(* both oracles are linear in the dipole moment (superposition; ties C01 to C08) *)
Theorem sarvas_linear_in_moment : forall (a b : R) (q1 q2 r0 r : rv),
  sarvas ROps_c01 (radd (rscale a q1) (rscale b q2)) r0 r
  = radd (rscale a (sarvas ROps_c01 q1 r0 r)) (rscale b (sarvas ROps_c01 q2 r0 r)).
Proof. exact sarvas_linear. Qed.
Print Assumptions sarvas_linear_in_moment.

Theorem sphere_pot_linear_in_moment : forall (radii sigmas : list R) (a b : R) (q1 q2 r0 r : rv) (nterms : nat),
  sphere_pot ROps_c01 radii sigmas (radd (rscale a q1) (rscale b q2)) r0 r nterms
  = a * sphere_pot ROps_c01 radii sigmas q1 r0 r nterms + b * sphere_pot ROps_c01 radii sigmas q2 r0 r nterms.
Proof. exact sphere_pot_linear. Qed.
Print Assumptions sphere_pot_linear_in_moment.

(* the potential oracle evaluates on the outer surface in the direction of r: |r| does not matter *)
Theorem sphere_pot_direction_only : forall (radii sigmas : list R) (q r0 r : rv) (nterms : nat) (s : R),
  0 < s -> rnorm r <> 0 ->
  sphere_pot ROps_c01 radii sigmas q r0 (rscale s r) nterms = sphere_pot ROps_c01 radii sigmas q r0 r nterms.
Proof. exact sphere_pot_direction. Qed.
Print Assumptions sphere_pot_direction_only.

Theorem closed_forms_rigid : forall a b c d : R, a*a + b*b + c*c + d*d = 1 -> forall (Ro sg : R) (q r0 r : rv),
  homog_closed ROps_c01 Ro sg (qrot a b c d q) (qrot a b c d r0) (qrot a b c d r) = homog_closed ROps_c01 Ro sg q r0 r /\
  infinite_pot ROps_c01 sg (qrot a b c d q) (qrot a b c d r0) (qrot a b c d r) = infinite_pot ROps_c01 sg q r0 r.
Proof. exact (fun a b c d U Ro sg q r0 r => conj (homog_closed_rot a b c d U Ro sg q r0 r) (infinite_pot_rot a b c d U sg q r0 r)). Qed.
Print Assumptions closed_forms_rigid.

(* hypotheses are satisfiable: a rotation that is not the identity, a source inside the sensor sphere *)
Example rotation_exists : (1/2)*(1/2) + (1/2)*(1/2) + (1/2)*(1/2) + (1/2)*(1/2) = 1 /\
  qrot (1/2) (1/2) (1/2) (1/2) (V3 1 0 0) = V3 0 1 0.
Proof. split; [lra|]. unfold qrot; cbn [vx vy vz]. f_equal; lra. Qed.
Example radial_dipole_exists : rcross (V3 0 0 2) (V3 0 0 (1/2)) = rzero.
Proof. unfold sv_cross, sv_zero; cbn. f_equal; ring. Qed.
