(* C02 - rigid-motion invariance.  Statements over the real-number instance (Base/OpsR.v) of the kernel models
   of Geom/Kernels.v / Geom/Quadrature.v (transcriptions of the C++ kernels, tied to the source by C16's
   correspondence and by the moved-argument runs of checks/c02.py).  `app g` moves a point, `rot g` a direction. *)
From Coq Require Import Reals List QArith.
From OM Require Import Base.Ops Base.Vec3 Base.OpsR Base.Rigid Geom.Kernels Geom.Quadrature
                       Geom.RigidKernels Geom.Decisions Geom.RigidDecisions Geom.GaussSums Geom.Assembly Geom.RigidAssembly.
Local Open Scope R_scope.

(* ---- rigid maps -------------------------------------------------------------------------------------------- *)
Theorem quaternion_rotation_preserves_dot : forall a b c d, a*a+b*b+c*c+d*d = 1 ->
  forall u v, dotR (qrot a b c d u) (qrot a b c d v) = dotR u v.
Proof. exact qrot_dot. Qed.
Print Assumptions quaternion_rotation_preserves_dot.

Theorem quaternion_rotation_preserves_cross : forall a b c d, a*a+b*b+c*c+d*d = 1 ->
  forall u v, crossR (qrot a b c d u) (qrot a b c d v) = qrot a b c d (crossR u v).
Proof. exact qrot_cross. Qed.
Print Assumptions quaternion_rotation_preserves_cross.

(* every unit quaternion and translation give a `rigid`: the theorems below apply to every motion the generators use *)
Example rigid_of_quaternion_is_rigid : forall a b c d (H : a*a+b*b+c*c+d*d = 1) t p,
  app (rigid_of_quaternion a b c d H t) p = vaddR (qrot a b c d p) t.
Proof. intros; reflexivity. Qed.

Theorem rigid_composition : forall g h p, app (rigid_comp g h) p = app g (app h p).
Proof. exact rigid_comp_app. Qed.
Print Assumptions rigid_composition.

Theorem rigid_injective : forall g p q, app g p = app g q -> p = q.
Proof. exact app_injective. Qed.
Print Assumptions rigid_injective.

Theorem rigid_preserves_distance : forall g p q, normR (vsubR (app g p) (app g q)) = normR (vsubR p q).
Proof. intros; rewrite app_sub, rot_norm; reflexivity. Qed.
Print Assumptions rigid_preserves_distance.

Theorem rigid_preserves_det : forall g a b c, det3R (rot g a) (rot g b) (rot g c) = det3R a b c.
Proof. exact rot_det3. Qed.
Print Assumptions rigid_preserves_det.

(* ---- scalar kernels: K (g args) = K args ---------------------------------------------------------------- *)
Theorem solid_angle_invariant : forall g x v1 v2 v3,
  solid_angle OpsR (app g x) (app g v1) (app g v2) (app g v3) = solid_angle OpsR x v1 v2 v3.
Proof. exact solid_angle_rigid. Qed.
Print Assumptions solid_angle_invariant.

Theorem integral_simplified_green_invariant : forall g p0x n0 p1x n1 p1p0 n10,
  integral_simplified_green OpsR (rot g p0x) n0 (rot g p1x) n1 (rot g p1p0) n10
  = integral_simplified_green OpsR p0x n0 p1x n1 p1p0 n10.
Proof. exact green_rot. Qed.
Print Assumptions integral_simplified_green_invariant.

Theorem analyticS_invariant : forall g v0 v1 v2 x,
  analyticS_f OpsR (analyticS_init OpsR (app g v0) (app g v1) (app g v2)) (app g x)
  = analyticS_f OpsR (analyticS_init OpsR v0 v1 v2) x.
Proof. exact analyticS_f_rigid. Qed.
Print Assumptions analyticS_invariant.

Theorem analyticS_triangle_invariant : forall g v0 v1 v2 x,
  analyticS_f OpsR (analyticS_init_triangle OpsR (app g v0) (app g v1) (app g v2)) (app g x)
  = analyticS_f OpsR (analyticS_init_triangle OpsR v0 v1 v2) x.
Proof. exact analyticS_f_rigid_triangle. Qed.
Print Assumptions analyticS_triangle_invariant.

Theorem triangle_area_invariant : forall g v0 v1 v2,
  triangle_area OpsR (app g v0) (app g v1) (app g v2) = triangle_area OpsR v0 v1 v2.
Proof. exact triangle_area_rigid. Qed.
Print Assumptions triangle_area_invariant.

Theorem triangle_normal_equivariant : forall g v0 v1 v2,
  triangle_normal OpsR (app g v0) (app g v1) (app g v2) = rot g (triangle_normal OpsR v0 v1 v2).
Proof. exact triangle_normal_rigid. Qed.
Print Assumptions triangle_normal_equivariant.

Theorem dipole_potential_invariant : forall g r0 q r,
  dipole_potential OpsR (app g r0) (rot g q) (app g r) = dipole_potential OpsR r0 q r.
Proof. exact dipole_potential_rigid. Qed.
Print Assumptions dipole_potential_invariant.

(* ---- vector kernels expressed w.r.t. the hat functions of the triangle: components invariant ------------- *)
Theorem analyticD3_invariant : forall g v0 v1 v2 x,
  analyticD3_f OpsR (analyticD3_init OpsR (app g v0) (app g v1) (app g v2)) (app g x)
  = analyticD3_f OpsR (analyticD3_init OpsR v0 v1 v2) x.
Proof. exact analyticD3_f_rigid. Qed.
Print Assumptions analyticD3_invariant.

Theorem analyticDipPotDer_invariant : forall g r0 q p0 p1 p2 r,
  analyticDipPotDer_f OpsR (analyticDipPotDer_init OpsR (app g r0) (rot g q) (app g p0) (app g p1) (app g p2)) (app g r)
  = analyticDipPotDer_f OpsR (analyticDipPotDer_init OpsR r0 q p0 p1 p2) r.
Proof. exact analyticDipPotDer_f_rigid. Qed.
Print Assumptions analyticDipPotDer_invariant.

(* ---- spatial vector results: equivariant; their projection on a (moved) sensor direction: invariant ------- *)
Theorem ferguson_term_equivariant : forall g x Vv A B area,
  ferguson_term OpsR (app g x) (app g Vv) (app g A) (app g B) area = rot g (ferguson_term OpsR x Vv A B area).
Proof. exact ferguson_term_rigid. Qed.
Print Assumptions ferguson_term_equivariant.

Theorem operatorFerguson_equivariant : forall g x Vv fan,
  operatorFerguson OpsR (app g x) (app g Vv) (move_fan g fan) = rot g (operatorFerguson OpsR x Vv fan).
Proof. exact operatorFerguson_rigid. Qed.
Print Assumptions operatorFerguson_equivariant.

Theorem sensor_projection_invariant : forall g b n, dotR (rot g b) (rot g n) / normR (rot g n) = dotR b n / normR n.
Proof. exact sensor_projection_rigid. Qed.
Print Assumptions sensor_projection_invariant.

Theorem ferguson_sensor_reading_invariant : forall g x Vv fan n,
  dotR (operatorFerguson OpsR (app g x) (app g Vv) (move_fan g fan)) (rot g n) / normR (rot g n)
  = dotR (operatorFerguson OpsR x Vv fan) n / normR n.
Proof. intros; rewrite operatorFerguson_rigid; apply sensor_projection_rigid. Qed.
Print Assumptions ferguson_sensor_reading_invariant.

Theorem dipole_primary_field_equivariant : forall g q r p,
  let diff := vsubR p r in let diff' := vsubR (app g p) (app g r) in
  crossR (rot g q) (vdivsR diff' (normR diff' * normR diff' * normR diff'))
  = rot g (crossR q (vdivsR diff (normR diff * normR diff * normR diff))).
Proof. exact dipole_primary_field_rigid. Qed.
Print Assumptions dipole_primary_field_equivariant.

(* ---- quadrature --------------------------------------------------------------------------------------------- *)
(* full statement: where a Gauss node of the moved triangle is *)
Theorem gauss_point_affine : forall g p t0 t1 t2,
  quad_node OpsR p (app g t0) (app g t1) (app g t2)
  = vaddR (app g (quad_node OpsR p t0 t1 t2)) (vscaleR (Q2R (qsum p) - 1) (tr g)).
Proof. exact quad_node_defect. Qed.
Print Assumptions gauss_point_affine.

(* equivariance holds exactly when the barycentric coordinates sum to 1 ... *)
Theorem gauss_point_equivariant_partial : forall g p t0 t1 t2, (qsum p == 1)%Q ->
  quad_node OpsR p (app g t0) (app g t1) (app g t2) = app g (quad_node OpsR p t0 t1 t2).
Proof. intros g p t0 t1 t2 H; apply quad_node_rigid; apply bsum_one_iff; exact H. Qed.
Print Assumptions gauss_point_equivariant_partial.

(* ... or for pure rotations ... *)
Theorem gauss_point_equivariant_rotation : forall g p t0 t1 t2, tr g = vconstR 0 ->
  quad_node OpsR p (app g t0) (app g t1) (app g t2) = app g (quad_node OpsR p t0 t1 t2).
Proof. exact quad_node_rotation. Qed.
Print Assumptions gauss_point_equivariant_rotation.

(* ... which the decimal tables of integrator.h (regenerated from the source) do not satisfy exactly: *)
Theorem gauss_tables_sum_not_exactly_one : exists p, In p (rule_of_order 3) /\ ~ (qsum p == 1)%Q.
Proof. exact gauss_sum_not_one. Qed.
Print Assumptions gauss_tables_sum_not_exactly_one.

(* ... but within 2e-15: the node of a translated triangle is off by at most 2e-15 * translation *)
Theorem gauss_tables_sum_defect_bound :
  forallb defect_ok (rule_of_order 1 ++ rule_of_order 2 ++ rule_of_order 3) = true.
Proof. exact gauss_sum_defect_small. Qed.
Print Assumptions gauss_tables_sum_defect_bound.

Example gauss_hypothesis_satisfiable : (qsum ((1#3), (1#3), (1#3), (1#2)) == 1)%Q.
Proof. reflexivity. Qed.

Theorem triangle_integration_invariant : forall g (T : Type) (rs : RSpace R T) rule,
  Forall (fun p => bsum p = 1) rule ->
  forall f f' : V3 -> T, (forall p, f' (app g p) = f p) ->
  forall t0 t1 t2,
  triangle_integration_rule OpsR rs rule f' (app g t0) (app g t1) (app g t2)
  = triangle_integration_rule OpsR rs rule f t0 t1 t2.
Proof. intros; apply triangle_integration_rigid; assumption. Qed.
Print Assumptions triangle_integration_invariant.

(* same stopping decisions at every level => same refinement tree and value *)
Theorem adaptive_integration_invariant : forall g (T : Type) (rs : RSpace R T) rule,
  Forall (fun p => bsum p = 1) rule ->
  forall f f' : V3 -> T, (forall p, f' (app g p) = f p) ->
  forall tol level t0 t1 t2 coarse,
  adaptive_integration_rule OpsR rs rule tol f' (app g t0) (app g t1) (app g t2) coarse level
  = adaptive_integration_rule OpsR rs rule tol f t0 t1 t2 coarse level.
Proof. intros; apply adaptive_integration_rigid; assumption. Qed.
Print Assumptions adaptive_integration_invariant.

(* instance: the S kernel integrated over a second triangle (one entry of the S block) *)
Theorem S_entry_invariant : forall g rule, Forall (fun p => bsum p = 1) rule -> forall v0 v1 v2 t0 t1 t2,
  triangle_integration_rule OpsR (RS_scalar OpsR) rule
     (analyticS_f OpsR (analyticS_init_triangle OpsR (app g v0) (app g v1) (app g v2))) (app g t0) (app g t1) (app g t2)
  = triangle_integration_rule OpsR (RS_scalar OpsR) rule
     (analyticS_f OpsR (analyticS_init_triangle OpsR v0 v1 v2)) t0 t1 t2.
Proof. intros; apply triangle_integration_rigid; [assumption | intros; apply analyticS_f_rigid_triangle]. Qed.
Print Assumptions S_entry_invariant.

Theorem D_entry_invariant : forall g rule, Forall (fun p => bsum p = 1) rule -> forall v0 v1 v2 t0 t1 t2,
  triangle_integration_rule OpsR (RS_vec3 OpsR) rule
     (analyticD3_f OpsR (analyticD3_init OpsR (app g v0) (app g v1) (app g v2))) (app g t0) (app g t1) (app g t2)
  = triangle_integration_rule OpsR (RS_vec3 OpsR) rule
     (analyticD3_f OpsR (analyticD3_init OpsR v0 v1 v2)) t0 t1 t2.
Proof. intros; apply triangle_integration_rigid; [assumption | intros; apply analyticD3_f_rigid]. Qed.
Print Assumptions D_entry_invariant.

Theorem dipole_rhs_entries_invariant : forall g rule, Forall (fun p => bsum p = 1) rule ->
  forall tol level r0 q t0 t1 t2 c1 c2,
  adaptive_integration_rule OpsR (RS_scalar OpsR) rule tol (dipole_potential OpsR (app g r0) (rot g q)) (app g t0) (app g t1) (app g t2) c1 level
  = adaptive_integration_rule OpsR (RS_scalar OpsR) rule tol (dipole_potential OpsR r0 q) t0 t1 t2 c1 level
  /\
  adaptive_integration_rule OpsR (RS_vec3 OpsR) rule tol
     (analyticDipPotDer_f OpsR (analyticDipPotDer_init OpsR (app g r0) (rot g q) (app g t0) (app g t1) (app g t2))) (app g t0) (app g t1) (app g t2) c2 level
  = adaptive_integration_rule OpsR (RS_vec3 OpsR) rule tol
     (analyticDipPotDer_f OpsR (analyticDipPotDer_init OpsR r0 q t0 t1 t2)) t0 t1 t2 c2 level.
Proof.
  intros; split; apply adaptive_integration_rigid; try assumption; intros.
  - apply dipole_potential_rigid.
  - apply analyticDipPotDer_f_rigid.
Qed.
Print Assumptions dipole_rhs_entries_invariant.

(* ---- frame-sensitive decisions ----------------------------------------------------------------------------- *)
Theorem interface_solid_angle_invariant : forall g p oms,
  interface_solid_angle OpsR (app g p) (move_omeshes g oms) = interface_solid_angle OpsR p oms.
Proof. exact interface_solid_angle_rigid. Qed.
Print Assumptions interface_solid_angle_invariant.

Theorem domain_contains_invariant : forall g p bs,
  domain_contains OpsR (app g p) (move_domain g bs) = domain_contains OpsR p bs.
Proof. exact domain_contains_rigid. Qed.
Print Assumptions domain_contains_invariant.

Theorem domain_lookup_invariant : forall g p ds k,
  first_domain OpsR (app g p) (map (move_domain g) ds) k = first_domain OpsR p ds k.
Proof. exact first_domain_rigid. Qed.
Print Assumptions domain_lookup_invariant.

Theorem dist_point_interface_argmin_invariant : forall g (dist dist' : @Decisions.tri R -> R) ts,
  (forall t, dist' (move_tri g t) = dist t) ->
  argmin_first OpsR (map dist' (map (move_tri g) ts)) = argmin_first OpsR (map dist ts).
Proof. exact nearest_triangle_rigid. Qed.
Print Assumptions dist_point_interface_argmin_invariant.

Theorem orientation_repair_probe_independent : forall (oms : list (R * list (@Decisions.tri R))) (inside : V3 -> Prop),
  (forall p q, inside p -> inside q -> interface_solid_angle OpsR p oms = interface_solid_angle OpsR q oms) ->
  forall (decide : R -> bool) p q, inside p -> inside q ->
  decide (interface_solid_angle OpsR p oms) = decide (interface_solid_angle OpsR q oms).
Proof. exact orientation_probe_independent. Qed.
Print Assumptions orientation_repair_probe_independent.

(* ---- assembly level (C10's model of Details::HeadMatrix + deflate, kernels as parameters) ------------------- *)
(* the assembly reads coordinates only through dot products of edge vectors (BlocksBase::N): with the kernel values
   Sk, Dk and the areas of the moved frame equal to those of the original frame (S_entry_invariant, D_entry_invariant,
   triangle_area_invariant) every entry of the head matrix is the same *)
Theorem headmat_entries_invariant : forall g (pos : N -> R * R * R) (area : N -> R) geo K Sk Dk i j,
  mget OpsR (headmat OpsR K (moved_pos g pos) area Sk Dk geo) i j = mget OpsR (headmat OpsR K pos area Sk Dk geo) i j.
Proof. exact headmat_entries_moved. Qed.
Print Assumptions headmat_entries_invariant.

Theorem headmat_N_edge_products_invariant : forall g pos t1 v1 t2 v2,
  Assembly.dot OpsR (CB OpsR (moved_pos g pos) t1 v1) (CB OpsR (moved_pos g pos) t2 v2)
  = Assembly.dot OpsR (CB OpsR pos t1 v1) (CB OpsR pos t2 v2).
Proof. exact CB_dot_moved. Qed.
Print Assumptions headmat_N_edge_products_invariant.
