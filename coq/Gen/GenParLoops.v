(* GENERATED: the configuration the suite is built with (g++). *)
From OM Require Export Gen.GenParLoops_gcc.
