(* C07/C19 -- token-level model of OpenMEEGMaths/include/BrainVisaTextureIO.H (repaired reader: the stream is
   tested after the header and after each column).  A file is its list of lines, a line its whitespace-separated
   tokens; a token shows what `>> unsigned` and `>> double` deliver when they consume it whole (None: the
   extraction fails) and whether it starts with the magic word "ascii".  Model only: no proofs here. *)
From OM Require Import Base.Lists Maths.BinCodec.
Local Open Scope Z_scope.

Record xtok := { x_int : option Z; x_dbl : option Z; x_magic : bool }.
Definition xstream := list (list xtok).      (* remaining lines; the first one is the rest of the current line *)

Definition skip_line (s : xstream) : xstream := tl s.
(* skip white space (newlines included) and take the next token *)
Fixpoint next_tok (s : xstream) : option (xtok * xstream) :=
  match s with
  | [] => None
  | [] :: r => next_tok r
  | (t :: l) :: r => Some (t, l :: r)
  end.
Definition next_uint (s : xstream) : option (Z * xstream) :=
  match next_tok s with Some (t, s') => match x_int t with Some n => Some (n, s') | None => None end | None => None end.
Definition next_dbl (s : xstream) : option (Z * xstream) :=
  match next_tok s with Some (t, s') => match x_dbl t with Some w => Some (w, s') | None => None end | None => None end.

Fixpoint next_dbls (n : nat) (s : xstream) : option (list Z * xstream) :=
  match n with
  | O => Some ([], s)
  | S n' => match next_dbl s with
            | Some (w, s1) => match next_dbls n' s1 with Some (ws, s2) => Some (w :: ws, s2) | None => None end
            | None => None
            end
  end.

(* `is >> nlin; if (nlin==0) is >> nlin;` *)
Definition uint_hack (s : xstream) : option (Z * xstream) :=
  match next_uint s with
  | Some (n, s') => if n =? 0 then next_uint s' else Some (n, s')
  | None => None
  end.

(* read_header: magic, two skipped lines, ncol, look ahead for nlin, come back *)
Definition tex_header (s : xstream) : option (Z * Z * xstream) :=
  match next_tok s with
  | Some (m, s1) =>
      if x_magic m then
        let s2 := skip_line (skip_line s1) in
        match next_uint s2 with
        | Some (ncol, s3) =>
            let pos := skip_line s3 in
            match uint_hack (skip_line pos) with
            | Some (nlin, _) => Some (nlin, ncol, pos)
            | None => None
            end
        | None => None
        end
      else None
  | None => None
  end.

(* the columns; fuel = number of lines (a column consumes at least one) *)
Fixpoint tex_columns (fuel : nat) (ncol : Z) (nlin : nat) (s : xstream) : res (list (list Z)) :=
  if ncol <=? 0 then Ok []
  else match fuel with
       | O => Err EData
       | S fuel' =>
           match uint_hack (skip_line s) with
           | None => Err EData
           | Some (ind, s1) =>
               if ind <? 0 then Err EUnmodelled else
               match next_dbls nlin s1 with
               | None => Err EData
               | Some (col, s2) =>
                   match tex_columns fuel' (ncol - 1) nlin (skip_line s2) with
                   | Ok cols => Ok (col :: cols)
                   | Err e => Err e
                   end
               end
           end
       end.

Definition tex_decode (s : xstream) : res obj :=
  match tex_header s with
  | None => Err EHeader
  | Some (nlin, ncol, pos) =>
      if (nlin <? 0) || (ncol <? 0) then Err EUnmodelled    (* x_int = Some (-1): `>> unsigned` stops inside the token *)
      else if ALLOC_MAX <=? nlin * ncol then Err EBadAlloc
      else match tex_columns (S (length pos)) ncol (Z.to_nat nlin) pos with
           | Ok cols => Ok (OFull nlin ncol (concat cols))
           | Err e => Err e
           end
  end.

(* ---- write: "ascii" "FLOAT" ncol, then per column: j, nlin, the values ---- *)
Inductive xw := XMagic | XWord | XInt (n : Z) | XVal (w : Z).
Fixpoint chunks {A} (n k : nat) (vs : list A) : list (list A) :=
  match k with O => [] | S k' => firstn n vs :: chunks n k' (skipn n vs) end.
Fixpoint tex_cols_enc (nl : Z) (j : Z) (cols : list (list Z)) : list (list xw) :=
  match cols with
  | [] => []
  | c :: t => [XInt j] :: [XInt nl] :: map XVal c :: tex_cols_enc nl (j + 1) t
  end.
Definition tex_encode (nl nc : Z) (vs : list Z) : list (list xw) :=
  [XMagic] :: [XWord] :: [XInt nc] :: tex_cols_enc nl 0 (chunks (Z.to_nat nl) (Z.to_nat nc) vs).

Section TexView.
  Variable rnd6 : Z -> Z.
  Variable dofz : Z -> Z.
  Variable vint : Z -> option Z.      (* what `>> unsigned` makes of a printed value: irrelevant, left arbitrary *)
  Definition xview_tok (t : xw) : xtok :=
    match t with
    | XMagic => {| x_int := None; x_dbl := None; x_magic := true |}
    | XWord => {| x_int := None; x_dbl := None; x_magic := false |}
    | XInt n => {| x_int := Some n; x_dbl := Some (dofz n); x_magic := false |}
    | XVal w => {| x_int := vint w; x_dbl := Some (rnd6 w); x_magic := false |}
    end.
  Definition xview (f : list (list xw)) : xstream := map (map xview_tok) f.
End TexView.
