(* Lemmas about the binary codec model (C07 round trip / ambiguity, C19 prefix rejection). *)
From OM Require Import Base.Lists Maths.BinCodec.
Require Import ZifyBool.
Local Open Scope Z_scope.
Ltac Zify.zify_post_hook ::= Z.div_mod_to_equations.

Lemma W32_val : W32 = 4294967296. Proof. reflexivity. Qed.
Lemma W64_val : W64 = 18446744073709551616. Proof. reflexivity. Qed.
Lemma ALLOC_val : ALLOC_MAX = 1152921504606846976. Proof. reflexivity. Qed.
Global Opaque W32 W64 ALLOC_MAX.

Lemma u32le_length n : length (u32le n) = 4%nat. Proof. reflexivity. Qed.
Lemma u64le_length w : length (u64le w) = 8%nat. Proof. reflexivity. Qed.

Lemma rd32_u32le n r : 0 <= n < W32 -> rd32 (u32le n ++ r) = Some (n, r).
Proof.
  intros H. rewrite W32_val in H. unfold u32le, rd32. cbn [app]. f_equal. f_equal. lia.
Qed.

Lemma rd64_u64le w r : word w -> rd64 (u64le w ++ r) = Some (w, r).
Proof.
  unfold word. rewrite W64_val. intros H. unfold rd64, u64le. rewrite <- app_assoc.
  rewrite rd32_u32le by (rewrite W32_val; lia).
  rewrite rd32_u32le by (rewrite W32_val; lia).
  f_equal. f_equal. rewrite W32_val. lia.
Qed.

Lemma flat_u64_length vs : length (flat_map u64le vs) = (8 * length vs)%nat.
Proof. induction vs as [|v t IH]; [reflexivity|]. cbn [flat_map]. rewrite app_length, u64le_length, IH. cbn [length]. lia. Qed.

Lemma enc_entry_length e : length (enc_entry e) = 16%nat.
Proof. destruct e as [[i j] v]. reflexivity. Qed.
Lemma flat_entry_length es : length (flat_map enc_entry es) = (16 * length es)%nat.
Proof. induction es as [|e t IH]; [reflexivity|]. cbn [flat_map]. rewrite app_length, enc_entry_length, IH. cbn [length]. lia. Qed.

Lemma rd_words_enc vs r : Forall word vs -> rd_words (length vs) (flat_map u64le vs ++ r) = Some vs.
Proof.
  induction 1 as [|v t Hv Ht IH]; [reflexivity|].
  cbn [length rd_words flat_map]. rewrite <- app_assoc, rd64_u64le by assumption. rewrite IH. reflexivity.
Qed.

(* file lengths *)
Lemma encode_length o :
  Z.of_nat (length (encode o)) =
  match o with
  | OVec vs => 4 + 8 * Z.of_nat (length vs)
  | OFull _ _ vs => 8 + 8 * Z.of_nat (length vs)
  | OSym _ vs => 4 + 8 * Z.of_nat (length vs)
  | OSparse _ _ es => 8 + 16 * Z.of_nat (length es)
  end.
Proof.
  destruct o; cbn [encode]; rewrite ?app_length, ?u32le_length, ?flat_u64_length, ?flat_entry_length; lia.
Qed.

(* the size tests: arithmetic core *)
Lemma symsize_small n : 0 <= n -> n * (n + 1) < W32 -> symsize n = 4 * (n * (n + 1)).
Proof.
  intros H0 H. unfold symsize. rewrite W32_val in *. rewrite W64_val.
  assert (0 <= n * (n + 1)) by nia.
  remember (n * (n + 1)) as p. lia.
Qed.

Lemma symsize_mod8 ui : 0 <= ui < W32 -> symsize ui mod 8 = 0.
Proof.
  intros H. unfold symsize. rewrite W64_val.
  assert (E : exists q, ui * (ui + 1) = 2 * q).
  { destruct (Z.even ui) eqn:Ev.
    + apply Z.even_spec in Ev. destruct Ev as [h ->]. exists (h * (2 * h + 1)). ring.
    + assert (Od : Z.odd ui = true) by (rewrite <- Z.negb_even, Ev; reflexivity).
      apply Z.odd_spec in Od. destruct Od as [h ->]. exists ((2 * h + 1) * (h + 1)). ring. }
  destruct E as [q ->]. remember (2 * q * 8) as x.
  assert (x = 16 * q) by lia. clear Heqx. subst x. lia.
Qed.

Lemma sym_n_even n : 0 <= n -> (n * (n + 1)) mod 2 = 0.
Proof.
  intros H. destruct (Z.even n) eqn:Ev.
  - apply Z.even_spec in Ev. destruct Ev as [h ->]. replace (2 * h * (2 * h + 1)) with (2 * (h * (2 * h + 1))) by ring.
    rewrite Z.mul_comm, Z_mod_mult. reflexivity.
  - assert (Od : Z.odd n = true) by (rewrite <- Z.negb_even, Ev; reflexivity).
    apply Z.odd_spec in Od. destruct Od as [h ->].
    replace ((2 * h + 1) * (2 * h + 1 + 1)) with (2 * ((2 * h + 1) * (h + 1))) by ring.
    rewrite Z.mul_comm, Z_mod_mult. reflexivity.
Qed.

(* ---- info on encoded objects ---- *)
Lemma info_vec vs : Z.of_nat (length vs) < W32 ->
  info (encode (OVec vs)) = Ok ({| i_nl := Z.of_nat (length vs); i_nc := 1; i_st := SFull; i_dim := 1 |}, flat_map u64le vs).
Proof.
  intros H. unfold info. rewrite encode_length. cbn [encode]. rewrite rd32_u32le by lia.
  replace (4 + 8 * Z.of_nat (length vs) - 4 =? Z.of_nat (length vs) * 8) with true by lia. reflexivity.
Qed.

Lemma info_full nl nc vs : 0 <= nl < W32 -> 0 <= nc < W32 -> Z.of_nat (length vs) = nl * nc -> nl * nc < ALLOC_MAX ->
  info (encode (OFull nl nc vs)) = Ok ({| i_nl := nl; i_nc := nc; i_st := SFull; i_dim := 2 |}, flat_map u64le vs).
Proof.
  intros Hl Hc Hn Ha. unfold info. rewrite encode_length. cbn [encode]. rewrite rd32_u32le by lia.
  rewrite Hn. remember (nl * nc) as p.
  replace (8 + 8 * p - 4 =? nl * 8) with false by lia.
  assert (Hs := symsize_mod8 nl Hl).
  replace (8 + 8 * p - 4 =? symsize nl) with false by lia.
  rewrite rd32_u32le by lia. rewrite <- Heqp.
  replace ((8 + 8 * p - 4 - 4) mod W64 =? (p * 8) mod W64) with true.
  2:{ replace (8 + 8 * p - 4 - 4) with (p * 8) by lia. lia. }
  reflexivity.
Qed.

Lemma info_sym n vs : 2 <= n -> n * (n + 1) < W32 -> Z.of_nat (length vs) = n * (n + 1) / 2 ->
  info (encode (OSym n vs)) = Ok ({| i_nl := n; i_nc := n; i_st := SSym; i_dim := 2 |}, flat_map u64le vs).
Proof.
  intros H2 Hw Hn. unfold info. rewrite encode_length. cbn [encode].
  assert (n < W32) by (rewrite W32_val in *; nia).
  rewrite rd32_u32le by lia. rewrite symsize_small by lia.
  assert (He := sym_n_even n ltac:(lia)). rewrite Hn. remember (n * (n + 1)) as p.
  assert (2 * n < p) by nia.
  replace (4 + 8 * (p / 2) - 4 =? n * 8) with false by lia.
  replace (4 + 8 * (p / 2) - 4 =? 4 * p) with true by lia. reflexivity.
Qed.

Lemma info_sym01 n vs : (n = 0 \/ n = 1) -> Z.of_nat (length vs) = n * (n + 1) / 2 ->
  info (encode (OSym n vs)) = Ok ({| i_nl := n; i_nc := 1; i_st := SFull; i_dim := 1 |}, flat_map u64le vs).
Proof.
  intros Hn Hl. unfold info. rewrite encode_length. cbn [encode].
  rewrite rd32_u32le by (rewrite W32_val; lia). rewrite Hl.
  replace (4 + 8 * (n * (n + 1) / 2) - 4 =? n * 8) with true by (destruct Hn; subst n; reflexivity).
  reflexivity.
Qed.

Lemma info_sparse nl nc es : 0 <= nl < W32 -> 0 <= nc < W32 ->
  info (encode (OSparse nl nc es)) =
  Ok ({| i_nl := nl; i_nc := nc;
         i_st := if ((16 * Z.of_nat (length es)) mod W64 =? (nl * nc * 8) mod W64) then SFull else SSparse; i_dim := 2 |},
      flat_map enc_entry es).
Proof.
  intros Hl Hc. unfold info. rewrite encode_length. cbn [encode]. rewrite rd32_u32le by lia.
  remember (Z.of_nat (length es)) as k.
  replace (8 + 16 * k - 4 =? nl * 8) with false by lia.
  assert (Hs := symsize_mod8 nl Hl).
  replace (8 + 16 * k - 4 =? symsize nl) with false by lia.
  rewrite rd32_u32le by lia.
  replace (8 + 16 * k - 4 - 4) with (16 * k) by lia. reflexivity.
Qed.

Lemma sparse_amb_small nl nc k : 0 <= k < ALLOC_MAX -> 0 <= nl * nc < 2 * ALLOC_MAX ->
  ((16 * k) mod W64 = (nl * nc * 8) mod W64 <-> 2 * k = nl * nc).
Proof.
  rewrite W64_val, ALLOC_val. intros Hk Hp. remember (nl * nc) as p. clear Heqp. split; intros H; lia.
Qed.

(* ---- sparse entries ---- *)
Lemma key_ltb_trans a b c : key_ltb a b = true -> key_ltb b c = true -> key_ltb a c = true.
Proof. unfold key_ltb. destruct a, b, c; cbn [fst snd]. lia. Qed.

Lemma map_set_append acc k v :
  Forall (fun e => key_ltb (fst e) k = true) acc -> map_set acc k v = acc ++ [(k, v)].
Proof.
  induction 1 as [|[k' v'] t Hk Ht IH]; [reflexivity|].
  cbn [map_set app fst] in *.
  replace (key_eqb k k') with false by (unfold key_eqb, key_ltb in *; destruct k, k'; cbn [fst snd] in *; lia).
  replace (key_ltb k k') with false by (unfold key_ltb in *; destruct k, k'; cbn [fst snd] in *; lia).
  rewrite IH. reflexivity.
Qed.

Lemma sorted_head_lt e t : sorted_keys (e :: t) -> Forall (fun e' => key_ltb (fst e) (fst e') = true) t.
Proof.
  revert e. induction t as [|e2 t IH]; intros e H; [constructor|].
  destruct e as [k v], e2 as [k2 v2]. cbn [sorted_keys] in H. destruct H as [H1 H2].
  constructor; [exact H1|].
  specialize (IH (k2, v2) H2). cbn [fst] in *.
  eapply Forall_impl; [|exact IH]. intros a Ha. eapply key_ltb_trans; eauto.
Qed.

Lemma sorted_tail e t : sorted_keys (e :: t) -> sorted_keys t.
Proof. destruct e as [k v]. cbn [sorted_keys]. tauto. Qed.

Lemma rd_entry_enc i j v r : 0 <= i < W32 -> 0 <= j < W32 -> word v ->
  rd_entry (enc_entry (i, j, v) ++ r) = EEntry i j v r.
Proof.
  intros Hi Hj Hv. unfold rd_entry.
  replace (is_nil (enc_entry (i, j, v) ++ r)) with false by reflexivity.
  unfold enc_entry. rewrite <- !app_assoc.
  rewrite (Z.mod_small i) by lia. rewrite (Z.mod_small j) by lia.
  rewrite !rd32_u32le by lia. rewrite rd64_u64le by assumption. reflexivity.
Qed.

Lemma rd_entries_enc nl nc es : 0 <= nl < W32 -> 0 <= nc < W32 ->
  forall acc fuel, (length es <= fuel)%nat -> sorted_keys es ->
  Forall (fun e => 0 <= fst (fst e) < nl /\ 0 <= snd (fst e) < nc /\ word (snd e)) es ->
  Forall (fun a => Forall (fun e => key_ltb (fst a) (fst e) = true) es) acc ->
  rd_entries fuel nl nc (flat_map enc_entry es) acc = Ok (acc ++ es).
Proof.
  intros Hl Hc. induction es as [|[[i j] v] t IH]; intros acc fuel Hf Hs Hb Hacc.
  - rewrite app_nil_r. destruct fuel; reflexivity.
  - destruct fuel as [|fuel]; [cbn [length] in Hf; lia|].
    cbn [flat_map rd_entries]. inversion Hb as [|? ? [Hi [Hj Hv]] Hb']; subst. cbn [fst snd] in *.
    rewrite rd_entry_enc by (try assumption; lia).
    replace ((i <? nl) && (j <? nc)) with true by lia.
    rewrite map_set_append.
    2:{ eapply Forall_impl; [|exact Hacc]. intros a Ha. inversion Ha; subst. assumption. }
    rewrite IH.
    + rewrite <- app_assoc. reflexivity.
    + cbn [length] in Hf. lia.
    + eapply sorted_tail; eauto.
    + assumption.
    + apply Forall_app. split.
      * eapply Forall_impl; [|exact Hacc]. intros a Ha. inversion Ha; subst. assumption.
      * constructor; [|constructor]. apply (sorted_head_lt _ _ Hs).
Qed.

(* ---- C07: round trip, ambiguity, no misreading ---- *)
Theorem bin_roundtrip o : wf o -> ~ ambiguous o -> decode_as (kind_of o) (encode o) = Ok o.
Proof.
  destruct o as [vs|nl nc vs|n vs|nl nc es]; cbn [wf ambiguous kind_of]; intros W NA; unfold decode_as.
  - destruct W as [Hn Hw]. rewrite info_vec by assumption. cbn -[Z.mul Z.div Z.modulo Z.leb Z.to_nat Z.add Z.of_nat].
    replace (ALLOC_MAX <=? Z.of_nat (length vs)) with false by (rewrite ALLOC_val, W32_val in *; lia).
    rewrite Nat2Z.id. rewrite <- (app_nil_r (flat_map u64le vs)), rd_words_enc by assumption. reflexivity.
  - destruct W as (Hl & Hc & Hn & Ha & Hw). rewrite info_full by assumption. cbn -[Z.mul Z.div Z.modulo Z.leb Z.to_nat Z.add Z.of_nat].
    replace (ALLOC_MAX <=? nl * nc) with false by lia.
    rewrite <- Hn, Nat2Z.id. rewrite <- (app_nil_r (flat_map u64le vs)), rd_words_enc by assumption. reflexivity.
  - destruct W as (H0 & Hw32 & Hn & Hw).
    assert (2 <= n) by lia. rewrite info_sym by assumption. cbn -[Z.mul Z.div Z.modulo Z.leb Z.to_nat Z.add Z.of_nat].
    assert (n < W32) by (rewrite W32_val in *; nia).
    rewrite (Z.mod_small (n + 1)) by lia.
    rewrite (Z.mod_small (n * (n + 1))) by nia.
    replace (ALLOC_MAX <=? n * (n + 1) / 2) with false
      by (remember (n * (n + 1)) as p; assert (0 <= p) by nia; rewrite ALLOC_val, W32_val in *; lia).
    rewrite <- Hn, Nat2Z.id. rewrite <- (app_nil_r (flat_map u64le vs)), rd_words_enc by assumption. reflexivity.
  - destruct W as (Hl & Hc & Hs & Hb). rewrite info_sparse by assumption.
    replace ((16 * Z.of_nat (length es)) mod W64 =? (nl * nc * 8) mod W64) with false by lia. cbn -[Z.mul Z.div Z.modulo Z.leb Z.to_nat Z.add Z.of_nat].
    rewrite rd_entries_enc; try assumption.
    + reflexivity.
    + rewrite flat_entry_length. lia.
    + constructor.
Qed.

Theorem bin_ambiguous_rejected o : wf o -> ambiguous o -> decode_as (kind_of o) (encode o) = Err EStorage.
Proof.
  destruct o as [vs|nl nc vs|n vs|nl nc es]; cbn [wf ambiguous kind_of]; intros W A; try contradiction; unfold decode_as.
  - destruct W as (H0 & Hw32 & Hn & Hw). rewrite info_sym01 by assumption. reflexivity.
  - destruct W as (Hl & Hc & Hs & Hb). rewrite info_sparse by assumption.
    replace ((16 * Z.of_nat (length es)) mod W64 =? (nl * nc * 8) mod W64) with true by lia. reflexivity.
Qed.

(* for realistic sizes the ambiguous shapes are exactly: Sym 0x0 / 1x1, Sparse storing half of its entries *)
Theorem bin_ambiguity_characterised o : wf o ->
  (ambiguous o <->
   match o with
   | OSym n _ => n = 0 \/ n = 1
   | OSparse nl nc es => Z.of_nat (length es) < ALLOC_MAX -> nl * nc < 2 * ALLOC_MAX -> 2 * Z.of_nat (length es) = nl * nc
   | _ => False
   end) \/ (exists nl nc es, o = OSparse nl nc es /\ (ALLOC_MAX <= Z.of_nat (length es) \/ 2 * ALLOC_MAX <= nl * nc)).
Proof.
  intros W. destruct o as [vs|nl nc vs|n vs|nl nc es]; cbn [ambiguous]; try (left; tauto).
  destruct (Z_lt_le_dec (Z.of_nat (length es)) ALLOC_MAX) as [Hk|Hk]; [|right; eauto 6].
  destruct (Z_lt_le_dec (nl * nc) (2 * ALLOC_MAX)) as [Hp|Hp]; [|right; eauto 6].
  left. destruct W as (Hl & Hc & _). assert (0 <= nl * nc) by nia.
  rewrite sparse_amb_small by lia. tauto.
Qed.

Theorem bin_never_misreads o o' : wf o -> decode_as (kind_of o) (encode o) = Ok o' -> o' = o.
Proof.
  intros W H.
  assert (D : ambiguous o \/ ~ ambiguous o).
  { destruct o as [vs|nl nc vs|n vs|nl nc es]; cbn [ambiguous]; try tauto; lia. }
  destruct D as [A|NA].
  - rewrite bin_ambiguous_rejected in H by assumption. discriminate.
  - rewrite bin_roundtrip in H by assumption. congruence.
Qed.

(* a file written for one kind is read as another kind only for the ambiguous shapes *)
Theorem bin_cross_kind o k o' : wf o -> decode_as k (encode o) = Ok o' -> k = kind_of o \/ ambiguous o.
Proof.
  intros W. destruct o as [vs|nl nc vs|n vs|nl nc es]; cbn [wf ambiguous kind_of] in *; unfold decode_as.
  - destruct W as [Hn Hw]. rewrite info_vec by assumption. destruct k; cbn -[Z.mul Z.div Z.modulo Z.leb Z.to_nat Z.add Z.of_nat]; intros H; try discriminate; auto.
  - destruct W as (Hl & Hc & Hn & Ha & Hw). rewrite info_full by assumption. destruct k; cbn -[Z.mul Z.div Z.modulo Z.leb Z.to_nat Z.add Z.of_nat]; intros H; try discriminate; auto.
  - destruct W as (H0 & Hw32 & Hn & Hw).
    destruct (Z_lt_le_dec n 2) as [Hs|Hs]; [right; lia|].
    rewrite info_sym by assumption. destruct k; cbn -[Z.mul Z.div Z.modulo Z.leb Z.to_nat Z.add Z.of_nat]; intros H; try discriminate; auto.
  - destruct W as (Hl & Hc & Hs & Hb). rewrite info_sparse by assumption.
    destruct ((16 * Z.of_nat (length es)) mod W64 =? (nl * nc * 8) mod W64) eqn:E; [right; lia|].
    destruct k; cbn -[Z.mul Z.div Z.modulo Z.leb Z.to_nat Z.add Z.of_nat]; intros H; try discriminate; auto.
Qed.

(* ---- C19: what an interrupted save leaves behind is refused ---- *)
Lemma rd32_short l : (length l < 4)%nat -> rd32 l = None.
Proof. destruct l as [|a [|b [|c [|d t]]]]; cbn [length]; intros H; try reflexivity; lia. Qed.

Lemma rd32_firstn m n r : 0 <= n < W32 -> (4 <= m)%nat -> rd32 (firstn m (u32le n ++ r)) = Some (n, firstn (m - 4) r).
Proof.
  intros Hn Hm. destruct m as [|[|[|[|m]]]]; try lia.
  replace (S (S (S (S m))) - 4)%nat with m by lia.
  change (firstn (S (S (S (S m)))) (u32le n ++ r)) with (u32le n ++ firstn m r).
  apply rd32_u32le; assumption.
Qed.

Lemma decode_ok_inv k bs o :
  decode_as k bs = Ok o ->
  exists ui r1, rd32 bs = Some (ui, r1) /\
    let size := Z.of_nat (length bs) - 4 in
    match k with
    | KVec => size = ui * 8
    | KSym => size = symsize ui
    | KFull => exists uj r2, rd32 r1 = Some (uj, r2) /\ (size - 4) mod W64 = (ui * uj * 8) mod W64
    | KSparse => True
    end.
Proof.
  unfold decode_as, info. destruct (rd32 bs) as [[ui r1]|] eqn:E1; [|discriminate].
  intros H. exists ui, r1. split; [reflexivity|]. cbv zeta.
  destruct (Z.eqb_spec (Z.of_nat (length bs) - 4) (ui * 8)) as [Ev|Ev].
  - destruct k; cbn in H; try discriminate; auto.
  - destruct (Z.eqb_spec (Z.of_nat (length bs) - 4) (symsize ui)) as [Es|Es].
    + destruct k; cbn in H; try discriminate; auto.
    + destruct (rd32 r1) as [[uj r2]|] eqn:E2; [|discriminate].
      destruct (Z.eqb_spec ((Z.of_nat (length bs) - 4 - 4) mod W64) ((ui * uj * 8) mod W64)) as [Ef|Ef];
        destruct k; cbn in H; try discriminate; eauto.
Qed.

Theorem bin_strict_prefix_rejected o m :
  wf o -> kind_of o <> KSparse -> (m < length (encode o))%nat ->
  exists e, decode_as (kind_of o) (firstn m (encode o)) = Err e.
Proof.
  intros W NS Hm.
  destruct (decode_as (kind_of o) (firstn m (encode o))) as [o'|e] eqn:D; [exfalso|eauto].
  apply decode_ok_inv in D. destruct D as (ui & r1 & E1 & P).
  assert (Hlen : length (firstn m (encode o)) = m) by (apply firstn_length_le; lia).
  rewrite Hlen in P. cbv zeta in P.
  assert (HL := encode_length o).
  destruct (Nat.lt_ge_cases m 4) as [Hs|Hs].
  { rewrite rd32_short in E1 by lia. discriminate. }
  destruct o as [vs|nl nc vs|n vs|nl nc es]; cbn [kind_of wf] in *; try congruence.
  - destruct W as [Hn Hw]. cbn [encode] in *. rewrite rd32_firstn in E1 by lia. inversion E1; subst ui r1. lia.
  - destruct W as (Hl & Hc & Hn & Ha & Hw). cbn [encode] in *. rewrite rd32_firstn in E1 by lia. inversion E1; subst ui r1.
    destruct P as (uj & r2 & E2 & P).
    destruct (Nat.lt_ge_cases (m - 4) 4) as [Hs2|Hs2].
    { rewrite rd32_short in E2; [discriminate|]. rewrite firstn_length. lia. }
    change (rd32 (firstn (m - 4) (u32le nc ++ flat_map u64le vs)) = Some (uj, r2)) in E2.
    rewrite rd32_firstn in E2 by lia. inversion E2; subst uj r2.
    rewrite W64_val, ALLOC_val in *. remember (nl * nc) as p. lia.
  - destruct W as (H0 & Hw32 & Hn & Hw). cbn [encode] in *.
    assert (n < W32) by (rewrite W32_val in *; nia).
    rewrite rd32_firstn in E1 by lia. inversion E1; subst ui r1.
    rewrite symsize_small in P by lia.
    assert (He := sym_n_even n H0). remember (n * (n + 1)) as p. lia.
Qed.

(* the sparse format stores no entry count: a file that ends inside an entry (or inside the header) is refused *)
Lemma rd32_some_length l x r : rd32 l = Some (x, r) -> length l = (4 + length r)%nat.
Proof. destruct l as [|a [|b [|c [|d t]]]]; cbn; intros H; try discriminate. inversion H; subst. reflexivity. Qed.

Lemma rd_entry_cases bs :
  match rd_entry bs with
  | EEnd => bs = []
  | EShort => True
  | EEntry i j v r => (length bs = 16 + length r)%nat
  end.
Proof.
  unfold rd_entry. destruct bs as [|b0 bs]; [reflexivity|]. cbn [is_nil].
  destruct (rd32 (b0 :: bs)) as [[i r1]|] eqn:E1; [|exact I].
  destruct (rd32 r1) as [[j r2]|] eqn:E2; [|exact I].
  unfold rd64. destruct (rd32 r2) as [[lo r3]|] eqn:E3; [|exact I].
  destruct (rd32 r3) as [[hi r4]|] eqn:E4; [|exact I].
  apply rd32_some_length in E1, E2, E3, E4. lia.
Qed.

Lemma rd_entries_partial fuel nl nc : forall bs acc es,
  rd_entries fuel nl nc bs acc = Ok es -> (Z.of_nat (length bs)) mod 16 = 0.
Proof.
  induction fuel as [|fuel IH]; intros bs acc es H; cbn [rd_entries] in H.
  - destruct bs; cbn in H; [reflexivity|discriminate].
  - assert (C := rd_entry_cases bs). destruct (rd_entry bs) as [| |i j v r] eqn:E.
    + subst bs. reflexivity.
    + discriminate.
    + destruct ((i <? nl) && (j <? nc)); [|discriminate].
      apply IH in H. rewrite C. rewrite Nat2Z.inj_add. change (Z.of_nat 16) with 16. lia.
Qed.

Theorem bin_sparse_partial_entry_rejected bs :
  (Z.of_nat (length bs) < 8 \/ (Z.of_nat (length bs) - 8) mod 16 <> 0) ->
  forall o, decode_as KSparse bs <> Ok o.
Proof.
  intros Hlen o D. unfold decode_as in D.
  destruct (info bs) as [[li rest]|e] eqn:I; [|discriminate].
  destruct (negb (storage_eqb (kind_storage KSparse) (i_st li))) eqn:S1; [discriminate|].
  destruct (negb (kind_dim KSparse =? i_dim li)) eqn:S2; [discriminate|].
  destruct (rd_entries (length rest) (i_nl li) (i_nc li) rest []) as [es|e] eqn:R; [|discriminate].
  apply rd_entries_partial in R.
  (* a sparse verdict of info means both header words were read: rest = bs minus 8 bytes *)
  unfold info in I. destruct (rd32 bs) as [[ui r1]|] eqn:E1; [|discriminate].
  destruct (Z.of_nat (length bs) - 4 =? ui * 8); [inversion I; subst; cbn in S1; discriminate|].
  destruct (Z.of_nat (length bs) - 4 =? symsize ui); [inversion I; subst; cbn in S1; discriminate|].
  destruct (rd32 r1) as [[uj r2]|] eqn:E2; [|discriminate].
  inversion I; subst li rest. clear I.
  apply rd32_some_length in E1, E2.
  lia.
Qed.

(* a file too short for its header is refused for every target kind *)
Theorem bin_short_header_rejected k bs : (length bs < 4)%nat -> decode_as k bs = Err EHeader.
Proof. intros H. unfold decode_as, info. rewrite rd32_short by assumption. reflexivity. Qed.
