(* Lemmas about the binary codec model (C07 round trip / ambiguity, C19 prefix rejection). *)
From OM Require Import Base.Lists Maths.BinCodec.
Require Import ZifyBool.
Local Open Scope Z_scope.
Ltac Zify.zify_post_hook ::= Z.div_mod_to_equations.

Lemma W32_val : W32 = 4294967296. Proof. reflexivity. Qed.
Lemma W64_val : W64 = 18446744073709551616. Proof. reflexivity. Qed.
Lemma ALLOC_val : ALLOC_MAX = 1152921504606846976. Proof. reflexivity. Qed.
Global Opaque W32 W64 ALLOC_MAX.

Lemma u32le_length n : length (u32le n) = 4%nat. Proof. reflexivity. Qed.
Lemma u64le_length w : length (u64le w) = 8%nat. Proof. reflexivity. Qed.

Lemma rd32_u32le n r : 0 <= n < W32 -> rd32 (u32le n ++ r) = Some (n, r).
Proof.
  intros H. rewrite W32_val in H. unfold u32le, rd32. cbn [app]. f_equal. f_equal. lia.
Qed.

Lemma rd64_u64le w r : word w -> rd64 (u64le w ++ r) = Some (w, r).
Proof.
  unfold word. rewrite W64_val. intros H. unfold rd64, u64le. rewrite <- app_assoc.
  rewrite rd32_u32le by (rewrite W32_val; lia).
  rewrite rd32_u32le by (rewrite W32_val; lia).
  f_equal. f_equal. rewrite W32_val. lia.
Qed.

Lemma flat_u64_length vs : length (flat_map u64le vs) = (8 * length vs)%nat.
Proof. induction vs as [|v t IH]; [reflexivity|]. cbn [flat_map]. rewrite app_length, u64le_length, IH. cbn [length]. lia. Qed.

Lemma enc_entry_length e : length (enc_entry e) = 16%nat.
Proof. destruct e as [[i j] v]. reflexivity. Qed.
Lemma flat_entry_length es : length (flat_map enc_entry es) = (16 * length es)%nat.
Proof. induction es as [|e t IH]; [reflexivity|]. cbn [flat_map]. rewrite app_length, enc_entry_length, IH. cbn [length]. lia. Qed.

Lemma rd_words_enc vs r : Forall word vs -> rd_words (length vs) (flat_map u64le vs ++ r) = Some vs.
Proof.
  induction 1 as [|v t Hv Ht IH]; [reflexivity|].
  cbn [length rd_words flat_map]. rewrite <- app_assoc, rd64_u64le by assumption. rewrite IH. reflexivity.
Qed.

(* file lengths *)
Lemma encode_length o :
  Z.of_nat (length (encode o)) =
  match o with
  | OVec vs => 4 + 8 * Z.of_nat (length vs)
  | OFull _ _ vs => 8 + 8 * Z.of_nat (length vs)
  | OSym _ vs => 4 + 8 * Z.of_nat (length vs)
  | OSparse _ _ es => 8 + 16 * Z.of_nat (length es)
  end.
Proof.
  destruct o; cbn [encode]; rewrite ?app_length, ?u32le_length, ?flat_u64_length, ?flat_entry_length; lia.
Qed.

(* the size tests: arithmetic core *)
Lemma symsize_small n : 0 <= n -> n * (n + 1) < W32 -> symsize n = 4 * (n * (n + 1)).
Proof.
  intros H0 H. unfold symsize. rewrite W32_val in *. rewrite W64_val.
  assert (n < 4294967296 - 1) by nia.
  replace ((n + 1) mod 4294967296) with (n + 1) by lia.
  assert (0 <= n * (n + 1)) by nia.
  remember (n * (n + 1)) as p. lia.
Qed.

Lemma symsize_mod8 ui : 0 <= ui < W32 -> symsize ui mod 8 = 0.
Proof.
  intros H. unfold symsize. rewrite W32_val in *. rewrite W64_val.
  assert (E : exists q, ui * ((ui + 1) mod 4294967296) = 2 * q).
  { destruct (Z.eq_dec ui 4294967295) as [->|Hn].
    - exists 0. reflexivity.
    - replace ((ui + 1) mod 4294967296) with (ui + 1) by lia.
      destruct (Z.even ui) eqn:Ev.
      + apply Z.even_spec in Ev. destruct Ev as [h ->]. exists (h * (2 * h + 1)). ring.
      + assert (Od : Z.odd ui = true) by (rewrite <- Z.negb_even, Ev; reflexivity).
        apply Z.odd_spec in Od. destruct Od as [h ->]. exists ((2 * h + 1) * (h + 1)). ring. }
  destruct E as [q ->]. remember (2 * q * 8) as x.
  assert (x = 16 * q) by lia. clear Heqx. subst x. lia.
Qed.

Lemma sym_n_even n : 0 <= n -> (n * (n + 1)) mod 2 = 0.
Proof.
  intros H. destruct (Z.even n) eqn:Ev.
  - apply Z.even_spec in Ev. destruct Ev as [h ->]. replace (2 * h * (2 * h + 1)) with (2 * (h * (2 * h + 1))) by ring.
    rewrite Z.mul_comm, Z_mod_mult. reflexivity.
  - assert (Od : Z.odd n = true) by (rewrite <- Z.negb_even, Ev; reflexivity).
    apply Z.odd_spec in Od. destruct Od as [h ->].
    replace ((2 * h + 1) * (2 * h + 1 + 1)) with (2 * ((2 * h + 1) * (h + 1))) by ring.
    rewrite Z.mul_comm, Z_mod_mult. reflexivity.
Qed.

(* ---- info on encoded objects ---- *)
Lemma info_vec vs : Z.of_nat (length vs) < W32 ->
  info (encode (OVec vs)) = Ok ({| i_nl := Z.of_nat (length vs); i_nc := 1; i_st := SFull; i_dim := 1 |}, flat_map u64le vs).
Proof.
  intros H. unfold info. rewrite encode_length. cbn [encode]. rewrite rd32_u32le by lia.
  replace (4 + 8 * Z.of_nat (length vs) - 4 =? Z.of_nat (length vs) * 8) with true by lia. reflexivity.
Qed.

Lemma info_full nl nc vs : 0 <= nl < W32 -> 0 <= nc < W32 -> Z.of_nat (length vs) = nl * nc -> nl * nc < ALLOC_MAX ->
  info (encode (OFull nl nc vs)) = Ok ({| i_nl := nl; i_nc := nc; i_st := SFull; i_dim := 2 |}, flat_map u64le vs).
Proof.
  intros Hl Hc Hn Ha. unfold info. rewrite encode_length. cbn [encode]. rewrite rd32_u32le by lia.
  rewrite Hn. remember (nl * nc) as p.
  replace (8 + 8 * p - 4 =? nl * 8) with false by lia.
  assert (Hs := symsize_mod8 nl Hl).
  replace (8 + 8 * p - 4 =? symsize nl) with false by lia.
  rewrite rd32_u32le by lia. rewrite <- Heqp.
  replace ((8 + 8 * p - 4 - 4) mod W64 =? (p * 8) mod W64) with true.
  2:{ replace (8 + 8 * p - 4 - 4) with (p * 8) by lia. lia. }
  reflexivity.
Qed.

Lemma info_sym n vs : 2 <= n -> n * (n + 1) < W32 -> Z.of_nat (length vs) = n * (n + 1) / 2 ->
  info (encode (OSym n vs)) = Ok ({| i_nl := n; i_nc := n; i_st := SSym; i_dim := 2 |}, flat_map u64le vs).
Proof.
  intros H2 Hw Hn. unfold info. rewrite encode_length. cbn [encode].
  assert (n < W32) by (rewrite W32_val in *; nia).
  rewrite rd32_u32le by lia. rewrite symsize_small by lia.
  assert (He := sym_n_even n ltac:(lia)). rewrite Hn. remember (n * (n + 1)) as p.
  assert (2 * n < p) by nia.
  replace (4 + 8 * (p / 2) - 4 =? n * 8) with false by lia.
  replace (4 + 8 * (p / 2) - 4 =? 4 * p) with true by lia. reflexivity.
Qed.

Lemma info_sym01 n vs : (n = 0 \/ n = 1) -> Z.of_nat (length vs) = n * (n + 1) / 2 ->
  info (encode (OSym n vs)) = Ok ({| i_nl := n; i_nc := 1; i_st := SFull; i_dim := 1 |}, flat_map u64le vs).
Proof.
  intros Hn Hl. unfold info. rewrite encode_length. cbn [encode].
  rewrite rd32_u32le by (rewrite W32_val; lia). rewrite Hl.
  replace (4 + 8 * (n * (n + 1) / 2) - 4 =? n * 8) with true by (destruct Hn; subst n; reflexivity).
  reflexivity.
Qed.

Lemma info_sparse nl nc es : 0 <= nl < W32 -> 0 <= nc < W32 ->
  info (encode (OSparse nl nc es)) =
  Ok ({| i_nl := nl; i_nc := nc;
         i_st := if ((16 * Z.of_nat (length es)) mod W64 =? (nl * nc * 8) mod W64) then SFull else SSparse; i_dim := 2 |},
      flat_map enc_entry es).
Proof.
  intros Hl Hc. unfold info. rewrite encode_length. cbn [encode]. rewrite rd32_u32le by lia.
  remember (Z.of_nat (length es)) as k.
  replace (8 + 16 * k - 4 =? nl * 8) with false by lia.
  assert (Hs := symsize_mod8 nl Hl).
  replace (8 + 16 * k - 4 =? symsize nl) with false by lia.
  rewrite rd32_u32le by lia.
  replace (8 + 16 * k - 4 - 4) with (16 * k) by lia. reflexivity.
Qed.

Lemma sparse_amb_small nl nc k : 0 <= k < ALLOC_MAX -> 0 <= nl * nc < 2 * ALLOC_MAX ->
  ((16 * k) mod W64 = (nl * nc * 8) mod W64 <-> 2 * k = nl * nc).
Proof.
  rewrite W64_val, ALLOC_val. intros Hk Hp. remember (nl * nc) as p. clear Heqp. split; intros H; lia.
Qed.

(* ---- sparse entries ---- *)
Lemma key_ltb_trans a b c : key_ltb a b = true -> key_ltb b c = true -> key_ltb a c = true.
Proof. unfold key_ltb. destruct a, b, c; cbn [fst snd]. lia. Qed.

Lemma map_set_append acc k v :
  Forall (fun e => key_ltb (fst e) k = true) acc -> map_set acc k v = acc ++ [(k, v)].
Proof.
  induction 1 as [|[k' v'] t Hk Ht IH]; [reflexivity|].
  cbn [map_set app fst] in *.
  replace (key_eqb k k') with false by (unfold key_eqb, key_ltb in *; destruct k, k'; cbn [fst snd] in *; lia).
  replace (key_ltb k k') with false by (unfold key_ltb in *; destruct k, k'; cbn [fst snd] in *; lia).
  rewrite IH. reflexivity.
Qed.

Lemma sorted_head_lt e t : sorted_keys (e :: t) -> Forall (fun e' => key_ltb (fst e) (fst e') = true) t.
Proof.
  revert e. induction t as [|e2 t IH]; intros e H; [constructor|].
  destruct e as [k v], e2 as [k2 v2]. cbn [sorted_keys] in H. destruct H as [H1 H2].
  constructor; [exact H1|].
  specialize (IH (k2, v2) H2). cbn [fst] in *.
  eapply Forall_impl; [|exact IH]. intros a Ha. eapply key_ltb_trans; eauto.
Qed.

Lemma sorted_tail e t : sorted_keys (e :: t) -> sorted_keys t.
Proof. destruct e as [k v]. cbn [sorted_keys]. tauto. Qed.

Lemma rd_entry_enc i j v r : 0 <= i < W32 -> 0 <= j < W32 -> word v ->
  rd_entry (enc_entry (i, j, v) ++ r) = EEntry i j v r.
Proof.
  intros Hi Hj Hv. unfold rd_entry.
  replace (is_nil (enc_entry (i, j, v) ++ r)) with false by reflexivity.
  unfold enc_entry. rewrite <- !app_assoc.
  rewrite (Z.mod_small i) by lia. rewrite (Z.mod_small j) by lia.
  rewrite !rd32_u32le by lia. rewrite rd64_u64le by assumption. reflexivity.
Qed.

Lemma rd_entries_enc nl nc es : 0 <= nl < W32 -> 0 <= nc < W32 ->
  forall acc fuel, (length es <= fuel)%nat -> sorted_keys es ->
  Forall (fun e => 0 <= fst (fst e) < nl /\ 0 <= snd (fst e) < nc /\ word (snd e)) es ->
  Forall (fun a => Forall (fun e => key_ltb (fst a) (fst e) = true) es) acc ->
  rd_entries fuel nl nc (flat_map enc_entry es) acc = Ok (acc ++ es).
Proof.
  intros Hl Hc. induction es as [|[[i j] v] t IH]; intros acc fuel Hf Hs Hb Hacc.
  - rewrite app_nil_r. destruct fuel; reflexivity.
  - destruct fuel as [|fuel]; [cbn [length] in Hf; lia|].
    cbn [flat_map rd_entries]. inversion Hb as [|? ? [Hi [Hj Hv]] Hb']; subst. cbn [fst snd] in *.
    rewrite rd_entry_enc by (try assumption; lia).
    replace ((i <? nl) && (j <? nc)) with true by lia.
    rewrite map_set_append.
    2:{ eapply Forall_impl; [|exact Hacc]. intros a Ha. inversion Ha; subst. assumption. }
    rewrite IH.
    + rewrite <- app_assoc. reflexivity.
    + cbn [length] in Hf. lia.
    + eapply sorted_tail; eauto.
    + assumption.
    + apply Forall_app. split.
      * eapply Forall_impl; [|exact Hacc]. intros a Ha. inversion Ha; subst. assumption.
      * constructor; [|constructor]. apply (sorted_head_lt _ _ Hs).
Qed.

(* ---- C07: round trip, ambiguity, no misreading ---- *)
Theorem bin_roundtrip o : wf o -> ~ ambiguous o -> decode_as (kind_of o) (encode o) = Ok o.
Proof.
  destruct o as [vs|nl nc vs|n vs|nl nc es]; cbn [wf ambiguous kind_of]; intros W NA; unfold decode_as.
  - destruct W as [Hn Hw]. rewrite info_vec by assumption. cbn -[Z.mul Z.div Z.modulo Z.leb Z.to_nat Z.add Z.of_nat].
    replace (ALLOC_MAX <=? Z.of_nat (length vs)) with false by (rewrite ALLOC_val, W32_val in *; lia).
    rewrite Nat2Z.id. rewrite <- (app_nil_r (flat_map u64le vs)), rd_words_enc by assumption. reflexivity.
  - destruct W as (Hl & Hc & Hn & Ha & Hw). rewrite info_full by assumption. cbn -[Z.mul Z.div Z.modulo Z.leb Z.to_nat Z.add Z.of_nat].
    replace (ALLOC_MAX <=? nl * nc) with false by lia.
    rewrite <- Hn, Nat2Z.id. rewrite <- (app_nil_r (flat_map u64le vs)), rd_words_enc by assumption. reflexivity.
  - destruct W as (H0 & Hw32 & Hn & Hw).
    assert (2 <= n) by lia. rewrite info_sym by assumption. cbn -[Z.mul Z.div Z.modulo Z.leb Z.to_nat Z.add Z.of_nat].
    assert (n < W32) by (rewrite W32_val in *; nia).
    rewrite (Z.mod_small (n + 1)) by lia.
    rewrite (Z.mod_small (n * (n + 1))) by nia.
    replace (ALLOC_MAX <=? n * (n + 1) / 2) with false
      by (remember (n * (n + 1)) as p; assert (0 <= p) by nia; rewrite ALLOC_val, W32_val in *; lia).
    rewrite <- Hn, Nat2Z.id. rewrite <- (app_nil_r (flat_map u64le vs)), rd_words_enc by assumption. reflexivity.
  - destruct W as (Hl & Hc & Hs & Hb). rewrite info_sparse by assumption.
    replace ((16 * Z.of_nat (length es)) mod W64 =? (nl * nc * 8) mod W64) with false by lia. cbn -[Z.mul Z.div Z.modulo Z.leb Z.to_nat Z.add Z.of_nat].
    rewrite rd_entries_enc; try assumption.
    + reflexivity.
    + rewrite flat_entry_length. lia.
    + constructor.
Qed.

Theorem bin_ambiguous_rejected o : wf o -> ambiguous o -> decode_as (kind_of o) (encode o) = Err EStorage.
Proof.
  destruct o as [vs|nl nc vs|n vs|nl nc es]; cbn [wf ambiguous kind_of]; intros W A; try contradiction; unfold decode_as.
  - destruct W as (H0 & Hw32 & Hn & Hw). rewrite info_sym01 by assumption. reflexivity.
  - destruct W as (Hl & Hc & Hs & Hb). rewrite info_sparse by assumption.
    replace ((16 * Z.of_nat (length es)) mod W64 =? (nl * nc * 8) mod W64) with true by lia. reflexivity.
Qed.

(* for realistic sizes the ambiguous shapes are exactly: Sym 0x0 / 1x1, Sparse storing half of its entries *)
Theorem bin_ambiguity_characterised o : wf o ->
  (ambiguous o <->
   match o with
   | OSym n _ => n = 0 \/ n = 1
   | OSparse nl nc es => Z.of_nat (length es) < ALLOC_MAX -> nl * nc < 2 * ALLOC_MAX -> 2 * Z.of_nat (length es) = nl * nc
   | _ => False
   end) \/ (exists nl nc es, o = OSparse nl nc es /\ (ALLOC_MAX <= Z.of_nat (length es) \/ 2 * ALLOC_MAX <= nl * nc)).
Proof.
  intros W. destruct o as [vs|nl nc vs|n vs|nl nc es]; cbn [ambiguous]; try (left; tauto).
  destruct (Z_lt_le_dec (Z.of_nat (length es)) ALLOC_MAX) as [Hk|Hk]; [|right; eauto 6].
  destruct (Z_lt_le_dec (nl * nc) (2 * ALLOC_MAX)) as [Hp|Hp]; [|right; eauto 6].
  left. destruct W as (Hl & Hc & _). assert (0 <= nl * nc) by nia.
  rewrite sparse_amb_small by lia. tauto.
Qed.

Theorem bin_never_misreads o o' : wf o -> decode_as (kind_of o) (encode o) = Ok o' -> o' = o.
Proof.
  intros W H.
  assert (D : ambiguous o \/ ~ ambiguous o).
  { destruct o as [vs|nl nc vs|n vs|nl nc es]; cbn [ambiguous]; try tauto; lia. }
  destruct D as [A|NA].
  - rewrite bin_ambiguous_rejected in H by assumption. discriminate.
  - rewrite bin_roundtrip in H by assumption. congruence.
Qed.

(* a file written for one kind is read as another kind only for the ambiguous shapes *)
Theorem bin_cross_kind o k o' : wf o -> decode_as k (encode o) = Ok o' -> k = kind_of o \/ ambiguous o.
Proof.
  intros W. destruct o as [vs|nl nc vs|n vs|nl nc es]; cbn [wf ambiguous kind_of] in *; unfold decode_as.
  - destruct W as [Hn Hw]. rewrite info_vec by assumption. destruct k; cbn -[Z.mul Z.div Z.modulo Z.leb Z.to_nat Z.add Z.of_nat]; intros H; try discriminate; auto.
  - destruct W as (Hl & Hc & Hn & Ha & Hw). rewrite info_full by assumption. destruct k; cbn -[Z.mul Z.div Z.modulo Z.leb Z.to_nat Z.add Z.of_nat]; intros H; try discriminate; auto.
  - destruct W as (H0 & Hw32 & Hn & Hw).
    destruct (Z_lt_le_dec n 2) as [Hs|Hs]; [right; lia|].
    rewrite info_sym by assumption. destruct k; cbn -[Z.mul Z.div Z.modulo Z.leb Z.to_nat Z.add Z.of_nat]; intros H; try discriminate; auto.
  - destruct W as (Hl & Hc & Hs & Hb). rewrite info_sparse by assumption.
    destruct ((16 * Z.of_nat (length es)) mod W64 =? (nl * nc * 8) mod W64) eqn:E; [right; lia|].
    destruct k; cbn -[Z.mul Z.div Z.modulo Z.leb Z.to_nat Z.add Z.of_nat]; intros H; try discriminate; auto.
Qed.
