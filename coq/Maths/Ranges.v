(* Model of OpenMEEGMaths/include/range.h, ranges.h, block_matrix.h, symm_block_matrix.h
   (as repaired: Range::intersect is symmetric, create_block_index only absorbs
   NonExistingRange). *)
From OM Require Import Base.Lists.

Definition range := (nat * nat)%type.            (* (start,end), both inclusive *)
Definition rwf (r : range) : Prop := fst r <= snd r.
Definition rlen (r : range) : nat := snd r - fst r + 1.
Definition rcontains (r : range) (i : nat) : bool := (fst r <=? i) && (i <=? snd r).
(* this->intersect(q) *)
Definition rintersect (r q : range) : bool :=
  rcontains r (fst q) || rcontains r (snd q) || rcontains q (fst r).
Definition reqb (r q : range) : bool := (fst r =? fst q) && (snd r =? snd q).

Inductive rres := ROk (i : nat) | ROverlap | RNoRange | RNoBlock.

(* Ranges::find_index(const Range&) *)
Fixpoint find_range_from (rs : list range) (q : range) (i : nat) : rres :=
  match rs with
  | [] => RNoRange
  | r :: rs' => if rintersect r q then (if reqb q r then ROk i else ROverlap)
                else find_range_from rs' q (S i)
  end.
Definition find_range rs q := find_range_from rs q 0.

(* Ranges::add *)
Definition ranges_add (rs : list range) (q : range) : list range * rres :=
  match find_range rs q with
  | RNoRange => (rs ++ [q], ROk (length rs))
  | r => (rs, r)
  end.

(* Ranges::find_index(size_t) *)
Fixpoint find_index_from (rs : list range) (ind : nat) (i : nat) : rres :=
  match rs with
  | [] => RNoBlock
  | r :: rs' => if rcontains r ind then ROk i else find_index_from rs' ind (S i)
  end.
Definition find_index rs ind := find_index_from rs ind 0.

(* BlockMatrix: address of global (i,j) = (row block, col block, local i, local j) *)
Definition blk_addr (rows cols : list range) (i j : nat) : option (nat * nat * nat * nat) :=
  match find_index rows i, find_index cols j with
  | ROk bi, ROk bj => Some (bi, bj, i - fst (nth bi rows (0,0)), j - fst (nth bj cols (0,0)))
  | _, _ => None
  end.

(* SymmetricBlockMatrix::operator()(i,j): transposed = i>j *)
Definition sblk_addr (rs : list range) (i j : nat) : option (nat * nat * nat * nat) :=
  match find_index rs i, find_index rs j with
  | ROk bi, ROk bj =>
      if j <? i then Some (bj, bi, j - fst (nth bj rs (0,0)), i - fst (nth bi rs (0,0)))
      else Some (bi, bj, i - fst (nth bi rs (0,0)), j - fst (nth bj rs (0,0)))
  | _, _ => None
  end.

(* create_block_index: find_index(range), NonExistingRange => push_back; Overlapping propagates *)
Definition create_block_index (rs : list range) (q : range) : list range * rres :=
  match find_range rs q with
  | RNoRange => (rs ++ [q], ROk (length rs))
  | r => (rs, r)
  end.

(* add_block(ir,jr): key of the created block and its (rows,cols) size, or the error *)
(* an error in the second index leaves the first range registered: BErr carries the ranges *)
Inductive bres := BOk (rs : list range) (bi bj nr ncol : nat) | BErr (rs : list range) (e : rres).
Definition sblk_add_block (rs : list range) (ir jr : range) : bres :=
  let transposed := fst jr <? fst ir in
  match create_block_index rs ir with
  | (rs1, ROk iind) =>
      match create_block_index rs1 jr with
      | (rs2, ROk jind) =>
          if transposed then BOk rs2 jind iind (rlen jr) (rlen ir) else BOk rs2 iind jind (rlen ir) (rlen jr)
      | (rs2, e) => BErr rs2 e
      end
  | (rs1, e) => BErr rs1 e
  end.

Definition disjoint_ranges (rs : list range) : Prop :=
  forall a b ind, a < length rs -> b < length rs ->
    rcontains (nth a rs (0,0)) ind = true -> rcontains (nth b rs (0,0)) ind = true -> a = b.
