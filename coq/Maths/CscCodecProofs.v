(* CSC conversion: finite sweep (all sparsity patterns of all shapes up to 3x4 and 4x3, values incl. +0.0/-0.0
   words).  The general statement for every sorted bounded map is NOT proved here. *)
From OM Require Import Base.Lists Maths.BinCodec Maths.CscCodec.
Local Open Scope Z_scope.

Definition NEGZERO : Z := 9223372036854775808.   (* bit pattern of -0.0 *)
Definition sweep_val (i j : Z) : Z := if (i + j) mod 3 =? 0 then 0 else if (i + j) mod 3 =? 1 then NEGZERO else 4607182418800017408 + i * 16 + j.

Lemma csc_sweep_all :
  forallb (fun s => csc_sweep (fst s) (snd s) sweep_val)
    [(0,0);(0,3);(3,0);(1,1);(1,4);(4,1);(2,2);(2,3);(3,2);(3,3);(3,4);(4,3)]%nat = true.
Proof. vm_compute. reflexivity. Qed.

Lemma obj_eqb_sparse_eq a b : obj_eqb_sparse a b = true -> a = b.
Proof.
  unfold obj_eqb_sparse. revert b. induction a as [|[[i j] v] t IH]; intros [|[[i' j'] v'] t']; cbn; intros H; try discriminate; try reflexivity.
  apply andb_prop in H. destruct H as [HL H]. apply andb_prop in H. destruct H as [H1 H2].
  apply andb_prop in H1. destruct H1 as [K V]. unfold key_eqb in K. cbn [fst snd] in *. apply andb_prop in K. destruct K as [K1 K2].
  apply Z.eqb_eq in K1, K2, V. subst. f_equal. apply IH. rewrite HL. exact H2.
Qed.

(* ================= the general statement ================= *)
From OM Require Import Maths.BinCodecProofs Maths.SortedMap.
Require Import ZifyBool.

Definition sw (k : Z * Z) : Z * Z := (snd k, fst k).
Definition col (e : kv) : Z := fst (fst e).
Definition row (e : kv) : Z := snd (fst e).
Definition cntlt (c : Z) (l : list kv) : Z := Z.of_nat (length (filter (fun e => col e <? c) l)).

Lemma to_colmajor_build es : to_colmajor es = build sw es [].
Proof. reflexivity. Qed.

Lemma cntlt_app c p q : cntlt c (p ++ q) = cntlt c p + cntlt c q.
Proof. unfold cntlt. rewrite filter_app, app_length. lia. Qed.
Lemma cntlt_all c l : (forall e, In e l -> col e < c) -> cntlt c l = Z.of_nat (length l).
Proof.
  unfold cntlt. induction l as [|e t IH]; intros H; [reflexivity|]. cbn [filter].
  replace (col e <? c) with true by (specialize (H e (or_introl eq_refl)); lia). cbn [length]. rewrite Nat2Z.inj_succ, IH; [lia|]. intros x Hx. apply H. right; exact Hx.
Qed.
Lemma cntlt_none c l : (forall e, In e l -> c <= col e) -> cntlt c l = 0.
Proof.
  unfold cntlt. induction l as [|e t IH]; intros H; [reflexivity|]. cbn [filter].
  replace (col e <? c) with false by (specialize (H e (or_introl eq_refl)); lia). apply IH. intros x Hx. apply H. right; exact Hx.
Qed.
Lemma cntlt_bounds c l : 0 <= cntlt c l <= Z.of_nat (length l).
Proof. unfold cntlt. induction l as [|e t IH]; cbn [filter length]; [lia|]. destruct (col e <? c); cbn [length]; lia. Qed.
Lemma cntlt_mono c c' l : c <= c' -> cntlt c l <= cntlt c' l.
Proof.
  intros H. unfold cntlt. induction l as [|e t IH]; cbn [filter]; [lia|].
  destruct (col e <? c) eqn:A, (col e <? c') eqn:B; cbn [length]; lia.
Qed.

Lemma nth_repeat' {A} (x d : A) n k : (k < n)%nat -> nth k (repeat x n) d = x.
Proof. revert k. induction n as [|n IH]; intros [|k] H; cbn; try lia; auto. apply IH. lia. Qed.

(* columns never decrease along a list sorted by (column,row) *)
Lemma sorted_cols_head e t : sorted_keys (e :: t) -> forall x, In x t -> col e <= col x.
Proof.
  intros Hs x Hx. assert (F := sorted_head_lt _ _ Hs). rewrite Forall_forall in F. specialize (F x Hx).
  unfold key_ltb, col in *. destruct e as [[a b] v], x as [[a' b'] v']. cbn [fst snd] in *. lia.
Qed.
Lemma sorted_split pre e post : sorted_keys (pre ++ e :: post) ->
  (forall x, In x pre -> col x <= col e) /\ (forall x, In x post -> col e <= col x) /\ sorted_keys (e :: post).
Proof.
  induction pre as [|p pre IH]; intros Hs.
  - cbn [app] in Hs. split; [intros x []|]. split; [apply sorted_cols_head; exact Hs|exact Hs].
  - cbn [app] in Hs. destruct (IH (sorted_tail _ _ Hs)) as (A & B & C). split; [|split; assumption].
    intros x [<-|Hx]; [|apply A; exact Hx]. apply (sorted_cols_head _ _ Hs). apply in_or_app. right. left. reflexivity.
Qed.

(* ---- write: ir, data ---- *)
Lemma write_loop_arrays l : forall cur cnt jc ir data,
  let '(_, ir', data', _) := write_loop l cur cnt jc ir data in
  ir' = ir ++ map row l /\ data' = data ++ map snd l.
Proof.
  induction l as [|[[j i] v] t IH]; intros cur cnt jc ir data; cbn [write_loop].
  - rewrite !app_nil_r. split; reflexivity.
  - specialize (IH j (cnt + 1) (if cur =? j then jc else jc ++ repeat cnt (Z.to_nat (j - cur))) (ir ++ [i]) (data ++ [v])).
    destruct (write_loop t j (cnt + 1) _ (ir ++ [i]) (data ++ [v])) as [[[jc' ir'] data'] cur'].
    destruct IH as [-> ->]. rewrite <- !app_assoc. split; reflexivity.
Qed.

(* ---- write: the column pointers are prefix counts ---- *)
Definition WInv (pre : list kv) (cur : Z) (jc : list Z) : Prop :=
  -1 <= cur /\ length jc = Z.to_nat (cur + 1) /\ (forall e, In e pre -> col e <= cur) /\
  (forall c, 0 <= c <= cur -> nth (Z.to_nat c) jc 0 = cntlt c pre) /\
  (cur = -1 \/ exists e, In e pre /\ col e = cur).

Lemma write_loop_inv post : forall pre cur jc ir data,
  WInv pre cur jc -> sorted_keys post -> (forall x, In x post -> cur <= col x) ->
  let '(jc', _, _, cur') := write_loop post cur (Z.of_nat (length pre)) jc ir data in WInv (pre ++ post) cur' jc'.
Proof.
  induction post as [|[[j i] v] t IH]; intros pre cur jc ir data (H1 & H2 & H3 & H4 & H5) Hs Hge; cbn [write_loop].
  - rewrite app_nil_r. repeat split; assumption.
  - assert (Hj : cur <= j) by (apply (Hge ((j, i), v)); left; reflexivity).
    set (e := ((j, i), v)). set (jc1 := if cur =? j then jc else jc ++ repeat (Z.of_nat (length pre)) (Z.to_nat (j - cur))).
    assert (W : WInv (pre ++ [e]) j jc1).
    { unfold WInv. split; [lia|]. split.
      { unfold jc1. destruct (Z.eqb_spec cur j); [subst; exact H2|]. rewrite app_length, repeat_length, H2. lia. }
      split.
      { intros x Hx. apply in_app_or in Hx. destruct Hx as [Hx|[<-|[]]]; [specialize (H3 x Hx); lia|unfold col; cbn; lia]. }
      split.
      2:{ right. exists e. split; [apply in_or_app; right; left; reflexivity|reflexivity]. }
      intros c Hc. rewrite cntlt_app. replace (cntlt c [e]) with 0 by (unfold cntlt, col, e; cbn [filter fst]; replace (j <? c) with false by lia; reflexivity).
      rewrite Z.add_0_r. unfold jc1. destruct (Z_le_gt_dec c cur) as [Hle|Hgt].
      - destruct (Z.eqb_spec cur j); [apply H4; lia|]. rewrite app_nth1 by lia. apply H4. lia.
      - destruct (Z.eqb_spec cur j); [lia|]. rewrite app_nth2 by lia. rewrite nth_repeat' by lia.
        symmetry. apply cntlt_all. intros x Hx. specialize (H3 x Hx). lia. }
    replace (Z.of_nat (length pre) + 1) with (Z.of_nat (length (pre ++ [e]))) by (rewrite app_length; cbn [length]; lia).
    specialize (IH (pre ++ [e]) j jc1 (ir ++ [i]) (data ++ [v]) W (sorted_tail _ _ Hs)).
    rewrite <- app_assoc in IH. cbn [app] in IH. apply IH.
    intros x Hx. apply (sorted_cols_head _ _ Hs x Hx).
Qed.

Definition JC (jc : list Z) (l : list kv) (nc : Z) : Prop :=
  length jc = Z.to_nat (nc + 1) /\ forall c, 0 <= c <= nc -> nth (Z.to_nat c) jc 0 = cntlt c l.

Lemma write_csc_spec nc ces : 0 <= nc -> sorted_keys ces -> (forall e, In e ces -> 0 <= col e < nc) ->
  let '(jc, ir, data, cur) := write_loop ces (-1) 0 [] [] [] in
  JC (jc ++ repeat (Z.of_nat (length ces)) (Z.to_nat (nc - cur))) ces nc /\ ir = map row ces /\ data = map snd ces.
Proof.
  intros Hnc Hs Hb.
  assert (A := write_loop_arrays ces (-1) 0 [] [] []).
  assert (I := write_loop_inv ces [] (-1) [] [] []). cbn [length Z.of_nat app] in I.
  destruct (write_loop ces (-1) 0 [] [] []) as [[[jc ir] data] cur]. destruct A as [-> ->].
  split; [|split; reflexivity].
  assert (W : WInv ces cur jc).
  { apply I; [|exact Hs|].
    - unfold WInv. split; [lia|]. split; [reflexivity|]. split; [intros e []|]. split; [intros c Hc; lia|left; reflexivity].
    - intros x Hx. specialize (Hb x Hx). lia. }
  destruct W as (H1 & H2 & H3 & H4 & H5).
  assert (Hc : cur < nc) by (destruct H5 as [->|[e [He <-]]]; [lia|apply Hb; exact He]).
  unfold JC. split; [rewrite app_length, repeat_length, H2; lia|].
  intros c Hcc. destruct (Z_le_gt_dec c cur) as [Hle|Hgt].
  - rewrite app_nth1 by lia. apply H4. lia.
  - rewrite app_nth2 by lia. rewrite nth_repeat' by lia. symmetry. apply cntlt_all.
    intros x Hx. specialize (H3 x Hx). lia.
Qed.

(* ---- read ---- *)
Lemma advance_spec jc k colx : forall fuel cc,
  cc <= colx -> colx - cc <= Z.of_nat fuel -> 0 <= cc ->
  (forall c, cc < c <= colx -> nth (Z.to_nat c) jc 0 <= k) -> k < nth (Z.to_nat (colx + 1)) jc 0 ->
  advance fuel jc cc k = colx.
Proof.
  induction fuel as [|fuel IH]; intros cc H1 H2 H0 Hle Hgt; cbn [advance]; [lia|].
  destruct (Z.eq_dec cc colx) as [->|Hn].
  - replace (nth (Z.to_nat (colx + 1)) jc 0 <=? k) with false by lia. reflexivity.
  - replace (nth (Z.to_nat (cc + 1)) jc 0 <=? k) with true by (specialize (Hle (cc + 1)); lia).
    apply IH; try lia. intros c Hc. apply Hle. lia.
Qed.

Lemma last_nth (l : list Z) : last l 0 = nth (length l - 1) l 0.
Proof.
  induction l as [|a t IH]; [reflexivity|]. destruct t as [|b t']; [reflexivity|].
  change (last (a :: b :: t') 0) with (last (b :: t') 0). rewrite IH. cbn [length].
  replace (S (S (length t')) - 1)%nat with (S (length t')) by lia.
  replace (S (length t') - 1)%nat with (length t') by lia. reflexivity.
Qed.

Lemma read_loop_spec nl nc jc ces : 0 <= nc -> JC jc ces nc -> sorted_keys ces ->
  (forall e, In e ces -> 0 <= col e < nc /\ 0 <= row e < nl) ->
  forall post pre cc acc, ces = pre ++ post -> 0 <= cc -> (forall x, In x post -> cc <= col x) ->
  read_loop (map row post) (map snd post) (Z.of_nat (length pre)) cc jc nl nc acc = Ok (build sw post acc).
Proof.
  intros Hnc [JL JN] Hs Hb. induction post as [|e t IH]; intros pre cc acc E H0 Hcc; [reflexivity|].
  cbn [map read_loop].
  assert (Hlast : last jc 0 = Z.of_nat (length ces)).
  { rewrite last_nth, JL. replace (Z.to_nat (nc + 1) - 1)%nat with (Z.to_nat nc) by lia. rewrite JN by lia.
    apply cntlt_all. intros x Hx. apply Hb. exact Hx. }
  rewrite Hlast. rewrite E at 1. rewrite app_length. cbn [length].
  replace (Z.of_nat (length pre) <? Z.of_nat (length pre + S (length t))) with true by lia.
  assert (Hsp : sorted_keys (pre ++ e :: t)) by (rewrite <- E; exact Hs).
  destruct (sorted_split pre e t Hsp) as (Sp & St & Sett).
  assert (Be : 0 <= col e < nc /\ 0 <= row e < nl) by (apply Hb; rewrite E; apply in_or_app; right; left; reflexivity).
  assert (Adv : advance (length jc) jc cc (Z.of_nat (length pre)) = col e).
  { assert (C1 : cc <= col e) by (apply Hcc; left; reflexivity).
    assert (C2 : col e - cc <= Z.of_nat (length jc)) by (rewrite JL; lia).
    assert (C4 : forall c, cc < c <= col e -> nth (Z.to_nat c) jc 0 <= Z.of_nat (length pre)).
    { intros c Hc. rewrite JN by lia. transitivity (cntlt (col e) ces); [apply cntlt_mono; lia|].
      rewrite E, cntlt_app. rewrite (cntlt_none (col e) (e :: t)).
      + assert (B := cntlt_bounds (col e) pre). lia.
      + intros x [<-|Hx]; [lia|apply St; exact Hx]. }
    assert (C5 : Z.of_nat (length pre) < nth (Z.to_nat (col e + 1)) jc 0).
    { rewrite JN by lia. rewrite E, cntlt_app. rewrite (cntlt_all (col e + 1) pre) by (intros x Hx; specialize (Sp x Hx); lia).
      change (e :: t) with ([e] ++ t). rewrite cntlt_app. rewrite (cntlt_all (col e + 1) [e]) by (intros x [<-|[]]; lia).
      assert (B := cntlt_bounds (col e + 1) t). cbn [length]. lia. }
    exact (advance_spec jc _ (col e) (length jc) cc C1 C2 H0 C4 C5). }
  rewrite Adv. replace ((row e <? nl) && (col e <? nc)) with true by lia.
  replace (Z.of_nat (length pre) + 1) with (Z.of_nat (length (pre ++ [e]))) by (rewrite app_length; cbn [length]; lia).
  rewrite (IH (pre ++ [e]) (col e)); [reflexivity|rewrite <- app_assoc; exact E|lia|exact St].
Qed.

Lemma find_in (l : list kv) k v : In (k, v) l -> find k l <> None.
Proof.
  induction l as [|[k1 v1] t IH]; intros H; [destruct H|]. destruct H as [H|H]; cbn [find].
  - inversion H; subst. rewrite key_eqb_refl. discriminate.
  - destruct (key_eqb k k1); [discriminate|]. apply IH. exact H.
Qed.

(* read_csc (write_csc m) = m for every strictly sorted map whose keys are within the dimensions: dimensions, entry
   count, every stored value (the words of +0.0 and -0.0 included) come back *)
Theorem csc_roundtrip nl nc es : 0 <= nl -> 0 <= nc -> sorted_keys es ->
  (forall e, In e es -> 0 <= fst (fst e) < nl /\ 0 <= snd (fst e) < nc) ->
  read_csc (write_csc nl nc es) = Ok (OSparse nl nc es).
Proof.
  intros Hnl Hnc Hs Hb. unfold write_csc, read_csc. rewrite to_colmajor_build.
  set (ces := build sw es []).
  assert (Sc : sorted_keys ces) by (apply build_sorted; exact I).
  assert (Mem : forall e, In e ces -> 0 <= col e < nc /\ 0 <= row e < nl).
  { intros [[j i] v] He. unfold col, row. cbn [fst snd].
    assert (Fd : find (j, i) ces <> None) by (eapply find_in; eauto).
    unfold ces in Fd. rewrite find_build in Fd. cbn [find] in Fd.
    assert (G : forall (l : list kv) r0, (forall e, In e l -> 0 <= fst (fst e) < nl /\ 0 <= snd (fst e) < nc) ->
                fold_left (fun r (e : kv) => if key_eqb (j, i) (sw (fst e)) then Some (snd e) else r) l r0 <> r0 ->
                0 <= j < nc /\ 0 <= i < nl).
    { induction l as [|e t IH]; intros r0 Hl Hne; [cbn in Hne; congruence|]. cbn [fold_left] in Hne.
      destruct (key_eqb (j, i) (sw (fst e))) eqn:K.
      - apply key_eqb_eq in K. destruct e as [[a b] w]. unfold sw in K. cbn [fst snd] in K. inversion K; subst.
        specialize (Hl ((a, b), w) (or_introl eq_refl)). cbn [fst snd] in Hl. lia.
      - apply (IH r0); [intros x Hx; apply Hl; right; exact Hx|exact Hne]. }
    apply (G es None Hb Fd). }
  assert (W := write_csc_spec nc ces Hnc Sc (fun e He => proj1 (Mem e He))).
  destruct (write_loop ces (-1) 0 [] [] []) as [[[jc ir] data] cur]. destruct W as (J & -> & ->).
  cbn [c_ir c_data c_jc c_nl c_nc].
  change 0 with (Z.of_nat (length (@nil kv))) at 1.
  rewrite (read_loop_spec nl nc _ ces Hnc J Sc Mem ces [] 0 []); [|reflexivity|lia|intros x Hx; apply Mem; exact Hx].
  unfold ces. rewrite build_build; [reflexivity|intros [a b]; reflexivity|exact Hs].
Qed.
