(* CSC conversion: finite sweep (all sparsity patterns of all shapes up to 3x4 and 4x3, values incl. +0.0/-0.0
   words).  The general statement for every sorted bounded map is NOT proved here. *)
From OM Require Import Base.Lists Maths.BinCodec Maths.CscCodec.
Local Open Scope Z_scope.

Definition NEGZERO : Z := 9223372036854775808.   (* bit pattern of -0.0 *)
Definition sweep_val (i j : Z) : Z := if (i + j) mod 3 =? 0 then 0 else if (i + j) mod 3 =? 1 then NEGZERO else 4607182418800017408 + i * 16 + j.

Lemma csc_sweep_all :
  forallb (fun s => csc_sweep (fst s) (snd s) sweep_val)
    [(0,0);(0,3);(3,0);(1,1);(1,4);(4,1);(2,2);(2,3);(3,2);(3,3);(3,4);(4,3)]%nat = true.
Proof. vm_compute. reflexivity. Qed.

Lemma obj_eqb_sparse_eq a b : obj_eqb_sparse a b = true -> a = b.
Proof.
  unfold obj_eqb_sparse. revert b. induction a as [|[[i j] v] t IH]; intros [|[[i' j'] v'] t']; cbn; intros H; try discriminate; try reflexivity.
  apply andb_prop in H. destruct H as [HL H]. apply andb_prop in H. destruct H as [H1 H2].
  apply andb_prop in H1. destruct H1 as [K V]. unfold key_eqb in K. cbn [fst snd] in *. apply andb_prop in K. destruct K as [K1 K2].
  apply Z.eqb_eq in K1, K2, V. subst. f_equal. apply IH. rewrite HL. exact H2.
Qed.
