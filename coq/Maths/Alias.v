(* Buffer sharing of LinOpValue (a std::shared_ptr<double[]>): the copy constructor of Vector / Matrix / SymMatrix
   shares the buffer, the DEEP_COPY constructor allocates a new one.  Heap = list of buffers, object = buffer id. *)
From OM Require Import Base.Lists.
Local Open Scope Z_scope.

Definition heap := list (list Z).
Definition view (h : heap) (o : nat) : list Z := nth o h [].
Definition shallow_copy (h : heap) (o : nat) : heap * nat := (h, o).
Definition deep_copy (h : heap) (o : nat) : heap * nat := (h ++ [view h o], length h).
Definition write (h : heap) (o : nat) (k : nat) (x : Z) : heap := upd h o (upd (view h o) k x).

(* the scenario the harness replays: A := data; B := copy of A; C := deep copy of A; write cell k of `who`; views of A, B, C *)
Definition copy_scenario (data : list Z) (who k : nat) (x : Z) : list Z * list Z * list Z :=
  let h0 : heap := [data] in
  let '(h1, b) := shallow_copy h0 0%nat in
  let '(h2, c) := deep_copy h1 0%nat in
  let target := match who with O => 0%nat | S O => c | _ => b end in
  let h3 := write h2 target k x in
  (view h3 0%nat, view h3 b, view h3 c).

Lemma view_write_same h o k x : (o < length h)%nat -> view (write h o k x) o = upd (view h o) k x.
Proof. intros H. unfold view, write. apply nth_upd_same. exact H. Qed.

Lemma view_write_other h o o' k x : o <> o' -> view (write h o k x) o' = view h o'.
Proof. intros H. unfold view, write. apply nth_upd_other. exact H. Qed.

(* a deep copy is independent of its source: writing either leaves the other unchanged *)
Lemma deep_copy_independent h o k x : (o < length h)%nat ->
  let '(h', c) := deep_copy h o in
  view h' c = view h o /\
  view (write h' o k x) c = view h o /\
  view (write h' c k x) o = view h o.
Proof.
  intros H. unfold deep_copy.
  assert (V : view (h ++ [view h o]) (length h) = view h o).
  { unfold view at 1. rewrite app_nth2, Nat.sub_diag by lia. reflexivity. }
  assert (V' : view (h ++ [view h o]) o = view h o).
  { unfold view at 1. rewrite app_nth1 by lia. reflexivity. }
  split; [exact V|]. split.
  - rewrite view_write_other by lia. exact V.
  - rewrite view_write_other by lia. exact V'.
Qed.

(* a plain copy aliases its source (documented behaviour of the shared value buffer) *)
Lemma shallow_copy_aliases h o k x : (o < length h)%nat ->
  let '(h', b) := shallow_copy h o in view (write h' o k x) b = upd (view h o) k x.
Proof. intros H. unfold shallow_copy. apply view_write_same. exact H. Qed.

(* A method whose returned object is built with a sized constructor (T x(n), T x(m,n)) or a DEEP_COPY owns a buffer that
   did not exist before the call: it differs from the buffer of every operand, writing into it changes no operand, and
   writing into an operand does not change it. *)
Definition new_object (h : heap) (v : list Z) : heap * nat := (h ++ [v], length h).
Lemma fresh_result_independent h v o k x : (o < length h)%nat ->
  let '(h', r) := new_object h v in
  r <> o /\ view h' r = v /\ view h' o = view h o /\
  view (write h' r k x) o = view h o /\ view (write h' o k x) r = v.
Proof.
  intros H. unfold new_object.
  assert (V : view (h ++ [v]) (length h) = v) by (unfold view; rewrite app_nth2, Nat.sub_diag by lia; reflexivity).
  assert (V' : view (h ++ [v]) o = view h o) by (unfold view; rewrite app_nth1 by lia; reflexivity).
  repeat split; auto; try lia.
  - rewrite view_write_other by lia. exact V'.
  - rewrite view_write_other by lia. exact V.
Qed.
