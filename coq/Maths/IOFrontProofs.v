(* Lemmas about the front end model (C07 small files, C19 fallback). *)
From OM Require Import Base.Lists Maths.BinCodec Maths.BinCodecProofs Maths.AsciiCodec Maths.IOFront.
Require Import ZifyBool.
Local Open Scope Z_scope.

(* ReadTag hands a good stream positioned at the start to the format reader, whatever the file length *)
Lemma read_tag_stream bs : snd (read_tag bs) = {| s_pos := 0; s_fail := false |}.
Proof. unfold read_tag. cbn [snd s_fail s_pos]. rewrite Z.sub_diag. reflexivity. Qed.

Lemma load_bin_first order k fl :
  load order 0 k fl = match decode_as k (f_bytes fl) with
                      | Ok o => Ok o
                      | Err e => if caught e then auto_attempt order k fl else Err e
                      end.
Proof.
  unfold load, first_attempt. cbn [fmt_of_suffix Z.eqb].
  destruct (read_tag (f_bytes fl)) as [tag st] eqn:E.
  assert (S := read_tag_stream (f_bytes fl)). rewrite E in S. cbn [snd] in S. subst st.
  cbn [identify try_io bin_read s_fail s_pos Z.to_nat skipn]. reflexivity.
Qed.

(* save then load through a ".bin" name: every representable object comes back, files below 32 bytes included *)
Theorem small_file_roundtrip order o ls a :
  wf o -> ~ ambiguous o ->
  load order 0 (kind_of o) {| f_bytes := encode o; f_lines := ls; f_ascii := a |} = Ok o.
Proof. intros W NA. rewrite load_bin_first. cbn [f_bytes]. rewrite bin_roundtrip by assumption. reflexivity. Qed.

(* whatever a ".bin" load returns through its first attempt is the saved object *)
Theorem load_bin_never_misreads order o o' ls a :
  wf o -> decode_as (kind_of o) (encode o) = Ok o' ->
  load order 0 (kind_of o) {| f_bytes := encode o; f_lines := ls; f_ascii := a |} = Ok o.
Proof.
  intros W D. rewrite load_bin_first. cbn [f_bytes]. rewrite D. f_equal. eapply bin_never_misreads; eauto.
Qed.

(* ---- C19: the front end on a strict prefix ---- *)
Lemma auto_attempt_err order k fl :
  (forall f, In f order -> f <> FBin -> identify f (fst (read_tag (f_bytes fl))) fl = false) ->
  (exists e, decode_as k (f_bytes fl) = Err e) ->
  exists e, auto_attempt order k fl = Err e.
Proof.
  intros Hid [e0 He]. induction order as [|f t IH]; cbn [auto_attempt]; [eauto|].
  destruct (read_tag (f_bytes fl)) as [tag st] eqn:E.
  assert (S := read_tag_stream (f_bytes fl)). rewrite E in S. cbn [snd] in S. subst st.
  destruct f.
  - cbn [identify try_io bin_read s_fail s_pos Z.to_nat skipn]. rewrite He. eauto.
  - assert (I := Hid FTxt (or_introl eq_refl) ltac:(discriminate)). cbn [fst] in I. rewrite I.
    apply IH. intros f Hf. apply Hid. right; exact Hf.
  - assert (I := Hid FTex (or_introl eq_refl) ltac:(discriminate)). cbn [fst] in I. rewrite I.
    apply IH. intros f Hf. apply Hid. right; exact Hf.
  - assert (I := Hid FMat (or_introl eq_refl) ltac:(discriminate)). cbn [fst] in I. rewrite I.
    apply IH. intros f Hf. apply Hid. right; exact Hf.
Qed.

Theorem load_prefix_rejected_partial order o m ls :
  wf o -> kind_of o <> KSparse -> (m < length (encode o))%nat ->
  (forall f, In f order -> f <> FBin ->
     identify f (fst (read_tag (firstn m (encode o)))) {| f_bytes := firstn m (encode o); f_lines := ls; f_ascii := false |} = false) ->
  exists e, load order 0 (kind_of o) {| f_bytes := firstn m (encode o); f_lines := ls; f_ascii := false |} = Err e.
Proof.
  intros W NS Hm Hid. rewrite load_bin_first. cbn [f_bytes].
  destruct (bin_strict_prefix_rejected o m W NS Hm) as [e He]. rewrite He.
  destruct (caught e); [|eauto].
  apply auto_attempt_err; [exact Hid|]. cbn [f_bytes]. eauto.
Qed.

(* ---- text files through the front end ---- *)
From OM Require Import Maths.AsciiCodecProofs.

(* an empty file (what save writes for a 0-vector or a matrix with a zero dimension) is never offered to the text
   reader (it does not start with a number): load fails whatever the kind and the detection order *)
Lemma auto_attempt_empty order k ls : exists e, auto_attempt order k {| f_bytes := []; f_lines := ls; f_ascii := false |} = Err e.
Proof. induction order as [|f t IH]; cbn [auto_attempt]; [eauto|]. destruct f; cbn; eauto. Qed.

Theorem txt_empty_file_rejected order k ls :
  exists e, load order 1 k {| f_bytes := []; f_lines := ls; f_ascii := false |} = Err e.
Proof. unfold load, first_attempt. cbn. apply auto_attempt_empty. Qed.

(* a file that starts with a number and not with the MATLAB magic is read by the text reader and by nothing else,
   for the detection order of the library (matlab, ascii, tex, binary) *)
Theorem txt_load_is_codec k fl :
  f_ascii fl = true -> forallb is_text (fst (read_tag (f_bytes fl))) = true ->
  starts_with MAGIC_MAT (fst (read_tag (f_bytes fl))) = false ->
  load [FMat; FTxt; FTex; FBin] 1 k fl = txt_decode k (f_lines fl).
Proof.
  intros Ha Ht Hm. unfold load, first_attempt. cbn [fmt_of_suffix Z.eqb Pos.eqb].
  destruct (read_tag (f_bytes fl)) as [tag st] eqn:E. cbn [fst] in Hm, Ht.
  cbn [identify try_io]. rewrite Ha, Ht. cbn [andb].
  destruct (txt_decode k (f_lines fl)) as [o|e] eqn:D; [reflexivity|].
  destruct (caught e); [|reflexivity].
  cbn [auto_attempt]. rewrite E. cbn [identify try_io]. rewrite Hm, Ha, Ht. cbn [andb]. exact D.
Qed.

(* ---- conversions between formats: composition of the round trips ---- *)
Section Convert.
  Variable rnd6 : Z -> Z.
  Variable dofz : Z -> Z.
  Hypothesis rnd6_idem : forall w, rnd6 (rnd6 w) = rnd6 w.
  Hypothesis rnd6_word : forall w, word w -> word (rnd6 w).

  Lemma sorted_round es : sorted_keys es -> sorted_keys (map (fun e : Z * Z * Z => (fst e, rnd6 (snd e))) es).
  Proof.
    induction es as [|[k v] t IH]; [trivial|]. cbn [map sorted_keys fst snd]. intros [H1 H2]. split; [|apply IH; exact H2].
    destruct t as [|[k' v'] t']; [trivial|exact H1].
  Qed.

  Lemma wf_round o : wf o -> wf (round_obj rnd6 o).
  Proof.
    destruct o as [vs|nl nc vs|n vs|nl nc es]; cbn [wf round_obj]; rewrite ?map_length.
    - intros [H1 H2]. split; [exact H1|]. apply Forall_map. eapply Forall_impl; [|exact H2]. auto.
    - intros (H1 & H2 & H3 & H4 & H5). repeat split; try assumption; try lia. apply Forall_map. eapply Forall_impl; [|exact H5]. auto.
    - intros (H1 & H2 & H3 & H4). repeat split; try assumption. apply Forall_map. eapply Forall_impl; [|exact H4]. auto.
    - intros (H1 & H2 & H3 & H4). repeat split; try assumption; try lia. { apply sorted_round; exact H3. }
      apply Forall_map. eapply Forall_impl; [|exact H4]. cbn [fst snd]. intros e (A & B & C). auto.
  Qed.

  Lemma ambiguous_round o : ambiguous (round_obj rnd6 o) <-> ambiguous o.
  Proof. destruct o; cbn [ambiguous round_obj]; rewrite ?map_length; tauto. Qed.

  (* bin -> txt, txt -> bin, txt -> txt: the object arrives with its values rounded once to six digits *)
  Theorem convert_preserves o : wf o -> wf_txt o -> ~ ambiguous o -> ~ txt_rejected_shape o -> ~ txt_empty_full o ->
    (forall o1, decode_as (kind_of o) (encode o) = Ok o1 ->
       txt_decode (kind_of o1) (view rnd6 dofz (txt_encode o1)) = Ok (round_obj rnd6 o)) /\
    (forall o1, txt_decode (kind_of o) (view rnd6 dofz (txt_encode o)) = Ok o1 ->
       decode_as (kind_of o1) (encode o1) = Ok (round_obj rnd6 o) /\
       txt_decode (kind_of o1) (view rnd6 dofz (txt_encode o1)) = Ok (round_obj rnd6 o)).
  Proof.
    intros W Wt NA NR NE. split.
    - intros o1 D. rewrite bin_roundtrip in D by assumption. inversion D; subst o1. apply txt_roundtrip; assumption.
    - intros o1 D. rewrite (txt_roundtrip rnd6 dofz o Wt NR NE) in D. inversion D; subst o1. split.
      + apply bin_roundtrip; [apply wf_round; exact W|rewrite ambiguous_round; exact NA].
      + transitivity (Ok (round_obj rnd6 (round_obj rnd6 o))); [|rewrite (round_obj_idem rnd6 rnd6_idem o); reflexivity].
        apply txt_roundtrip.
        * destruct o; cbn [wf_txt round_obj] in *; rewrite ?map_length; try assumption.
          destruct Wt as [S1 S2]. split; [apply sorted_round; exact S1|]. apply Forall_map. eapply Forall_impl; [|exact S2]. cbn [fst snd]. auto.
        * destruct o; cbn [txt_rejected_shape round_obj] in *; rewrite ?map_length; try assumption.
          intro H. apply NR. destruct es; [reflexivity|discriminate].
        * destruct o; cbn [txt_empty_full round_obj] in *; assumption.
  Qed.
End Convert.


(* ---- the format named by a path is the one of the suffix after its LAST dot, whatever dots come before ---- *)
Lemma after_last_dot_none ext : ~ In 46 ext -> after_last_dot ext = None.
Proof.
  induction ext as [|c t IH]; intros H; [reflexivity|]. cbn [after_last_dot]. rewrite IH by (intro K; apply H; right; exact K).
  replace (c =? 46) with false; [reflexivity|]. symmetry. apply Z.eqb_neq. intro E. apply H. left. exact E.
Qed.
Theorem suffix_after_last_dot pre ext : ~ In 46 ext -> after_last_dot (pre ++ 46 :: ext) = Some ext.
Proof.
  intros H. induction pre as [|c t IH]; cbn [app after_last_dot].
  - rewrite after_last_dot_none by exact H. reflexivity.
  - rewrite IH. reflexivity.
Qed.
Theorem format_from_last_suffix pre ext : ~ In 46 ext -> fmt_of_path (pre ++ 46 :: ext) = fmt_of_suffix (suffix_class ext).
Proof. intros H. unfold fmt_of_path, suffix_of_path. rewrite suffix_after_last_dot by exact H. reflexivity. Qed.
