(* Lemmas about the front end model (C07 small files, C19 fallback). *)
From OM Require Import Base.Lists Maths.BinCodec Maths.BinCodecProofs Maths.AsciiCodec Maths.IOFront.
Require Import ZifyBool.
Local Open Scope Z_scope.

(* ReadTag hands a good stream positioned at the start to the format reader, whatever the file length *)
Lemma read_tag_stream bs : snd (read_tag bs) = {| s_pos := 0; s_fail := false |}.
Proof. unfold read_tag. cbn [snd s_fail s_pos]. rewrite Z.sub_diag. reflexivity. Qed.

Lemma load_bin_first order k fl :
  load order 0 k fl = match decode_as k (f_bytes fl) with
                      | Ok o => Ok o
                      | Err e => if caught e then auto_attempt order k fl else Err e
                      end.
Proof.
  unfold load, first_attempt. cbn [fmt_of_suffix Z.eqb].
  destruct (read_tag (f_bytes fl)) as [tag st] eqn:E.
  assert (S := read_tag_stream (f_bytes fl)). rewrite E in S. cbn [snd] in S. subst st.
  cbn [identify try_io bin_read s_fail s_pos Z.to_nat skipn]. reflexivity.
Qed.

(* save then load through a ".bin" name: every representable object comes back, files below 32 bytes included *)
Theorem small_file_roundtrip order o ls a :
  wf o -> ~ ambiguous o ->
  load order 0 (kind_of o) {| f_bytes := encode o; f_lines := ls; f_ascii := a |} = Ok o.
Proof. intros W NA. rewrite load_bin_first. cbn [f_bytes]. rewrite bin_roundtrip by assumption. reflexivity. Qed.

(* whatever a ".bin" load returns through its first attempt is the saved object *)
Theorem load_bin_never_misreads order o o' ls a :
  wf o -> decode_as (kind_of o) (encode o) = Ok o' ->
  load order 0 (kind_of o) {| f_bytes := encode o; f_lines := ls; f_ascii := a |} = Ok o.
Proof.
  intros W D. rewrite load_bin_first. cbn [f_bytes]. rewrite D. f_equal. eapply bin_never_misreads; eauto.
Qed.

(* ---- C19: the front end on a strict prefix ---- *)
Lemma auto_attempt_err order k fl :
  (forall f, In f order -> f <> FBin -> identify f (fst (read_tag (f_bytes fl))) fl = false) ->
  (exists e, decode_as k (f_bytes fl) = Err e) ->
  exists e, auto_attempt order k fl = Err e.
Proof.
  intros Hid [e0 He]. induction order as [|f t IH]; cbn [auto_attempt]; [eauto|].
  destruct (read_tag (f_bytes fl)) as [tag st] eqn:E.
  assert (S := read_tag_stream (f_bytes fl)). rewrite E in S. cbn [snd] in S. subst st.
  destruct f.
  - cbn [identify try_io bin_read s_fail s_pos Z.to_nat skipn]. rewrite He. eauto.
  - assert (I := Hid FTxt (or_introl eq_refl) ltac:(discriminate)). cbn [fst] in I. rewrite I.
    apply IH. intros f Hf. apply Hid. right; exact Hf.
  - assert (I := Hid FTex (or_introl eq_refl) ltac:(discriminate)). cbn [fst] in I. rewrite I.
    apply IH. intros f Hf. apply Hid. right; exact Hf.
  - assert (I := Hid FMat (or_introl eq_refl) ltac:(discriminate)). cbn [fst] in I. rewrite I.
    apply IH. intros f Hf. apply Hid. right; exact Hf.
Qed.

Theorem load_prefix_rejected_partial order o m ls :
  wf o -> kind_of o <> KSparse -> (m < length (encode o))%nat ->
  (forall f, In f order -> f <> FBin ->
     identify f (fst (read_tag (firstn m (encode o)))) {| f_bytes := firstn m (encode o); f_lines := ls; f_ascii := false |} = false) ->
  exists e, load order 0 (kind_of o) {| f_bytes := firstn m (encode o); f_lines := ls; f_ascii := false |} = Err e.
Proof.
  intros W NS Hm Hid. rewrite load_bin_first. cbn [f_bytes].
  destruct (bin_strict_prefix_rejected o m W NS Hm) as [e He]. rewrite He.
  destruct (caught e); [|eauto].
  apply auto_attempt_err; [exact Hid|]. cbn [f_bytes]. eauto.
Qed.
