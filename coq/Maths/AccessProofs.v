(* C18 (a): the guards and index formulas TRANSLATED FROM THE SOURCE (Gen/GenAccessors.v, 32/64-bit wrap-around explicit)
   keep every access inside its buffer, reject exactly the out-of-range requests, and coincide with the guards of the
   executable model of C13 (so the C13 theorems "no Undef" apply to the operators as written in the source). *)
From OM Require Import Base.Lists Maths.Dense Maths.DenseModel Maths.DenseProofs Gen.GenAccessors.
Require Import ZifyBool ZifyNat.
Local Open Scope Z_scope.

Definition u32 (x : Z) : Prop := 0 <= x < W32.

(* outcome of a guarded element access: the assertion macro throws when the condition is false; otherwise the
   buffer (size cells) is indexed with idx *)
Definition access (guard : bool) (idx size : Z) : res Z :=
  if guard then (if (0 <=? idx) && (idx <? size) then Ok idx else Undef) else Throw.

Lemma mod_le_self a b : 0 <= a -> 0 < b -> a mod b <= a.
Proof. intros. apply Z.mod_le; auto. Qed.

(* ---- Vector ---- *)
Lemma vector_access n c i : u32 n -> u32 i ->
  access (Vector_get_guard n c i) (Vector_get_index n c i) (Vector_size n c) = if i <? n then Ok i else Throw.
Proof.
  unfold u32, access, Vector_get_guard, Vector_get_index, Vector_size. intros Hn Hi.
  destruct (i <? n) eqn:E; [|reflexivity].
  replace (0 <=? i) with true by lia. reflexivity.
Qed.
Lemma vector_ref_same n c i : Vector_ref_guard n c i = Vector_get_guard n c i /\ Vector_ref_index n c i = Vector_get_index n c i.
Proof. split; reflexivity. Qed.

(* ---- Matrix: never out of bounds, throws exactly outside the matrix ---- *)
Lemma matrix_slot n m i j : u32 n -> u32 m -> 0 <= i < n -> 0 <= j < m -> Matrix_get_index n m i j = i + n * j.
Proof.
  unfold u32, Matrix_get_index, W32, W64. intros Hn Hm Hi Hj.
  assert (H1 : 0 <= n * j) by (apply Z.mul_nonneg_nonneg; lia).
  assert (H2 : n * j <= 4294967295 * 4294967295) by (apply Z.mul_le_mono_nonneg; lia).
  rewrite (Z.mod_small (n * j)) by lia. rewrite Z.mod_small by lia. reflexivity.
Qed.

Lemma matrix_index_bound n m i j : u32 n -> u32 m -> 0 <= i < n -> 0 <= j < m ->
  0 <= Matrix_get_index n m i j < Matrix_size n m.
Proof.
  intros Hn Hm Hi Hj. rewrite matrix_slot by auto. unfold u32, Matrix_size, W32, W64 in *.
  assert (H1 : 0 <= n * m) by (apply Z.mul_nonneg_nonneg; lia).
  assert (H2 : n * m <= 4294967295 * 4294967295) by (apply Z.mul_le_mono_nonneg; lia).
  rewrite Z.mod_small by lia. nia.
Qed.

Lemma matrix_access n m i j : u32 n -> u32 m -> u32 i -> u32 j ->
  access (Matrix_get_guard n m i j) (Matrix_get_index n m i j) (Matrix_size n m) =
  if (i <? n) && (j <? m) then Ok (Matrix_get_index n m i j) else Throw.
Proof.
  intros Hn Hm Hi Hj. unfold access. unfold Matrix_get_guard at 1.
  destruct ((i <? n) && (j <? m))%bool eqn:E; [|reflexivity].
  unfold u32 in *. pose proof (matrix_index_bound n m i j Hn Hm ltac:(lia) ltac:(lia)).
  replace ((0 <=? Matrix_get_index n m i j) && (Matrix_get_index n m i j <? Matrix_size n m))%bool with true by lia. reflexivity.
Qed.

Lemma matrix_ref_same n m i j : Matrix_ref_guard n m i j = Matrix_get_guard n m i j /\ Matrix_ref_index n m i j = Matrix_get_index n m i j.
Proof. split; reflexivity. Qed.

(* ---- SymMatrix ---- *)
(* hand copy of the PINNED formulas (32-bit products), kept as the regression witness *)
Definition Sym_size_pinned (nlin : Z) : Z := (((nlin * ((nlin + 1) mod W32)) mod W32) / 2).
Definition Sym_index_pinned (i j : Z) : Z :=
  if i <=? j then ((i + (((j * ((j + 1) mod W32)) mod W32) / 2)) mod W32) else ((j + (((i * ((i + 1) mod W32)) mod W32) / 2)) mod W32).
Lemma sym_access_pinned_refuted : exists n i j, u32 n /\ 0 <= i < n /\ 0 <= j < n /\
  access true (Sym_index_pinned i j) (Sym_size_pinned n) = Undef.
Proof. exists 65536, 0, 65535. unfold u32, W32. repeat split; try lia. Qed.
Lemma sym_aliasing_pinned_refuted : exists i j i' j', i <= j /\ i' <= j' /\ j < W32 /\ j' < W32 /\ (i, j) <> (i', j') /\
  Sym_index_pinned i j = Sym_index_pinned i' j'.
Proof. exists 329, 332, 0, 92682. unfold W32. repeat split; try lia. intro H; inversion H. Qed.

Lemma tri_bound i j n : 0 <= i <= j -> j < n -> i + j * (j + 1) / 2 < n * (n + 1) / 2.
Proof.
  intros Hi Hj.
  assert (E1 : (j + 1) * (j + 2) / 2 = j * (j + 1) / 2 + (j + 1)).
  { replace ((j + 1) * (j + 2)) with (j * (j + 1) + (j + 1) * 2) by ring. rewrite Z.div_add by lia. reflexivity. }
  assert (E2 : (j + 1) * (j + 2) / 2 <= n * (n + 1) / 2).
  { apply Z.div_le_mono; [lia|]. nia. }
  lia.
Qed.

Lemma sym_index_bound n i j : u32 n -> 0 <= i < n -> 0 <= j < n ->
  0 <= Sym_get_index n n i j < Sym_size n n.
Proof.
  unfold u32, Sym_get_index, Sym_size, W32, W64. intros Hn Hi Hj.
  assert (P : forall a b, 0 <= a <= b -> b < n ->
                0 <= (a + (b * ((b + 1) mod 4294967296)) mod 18446744073709551616 / 2) mod 18446744073709551616
                < (n * ((n + 1) mod 18446744073709551616)) mod 18446744073709551616 / 2).
  { intros a b Ha Hb.
    rewrite (Z.mod_small (b + 1)) by lia. rewrite (Z.mod_small (n + 1)) by lia.
    rewrite (Z.mod_small (b * (b + 1))) by nia. rewrite (Z.mod_small (n * (n + 1))) by nia.
    pose proof (tri_bound a b n Ha Hb).
    assert (0 <= b * (b + 1) / 2) by (apply Z.div_pos; nia).
    assert (n * (n + 1) / 2 < 18446744073709551616) by (apply Z.div_lt_upper_bound; nia).
    rewrite Z.mod_small by lia. lia. }
  destruct (Z.leb_spec i j).
  - apply P; lia.
  - apply P; lia.
Qed.

Lemma sym_access n i j : u32 n -> u32 i -> u32 j ->
  access (Sym_get_guard n n i j) (Sym_get_index n n i j) (Sym_size n n) =
  if (i <? n) && (j <? n) then Ok (Sym_get_index n n i j) else Throw.
Proof.
  intros Hn Hi Hj. unfold access. unfold Sym_get_guard at 1.
  destruct ((i <? n) && (j <? n))%bool eqn:E; [|reflexivity].
  unfold u32 in *. pose proof (sym_index_bound n i j Hn ltac:(lia) ltac:(lia)).
  replace ((0 <=? Sym_get_index n n i j) && (Sym_get_index n n i j <? Sym_size n n))%bool with true by lia. reflexivity.
Qed.

(* the slot is the packed one of the C13 model, and symmetric *)
Lemma sym_slot n i j : u32 n -> 0 <= i < n -> 0 <= j < n ->
  Sym_get_index n n i j = Z.of_nat (pidx (Z.to_nat i) (Z.to_nat j)).
Proof.
  unfold u32, Sym_get_index, W32, W64. intros Hn Hi Hj.
  assert (P : forall a b, 0 <= a <= b -> b < n ->
     (a + (b * ((b + 1) mod 4294967296)) mod 18446744073709551616 / 2) mod 18446744073709551616
     = Z.of_nat (Z.to_nat a + Z.to_nat b * (Z.to_nat b + 1) / 2)).
  { intros a b Ha Hb.
    rewrite (Z.mod_small (b + 1)) by lia. rewrite (Z.mod_small (b * (b + 1))) by nia.
    assert (0 <= b * (b + 1) / 2) by (apply Z.div_pos; nia).
    assert (b * (b + 1) / 2 < 9223372036854775808) by (apply Z.div_lt_upper_bound; nia).
    rewrite Z.mod_small by (generalize dependent (b * (b + 1) / 2); intros; lia).
    rewrite Nat2Z.inj_add, Nat2Z.inj_div, Nat2Z.inj_mul, Nat2Z.inj_add. rewrite !Z2Nat.id by lia. reflexivity. }
  unfold pidx. destruct (Z.leb_spec i j), (Nat.leb_spec (Z.to_nat i) (Z.to_nat j)); try lia.
  - apply P; lia.
  - apply P; lia.
Qed.
Lemma sym_ref_same n i j : Sym_ref_guard n n i j = Sym_get_guard n n i j /\ Sym_ref_index n n i j = Sym_get_index n n i j.
Proof. split; reflexivity. Qed.

(* ---- SparseMatrix: a map, no buffer: the guard is exactly the range ---- *)
Lemma sparse_guard n m i j : Sparse_get_guard n m i j = ((i <? n) && (j <? m))%bool /\ Sparse_ref_guard n m i j = ((i <? n) && (j <? m))%bool.
Proof. split; reflexivity. Qed.

(* ---- range guards: exact (no wrap-around) ---- *)
Lemma matrix_submat_guard_exact n m a s b t : u32 n -> u32 m -> u32 a -> u32 s -> u32 b -> u32 t ->
  Matrix_submat_guard n m a s b t = ((a + s <=? n) && (b + t <=? m))%bool.
Proof.
  unfold u32, Matrix_submat_guard, W32. intros.
  destruct (Z.leb_spec a n), (Z.leb_spec b m); cbn [andb];
    try rewrite (Z.mod_small (n - a)) by lia; try rewrite (Z.mod_small (m - b)) by lia; lia.
Qed.
Lemma matrix_insertmat_guard_exact n m a b bn bm bs : u32 n -> u32 m -> u32 a -> u32 b -> u32 bn -> u32 bm ->
  Matrix_insertmat_guard n m a b bn bm bs = ((a + bn <=? n) && (b + bm <=? m))%bool.
Proof.
  unfold u32, Matrix_insertmat_guard, W32. intros.
  destruct (Z.leb_spec a n), (Z.leb_spec b m); cbn [andb];
    try rewrite (Z.mod_small (n - a)) by lia; try rewrite (Z.mod_small (m - b)) by lia; lia.
Qed.
Lemma sym_submat2_guard_exact n a b : Sym_submat2_guard n n a b = ((a <? b) && (b <? n))%bool.
Proof. reflexivity. Qed.
Lemma row_col_guards n m k vs vn vm :
  Matrix_getcol_guard n m k = (k <? m) /\ Matrix_getlin_guard n m k = (k <? n) /\ Sym_getlin_guard n n k = (k <? n) /\
  Matrix_setcol_guard n m k vn vm vs = ((vs =? n) && (k <? m))%bool /\ Matrix_setlin_guard n m k vn vm vs = ((vs =? m) && (k <? n))%bool /\
  Sym_setlin_guard n n k vn vm vs = ((vs =? n) && (k <? n))%bool.
Proof. repeat split; reflexivity. Qed.

(* Vector::subvect and SymMatrix::submat(4) still add in 32 bits; a wrapped request passes the range assertion but
   is caught by the assertion of the element accessor it goes through *)
Lemma subvect_wrap_caught n c a s : u32 n -> u32 a -> u32 s ->
  Vector_subvect_guard n c a s = true -> n < a + s ->
  exists i, 0 <= i < s /\ Vector_get_guard n c ((a + i) mod W32) = false.
Proof.
  unfold u32, Vector_subvect_guard, Vector_get_guard, W32. intros Hn Ha Hs G L.
  assert (W : 4294967296 <= a + s).
  { destruct (Z_lt_ge_dec (a + s) 4294967296); [|lia]. rewrite Z.mod_small in G by lia. lia. }
  destruct (Z_lt_ge_dec a n) as [Q|Q].
  - exists (n - a). split; [lia|]. rewrite Z.mod_small by lia. lia.
  - exists 0. split; [lia|]. rewrite Z.add_0_r, Z.mod_small by lia. lia.
Qed.
Lemma subvect_guard_exact_when_no_wrap n c a s : u32 n -> u32 a -> u32 s -> a + s < W32 ->
  Vector_subvect_guard n c a s = (a + s <=? n).
Proof. unfold u32, Vector_subvect_guard, W32. intros. rewrite Z.mod_small by lia. reflexivity. Qed.
Lemma sym_submat4_wrap_caught n a s b t : u32 n -> u32 a -> u32 s -> u32 b -> u32 t ->
  Sym_submat4_guard n n a s b t = true -> (n < a + s \/ n < b + t) -> 0 < s -> 0 < t ->
  exists i j, 0 <= i < s /\ 0 <= j < t /\ Sym_get_guard n n ((a + i) mod W32) ((b + j) mod W32) = false.
Proof.
  unfold u32, Sym_submat4_guard, Sym_get_guard, W32. intros Hn Ha Hs Hb Ht G L Ps Pt.
  destruct L as [L|L].
  - assert (W : 4294967296 <= a + s).
    { destruct (Z_lt_ge_dec (a + s) 4294967296); [|lia]. rewrite (Z.mod_small (a + s)) in G by lia. lia. }
    destruct (Z_lt_ge_dec a n) as [Q|Q].
    + exists (n - a), 0. replace (a + (n - a)) with n by lia. rewrite (Z.mod_small n) by lia. repeat split; lia.
    + exists 0, 0. rewrite (Z.add_0_r a), (Z.mod_small a) by lia. repeat split; lia.
  - assert (W : 4294967296 <= b + t).
    { destruct (Z_lt_ge_dec (b + t) 4294967296); [|lia]. rewrite (Z.mod_small (b + t)) in G by lia. lia. }
    destruct (Z_lt_ge_dec b n) as [Q|Q].
    + exists 0, (n - b). replace (b + (n - b)) with n by lia. rewrite (Z.mod_small n) by lia. repeat split; lia.
    + exists 0, 0. rewrite (Z.add_0_r b), (Z.mod_small b) by lia. repeat split; lia.
Qed.

(* hand copy of the PINNED Matrix::submat guard: the wrapped sum accepts an out-of-range request *)
Definition Matrix_submat_guard_pinned (nlin ncol istart isize jstart jsize : Z) : bool :=
  ((((istart + isize) mod W32) <=? nlin) && (((jstart + jsize) mod W32) <=? ncol))%bool.
Lemma matrix_submat_guard_pinned_refuted : exists n m a s b t, u32 n /\ u32 m /\ u32 a /\ u32 s /\ u32 b /\ u32 t /\
  Matrix_submat_guard_pinned n m a s b t = true /\ n < a + s.
Proof. exists 3, 4, 4294967295, 2, 0, 1. unfold u32, W32. repeat split; try lia. Qed.

(* ---- operator guards: the assertion of the source IS the guard of the C13 model ---- *)
Local Notation zn := Z.of_nat.
Lemma operator_guards_are_model_guards (A B : dense) (S T : sym) (u v : list Z) sz :
  Matrix_mult_guard (zn (dnl A)) (zn (dnc A)) (zn (dnl B)) (zn (dnc B)) sz = (dnc A =? dnl B)%nat /\
  Matrix_tmult_guard (zn (dnl A)) (zn (dnc A)) (zn (dnl B)) (zn (dnc B)) sz = (dnl A =? dnl B)%nat /\
  Matrix_multt_guard (zn (dnl A)) (zn (dnc A)) (zn (dnl B)) (zn (dnc B)) sz = (dnc A =? dnc B)%nat /\
  Matrix_tmultt_guard (zn (dnl A)) (zn (dnc A)) (zn (dnl B)) (zn (dnc B)) sz = (dnl A =? dnc B)%nat /\
  Matrix_mulv_guard (zn (dnl A)) (zn (dnc A)) (zn (length v)) 1 sz = (dnc A =? length v)%nat /\
  Matrix_tmulv_guard (zn (dnl A)) (zn (dnc A)) (zn (length v)) 1 sz = (dnl A =? length v)%nat /\
  Matrix_mult_sym_guard (zn (dnl A)) (zn (dnc A)) (zn (sn S)) (zn (sn S)) sz = (dnc A =? sn S)%nat /\
  Matrix_iadd_guard (zn (dnl A)) (zn (dnc A)) (zn (dnl B)) (zn (dnc B)) sz = ((dnl A =? dnl B) && (dnc A =? dnc B))%nat /\
  Matrix_isub_guard (zn (dnl A)) (zn (dnc A)) (zn (dnl B)) (zn (dnc B)) sz = ((dnl A =? dnl B) && (dnc A =? dnc B))%nat /\
  Matrix_dot_guard (zn (dnl A)) (zn (dnc A)) (zn (dnl B)) (zn (dnc B)) sz = ((dnl A =? dnl B) && (dnc A =? dnc B))%nat /\
  Sym_mulv_guard (zn (sn S)) (zn (sn S)) (zn (length v)) 1 (zn (length v)) = (sn S =? length v)%nat /\
  Sym_iadd_guard (zn (sn S)) (zn (sn S)) (zn (sn T)) (zn (sn T)) sz = (sn S =? sn T)%nat /\
  Sym_isub_guard (zn (sn S)) (zn (sn S)) (zn (sn T)) (zn (sn T)) sz = (sn S =? sn T)%nat /\
  Sym_mult_sym_guard (zn (sn S)) (zn (sn S)) (zn (sn T)) (zn (sn T)) sz = (sn S =? sn T)%nat /\
  Sym_mult_guard (zn (sn S)) (zn (sn S)) (zn (dnl B)) (zn (dnc B)) sz = (sn S =? dnl B)%nat /\
  Vector_add_guard (zn (length u)) 1 (zn (length v)) 1 sz = (length u =? length v)%nat /\
  Vector_sub_guard (zn (length u)) 1 (zn (length v)) 1 sz = (length u =? length v)%nat /\
  Vector_iadd_guard (zn (length u)) 1 (zn (length v)) 1 sz = (length u =? length v)%nat /\
  Vector_isub_guard (zn (length u)) 1 (zn (length v)) 1 sz = (length u =? length v)%nat /\
  Vector_dot_guard (zn (length u)) 1 (zn (length v)) 1 sz = (length u =? length v)%nat /\
  Vector_kmult_guard (zn (length u)) 1 (zn (length v)) 1 sz = (length u =? length v)%nat /\
  Vector_outer_guard (zn (length u)) 1 (zn (length v)) 1 (zn (length v)) = (length u =? length v)%nat /\
  Vector_mulm_guard (zn (length u)) 1 (zn (dnl B)) (zn (dnc B)) sz = (length u =? dnl B)%nat.
Proof.
  unfold Matrix_mult_guard, Matrix_tmult_guard, Matrix_multt_guard, Matrix_tmultt_guard, Matrix_mulv_guard, Matrix_tmulv_guard,
    Matrix_mult_sym_guard, Matrix_iadd_guard, Matrix_isub_guard, Matrix_dot_guard, Sym_mulv_guard, Sym_iadd_guard, Sym_isub_guard,
    Sym_mult_sym_guard, Sym_mult_guard, Vector_add_guard, Vector_sub_guard, Vector_iadd_guard, Vector_isub_guard, Vector_dot_guard,
    Vector_kmult_guard, Vector_outer_guard, Vector_mulm_guard, Vector_size.
  repeat split; lia.
Qed.

(* with the operands well formed, an operator either throws or returns: no BLAS read or write leaves its buffer,
   no result cell stays unwritten *)
Lemma operator_guard_implies_blas_in_bounds A B S T v : dwf A -> dwf B -> swf S -> swf T ->
  m_mult A B <> Undef /\ m_tmult A B <> Undef /\ m_multt A B <> Undef /\ m_tmultt A B <> Undef /\
  m_mulv A v <> Undef /\ m_tmulv A v <> Undef /\ m_mult_sym A S <> Undef /\ s_mult S B <> Undef /\
  s_mult_sym S T <> Undef /\ s_mulv S v <> Undef /\ m_addsub 1 A B <> Undef /\ m_addsub (-1) A B <> Undef /\
  m_dot A B <> Undef /\ s_addsub 1 S T <> Undef /\ s_addsub (-1) S T <> Undef /\ v_outer v v <> Undef /\ v_mulm v A <> Undef.
Proof.
  intros WA WB WS WT.
  rewrite m_mult_spec, m_tmult_spec, m_multt_spec, m_tmultt_spec, m_mulv_spec, m_tmulv_spec, m_mult_sym_spec, s_mult_spec,
    s_mult_sym_spec, s_mulv_spec, !m_addsub_spec, m_dot_spec, !s_addsub_spec, v_outer_spec, v_mulm_spec by auto.
  repeat split;
    match goal with |- (if ?b then _ else _) <> _ => destruct b; discriminate end.
Qed.

Lemma tmultt_pinned_out_of_bounds : exists A B, dwf A /\ dwf B /\ dnl A = dnc B /\ m_tmultt_pinned A B = Undef.
Proof. exists wA, wB. repeat split. Qed.
