(* C17 — breadth-first search for the shortest distinguishing history of the IO state machine, run inside Coq
   (vm_compute).  A history h and a last operation o distinguish when o gives a different public result in the
   process that ran h than in a fresh process on the file system left by h. *)
From OM Require Import Base.Lists Maths.IOState Maths.IOStateProofs.
Local Open Scope Z_scope.

Fixpoint fmts_eqb (a b : list fmt) : bool :=
  match a, b with
  | [], [] => true
  | x :: a', y :: b' => fmt_eqb x y && fmts_eqb a' b'
  | _, _ => false
  end.
Definition result_eqb (r s : Z * list fmt) : bool := (fst r =? fst s) && fmts_eqb (snd r) (snd s).

Definition distinguishes (c : cfg) (W : world) (fs : fsys) (h : list op) (o : op) : bool :=
  negb (result_eqb (snd (inproc_after c W h o fs)) (snd (fresh_after c W h o fs))).

(* all histories of length n over the alphabet, in lexicographic order *)
Fixpoint histories (alphabet : list op) (n : nat) : list (list op) :=
  match n with
  | O => [[]]
  | S n' => flat_map (fun o => map (cons o) (histories alphabet n')) alphabet
  end.

Definition search_len (c : cfg) (W : world) (fs : fsys) (alphabet : list op) (n : nat) : option (list op * op) :=
  find (fun p => distinguishes c W fs (fst p) (snd p))
       (flat_map (fun h => map (fun o => (h, o)) alphabet) (histories alphabet n)).

(* shortest first: lengths 0 .. maxlen *)
Fixpoint bfs_from (c : cfg) (W : world) (fs : fsys) (alphabet : list op) (n fuel : nat) : option (list op * op) :=
  match fuel with
  | O => None
  | S f => match search_len c W fs alphabet n with
           | Some w => Some w
           | None => bfs_from c W fs alphabet (S n) f
           end
  end.
Definition bfs (c : cfg) (W : world) (fs : fsys) (alphabet : list op) (maxlen : nat) : option (list op * op) :=
  bfs_from c W fs alphabet 0 (S maxlen).

(* alphabet over the reference world of IOStateProofs (names 0:"x.txt" absent, 1:"v.xyz" MATLAB vector, 2:"m.tex", 3:"a.xyz" = "asc") *)
Definition alpha_ref : list op :=
  [Load KMat 0%nat; Load KVec 1%nat; Load KMat 2%nat; Load KMat 3%nat; Info 1%nat; Info 3%nat; ReadAs 1 KMat 0%nat].

Lemma result_eqb_true : forall r s, result_eqb r s = true -> r = s.
Proof.
  intros [a l] [b m]; unfold result_eqb; simpl. intros H. apply andb_prop in H. destruct H as [H1 H2].
  apply Z.eqb_eq in H1. subst. f_equal. revert m H2. induction l as [|x l IH]; intros [|y m] H; simpl in *; try discriminate; auto.
  apply andb_prop in H. destruct H as [Hx Hl]. f_equal; [destruct x, y; simpl in *; congruence | apply IH; auto].
Qed.

(* no history of length 0 distinguishes (by definition: both sides start from a fresh process) *)
Lemma no_witness_of_length_0 : forall c W fs o, distinguishes c W fs [] o = false.
Proof.
  intros. unfold distinguishes, inproc_after, fresh_after. simpl.
  assert (H : forall r, result_eqb r r = true).
  { intros [a l]. unfold result_eqb. simpl. rewrite Z.eqb_refl. simpl. induction l as [|x l IH]; simpl; auto. rewrite IH. destruct x; reflexivity. }
  rewrite H. reflexivity.
Qed.

(* pinned tree: the search finds a witness of length 1 (one earlier operation); repaired: nothing up to length 3 *)
Lemma bfs_pinned : bfs pinned Wref fsref alpha_ref 4 = Some ([Load KMat 0%nat], Load KVec 1%nat).
Proof. vm_compute. reflexivity. Qed.
Lemma bfs_open_fix_only : bfs {| consume_before_open := true; tag_at_gcount := false; whole_tag := false |} Wref fsref alpha_ref 4 = Some ([Load KMat 2%nat], Load KMat 3%nat).
Proof. vm_compute. reflexivity. Qed.
Lemma bfs_repaired : bfs repaired Wref fsref alpha_ref 3 = None.
Proof. vm_compute. reflexivity. Qed.
