(* C18 (c): an output stream with a capacity (device full after k bytes) and the save path of OpenMEEGMaths:
   open; the format's writer emits chunks; return.  A write that does not fit stores what fits and sets the
   stream's fail state; later writes are ignored (std::ostream semantics).  No proofs here. *)
From OM Require Import Base.Lists.
Local Open Scope Z_scope.

Record ostream := { cap : Z; failed : bool; written : Z }.
Definition sopen (k : Z) : ostream := {| cap := k; failed := false; written := 0 |}.
Definition swrite (s : ostream) (len : Z) : ostream :=
  if failed s then s
  else if len <=? cap s then {| cap := cap s - len; failed := false; written := written s + len |}
  else {| cap := 0; failed := true; written := written s + cap s |}.
Definition run_writer (chunks : list Z) (s : ostream) : ostream := fold_left swrite chunks s.

Inductive outcome := Saved | Reported.
(* operator<<(maths::ofstream&,const LinOp&) as pinned: the writer runs, nobody looks at the stream *)
Definition save_pinned (openable : bool) (chunks : list Z) (k : Z) : outcome * Z :=
  if openable then (Saved, written (run_writer chunks (sopen k))) else (Reported, 0).
(* as repaired: the stream state is tested after the writer (flush included) *)
Definition save (openable : bool) (chunks : list Z) (k : Z) : outcome * Z :=
  if openable then let s := run_writer chunks (sopen k) in ((if failed s then Reported else Saved), written s) else (Reported, 0).
