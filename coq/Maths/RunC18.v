(* EXTRACT-Z: c18 run_c18 *)
(* Executable entry point for C18: evaluates the guards / index formulas GENERATED from the source on concrete
   arguments (compared with what the real accessor does), the lookup and I/O outcome models and the
   capacity-limited output stream. *)
From OM Require Import Base.Lists Base.Wire Gen.GenAccessors Geom.Lookups Maths.WriteFault.
Local Open Scope Z_scope.

Definition b2z (b : bool) : Z := if b then 1 else 0.
Definition out_access (g : bool) (idx size : Z) : wire :=
  if g then (if (0 <=? idx) && (idx <? size) then [1; idx] else [4; idx]) else [0; -1].
Definition out_guard (g : bool) : wire := [b2z g; -1].

(* [id; nlin; ncol; args...] *)
Definition run_access (w : wire) : wire :=
  match w with
  | [1; n; c; i] => out_access (Vector_get_guard n c i) (Vector_get_index n c i) (Vector_size n c)
  | [2; n; c; i] => out_access (Vector_ref_guard n c i) (Vector_ref_index n c i) (Vector_size n c)
  | [3; n; c; i; j] => out_access (Matrix_get_guard n c i j) (Matrix_get_index n c i j) (Matrix_size n c)
  | [4; n; c; i; j] => out_access (Matrix_ref_guard n c i j) (Matrix_ref_index n c i j) (Matrix_size n c)
  | [5; n; c; i; j] => out_access (Sym_get_guard n n i j) (Sym_get_index n n i j) (Sym_size n n)
  | [6; n; c; i; j] => out_access (Sym_ref_guard n n i j) (Sym_ref_index n n i j) (Sym_size n n)
  | [7; n; c; i; j] => out_guard (Sparse_get_guard n c i j)
  | [8; n; c; i; j] => out_guard (Sparse_ref_guard n c i j)
  | [10; n; c; a; s] => out_guard (Vector_subvect_guard n c a s)
  | [11; n; c; a; s; b; t] => out_guard (Matrix_submat_guard n c a s b t)
  | [12; n; c; a; b; bn; bm] => out_guard (Matrix_insertmat_guard n c a b bn bm (bn * bm))
  | [13; n; c; j] => out_guard (Matrix_getcol_guard n c j)
  | [14; n; c; i] => out_guard (Matrix_getlin_guard n c i)
  | [15; n; c; j; vs] => out_guard (Matrix_setcol_guard n c j vs 1 vs)
  | [16; n; c; i; vs] => out_guard (Matrix_setlin_guard n c i vs 1 vs)
  | [17; n; c; i] => out_guard (Sym_getlin_guard n n i)
  | [18; n; c; i; vs] => out_guard (Sym_setlin_guard n n i vs 1 vs)
  | [19; n; c; a; s; b; t] => out_guard (Sym_submat4_guard n n a s b t)
  | [20; n; c; a; b] => out_guard (Sym_submat2_guard n n a b)
  | [30; n; c; bn; bm] => out_guard (Matrix_mult_guard n c bn bm (bn * bm))
  | [31; n; c; bn; bm] => out_guard (Matrix_tmult_guard n c bn bm (bn * bm))
  | [32; n; c; bn; bm] => out_guard (Matrix_multt_guard n c bn bm (bn * bm))
  | [33; n; c; bn; bm] => out_guard (Matrix_tmultt_guard n c bn bm (bn * bm))
  | [34; n; c; vs] => out_guard (Matrix_mulv_guard n c vs 1 vs)
  | [35; n; c; vs] => out_guard (Matrix_tmulv_guard n c vs 1 vs)
  | [36; n; c; sn] => out_guard (Matrix_mult_sym_guard n c sn sn (sn * (sn + 1) / 2))
  | [37; n; c; bn; bm] => out_guard (Matrix_iadd_guard n c bn bm (bn * bm))
  | [38; n; c; bn; bm] => out_guard (Matrix_isub_guard n c bn bm (bn * bm))
  | [39; n; c; bn; bm] => out_guard (Matrix_dot_guard n c bn bm (bn * bm))
  | [40; n; c; vs] => out_guard (Sym_mulv_guard n n vs 1 vs)
  | [41; n; c; sn] => out_guard (Sym_iadd_guard n n sn sn (sn * (sn + 1) / 2))
  | [42; n; c; sn] => out_guard (Sym_isub_guard n n sn sn (sn * (sn + 1) / 2))
  | [43; n; c; sn] => out_guard (Sym_mult_sym_guard n n sn sn (sn * (sn + 1) / 2))
  | [44; n; c; bn; bm] => out_guard (Sym_mult_guard n n bn bm (bn * bm))
  | [45; n; c; vs] => out_guard (Vector_add_guard n 1 vs 1 vs)
  | [46; n; c; vs] => out_guard (Vector_sub_guard n 1 vs 1 vs)
  | [47; n; c; vs] => out_guard (Vector_iadd_guard n 1 vs 1 vs)
  | [48; n; c; vs] => out_guard (Vector_isub_guard n 1 vs 1 vs)
  | [49; n; c; vs] => out_guard (Vector_dot_guard n 1 vs 1 vs)
  | [50; n; c; vs] => out_guard (Vector_kmult_guard n 1 vs 1 vs)
  | [51; n; c; vs] => out_guard (Vector_outer_guard n 1 vs 1 vs)
  | [52; n; c; bn; bm] => out_guard (Vector_mulm_guard n 1 bn bm (bn * bm))
  | [53; n; c] => out_guard (Matrix_inverse_guard n c)
  | _ => [-1]
  end.

Definition out_lres (r : lres) : wire := match r with Found k => [0; zn k] | NotReported => [9] | Thrown => [2] end.

Fixpoint pairs (l : list Z) : list (Z * Z) := match l with a :: b :: t => (a, b) :: pairs t | _ => [] end.
Definition run_c18 (w : wire) : wire :=
  match w with
  | 1 :: w' => run_access w'
  | 2 :: q :: names => out_lres (lookup names q)                                   (* lookup by name *)
  | [3; opens; known; ok_for_suffix; sniffable] => match load_outcome (0 <? opens) (0 <? known) (0 <? ok_for_suffix) (0 <? sniffable) with Found _ => [0] | _ => [2] end
  | [4; opens] => match save_outcome (0 <? opens) with Found _ => [0] | _ => [2] end
  | 5 :: opens :: k :: chunks => let '(o, sz) := save (0 <? opens) chunks k in [match o with Saved => 0 | Reported => 2 end; sz]
  | 6 :: opens :: k :: chunks => let '(o, sz) := save_pinned (0 <? opens) chunks k in [match o with Saved => 0 | Reported => 2 end; sz]
  (* strict format selection: [7; has_dot; suffix; s1; f1; s2; f2; ...] (registered suffix -> format pairs) *)
  | 7 :: dot :: sfx :: tbl => out_lres (format_from_suffix (pairs tbl) (0 <? dot) sfx)
  | _ => [-1]
  end.
