(* Model of OpenMEEGMaths/include/sparse_matrix.h, src/sparse_matrix.cpp,
   Matrix(const SparseMatrix&), Matrix::operator*(SparseMatrix) (src/matrix.cpp)
   and include/fast_sparse_matrix.h.
   The tank is std::map<pair<size_t,size_t>,double>: an association list kept in
   strictly increasing lexicographic key order (= iteration order of the map). *)
From OM Require Import Base.Lists Maths.Dense.
Local Open Scope Z_scope.

Notation key := (nat * nat)%type (only parsing).
Definition klt (a b : key) : bool :=
  ((fst a <? fst b) || ((fst a =? fst b) && (snd a <? snd b)))%nat.
Definition keqb (a b : key) : bool := ((fst a =? fst b) && (snd a =? snd b))%nat.
Definition tank := list (key * Z).

Fixpoint tfind (k : key) (t : tank) : option Z :=
  match t with
  | [] => None
  | (k', v) :: t' => if keqb k k' then Some v else tfind k t'
  end.
Definition tget (k : key) (t : tank) : Z := match tfind k t with Some v => v | None => 0 end.
Fixpoint treplace (k : key) (v : Z) (t : tank) : tank :=
  match t with
  | [] => []
  | (k', v') :: t' => if keqb k k' then (k', v) :: t' else (k', v') :: treplace k v t'
  end.
Fixpoint tinsert (k : key) (v : Z) (t : tank) : tank :=
  match t with
  | [] => [(k, v)]
  | (k', v') :: t' => if klt k k' then (k, v) :: (k', v') :: t' else (k', v') :: tinsert k v t'
  end.
(* m[k] = f(m[k])  with operator[] default-inserting 0.0 *)
Definition tupsert (k : key) (f : Z -> Z) (t : tank) : tank :=
  match tfind k t with
  | Some v => treplace k (f v) t
  | None => tinsert k (f 0) t
  end.

Record sparse := { snl : nat; snc : nat; stank : tank }.
Definition sempty (nl nc : nat) : sparse := {| snl := nl; snc := nc; stank := [] |}.
(* dense view *)
Definition sdn (A : sparse) (i j : nat) : Z := tget (i, j) (stank A).

(* operator()(i,j) const : None = om_assert throws *)
Definition sp_get (A : sparse) (i j : nat) : option Z :=
  if ((i <? snl A) && (j <? snc A))%nat then Some (sdn A i j) else None.
(* operator()(i,j) op= : non-const access default-inserts *)
Definition sp_upd (A : sparse) (i j : nat) (f : Z -> Z) : option sparse :=
  if ((i <? snl A) && (j <? snc A))%nat
  then Some {| snl := snl A; snc := snc A; stank := tupsert (i, j) f (stank A) |} else None.

(* generic "acc[idx] += w" loop over a work list, on a flat buffer *)
Definition accum (work : list (nat * Z)) (acc : list Z) : list Z :=
  fold_left (fun a p => upd a (fst p) (nth (fst p) a 0 + snd p)) work acc.

(* Vector operator*(const Vector& x): Vector ret(nlin()); ret.set(0) [Vector::set asserts nlin()>0];
   ret(i) += val*x(j); x(j) asserts j<x.size() *)
Definition sp_mulv (A : sparse) (x : list Z) : option (list Z) :=
  if (0 <? snl A)%nat && forallb (fun e => (snd (fst e) <? length x)%nat && (fst (fst e) <? snl A)%nat) (stank A)
  then Some (accum (map (fun e => (fst (fst e), snd e * nth (snd (fst e)) x 0)) (stank A)) (repeat 0 (snl A)))
  else None.

(* Matrix operator*(const Matrix& mat) / (const SymMatrix&): out(i,k) += val*mat(j,k) *)
Definition sp_mul_gen (A : sparse) (bnl bnc : nat) (bget : nat -> nat -> Z) : option dense :=
  if (snc A =? bnl)%nat then
    let out := dzero (snl A) bnc in
    Some {| dnl := snl A; dnc := bnc;
            dd := accum (flat_map (fun e => map (fun k => (didx out (fst (fst e)) k, snd e * bget (snd (fst e)) k)) (seq 0 bnc)) (stank A)) (dd out) |}
  else None.
Definition sp_mulm (A : sparse) (B : dense) : option dense := sp_mul_gen A (dnl B) (dnc B) (dget B).
Definition sp_mulsym (A : sparse) (B : sym) : option dense := sp_mul_gen A (sn B) (sn B) (sget B).

(* SparseMatrix operator*(const SparseMatrix&): out(i,c) += a*b for every b in row j of mat *)
Definition sp_mulsp (A B : sparse) : option sparse :=
  if (snc A =? snl B)%nat then
    Some {| snl := snl A; snc := snc B;
            stank := fold_left (fun t e1 =>
                       fold_left (fun t e2 =>
                         if (fst (fst e2) =? snd (fst e1))%nat
                         then tupsert (fst (fst e1), snd (fst e2)) (fun o => o + snd e1 * snd e2) t else t)
                         (stank B) t) (stank A) [] |}
  else None.

(* operator+ (as repaired: second loop runs over the argument) *)
Definition tadd_all (src : tank) (t : tank) : tank :=
  fold_left (fun t e => tupsert (fst e) (fun o => o + snd e) t) src t.
Definition sp_add (A B : sparse) : option sparse :=
  if ((snl A =? snl B) && (snc A =? snc B))%nat
  then Some {| snl := snl A; snc := snc A; stank := tadd_all (stank B) (tadd_all (stank A) []) |}
  else None.

Definition sp_transpose (A : sparse) : sparse :=
  {| snl := snc A; snc := snl A;
     stank := fold_left (fun t e => tupsert (snd (fst e), fst (fst e)) (fun _ => snd e) t) (stank A) [] |}.

Definition sp_getlin (A : sparse) (i : nat) : option (list Z) :=
  if (i <? snl A)%nat then Some (map (fun j => sdn A i j) (seq 0 (snc A))) else None.

(* setlin: this(i,j) = v(j) for j<v.nlin(); asserts j<ncol on each access *)
Definition sp_setlin (A : sparse) (v : list Z) (i : nat) : option sparse :=
  if ((i <? snl A) && (length v <=? snc A))%nat
  then Some {| snl := snl A; snc := snc A;
               stank := fold_left (fun t j => tupsert (i, j) (fun _ => nth j v 0) t) (seq 0 (length v)) (stank A) |}
  else None.

Definition sp_frob2 (A : sparse) : Z := zsum (map (fun e => snd e * snd e) (stank A)).

(* Matrix(const SparseMatrix&) *)
Definition sp_to_dense (A : sparse) : dense :=
  {| dnl := snl A; dnc := snc A;
     dd := fold_left (fun b e => upd b (fst (fst e) + snl A * snd (fst e))%nat (snd e)) (stank A) (repeat 0 (snl A * snc A)) |}.

(* Matrix::operator*(const SparseMatrix& mat): out(k,j) += this(k,i)*val *)
Definition full_mul_sparse (M : dense) (A : sparse) : option dense :=
  if (dnc M =? snl A)%nat then
    let out := dzero (dnl M) (snc A) in
    Some {| dnl := dnl M; dnc := snc A;
            dd := accum (flat_map (fun e => map (fun k => (didx out k (snd (fst e)), dget M k (fst (fst e)) * snd e)) (seq 0 (dnl M))) (stank A)) (dd out) |}
  else None.

(* ---- FastSparseMatrix(const SparseMatrix&) : compressed rows ---- *)
Record csr := { cnl : nat; cnc : nat; cval : list Z; cjs : list nat; crow : list nat }.

(* one step of the construction loop; [next] is current_line+1 (so (size_t)-1 is next=0) *)
Definition csr_step (st : nat * nat * list nat) (e : key * Z) : nat * nat * list nat :=
  let '(cnt, next, row) := st in
  let i := fst (fst e) in
  if (S i =? next)%nat then (S cnt, next, row)
  else (S cnt, S i, fold_left (fun r k => upd r k cnt) (seq next (S i - next)) row).

Definition to_csr (A : sparse) : csr :=
  let '(cnt, next, row) := fold_left csr_step (stank A) (O, O, repeat O (S (snl A))) in
  {| cnl := snl A; cnc := snc A;
     cval := map snd (stank A); cjs := map (fun e => snd (fst e)) (stank A);
     crow := fold_left (fun r k => upd r k (length (stank A))) (seq next (S (snl A) - next)) row |}.

(* operator()(i,j) const: scan row i, js ascending *)
Fixpoint csr_scan (C : csr) (j : nat) (k n : nat) : Z :=
  match n with
  | O => 0
  | S n' => let c := nth k (cjs C) O in
            if (c <? j)%nat then csr_scan C j (S k) n'
            else if (c =? j)%nat then nth k (cval C) 0 else 0
  end.
Definition csr_get (C : csr) (i j : nat) : Z :=
  let a := nth i (crow C) O in let b := nth (S i) (crow C) O in csr_scan C j a (b - a).
(* result.set(0) asserts nlin>0; &v(0) asserts a non-empty argument; no other check *)
Definition csr_mulv (C : csr) (x : list Z) : option (list Z) :=
  if ((0 <? cnl C) && (0 <? length x))%nat then Some (
  map (fun i => let a := nth i (crow C) O in let b := nth (S i) (crow C) O in
                fold_left (fun tot k => tot + nth k (cval C) 0 * nth (nth k (cjs C) O) x 0) (seq a (b - a)) 0)
      (seq 0 (cnl C))) else None.

(* well-formedness of a sparse matrix as any sequence of public operations builds it *)
Inductive tsorted : tank -> Prop :=
| ts_nil : tsorted []
| ts_one e : tsorted [e]
| ts_cons e1 e2 t : klt (fst e1) (fst e2) = true -> tsorted (e2 :: t) -> tsorted (e1 :: e2 :: t).
Definition tbounded (nl nc : nat) (t : tank) : Prop :=
  Forall (fun e => (fst (fst e) < nl)%nat /\ (snd (fst e) < nc)%nat) t.
Definition swf_sp (A : sparse) : Prop := tsorted (stank A) /\ tbounded (snl A) (snc A) (stank A).
