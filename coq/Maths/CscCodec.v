(* C07 -- model of the compressed-column conversion in OpenMEEGMaths/include/MatlabIO.H
   (write_sparse: (i,j)->v map -> (ir, jc, data); read_sparse: back to the map), loops as in the code.
   The libmatio/HDF5 container between the two is assumed faithful.  Model only. *)
From OM Require Import Base.Lists Maths.BinCodec.
Local Open Scope Z_scope.

(* tank_inverted: the same entries keyed (j,i) *)
Definition to_colmajor (es : list (Z * Z * Z)) : list (Z * Z * Z) :=
  fold_left (fun a e => map_set a (snd (fst e), fst (fst e)) (snd e)) es [].

(* the filling loop: jc[k] = cnt for k in (current_col, j] when a new column starts *)
Fixpoint write_loop (ces : list (Z * Z * Z)) (cur cnt : Z) (jc ir data : list Z) : list Z * list Z * list Z * Z :=
  match ces with
  | [] => (jc, ir, data, cur)
  | ((j, i), v) :: t =>
      let jc' := if cur =? j then jc else jc ++ repeat cnt (Z.to_nat (j - cur)) in
      write_loop t j (cnt + 1) jc' (ir ++ [i]) (data ++ [v])
  end.

Record csc := { c_nl : Z; c_nc : Z; c_ir : list Z; c_jc : list Z; c_data : list Z }.

Definition write_csc (nl nc : Z) (es : list (Z * Z * Z)) : csc :=
  let ces := to_colmajor es in
  let sz := Z.of_nat (length ces) in
  let '(jc, ir, data, cur) := write_loop ces (-1) 0 [] [] [] in
  {| c_nl := nl; c_nc := nc; c_ir := ir; c_jc := jc ++ repeat sz (Z.to_nat (nc - cur)); c_data := data |}.

(* while (jc[current_col+1] <= k) current_col++ *)
Fixpoint advance (fuel : nat) (jc : list Z) (cc k : Z) : Z :=
  match fuel with
  | O => cc
  | S f => if nth (Z.to_nat (cc + 1)) jc 0 <=? k then advance f jc (cc + 1) k else cc
  end.

Fixpoint read_loop (irs datas : list Z) (k cc : Z) (jc : list Z) (nl nc : Z) (acc : list (Z * Z * Z)) : res (list (Z * Z * Z)) :=
  match irs, datas with
  | i :: irs', v :: datas' =>
      if k <? last jc 0 then
        let cc' := advance (length jc) jc cc k in
        if (i <? nl) && (cc' <? nc) then read_loop irs' datas' (k + 1) cc' jc nl nc (map_set acc (i, cc') v)
        else Err EAssert
      else read_loop irs' datas' (k + 1) cc jc nl nc acc
  | _, _ => Ok acc
  end.

Definition read_csc (c : csc) : res obj :=
  match read_loop (c_ir c) (c_data c) 0 0 (c_jc c) (c_nl c) (c_nc c) [] with
  | Ok es => Ok (OSparse (c_nl c) (c_nc c) es)
  | Err e => Err e
  end.

(* all sparsity patterns of an nl x nc matrix, entry (i,j) holding the word val i j (for the finite sweep) *)
Fixpoint subsets {A} (l : list A) : list (list A) :=
  match l with [] => [[]] | x :: t => let r := subsets t in r ++ map (cons x) r end.
Definition cells (nl nc : nat) : list (Z * Z) :=
  flat_map (fun i => map (fun j => (Z.of_nat i, Z.of_nat j)) (seq 0 nc)) (seq 0 nl).
Definition obj_eqb_sparse (a b : list (Z * Z * Z)) : bool :=
  (length a =? length b)%nat && forallb (fun p => key_eqb (fst (fst p)) (fst (snd p)) && (snd (fst p) =? snd (snd p))) (combine a b).
Definition csc_sweep (nl nc : nat) (val : Z -> Z -> Z) : bool :=
  forallb (fun pat =>
     let es := map (fun k => (k, val (fst k) (snd k))) pat in
     match read_csc (write_csc (Z.of_nat nl) (Z.of_nat nc) es) with
     | Ok (OSparse a b es') => (a =? Z.of_nat nl) && (b =? Z.of_nat nc) && obj_eqb_sparse es es'
     | _ => false
     end) (subsets (cells nl nc)).
