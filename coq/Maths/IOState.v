(* C17 — the process-wide maths IO state of OpenMEEGMaths (MathsIO.H / MathsIO.C) as an explicit state machine.

   Hidden state of the process:
     cur  : MathsIO::DefaultIO   (static pointer set by the format manipulator, consumed by the next read/write)
     perm : MathsIO::permanent
     tag  : the `static char buffer[33]` of Internal::ReadTag (32 payload bytes; buffer[32] is always 0)
   The file system is an explicit second component of the state: it is an INPUT of every operation
   (history independence is stated for a fixed file system, see IOStateProofs.v).

   Control flow modelled exactly (MathsIO.C operator>>, operator<<, info; Matrix/SymMatrix/Vector/SparseMatrix::load/save):
     load  : try { set format from suffix ; read } catch (maths::Exception&) { read }
     read  : open (fail -> BadFileOpening) ; ReadTag ; GetCurrentFormat ; identify ; setName ; reader
     save  : try { set format from suffix ; write } catch (maths::Exception&) { write }
     write : open for writing (truncates; fail -> BadFileOpening) ; GetCurrentFormat ; known ; setName ; writer
   What is NOT modelled here (taken from the world tables, measured per content in fresh processes by the check,
   and modelled by the codec property C07): what a reader returns for a given (content, format, kind) and which
   bytes a writer produces.  They are opaque values passed through.

   Two variants of the code are modelled through [cfg]:
     pinned   = the tree as found   (format consumed after a successful open; tag buffer terminated at byte 32 only)
     repaired = after the fix: commits (format consumed before the open; tag terminated at gcount). *)
From OM Require Import Base.Lists.
From OM Require Maths.IOFront.     (* C07's model of the front end: the byte class is_text is shared *)
Local Open Scope Z_scope.

Inductive fmt := Matlab | Ascii | Tex | Bin.
Inductive kind := KVec | KMat | KSym | KSparse.
Inductive sfx := SMat | STxt | STex | SBin | SUnknown | SNone.     (* suffix class of a file name *)
Inductive entry := ENoDir | EAbsent | EFile (c : nat).             (* ENoDir: cannot be opened for reading nor writing *)

Definition fmt_eqb (a b : fmt) : bool :=
  match a, b with Matlab, Matlab | Ascii, Ascii | Tex, Tex | Bin, Bin => true | _, _ => false end.
Definition fmt_idx (g : fmt) : nat := match g with Matlab => 0 | Ascii => 1 | Tex => 2 | Bin => 3 end%nat.
Definition kind_idx (k : kind) : nat := match k with KVec => 0 | KMat => 1 | KSym => 2 | KSparse => 3 end%nat.

(* exception codes = maths::ExceptionCode (OMMathExceptions.H) *)
Definition E_BAD_FILE_OPEN : Z := 131.
Definition E_NO_SUFFIX : Z := 133.
Definition E_NO_IO : Z := 140.
Definition E_UNKN_FILE_FMT : Z := 145.
Definition E_UNKN_FILE_SUFFIX : Z := 146.
(* outcome values: 0 = success without payload; >= 1000 success with an opaque payload (dims/checksum);
   128..999 = maths::Exception with that code (caught by load/save's catch clause); 1..127 = another exception
   (std::invalid_argument = 1, anything else = 3): propagates through load/save. *)
Definition is_maths (v : Z) : bool := (128 <=? v) && (v <? 1000).

(* whole_tag: ReadTag hands all the bytes read (null characters included) to identify, and the text format requires
   every one of them to be printable or white space (C07's fix of the binary-file-starting-with-a-digit defect) *)
Record cfg := { consume_before_open : bool; tag_at_gcount : bool; whole_tag : bool }.
Definition pinned : cfg := {| consume_before_open := false; tag_at_gcount := false; whole_tag := false |}.
Definition repaired : cfg := {| consume_before_open := true; tag_at_gcount := true; whole_tag := true |}.

Record world := {
  w_ios : list fmt;            (* iteration order of MathsIO::ios() (a std::set of pointers: address order) *)
  w_sfx : list sfx;            (* suffix class of file name n *)
  w_head : list (list Z);      (* first min(32,size) bytes of content c *)
  w_rd : list Z;               (* outcome of reader g on content c as kind k at index (c*4+g)*4+k *)
  w_wr : list (Z * nat);       (* writer g on the fixed object of kind k: (outcome, content left in the file) at g*4+k *)
  w_empty : nat;               (* content id of the empty file (left by a truncating open) *)
  w_inf : list Z               (* outcome of info() of format g on content c at index c*4+g *)
}.

Record pst := { cur : option fmt; perm : bool; tag : list Z }.
Definition pst0 : pst := {| cur := None; perm := false; tag := repeat 0 32 |}.
Notation fsys := (list entry).
Notation state := (pst * fsys)%type.

Definition sfx_of (W : world) (n : nat) : sfx := nth n (w_sfx W) SNone.
Definition head_of (W : world) (c : nat) : list Z := firstn 32 (nth c (w_head W) []).
Definition rd_of (W : world) (c : nat) (g : fmt) (k : kind) : Z := nth ((c * 4 + fmt_idx g) * 4 + kind_idx k) (w_rd W) 3.
Definition inf_of (W : world) (c : nat) (g : fmt) : Z := nth (c * 4 + fmt_idx g) (w_inf W) 3.
Definition wr_of (W : world) (g : fmt) (k : kind) : Z * nat := nth (fmt_idx g * 4 + kind_idx k) (w_wr W) (3, w_empty W).

(* ---- MathsIOBase::known_suffix / MathsIO::format_from_suffix / MathsIO::format ---- *)
Definition known_suffix (g : fmt) (s : sfx) : bool :=
  match g, s with Matlab, SMat | Ascii, STxt | Tex, STex | Bin, SBin => true | _, _ => false end.
(* inl g = found; inr code = exception thrown *)
Definition format_from_suffix (W : world) (s : sfx) : fmt + Z :=
  match s with
  | SNone => inr E_NO_SUFFIX
  | _ => match find (fun g => known_suffix g s) (w_ios W) with Some g => inl g | None => inr E_UNKN_FILE_SUFFIX end
  end.
(* format names used by the manipulator maths::format(name): 0..3 = the four identities, 4 = "default", other = unknown *)
Definition format_named (W : world) (id : nat) : option (option fmt) :=
  match id with
  | 0 => if existsb (fmt_eqb Matlab) (w_ios W) then Some (Some Matlab) else None
  | 1 => if existsb (fmt_eqb Ascii) (w_ios W) then Some (Some Ascii) else None
  | 2 => if existsb (fmt_eqb Tex) (w_ios W) then Some (Some Tex) else None
  | 3 => if existsb (fmt_eqb Bin) (w_ios W) then Some (Some Bin) else None
  | 4 => Some None
  | _ => None
  end%nat.

(* ---- GetCurrentFormat / SetCurrentFormat ---- *)
Definition get_current (p : pst) : option fmt * pst :=
  (cur p, if perm p then p else {| cur := None; perm := perm p; tag := tag p |}).
Definition set_current (p : pst) (g : option fmt) (pr : bool) : pst := {| cur := g; perm := pr; tag := tag p |}.

(* ---- Internal::ReadTag ---- *)
(* pinned: read up to 32 bytes into the static buffer (a short read leaves the tail of the previous call),
   buffer[32]=0.  repaired: buffer[gcount]=0. *)
Definition read_tag (c : cfg) (old : list Z) (head : list Z) : list Z :=
  let n := length head in
  if tag_at_gcount c then firstn 32 (head ++ 0 :: skipn (S n) old)
  else firstn 32 (head ++ skipn n old).
(* std::string(buffer): bytes up to the first NUL *)
Fixpoint cstr (b : list Z) : list Z :=
  match b with [] => [] | x :: t => if x =? 0 then [] else x :: cstr t end.

(* the string handed to identify: pinned std::string(buffer) (up to the first NUL), repaired std::string(buffer,gcount) *)
Definition tag_string (c : cfg) (b : list Z) (head : list Z) : list Z :=
  if whole_tag c then firstn (length head) b else cstr b.

(* ---- identify ---- *)
Fixpoint prefixb (p s : list Z) : bool :=
  match p, s with
  | [], _ => true
  | x :: p', y :: s' => (x =? y) && prefixb p' s'
  | _ :: _, [] => false
  end.
Definition MAGIC_MATLAB : list Z := [77; 65; 84; 76; 65; 66].          (* "MATLAB" *)
Definition MAGIC_TEX : list Z := [97; 115; 99; 105; 105].              (* "ascii" *)

(* AsciiIO::identify: `std::stringstream ss(buffer); ss >> tmp` succeeds.  libstdc++ num_get<double>:
   skip white space; optional sign; digits with at most one '.', then optionally e/E (only after a mantissa
   digit) with an optional sign and digits; the accumulated text must be a complete strtod number:
   at least one mantissa digit and, when an exponent marker was taken, at least one exponent digit. *)
Definition is_ws (x : Z) : bool := (x =? 32) || ((9 <=? x) && (x <=? 13)).
Definition is_digit (x : Z) : bool := (48 <=? x) && (x <=? 57).
Fixpoint skip_ws (s : list Z) : list Z :=
  match s with x :: t => if is_ws x then skip_ws t else s | [] => [] end.
(* exponent digits: returns whether at least one digit follows *)
Definition exp_ok (s : list Z) : bool :=
  let s' := match s with x :: t => if (x =? 43) || (x =? 45) then t else s | [] => [] end in
  match s' with x :: _ => is_digit x | [] => false end.
(* mantissa scan: md = a mantissa digit was seen, dot = a '.' was seen *)
Fixpoint mant (s : list Z) (md dot : bool) : bool :=
  match s with
  | [] => md
  | x :: t =>
      if is_digit x then mant t true dot
      else if (x =? 46) && negb dot then mant t md true
      else if ((x =? 101) || (x =? 69)) && md then exp_ok t
      else md
  end.
Definition ascii_identify (s : list Z) : bool :=
  match skip_ws s with
  | [] => false
  | x :: t => if (x =? 43) || (x =? 45) then mant t false false else mant (x :: t) false false
  end.

Definition identify (c : cfg) (g : fmt) (s : list Z) : bool :=
  match g with
  | Matlab => prefixb MAGIC_MATLAB s
  | Tex => prefixb MAGIC_TEX s
  | Ascii => (if whole_tag c then forallb Maths.IOFront.is_text s else true) && ascii_identify s
  | Bin => true
  end.

(* ---- known(linop) ---- *)
Definition known (g : fmt) (k : kind) : bool :=
  match g, k with Tex, KMat => true | Tex, _ => false | _, _ => true end.

(* result of an operation: outcome and the formats whose setName(file) was called (observable through
   MathsIO::name(): which codec was selected) *)
Notation result := (Z * list fmt)%type.

(* ---- maths::operator>>(maths::ifstream&, LinOp&) ---- *)
Definition op_read (c : cfg) (W : world) (k : kind) (n : nat) (s : state) : state * result :=
  let '(p, fs) := s in
  let early := consume_before_open c in
  let '(dio0, p0) := if early then get_current p else (None, p) in
  match nth n fs ENoDir with
  | EFile ct =>
      let b := read_tag c (tag p0) (head_of W ct) in
      let p1 := {| cur := cur p0; perm := perm p0; tag := b |} in
      let '(dio, p2) := if early then (dio0, p1) else get_current p1 in
      let str := tag_string c b (head_of W ct) in
      match dio with
      | Some g => if identify c g str then ((p2, fs), (rd_of W ct g k, [g])) else ((p2, fs), (E_NO_IO, []))
      | None =>
          match find (fun g => identify c g str) (w_ios W) with
          | Some g => ((p2, fs), (rd_of W ct g k, [g]))
          | None => ((p2, fs), (E_NO_IO, []))
          end
      end
  | _ => ((p0, fs), (E_BAD_FILE_OPEN, []))
  end.

(* ---- maths::operator<<(maths::ofstream&, const LinOp&) ---- *)
Definition op_write (c : cfg) (W : world) (k : kind) (n : nat) (s : state) : state * result :=
  let '(p, fs) := s in
  let early := consume_before_open c in
  let '(dio0, p0) := if early then get_current p else (None, p) in
  match nth n fs ENoDir with
  | ENoDir => ((p0, fs), (E_BAD_FILE_OPEN, []))
  | _ =>
      let '(dio, p2) := if early then (dio0, p0) else get_current p0 in
      let sel := match dio with
                 | Some g => if known g k then Some g else None
                 | None => find (fun g => known g k) (w_ios W)
                 end in
      match sel with
      | Some g => let '(v, ct) := wr_of W g k in ((p2, upd fs n (EFile ct)), (v, [g]))
      | None => ((p2, upd fs n (EFile (w_empty W))), (E_NO_IO, []))
      end
  end.

(* ---- maths::info(name): uses default_io() without consuming it ---- *)
Definition op_info (c : cfg) (W : world) (n : nat) (s : state) : state * result :=
  let '(p, fs) := s in
  match nth n fs ENoDir with
  | EFile ct =>
      let b := read_tag c (tag p) (head_of W ct) in
      let p1 := {| cur := cur p; perm := perm p; tag := b |} in
      let str := tag_string c b (head_of W ct) in
      match cur p with
      | Some g => if identify c g str then ((p1, fs), (inf_of W ct g, [g])) else ((p1, fs), (E_NO_IO, []))
      | None =>
          match find (fun g => identify c g str) (w_ios W) with
          | Some g => ((p1, fs), (inf_of W ct g, [g]))
          | None => ((p1, fs), (E_NO_IO, []))
          end
      end
  | _ => ((p, fs), (E_BAD_FILE_OPEN, []))
  end.

(* the manipulators *)
Definition set_from_suffix (W : world) (n : nat) (s : state) : state * option Z :=
  match format_from_suffix W (sfx_of W n) with
  | inl g => ((set_current (fst s) (Some g) false, snd s), None)
  | inr e => (s, Some e)
  end.
Definition set_from_name (W : world) (id : nat) (s : state) : state * option Z :=
  match format_named W id with
  | Some g => ((set_current (fst s) g false, snd s), None)
  | None => (s, Some E_UNKN_FILE_FMT)
  end.

(* try { manip ; io } catch (maths::Exception&) { io } *)
Definition with_retry (manip : state -> state * option Z) (io : state -> state * result) (s : state) : state * result :=
  let '(s1, r1) := match manip s with
                   | (s', None) => io s'
                   | (s', Some e) => (s', (e, []))
                   end in
  if is_maths (fst r1) then
    let '(s2, r2) := io s1 in (s2, (fst r2, snd r1 ++ snd r2))
  else (s1, r1).
(* manip ; io   without a catch clause (matrix_convert, test_compare_matrix) *)
Definition no_retry (manip : state -> state * option Z) (io : state -> state * result) (s : state) : state * result :=
  match manip s with
  | (s', None) => io s'
  | (s', Some e) => (s', (e, []))
  end.

Inductive op :=
| Load (k : kind) (n : nat)            (* X::load(name) *)
| Save (k : kind) (n : nat)            (* X::save(name) of the fixed object of kind k *)
| ReadAs (id : nat) (k : kind) (n : nat)   (* ifs >> maths::format(id) >> X *)
| WriteAs (id : nat) (k : kind) (n : nat)  (* ofs << maths::format(id) << X *)
| WriteSfx (k : kind) (n : nat)        (* ofs << maths::format(name,FromSuffix) << X   (matrix_convert, no catch) *)
| Info (n : nat).                      (* maths::info(name) *)

Definition step (c : cfg) (W : world) (o : op) (s : state) : state * result :=
  match o with
  | Load k n => with_retry (set_from_suffix W n) (op_read c W k n) s
  | Save k n => with_retry (set_from_suffix W n) (op_write c W k n) s
  | ReadAs id k n => no_retry (set_from_name W id) (op_read c W k n) s
  | WriteAs id k n => no_retry (set_from_name W id) (op_write c W k n) s
  | WriteSfx k n => no_retry (set_from_suffix W n) (op_write c W k n) s
  | Info n => op_info c W n s
  end.

Fixpoint run (c : cfg) (W : world) (h : list op) (s : state) : state :=
  match h with [] => s | o :: h' => run c W h' (fst (step c W o s)) end.
(* all observations along a history *)
Fixpoint trace (c : cfg) (W : world) (h : list op) (s : state) : list result :=
  match h with [] => [] | o :: h' => let '(s', r) := step c W o s in r :: trace c W h' s' end.

(* the last operation of the history executed in a FRESH process on the file system left by the history *)
Definition fresh_after (c : cfg) (W : world) (h : list op) (o : op) (fs0 : fsys) : state * result :=
  step c W o (pst0, snd (run c W h (pst0, fs0))).
Definition inproc_after (c : cfg) (W : world) (h : list op) (o : op) (fs0 : fsys) : state * result :=
  step c W o (run c W h (pst0, fs0)).
