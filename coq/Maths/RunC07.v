(* EXTRACT-Z: c07 run_c07 *)
(* Executable entry point of the C07/C19 matrix-file correspondence: wire case -> wire result. *)
From OM Require Import Base.Lists Base.Wire Maths.BinCodec Maths.AsciiCodec Maths.IOFront Maths.TexCodec Maths.CscCodec.
Local Open Scope Z_scope.

(* the OCaml driver reads 63-bit integers: a 64-bit word travels as two unsigned 32-bit halves (lo, hi) *)
Definition getWord : dec Z := do lo <- getZ; do hi <- getZ; ret ((lo mod W32) + W32 * (hi mod W32)).
Definition w_out (w : Z) : wire := [w mod W32; (w / W32) mod W32].

Definition getKind : dec kind :=
  do k <- getZ; fun w => match k with 0 => Some (KVec, w) | 1 => Some (KFull, w) | 2 => Some (KSym, w) | 3 => Some (KSparse, w) | _ => None end.
Definition getWords (n : nat) : dec (list Z) := getMany n getWord.
Definition getObj : dec obj :=
  do k <- getKind;
  match k with
  | KVec => do n <- getN; do vs <- getWords n; ret (OVec vs)
  | KFull => do nl <- getN; do nc <- getN; do vs <- getWords (nl * nc); ret (OFull (zn nl) (zn nc) vs)
  | KSym => do n <- getN; do vs <- getWords (n * (n + 1) / 2); ret (OSym (zn n) vs)
  | KSparse => do nl <- getN; do nc <- getN; do nnz <- getN;
               do es <- getMany nnz (do i <- getN; do j <- getN; do v <- getWord; ret (zn i, zn j, v));
               ret (OSparse (zn nl) (zn nc) (fold_left (fun a e => map_set a (fst e) (snd e)) es []))
  end.

Definition kind_code (k : kind) : Z := match k with KVec => 0 | KFull => 1 | KSym => 2 | KSparse => 3 end.
Definition outObj (o : obj) : wire :=
  match o with
  | OVec vs => [0; zn (length vs)] ++ flat_map w_out vs
  | OFull nl nc vs => [1; nl; nc] ++ flat_map w_out vs
  | OSym n vs => [2; n] ++ flat_map w_out vs
  | OSparse nl nc es => [3; nl; nc; zn (length es)] ++ flat_map (fun e => [fst (fst e); snd (fst e)] ++ w_out (snd e)) es
  end.
Definition err_code (e : err) : Z :=
  match e with
  | EAssert => 1 | EOpen => 10 | EContent => 11 | ENoSuffix => 12 | EHeader => 13 | EIdent => 14 | EStorage => 15
  | EData => 16 | EVector => 17 | ESymm => 18 | ENoIO => 19 | EMatio => 20 | EFormat => 21 | ESuffix => 22
  | EUnexpected => 23 | EBadAlloc => 30 | EUnmodelled => 99
  end.
Definition outRes (r : res obj) : wire := match r with Ok o => 0 :: outObj o | Err e => [err_code e] end.

Definition getOpt : dec (option Z) := do f <- getZ; do v <- getZ; ret (if f =? 0 then None else Some v).
Definition getOptW : dec (option Z) := do f <- getZ; do v <- getWord; ret (if f =? 0 then None else Some v).
Definition getBool : dec bool := do b <- getZ; ret (negb (b =? 0)).
Definition getLine : dec line :=
  do e <- getBool; do t <- getBool; do n <- getN; do vs <- getWords n;
  do i <- getOptW; do j <- getOptW; do v <- getOptW; do hl <- getOpt; do hc <- getOpt;
  ret {| l_empty := e; l_term := t; l_vals := vs; l_i := i; l_j := j; l_v := v; l_hnl := hl; l_hnc := hc |}.
Definition getFile : dec file :=
  do nb <- getN; do bs <- getZs nb; do a <- getBool; do nl <- getN; do ls <- getMany nl getLine;
  ret {| f_bytes := bs; f_lines := ls; f_ascii := a |}.
Definition getFmt : dec fmt :=
  do k <- getZ; fun w => match k with 0 => Some (FBin, w) | 1 => Some (FTxt, w) | 2 => Some (FTex, w) | 3 => Some (FMat, w) | _ => None end.

Definition outTok (t : tok) : wire := match t with TI n => [0; n; 0] | TV w => 1 :: w_out w end.
Definition outTxt (f : sepk * list (list tok)) : wire :=
  [0; match fst f with SepTab => 9 | SepSpace => 32 end; zn (length (snd f))] ++
  flat_map (fun l => zn (length l) :: flat_map outTok l) (snd f).

(* tex: stream = nlines, per line ntok, per token (int flag, int, dbl flag, lo, hi, magic) *)
Definition getXtok : dec xtok :=
  do i <- getOpt; do d <- getOptW; do m <- getBool; ret {| x_int := i; x_dbl := d; x_magic := m |}.
Definition getXstream : dec xstream := do n <- getN; getMany n (do k <- getN; getMany k getXtok).
Definition outXw (t : xw) : wire :=
  match t with XMagic => [2; 0; 0] | XWord => [3; 0; 0] | XInt n => [0; n; 0] | XVal w => 1 :: w_out w end.
Definition outTex (f : list (list xw)) : wire :=
  [0; zn (length f)] ++ flat_map (fun l => zn (length l) :: flat_map outXw l) f.

Definition run_c07 (w : wire) : wire :=
  match w with
  | 1 :: w' => run_dec getObj w' (fun o => let bs := encode o in 0 :: zn (length bs) :: bs)
  | 2 :: w' => run_dec getObj w' (fun o => outTxt (txt_encode o))
  | 3 :: w' => run_dec (do order <- getMany 4 getFmt; do sfx <- getZ; do k <- getKind; do fl <- getFile; ret (order, sfx, k, fl)) w'
                 (fun '(order, sfx, k, fl) => outRes (load order sfx k fl))
  | 4 :: w' => run_dec (do k <- getKind; do nb <- getN; do bs <- getZs nb; ret (k, bs)) w'
                 (fun '(k, bs) => outRes (decode_as k bs))
  | 5 :: w' => run_dec getXstream w' (fun s => outRes (tex_decode s))
  | 6 :: w' => run_dec getObj w' (fun o => match o with OFull nl nc vs => outTex (tex_encode nl nc vs) | _ => [-1] end)
  | 7 :: w' => run_dec getObj w' (fun o => match o with
        | OSparse nl nc es => let c := write_csc nl nc es in
            [0; c_nl c; c_nc c; zn (length (c_ir c))] ++ c_ir c ++ [zn (length (c_jc c))] ++ c_jc c ++
            [zn (length (c_data c))] ++ flat_map w_out (c_data c) ++ outRes (read_csc c)
        | _ => [-1] end)
  | 8 :: w' => run_dec (do nl <- getZ; do nc <- getZ; do a <- getN; do ir <- getZs a; do b <- getN; do jc <- getZs b;
                        do c <- getN; do d <- getWords c; ret {| c_nl := nl; c_nc := nc; c_ir := ir; c_jc := jc; c_data := d |}) w'
                 (fun c => outRes (read_csc c))
  | 9 :: w' => run_dec (do n <- getN; getZs n) w' (fun p => [suffix_of_path p])
  | _ => [-1]
  end.
