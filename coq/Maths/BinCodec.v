(* C07/C19 -- model of the raw binary codec OpenMEEGMaths/include/TrivialBinIO.H (write, info, read,
   read_sparse, read_internal) as the code is on the repaired tree.
   A double is an opaque 64-bit word (Z in [0,2^64)); a file is a list of bytes (Z in [0,256)).
   Model only: no proofs in this file. *)
From OM Require Import Base.Lists.
Local Open Scope Z_scope.

Definition W32 : Z := 4294967296.
Definition W64 : Z := 18446744073709551616.

(* exception classes seen by the caller of load (same numbering as harness/h_c07.cpp) *)
Inductive err :=
| EAssert | EOpen | EContent | ENoSuffix | EHeader | EIdent | EStorage | EData | EVector | ESymm | ENoIO
| EMatio | EFormat | ESuffix | EUnexpected | EBadAlloc | EUnmodelled.

Inductive res (A : Type) := Ok (a : A) | Err (e : err).
Arguments Ok {A} a. Arguments Err {A} e.

Inductive kind := KVec | KFull | KSym | KSparse.

(* Vector: values; Matrix: nlin ncol + column-major storage; SymMatrix: n + packed upper storage;
   SparseMatrix: nlin ncol + the (i,j)->value map as a strictly sorted association list *)
Inductive obj :=
| OVec (vs : list Z)
| OFull (nl nc : Z) (vs : list Z)
| OSym (n : Z) (vs : list Z)
| OSparse (nl nc : Z) (es : list (Z * Z * Z)).

Definition kind_of (o : obj) : kind :=
  match o with OVec _ => KVec | OFull _ _ _ => KFull | OSym _ _ => KSym | OSparse _ _ _ => KSparse end.

(* ---- little-endian words ---- *)
Definition u32le (n : Z) : list Z :=
  [n mod 256; (n / 256) mod 256; (n / 65536) mod 256; (n / 16777216) mod 256].
Definition u64le (w : Z) : list Z := u32le (w mod W32) ++ u32le (w / W32).

(* is.read of 4 / 8 bytes: None = short read (stream failed) *)
Definition rd32 (bs : list Z) : option (Z * list Z) :=
  match bs with
  | b0 :: b1 :: b2 :: b3 :: r => Some (b0 + 256 * b1 + 65536 * b2 + 16777216 * b3, r)
  | _ => None
  end.
Definition rd64 (bs : list Z) : option (Z * list Z) :=
  match rd32 bs with
  | Some (lo, r) => match rd32 r with Some (hi, r') => Some (lo + W32 * hi, r') | None => None end
  | None => None
  end.

(* ---- write ---- *)
Definition enc_entry (e : Z * Z * Z) : list Z :=
  let '(i, j, v) := e in u32le (i mod W32) ++ u32le (j mod W32) ++ u64le v.

Definition encode (o : obj) : list Z :=
  match o with
  | OVec vs => u32le (Z.of_nat (length vs)) ++ flat_map u64le vs
  | OFull nl nc vs => u32le nl ++ u32le nc ++ flat_map u64le vs
  | OSym n vs => u32le n ++ flat_map u64le vs
  | OSparse nl nc es => u32le nl ++ u32le nc ++ flat_map enc_entry es
  end.

(* ---- info: the kind of a file is deduced from its size ---- *)
Inductive storage := SFull | SSym | SSparse.
Record linfo := { i_nl : Z; i_nc : Z; i_st : storage; i_dim : Z }.

(* (long)ui*((long)ui+1)*sizeof(double)/2 : 64-bit; the product by sizeof is 64-bit unsigned (repaired: ui+1 was 32-bit) *)
Definition symsize (ui : Z) : Z := ((ui * (ui + 1)) * 8 mod W64) / 2.

Definition info (bs : list Z) : res (linfo * list Z) :=
  let size := Z.of_nat (length bs) - 4 in
  match rd32 bs with
  | None => Err EHeader                                         (* repaired: short header *)
  | Some (ui, r1) =>
      if size =? ui * 8 then Ok ({| i_nl := ui; i_nc := 1; i_st := SFull; i_dim := 1 |}, r1)
      else if size =? symsize ui then Ok ({| i_nl := ui; i_nc := ui; i_st := SSym; i_dim := 2 |}, r1)
      else match rd32 r1 with
           | None => Err EHeader                                (* repaired: short header *)
           | Some (uj, r2) =>
               let full := ((size - 4) mod W64 =? (ui * uj * 8) mod W64) in
               Ok ({| i_nl := ui; i_nc := uj; i_st := if full then SFull else SSparse; i_dim := 2 |}, r2)
           end
  end.

(* ---- read ---- *)
Fixpoint rd_words (n : nat) (bs : list Z) : option (list Z) :=
  match n with
  | O => Some []
  | S n' => match rd64 bs with
            | Some (w, r) => match rd_words n' r with Some ws => Some (w :: ws) | None => None end
            | None => None
            end
  end.

(* SparseMatrix::operator()(i,j) = v on the ordered map, with its om_assert *)
Definition key_ltb (a b : Z * Z) : bool :=
  (fst a <? fst b) || ((fst a =? fst b) && (snd a <? snd b)).
Definition key_eqb (a b : Z * Z) : bool := (fst a =? fst b) && (snd a =? snd b).
Fixpoint map_set (es : list (Z * Z * Z)) (k : Z * Z) (v : Z) : list (Z * Z * Z) :=
  match es with
  | [] => [(k, v)]
  | (k', v') :: t =>
      if key_eqb k k' then (k, v) :: t
      else if key_ltb k k' then (k, v) :: es
      else (k', v') :: map_set t k v
  end.

(* read_sparse: entries of 16 bytes until the file ends; a file ending inside an entry is refused (repaired).
   fuel bounds the number of entries (the caller passes the number of bytes) *)
Definition is_nil {A} (l : list A) : bool := match l with [] => true | _ => false end.
Inductive entry_read := EEnd | EShort | EEntry (i j v : Z) (rest : list Z).
Definition rd_entry (bs : list Z) : entry_read :=
  if is_nil bs then EEnd
  else match rd32 bs with
       | None => EShort
       | Some (i, r1) =>
           match rd32 r1 with
           | None => EShort
           | Some (j, r2) => match rd64 r2 with None => EShort | Some (v, r3) => EEntry i j v r3 end
           end
       end.
Fixpoint rd_entries (fuel : nat) (nl nc : Z) (bs : list Z) (acc : list (Z * Z * Z)) : res (list (Z * Z * Z)) :=
  match fuel with
  | O => if is_nil bs then Ok acc else Err EUnmodelled
  | S fuel' =>
      match rd_entry bs with
      | EEnd => Ok acc
      | EShort => Err EData
      | EEntry i j v r =>
          if (i <? nl) && (j <? nc) then rd_entries fuel' nl nc r (map_set acc (i, j) v)
          else Err EAssert
      end
  end.

Definition storage_eqb (a b : storage) : bool :=
  match a, b with SFull, SFull | SSym, SSym | SSparse, SSparse => true | _, _ => false end.
Definition kind_storage (k : kind) : storage :=
  match k with KVec | KFull => SFull | KSym => SSym | KSparse => SSparse end.
Definition kind_dim (k : kind) : Z := match k with KVec => 1 | _ => 2 end.

(* number of doubles allocated by alloc_data: Vector nlin; Matrix nlin*ncol (64-bit);
   SymMatrix nlin*(nlin+1)/2 in 32-bit unsigned arithmetic *)
Definition alloc_words (k : kind) (nl nc : Z) : Z :=
  match k with
  | KVec => nl
  | KFull => nl * nc
  | KSym => ((nl * ((nl + 1) mod W32)) mod W32) / 2
  | KSparse => 0
  end.
(* bytes requested by read_internal: nlin reads of ncol*8 bytes *)
Definition ALLOC_MAX : Z := 1152921504606846976. (* 2^60 doubles: new[] throws *)

Definition decode_as (k : kind) (bs : list Z) : res obj :=
  match info bs with
  | Err e => Err e
  | Ok (li, rest) =>
      if negb (storage_eqb (kind_storage k) (i_st li)) then Err EStorage
      else if negb (kind_dim k =? i_dim li) then Err EStorage
      else
        let nl := i_nl li in let nc := i_nc li in
        match k with
        | KSparse =>
            match rd_entries (length rest) nl nc rest [] with
            | Ok es => Ok (OSparse nl nc es)
            | Err e => Err e
            end
        | _ =>
            let n := alloc_words k nl nc in
            if ALLOC_MAX <=? n then Err EBadAlloc
            else match rd_words (Z.to_nat n) rest with
                 | Some ws =>
                     Ok (match k with KVec => OVec ws | KFull => OFull nl nc ws | _ => OSym nl ws end)
                 | None => Err EUnmodelled   (* buffer partly uninitialised / 32-bit size wrapped: outside the model *)
                 end
        end
  end.

(* ---- well-formed objects (what the C++ types can hold and a file can store) ---- *)
Definition word (w : Z) : Prop := 0 <= w < W64.
Fixpoint sorted_keys (es : list (Z * Z * Z)) : Prop :=
  match es with
  | [] => True
  | (k, _) :: t => match t with [] => True | (k', _) :: _ => key_ltb k k' = true end /\ sorted_keys t
  end.

Definition wf (o : obj) : Prop :=
  match o with
  | OVec vs => Z.of_nat (length vs) < W32 /\ Forall word vs
  | OFull nl nc vs => 0 <= nl < W32 /\ 0 <= nc < W32 /\ Z.of_nat (length vs) = nl * nc /\ nl * nc < ALLOC_MAX /\ Forall word vs
  | OSym n vs => 0 <= n /\ n * (n + 1) < W32 /\ Z.of_nat (length vs) = n * (n + 1) / 2 /\ Forall word vs
  | OSparse nl nc es => 0 <= nl < W32 /\ 0 <= nc < W32 /\ sorted_keys es /\
                        Forall (fun e => 0 <= fst (fst e) < nl /\ 0 <= snd (fst e) < nc /\ word (snd e)) es
  end.

(* shapes the size test cannot tell apart: they are read back as another kind *)
Definition ambiguous (o : obj) : Prop :=
  match o with
  | OVec _ => False
  | OFull _ _ _ => False
  | OSym n _ => n = 0 \/ n = 1
  | OSparse nl nc es => (16 * Z.of_nat (length es)) mod W64 = (nl * nc * 8) mod W64
  end.
