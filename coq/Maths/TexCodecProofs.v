(* tex (BrainVisa texture) round trip at token level (C07). *)
From OM Require Import Base.Lists Maths.BinCodec Maths.BinCodecProofs Maths.TexCodec.
Require Import ZifyBool.
Local Open Scope Z_scope.

Lemma concat_chunks {A} n k (vs : list A) : length vs = (n * k)%nat -> concat (chunks n k vs) = vs.
Proof.
  revert vs. induction k as [|k IH]; intros vs H.
  - rewrite Nat.mul_0_r in H. destruct vs; [reflexivity|discriminate].
  - cbn [chunks concat]. rewrite IH; [apply firstn_skipn|]. rewrite skipn_length. lia.
Qed.
Lemma chunks_length {A} n k (vs : list A) : length (chunks n k vs) = k.
Proof. revert vs. induction k as [|k IH]; intros vs; cbn [chunks length]; [reflexivity|]. rewrite IH. reflexivity. Qed.
Lemma chunks_each {A} n k (vs : list A) : length vs = (n * k)%nat -> Forall (fun c => length c = n) (chunks n k vs).
Proof.
  revert vs. induction k as [|k IH]; intros vs H; cbn [chunks]; constructor.
  - rewrite firstn_length. lia.
  - apply IH. rewrite skipn_length. lia.
Qed.

Section Tex.
  Variable rnd6 : Z -> Z.
  Variable dofz : Z -> Z.
  Variable vint : Z -> option Z.
  Notation xv := (xview_tok rnd6 dofz vint).

  Lemma next_dbls_line c rest :
    next_dbls (length c) (map xv (map XVal c) :: rest) = Some (map rnd6 c, [] :: rest).
  Proof.
    induction c as [|w t IH]; [reflexivity|].
    cbn [length map next_dbls]. unfold next_dbl. cbn [next_tok xview_tok x_dbl]. rewrite IH. reflexivity.
  Qed.

  Lemma next_dbls_skip n L rest : next_dbls (S n) ([] :: L :: rest) = next_dbls (S n) (L :: rest).
  Proof. reflexivity. Qed.

  Lemma tex_columns_enc nl cols : 1 <= nl -> forall fuel j,
    (length cols <= fuel)%nat -> Forall (fun c => length c = Z.to_nat nl) cols ->
    tex_columns fuel (Z.of_nat (length cols)) (Z.to_nat nl) (xview rnd6 dofz vint (tex_cols_enc nl j cols)) = Ok (map (map rnd6) cols).
  Proof.
    intros Hnl. induction cols as [|c t IH]; intros fuel j Hf Hc.
    - destruct fuel; reflexivity.
    - destruct fuel as [|fuel]; [cbn [length] in Hf; lia|].
      inversion Hc as [|? ? Hlc Hc']; subst.
      cbn [tex_columns length]. replace (Z.of_nat (S (length t)) <=? 0) with false by lia.
      unfold xview. cbn [tex_cols_enc map skip_line tl].
      unfold uint_hack, next_uint. cbn [next_tok xview_tok x_int]. replace (nl =? 0) with false by lia. replace (nl <? 0) with false by lia.
      assert (E : Z.to_nat nl = S (Nat.pred (Z.to_nat nl))) by lia.
      rewrite E at 1. rewrite next_dbls_skip. rewrite <- E. rewrite <- Hlc. rewrite next_dbls_line.
      cbn [skip_line tl]. replace (Z.of_nat (S (length t)) - 1) with (Z.of_nat (length t)) by lia.
      rewrite Hlc. fold (xview rnd6 dofz vint (tex_cols_enc nl (j + 1) t)). rewrite IH; [reflexivity|cbn [length] in Hf; lia|assumption].
  Qed.

  Lemma tex_cols_lines nl j cols : length (tex_cols_enc nl j cols) = (3 * length cols)%nat.
  Proof. revert j. induction cols as [|c t IH]; intros j; cbn [tex_cols_enc length]; [reflexivity|]. rewrite IH. lia. Qed.

  Theorem tex_roundtrip nl nc vs : 1 <= nl -> 1 <= nc -> nl * nc < ALLOC_MAX ->
    length vs = (Z.to_nat nl * Z.to_nat nc)%nat ->
    tex_decode (xview rnd6 dofz vint (tex_encode nl nc vs)) = Ok (OFull nl nc (map rnd6 vs)).
  Proof.
    intros Hnl Hnc Ha Hl. unfold tex_decode, tex_encode.
    set (cols := chunks (Z.to_nat nl) (Z.to_nat nc) vs).
    assert (Lc : length cols = Z.to_nat nc) by apply chunks_length.
    assert (Hne : exists c t, cols = c :: t) by (destruct cols; [cbn in Lc; lia|eauto]).
    destruct Hne as (c & t & E).
    assert (H : tex_header (xview rnd6 dofz vint ([XMagic] :: [XWord] :: [XInt nc] :: tex_cols_enc nl 0 cols))
                = Some (nl, nc, xview rnd6 dofz vint (tex_cols_enc nl 0 cols))).
    { rewrite E. unfold xview, tex_header. cbn [map tex_cols_enc next_tok xview_tok x_magic skip_line tl].
      unfold next_uint at 1. cbn [next_tok xview_tok x_int skip_line tl].
      unfold uint_hack, next_uint. cbn [next_tok xview_tok x_int]. replace (nl =? 0) with false by lia. reflexivity. }
    rewrite H. replace ((nl <? 0) || (nc <? 0)) with false by lia. replace (ALLOC_MAX <=? nl * nc) with false by lia.
    replace nc with (Z.of_nat (length cols)) at 1 by (rewrite Lc; lia).
    rewrite tex_columns_enc.
    - rewrite <- concat_map. unfold cols. rewrite concat_chunks by assumption. reflexivity.
    - assumption.
    - unfold xview. rewrite map_length, tex_cols_lines. lia.
    - apply chunks_each. assumption.
  Qed.

  (* a matrix without columns is refused: the header has no row count to look ahead to *)
  Theorem tex_no_column_rejected nl vs : tex_decode (xview rnd6 dofz vint (tex_encode nl 0 vs)) = Err EHeader.
  Proof. reflexivity. Qed.
End Tex.
