(* C18: a tool that returns e.code() reports a failure only if the low 8 bits of the code are not all zero. *)
From Coq Require Import ZArith List Lia. Import ListNotations.
From OM Require Import Gen.GenExitCodes.
Local Open Scope Z_scope.

Definition exit_status (code : Z) : Z := code mod 256.
Definition reports_failure (code : Z) : bool := negb (exit_status code =? 0).

Lemma every_exception_code_is_a_failure_status : forallb reports_failure (core_codes ++ maths_codes) = true.
Proof. vm_compute. reflexivity. Qed.
Lemma exception_codes_fit_a_status_byte : forallb (fun c => (0 <? c) && (c <? 256))%bool (core_codes ++ maths_codes) = true.
Proof. vm_compute. reflexivity. Qed.
Lemma both_enums_translated : (10 <= length core_codes)%nat /\ (10 <= length maths_codes)%nat.
Proof. split; apply PeanoNat.Nat.leb_le; vm_compute; reflexivity. Qed.
