(* EXTRACT-Z: c14 run_c14 *)
(* Executable entry point for the C14 correspondence: wire case -> wire result. *)
From OM Require Import Base.Lists Base.Wire Maths.Dense Maths.SparseModel Maths.Ranges.
Local Open Scope Z_scope.

Definition getSparse : dec sparse :=
  do nl <- getN; do nc <- getN; do nnz <- getN;
  do es <- getMany nnz (do i <- getN; do j <- getN; do v <- getZ; ret (i, j, v));
  fun w =>
    match fold_left (fun oa e => match oa with
                                 | Some a => let '(i, j, v) := e in sp_upd a i j (fun _ => v)
                                 | None => None end) es (Some (sempty nl nc)) with
    | Some a => Some (a, w)
    | None => None
    end.
Definition getDense : dec dense :=
  do nl <- getN; do nc <- getN; do vs <- getZs (nl * nc); ret {| dnl := nl; dnc := nc; dd := vs |}.
Definition getSym : dec sym :=
  do n <- getN; do vs <- getZs (n * (n + 1) / 2); ret {| sn := n; sd := vs |}.
Definition getRange : dec range := do a <- getN; do b <- getN; ret (a, b).
Definition getRanges : dec (list range) := do n <- getN; getMany n getRange.

Definition outVec (v : list Z) : wire := ST_OK :: zn (length v) :: v.
Definition outDense (M : dense) : wire := ST_OK :: zn (dnl M) :: zn (dnc M) :: dd M.
Definition outSparse (A : sparse) : wire :=
  ST_OK :: zn (snl A) :: zn (snc A) ::
  flat_map (fun j => map (fun i => sdn A i j) (seq 0 (snl A))) (seq 0 (snc A)).
Definition outOpt {A} (o : option A) (k : A -> wire) : wire :=
  match o with Some a => k a | None => [ST_ASSERT] end.

Definition outRres (r : rres) : wire :=
  match r with
  | ROk i => [0; zn i] | ROverlap => [2; 0] | RNoRange => [3; 0] | RNoBlock => [4; 0]
  end.
Definition outAddr (a : option (nat * nat * nat * nat)) : wire :=
  match a with
  | Some (bi, bj, ii, jj) => [0; zn bi; zn bj; zn ii; zn jj]
  | None => [4; 0; 0; 0; 0]
  end.

Fixpoint run_range_ops (rs : list range) (ops : list (nat * nat * nat)) : wire :=
  match ops with
  | [] => []
  | (k, a, b) :: ops' =>
      match k with
      | O => let '(rs', r) := ranges_add rs (a, b) in outRres r ++ run_range_ops rs' ops'
      | S O => outRres (find_index rs a) ++ run_range_ops rs ops'
      | _ => outRres (find_range rs (a, b)) ++ run_range_ops rs ops'
      end
  end.

Fixpoint run_sblk_adds (rs : list range) (ops : list (range * range)) : wire :=
  match ops with
  | [] => []
  | (ir, jr) :: ops' =>
      match sblk_add_block rs ir jr with
      | BOk rs' bi bj nr nc => [0; zn bi; zn bj; zn nr; zn nc] ++ run_sblk_adds rs' ops'
      | BErr rs' e => (match e with ROverlap => [2;0;0;0;0] | _ => [3;0;0;0;0] end) ++ run_sblk_adds rs' ops'
      end
  end.

(* set_blocks(r): add_block(r[i],r[j]) for j>=i; any error aborts *)
Definition sblk_set_blocks (r : list range) : option (list range) :=
  fold_left (fun ors p => match ors with
                          | Some rs => match sblk_add_block rs (fst p) (snd p) with BOk rs' _ _ _ _ => Some rs' | BErr _ _ => None end
                          | None => None end)
            (flat_map (fun i => map (fun j => (nth i r (0%nat,0%nat), nth j r (0%nat,0%nat))) (seq i (length r - i))) (seq 0 (length r)))
            (Some []).

(* BlockMatrix::set_blocks(rows,cols): row_ranges=rows; col_ranges=cols; add_block for all pairs
   (Ranges::add finds each range again; an overlapping pair inside rows/cols throws) *)
Definition blk_set_ok (rs : list range) : bool :=
  forallb (fun q => match find_range rs q with ROk _ => true | _ => false end) rs.

Definition run_c14 (w : wire) : wire :=
  match w with
  | 1 :: w => run_dec (do A <- getSparse; do i <- getN; do j <- getN; ret (A, i, j)) w
                (fun '(A, i, j) => outOpt (sp_get A i j) (fun v => [ST_OK; v]))
  | 2 :: w => run_dec (do A <- getSparse; do x <- getVec; ret (A, x)) w
                (fun '(A, x) => outOpt (sp_mulv A x) outVec)
  | 3 :: w => run_dec (do A <- getSparse; do B <- getDense; ret (A, B)) w
                (fun '(A, B) => outOpt (sp_mulm A B) outDense)
  | 4 :: w => run_dec (do A <- getSparse; do B <- getSym; ret (A, B)) w
                (fun '(A, B) => outOpt (sp_mulsym A B) outDense)
  | 5 :: w => run_dec (do A <- getSparse; do B <- getSparse; ret (A, B)) w
                (fun '(A, B) => outOpt (sp_mulsp A B) outSparse)
  | 6 :: w => run_dec (do A <- getSparse; do B <- getSparse; ret (A, B)) w
                (fun '(A, B) => outOpt (sp_add A B) outSparse)
  | 7 :: w => run_dec getSparse w (fun A => outSparse (sp_transpose A))
  | 8 :: w => run_dec (do A <- getSparse; do i <- getN; ret (A, i)) w
                (fun '(A, i) => outOpt (sp_getlin A i) outVec)
  | 9 :: w => run_dec (do A <- getSparse; do v <- getVec; do i <- getN; ret (A, v, i)) w
                (fun '(A, v, i) => outOpt (sp_setlin A v i) outSparse)
  | 10 :: w => run_dec getSparse w (fun A => [ST_OK; sp_frob2 A])
  | 11 :: w => run_dec getSparse w (fun A => outDense (sp_to_dense A))
  | 12 :: w => run_dec (do M <- getDense; do A <- getSparse; ret (M, A)) w
                (fun '(M, A) => outOpt (full_mul_sparse M A) outDense)
  | 13 :: w => run_dec (do A <- getSparse; do i <- getN; do j <- getN; ret (A, i, j)) w
                (fun '(A, i, j) => [ST_OK; csr_get (to_csr A) i j])
  | 14 :: w => run_dec (do A <- getSparse; do x <- getVec; ret (A, x)) w
                (fun '(A, x) => outOpt (csr_mulv (to_csr A) x) outVec)
  | 20 :: w => run_dec (do n <- getN; getMany n (do k <- getN; do a <- getN; do b <- getN; ret (k, a, b))) w
                (fun ops => run_range_ops [] ops)
  | 21 :: w => run_dec (do rows <- getRanges; do cols <- getRanges; do n <- getN;
                        do qs <- getMany n (do i <- getN; do j <- getN; ret (i, j)); ret (rows, cols, qs)) w
                (fun '(rows, cols, qs) =>
                   if blk_set_ok rows && blk_set_ok cols
                   then ST_OK :: flat_map (fun q => outAddr (blk_addr rows cols (fst q) (snd q))) qs
                   else [2])
  | 22 :: w => run_dec (do r <- getRanges; do n <- getN;
                        do qs <- getMany n (do i <- getN; do j <- getN; ret (i, j)); ret (r, qs)) w
                (fun '(r, qs) =>
                   match sblk_set_blocks r with
                   | Some rs => ST_OK :: flat_map (fun q => outAddr (sblk_addr rs (fst q) (snd q))) qs
                   | None => [2]
                   end)
  | 23 :: w => run_dec (do n <- getN; getMany n (do a <- getRange; do b <- getRange; ret (a, b))) w
                (fun ops => run_sblk_adds [] ops)
  | _ => [-1]
  end.
