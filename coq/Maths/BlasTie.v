(* The executable model of C13 makes exactly the BLAS calls TRANSLATED FROM THE SOURCE (Gen/GenBlasCalls.v): flags,
   dimensions, leading dimensions, operand buffers, shape of the allocated result, zero-initialisation of the DGEMV result.
   Every lemma is closed by computation (reflexivity): editing an argument in matrix.h / symmatrix.cpp breaks it. *)
From OM Require Import Base.Lists Maths.Dense Maths.DenseModel Gen.GenBlasCalls.
Local Open Scope nat_scope.

Definition run_gemm (c : gemm_call) (sel : bufid -> list Z) : res dense :=
  lift (gemm (c_ta c) (c_tb c) (c_m c) (c_n c) (c_k c) (sel (c_a c)) (c_lda c) (sel (c_b c)) (c_ldb c) (c_ldc c) (c_rows c * c_cols c))
       (dn (c_rows c) (c_cols c)).
Definition run_gemv (c : gemv_call) (sel : bufid -> list Z) (x : list Z) : res (list Z) :=
  lift (gemv (v_ta c) (v_m c) (v_n c) (sel (v_a c)) (v_lda c) x (v_len c) (if v_zero_init c then Some (repeat 0%Z (v_len c)) else None)) id.
Definition run_symm (c : symm_call) (sel : bufid -> list Z) : res dense :=
  lift (symm (s_left c) (s_m c) (s_n c) (sel (s_a c)) (s_lda c) (sel (s_b c)) (s_ldb c) (s_ldc c) (s_rows c * s_cols c))
       (dn (s_rows c) (s_cols c)).

Definition sel_mm (A B : dense) (b : bufid) : list Z := match b with This => dd A | Arg => dd B | _ => [] end.
Definition sel_ms (A : dense) (S : sym) (b : bufid) : list Z := match b with This => dd A | CopyOfArg => dd (sym_to_dense S) | _ => [] end.
Definition sel_sm (S : sym) (B : dense) (b : bufid) : list Z := match b with CopyOfThis => dd (sym_to_dense S) | Arg => dd B | _ => [] end.
Definition sel_ss (S T : sym) (b : bufid) : list Z := match b with CopyOfThis => dd (sym_to_dense S) | CopyOfArg => dd (sym_to_dense T) | _ => [] end.

Lemma mult_is_source_call A B : m_mult A B = if dnc A =? dnl B then run_gemm (Matrix_mult_call (dnl A) (dnc A) (dnl B) (dnc B)) (sel_mm A B) else Throw.
Proof. reflexivity. Qed.
Lemma tmult_is_source_call A B : m_tmult A B = if dnl A =? dnl B then run_gemm (Matrix_tmult_call (dnl A) (dnc A) (dnl B) (dnc B)) (sel_mm A B) else Throw.
Proof. reflexivity. Qed.
Lemma multt_is_source_call A B : m_multt A B = if dnc A =? dnc B then run_gemm (Matrix_multt_call (dnl A) (dnc A) (dnl B) (dnc B)) (sel_mm A B) else Throw.
Proof. reflexivity. Qed.
Lemma tmultt_is_source_call A B : m_tmultt A B = if dnl A =? dnc B then run_gemm (Matrix_tmultt_call (dnl A) (dnc A) (dnl B) (dnc B)) (sel_mm A B) else Throw.
Proof. reflexivity. Qed.
Lemma mulv_is_source_call A v : m_mulv A v = if dnc A =? length v then run_gemv (Matrix_mulv_call (dnl A) (dnc A) (length v) 1) (sel_mm A A) v else Throw.
Proof. reflexivity. Qed.
Lemma tmulv_is_source_call A v : m_tmulv A v = if dnl A =? length v then run_gemv (Matrix_tmulv_call (dnl A) (dnc A) (length v) 1) (sel_mm A A) v else Throw.
Proof. reflexivity. Qed.
Lemma mult_sym_is_source_call A S : m_mult_sym A S = if dnc A =? sn S then run_symm (Matrix_mult_sym_call (dnl A) (dnc A) (sn S) (sn S)) (sel_ms A S) else Throw.
Proof. reflexivity. Qed.
Lemma sym_mult_is_source_call S B : s_mult S B = if sn S =? dnl B then run_symm (Sym_mult_call (sn S) (sn S) (dnl B) (dnc B)) (sel_sm S B) else Throw.
Proof. reflexivity. Qed.
Lemma sym_mult_sym_is_source_call S T : s_mult_sym S T = if sn S =? sn T then run_symm (Sym_mult_sym_call (sn S) (sn S) (sn T) (sn T)) (sel_ss S T) else Throw.
Proof. reflexivity. Qed.
