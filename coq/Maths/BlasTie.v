(* The executable model of C13 makes exactly the BLAS calls TRANSLATED FROM THE SOURCE (Gen/GenBlasCalls.v): flags,
   dimensions, leading dimensions, operand buffers, shape of the allocated result, zero-initialisation of the DGEMV result.
   Every lemma is closed by computation (reflexivity): editing an argument in matrix.h / symmatrix.cpp breaks it. *)
From OM Require Import Base.Lists Maths.Dense Maths.DenseModel Gen.GenBlasCalls.
Local Open Scope nat_scope.

Definition run_gemm (c : gemm_call) (sel : bufid -> list Z) : res dense :=
  lift (gemm (c_ta c) (c_tb c) (c_m c) (c_n c) (c_k c) (sel (c_a c)) (c_lda c) (sel (c_b c)) (c_ldb c) (c_ldc c) (c_rows c * c_cols c))
       (dn (c_rows c) (c_cols c)).
Definition run_gemv (c : gemv_call) (sel : bufid -> list Z) (x : list Z) : res (list Z) :=
  lift (gemv (v_ta c) (v_m c) (v_n c) (sel (v_a c)) (v_lda c) x (v_len c) (if v_zero_init c then Some (repeat 0%Z (v_len c)) else None)) id.
Definition run_symm (c : symm_call) (sel : bufid -> list Z) : res dense :=
  lift (symm (s_left c) (s_m c) (s_n c) (sel (s_a c)) (s_lda c) (sel (s_b c)) (s_ldb c) (s_ldc c) (s_rows c * s_cols c))
       (dn (s_rows c) (s_cols c)).

Definition sel_mm (A B : dense) (b : bufid) : list Z := match b with This => dd A | Arg => dd B | _ => [] end.
Definition sel_ms (A : dense) (S : sym) (b : bufid) : list Z := match b with This => dd A | CopyOfArg => dd (sym_to_dense S) | _ => [] end.
Definition sel_sm (S : sym) (B : dense) (b : bufid) : list Z := match b with CopyOfThis => dd (sym_to_dense S) | Arg => dd B | _ => [] end.
Definition sel_ss (S T : sym) (b : bufid) : list Z := match b with CopyOfThis => dd (sym_to_dense S) | CopyOfArg => dd (sym_to_dense T) | _ => [] end.

Lemma mult_is_source_call A B : m_mult A B = if dnc A =? dnl B then run_gemm (Matrix_mult_call (dnl A) (dnc A) (dnl B) (dnc B)) (sel_mm A B) else Throw.
Proof. reflexivity. Qed.
Lemma tmult_is_source_call A B : m_tmult A B = if dnl A =? dnl B then run_gemm (Matrix_tmult_call (dnl A) (dnc A) (dnl B) (dnc B)) (sel_mm A B) else Throw.
Proof. reflexivity. Qed.
Lemma multt_is_source_call A B : m_multt A B = if dnc A =? dnc B then run_gemm (Matrix_multt_call (dnl A) (dnc A) (dnl B) (dnc B)) (sel_mm A B) else Throw.
Proof. reflexivity. Qed.
Lemma tmultt_is_source_call A B : m_tmultt A B = if dnl A =? dnc B then run_gemm (Matrix_tmultt_call (dnl A) (dnc A) (dnl B) (dnc B)) (sel_mm A B) else Throw.
Proof. reflexivity. Qed.
Lemma mulv_is_source_call A v : m_mulv A v = if dnc A =? length v then run_gemv (Matrix_mulv_call (dnl A) (dnc A) (length v) 1) (sel_mm A A) v else Throw.
Proof. reflexivity. Qed.
Lemma tmulv_is_source_call A v : m_tmulv A v = if dnl A =? length v then run_gemv (Matrix_tmulv_call (dnl A) (dnc A) (length v) 1) (sel_mm A A) v else Throw.
Proof. reflexivity. Qed.
Lemma mult_sym_is_source_call A S : m_mult_sym A S = if dnc A =? sn S then run_symm (Matrix_mult_sym_call (dnl A) (dnc A) (sn S) (sn S)) (sel_ms A S) else Throw.
Proof. reflexivity. Qed.
Lemma sym_mult_is_source_call S B : s_mult S B = if sn S =? dnl B then run_symm (Sym_mult_call (sn S) (sn S) (dnl B) (dnc B)) (sel_sm S B) else Throw.
Proof. reflexivity. Qed.
Lemma sym_mult_sym_is_source_call S T : s_mult_sym S T = if sn S =? sn T then run_symm (Sym_mult_sym_call (sn S) (sn S) (sn T) (sn T)) (sel_ss S T) else Throw.
Proof. reflexivity. Qed.

(* ---- level 1 / packed level 2: daxpy dcopy dscal ddot dnrm2 DGER DSPMV ---- *)
Local Open Scope Z_scope.
Definition run_axpy (c : axpy_call) (sel : bufid -> list Z) : option (list Z) := axpy (a_n c) (a_alpha c) (sel (a_x c)) (sel (a_y c)).
Definition run_dot (c : dot_call) (sel : bufid -> list Z) : option Z := dotp (d_n c) (sel (d_x c)) (sel (d_y c)).
Definition run_scal (c : scal_call) (sel : bufid -> list Z) (x : Z) : option (list Z) := map_buf (s1_n c) (sel (s1_x c)) (fun e => x * e).
(* dcopy from a strided slice into the fresh contiguous result / from a contiguous argument into a strided slice of the receiver *)
Definition run_gather (c : copy_call) (sel : bufid -> list Z) : option (list Z) :=
  match k_dst c with Res => if ((k_doff c =? 0) && (k_dinc c =? 1))%nat then gather (k_n c) (k_soff c) (k_sinc c) (sel (k_src c)) else None | _ => None end.
Definition run_scatter (c : copy_call) (sel : bufid -> list Z) : option (list Z) :=
  match k_dst c with This => if ((k_soff c =? 0) && (k_sinc c =? 1))%nat then scatter (k_n c) (k_doff c) (k_dinc c) (sel (k_src c)) (sel This) else None | _ => None end.
Definition run_ger (c : ger_call) (sel : bufid -> list Z) : option (list Z) :=
  if (g_lda c =? g_m c)%nat then ger (g_m c) (g_n c) (sel (g_x c)) (sel (g_y c)) else None.
Definition run_spmv (c : spmv_call) (sel : bufid -> list Z) : option (list Z) := spmv (p_n c) (sel (p_ap c)) (sel (p_x c)).

(* a deep copy holds the same values as the receiver *)
Definition sel_vv (u v : list Z) (b : bufid) : list Z := match b with This | DeepCopyOfThis => u | Arg => v | _ => [] end.
Definition sel_mm1 (A B : dense) (b : bufid) : list Z := match b with This | DeepCopyOfThis => dd A | Arg => dd B | _ => [] end.
Definition sel_mv (A : dense) (v : list Z) (b : bufid) : list Z := match b with This => dd A | Arg => v | _ => [] end.
Definition sel_ss1 (S T : sym) (b : bufid) : list Z := match b with This => sd S | Arg => sd T | _ => [] end.
Definition sel_sv (S : sym) (v : list Z) (b : bufid) : list Z := match b with This => sd S | Arg => v | _ => [] end.
Local Notation ln := (@length Z).

Lemma v_add_is_source_call u v : v_add u v = if (ln u =? ln v)%nat then lift (run_axpy (Vector_plus_call (ln u) 1 (ln v) 1 (ln v)) (sel_vv u v)) id else Throw.
Proof. reflexivity. Qed.
Lemma v_sub_is_source_call u v : v_sub u v = if (ln u =? ln v)%nat then lift (run_axpy (Vector_minus_call (ln u) 1 (ln v) 1 (ln v)) (sel_vv u v)) id else Throw.
Proof. reflexivity. Qed.
Lemma v_iadd_is_source_call u v : v_add u v = if (ln u =? ln v)%nat then lift (run_axpy (Vector_iadd_call (ln u) 1 (ln v) 1 (ln v)) (sel_vv u v)) id else Throw.
Proof. reflexivity. Qed.
Lemma v_isub_is_source_call u v : v_sub u v = if (ln u =? ln v)%nat then lift (run_axpy (Vector_isub_call (ln u) 1 (ln v) 1 (ln v)) (sel_vv u v)) id else Throw.
Proof. reflexivity. Qed.
Lemma v_dot_is_source_call u v : v_dot u v = if (ln u =? ln v)%nat then lift (run_dot (Vector_dot_call (ln u) 1 (ln v) 1 (ln v)) (sel_vv u v)) id else Throw.
Proof. reflexivity. Qed.
Lemma v_scale_is_source_call u x : v_scale u x = lift (run_scal (Vector_scaled_call (ln u) 1 0 0 0) (sel_vv u []) x) id
                                   /\ v_scale u x = lift (run_scal (Vector_iscale_call (ln u) 1 0 0 0) (sel_vv u []) x) id.
Proof. split; reflexivity. Qed.
Lemma v_norm_is_source_call u : v_norm2 u = lift (run_dot (Vector_norm_call (ln u) 1 0 0 0) (sel_vv u [])) id.
Proof. reflexivity. Qed.
Lemma v_outer_is_source_call u v : v_outer u v = if (ln u =? ln v)%nat then lift (run_ger (Vector_outer_call (ln u) 1 (ln v) 1 (ln v)) (sel_vv u v)) (dn (ln u) (ln v)) else Throw.
Proof. unfold v_outer, run_ger. cbn [g_lda g_m g_n g_x g_y Vector_outer_call sel_vv]. rewrite Nat.eqb_refl. reflexivity. Qed.
Lemma m_getcol_is_source_call M j : m_getcol M j = if inb j (dnc M) then lift (run_gather (Matrix_getcol_call (dnl M) (dnc M) 0 0 0 (Z.to_nat j)) (sel_mv M [])) id else Throw.
Proof. reflexivity. Qed.
Lemma m_getlin_is_source_call M i : m_getlin M i = if inb i (dnl M) then lift (run_gather (Matrix_getlin_call (dnl M) (dnc M) 0 0 0 (Z.to_nat i)) (sel_mv M [])) id else Throw.
Proof. reflexivity. Qed.
Lemma m_setcol_is_source_call M j v : m_setcol M j v =
  if ((ln v =? dnl M)%nat && inb j (dnc M))%bool then lift (run_scatter (Matrix_setcol_call (dnl M) (dnc M) (ln v) 1 (ln v) (Z.to_nat j)) (sel_mv M v)) (dn (dnl M) (dnc M)) else Throw.
Proof. reflexivity. Qed.
Lemma m_setlin_is_source_call M i v : m_setlin M i v =
  if ((ln v =? dnc M)%nat && inb i (dnl M))%bool then lift (run_scatter (Matrix_setlin_call (dnl M) (dnc M) (ln v) 1 (ln v) (Z.to_nat i)) (sel_mv M v)) (dn (dnl M) (dnc M)) else Throw.
Proof. reflexivity. Qed.
Lemma m_iadd_is_source_call A B : m_addsub 1 A B =
  if ((dnl A =? dnl B) && (dnc A =? dnc B))%nat then lift (run_axpy (Matrix_iadd_call (dnl A) (dnc A) (dnl B) (dnc B) 0) (sel_mm1 A B)) (dn (dnl A) (dnc A)) else Throw.
Proof. reflexivity. Qed.
Lemma m_isub_is_source_call A B : m_addsub (-1) A B =
  if ((dnl A =? dnl B) && (dnc A =? dnc B))%nat then lift (run_axpy (Matrix_isub_call (dnl A) (dnc A) (dnl B) (dnc B) 0) (sel_mm1 A B)) (dn (dnl A) (dnc A)) else Throw.
Proof. reflexivity. Qed.
Lemma m_dot_is_source_call A B : m_dot A B =
  if ((dnl A =? dnl B) && (dnc A =? dnc B))%nat then lift (run_dot (Matrix_dot_call (dnl A) (dnc A) (dnl B) (dnc B) 0) (sel_mm1 A B)) id else Throw.
Proof. reflexivity. Qed.
Lemma s_iadd_is_source_call S T : s_addsub 1 S T =
  if (sn S =? sn T)%nat then lift (run_axpy (Sym_iadd_call (sn S) (sn S) (sn T) (sn T) 0) (sel_ss1 S T)) (fun l => {| sn := sn S; sd := l |}) else Throw.
Proof. reflexivity. Qed.
Lemma s_isub_is_source_call S T : s_addsub (-1) S T =
  if (sn S =? sn T)%nat then lift (run_axpy (Sym_isub_call (sn S) (sn S) (sn T) (sn T) 0) (sel_ss1 S T)) (fun l => {| sn := sn S; sd := l |}) else Throw.
Proof. reflexivity. Qed.
Lemma s_mulv_is_source_call S v : s_mulv S v = if (sn S =? ln v)%nat then lift (run_spmv (Sym_mulv_call (sn S) (sn S) (ln v) 1 (ln v)) (sel_sv S v)) id else Throw.
Proof. reflexivity. Qed.
