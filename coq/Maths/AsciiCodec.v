(* C07/C19 -- model of the text codec OpenMEEGMaths/include/AsciiIO.H at token level.
   libc/libstdc++ number lexing and formatting are assumed, not modelled: a file is seen through its
   *token view* (computed by the harness side from the bytes): the list of its lines, each with
     - whether it is empty, whether it is terminated by a newline,
     - the doubles that successive `>> double` extractions deliver before the first failure (l_vals),
     - what `>> size_t i >> size_t j >> double` deliver (l_i, l_j, l_v; None = that extraction failed),
     - what `>> unsigned nlin >> unsigned ncol` deliver (l_hnl, l_hnc).
   Values are opaque 64-bit words.  Model only: no proofs in this file. *)
From OM Require Import Base.Lists Maths.BinCodec.
Local Open Scope Z_scope.

Record line := { l_empty : bool; l_term : bool; l_vals : list Z;
                 l_i : option Z; l_j : option Z; l_v : option Z;
                 l_hnl : option Z; l_hnc : option Z }.

Definition nolines_line : line :=
  {| l_empty := true; l_term := false; l_vals := []; l_i := None; l_j := None; l_v := None; l_hnl := None; l_hnc := None |}.

Definition len_of (l : line) : Z := Z.of_nat (length (l_vals l)).

(* state of the stream after the k-th getline: eof is set when the line does not exist or is not terminated *)
Definition eof_after (ls : list line) (k : nat) : bool :=
  match nth_error ls k with Some l => negb (l_term l) | None => true end.

(* set_type *)
Inductive tkind := TFull (dim : Z) | TSym | TSparse.

Definition set_type (ls : list line) (len : Z) : res tkind :=
  if eof_after ls 0 || eof_after ls 1 then Ok (TFull 2)
  else
    let len1 := len_of (nth 1 ls nolines_line) in
    if len1 =? len then Ok (TFull (if len =? 1 then 1 else 2))
    else if len1 =? (len - 1) mod W32 then Ok TSym
    else if (len =? 2) && (len1 =? 3) then Ok TSparse
    else Err EUnexpected.

Definition count_nonempty (ls : list line) : Z :=
  Z.of_nat (length (filter (fun l => negb (l_empty l)) ls)).

(* header of a sparse file: nlin is default-initialised garbage when its extraction fails only in
   the sense of C++11 (0 stored); a failed nlin leaves ncol at its previous value (the token count, 2) *)
Definition sparse_dims (l0 : line) (prev_nc : Z) : Z * Z :=
  match l_hnl l0 with
  | None => (0, prev_nc)
  | Some nl => (nl, match l_hnc l0 with Some nc => nc | None => 0 end)
  end.

Record tinfo := { t_kind : tkind; t_nl : Z; t_nc : Z }.

Definition tinfo_of (ls : list line) : res tinfo :=
  let l0 := nth 0 ls nolines_line in
  let len := len_of l0 in
  match set_type ls len with
  | Err e => Err e
  | Ok TSparse => let '(nl, nc) := sparse_dims l0 len in Ok {| t_kind := TSparse; t_nl := nl; t_nc := nc |}
  | Ok k =>
      let nl := count_nonempty ls in
      match k with
      | TSym => if nl =? len then Ok {| t_kind := k; t_nl := nl; t_nc := len |} else Err ESymm
      | _ => Ok {| t_kind := k; t_nl := nl; t_nc := len |}
      end
  end.

(* rows: line i must deliver at least `need` values; the first `need` are used *)
Fixpoint firstn_opt {A} (n : nat) (l : list A) : option (list A) :=
  match n, l with
  | O, _ => Some []
  | S n', x :: t => match firstn_opt n' t with Some r => Some (x :: r) | None => None end
  | S _, [] => None
  end.

Fixpoint read_rows (ls : list line) (nrows : nat) (need : nat -> nat) (i : nat) : option (list (list Z)) :=
  match nrows with
  | O => Some []
  | S n' =>
      match ls with
      | [] => None
      | l :: t =>
          match firstn_opt (need i) (l_vals l) with
          | Some r => match read_rows t n' need (S i) with Some rs => Some (r :: rs) | None => None end
          | None => None
          end
      end
  end.

(* Matrix storage is column-major: data[i + nlin*j] *)
Definition col_major (rows : list (list Z)) (nc : nat) : list Z :=
  flat_map (fun j => map (fun r => nth j r 0) rows) (seq 0 nc).
(* SymMatrix storage is packed upper by columns: data[i + j(j+1)/2], i <= j; row i holds m(i,i..n-1) *)
Definition sym_packed (rows : list (list Z)) (n : nat) : list Z :=
  flat_map (fun j => map (fun i => nth (j - i) (nth i rows []) 0) (seq 0 (S j))) (seq 0 n).

Definition ZERO : Z := 0.   (* bit pattern of +0.0 *)

(* the entry lines of a sparse file (repaired reader): empty lines are skipped, a line must deliver
   `size_t i, size_t j, double v` or the file is refused (BadData); m(i,j) asserts the bounds *)
Fixpoint read_sparse_lines (ls : list line) (nl nc : Z) (acc : list (Z * Z * Z)) : res (list (Z * Z * Z)) :=
  match ls with
  | [] => Ok acc
  | l :: t =>
      if l_empty l then read_sparse_lines t nl nc acc
      else match l_i l, l_j l, l_v l with
           | Some i, Some j, Some v =>
               if (i <? nl) && (j <? nc) then read_sparse_lines t nl nc (map_set acc (i, j) v) else Err EAssert
           | _, _, _ => Err EData
           end
  end.

Definition txt_decode (k : kind) (ls : list line) : res obj :=
  match tinfo_of ls with
  | Err e => Err e
  | Ok ti =>
      let st := match t_kind ti with TFull _ => SFull | TSym => SSym | TSparse => SSparse end in
      let dim := match t_kind ti with TFull d => d | _ => 2 end in
      if negb (storage_eqb (kind_storage k) st) then Err EStorage
      else if negb (kind_dim k =? dim) then Err EVector
      else
        let nl := t_nl ti in let nc := t_nc ti in
        match k with
        | KSparse =>
            let '(nl', nc') := sparse_dims (nth 0 ls nolines_line) nc in
            match read_sparse_lines (tl ls) nl' nc' [] with Ok es => Ok (OSparse nl' nc' es) | Err e => Err e end
        | KSym =>
            match read_rows ls (Z.to_nat nl) (fun i => Z.to_nat nc - i)%nat 0 with
            | Some rows => Ok (OSym nl (sym_packed rows (Z.to_nat nl)))
            | None => Err EData
            end
        | KVec =>
            match read_rows ls (Z.to_nat nl) (fun _ => 1%nat) 0 with
            | Some rows => Ok (OVec (map (fun r => nth 0 r 0) rows))
            | None => Err EData
            end
        | KFull =>
            match read_rows ls (Z.to_nat nl) (fun _ => Z.to_nat nc) 0 with
            | Some rows => Ok (OFull nl nc (col_major rows (Z.to_nat nc)))
            | None => Err EData
            end
        end
  end.

(* ---- write: the file as lines of tokens (TI: an integer printed in decimal, TV: a double printed with
   the stream's default precision, i.e. "%g"); separator and terminator as the code writes them ---- *)
Inductive tok := TI (n : Z) | TV (w : Z).
Inductive sepk := SepTab | SepSpace.

Definition nth_row_full (nl nc : nat) (vs : list Z) (i : nat) : list tok :=
  map (fun j => TV (nth (i + nl * j) vs 0)) (seq 0 nc).
Definition nth_row_sym (n : nat) (vs : list Z) (i : nat) : list tok :=
  map (fun j => TV (nth (i + j * (j + 1) / 2) vs 0)) (seq i (n - i)).

Definition txt_encode (o : obj) : sepk * list (list tok) :=
  match o with
  | OVec vs => (SepTab, map (fun v => [TV v]) vs)
  | OFull nl nc vs =>
      (SepTab, if nc =? 0 then [] else map (nth_row_full (Z.to_nat nl) (Z.to_nat nc) vs) (seq 0 (Z.to_nat nl)))
  | OSym n vs => (SepTab, map (nth_row_sym (Z.to_nat n) vs) (seq 0 (Z.to_nat n)))
  | OSparse nl nc es => (SepSpace, [TI nl; TI nc] :: map (fun e => [TI (fst (fst e)); TI (snd (fst e)); TV (snd e)]) es)
  end.

(* ---- the token view of a file just written (assumed lexing: a printed double reads back as rnd6 of it,
   a printed integer reads back as itself / as the double dofz of it) ---- *)
Section View.
  Variable rnd6 : Z -> Z.
  Variable dofz : Z -> Z.

  Definition tok_val (t : tok) : Z := match t with TI n => dofz n | TV w => rnd6 w end.
  Definition tok_int (t : tok) : option Z := match t with TI n => Some n | TV _ => None end.

  Definition view_line (ts : list tok) : line :=
    {| l_empty := is_nil ts; l_term := true; l_vals := map tok_val ts;
       l_i := match ts with t :: _ => tok_int t | [] => None end;
       l_j := match ts with _ :: t :: _ => tok_int t | _ => None end;
       l_v := match ts with _ :: _ :: t :: _ => Some (tok_val t) | _ => None end;
       l_hnl := match ts with t :: _ => tok_int t | [] => None end;
       l_hnc := match ts with _ :: t :: _ => tok_int t | _ => None end |}.
  Definition view (f : sepk * list (list tok)) : list line := map view_line (snd f).

  Definition round_obj (o : obj) : obj :=
    match o with
    | OVec vs => OVec (map rnd6 vs)
    | OFull nl nc vs => OFull nl nc (map rnd6 vs)
    | OSym n vs => OSym n (map rnd6 vs)
    | OSparse nl nc es => OSparse nl nc (map (fun e => (fst e, rnd6 (snd e))) es)
    end.
End View.

(* shapes the text format cannot hold (token counts of the first two lines decide the kind) *)
Definition txt_ambiguous (o : obj) : Prop :=
  match o with
  | OVec vs => (length vs <= 1)%nat
  | OFull nl nc _ => nl = 0 \/ nc = 0 \/ (nc = 1 /\ 2 <= nl)
  | OSym n _ => n <= 1
  | OSparse _ _ es => es = []
  end.
