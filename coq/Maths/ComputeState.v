(* C17 — computations on shared objects (HeadMat, SymMatrix::solveLin / inverse / products, GainEEG, GainEEGadjoint,
   GainMEGadjoint, GainEEGMEGadjoint, DipSourceMat, Head2EEGMat, ...) applied in one process to the same geometry and
   matrix objects.  A purity / frame machine:
     - the state is the content (a version number) of every shared operand;
     - an operation reads some operands and is DECLARED to write some (the non-const reference parameters and, for a
       non-const method, the receiver: read from the signatures by translators/t_c17_state.py);
     - its result is a function of the contents of the operands it reads: the measured fresh-process result when
       all of them still have their initial content, unknown (-7) otherwise;
     - a written operand gets a new content.
   All operations of the catalogue take their shared operands by const reference / as const receivers, so the declared
   write sets are empty; the harness checks the contents bit by bit after every operation. *)
From OM Require Import Base.Lists.
Local Open Scope Z_scope.

Record cop := { c_reads : list nat; c_writes : list nat; c_fresh : Z }.   (* c_fresh: result on freshly built operands *)
Notation cstate := (list Z).              (* content id of operand i; the initial content of operand i is init i *)

Definition memN (x : nat) (l : list nat) : bool := existsb (Nat.eqb x) l.
Definition unchanged (init s : cstate) (rs : list nat) : bool :=
  forallb (fun i => nth i s (-1) =? nth i init (-1)) rs.
(* content after being written by operation k: different from every initial content (initial contents are > 0) *)
Definition written (k i : nat) : Z := - (Z.of_nat k * 1000 + Z.of_nat i + 1).

Definition c_step (init : cstate) (W : list cop) (k : nat) (s : cstate) : cstate * (Z * Z) :=
  match nth_error W k with
  | None => (s, (-1, 0))
  | Some o =>
      let r := if unchanged init s (c_reads o) then c_fresh o else -7 in
      let s' := map (fun i => if memN i (c_writes o) then written k i else nth i s (-1)) (seq 0 (length s)) in
      (* second component: bit mask of the operands whose content differs from the initial one *)
      (s', (r, fold_left (fun m i => if nth i s' (-1) =? nth i init (-1) then m else Z.lor m (Z.shiftl 1 (Z.of_nat i))) (seq 0 (length s')) 0))
  end.
Fixpoint c_run (init : cstate) (W : list cop) (h : list nat) (s : cstate) : cstate :=
  match h with [] => s | k :: h' => c_run init W h' (fst (c_step init W k s)) end.
Fixpoint c_trace (init : cstate) (W : list cop) (h : list nat) (s : cstate) : list (Z * Z) :=
  match h with [] => [] | k :: h' => let '(s', r) := c_step init W k s in r :: c_trace init W h' s' end.
Definition c_last (init : cstate) (W : list cop) (h : list nat) (k : nat) : Z * Z :=
  snd (c_step init W k (c_run init W h init)).

(* ---- proofs ---- *)
Definition pure (W : list cop) : Prop := forall o, In o W -> c_writes o = [].

Lemma map_nth_seq : forall (s : cstate), map (fun i => nth i s (-1)) (seq 0 (length s)) = s.
Proof.
  intros s. apply nth_ext with (d := -1) (d' := -1).
  - rewrite map_length, seq_length. reflexivity.
  - intros n Hn. rewrite map_length, seq_length in Hn.
    rewrite (nth_indep _ (-1) (nth (length s) s (-1))) by (rewrite map_length, seq_length; exact Hn).
    rewrite (map_nth (fun i => nth i s (-1)) (seq 0 (length s)) (length s) n). rewrite seq_nth by exact Hn. reflexivity.
Qed.

Lemma c_step_pure_state : forall init W k s, pure W -> fst (c_step init W k s) = s.
Proof.
  intros init W k s Hp. unfold c_step. destruct (nth_error W k) as [o|] eqn:E; [|reflexivity].
  cbn [fst]. rewrite (Hp o (nth_error_In _ _ E)). cbn [memN existsb]. apply map_nth_seq.
Qed.

Lemma c_run_pure : forall init W h s, pure W -> c_run init W h s = s.
Proof. induction h as [|k h IH]; intros s Hp; simpl; auto. rewrite c_step_pure_state by exact Hp. apply IH, Hp. Qed.

(* const-correct catalogue: every result and every operand is that of freshly built inputs, whatever was computed before *)
Lemma compute_history_independent_lemma : forall init W h k, pure W ->
  c_last init W h k = c_last init W [] k /\ c_run init W (h ++ [k]) init = init.
Proof.
  intros init W h k Hp. unfold c_last. rewrite !c_run_pure by exact Hp. split; reflexivity.
Qed.

(* frame rule, for catalogues with declared writes: the result of the last operation is the fresh one as soon as no
   earlier operation writes an operand it reads *)
Lemma unchanged_after_step : forall init W j s rs, length s = length init ->
  (forall o, nth_error W j = Some o -> forall i, In i rs -> memN i (c_writes o) = false) ->
  unchanged init s rs = true -> unchanged init (fst (c_step init W j s)) rs = true.
Proof.
  intros init W j s rs Hl Hd Hu. unfold c_step. destruct (nth_error W j) as [o|] eqn:E; [|exact Hu].
  cbn [fst]. unfold unchanged in *. rewrite forallb_forall in *. intros i Hi. specialize (Hu i Hi).
  destruct (Nat.lt_ge_cases i (length s)) as [Hlt|Hge].
  - rewrite (nth_indep _ (-1) ((fun i0 => if memN i0 (c_writes o) then written j i0 else nth i0 s (-1)) (length s)))
      by (rewrite map_length, seq_length; exact Hlt).
    rewrite (map_nth (fun i0 => if memN i0 (c_writes o) then written j i0 else nth i0 s (-1)) (seq 0 (length s)) (length s) i).
    rewrite seq_nth by exact Hlt. cbn [Nat.add]. rewrite (Hd o eq_refl i Hi). exact Hu.
  - rewrite nth_overflow by (rewrite map_length, seq_length; exact Hge).
    rewrite nth_overflow in Hu by exact Hge. exact Hu.
Qed.

Lemma c_step_length : forall init W j s, length (fst (c_step init W j s)) = length s.
Proof.
  intros. unfold c_step. destruct (nth_error W j); [|reflexivity]. cbn [fst]. rewrite map_length, seq_length. reflexivity.
Qed.

Lemma unchanged_init : forall init rs, unchanged init init rs = true.
Proof. intros. unfold unchanged. rewrite forallb_forall. intros i _. apply Z.eqb_refl. Qed.

Lemma compute_frame_lemma : forall init W h k o, nth_error W k = Some o ->
  (forall j oj, In j h -> nth_error W j = Some oj -> forall i, In i (c_reads o) -> memN i (c_writes oj) = false) ->
  fst (c_last init W h k) = c_fresh o.
Proof.
  intros init W h k o Ek Hd. unfold c_last.
  assert (H : forall s, length s = length init -> unchanged init s (c_reads o) = true ->
              unchanged init (c_run init W h s) (c_reads o) = true).
  { induction h as [|j h IH]; intros s Hl Hu; simpl; auto.
    apply IH.
    - intros j' oj Hj. apply Hd. right; exact Hj.
    - rewrite c_step_length. exact Hl.
    - apply unchanged_after_step; auto. intros oj Ej. apply (Hd j oj); [left; reflexivity | exact Ej]. }
  specialize (H init eq_refl (unchanged_init init (c_reads o))).
  unfold c_step. rewrite Ek. cbn [snd fst]. rewrite H. reflexivity.
Qed.

(* an operation that factorises its receiver in place (what a shallow copy in SymMatrix::solveLin(Matrix&) does):
   operand 1 = head matrix; operations 0 = solveLin, 1 = adjoint gain *)
Definition Cref_bad : list cop := [ {| c_reads := [1%nat]; c_writes := [1%nat]; c_fresh := 500 |}; {| c_reads := [0%nat; 1%nat]; c_writes := []; c_fresh := 600 |} ].
Definition Cref_good : list cop := [ {| c_reads := [1%nat]; c_writes := []; c_fresh := 500 |}; {| c_reads := [0%nat; 1%nat]; c_writes := []; c_fresh := 600 |} ].
Lemma compute_in_place_refuted_lemma :
  c_last [11; 12] Cref_bad [0%nat] 0%nat <> c_last [11; 12] Cref_bad [] 0%nat
  /\ c_last [11; 12] Cref_bad [0%nat] 1%nat <> c_last [11; 12] Cref_bad [] 1%nat
  /\ c_last [11; 12] Cref_good [0%nat] 1%nat = c_last [11; 12] Cref_good [] 1%nat.
Proof. vm_compute. repeat split; congruence. Qed.

(* a process-wide memo shared by all geometries (operand 2: hidden; operand 0 = geometry A, 1 = geometry B): point location
   on A writes it, point location on B reads it.  The frame rule gives no guarantee, and indeed: *)
Definition Cref_memo : list cop := [ {| c_reads := [0%nat; 2%nat]; c_writes := [2%nat]; c_fresh := 700 |}; {| c_reads := [1%nat; 2%nat]; c_writes := [2%nat]; c_fresh := 800 |} ].
Definition Cref_nomemo : list cop := [ {| c_reads := [0%nat]; c_writes := []; c_fresh := 700 |}; {| c_reads := [1%nat]; c_writes := []; c_fresh := 800 |} ].
Lemma process_wide_memo_refuted_lemma :
  fst (c_last [11; 12; 13] Cref_memo [0%nat] 1%nat) <> fst (c_last [11; 12; 13] Cref_memo [] 1%nat)
  /\ c_last [11; 12; 13] Cref_nomemo [0%nat] 1%nat = c_last [11; 12; 13] Cref_nomemo [] 1%nat.
Proof. vm_compute. split; congruence. Qed.
