(* Model of Vector / Matrix / SymMatrix (OpenMEEGMaths/include/{vector,matrix,symmatrix}.h and src/*.cpp):
   each method is what the source does -- the reference semantics of the BLAS routine it calls, with the
   transposition flags, dimensions and leading dimensions it passes, or its hand-written loop.

   Buffers are lists; every BLAS read is CHECKED ([rd] = nth_error): a read outside a buffer, a write outside
   the result buffer, or a result cell that no routine wrote makes the whole call [None], which the methods
   report as [Undef] (indeterminate data / undefined behaviour).
     Ok v   : returns normally with value v
     Throw  : om_assert fires (std::invalid_argument)
     Undef  : out-of-bounds access or uninitialised result
   No proofs here (the file must run even when a proof breaks). *)
From OM Require Import Base.Lists Maths.Dense.
Local Open Scope Z_scope.

Inductive res (A : Type) : Type := Ok (a : A) | Throw | Undef.
Arguments Ok {A}. Arguments Throw {A}. Arguments Undef {A}.

(* column-major table of f over nl x nc *)
Definition tabulate (nl nc : nat) (f : nat -> nat -> Z) : list Z :=
  map (fun p => f (p mod nl)%nat (p / nl)%nat) (seq 0 (nl * nc)).
Definition tab1 (n : nat) (f : nat -> Z) : list Z := map f (seq 0 n).
Definition mk (nl nc : nat) (f : nat -> nat -> Z) : dense := {| dnl := nl; dnc := nc; dd := tabulate nl nc f |}.
Definition dn (nl nc : nat) (l : list Z) : dense := {| dnl := nl; dnc := nc; dd := l |}.
(* packed upper table: slot i+j(j+1)/2 holds f i j (i<=j) *)
Definition packed_pairs (n : nat) : list (nat * nat) := flat_map (fun j => map (fun i => (i, j)) (seq 0 (j + 1))) (seq 0 n).
Definition mks (n : nat) (f : nat -> nat -> Z) : sym := {| sn := n; sd := map (fun p => f (fst p) (snd p)) (packed_pairs n) |}.

(* ---- checked evaluation ---- *)
Definition rd (l : list Z) (k : nat) : option Z := nth_error l k.
Definition omul (a b : option Z) : option Z := match a, b with Some x, Some y => Some (x * y) | _, _ => None end.
Definition oadd (a b : option Z) : option Z := match a, b with Some x, Some y => Some (x + y) | _, _ => None end.
Fixpoint osum (n : nat) (f : nat -> option Z) : option Z :=
  match n with O => Some 0 | S n' => oadd (osum n' f) (f n') end.
Fixpoint oseq (l : list (option Z)) : option (list Z) :=
  match l with
  | [] => Some []
  | x :: t => match x, oseq t with Some a, Some r => Some (a :: r) | _, _ => None end
  end.
Definition otab (n : nat) (f : nat -> option Z) : option (list Z) := oseq (map f (seq 0 n)).
Definition lift {A B} (o : option A) (k : A -> B) : res B := match o with Some a => Ok (k a) | None => Undef end.

(* ---- BLAS reference semantics (column-major cblas interface, alpha=1, beta=0, unit increments unless stated).
   The result buffer is the freshly allocated one the method passes (csz cells, content indeterminate): every
   cell must be written, no write may fall outside.  Parameter errors (leading dimension smaller than the row
   count, as tested by the cblas entry points) make the routine return without writing. ---- *)
Definition fresh_unwritten (csz : nat) : option (list Z) := if (csz =? 0)%nat then Some [] else None.

Definition gemm (ta tb : bool) (m n k : nat) (a : list Z) (lda : nat) (b : list Z) (ldb ldc csz : nat) : option (list Z) :=
  if ((ldc <? m) || (lda <? (if ta then k else m)) || (ldb <? (if tb then n else k)))%nat then fresh_unwritten csz
  else if ((0 <? m) && (0 <? n) && (csz <=? (m - 1) + ldc * (n - 1)))%nat then None
  else otab csz (fun p => let i := (p mod ldc)%nat in let j := (p / ldc)%nat in
         if ((i <? m) && (j <? n))%nat then
           osum k (fun l => omul (rd a (if ta then l + lda * i else i + lda * l)%nat)
                                 (rd b (if tb then j + ldb * l else l + ldb * j)%nat))
         else None).

(* y = op(A) x ; A is m x n with lda.  DGEMV returns immediately (y untouched) when m=0 or n=0, and on lda<max(1,m).
   yinit = Some y0 : y holds y0 on entry; None : y is fresh (indeterminate) *)
Definition gemv (ta : bool) (m n : nat) (a : list Z) (lda : nat) (x : list Z) (ysz : nat) (yinit : option (list Z)) : option (list Z) :=
  if ((lda <? Nat.max 1 m) || (m =? 0) || (n =? 0))%nat then
    match yinit with Some y0 => Some y0 | None => fresh_unwritten ysz end
  else if negb ((if ta then n else m) =? ysz)%nat then None
  else if ta then otab ysz (fun j => osum m (fun i => omul (rd a (i + lda * j)%nat) (rd x i)))
       else otab ysz (fun i => osum n (fun j => omul (rd a (i + lda * j)%nat) (rd x j))).

(* upper triangle of a full buffer seen as a symmetric matrix *)
Definition symU (a : list Z) (lda : nat) (i j : nat) : option Z :=
  if (i <=? j)%nat then rd a (i + lda * j)%nat else rd a (j + lda * i)%nat.
(* DSYMM Upper; Left: C = A_sym(m x m) B(m x n); Right: C = B(m x n) A_sym(n x n) *)
Definition symm (left : bool) (m n : nat) (a : list Z) (lda : nat) (b : list Z) (ldb ldc csz : nat) : option (list Z) :=
  if ((ldc <? m) || (lda <? (if left then m else n)) || (ldb <? m))%nat then fresh_unwritten csz
  else if ((0 <? m) && (0 <? n) && (csz <=? (m - 1) + ldc * (n - 1)))%nat then None
  else otab csz (fun p => let i := (p mod ldc)%nat in let j := (p / ldc)%nat in
         if ((i <? m) && (j <? n))%nat then
           if left then osum m (fun l => omul (symU a lda i l) (rd b (l + ldb * j)%nat))
           else osum n (fun l => omul (rd b (i + ldb * l)%nat) (symU a lda l j))
         else None).
(* DSPMV upper packed, y fresh of n cells *)
Definition spmv (n : nat) (ap x : list Z) : option (list Z) :=
  otab n (fun i => osum n (fun j => omul (rd ap (pidx i j)) (rd x j))).
(* DGER on a zeroed m x n buffer with lda = m *)
Definition ger (m n : nat) (x y : list Z) : option (list Z) :=
  otab (m * n) (fun p => oadd (Some 0) (omul (rd x (p mod m)%nat) (rd y (p / m)%nat))).
(* daxpy n alpha x 1 y 1 *)
Definition axpy (n : nat) (al : Z) (x y : list Z) : option (list Z) :=
  if (n <=? length y)%nat then
    otab (length y) (fun k => if (k <? n)%nat then oadd (omul (Some al) (rd x k)) (rd y k) else rd y k)
  else None.
(* dcopy n x(off,inc) -> fresh contiguous buffer of n cells *)
Definition gather (n off inc : nat) (x : list Z) : option (list Z) := otab n (fun k => rd x (off + inc * k)%nat).
(* dcopy n contiguous v -> y(off,inc) *)
Definition scatter (n off inc : nat) (v y : list Z) : option (list Z) :=
  fold_left (fun ob k => match ob, rd v k with
                         | Some b, Some e => if (off + inc * k <? length b)%nat then Some (upd b (off + inc * k) e) else None
                         | _, _ => None end) (seq 0 n) (Some y).
Definition dotp (n : nat) (x y : list Z) : option Z := osum n (fun k => omul (rd x k) (rd y k)).
(* hand loops over data()[k], k < sz *)
Definition map_buf (sz : nat) (x : list Z) (f : Z -> Z) : option (list Z) :=
  otab sz (fun k => match rd x k with Some e => Some (f e) | None => None end).

(* ---- Vector ---- *)
(* Index arguments are C++ 'unsigned' values, carried as Z in [0,2^32): they are only converted to nat
   after the guard has shown them to be smaller than a dimension. *)
Definition zlen {A} (l : list A) : Z := Z.of_nat (length l).
Definition inb (i : Z) (n : nat) : bool := (0 <=? i) && (i <? Z.of_nat n).
Definition v_get (v : list Z) (i : Z) : res Z := if inb i (length v) then lift (rd v (Z.to_nat i)) id else Throw.
Definition v_put (v : list Z) (i : Z) (x : Z) : res (list Z) := if inb i (length v) then Ok (upd v (Z.to_nat i) x) else Throw.
Definition v_add (u v : list Z) : res (list Z) := if (length u =? length v)%nat then lift (axpy (length u) 1 v u) id else Throw.
Definition v_sub (u v : list Z) : res (list Z) := if (length u =? length v)%nat then lift (axpy (length u) (-1) v u) id else Throw.
Definition v_neg (u : list Z) : res (list Z) := lift (map_buf (length u) u Z.opp) id.
Definition v_scale (u : list Z) (x : Z) : res (list Z) := lift (map_buf (length u) u (fun e => x * e)) id.
Definition v_addc (u : list Z) (x : Z) : res (list Z) := lift (map_buf (length u) u (fun e => e + x)) id.
Definition v_dot (u v : list Z) : res Z := if (length u =? length v)%nat then lift (dotp (length u) u v) id else Throw.
Definition v_kmult (u v : list Z) : res (list Z) :=
  if (length u =? length v)%nat then lift (otab (length u) (fun k => omul (rd v k) (rd u k))) id else Throw.
(* outer_product: Matrix A(size(),v.size()); A.set(0); DGER(sz,sz,1,x=this,y=v,A,sz) with sz=size() *)
Definition v_outer (u v : list Z) : res dense :=
  if (length u =? length v)%nat then lift (ger (length u) (length u) u v) (dn (length u) (length v)) else Throw.
Definition v_sum (u : list Z) : res Z := lift (osum (length u) (fun k => oadd (Some 0) (rd u k))) id.
Definition v_norm2 (u : list Z) : res Z := lift (dotp (length u) u u) id.
(* subvect: om_assert(istart+isize<=nlin()) is evaluated in 32-bit unsigned arithmetic, but every element
   read this(istart+i) is asserted too, and i runs through every value from 0: whenever the exact sum
   exceeds nlin() some read is out of range and throws (arithmetic lemma c18_wrap_caught_by_element_guard).
   Outcome = exact guard. *)
Definition v_subvect (u : list Z) (istart isize : Z) : res (list Z) :=
  if (0 <=? istart) && (0 <=? isize) && (istart + isize <=? zlen u)
  then lift (otab (Z.to_nat isize) (fun i => rd u (Z.to_nat istart + i)%nat)) id else Throw.
Definition v_set (u : list Z) (x : Z) : res (list Z) := if (0 <? length u)%nat then Ok (tab1 (length u) (fun _ => x)) else Throw.

(* ---- Matrix ---- *)
Definition m_get (M : dense) (i j : Z) : res Z :=
  if inb i (dnl M) && inb j (dnc M) then lift (rd (dd M) (didx M (Z.to_nat i) (Z.to_nat j))) id else Throw.
Definition m_put (M : dense) (i j : Z) (v : Z) : res dense :=
  if inb i (dnl M) && inb j (dnc M)
  then (if (didx M (Z.to_nat i) (Z.to_nat j) <? length (dd M))%nat
        then Ok (dn (dnl M) (dnc M) (upd (dd M) (didx M (Z.to_nat i) (Z.to_nat j)) v)) else Undef)
  else Throw.

(* submat (guard as repaired, no 32-bit wrap: istart<=nlin && isize<=nlin-istart ...):
   dcopy(isize, data+istart+(jstart+j)*nlin, 1, res+j*isize, 1) per column *)
Definition m_submat (M : dense) (istart isize jstart jsize : Z) : res dense :=
  if (0 <=? istart) && (0 <=? isize) && (0 <=? jstart) && (0 <=? jsize)
     && (istart + isize <=? Z.of_nat (dnl M)) && (jstart + jsize <=? Z.of_nat (dnc M))
  then let ni := Z.to_nat isize in let nj := Z.to_nat jsize in
       lift (otab (ni * nj) (fun p => rd (dd M) (Z.to_nat istart + p mod ni + (Z.to_nat jstart + p / ni) * dnl M)%nat)) (dn ni nj)
  else Throw.
(* the pinned guard: the sums wrap modulo 2^32; reads are not checked individually (dcopy) *)
Definition two32 : Z := 4294967296.
Definition rdZ (l : list Z) (z : Z) : option Z := if (0 <=? z) && (z <? zlen l) then nth_error l (Z.to_nat z) else None.
Definition m_submat_pinned (M : dense) (istart isize jstart jsize : Z) : res dense :=
  if ((istart + isize) mod two32 <=? Z.of_nat (dnl M)) && ((jstart + jsize) mod two32 <=? Z.of_nat (dnc M))
  then if (isize * jsize <=? 1000000) then
       let ni := Z.to_nat isize in let nj := Z.to_nat jsize in
       lift (otab (ni * nj) (fun p => rdZ (dd M) (istart + Z.of_nat (p mod ni) + (jstart + Z.of_nat (p / ni)) * Z.of_nat (dnl M)))) (dn ni nj)
       else Undef
  else Throw.
(* insertmat (guard as repaired): asserted element writes, column by column: element p = i + B.nlin*j of B goes to (istart+i, jstart+j) *)
Definition m_insertmat (M : dense) (istart jstart : Z) (B : dense) : res dense :=
  if (0 <=? istart) && (0 <=? jstart)
     && (istart + Z.of_nat (dnl B) <=? Z.of_nat (dnl M)) && (jstart + Z.of_nat (dnc B) <=? Z.of_nat (dnc M))
  then lift (fold_left (fun ob p => match ob, rd (dd B) p with
                                    | Some b, Some e => let s := didx M (Z.to_nat istart + p mod dnl B) (Z.to_nat jstart + p / dnl B) in
                                                        if (s <? length b)%nat then Some (upd b s e) else None
                                    | _, _ => None end)
                       (seq 0 (dnl B * dnc B)) (Some (dd M)))
            (dn (dnl M) (dnc M))
  else Throw.
Definition m_getcol (M : dense) (j : Z) : res (list Z) :=
  if inb j (dnc M) then lift (gather (dnl M) (dnl M * Z.to_nat j) 1 (dd M)) id else Throw.
Definition m_setcol (M : dense) (j : Z) (v : list Z) : res dense :=
  if (length v =? dnl M)%nat && inb j (dnc M)
  then lift (scatter (dnl M) (dnl M * Z.to_nat j) 1 v (dd M)) (dn (dnl M) (dnc M)) else Throw.
Definition m_getlin (M : dense) (i : Z) : res (list Z) :=
  if inb i (dnl M) then lift (gather (dnc M) (Z.to_nat i) (dnl M) (dd M)) id else Throw.
Definition m_setlin (M : dense) (i : Z) (v : list Z) : res dense :=
  if (length v =? dnc M)%nat && inb i (dnl M)
  then lift (scatter (dnc M) (Z.to_nat i) (dnl M) v (dd M)) (dn (dnl M) (dnc M)) else Throw.

(* operator*: DGEMM(N,N,M,L,N, A,M, B,N, C,M) *)
Definition m_mult (A B : dense) : res dense :=
  if (dnc A =? dnl B)%nat then
    lift (gemm false false (dnl A) (dnc B) (dnc A) (dd A) (dnl A) (dd B) (dnc A) (dnl A) (dnl A * dnc B)) (dn (dnl A) (dnc B))
  else Throw.
(* tmult: DGEMM(T,N,N,L,M, A,M, B,M, C,N) *)
Definition m_tmult (A B : dense) : res dense :=
  if (dnl A =? dnl B)%nat then
    lift (gemm true false (dnc A) (dnc B) (dnl A) (dd A) (dnl A) (dd B) (dnl A) (dnc A) (dnc A * dnc B)) (dn (dnc A) (dnc B))
  else Throw.
(* multt: DGEMM(N,T,M,L,N, A,M, B,L, C,M) *)
Definition m_multt (A B : dense) : res dense :=
  if (dnc A =? dnc B)%nat then
    lift (gemm false true (dnl A) (dnl B) (dnc A) (dd A) (dnl A) (dd B) (dnl B) (dnl A) (dnl A * dnl B)) (dn (dnl A) (dnl B))
  else Throw.
(* tmultt (as repaired): DGEMM(T,T,N,L,M, A,M, B,L, C,N) *)
Definition m_tmultt (A B : dense) : res dense :=
  if (dnl A =? dnc B)%nat then
    lift (gemm true true (dnc A) (dnl B) (dnl A) (dd A) (dnl A) (dd B) (dnl B) (dnc A) (dnc A * dnl B)) (dn (dnc A) (dnl B))
  else Throw.
(* the pinned call: DGEMM(T,T,L,N,M, A,M, B,N, C,L) -- kept for the regression witness *)
Definition m_tmultt_pinned (A B : dense) : res dense :=
  if (dnl A =? dnc B)%nat then
    lift (gemm true true (dnl B) (dnc A) (dnl A) (dd A) (dnl A) (dd B) (dnc A) (dnl B) (dnc A * dnl B)) (dn (dnc A) (dnl B))
  else Throw.
(* Matrix(const SymMatrix&): asserted element loop *)
Definition sym_to_dense (S : sym) : dense := mk (sn S) (sn S) (fun i j => sget S i j).
(* Matrix * SymMatrix: D = Matrix(B); DSYMM(Right,Upper,m,n, D,n, this,m, C,m) *)
Definition m_mult_sym (A : dense) (B : sym) : res dense :=
  if (dnc A =? sn B)%nat then
    lift (symm false (dnl A) (sn B) (dd (sym_to_dense B)) (sn B) (dd A) (dnl A) (dnl A) (dnl A * sn B)) (dn (dnl A) (sn B))
  else Throw.
Definition m_addsub (al : Z) (A B : dense) : res dense :=
  if ((dnl A =? dnl B) && (dnc A =? dnc B))%nat
  then lift (axpy (dnl A * dnc A) al (dd B) (dd A)) (dn (dnl A) (dnc A)) else Throw.
Definition m_scale (A : dense) (x : Z) : res dense := lift (map_buf (dnl A * dnc A) (dd A) (fun e => e * x)) (dn (dnl A) (dnc A)).
(* operator*(Vector): Vector res(nlin) (zero-initialised, as repaired); DGEMV(N,M,N,A,M,v) ; tmult(Vector): DGEMV(T,M,N,A,M,v) *)
Definition m_mulv (A : dense) (v : list Z) : res (list Z) :=
  if (dnc A =? length v)%nat then lift (gemv false (dnl A) (dnc A) (dd A) (dnl A) v (dnl A) (Some (repeat 0 (dnl A)))) id else Throw.
Definition m_tmulv (A : dense) (v : list Z) : res (list Z) :=
  if (dnl A =? length v)%nat then lift (gemv true (dnl A) (dnc A) (dd A) (dnl A) v (dnc A) (Some (repeat 0 (dnc A)))) id else Throw.
(* pinned: the result vector is not initialised *)
Definition m_mulv_pinned (A : dense) (v : list Z) : res (list Z) :=
  if (dnc A =? length v)%nat then lift (gemv false (dnl A) (dnc A) (dd A) (dnl A) v (dnl A) None) id else Throw.
Definition m_tmulv_pinned (A : dense) (v : list Z) : res (list Z) :=
  if (dnl A =? length v)%nat then lift (gemv true (dnl A) (dnc A) (dd A) (dnl A) v (dnc A) None) id else Throw.
Definition m_transpose (A : dense) : dense := mk (dnc A) (dnl A) (fun j i => dget A i j).
Definition m_frob2 (A : dense) : res Z := lift (dotp (dnl A * dnc A) (dd A) (dd A)) id.
Definition m_dot (A B : dense) : res Z :=
  if ((dnl A =? dnl B) && (dnc A =? dnc B))%nat then lift (dotp (dnl A * dnc A) (dd A) (dd B)) id else Throw.
Definition m_set (A : dense) (x : Z) : dense := dn (dnl A) (dnc A) (tab1 (dnl A * dnc A) (fun _ => x)).
(* Matrix(const Vector&,M,N) *)
Definition m_of_vec (v : list Z) (m n : nat) : res dense :=
  if (m * n =? length v)%nat then Ok (dn m n v) else Throw.
(* Vector * Matrix = m.transpose()*this *)
Definition v_mulm (v : list Z) (M : dense) : res (list Z) :=
  if (length v =? dnl M)%nat then m_mulv (m_transpose M) v else Throw.

(* ---- SymMatrix ---- *)
Definition s_get (S : sym) (i j : Z) : res Z :=
  if inb i (sn S) && inb j (sn S) then lift (rd (sd S) (pidx (Z.to_nat i) (Z.to_nat j))) id else Throw.
Definition s_put (S : sym) (i j : Z) (v : Z) : res sym :=
  if inb i (sn S) && inb j (sn S)
  then (if (pidx (Z.to_nat i) (Z.to_nat j) <? length (sd S))%nat
        then Ok {| sn := sn S; sd := upd (sd S) (pidx (Z.to_nat i) (Z.to_nat j)) v |} else Undef)
  else Throw.
Definition s_getlin (S : sym) (i : Z) : res (list Z) :=
  if inb i (sn S) then lift (otab (sn S) (fun j => rd (sd S) (pidx (Z.to_nat i) j))) id else Throw.
Definition s_setlin (S : sym) (i : Z) (v : list Z) : res sym :=
  if (length v =? sn S)%nat && inb i (sn S)
  then lift (fold_left (fun ob j => match ob, rd v j with
                                    | Some b, Some e => if (pidx (Z.to_nat i) j <? length b)%nat then Some (upd b (pidx (Z.to_nat i) j) e) else None
                                    | _, _ => None end) (seq 0 (sn S)) (Some (sd S)))
            (fun l => {| sn := sn S; sd := l |})
  else Throw.
(* operator()(i_start,i_end,j_start,j_end): sizes and loop bounds are unsigned differences; every element access
   is asserted; the loops run at least once.  All accesses are in range exactly when
   i_start<=i_end<n and j_start<=j_end<n (otherwise the wrapped bound walks out of the matrix). *)
Definition s_block (S : sym) (is ie js je : Z) : res dense :=
  if (0 <=? is) && (is <=? ie) && (ie <? Z.of_nat (sn S)) && (0 <=? js) && (js <=? je) && (je <? Z.of_nat (sn S))
  then let ni := Z.to_nat (ie - is + 1) in let nj := Z.to_nat (je - js + 1) in
       lift (otab (ni * nj) (fun p => rd (sd S) (pidx (Z.to_nat is + p mod ni) (Z.to_nat js + p / ni)))) (dn ni nj)
  else Throw.
(* submat(istart,isize,jstart,jsize) = this(istart,istart+isize-1,...): a zero size wraps to an empty
   result whose first (unconditional) element write throws *)
Definition s_submat4 (S : sym) (istart isize jstart jsize : Z) : res dense :=
  if (0 <=? istart) && (0 <? isize) && (0 <=? jstart) && (0 <? jsize)
     && (istart + isize <=? Z.of_nat (sn S)) && (jstart + jsize <=? Z.of_nat (sn S))
  then s_block S istart (istart + isize - 1) jstart (jstart + jsize - 1) else Throw.
(* submat(istart,iend) (as repaired: block-local indices in the result, iend checked against the dimension);
   asserts iend>istart *)
Definition s_submat2 (S : sym) (istart iend : Z) : res sym :=
  if (0 <=? istart) && (istart <? iend) && (iend <? Z.of_nat (sn S))
  then let isize := Z.to_nat (iend - istart + 1) in
       lift (oseq (map (fun p => rd (sd S) (pidx (Z.to_nat istart + fst p) (Z.to_nat istart + snd p))) (packed_pairs isize)))
            (fun l => {| sn := isize; sd := l |})
  else Throw.
(* the pinned loop: mat(i,j) = this(i,j) with the GLOBAL indices i,j in [istart,iend] written into the
   (iend-istart+1)-sized result through its asserted accessor *)
Definition s_submat2_pinned (S : sym) (istart iend : Z) : res sym :=
  if (0 <=? istart) && (istart <? iend) && (iend <? Z.of_nat (sn S))
  then let isize := Z.to_nat (iend - istart + 1) in
       let mat0 : sym := {| sn := isize; sd := repeat 0 (isize * (isize + 1) / 2) |} in
       fold_left (fun (acc : res sym) p =>
                    match acc with
                    | Ok mat => match s_get S (Z.of_nat (fst p)) (Z.of_nat (snd p)) with
                                | Ok e => s_put mat (Z.of_nat (fst p)) (Z.of_nat (snd p)) e
                                | Throw => Throw | Undef => Undef end
                    | r => r end)
                 (flat_map (fun i => map (fun j => (i, j)) (seq i (Z.to_nat iend + 1 - i))) (seq (Z.to_nat istart) isize))
                 (Ok mat0)
  else Throw.
Definition s_addsub (al : Z) (A B : sym) : res sym :=
  if (sn A =? sn B)%nat then lift (axpy (sn A * (sn A + 1) / 2) al (sd B) (sd A)) (fun l => {| sn := sn A; sd := l |}) else Throw.
Definition s_scale (A : sym) (x : Z) : res sym :=
  lift (map_buf (sn A * (sn A + 1) / 2) (sd A) (fun e => e * x)) (fun l => {| sn := sn A; sd := l |}).
(* sym*sym: D=Matrix(this), B=Matrix(m); DSYMM(Left,Upper,M,M,D,M,B,M,C,M) *)
Definition s_mult_sym (A B : sym) : res dense :=
  if (sn A =? sn B)%nat then
    lift (symm true (sn A) (sn A) (dd (sym_to_dense A)) (sn A) (dd (sym_to_dense B)) (sn A) (sn A) (sn A * sn A)) (dn (sn A) (sn A))
  else Throw.
(* sym*Matrix: DSYMM(Left,Upper,M,N,D,M,B,M,C,M) *)
Definition s_mult (A : sym) (B : dense) : res dense :=
  if (sn A =? dnl B)%nat then
    lift (symm true (sn A) (dnc B) (dd (sym_to_dense A)) (sn A) (dd B) (sn A) (sn A) (sn A * dnc B)) (dn (sn A) (dnc B))
  else Throw.
Definition s_mulv (A : sym) (v : list Z) : res (list Z) :=
  if (sn A =? length v)%nat then lift (spmv (sn A) (sd A) v) id else Throw.
(* SymMatrix(const Matrix&): sized by M.nlin(); reads M(i,j) for i<=j<nlin (asserts j<M.ncol()) *)
Definition s_of_dense (M : dense) : res sym :=
  if ((dnl M <=? dnc M) || (dnl M =? 0))%nat
  then lift (oseq (map (fun p => rd (dd M) (didx M (fst p) (snd p))) (packed_pairs (dnl M)))) (fun l => {| sn := dnl M; sd := l |})
  else Throw.

(* ---- SymMatrix::det(): scan of the Bunch-Kaufman pivot array returned by DSPTRF('U') ----
   piv : the pivot array (1-based, negative pairs mark 2x2 blocks); g i j : entry (i,j) of the factored matrix,
   None when the asserted accessor would throw (index >= n).  Returns (determinant, complaints) or None. *)
Fixpoint det_scan (fuel : nat) (n i : nat) (piv : list Z) (g : nat -> nat -> option Z) (d : Z) (complaints : nat) : option (Z * nat) :=
  match fuel with
  | O => Some (d, complaints)
  | S fuel' =>
    if (n <=? i)%nat then Some (d, complaints) else
    match nth_error piv i with
    | None => None                      (* read past the pivot array *)
    | Some p =>
      if (0 <=? p) then match g i i with Some e => det_scan fuel' n (i + 1)%nat piv g (d * e) complaints | None => None end
      else if (i + 1 <? n)%nat then
        match nth_error piv (i + 1)%nat with
        | None => None
        | Some q => if (p =? q) then
                      match g i i, g (i + 1)%nat (i + 1)%nat, g i (i + 1)%nat, g (i + 1)%nat i with
                      | Some a, Some b, Some c, Some c' => det_scan fuel' n (i + 2)%nat piv g (d * (a * b - c * c')) complaints
                      | _, _, _, _ => None end
                    else det_scan fuel' n (i + 1)%nat piv g d (complaints + 1)%nat
        end
      else det_scan fuel' n (i + 1)%nat piv g d (complaints + 1)%nat
    end
  end.
