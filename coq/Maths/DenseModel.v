(* Model of Vector / Matrix / SymMatrix (OpenMEEGMaths/include/{vector,matrix,symmatrix}.h and .cpp):
   each method is what the source does — the netlib reference semantics of the BLAS routine it calls,
   with the transposition flags, dimensions and leading dimensions it passes, or its hand-written loop.
   None = om_assert fires (std::invalid_argument). *)
From OM Require Import Base.Lists Maths.Dense.
Local Open Scope Z_scope.

(* column-major table of f over nl x nc *)
Definition tabulate (nl nc : nat) (f : nat -> nat -> Z) : list Z :=
  map (fun p => f (p mod nl)%nat (p / nl)%nat) (seq 0 (nl * nc)).
Definition tab1 (n : nat) (f : nat -> Z) : list Z := map f (seq 0 n).
Definition mk (nl nc : nat) (f : nat -> nat -> Z) : dense := {| dnl := nl; dnc := nc; dd := tabulate nl nc f |}.

(* ---- BLAS reference semantics (column-major, unit increments unless stated) ---- *)
(* C(m x n, ldc) = op(A) op(B), A read with lda, B with ldb; returned as the ldc x n buffer *)
Definition gemm (ta tb : bool) (m n k : nat) (a : list Z) (lda : nat) (b : list Z) (ldb ldc : nat) : list Z :=
  tabulate ldc n (fun i j =>
    if (i <? m)%nat then
      sumn k (fun l => (if ta then nth (l + lda * i) a 0 else nth (i + lda * l) a 0) *
                       (if tb then nth (j + ldb * l) b 0 else nth (l + ldb * j) b 0))
    else 0).
(* y = op(A) x, A is m x n with lda *)
Definition gemv (ta : bool) (m n : nat) (a : list Z) (lda : nat) (x : list Z) : list Z :=
  if ta then tab1 n (fun j => sumn m (fun i => nth (i + lda * j) a 0 * nth i x 0))
  else tab1 m (fun i => sumn n (fun j => nth (i + lda * j) a 0 * nth j x 0)).
(* upper triangle of a full buffer seen as a symmetric matrix *)
Definition symU (a : list Z) (lda : nat) (i j : nat) : Z :=
  if (i <=? j)%nat then nth (i + lda * j) a 0 else nth (j + lda * i) a 0.
(* DSYMM: side Left: C = A_sym(m x m) * B(m x n); side Right: C = B(m x n) * A_sym(n x n) *)
Definition symm (left : bool) (m n : nat) (a : list Z) (lda : nat) (b : list Z) (ldb ldc : nat) : list Z :=
  tabulate ldc n (fun i j =>
    if (i <? m)%nat then
      if left then sumn m (fun l => symU a lda i l * nth (l + ldb * j) b 0)
      else sumn n (fun l => nth (i + ldb * l) b 0 * symU a lda l j)
    else 0).
(* DSPMV upper packed *)
Definition spmv (n : nat) (ap x : list Z) : list Z :=
  tab1 n (fun i => sumn n (fun j => nth (pidx i j) ap 0 * nth j x 0)).
(* dcopy n x(off,inc) -> contiguous *)
Definition gather (n off inc : nat) (x : list Z) : list Z := tab1 n (fun k => nth (off + inc * k) x 0).
(* dcopy n contiguous v -> y(off,inc) *)
Definition scatter (n off inc : nat) (v y : list Z) : list Z :=
  fold_left (fun b k => upd b (off + inc * k) (nth k v 0)) (seq 0 n) y.
Definition axpy (al : Z) (x y : list Z) : list Z := tab1 (length y) (fun k => al * nth k x 0 + nth k y 0).
Definition dotp (n : nat) (x y : list Z) : Z := sumn n (fun k => nth k x 0 * nth k y 0).

(* ---- Vector ---- *)
(* Index arguments are C++ 'unsigned' values, carried as Z in [0,2^32): they are only converted to nat
   after the guard has shown them to be smaller than a dimension. *)
Definition zlen {A} (l : list A) : Z := Z.of_nat (length l).
Definition inb (i : Z) (n : nat) : bool := (0 <=? i) && (i <? Z.of_nat n).
Definition v_get (v : list Z) (i : Z) : option Z := if inb i (length v) then Some (nth (Z.to_nat i) v 0) else None.
Definition v_add (u v : list Z) : option (list Z) := if (length u =? length v)%nat then Some (axpy 1 v u) else None.
Definition v_sub (u v : list Z) : option (list Z) := if (length u =? length v)%nat then Some (axpy (-1) v u) else None.
Definition v_neg (u : list Z) : list Z := tab1 (length u) (fun k => - nth k u 0).
Definition v_scale (u : list Z) (x : Z) : list Z := tab1 (length u) (fun k => x * nth k u 0).
Definition v_addc (u : list Z) (x : Z) : list Z := tab1 (length u) (fun k => nth k u 0 + x).
Definition v_dot (u v : list Z) : option Z := if (length u =? length v)%nat then Some (dotp (length u) u v) else None.
Definition v_kmult (u v : list Z) : option (list Z) :=
  if (length u =? length v)%nat then Some (tab1 (length u) (fun k => nth k v 0 * nth k u 0)) else None.
(* outer_product: DGER(sz,sz,1,x=this,y=v,A,sz): A(i,j) += x_i*y_j on a zeroed A *)
Definition v_outer (u v : list Z) : option dense :=
  if (length u =? length v)%nat then Some (mk (length u) (length v) (fun i j => nth i u 0 * nth j v 0)) else None.
Definition v_sum (u : list Z) : Z := zsum u.
Definition v_norm2 (u : list Z) : Z := dotp (length u) u u.
(* subvect: om_assert(istart+isize<=nlin()) is evaluated in 32-bit unsigned arithmetic, but every element
   read this(istart+i) is asserted too, and i runs through every value from 0: whenever the exact sum
   exceeds nlin() some read is out of range and throws.  Outcome = exact guard. *)
Definition v_subvect (u : list Z) (istart isize : Z) : option (list Z) :=
  if (0 <=? istart) && (0 <=? isize) && (istart + isize <=? zlen u)
  then Some (tab1 (Z.to_nat isize) (fun i => nth (Z.to_nat istart + i) u 0)) else None.
Definition v_set (u : list Z) (x : Z) : option (list Z) := if (0 <? length u)%nat then Some (tab1 (length u) (fun _ => x)) else None.

(* ---- Matrix ---- *)
Definition m_get (M : dense) (i j : Z) : option Z :=
  if inb i (dnl M) && inb j (dnc M) then Some (dget M (Z.to_nat i) (Z.to_nat j)) else None.
Definition m_put (M : dense) (i j : Z) (v : Z) : option dense :=
  if inb i (dnl M) && inb j (dnc M)
  then Some {| dnl := dnl M; dnc := dnc M; dd := upd (dd M) (didx M (Z.to_nat i) (Z.to_nat j)) v |} else None.

(* submat (guard as repaired: no 32-bit wrap): dcopy(isize, data+istart+(jstart+j)*nlin, 1, res+j*isize, 1) per column *)
Definition m_submat (M : dense) (istart isize jstart jsize : Z) : option dense :=
  if (0 <=? istart) && (0 <=? isize) && (0 <=? jstart) && (0 <=? jsize)
     && (istart + isize <=? Z.of_nat (dnl M)) && (jstart + jsize <=? Z.of_nat (dnc M))
  then Some (mk (Z.to_nat isize) (Z.to_nat jsize)
               (fun i j => nth (Z.to_nat istart + i + (Z.to_nat jstart + j) * dnl M) (dd M) 0)) else None.
(* insertmat: guard + asserted element writes (same remark as subvect) *)
Definition m_insertmat (M : dense) (istart jstart : Z) (B : dense) : option dense :=
  if (0 <=? istart) && (0 <=? jstart)
     && (istart + Z.of_nat (dnl B) <=? Z.of_nat (dnl M)) && (jstart + Z.of_nat (dnc B) <=? Z.of_nat (dnc M))
  then Some {| dnl := dnl M; dnc := dnc M;
               dd := fold_left (fun b p => upd b (didx M (Z.to_nat istart + fst p) (Z.to_nat jstart + snd p)) (dget B (fst p) (snd p)))
                       (flat_map (fun j => map (fun i => (i, j)) (seq 0 (dnl B))) (seq 0 (dnc B))) (dd M) |}
  else None.
Definition m_getcol (M : dense) (j : Z) : option (list Z) :=
  if inb j (dnc M) then Some (gather (dnl M) (dnl M * Z.to_nat j) 1 (dd M)) else None.
Definition m_setcol (M : dense) (j : Z) (v : list Z) : option dense :=
  if (length v =? dnl M)%nat && inb j (dnc M)
  then Some {| dnl := dnl M; dnc := dnc M; dd := scatter (dnl M) (dnl M * Z.to_nat j) 1 v (dd M) |} else None.
Definition m_getlin (M : dense) (i : Z) : option (list Z) :=
  if inb i (dnl M) then Some (gather (dnc M) (Z.to_nat i) (dnl M) (dd M)) else None.
Definition m_setlin (M : dense) (i : Z) (v : list Z) : option dense :=
  if (length v =? dnc M)%nat && inb i (dnl M)
  then Some {| dnl := dnl M; dnc := dnc M; dd := scatter (dnc M) (Z.to_nat i) (dnl M) v (dd M) |} else None.

(* operator*: DGEMM(N,N,M,L,N, A,M, B,N, C,M) *)
Definition m_mult (A B : dense) : option dense :=
  if (dnc A =? dnl B)%nat then
    Some {| dnl := dnl A; dnc := dnc B;
            dd := gemm false false (dnl A) (dnc B) (dnc A) (dd A) (dnl A) (dd B) (dnc A) (dnl A) |}
  else None.
(* tmult: DGEMM(T,N,N,L,M, A,M, B,M, C,N) *)
Definition m_tmult (A B : dense) : option dense :=
  if (dnl A =? dnl B)%nat then
    Some {| dnl := dnc A; dnc := dnc B;
            dd := gemm true false (dnc A) (dnc B) (dnl A) (dd A) (dnl A) (dd B) (dnl A) (dnc A) |}
  else None.
(* multt: DGEMM(N,T,M,L,N, A,M, B,L, C,M) *)
Definition m_multt (A B : dense) : option dense :=
  if (dnc A =? dnc B)%nat then
    Some {| dnl := dnl A; dnc := dnl B;
            dd := gemm false true (dnl A) (dnl B) (dnc A) (dd A) (dnl A) (dd B) (dnl B) (dnl A) |}
  else None.
(* tmultt (as repaired): DGEMM(T,T,N,L,M, A,M, B,L, C,N) *)
Definition m_tmultt (A B : dense) : option dense :=
  if (dnl A =? dnc B)%nat then
    Some {| dnl := dnc A; dnc := dnl B;
            dd := gemm true true (dnc A) (dnl B) (dnl A) (dd A) (dnl A) (dd B) (dnl B) (dnc A) |}
  else None.
(* the pinned call: DGEMM(T,T,L,N,M, A,M, B,N, C,L) — kept for the regression witness *)
Definition m_tmultt_pinned (A B : dense) : option dense :=
  if (dnl A =? dnc B)%nat then
    Some {| dnl := dnc A; dnc := dnl B;
            dd := gemm true true (dnl B) (dnc A) (dnl A) (dd A) (dnl A) (dd B) (dnc A) (dnl B) |}
  else None.
(* Matrix(const SymMatrix&) *)
Definition sym_to_dense (S : sym) : dense := mk (sn S) (sn S) (fun i j => sget S i j).
(* Matrix * SymMatrix: D = Matrix(B); DSYMM(Right,Upper,m,n, D,n, this,m, C,m) *)
Definition m_mult_sym (A : dense) (B : sym) : option dense :=
  if (dnc A =? sn B)%nat then
    Some {| dnl := dnl A; dnc := sn B;
            dd := symm false (dnl A) (sn B) (dd (sym_to_dense B)) (sn B) (dd A) (dnl A) (dnl A) |}
  else None.
Definition m_addsub (al : Z) (A B : dense) : option dense :=
  if ((dnl A =? dnl B) && (dnc A =? dnc B))%nat
  then Some {| dnl := dnl A; dnc := dnc A; dd := axpy al (dd B) (dd A) |} else None.
Definition m_scale (A : dense) (x : Z) : dense := {| dnl := dnl A; dnc := dnc A; dd := tab1 (length (dd A)) (fun k => nth k (dd A) 0 * x) |}.
(* operator*(Vector): DGEMV(N,M,N,A,M,v) ; tmult(Vector): DGEMV(T,M,N,A,M,v) *)
Definition m_mulv (A : dense) (v : list Z) : option (list Z) :=
  if (dnc A =? length v)%nat then Some (gemv false (dnl A) (dnc A) (dd A) (dnl A) v) else None.
Definition m_tmulv (A : dense) (v : list Z) : option (list Z) :=
  if (dnl A =? length v)%nat then Some (gemv true (dnl A) (dnc A) (dd A) (dnl A) v) else None.
Definition m_transpose (A : dense) : dense := mk (dnc A) (dnl A) (fun j i => dget A i j).
Definition m_frob2 (A : dense) : Z := dotp (length (dd A)) (dd A) (dd A).
Definition m_dot (A B : dense) : option Z :=
  if ((dnl A =? dnl B) && (dnc A =? dnc B))%nat then Some (dotp (length (dd A)) (dd A) (dd B)) else None.
Definition m_set (A : dense) (x : Z) : dense := {| dnl := dnl A; dnc := dnc A; dd := tab1 (length (dd A)) (fun _ => x) |}.
(* Matrix(const Vector&,M,N) *)
Definition m_of_vec (v : list Z) (m n : nat) : option dense :=
  if (m * n =? length v)%nat then Some {| dnl := m; dnc := n; dd := v |} else None.
(* Vector * Matrix = m.transpose()*this *)
Definition v_mulm (v : list Z) (M : dense) : option (list Z) :=
  if (length v =? dnl M)%nat then m_mulv (m_transpose M) v else None.

(* ---- SymMatrix ---- *)
Definition s_get (S : sym) (i j : Z) : option Z :=
  if inb i (sn S) && inb j (sn S) then Some (sget S (Z.to_nat i) (Z.to_nat j)) else None.
Definition s_put (S : sym) (i j : Z) (v : Z) : option sym :=
  if inb i (sn S) && inb j (sn S) then Some {| sn := sn S; sd := upd (sd S) (pidx (Z.to_nat i) (Z.to_nat j)) v |} else None.
Definition s_getlin (S : sym) (i : Z) : option (list Z) :=
  if inb i (sn S) then Some (tab1 (sn S) (fun j => sget S (Z.to_nat i) j)) else None.
Definition s_setlin (S : sym) (i : Z) (v : list Z) : option sym :=
  if (length v =? sn S)%nat && inb i (sn S)
  then Some {| sn := sn S; sd := fold_left (fun b j => upd b (pidx (Z.to_nat i) j) (nth j v 0)) (seq 0 (sn S)) (sd S) |} else None.
(* operator()(i_start,i_end,j_start,j_end): sizes and loop bounds are unsigned differences; every element access
   is asserted; the loops run at least once.  All accesses are in range exactly when
   i_start<=i_end<n and j_start<=j_end<n (otherwise the wrapped bound walks out of the matrix). *)
Definition s_block (S : sym) (is ie js je : Z) : option dense :=
  if (0 <=? is) && (is <=? ie) && (ie <? Z.of_nat (sn S)) && (0 <=? js) && (js <=? je) && (je <? Z.of_nat (sn S))
  then Some (mk (Z.to_nat (ie - is + 1)) (Z.to_nat (je - js + 1)) (fun i j => sget S (Z.to_nat is + i) (Z.to_nat js + j)))
  else None.
(* submat(istart,isize,jstart,jsize) = this(istart,istart+isize-1,...): a zero size wraps to an empty
   result whose first (unconditional) element write throws *)
Definition s_submat4 (S : sym) (istart isize jstart jsize : Z) : option dense :=
  if (0 <=? istart) && (0 <? isize) && (0 <=? jstart) && (0 <? jsize)
     && (istart + isize <=? Z.of_nat (sn S)) && (jstart + jsize <=? Z.of_nat (sn S))
  then s_block S istart (istart + isize - 1) jstart (jstart + jsize - 1) else None.
(* submat(istart,iend) (as repaired: local indices in the result); asserts iend>istart *)
Definition s_submat2 (S : sym) (istart iend : Z) : option sym :=
  if (0 <=? istart) && (istart <? iend) && (iend <? Z.of_nat (sn S))
  then let isize := Z.to_nat (iend - istart + 1) in
       Some {| sn := isize; sd := map (fun p => sget S (Z.to_nat istart + fst p) (Z.to_nat istart + snd p))
                                     (flat_map (fun j => map (fun i => (i, j)) (seq 0 (j + 1))) (seq 0 isize)) |}
  else None.
Definition s_addsub (al : Z) (A B : sym) : option sym :=
  if (sn A =? sn B)%nat then Some {| sn := sn A; sd := axpy al (sd B) (sd A) |} else None.
Definition s_scale (A : sym) (x : Z) : sym := {| sn := sn A; sd := tab1 (length (sd A)) (fun k => nth k (sd A) 0 * x) |}.
(* sym*sym: D=Matrix(this), B=Matrix(m); DSYMM(Left,Upper,M,M,D,M,B,M,C,M) *)
Definition s_mult_sym (A B : sym) : option dense :=
  if (sn A =? sn B)%nat then
    Some {| dnl := sn A; dnc := sn A;
            dd := symm true (sn A) (sn A) (dd (sym_to_dense A)) (sn A) (dd (sym_to_dense B)) (sn A) (sn A) |}
  else None.
(* sym*Matrix: DSYMM(Left,Upper,M,N,D,M,B,M,C,M) *)
Definition s_mult (A : sym) (B : dense) : option dense :=
  if (sn A =? dnl B)%nat then
    Some {| dnl := sn A; dnc := dnc B;
            dd := symm true (sn A) (dnc B) (dd (sym_to_dense A)) (sn A) (dd B) (sn A) (sn A) |}
  else None.
Definition s_mulv (A : sym) (v : list Z) : option (list Z) :=
  if (sn A =? length v)%nat then Some (spmv (sn A) (sd A) v) else None.
(* SymMatrix(const Matrix&): sized by M.nlin(); reads M(i,j) for i<=j<nlin (asserts j<M.ncol()) *)
Definition s_of_dense (M : dense) : option sym :=
  if ((dnl M <=? dnc M) || (dnl M =? 0))%nat
  then Some {| sn := dnl M; sd := map (fun p => dget M (fst p) (snd p))
                                    (flat_map (fun j => map (fun i => (i, j)) (seq 0 (j + 1))) (seq 0 (dnl M))) |}
  else None.
