(* FastSparseMatrix(const SparseMatrix&) (fast_sparse_matrix.h:99-130): the row-pointer construction
   loop (with its current_line = (size_t)-1 start, empty rows, trailing fill), operator()(i,j) const
   and operator*(Vector) agree with the map-based matrix, for every well-formed sparse matrix. *)
From OM Require Import Base.Lists Maths.Dense Maths.SparseModel Maths.SparseProofs.
Require Import ZifyBool ZifyNat.

Definition erow (e : key * Z) : nat := fst (fst e).
Definition ecol (e : key * Z) : nat := snd (fst e).
Arguments erow : simpl never.
Arguments ecol : simpl never.
Definition cnt_lt (k : nat) (t : tank) : nat := length (filter (fun e => (erow e <? k)%nat) t).
Definition rowseg (i : nat) (t : tank) : tank := filter (fun e => (erow e =? i)%nat) t.

(* ---------- filling a range of the row-pointer array ---------- *)
Lemma fill_length (c : nat) a n (row : list nat) : length (fold_left (fun r k => upd r k c) (seq a n) row) = length row.
Proof. revert a row; induction n as [|n IH]; intros a row; simpl; auto. rewrite IH, upd_length; auto. Qed.

Lemma fill_nth (c : nat) a n row k :
  nth k (fold_left (fun r k => upd r k c) (seq a n) row) O =
  if ((a <=? k) && (k <? a + n) && (k <? length row))%nat then c else nth k row O.
Proof.
  revert a row; induction n as [|n IH]; intros a row; simpl.
  - replace ((a <=? k) && (k <? a + 0))%nat with false; auto.
    symmetry. destruct (Nat.leb_spec a k), (Nat.ltb_spec k (a + 0)); simpl; auto; lia.
  - rewrite IH, upd_length, nth_upd.
    destruct (Nat.leb_spec (S a) k), (Nat.leb_spec a k), (Nat.ltb_spec k (S a + n)), (Nat.ltb_spec k (a + S n)),
             (Nat.ltb_spec k (length row)), (Nat.eqb_spec a k), (Nat.ltb_spec a (length row)); simpl; auto; try lia.
Qed.

(* ---------- counting ---------- *)
Lemma cnt_lt_app k p q : cnt_lt k (p ++ q) = (cnt_lt k p + cnt_lt k q)%nat.
Proof. unfold cnt_lt. rewrite filter_app, app_length; auto. Qed.

Lemma cnt_lt_snoc k p e : cnt_lt k (p ++ [e]) = (cnt_lt k p + if (erow e <? k)%nat then 1 else 0)%nat.
Proof. rewrite cnt_lt_app. unfold cnt_lt at 2; simpl. destruct (erow e <? k)%nat; auto. Qed.

Lemma cnt_lt_all k p : (forall e, In e p -> (erow e < k)%nat) -> cnt_lt k p = length p.
Proof.
  unfold cnt_lt. induction p as [|e p IH]; simpl; intros H; auto.
  replace (erow e <? k)%nat with true by (symmetry; apply Nat.ltb_lt; apply H; auto). simpl. rewrite IH; auto.
Qed.

Lemma cnt_lt_le k t : (cnt_lt k t <= length t)%nat.
Proof. unfold cnt_lt. induction t as [|e t IH]; simpl; auto. destruct (erow e <? k)%nat; simpl; lia. Qed.

Lemma cnt_lt_S k t : cnt_lt (S k) t = (cnt_lt k t + length (rowseg k t))%nat.
Proof.
  unfold cnt_lt, rowseg. induction t as [|e t IH]; simpl; auto.
  destruct (Nat.ltb_spec (erow e) (S k)), (Nat.ltb_spec (erow e) k), (Nat.eqb_spec (erow e) k); simpl; lia.
Qed.

(* ---------- the construction loop ---------- *)
Section Build.
Variables nl nc : nat.

Definition LInv (p : tank) (st : nat * nat * list nat) : Prop :=
  let '(cnt, next, row) := st in
  cnt = length p /\ length row = S nl /\ (next <= S nl)%nat /\
  (forall e, In e p -> (erow e < next)%nat) /\
  (forall k, (k < next)%nat -> nth k row O = cnt_lt k p).

Lemma lb_rows e t : lb (fst e) t -> forall e', In e' t -> (erow e <= erow e')%nat.
Proof.
  unfold lb; intros H e' Hin. rewrite Forall_forall in H. specialize (H e' Hin).
  apply klt_spec in H. unfold erow; lia.
Qed.

Lemma csr_fold_inv t : forall p st, LInv p st -> tsorted t -> tbounded nl nc t ->
  (forall e, In e t -> (snd (fst st) <= S (erow e))%nat) ->
  LInv (p ++ t) (fold_left csr_step t st).
Proof.
  induction t as [|e t IH]; intros p [[cnt next] row] HI Hs Hb Hlow.
  - rewrite app_nil_r; exact HI.
  - destruct HI as (Hc & Hl & Hn & Hp & Hr).
    apply tsorted_inv in Hs; destruct Hs as [Hs Hlb].
    inversion Hb as [|? ? [Hbi _] Hb']; subst.
    assert (Hrows := lb_rows e t Hlb).
    assert (Hne : (next <= S (erow e))%nat) by (apply (Hlow e); simpl; auto).
    fold (erow e) in Hbi.
    replace (p ++ e :: t) with ((p ++ [e]) ++ t) by (rewrite <- app_assoc; auto).
    cbn [fold_left]. unfold csr_step at 2. fold (erow e).
    destruct (Nat.eqb_spec (S (erow e)) next) as [He|He].
    + apply IH; auto.
      * repeat split; auto.
        -- rewrite app_length; simpl; lia.
        -- intros e' Hin. apply in_app_or in Hin; destruct Hin as [Hin|[<-|[]]]; auto. lia.
        -- intros k Hk. rewrite cnt_lt_snoc, Hr by auto.
           replace (erow e <? k)%nat with false by (symmetry; apply Nat.ltb_ge; lia). lia.
      * simpl. intros e' Hin. specialize (Hrows e' Hin). lia.
    + apply IH; auto.
      * repeat split.
        -- rewrite app_length; simpl; lia.
        -- rewrite fill_length; auto.
        -- lia.
        -- intros e' Hin. apply in_app_or in Hin; destruct Hin as [Hin|[<-|[]]]; [|lia].
           specialize (Hp e' Hin). lia.
        -- intros k Hk. rewrite fill_nth, Hl, cnt_lt_snoc.
           replace (erow e <? k)%nat with false by (symmetry; apply Nat.ltb_ge; lia).
           destruct (Nat.leb_spec next k); cbn [andb].
           ++ replace (k <? next + (S (erow e) - next))%nat with true by (symmetry; apply Nat.ltb_lt; lia).
              replace (k <? S nl)%nat with true by (symmetry; apply Nat.ltb_lt; lia). cbn [andb].
              rewrite cnt_lt_all; [lia|]. intros e' Hin. specialize (Hp e' Hin). lia.
           ++ rewrite Hr by lia. lia.
      * simpl. intros e' Hin. specialize (Hrows e' Hin). lia.
Qed.
End Build.

Lemma repeat_nth_O n k : nth k (repeat O n) O = O.
Proof. revert k; induction n; intros [|k]; simpl; auto. Qed.

Theorem crow_spec A k : swf_sp A -> (k <= snl A)%nat ->
  nth k (crow (to_csr A)) O = cnt_lt k (stank A) /\ length (crow (to_csr A)) = S (snl A).
Proof.
  intros [Hs Hb] Hk. unfold to_csr.
  assert (H0 : LInv (snl A) [] (O, O, repeat O (S (snl A)))).
  { repeat split; auto; try lia. - rewrite repeat_length; auto. - intros e []. }
  pose proof (csr_fold_inv (snl A) (snc A) (stank A) [] _ H0 Hs Hb) as HI.
  assert (Hlow : forall e, In e (stank A) -> (snd (fst (O, O, repeat O (S (snl A)))) <= S (erow e))%nat) by (intros; cbn [fst snd]; lia).
  specialize (HI Hlow). rewrite app_nil_l in HI.
  destruct (fold_left csr_step (stank A) (O, O, repeat O (S (snl A)))) as [[cnt next] row].
  destruct HI as (Hc & Hl & Hn & Hp & Hr). cbn [crow]. split.
  - rewrite fill_nth, Hl.
    destruct (Nat.leb_spec next k); cbn [andb].
    + replace (k <? next + (S (snl A) - next))%nat with true by (symmetry; apply Nat.ltb_lt; lia).
      replace (k <? S (snl A))%nat with true by (symmetry; apply Nat.ltb_lt; lia). cbn [andb].
      rewrite cnt_lt_all; auto. intros e Hin. specialize (Hp e Hin). lia.
    + apply Hr; lia.
  - rewrite fill_length; auto.
Qed.

(* ---------- a sorted tank is the concatenation of its row segments ---------- *)
Lemma filter_none {A} (f : A -> bool) l : (forall a, In a l -> f a = false) -> filter f l = [].
Proof. induction l as [|a l IH]; simpl; intros H; auto. rewrite H by auto. apply IH; auto. Qed.
Lemma filter_all {A} (f : A -> bool) l : (forall a, In a l -> f a = true) -> filter f l = l.
Proof. induction l as [|a l IH]; simpl; intros H; auto. rewrite H by auto. f_equal; apply IH; auto. Qed.

Lemma tank_split i t : tsorted t ->
  t = filter (fun e => (erow e <? i)%nat) t ++ rowseg i t ++ filter (fun e => (i <? erow e)%nat) t.
Proof.
  unfold rowseg. induction t as [|e t IH]; intros Hs; auto.
  apply tsorted_inv in Hs; destruct Hs as [Hs Hlb]. assert (Hrows := lb_rows e t Hlb).
  simpl. destruct (Nat.ltb_spec (erow e) i) as [H1|H1].
  - replace (erow e =? i)%nat with false by (symmetry; apply Nat.eqb_neq; lia).
    replace (i <? erow e)%nat with false by (symmetry; apply Nat.ltb_ge; lia).
    simpl. f_equal. apply IH; auto.
  - rewrite (filter_none (fun e0 => (erow e0 <? i)%nat) t) in *.
    2,3: intros a Ha; specialize (Hrows a Ha); apply Nat.ltb_ge; lia.
    destruct (Nat.eqb_spec (erow e) i) as [H2|H2].
    + replace (i <? erow e)%nat with false by (symmetry; apply Nat.ltb_ge; lia). simpl. f_equal. apply IH; auto.
    + replace (i <? erow e)%nat with true by (symmetry; apply Nat.ltb_lt; lia).
      rewrite (filter_none (fun e0 => (erow e0 =? i)%nat) t).
      2:{ intros a Ha; specialize (Hrows a Ha); apply Nat.eqb_neq; lia. }
      simpl. f_equal. symmetry. apply filter_all. intros a Ha; specialize (Hrows a Ha); apply Nat.ltb_lt; lia.
Qed.

Lemma segment_is_rowseg i t : tsorted t ->
  firstn (cnt_lt (S i) t - cnt_lt i t) (skipn (cnt_lt i t) t) = rowseg i t.
Proof.
  intros Hs. rewrite cnt_lt_S. replace (cnt_lt i t + length (rowseg i t) - cnt_lt i t)%nat with (length (rowseg i t)) by lia.
  unfold cnt_lt. pose proof (tank_split i t Hs) as E.
  set (L := filter (fun e => (erow e <? i)%nat) t) in *. set (R := filter (fun e => (i <? erow e)%nat) t) in *.
  transitivity (firstn (length (rowseg i t)) (skipn (length L) (L ++ rowseg i t ++ R))).
  { f_equal. f_equal. exact E. }
  rewrite skipn_app, skipn_all, Nat.sub_diag. simpl.
  rewrite firstn_app, firstn_all, Nat.sub_diag. simpl. apply app_nil_r.
Qed.

(* ---------- scanning a row ---------- *)
Fixpoint scanl (j : nat) (l : tank) : Z :=
  match l with
  | [] => 0%Z
  | e :: l' => if (ecol e <? j)%nat then scanl j l' else if (ecol e =? j)%nat then snd e else 0%Z
  end.

Lemma skipn_nth_cons {A} (l : list A) k d : (k < length l)%nat -> skipn k l = nth k l d :: skipn (S k) l.
Proof. revert k; induction l as [|a l IH]; intros [|k] H; simpl in *; try lia; auto. apply IH; lia. Qed.

Lemma csr_scan_list (C : csr) (t : tank) j : cjs C = map ecol t -> cval C = map snd t ->
  forall n k, (k + n <= length t)%nat -> csr_scan C j k n = scanl j (firstn n (skipn k t)).
Proof.
  intros Hj Hv. induction n as [|n IH]; intros k Hk; simpl; auto.
  rewrite (skipn_nth_cons t k (0%nat, 0%nat, 0%Z)) by lia. cbn [firstn scanl].
  rewrite Hj, Hv.
  rewrite (nth_indep (map ecol t) O (ecol (0%nat, 0%nat, 0%Z))) by (rewrite map_length; lia).
  rewrite (nth_indep (map snd t) 0%Z (snd (0%nat, 0%nat, 0%Z))) by (rewrite map_length; lia).
  rewrite !map_nth. rewrite IH by lia. auto.
Qed.

Lemma lb_filter k f t : lb k t -> lb k (filter f t).
Proof. unfold lb. rewrite !Forall_forall. intros H e He. apply filter_In in He. apply H; tauto. Qed.

Lemma filter_sorted f t : tsorted t -> tsorted (filter f t).
Proof.
  induction t as [|e t IH]; intros Hs; simpl; [constructor|].
  apply tsorted_inv in Hs; destruct Hs as [Hs Hlb].
  destruct (f e); auto. apply tsorted_cons; auto. apply lb_filter; auto.
Qed.

Lemma tfind_rowseg i j t : tfind (i, j) (rowseg i t) = tfind (i, j) t.
Proof.
  unfold rowseg. induction t as [|[[r c] v] t IH]; auto.
  cbn [filter]. change (erow (r, c, v)) with r. destruct (Nat.eqb_spec r i) as [->|Hn]; cbn [tfind].
  - rewrite IH; auto.
  - rewrite IH. unfold keqb; cbn [fst snd]. replace (i =? r)%nat with false by (symmetry; apply Nat.eqb_neq; lia). auto.
Qed.

Lemma scanl_spec i j M : tsorted M -> (forall e, In e M -> erow e = i) -> scanl j M = tget (i, j) M.
Proof.
  induction M as [|[[r c] v] M IH]; intros Hs Hrow; auto.
  apply tsorted_inv in Hs; destruct Hs as [Hs Hlb]. simpl in Hlb.
  assert (r = i) by (apply (Hrow (r, c, v)); simpl; auto). subst r.
  cbn [scanl]. unfold ecol; cbn [fst snd]. unfold tget; cbn [tfind]. unfold keqb; cbn [fst snd]. rewrite Nat.eqb_refl. simpl.
  destruct (Nat.ltb_spec c j) as [H1|H1].
  - replace (j =? c)%nat with false by (symmetry; apply Nat.eqb_neq; lia).
    fold (tget (i, j) M). apply IH; auto. intros e He; apply Hrow; simpl; auto.
  - destruct (Nat.eqb_spec c j) as [->|H2].
    + rewrite Nat.eqb_refl; auto.
    + replace (j =? c)%nat with false by (symmetry; apply Nat.eqb_neq; lia).
      rewrite lb_tfind; auto. unfold lb in *. rewrite Forall_forall in *. intros e He.
      apply (klt_trans (i, j) (i, c)); auto. apply klt_spec; simpl; lia.
Qed.

(* ---------- element access ---------- *)
Theorem csr_get_eq A i j : swf_sp A -> (i < snl A)%nat -> csr_get (to_csr A) i j = sdn A i j.
Proof.
  intros Hwf Hi. destruct (crow_spec A i Hwf ltac:(lia)) as [Ha _]. destruct (crow_spec A (S i) Hwf ltac:(lia)) as [Hb _].
  destruct Hwf as [Hs Hbd]. unfold csr_get. rewrite Ha, Hb.
  assert (Hj : cjs (to_csr A) = map ecol (stank A)).
  { unfold to_csr. destruct (fold_left csr_step (stank A) _) as [[? ?] ?]; auto. }
  assert (Hv : cval (to_csr A) = map snd (stank A)).
  { unfold to_csr. destruct (fold_left csr_step (stank A) _) as [[? ?] ?]; auto. }
  rewrite (csr_scan_list _ (stank A) j Hj Hv).
  2:{ pose proof (cnt_lt_le (S i) (stank A)) as HL. rewrite cnt_lt_S in *. lia. }
  rewrite segment_is_rowseg by auto.
  rewrite (scanl_spec i).
  - unfold sdn, tget. rewrite tfind_rowseg; auto.
  - apply filter_sorted; auto.
  - intros e He. apply filter_In in He. destruct He as [_ He]. apply Nat.eqb_eq in He; auto.
Qed.

(* ---------- product with a vector ---------- *)
Lemma zsum_filter {A} (p : A -> bool) (f : A -> Z) l :
  zsum (map f (filter p l)) = zsum (map (fun e => if p e then f e else 0%Z) l).
Proof. induction l as [|a l IH]; simpl; auto. destruct (p a); simpl; rewrite IH; auto. Qed.

Lemma fold_seq_segment (C : csr) (t : tank) (x : list Z) : cjs C = map ecol t -> cval C = map snd t ->
  forall n a tot, (a + n <= length t)%nat ->
  fold_left (fun tot k => (tot + nth k (cval C) 0 * nth (nth k (cjs C) O) x 0)%Z) (seq a n) tot =
  (tot + zsum (map (fun e => snd e * nth (ecol e) x 0)%Z (firstn n (skipn a t))))%Z.
Proof.
  intros Hj Hv. induction n as [|n IH]; intros a tot Ha; simpl; [ring|].
  rewrite (skipn_nth_cons t a (0%nat, 0%nat, 0%Z)) by lia. cbn [firstn map zsum fold_right].
  rewrite IH by lia. rewrite Hj, Hv.
  rewrite (nth_indep (map ecol t) O (ecol (0%nat, 0%nat, 0%Z))) by (rewrite map_length; lia).
  rewrite (nth_indep (map snd t) 0%Z (snd (0%nat, 0%nat, 0%Z))) by (rewrite map_length; lia).
  rewrite !map_nth. fold (zsum (map (fun e => (snd e * nth (ecol e) x 0)%Z) (firstn n (skipn (S a) t)))). ring.
Qed.

Lemma nth_map_seq (f : nat -> Z) n i : (i < n)%nat -> nth i (map f (seq 0 n)) 0%Z = f i.
Proof.
  intros H. rewrite (nth_indep _ 0%Z (f O)) by (rewrite map_length, seq_length; auto).
  rewrite map_nth, seq_nth; auto.
Qed.

Theorem csr_mulv_eq A x r : swf_sp A -> csr_mulv (to_csr A) x = Some r ->
  length r = snl A /\ forall i, (i < snl A)%nat -> nth i r 0%Z = sumn (snc A) (fun j => (sdn A i j * nth j x 0)%Z).
Proof.
  intros Hwf H. unfold csr_mulv in H.
  assert (Hn : cnl (to_csr A) = snl A).
  { unfold to_csr. destruct (fold_left csr_step (stank A) _) as [[? ?] ?]; auto. }
  assert (Hj : cjs (to_csr A) = map ecol (stank A)).
  { unfold to_csr. destruct (fold_left csr_step (stank A) _) as [[? ?] ?]; auto. }
  assert (Hv : cval (to_csr A) = map snd (stank A)).
  { unfold to_csr. destruct (fold_left csr_step (stank A) _) as [[? ?] ?]; auto. }
  destruct ((0 <? cnl (to_csr A))%nat && (0 <? length x)%nat); [|discriminate].
  injection H as <-. rewrite Hn. split; [rewrite map_length, seq_length; auto|].
  intros i Hi.
  rewrite nth_map_seq by auto. cbv zeta.
  destruct (crow_spec A i Hwf ltac:(lia)) as [Ha _]. destruct (crow_spec A (S i) Hwf ltac:(lia)) as [Hb _].
  rewrite Ha, Hb.
  rewrite (fold_seq_segment _ (stank A) x Hj Hv).
  2:{ pose proof (cnt_lt_le (S i) (stank A)) as HL. rewrite cnt_lt_S in *. lia. }
  destruct Hwf as [Hs Hbd]. rewrite segment_is_rowseg by auto. unfold rowseg. rewrite zsum_filter.
  rewrite <- (row_sum_dense A i (fun j => nth j x 0%Z)) by (try split; auto). unfold tank_sum.
  rewrite Z.add_0_l. f_equal.
Qed.
