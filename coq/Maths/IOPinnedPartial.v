(* C17 — what still holds for the tree as found (pinned): an operation whose file can be opened and, for reads,
   has at least 32 bytes, gives the fresh-process result when started from a state with no pending format; and it
   leaves no pending format behind.  So histories without failed opens and without short files are harmless. *)
From OM Require Import Base.Lists Maths.IOState Maths.IOStateProofs.
Local Open Scope Z_scope.

Definition long_file (W : world) (fs : fsys) (n : nat) : bool :=
  match nth n fs ENoDir with EFile c => Nat.eqb (length (head_of W c)) 32 | _ => false end.
Definition writable (fs : fsys) (n : nat) : bool := match nth n fs ENoDir with ENoDir => false | _ => true end.
Definition good (W : world) (fs : fsys) (o : op) : bool :=
  match o with
  | Load _ n | ReadAs _ _ n | Info n => long_file W fs n
  | Save _ n | WriteAs _ _ n | WriteSfx _ n => writable fs n
  end.

Lemma read_tag_long : forall c old h, length h = 32%nat -> read_tag c old h = h.
Proof.
  intros c old h H. unfold read_tag.
  assert (E : forall r, firstn 32 (h ++ r) = h).
  { intros r. rewrite firstn_app. replace (32 - length h)%nat with 0%nat by lia.
    rewrite firstn_O, app_nil_r. apply firstn_all2. lia. }
  destruct (tag_at_gcount c); apply E.
Qed.

Local Arguments read_tag : simpl never.
Local Arguments cstr : simpl never.
Local Arguments tag_string : simpl never.
Local Arguments identify : simpl never.
Local Arguments head_of : simpl never.
Local Arguments rd_of : simpl never.
Local Arguments wr_of : simpl never.
Local Arguments inf_of : simpl never.
Local Arguments known : simpl never.

Notation mk cu t := {| cur := cu; perm := false; tag := t |}.

(* a read of a long file: the whole outcome (state included) is independent of the previous tag *)
Lemma rd_long : forall W k n cu t t' fs, long_file W fs n = true ->
  op_read pinned W k n (mk cu t, fs) = op_read pinned W k n (mk cu t', fs)
  /\ clean (fst (fst (op_read pinned W k n (mk cu t, fs)))) /\ snd (fst (op_read pinned W k n (mk cu t, fs))) = fs.
Proof.
  intros W k n cu t t' fs H. unfold long_file in H. unfold op_read, get_current; simpl.
  destruct (nth n fs ENoDir) as [| |ct]; try discriminate.
  apply Nat.eqb_eq in H. rewrite !(read_tag_long pinned _ _ H).
  destruct cu as [g|]; [destruct (identify _ g _) | destruct (find _ (w_ios W))]; simpl; repeat split; reflexivity.
Qed.

Lemma wr_ok : forall W k n cu t t' fs, writable fs n = true ->
  let A := op_write pinned W k n (mk cu t, fs) in let B := op_write pinned W k n (mk cu t', fs) in
  snd A = snd B /\ snd (fst A) = snd (fst B) /\ fst (fst A) = mk None t /\ fst (fst B) = mk None t' /\ writable (snd (fst A)) n = true.
Proof.
  intros W k n cu t t' fs H. unfold writable in H. unfold op_write, get_current; simpl.
  assert (Hlen : (n < length fs)%nat).
  { destruct (Nat.lt_ge_cases n (length fs)) as [Hl|Hl]; auto. rewrite nth_overflow in H by exact Hl. discriminate. }
  assert (Hw : forall x, writable (upd fs n (EFile x)) n = true).
  { intros x. unfold writable. rewrite nth_upd_same by exact Hlen. reflexivity. }
  destruct (nth n fs ENoDir) as [| |ct]; try discriminate;
    (destruct cu as [g|]; [destruct (known g k) | destruct (find _ (w_ios W))]); simpl;
    try (destruct (wr_of W _ k)); simpl; repeat split; auto.
Qed.

Lemma info_long : forall W n t t' fs, long_file W fs n = true ->
  op_info pinned W n (mk None t, fs) = op_info pinned W n (mk None t', fs)
  /\ clean (fst (fst (op_info pinned W n (mk None t, fs)))).
Proof.
  intros W n t t' fs H. unfold long_file in H. unfold op_info; simpl.
  destruct (nth n fs ENoDir) as [| |ct]; try discriminate.
  apply Nat.eqb_eq in H. rewrite !(read_tag_long pinned _ _ H).
  destruct (find _ (w_ios W)); simpl; repeat split; reflexivity.
Qed.

Local Arguments op_read : simpl never.
Local Arguments op_write : simpl never.
Local Arguments op_info : simpl never.

Definition agree (A B : state * (Z * list fmt)) : Prop :=
  snd A = snd B /\ snd (fst A) = snd (fst B) /\ clean (fst (fst A)) /\ clean (fst (fst B)).

Ltac fin := unfold agree; simpl; repeat match goal with |- _ /\ _ => split end; try reflexivity; try assumption; try (split; reflexivity).

Lemma clean_mk : forall p, clean p -> p = mk None (tag p).
Proof. intros [c b t] [H1 H2]; simpl in *; subst; reflexivity. Qed.

(* try { manip ; read } catch { read } on a long file *)
Lemma retry_read : forall W k n (m : fmt + Z) t t' fs, long_file W fs n = true ->
  let manip := fun s : state => match m with inl g => ((set_current (fst s) (Some g) false, snd s), None) | inr e => (s, Some e) end in
  agree (with_retry manip (op_read pinned W k n) (mk None t, fs)) (with_retry manip (op_read pinned W k n) (mk None t', fs)).
Proof.
  intros W k n m t t' fs H manip. unfold with_retry, manip. destruct m as [g|e]; simpl.
  - change (set_current (mk None t) (Some g) false) with (mk (Some g) t).
    change (set_current (mk None t') (Some g) false) with (mk (Some g) t').
    destruct (rd_long W k n (Some g) t t' fs H) as (E & C & F). rewrite <- E.
    destruct (op_read pinned W k n (mk (Some g) t, fs)) as [[p1 f1] r1] eqn:E1. simpl in *. subst f1.
    destruct (is_maths (fst r1)); [|fin].
    rewrite (clean_mk _ C).
    destruct (rd_long W k n None (tag p1) (tag p1) fs H) as (_ & C2 & _).
    destruct (op_read pinned W k n (mk None (tag p1), fs)) as [[p2 f2] r2]. simpl in *. fin.
  - destruct (is_maths e); [|fin].
    destruct (rd_long W k n None t t' fs H) as (E & C & F). rewrite <- E.
    destruct (op_read pinned W k n (mk None t, fs)) as [[p1 f1] r1]. simpl in *. fin.
Qed.

Lemma retry_write : forall W k n (m : fmt + Z) t t' fs, writable fs n = true ->
  let manip := fun s : state => match m with inl g => ((set_current (fst s) (Some g) false, snd s), None) | inr e => (s, Some e) end in
  agree (with_retry manip (op_write pinned W k n) (mk None t, fs)) (with_retry manip (op_write pinned W k n) (mk None t', fs)).
Proof.
  intros W k n m t t' fs H manip. unfold with_retry, manip. destruct m as [g|e]; simpl.
  - change (set_current (mk None t) (Some g) false) with (mk (Some g) t).
    change (set_current (mk None t') (Some g) false) with (mk (Some g) t').
    destruct (wr_ok W k n (Some g) t t' fs H) as (R & F & PA & PB & Wr).
    destruct (op_write pinned W k n (mk (Some g) t, fs)) as [[p1 f1] r1].
    destruct (op_write pinned W k n (mk (Some g) t', fs)) as [[p1' f1'] r1']. simpl in *. subst r1' f1' p1 p1'.
    destruct (is_maths (fst r1)); [|fin].
    destruct (wr_ok W k n None t t' f1 Wr) as (R2 & F2 & PA2 & PB2 & _).
    destruct (op_write pinned W k n (mk None t, f1)) as [[p2 f2] r2].
    destruct (op_write pinned W k n (mk None t', f1)) as [[p2' f2'] r2']. simpl in *. subst. fin.
  - destruct (is_maths e); [|fin].
    destruct (wr_ok W k n None t t' fs H) as (R & F & PA & PB & _).
    destruct (op_write pinned W k n (mk None t, fs)) as [[p1 f1] r1].
    destruct (op_write pinned W k n (mk None t', fs)) as [[p1' f1'] r1']. simpl in *. subst. fin.
Qed.

Lemma noretry_read : forall W k n (m : option (option fmt)) t t' fs, long_file W fs n = true ->
  let manip := fun s : state => match m with Some g => ((set_current (fst s) g false, snd s), None) | None => (s, Some E_UNKN_FILE_FMT) end in
  agree (no_retry manip (op_read pinned W k n) (mk None t, fs)) (no_retry manip (op_read pinned W k n) (mk None t', fs)).
Proof.
  intros W k n m t t' fs H manip. unfold no_retry, manip. destruct m as [g|]; simpl; [|fin].
  change (set_current (mk None t) g false) with (mk g t). change (set_current (mk None t') g false) with (mk g t').
  destruct (rd_long W k n g t t' fs H) as (E & C & F). rewrite <- E.
  destruct (op_read pinned W k n (mk g t, fs)) as [[p1 f1] r1]. simpl in *. fin.
Qed.

Lemma noretry_write : forall W k n (m : option fmt + Z) t t' fs, writable fs n = true ->
  let manip := fun s : state => match m with inl g => ((set_current (fst s) g false, snd s), None) | inr e => (s, Some e) end in
  agree (no_retry manip (op_write pinned W k n) (mk None t, fs)) (no_retry manip (op_write pinned W k n) (mk None t', fs)).
Proof.
  intros W k n m t t' fs H manip. unfold no_retry, manip. destruct m as [g|e]; simpl; [|fin].
  change (set_current (mk None t) g false) with (mk g t). change (set_current (mk None t') g false) with (mk g t').
  destruct (wr_ok W k n g t t' fs H) as (R & F & PA & PB & _).
  destruct (op_write pinned W k n (mk g t, fs)) as [[p1 f1] r1].
  destruct (op_write pinned W k n (mk g t', fs)) as [[p1' f1'] r1']. simpl in *. subst. fin.
Qed.

Lemma step_pinned_good : forall W o t t' fs, good W fs o = true ->
  agree (step pinned W o (mk None t, fs)) (step pinned W o (mk None t', fs)).
Proof.
  intros W [k n|k n|id k n|id k n|k n|n] t t' fs H; simpl in H; simpl step.
  - unfold set_from_suffix. generalize (retry_read W k n (format_from_suffix W (sfx_of W n)) t t' fs H). simpl.
    destruct (format_from_suffix W (sfx_of W n)); auto.
  - unfold set_from_suffix. generalize (retry_write W k n (format_from_suffix W (sfx_of W n)) t t' fs H). simpl.
    destruct (format_from_suffix W (sfx_of W n)); auto.
  - unfold set_from_name. generalize (noretry_read W k n (format_named W id) t t' fs H). simpl.
    destruct (format_named W id); auto.
  - unfold set_from_name. generalize (noretry_write W k n (match format_named W id with Some g => inl g | None => inr E_UNKN_FILE_FMT end) t t' fs H). simpl.
    destruct (format_named W id); auto.
  - unfold set_from_suffix. generalize (noretry_write W k n (match format_from_suffix W (sfx_of W n) with inl g => inl (Some g) | inr e => inr e end) t t' fs H). simpl.
    destruct (format_from_suffix W (sfx_of W n)); auto.
  - destruct (info_long W n t t' fs H) as (E & C). rewrite <- E. fin.
Qed.

(* histories all of whose operations are good at the time they run *)
Fixpoint all_good (W : world) (h : list op) (s : state) : bool :=
  match h with [] => true | o :: h' => good W (snd s) o && all_good W h' (fst (step pinned W o s)) end.

Lemma run_pinned_good_clean : forall W h s, clean (fst s) -> all_good W h s = true -> clean (fst (run pinned W h s)).
Proof.
  induction h as [|o h IH]; intros [p fs] Hc Hg; simpl in *; auto.
  apply andb_prop in Hg. destruct Hg as [Ho Hh].
  apply IH; auto.
  rewrite (clean_mk _ Hc). destruct (step_pinned_good W o (tag p) (tag p) fs Ho) as (_ & _ & C & _). exact C.
Qed.

Lemma io_pinned_partial_lemma : forall W h o fs0,
  all_good W h (pst0, fs0) = true -> good W (snd (run pinned W h (pst0, fs0))) o = true ->
  snd (inproc_after pinned W h o fs0) = snd (fresh_after pinned W h o fs0)
  /\ snd (fst (inproc_after pinned W h o fs0)) = snd (fst (fresh_after pinned W h o fs0)).
Proof.
  intros W h o fs0 Hh Ho. unfold inproc_after, fresh_after.
  pose proof (run_pinned_good_clean W h (pst0, fs0) (conj eq_refl eq_refl) Hh) as Hc.
  destruct (run pinned W h (pst0, fs0)) as [p fs] eqn:E. simpl in *.
  rewrite (clean_mk _ Hc).
  destruct (step_pinned_good W o (tag p) (tag pst0) fs Ho) as (R & F & _ & _). split; assumption.
Qed.
