(* Lemmas about the text codec model: round trip, ambiguous shapes, no misreading (C07). *)
From OM Require Import Base.Lists Maths.BinCodec Maths.BinCodecProofs Maths.AsciiCodec.
Require Import ZifyBool.
Local Open Scope Z_scope.

(* ---- list plumbing ---- *)
Lemma firstn_opt_all {A} (l : list A) : firstn_opt (length l) l = Some l.
Proof. induction l as [|x t IH]; [reflexivity|]. cbn [length firstn_opt]. rewrite IH. reflexivity. Qed.

Lemma seq_shift_add a n : seq a n = map (fun i => (i + a)%nat) (seq 0 n).
Proof.
  revert a. induction n as [|n IH]; intros a; [reflexivity|].
  cbn [seq map]. f_equal. rewrite (IH (S a)), (IH 1%nat), map_map. apply map_ext. intros i. lia.
Qed.

Lemma map_nth_seq {A B} (f : A -> B) (vs : list A) d :
  map f vs = map (fun i => f (nth i vs d)) (seq 0 (length vs)).
Proof.
  induction vs as [|v t IH]; [reflexivity|]. cbn [length seq map nth]. f_equal.
  rewrite (seq_shift_add 1), map_map, IH. apply map_ext. intros i. replace (i + 1)%nat with (S i) by lia. reflexivity.
Qed.

Lemma map_flat_map {A B C} (g : B -> C) (h : A -> list B) l :
  map g (flat_map h l) = flat_map (fun x => map g (h x)) l.
Proof. induction l as [|x t IH]; [reflexivity|]. cbn [flat_map]. rewrite map_app, IH. reflexivity. Qed.

Lemma flat_map_ext_in' {A B} (f g : A -> list B) l : (forall a, In a l -> f a = g a) -> flat_map f l = flat_map g l.
Proof.
  induction l as [|x t IH]; intros H; [reflexivity|]. cbn [flat_map].
  rewrite (H x (or_introl eq_refl)), IH; [reflexivity|]. intros a Ha. apply H. right; exact Ha.
Qed.

Lemma nth_map_seq {B} (g : nat -> B) a n k d : (k < n)%nat -> nth k (map g (seq a n)) d = g (a + k)%nat.
Proof.
  intros H. rewrite (nth_indep _ d (g 0%nat)) by (rewrite map_length, seq_length; exact H).
  rewrite map_nth, seq_nth by exact H. reflexivity.
Qed.

Lemma seq_chunks nl nc : seq 0 (nl * nc) = flat_map (fun j => map (fun i => (i + nl * j)%nat) (seq 0 nl)) (seq 0 nc).
Proof.
  induction nc as [|nc IH]; [rewrite Nat.mul_0_r; reflexivity|].
  rewrite Nat.mul_succ_r, seq_app, (seq_S nc 0), flat_map_app, <- IH. cbn [flat_map Nat.add]. rewrite app_nil_r.
  f_equal. apply seq_shift_add.
Qed.

Definition tri (j : nat) : nat := (j * (j + 1) / 2)%nat.
Lemma tri_S j : tri (S j) = (tri j + S j)%nat.
Proof.
  unfold tri. replace (S j * (S j + 1))%nat with (j * (j + 1) + S j * 2)%nat by lia.
  rewrite Nat.div_add by lia. reflexivity.
Qed.
Lemma seq_tri n : seq 0 (tri n) = flat_map (fun j => map (fun i => (i + tri j)%nat) (seq 0 (S j))) (seq 0 n).
Proof.
  induction n as [|n IH]; [reflexivity|].
  rewrite tri_S, seq_app, (seq_S n 0), flat_map_app, <- IH. cbn [flat_map Nat.add]. rewrite app_nil_r.
  f_equal. apply seq_shift_add.
Qed.

Section Text.
  Variable rnd6 : Z -> Z.
  Variable dofz : Z -> Z.
  Notation vline := (view_line rnd6 dofz).
  Notation tval := (tok_val rnd6 dofz).

  Lemma read_rows_view rows : forall need i0,
    (forall k r, nth_error rows k = Some r -> length r = need (i0 + k)%nat) ->
    read_rows (map vline rows) (length rows) need i0 = Some (map (map tval) rows).
  Proof.
    induction rows as [|r t IH]; intros need i0 H; [reflexivity|].
    cbn [map length read_rows]. cbn [view_line l_vals].
    assert (E : need i0 = length (map tval r)).
    { rewrite map_length, (H 0%nat r eq_refl). f_equal. lia. }
    rewrite E, firstn_opt_all. rewrite IH; [reflexivity|].
    intros k r' Hk. rewrite (H (S k) r' Hk). f_equal. lia.
  Qed.

  Lemma count_nonempty_view rows : Forall (fun r => r <> []) rows -> count_nonempty (map vline rows) = Z.of_nat (length rows).
  Proof.
    unfold count_nonempty. induction 1 as [|r t Hr Ht IH]; [reflexivity|].
    cbn [map filter]. cbn [view_line l_empty]. destruct r; [congruence|]. cbn [is_nil negb length] in *. lia.
  Qed.

  (* what set_type / info see of a file of at least two lines written by the library *)
  Lemma set_type_two r0 r1 ls len :
    set_type (vline r0 :: vline r1 :: ls) len =
    let len1 := Z.of_nat (length r1) in
    if len1 =? len then Ok (TFull (if len =? 1 then 1 else 2))
    else if len1 =? (len - 1) mod W32 then Ok TSym
    else if (len =? 2) && (len1 =? 3) then Ok TSparse else Err EUnexpected.
  Proof. unfold set_type, eof_after, len_of. cbn. rewrite map_length. reflexivity. Qed.

  Lemma tinfo_two r0 r1 t : Forall (fun r => r <> []) (r0 :: r1 :: t) ->
    tinfo_of (map vline (r0 :: r1 :: t)) =
    let len := Z.of_nat (length r0) in let len1 := Z.of_nat (length r1) in
    let n := Z.of_nat (length (r0 :: r1 :: t)) in
    if len1 =? len then Ok {| t_kind := TFull (if len =? 1 then 1 else 2); t_nl := n; t_nc := len |}
    else if len1 =? (len - 1) mod W32 then (if n =? len then Ok {| t_kind := TSym; t_nl := n; t_nc := len |} else Err ESymm)
    else if (len =? 2) && (len1 =? 3) then
      let '(nl, nc) := sparse_dims (vline r0) len in Ok {| t_kind := TSparse; t_nl := nl; t_nc := nc |}
    else Err EUnexpected.
  Proof.
    intros NE. unfold tinfo_of. cbn [map nth]. rewrite set_type_two. unfold len_of. cbn [view_line l_vals]. rewrite map_length.
    change (vline r0 :: vline r1 :: map vline t) with (map vline (r0 :: r1 :: t)).
    rewrite (count_nonempty_view _ NE). cbv zeta.
    destruct (Z.of_nat (length r1) =? Z.of_nat (length r0)); [reflexivity|].
    destruct (Z.of_nat (length r1) =? (Z.of_nat (length r0) - 1) mod W32); [reflexivity|].
    destruct ((Z.of_nat (length r0) =? 2) && (Z.of_nat (length r1) =? 3)); reflexivity.
  Qed.

  Lemma tinfo_short ls : (length ls <= 1)%nat -> Forall (fun r => r <> []) ls ->
    tinfo_of (map vline ls) =
    Ok {| t_kind := TFull 2; t_nl := Z.of_nat (length ls); t_nc := Z.of_nat (length (nth 0 ls [])) |}.
  Proof.
    intros H NE. destruct ls as [|r0 [|r1 t]]; cbn [length] in H; try lia.
    - reflexivity.
    - unfold tinfo_of. cbn [map nth]. change (set_type [vline r0] (len_of (vline r0))) with (Ok (A:=tkind) (TFull 2)).
      change [vline r0] with (map vline [r0]). rewrite (count_nonempty_view _ NE).
      unfold len_of. cbn [view_line l_vals]. rewrite map_length. reflexivity.
  Qed.

  (* ---- Vector ---- *)
  Lemma vec_rows_nonempty vs : Forall (fun r : list tok => r <> []) (map (fun v => [TV v]) vs).
  Proof. apply Forall_forall. intros r Hr. apply in_map_iff in Hr. destruct Hr as [x [<- _]]. discriminate. Qed.

  Lemma txt_vec_roundtrip vs : (2 <= length vs)%nat ->
    txt_decode KVec (view rnd6 dofz (txt_encode (OVec vs))) = Ok (OVec (map rnd6 vs)).
  Proof.
    intros H. unfold view. cbn [txt_encode snd].
    set (rows := map (fun v => [TV v]) vs).
    assert (Hlen : length rows = length vs) by (unfold rows; apply map_length).
    assert (NE : Forall (fun r : list tok => r <> []) rows) by apply vec_rows_nonempty.
    assert (Hr : exists r0 r1 t, rows = r0 :: r1 :: t /\ length r0 = 1%nat /\ length r1 = 1%nat).
    { unfold rows. destruct vs as [|v0 [|v1 t]]; cbn [length] in H; try lia. cbn [map]. eauto 8. }
    destruct Hr as (r0 & r1 & t & E & L0 & L1).
    unfold txt_decode. rewrite E at 1. rewrite tinfo_two by (rewrite <- E; exact NE).
    rewrite L0, L1. cbn [Z.of_nat Pos.of_succ_nat Z.eqb Pos.eqb]. cbv zeta.
    cbn [t_kind t_nl t_nc kind_storage storage_eqb negb kind_dim Z.eqb Pos.eqb].
    rewrite <- E, Nat2Z.id. rewrite read_rows_view.
    - unfold rows. rewrite !map_map. cbn [map tok_val nth]. reflexivity.
    - intros k r Hk. unfold rows in Hk. rewrite nth_error_map in Hk.
      destruct (nth_error vs k); inversion Hk; subst. reflexivity.
  Qed.

  Lemma txt_vec_rejected vs : (length vs <= 1)%nat ->
    txt_decode KVec (view rnd6 dofz (txt_encode (OVec vs))) = Err EVector.
  Proof.
    intros H. unfold view. cbn [txt_encode snd]. unfold txt_decode.
    rewrite tinfo_short by (rewrite ?map_length; auto using vec_rows_nonempty). reflexivity.
  Qed.

  (* ---- Matrix ---- *)
  Lemma col_major_rows a b vs : length vs = (a * b)%nat ->
    col_major (map (map tval) (map (nth_row_full a b vs) (seq 0 a))) b = map rnd6 vs.
  Proof.
    intros Hl. unfold col_major. rewrite (map_nth_seq rnd6 vs 0), Hl, seq_chunks, map_flat_map.
    apply flat_map_ext_in'. intros j Hj. apply in_seq in Hj.
    rewrite !map_map. apply map_ext_in. intros i Hi.
    unfold nth_row_full. rewrite map_map. rewrite nth_map_seq by lia. reflexivity.
  Qed.

  Lemma full_rows_nonempty a b vs : (1 <= b)%nat -> Forall (fun r : list tok => r <> []) (map (nth_row_full a b vs) (seq 0 a)).
  Proof.
    intros Hb. apply Forall_forall. intros r Hr. apply in_map_iff in Hr. destruct Hr as [i [<- _]].
    unfold nth_row_full. destruct b; [lia|]. cbn [seq map]. discriminate.
  Qed.
  Lemma full_row_length a b vs i : length (nth_row_full a b vs i) = b.
  Proof. unfold nth_row_full. rewrite map_length, seq_length. reflexivity. Qed.

  Lemma txt_full_decode nl nc vs : 1 <= nl -> 1 <= nc -> length vs = (Z.to_nat nl * Z.to_nat nc)%nat ->
    txt_decode KFull (view rnd6 dofz (txt_encode (OFull nl nc vs))) =
    if (nc =? 1) && (2 <=? nl) then Err EVector else Ok (OFull nl nc (map rnd6 vs)).
  Proof.
    intros Hnl Hnc Hl. unfold view. cbn [txt_encode snd].
    replace (nc =? 0) with false by lia.
    set (a := Z.to_nat nl) in *. set (b := Z.to_nat nc) in *.
    set (rows := map (nth_row_full a b vs) (seq 0 a)).
    assert (NE : Forall (fun r : list tok => r <> []) rows) by (apply full_rows_nonempty; lia).
    assert (Hrl : length rows = a) by (unfold rows; rewrite map_length, seq_length; reflexivity).
    assert (Hrow : forall k r, nth_error rows k = Some r -> length r = b).
    { intros k r Hk. unfold rows in Hk. rewrite nth_error_map in Hk.
      destruct (nth_error (seq 0 a) k); inversion Hk; subst. apply full_row_length. }
    unfold txt_decode.
    destruct (Nat.le_gt_cases a 1) as [Ha|Ha].
    - (* a single row *)
      assert (a = 1%nat) by lia. replace ((nc =? 1) && (2 <=? nl)) with false by lia.
      rewrite tinfo_short by (try assumption; lia).
      cbn [t_kind t_nl t_nc kind_storage storage_eqb negb kind_dim Z.eqb Pos.eqb].
      assert (L0 : length (nth 0 rows []) = b).
      { destruct rows as [|r0 t] eqn:E; [cbn in Hrl; lia|]. apply (Hrow 0%nat r0). reflexivity. }
      rewrite L0, Hrl, !Nat2Z.id. rewrite <- Hrl at 1. rewrite read_rows_view by (intros k r Hk; exact (Hrow k r Hk)).
      unfold rows. rewrite col_major_rows by assumption. unfold a, b. rewrite !Z2Nat.id by lia. reflexivity.
    - assert (Hr : exists r0 r1 t, rows = r0 :: r1 :: t).
      { destruct rows as [|r0 [|r1 t]]; cbn [length] in Hrl; try lia. eauto. }
      destruct Hr as (r0 & r1 & t & E).
      assert (L0 : length r0 = b) by (apply (Hrow 0%nat); rewrite E; reflexivity).
      assert (L1 : length r1 = b) by (apply (Hrow 1%nat); rewrite E; reflexivity).
      rewrite E at 1. rewrite tinfo_two by (rewrite <- E; exact NE). rewrite L0, L1. cbv zeta. rewrite Z.eqb_refl.
      rewrite <- E, Hrl.
      replace (2 <=? nl) with true by lia. rewrite andb_true_r.
      assert (Zb : Z.of_nat b = nc) by (unfold b; apply Z2Nat.id; lia). rewrite !Zb.
      destruct (nc =? 1) eqn:E1; cbn [t_kind t_nl t_nc kind_storage storage_eqb negb kind_dim Z.eqb Pos.eqb]; [reflexivity|].
      rewrite !Nat2Z.id. rewrite <- Hrl at 1. rewrite read_rows_view by (intros k r Hk; exact (Hrow k r Hk)).
      unfold rows. rewrite col_major_rows by assumption. unfold a, b. rewrite !Z2Nat.id by lia. reflexivity.
  Qed.

  (* ---- SymMatrix ---- *)
  Lemma sym_packed_rows a vs : length vs = tri a ->
    sym_packed (map (map tval) (map (nth_row_sym a vs) (seq 0 a))) a = map rnd6 vs.
  Proof.
    intros Hl. unfold sym_packed. rewrite (map_nth_seq rnd6 vs 0), Hl, seq_tri, map_flat_map.
    apply flat_map_ext_in'. intros j Hj. apply in_seq in Hj.
    rewrite !map_map. apply map_ext_in. intros i Hi. apply in_seq in Hi.
    rewrite (nth_map_seq (fun x => map tval (nth_row_sym a vs x))) by lia.
    unfold nth_row_sym. rewrite map_map. rewrite nth_map_seq by lia.
    cbn [Nat.add tok_val]. replace (i + (j - i))%nat with j by lia. unfold tri. reflexivity.
  Qed.

  Lemma sym_row_length a vs i : length (nth_row_sym a vs i) = (a - i)%nat.
  Proof. unfold nth_row_sym. rewrite map_length, seq_length. reflexivity. Qed.

  Lemma txt_sym_roundtrip n vs : 2 <= n < W32 -> length vs = tri (Z.to_nat n) ->
    txt_decode KSym (view rnd6 dofz (txt_encode (OSym n vs))) = Ok (OSym n (map rnd6 vs)).
  Proof.
    intros Hn Hl. unfold view. cbn [txt_encode snd]. set (a := Z.to_nat n) in *.
    set (rows := map (nth_row_sym a vs) (seq 0 a)).
    assert (Hrl : length rows = a) by (unfold rows; rewrite map_length, seq_length; reflexivity).
    assert (Hrow : forall k r, nth_error rows k = Some r -> length r = (a - (0 + k))%nat).
    { intros k r Hk. unfold rows in Hk. rewrite nth_error_map in Hk.
      destruct (nth_error (seq 0 a) k) as [i|] eqn:Ek; inversion Hk; subst.
      assert (k < a)%nat by (rewrite <- (seq_length a 0); apply nth_error_Some; congruence).
      apply (nth_error_nth _ _ 0%nat) in Ek. rewrite seq_nth in Ek by lia. subst i. apply sym_row_length. }
    assert (NE : Forall (fun r : list tok => r <> []) rows).
    { apply Forall_forall. intros r Hr. apply In_nth_error in Hr. destruct Hr as [k Hk].
      assert (k < a)%nat by (rewrite <- Hrl; apply nth_error_Some; congruence).
      apply Hrow in Hk. destruct r; [cbn in Hk; lia|discriminate]. }
    assert (Hr : exists r0 r1 t, rows = r0 :: r1 :: t).
    { destruct rows as [|r0 [|r1 t]]; cbn [length] in Hrl; try lia; eauto. }
    destruct Hr as (r0 & r1 & t & E).
    assert (L0 : length r0 = a) by (rewrite (Hrow 0%nat r0) by (rewrite E; reflexivity); lia).
    assert (L1 : length r1 = (a - 1)%nat) by (rewrite (Hrow 1%nat r1) by (rewrite E; reflexivity); lia).
    unfold txt_decode. rewrite E at 1. rewrite tinfo_two by (rewrite <- E; exact NE). rewrite L0, L1. cbv zeta.
    rewrite <- E, Hrl.
    assert (Za : Z.of_nat a = n) by (unfold a; apply Z2Nat.id; lia).
    replace (Z.of_nat (a - 1)) with (n - 1) by lia. rewrite Za.
    replace (n - 1 =? n) with false by lia.
    rewrite (Z.mod_small (n - 1)) by lia. rewrite !Z.eqb_refl.
    cbn [t_kind t_nl t_nc kind_storage storage_eqb negb kind_dim Z.eqb Pos.eqb].
    fold a. rewrite <- Hrl at 1. rewrite read_rows_view by exact Hrow.
    unfold rows. rewrite sym_packed_rows by assumption. reflexivity.
  Qed.

  Lemma txt_sym_rejected n vs : 0 <= n <= 1 -> length vs = tri (Z.to_nat n) ->
    txt_decode KSym (view rnd6 dofz (txt_encode (OSym n vs))) = Err EStorage.
  Proof.
    intros Hn Hl. unfold view. cbn [txt_encode snd]. unfold txt_decode.
    assert (C : n = 0 \/ n = 1) by lia. destruct C; subst n.
    - reflexivity.
    - change (Z.to_nat 1) with 1%nat. cbn [seq].
      rewrite tinfo_short; [reflexivity|rewrite map_length; cbn [length]; lia|]. constructor; [|constructor]. unfold nth_row_sym. cbn. discriminate.
  Qed.

  (* ---- SparseMatrix ---- *)
  Definition entry_row (e : Z * Z * Z) : list tok := [TI (fst (fst e)); TI (snd (fst e)); TV (snd e)].
  Definition round_entry (e : Z * Z * Z) : Z * Z * Z := (fst e, rnd6 (snd e)).

  Lemma read_sparse_view nl nc es : forall acc,
    sorted_keys es ->
    Forall (fun e => 0 <= fst (fst e) < nl /\ 0 <= snd (fst e) < nc) es ->
    Forall (fun a => Forall (fun e => key_ltb (fst a) (fst e) = true) es) acc ->
    read_sparse_lines (map vline (map entry_row es)) nl nc acc = Ok (acc ++ map round_entry es).
  Proof.
    induction es as [|[[i j] v] t IH]; intros acc Hs Hb Hacc.
    - rewrite app_nil_r. reflexivity.
    - cbn [map read_sparse_lines]. cbn [entry_row view_line l_empty is_nil l_i l_j l_v fst snd tok_int tok_val].
      inversion Hb as [|? ? [Hi Hj] Hb']; subst. cbn [fst snd] in *.
      replace ((i <? nl) && (j <? nc)) with true by lia.
      rewrite map_set_append.
      2:{ eapply Forall_impl; [|exact Hacc]. intros a Ha. inversion Ha; subst. assumption. }
      rewrite IH.
      + rewrite <- app_assoc. reflexivity.
      + eapply sorted_tail; eauto.
      + assumption.
      + apply Forall_app. split.
        * eapply Forall_impl; [|exact Hacc]. intros a Ha. inversion Ha; subst. assumption.
        * constructor; [|constructor]. apply (sorted_head_lt _ _ Hs).
  Qed.

  Lemma txt_sparse_roundtrip nl nc es : es <> [] -> sorted_keys es ->
    Forall (fun e => 0 <= fst (fst e) < nl /\ 0 <= snd (fst e) < nc) es ->
    txt_decode KSparse (view rnd6 dofz (txt_encode (OSparse nl nc es))) = Ok (OSparse nl nc (map round_entry es)).
  Proof.
    intros NEs Hs Hb. unfold view. cbn [txt_encode snd].
    destruct es as [|e0 t]; [congruence|].
    change (map (fun e => [TI (fst (fst e)); TI (snd (fst e)); TV (snd e)]) (e0 :: t)) with (entry_row e0 :: map entry_row t).
    unfold txt_decode. rewrite tinfo_two.
    2:{ constructor; [discriminate|]. constructor; [discriminate|]. apply Forall_forall. intros r Hr.
        apply in_map_iff in Hr. destruct Hr as [x [<- _]]. discriminate. }
    cbn [length entry_row Z.of_nat Pos.of_succ_nat Pos.succ]. rewrite W32_val. cbn [Z.eqb Pos.eqb Z.sub Z.add Z.opp Z.pos_sub Pos.pred_double Z.modulo Z.div_eucl Z.pos_div_eucl Z.leb Z.compare Pos.compare Pos.compare_cont Z.ltb andb].
    cbv zeta. unfold sparse_dims. cbn [view_line l_hnl l_hnc tok_int].
    cbn [t_kind t_nl t_nc kind_storage storage_eqb negb kind_dim Z.eqb Pos.eqb map nth tl].
    cbn [view_line l_hnl l_hnc tok_int].
    change (vline (entry_row e0) :: map vline (map entry_row t)) with (map vline (map entry_row (e0 :: t))).
    rewrite read_sparse_view; try assumption; [reflexivity|constructor].
  Qed.

  Lemma txt_sparse_rejected nl nc : txt_decode KSparse (view rnd6 dofz (txt_encode (OSparse nl nc []))) = Err EStorage.
  Proof. reflexivity. Qed.
End Text.

(* ---- the text theorems ---- *)
Definition wf_txt (o : obj) : Prop :=
  match o with
  | OVec _ => True
  | OFull nl nc vs => 0 <= nl /\ 0 <= nc /\ length vs = (Z.to_nat nl * Z.to_nat nc)%nat
  | OSym n vs => 0 <= n < W32 /\ length vs = tri (Z.to_nat n)
  | OSparse nl nc es => sorted_keys es /\ Forall (fun e => 0 <= fst (fst e) < nl /\ 0 <= snd (fst e) < nc) es
  end.

(* shapes whose file the reader refuses: single-row vector / symmetric matrix (and the empty ones), one-column full
   matrix of at least two rows, sparse matrix without entry *)
Definition txt_rejected_shape (o : obj) : Prop :=
  match o with
  | OVec vs => (length vs <= 1)%nat
  | OFull nl nc _ => nc = 1 /\ 2 <= nl
  | OSym n _ => n <= 1
  | OSparse _ _ es => es = []
  end.
(* full matrices with a zero dimension are written as an empty file *)
Definition txt_empty_full (o : obj) : Prop :=
  match o with OFull nl nc _ => nl = 0 \/ nc = 0 | _ => False end.

Lemma txt_ambiguous_split o : txt_ambiguous o <-> txt_rejected_shape o \/ txt_empty_full o.
Proof. destruct o; cbn; tauto. Qed.

Section TextTheorems.
  Variable rnd6 : Z -> Z.
  Variable dofz : Z -> Z.
  Hypothesis rnd6_idem : forall w, rnd6 (rnd6 w) = rnd6 w.

  Lemma round_obj_sparse es : map (fun e : Z * Z * Z => (fst e, rnd6 (snd e))) es = map (round_entry rnd6) es.
  Proof. reflexivity. Qed.

  Theorem txt_roundtrip o : wf_txt o -> ~ txt_rejected_shape o -> ~ txt_empty_full o ->
    txt_decode (kind_of o) (view rnd6 dofz (txt_encode o)) = Ok (round_obj rnd6 o).
  Proof.
    destruct o as [vs|nl nc vs|n vs|nl nc es]; cbn [wf_txt txt_rejected_shape txt_empty_full kind_of round_obj]; intros W NR NE.
    - apply txt_vec_roundtrip. lia.
    - destruct W as (H1 & H2 & H3). rewrite txt_full_decode by (try assumption; lia).
      replace ((nc =? 1) && (2 <=? nl)) with false by lia. reflexivity.
    - destruct W as [H1 H2]. apply txt_sym_roundtrip; [lia|assumption].
    - destruct W as [H1 H2]. apply txt_sparse_roundtrip; assumption.
  Qed.

  Theorem txt_ambiguous_rejected o : wf_txt o -> txt_rejected_shape o ->
    exists e, txt_decode (kind_of o) (view rnd6 dofz (txt_encode o)) = Err e.
  Proof.
    destruct o as [vs|nl nc vs|n vs|nl nc es]; cbn [wf_txt txt_rejected_shape kind_of]; intros W R.
    - exists EVector. apply txt_vec_rejected. assumption.
    - destruct W as (H1 & H2 & H3). exists EVector. rewrite txt_full_decode by (try assumption; lia).
      replace ((nc =? 1) && (2 <=? nl)) with true by lia. reflexivity.
    - destruct W as [H1 H2]. exists EStorage. apply txt_sym_rejected; [lia|assumption].
    - subst es. exists EStorage. apply txt_sparse_rejected.
  Qed.

  (* at codec level an empty file reads as the 0x0 matrix: a 0xn or nx0 matrix loses its other dimension *)
  Theorem txt_empty_full_decodes_0x0 nl nc vs : (nl = 0 \/ nc = 0) -> 0 <= nl -> 0 <= nc -> length vs = (Z.to_nat nl * Z.to_nat nc)%nat ->
    txt_decode KFull (view rnd6 dofz (txt_encode (OFull nl nc vs))) = Ok (OFull 0 0 []).
  Proof.
    intros E H1 H2 H3. unfold view. cbn [txt_encode snd].
    destruct (nc =? 0) eqn:Ec; [reflexivity|]. assert (nl = 0) by lia. subst nl. reflexivity.
  Qed.

  Theorem txt_never_misreads o o' : wf_txt o ->
    (match o with OFull nl nc _ => (nl = 0 \/ nc = 0) -> (nl = 0 /\ nc = 0) | _ => True end) ->
    txt_decode (kind_of o) (view rnd6 dofz (txt_encode o)) = Ok o' -> o' = round_obj rnd6 o.
  Proof.
    intros W Z0 D.
    assert (C : txt_rejected_shape o \/ ~ txt_rejected_shape o).
    { destruct o as [vs|nl nc vs|n vs|nl nc es]; cbn [txt_rejected_shape]; try lia. destruct es; [left; reflexivity|right; discriminate]. }
    destruct C as [R|NR].
    - destruct (txt_ambiguous_rejected o W R) as [e He]. rewrite He in D. discriminate.
    - assert (C2 : txt_empty_full o \/ ~ txt_empty_full o) by (destruct o; cbn [txt_empty_full]; try tauto; lia).
      destruct C2 as [E|NE].
      + destruct o as [vs|nl nc vs|n vs|nl nc es]; cbn [txt_empty_full] in E; try contradiction.
        destruct W as (H1 & H2 & H3). cbn [kind_of] in D. rewrite txt_empty_full_decodes_0x0 in D by assumption.
        destruct (Z0 E) as [-> ->]. cbn in H3. destruct vs; [|discriminate]. inversion D. reflexivity.
      + rewrite txt_roundtrip in D by assumption. congruence.
  Qed.

  Theorem txt_never_misreads_codec_refuted :
    exists o o', wf_txt o /\ txt_decode (kind_of o) (view rnd6 dofz (txt_encode o)) = Ok o' /\ o' <> round_obj rnd6 o.
  Proof. exists (OFull 0 1 []), (OFull 0 0 []). split; [cbn; lia|]. split; [reflexivity|discriminate]. Qed.

  (* a second trip through the text format changes nothing more *)
  Theorem round_obj_idem o : round_obj rnd6 (round_obj rnd6 o) = round_obj rnd6 o.
  Proof.
    destruct o as [vs|nl nc vs|n vs|nl nc es]; cbn [round_obj]; rewrite map_map; f_equal;
      apply map_ext; intros x; cbn [fst snd]; rewrite rnd6_idem; reflexivity.
  Qed.
End TextTheorems.
