(* C17 — a Vector / Matrix / SymMatrix / SparseMatrix object under repeated X::load (matrix.cpp, symmatrix.cpp,
   vector.cpp, sparse_matrix.h + the readers' handling of the target object).
   Dense kinds: every reader assigns the dimensions and allocates a new buffer: the object after a successful load is
   the file's content.  SparseMatrix: every reader (ascii read_sparse, binary read_sparse, matlab) assigns the
   dimensions and then stores entries with m(i,j) = value into the existing map:
     pinned   : the entries of the previous content survive (keys are merged, values overwritten)
     repaired : SparseMatrix::load clears the map first.
   A failing load reports only its exception (the readers throw before or after touching the object depending on
   the failure; the object is then unspecified and not observed). *)
From OM Require Import Base.Lists.
Local Open Scope Z_scope.

Record ldesc := {
  l_status : Z;                 (* 0 or the exception of loading this file as this kind into a fresh object *)
  l_nl : nat; l_nc : nat;
  l_entries : list (Z * Z);     (* sparse: (key = i*2^20+j, fingerprint of the value) in map order; dense: [(0, fingerprint of the data)] *)
}.
Record lst := { o_nl : nat; o_nc : nat; o_entries : list (Z * Z) }.
Definition lst0 : lst := {| o_nl := 0; o_nc := 0; o_entries := [] |}.

(* std::map insertion / overwrite, kept sorted by key *)
Fixpoint put (k v : Z) (l : list (Z * Z)) : list (Z * Z) :=
  match l with
  | [] => [(k, v)]
  | (k', v') :: t => if k =? k' then (k, v) :: t else if k <? k' then (k, v) :: l else (k', v') :: put k v t
  end.
Definition merge (old new : list (Z * Z)) : list (Z * Z) := fold_left (fun acc e => put (fst e) (snd e) acc) new old.

Definition l_load (fixed sparse : bool) (d : ldesc) (s : lst) : lst * list Z :=
  if negb (l_status d =? 0) then (s, [l_status d]) else
  let es := if sparse then merge (if fixed then [] else o_entries s) (l_entries d) else l_entries d in
  let s' := {| o_nl := l_nl d; o_nc := l_nc d; o_entries := es |} in
  (s', [0; Z.of_nat (l_nl d); Z.of_nat (l_nc d); Z.of_nat (length es)] ++ flat_map (fun e => [fst e; snd e]) es).

Definition dummy_ldesc : ldesc := {| l_status := 3; l_nl := 0; l_nc := 0; l_entries := [] |}.
Definition l_step (fixed sparse : bool) (W : list ldesc) (i : nat) (s : lst) : lst * list Z := l_load fixed sparse (nth i W dummy_ldesc) s.
Fixpoint l_run (fixed sparse : bool) (W : list ldesc) (h : list nat) (s : lst) : lst :=
  match h with [] => s | i :: h' => l_run fixed sparse W h' (fst (l_step fixed sparse W i s)) end.
Fixpoint l_trace (fixed sparse : bool) (W : list ldesc) (h : list nat) (s : lst) : list (list Z) :=
  match h with [] => [] | i :: h' => let '(s', r) := l_step fixed sparse W i s in r :: l_trace fixed sparse W h' s' end.
Definition l_last (fixed sparse : bool) (W : list ldesc) (h : list nat) (i : nat) : list Z :=
  snd (l_step fixed sparse W i (l_run fixed sparse W h lst0)).

(* ---- proofs ---- *)
Lemma l_step_indep : forall fixed sparse W i s, (fixed = true \/ sparse = false) ->
  snd (l_step fixed sparse W i s) = snd (l_step fixed sparse W i lst0).
Proof.
  intros fixed sparse W i s H. unfold l_step, l_load.
  destruct (negb (l_status (nth i W dummy_ldesc) =? 0)); simpl; auto.
  destruct H as [-> | ->]; [destruct sparse|]; reflexivity.
Qed.

Lemma linop_history_independent_lemma : forall sparse W h i, l_last true sparse W h i = l_last true sparse W [] i.
Proof. intros; unfold l_last. rewrite l_step_indep by auto. reflexivity. Qed.

Lemma dense_history_independent_lemma : forall fixed W h i, l_last fixed false W h i = l_last fixed false W [] i.
Proof. intros; unfold l_last. rewrite l_step_indep by auto. reflexivity. Qed.

Definition Lref : list ldesc :=
  [ {| l_status := 0; l_nl := 4; l_nc := 4; l_entries := [(3, 11); (1048577, 12)] |};
    {| l_status := 0; l_nl := 4; l_nc := 4; l_entries := [(1048577, 17); (2097154, 15)] |} ].
Lemma sparse_reload_pinned_refuted_lemma :
  l_last false true Lref [0%nat] 1%nat <> l_last false true Lref [] 1%nat
  /\ nth 3 (l_last false true Lref [0%nat] 1%nat) 0 = 3 /\ nth 3 (l_last false true Lref [] 1%nat) 0 = 2.
Proof. vm_compute. repeat split; congruence. Qed.
