(* Lemmas for C13: every method of DenseModel.v (BLAS reference semantics with the arguments the source passes,
   checked reads) equals its mathematical definition, for all shapes. *)
From OM Require Import Base.Lists Maths.Dense Maths.DenseModel.
Require Import ZifyBool ZifyNat.
Local Open Scope nat_scope.

(* ---------- checked evaluation ---------- *)
Lemma oseq_map_some {A} (l : list A) (f : A -> option Z) (g : A -> Z) :
  (forall a, In a l -> f a = Some (g a)) -> oseq (map f l) = Some (map g l).
Proof.
  induction l as [|a l IH]; simpl; intros H; auto.
  rewrite (H a) by auto. rewrite IH by auto. reflexivity.
Qed.

Lemma otab_some n f g : (forall k, k < n -> f k = Some (g k)) -> otab n f = Some (tab1 n g).
Proof. intros H. unfold otab, tab1. apply oseq_map_some. intros a Ha. apply in_seq in Ha. apply H; lia. Qed.

Lemma osum_some n f g : (forall k, k < n -> f k = Some (g k)) -> osum n f = Some (sumn n g).
Proof.
  induction n as [|n IH]; simpl; intros H; auto.
  rewrite IH by (intros; apply H; lia). rewrite H by lia. reflexivity.
Qed.

Lemma rd_some l k : k < length l -> rd l k = Some (nth k l 0%Z).
Proof. intros H. unfold rd. apply nth_error_nth'. exact H. Qed.

Lemma rd_none l k : length l <= k -> rd l k = None.
Proof. intros H. unfold rd. apply nth_error_None. exact H. Qed.

Lemma tab1_length n f : length (tab1 n f) = n.
Proof. unfold tab1. rewrite map_length, seq_length. reflexivity. Qed.

Lemma nth_tab1 n f k : k < n -> nth k (tab1 n f) 0%Z = f k.
Proof.
  intros H. unfold tab1. rewrite nth_indep with (d' := f 0) by (rewrite map_length, seq_length; lia).
  rewrite map_nth, seq_nth by lia. reflexivity.
Qed.

Lemma tab1_ext n f g : (forall k, k < n -> f k = g k) -> tab1 n f = tab1 n g.
Proof. intros H. unfold tab1. apply map_ext_in. intros a Ha. apply in_seq in Ha. apply H; lia. Qed.

Lemma tabulate_tab1 nl nc f : tabulate nl nc f = tab1 (nl * nc) (fun p => f (p mod nl) (p / nl)).
Proof. reflexivity. Qed.

Lemma tabulate_length nl nc f : length (tabulate nl nc f) = nl * nc.
Proof. rewrite tabulate_tab1. apply tab1_length. Qed.

Lemma cm_bound nl nc p : p < nl * nc -> p mod nl < nl /\ p / nl < nc.
Proof.
  intros H. assert (nl <> 0) by (intro; subst; simpl in H; lia). split.
  - apply Nat.mod_upper_bound; auto.
  - apply Nat.div_lt_upper_bound; auto.
Qed.

Lemma cm_index nl i j : i < nl -> (i + nl * j) mod nl = i /\ (i + nl * j) / nl = j.
Proof.
  intros H. assert (nl <> 0) by lia. split.
  - replace (i + nl * j) with (i + j * nl) by lia. rewrite Nat.mod_add by auto. apply Nat.mod_small; auto.
  - replace (i + nl * j) with (i + j * nl) by lia. rewrite Nat.div_add by auto. rewrite Nat.div_small by auto. lia.
Qed.

Lemma cm_lt nl nc i j : i < nl -> j < nc -> i + nl * j < nl * nc.
Proof. intros. nia. Qed.

Lemma nth_tabulate nl nc f i j : i < nl -> j < nc -> nth (i + nl * j) (tabulate nl nc f) 0%Z = f i j.
Proof.
  intros Hi Hj. rewrite tabulate_tab1, nth_tab1 by (apply cm_lt; auto).
  destruct (cm_index nl i j Hi) as [-> ->]. reflexivity.
Qed.

Lemma tabulate_ext nl nc f g : (forall i j, i < nl -> j < nc -> f i j = g i j) -> tabulate nl nc f = tabulate nl nc g.
Proof. intros H. rewrite !tabulate_tab1. apply tab1_ext. intros p Hp. destruct (cm_bound nl nc p Hp). apply H; auto. Qed.

Lemma otab2_some nl nc (F : nat -> nat -> option Z) G :
  (forall i j, i < nl -> j < nc -> F i j = Some (G i j)) ->
  otab (nl * nc) (fun p => F (p mod nl) (p / nl)) = Some (tabulate nl nc G).
Proof. intros H. rewrite tabulate_tab1. apply otab_some. intros p Hp. destruct (cm_bound nl nc p Hp). apply H; auto. Qed.

(* ---------- dense objects ---------- *)
Lemma dwf_mk nl nc f : dwf (mk nl nc f).
Proof. unfold dwf, mk; simpl. apply tabulate_length. Qed.

Lemma dget_mk nl nc f i j : i < nl -> j < nc -> dget (mk nl nc f) i j = f i j.
Proof. intros. unfold dget, didx, mk; simpl. apply nth_tabulate; auto. Qed.

Lemma mk_ext nl nc f g : (forall i j, i < nl -> j < nc -> f i j = g i j) -> mk nl nc f = mk nl nc g.
Proof. intros H. unfold mk. f_equal. apply tabulate_ext; auto. Qed.

Lemma rd_dget A i j : dwf A -> i < dnl A -> j < dnc A -> rd (dd A) (i + dnl A * j) = Some (dget A i j).
Proof. intros W Hi Hj. unfold dget, didx. apply rd_some. rewrite W. apply cm_lt; auto. Qed.

(* a well-formed dense matrix is the table of its entries *)
Lemma dense_eta A : dwf A -> A = mk (dnl A) (dnc A) (dget A).
Proof.
  intros W. destruct A as [nl nc l]; unfold dwf in W; simpl in *. unfold mk; simpl. f_equal.
  apply nth_ext with (d := 0%Z) (d' := 0%Z).
  - rewrite tabulate_length; auto.
  - intros p Hp. rewrite W in Hp. rewrite tabulate_tab1, nth_tab1 by auto.
    unfold dget, didx; simpl. destruct (cm_bound nl nc p Hp).
    f_equal. assert (nl <> 0) by lia. rewrite (Nat.div_mod p nl) at 1 by auto. lia.
Qed.

(* ---------- the level-3 and level-2 routines ---------- *)
Lemma extent_ok m n : ((0 <? m) && (0 <? n) && (m * n <=? (m - 1) + m * (n - 1))) = false.
Proof.
  destruct m as [|m]; [reflexivity|]. destruct n as [|n]; [reflexivity|].
  simpl Nat.ltb. cbn [andb]. apply Nat.leb_gt. replace (S m - 1) with m by lia. replace (S n - 1) with n by lia. nia.
Qed.

Lemma gemm_spec (ta tb : bool) m n k a lda b ldb GA GB :
  (if ta then k else m) <= lda -> (if tb then n else k) <= ldb ->
  (forall i l, i < m -> l < k -> rd a (if ta then l + lda * i else i + lda * l) = Some (GA i l)) ->
  (forall l j, l < k -> j < n -> rd b (if tb then j + ldb * l else l + ldb * j) = Some (GB l j)) ->
  gemm ta tb m n k a lda b ldb m (m * n) = Some (tabulate m n (fun i j => sumn k (fun l => (GA i l * GB l j)%Z))).
Proof.
  intros La Lb HA HB. unfold gemm.
  replace (m <? m) with false by (symmetry; apply Nat.ltb_irrefl).
  replace (lda <? (if ta then k else m)) with false by (symmetry; apply Nat.ltb_ge; auto).
  replace (ldb <? (if tb then n else k)) with false by (symmetry; apply Nat.ltb_ge; auto).
  cbn [orb]. rewrite extent_ok.
  rewrite tabulate_tab1. apply otab_some. intros p Hp. destruct (cm_bound m n p Hp) as [Hi Hj]. cbv zeta.
  replace (p mod m <? m) with true by (symmetry; apply Nat.ltb_lt; auto).
  replace (p / m <? n) with true by (symmetry; apply Nat.ltb_lt; auto). cbn [andb].
  apply osum_some. intros l Hl. rewrite HA, HB by auto. reflexivity.
Qed.

Lemma rd_dget_t A i j : dwf A -> i < dnl A -> j < dnc A -> rd (dd A) (i + dnl A * j) = Some (dget A i j).
Proof. apply rd_dget. Qed.

Definition prod_def (m n k : nat) (fa fb : nat -> nat -> Z) : dense :=
  mk m n (fun i j => sumn k (fun l => (fa i l * fb l j)%Z)).

Lemma m_mult_spec A B : dwf A -> dwf B ->
  m_mult A B = if dnc A =? dnl B then Ok (prod_def (dnl A) (dnc B) (dnc A) (dget A) (dget B)) else Throw.
Proof.
  intros WA WB. unfold m_mult. destruct (Nat.eqb_spec (dnc A) (dnl B)) as [E|E]; [|reflexivity].
  rewrite (gemm_spec false false _ _ _ _ _ _ _ (dget A) (dget B)); simpl; auto; try lia.
  - intros. apply rd_dget; auto.
  - intros. rewrite E. apply rd_dget; auto; lia.
Qed.

Lemma m_tmult_spec A B : dwf A -> dwf B ->
  m_tmult A B = if dnl A =? dnl B then Ok (prod_def (dnc A) (dnc B) (dnl A) (fun i l => dget A l i) (dget B)) else Throw.
Proof.
  intros WA WB. unfold m_tmult. destruct (Nat.eqb_spec (dnl A) (dnl B)) as [E|E]; [|reflexivity].
  rewrite (gemm_spec true false _ _ _ _ _ _ _ (fun i l => dget A l i) (dget B)); simpl; auto; try lia.
  - intros. apply rd_dget; auto.
  - intros. rewrite E. apply rd_dget; auto; lia.
Qed.

Lemma m_multt_spec A B : dwf A -> dwf B ->
  m_multt A B = if dnc A =? dnc B then Ok (prod_def (dnl A) (dnl B) (dnc A) (dget A) (fun l j => dget B j l)) else Throw.
Proof.
  intros WA WB. unfold m_multt. destruct (Nat.eqb_spec (dnc A) (dnc B)) as [E|E]; [|reflexivity].
  rewrite (gemm_spec false true _ _ _ _ _ _ _ (dget A) (fun l j => dget B j l)); simpl; auto; try lia.
  - intros. apply rd_dget; auto.
  - intros. apply rd_dget; auto; lia.
Qed.

Lemma m_tmultt_spec A B : dwf A -> dwf B ->
  m_tmultt A B = if dnl A =? dnc B then Ok (prod_def (dnc A) (dnl B) (dnl A) (fun i l => dget A l i) (fun l j => dget B j l)) else Throw.
Proof.
  intros WA WB. unfold m_tmultt. destruct (Nat.eqb_spec (dnl A) (dnc B)) as [E|E]; [|reflexivity].
  rewrite (gemm_spec true true _ _ _ _ _ _ _ (fun i l => dget A l i) (fun l j => dget B j l)); simpl; auto; try lia.
  - intros. apply rd_dget; auto.
  - intros. apply rd_dget; auto; lia.
Qed.

(* gemv *)
Lemma repeat_tab1 n : repeat 0%Z n = tab1 n (fun _ => 0%Z).
Proof.
  apply nth_ext with (d := 0%Z) (d' := 0%Z).
  - rewrite repeat_length, tab1_length; auto.
  - intros k Hk. rewrite repeat_length in Hk. rewrite nth_tab1 by auto. apply nth_repeat.
Qed.

Lemma m_mulv_spec A v : dwf A ->
  m_mulv A v = if dnc A =? length v then Ok (tab1 (dnl A) (fun i => sumn (dnc A) (fun j => (dget A i j * nth j v 0)%Z))) else Throw.
Proof.
  intros W. unfold m_mulv. destruct (Nat.eqb_spec (dnc A) (length v)) as [E|E]; [|reflexivity].
  unfold gemv.
  destruct (Nat.eqb_spec (dnl A) 0) as [M0|M0].
  { rewrite M0. simpl. reflexivity. }
  destruct (Nat.eqb_spec (dnc A) 0) as [N0|N0].
  { replace (dnl A <? Nat.max 1 (dnl A)) with false by (symmetry; apply Nat.ltb_ge; lia). cbn [orb lift].
    rewrite repeat_tab1. f_equal. apply tab1_ext. intros. rewrite N0. reflexivity. }
  replace (dnl A <? Nat.max 1 (dnl A)) with false by (symmetry; apply Nat.ltb_ge; lia). cbn [orb].
  rewrite Nat.eqb_refl. cbn [negb].
  rewrite (otab_some _ _ (fun i => sumn (dnc A) (fun j => (dget A i j * nth j v 0)%Z))); [reflexivity|].
  intros i Hi. apply osum_some. intros j Hj. rewrite rd_dget, rd_some by (auto; lia). reflexivity.
Qed.

Lemma m_tmulv_spec A v : dwf A ->
  m_tmulv A v = if dnl A =? length v then Ok (tab1 (dnc A) (fun j => sumn (dnl A) (fun i => (dget A i j * nth i v 0)%Z))) else Throw.
Proof.
  intros W. unfold m_tmulv. destruct (Nat.eqb_spec (dnl A) (length v)) as [E|E]; [|reflexivity].
  unfold gemv.
  destruct (Nat.eqb_spec (dnl A) 0) as [M0|M0].
  { rewrite M0. simpl. rewrite repeat_tab1. reflexivity. }
  destruct (Nat.eqb_spec (dnc A) 0) as [N0|N0].
  { replace (dnl A <? Nat.max 1 (dnl A)) with false by (symmetry; apply Nat.ltb_ge; lia). cbn [orb lift].
    rewrite N0. reflexivity. }
  replace (dnl A <? Nat.max 1 (dnl A)) with false by (symmetry; apply Nat.ltb_ge; lia). cbn [orb].
  rewrite Nat.eqb_refl. cbn [negb].
  rewrite (otab_some _ _ (fun j => sumn (dnl A) (fun i => (dget A i j * nth i v 0)%Z))); [reflexivity|].
  intros j Hj. apply osum_some. intros i Hi. rewrite rd_dget, rd_some by (auto; lia). reflexivity.
Qed.

Lemma nth_map_in {A B} (f : A -> B) l k d d' : k < length l -> nth k (map f l) d = f (nth k l d').
Proof. revert k; induction l as [|a l IH]; intros [|k] H; simpl in *; try lia; auto. apply IH; lia. Qed.

(* ---------- packed symmetric storage ---------- *)
Definition tri (k : nat) : nat := k * (k + 1) / 2.
Lemma tri_S k : tri (S k) = tri k + S k.
Proof.
  unfold tri. replace (S k * (S k + 1)) with (k * (k + 1) + (S k) * 2) by lia.
  rewrite Nat.div_add by lia. reflexivity.
Qed.
Lemma tri_mono a b : a <= b -> tri a <= tri b.
Proof. induction 1; auto. rewrite tri_S. lia. Qed.

Lemma pidx_le i j : i <= j -> pidx i j = i + tri j.
Proof. intros H. unfold pidx, tri. replace (i <=? j) with true by (symmetry; apply Nat.leb_le; auto). reflexivity. Qed.

Lemma pidx_sym i j : pidx i j = pidx j i.
Proof.
  unfold pidx. destruct (Nat.leb_spec i j), (Nat.leb_spec j i); try reflexivity; try lia.
  assert (i = j) by lia. subst. reflexivity.
Qed.

Lemma pidx_lt n i j : i < n -> j < n -> pidx i j < tri n.
Proof.
  intros Hi Hj. destruct (Nat.le_gt_cases i j) as [L|L].
  - rewrite pidx_le by auto. pose proof (tri_mono (S j) n ltac:(lia)). rewrite tri_S in H. lia.
  - rewrite pidx_sym, pidx_le by lia. pose proof (tri_mono (S i) n ltac:(lia)). rewrite tri_S in H. lia.
Qed.

(* two slots coincide only for the same unordered pair: the packed index is a bijection between
   { (i,j) | i <= j < n } and [0, n(n+1)/2) *)
Lemma pidx_inj i j i' j' : i <= j -> i' <= j' -> pidx i j = pidx i' j' -> i = i' /\ j = j'.
Proof.
  intros L L' H. rewrite !pidx_le in H by auto.
  assert (j = j').
  { destruct (Nat.lt_trichotomy j j') as [T|[T|T]]; auto.
    - pose proof (tri_mono (S j) j' ltac:(lia)). rewrite tri_S in H0. lia.
    - pose proof (tri_mono (S j') j ltac:(lia)). rewrite tri_S in H0. lia. }
  subst. split; lia.
Qed.

Lemma pidx_surj n p : p < tri n -> exists i j, i <= j /\ j < n /\ pidx i j = p.
Proof.
  induction n as [|n IH]; intros H.
  - unfold tri in H; simpl in H. lia.
  - rewrite tri_S in H. destruct (Nat.lt_ge_cases p (tri n)) as [L|L].
    + destruct (IH L) as (i & j & ? & ? & ?). exists i, j. repeat split; auto.
    + exists (p - tri n), n. repeat split; try lia. rewrite pidx_le by lia. lia.
Qed.

Lemma sget_sym S i j : sget S i j = sget S j i.
Proof. unfold sget. rewrite pidx_sym. reflexivity. Qed.

Lemma swf_tri S : swf S <-> length (sd S) = tri (sn S).
Proof. reflexivity. Qed.

Lemma rd_sget S i j : swf S -> i < sn S -> j < sn S -> rd (sd S) (pidx i j) = Some (sget S i j).
Proof. intros W Hi Hj. unfold sget. apply rd_some. rewrite W. apply pidx_lt; auto. Qed.

(* the packed enumeration lists slot p at position p *)
Lemma packed_pairs_S n : packed_pairs (S n) = packed_pairs n ++ map (fun i => (i, n)) (seq 0 (n + 1)).
Proof. unfold packed_pairs. rewrite seq_S, flat_map_app. simpl. rewrite app_nil_r. reflexivity. Qed.

Lemma packed_pairs_length n : length (packed_pairs n) = tri n.
Proof.
  induction n as [|n IH]; [reflexivity|].
  rewrite packed_pairs_S, app_length, IH, map_length, seq_length, tri_S. lia.
Qed.

Lemma packed_pairs_nth n i j : i <= j -> j < n -> nth (pidx i j) (packed_pairs n) (0, 0) = (i, j).
Proof.
  induction n as [|n IH]; intros L H; [lia|].
  rewrite packed_pairs_S, pidx_le by auto. destruct (Nat.eq_dec j n) as [->|Hn].
  - rewrite app_nth2 by (rewrite packed_pairs_length; lia). rewrite packed_pairs_length.
    replace (i + tri n - tri n) with i by lia.
    rewrite nth_map_in with (d' := 0) by (rewrite seq_length; lia).
    rewrite seq_nth by lia. reflexivity.
  - rewrite app_nth1.
    + rewrite <- pidx_le by auto. apply IH; auto; lia.
    + rewrite packed_pairs_length. pose proof (tri_mono (S j) n ltac:(lia)). rewrite tri_S in H0. lia.
Qed.

Lemma packed_pairs_in n p : In p (packed_pairs n) -> fst p <= snd p /\ snd p < n.
Proof.
  unfold packed_pairs. rewrite in_flat_map. intros (j & Hj & Hp). apply in_seq in Hj.
  apply in_map_iff in Hp. destruct Hp as (i & <- & Hi). apply in_seq in Hi. simpl. lia.
Qed.

Lemma swf_mks n f : swf (mks n f).
Proof. unfold swf, mks; simpl. rewrite map_length. apply packed_pairs_length. Qed.

Lemma sget_mks n f i j : i <= j -> j < n -> sget (mks n f) i j = f i j.
Proof.
  intros L H. unfold sget, mks; simpl.
  rewrite nth_map_in with (d' := (0, 0)).
  - rewrite packed_pairs_nth by auto. reflexivity.
  - rewrite packed_pairs_length. apply pidx_lt; lia.
Qed.

Lemma sget_mks_sym n f i j : (forall a b, f a b = f b a) -> i < n -> j < n -> sget (mks n f) i j = f i j.
Proof.
  intros Hs Hi Hj. destruct (Nat.le_gt_cases i j).
  - apply sget_mks; auto.
  - rewrite sget_sym, sget_mks by lia. apply Hs.
Qed.

(* ---------- Matrix(const SymMatrix&) and the symmetric products ---------- *)
Lemma dget_sym_to_dense S i j : i < sn S -> j < sn S -> dget (sym_to_dense S) i j = sget S i j.
Proof. intros. unfold sym_to_dense. apply dget_mk; auto. Qed.

Lemma rd_s2d S i j : i < sn S -> j < sn S -> rd (dd (sym_to_dense S)) (i + sn S * j) = Some (sget S i j).
Proof.
  intros. unfold sym_to_dense, mk; simpl. rewrite rd_some by (rewrite tabulate_length; apply cm_lt; auto).
  rewrite nth_tabulate; auto.
Qed.

Lemma symU_dense S i j : i < sn S -> j < sn S -> symU (dd (sym_to_dense S)) (sn S) i j = Some (sget S i j).
Proof.
  intros Hi Hj. unfold symU. destruct (Nat.leb_spec i j).
  - apply rd_s2d; auto.
  - rewrite rd_s2d; auto. rewrite sget_sym; auto.
Qed.

Lemma symm_spec (left : bool) m n a lda b ldb GS GB :
  (if left then m else n) <= lda -> m <= ldb ->
  (forall i l, i < (if left then m else n) -> l < (if left then m else n) -> symU a lda i l = Some (GS i l)) ->
  (forall i j, i < m -> j < n -> rd b (i + ldb * j) = Some (GB i j)) ->
  symm left m n a lda b ldb m (m * n) =
  Some (tabulate m n (fun i j => if left then sumn m (fun l => (GS i l * GB l j)%Z) else sumn n (fun l => (GB i l * GS l j)%Z))).
Proof.
  intros La Lb HS HB. unfold symm.
  replace (m <? m) with false by (symmetry; apply Nat.ltb_irrefl).
  replace (lda <? (if left then m else n)) with false by (symmetry; apply Nat.ltb_ge; auto).
  replace (ldb <? m) with false by (symmetry; apply Nat.ltb_ge; auto).
  cbn [orb]. rewrite extent_ok.
  rewrite tabulate_tab1. apply otab_some. intros p Hp. destruct (cm_bound m n p Hp) as [Hi Hj]. cbv zeta.
  replace (p mod m <? m) with true by (symmetry; apply Nat.ltb_lt; auto).
  replace (p / m <? n) with true by (symmetry; apply Nat.ltb_lt; auto). cbn [andb].
  destruct left.
  - apply osum_some. intros l Hl. rewrite HS, HB by auto. reflexivity.
  - apply osum_some. intros l Hl. rewrite HS, HB by auto. reflexivity.
Qed.

Lemma m_mult_sym_spec A B : dwf A -> swf B ->
  m_mult_sym A B = if dnc A =? sn B then Ok (prod_def (dnl A) (sn B) (dnc A) (dget A) (sget B)) else Throw.
Proof.
  intros WA WB. unfold m_mult_sym. destruct (Nat.eqb_spec (dnc A) (sn B)) as [E|E]; [|reflexivity].
  rewrite (symm_spec false _ _ _ _ _ _ (sget B) (dget A)); simpl; auto; try lia.
  - rewrite E. reflexivity.
  - intros. apply symU_dense; auto.
  - intros. apply rd_dget; auto; lia.
Qed.

Lemma s_mult_spec A B : swf A -> dwf B ->
  s_mult A B = if sn A =? dnl B then Ok (prod_def (sn A) (dnc B) (sn A) (sget A) (dget B)) else Throw.
Proof.
  intros WA WB. unfold s_mult. destruct (Nat.eqb_spec (sn A) (dnl B)) as [E|E]; [|reflexivity].
  rewrite (symm_spec true _ _ _ _ _ _ (sget A) (dget B)); simpl; auto; try lia.
  - intros. apply symU_dense; auto.
  - intros. rewrite E. apply rd_dget; auto; lia.
Qed.

Lemma s_mult_sym_spec A B : swf A -> swf B ->
  s_mult_sym A B = if sn A =? sn B then Ok (prod_def (sn A) (sn A) (sn A) (sget A) (sget B)) else Throw.
Proof.
  intros WA WB. unfold s_mult_sym. destruct (Nat.eqb_spec (sn A) (sn B)) as [E|E]; [|reflexivity].
  rewrite (symm_spec true _ _ _ _ _ _ (sget A) (sget B)); simpl; auto; try lia.
  - intros. apply symU_dense; auto.
  - intros. rewrite E. apply rd_s2d; lia.
Qed.

Lemma s_mulv_spec A v : swf A ->
  s_mulv A v = if sn A =? length v then Ok (tab1 (sn A) (fun i => sumn (sn A) (fun j => (sget A i j * nth j v 0)%Z))) else Throw.
Proof.
  intros W. unfold s_mulv, spmv. destruct (Nat.eqb_spec (sn A) (length v)) as [E|E]; [|reflexivity].
  rewrite (otab_some _ _ (fun i => sumn (sn A) (fun j => (sget A i j * nth j v 0)%Z))); [reflexivity|].
  intros i Hi. apply osum_some. intros j Hj. rewrite rd_sget, rd_some by (auto; lia). reflexivity.
Qed.

Lemma v_outer_spec u v :
  v_outer u v = if length u =? length v then Ok (mk (length u) (length v) (fun i j => (nth i u 0 * nth j v 0)%Z)) else Throw.
Proof.
  unfold v_outer, ger. destruct (Nat.eqb_spec (length u) (length v)) as [E|E]; [|reflexivity].
  rewrite (otab2_some _ _ (fun i j => oadd (Some 0%Z) (omul (rd u i) (rd v j))) (fun i j => (nth i u 0 * nth j v 0)%Z)).
  - rewrite <- E. reflexivity.
  - intros i j Hi Hj. rewrite !rd_some by lia. reflexivity.
Qed.

(* ---------- level-1 routines and hand loops ---------- *)
Lemma axpy_spec n al x y : length y = n -> length x = n ->
  axpy n al x y = Some (tab1 n (fun k => (al * nth k x 0 + nth k y 0)%Z)).
Proof.
  intros Hy Hx. unfold axpy. rewrite Hy, Nat.leb_refl. apply otab_some. intros k Hk.
  replace (k <? n) with true by (symmetry; apply Nat.ltb_lt; auto).
  rewrite !rd_some by lia. reflexivity.
Qed.

Lemma map_buf_spec sz x f : length x = sz -> map_buf sz x f = Some (tab1 sz (fun k => f (nth k x 0%Z))).
Proof. intros H. unfold map_buf. apply otab_some. intros k Hk. rewrite rd_some by lia. reflexivity. Qed.

Lemma dotp_spec n x y : n <= length x -> n <= length y -> dotp n x y = Some (sumn n (fun k => (nth k x 0 * nth k y 0)%Z)).
Proof. intros. unfold dotp. apply osum_some. intros k Hk. rewrite !rd_some by lia. reflexivity. Qed.

(* element-wise results, stated on entries *)
Lemma dget_dn_tab1 nl nc f i j : i < nl -> j < nc -> dget (dn nl nc (tab1 (nl * nc) f)) i j = f (i + nl * j).
Proof. intros. unfold dget, didx, dn; simpl. apply nth_tab1. apply cm_lt; auto. Qed.

Definition ew2 (A B : dense) (f : Z -> Z -> Z) : dense :=
  dn (dnl A) (dnc A) (tab1 (dnl A * dnc A) (fun k => f (nth k (dd A) 0%Z) (nth k (dd B) 0%Z))).
Definition ew1 (A : dense) (f : Z -> Z) : dense :=
  dn (dnl A) (dnc A) (tab1 (dnl A * dnc A) (fun k => f (nth k (dd A) 0%Z))).
Lemma dwf_ew2 A B f : dwf (ew2 A B f). Proof. unfold dwf, ew2; simpl. apply tab1_length. Qed.
Lemma dwf_ew1 A f : dwf (ew1 A f). Proof. unfold dwf, ew1; simpl. apply tab1_length. Qed.
Lemma dget_ew2 A B f i j : dnl B = dnl A -> i < dnl A -> j < dnc A -> dget (ew2 A B f) i j = f (dget A i j) (dget B i j).
Proof. intros E Hi Hj. unfold ew2. rewrite dget_dn_tab1 by auto. unfold dget, didx. rewrite E. reflexivity. Qed.
Lemma dget_ew1 A f i j : i < dnl A -> j < dnc A -> dget (ew1 A f) i j = f (dget A i j).
Proof. intros Hi Hj. unfold ew1. rewrite dget_dn_tab1 by auto. reflexivity. Qed.

Lemma m_addsub_spec al A B : dwf A -> dwf B ->
  m_addsub al A B = if (dnl A =? dnl B) && (dnc A =? dnc B) then Ok (ew2 A B (fun a b => (al * b + a)%Z)) else Throw.
Proof.
  intros WA WB. unfold m_addsub.
  destruct (Nat.eqb_spec (dnl A) (dnl B)) as [E1|E1]; [|reflexivity].
  destruct (Nat.eqb_spec (dnc A) (dnc B)) as [E2|E2]; [|reflexivity]. cbn [andb].
  rewrite axpy_spec; auto. unfold dwf in WB. rewrite WB, E1, E2. reflexivity.
Qed.

Lemma m_scale_spec A x : dwf A -> m_scale A x = Ok (ew1 A (fun a => (a * x)%Z)).
Proof. intros W. unfold m_scale. rewrite map_buf_spec; auto. Qed.

Lemma m_dot_spec A B : dwf A -> dwf B ->
  m_dot A B = if (dnl A =? dnl B) && (dnc A =? dnc B)
              then Ok (sumn (dnl A * dnc A) (fun k => (nth k (dd A) 0 * nth k (dd B) 0)%Z)) else Throw.
Proof.
  intros WA WB. unfold m_dot.
  destruct (Nat.eqb_spec (dnl A) (dnl B)) as [E1|E1]; [|reflexivity].
  destruct (Nat.eqb_spec (dnc A) (dnc B)) as [E2|E2]; [|reflexivity]. cbn [andb].
  rewrite dotp_spec; auto. { rewrite WA; auto. } { unfold dwf in WB. rewrite WB, E1, E2; auto. }
Qed.

(* a sum over the buffer is the double sum over rows and columns *)
Lemma sumn_app base q (f : nat -> Z) : sumn (base + q) f = (sumn base f + sumn q (fun i => f (i + base)%nat))%Z.
Proof.
  induction q as [|q IHq]; [rewrite Nat.add_0_r; simpl; lia|].
  rewrite Nat.add_succ_r. simpl. rewrite IHq. replace (q + base) with (base + q) by lia. lia.
Qed.

Lemma sumn_cm nl nc (f : nat -> Z) :
  sumn (nl * nc) f = sumn nc (fun j => sumn nl (fun i => f (i + nl * j))).
Proof.
  induction nc as [|nc IH].
  - rewrite Nat.mul_0_r. reflexivity.
  - replace (nl * S nc) with (nl * nc + nl) by lia. rewrite sumn_app, IH. reflexivity.
Qed.

Lemma m_frob2_spec A : dwf A ->
  m_frob2 A = Ok (sumn (dnc A) (fun j => sumn (dnl A) (fun i => (dget A i j * dget A i j)%Z))).
Proof.
  intros W. unfold m_frob2. rewrite dotp_spec by (rewrite W; auto). cbn [lift id]. f_equal.
  rewrite sumn_cm. reflexivity.
Qed.

Lemma m_dot_entries A B : dnl A = dnl B ->
  sumn (dnl A * dnc A) (fun k => (nth k (dd A) 0 * nth k (dd B) 0)%Z) =
  sumn (dnc A) (fun j => sumn (dnl A) (fun i => (dget A i j * dget B i j)%Z)).
Proof. intros E. rewrite sumn_cm. unfold dget, didx. rewrite E. reflexivity. Qed.

(* vectors *)
Lemma v_add_spec u v : v_add u v = if length u =? length v then Ok (tab1 (length u) (fun k => (nth k u 0 + nth k v 0)%Z)) else Throw.
Proof.
  unfold v_add. destruct (Nat.eqb_spec (length u) (length v)) as [E|E]; [|reflexivity].
  rewrite axpy_spec by auto. cbn [lift id]. f_equal. apply tab1_ext. intros; lia.
Qed.
Lemma v_sub_spec u v : v_sub u v = if length u =? length v then Ok (tab1 (length u) (fun k => (nth k u 0 - nth k v 0)%Z)) else Throw.
Proof.
  unfold v_sub. destruct (Nat.eqb_spec (length u) (length v)) as [E|E]; [|reflexivity].
  rewrite axpy_spec by auto. cbn [lift id]. f_equal. apply tab1_ext. intros; lia.
Qed.
Lemma v_neg_spec u : v_neg u = Ok (tab1 (length u) (fun k => (- nth k u 0)%Z)).
Proof. unfold v_neg. rewrite map_buf_spec by auto. reflexivity. Qed.
Lemma v_scale_spec u x : v_scale u x = Ok (tab1 (length u) (fun k => (x * nth k u 0)%Z)).
Proof. unfold v_scale. rewrite map_buf_spec by auto. reflexivity. Qed.
Lemma v_addc_spec u x : v_addc u x = Ok (tab1 (length u) (fun k => (nth k u 0 + x)%Z)).
Proof. unfold v_addc. rewrite map_buf_spec by auto. reflexivity. Qed.
Lemma v_dot_spec u v : v_dot u v = if length u =? length v then Ok (sumn (length u) (fun k => (nth k u 0 * nth k v 0)%Z)) else Throw.
Proof.
  unfold v_dot. destruct (Nat.eqb_spec (length u) (length v)) as [E|E]; [|reflexivity].
  rewrite dotp_spec by lia. reflexivity.
Qed.
Lemma v_norm2_spec u : v_norm2 u = Ok (sumn (length u) (fun k => (nth k u 0 * nth k u 0)%Z)).
Proof. unfold v_norm2. rewrite dotp_spec by lia. reflexivity. Qed.
Lemma v_kmult_spec u v : v_kmult u v = if length u =? length v then Ok (tab1 (length u) (fun k => (nth k v 0 * nth k u 0)%Z)) else Throw.
Proof.
  unfold v_kmult. destruct (Nat.eqb_spec (length u) (length v)) as [E|E]; [|reflexivity].
  rewrite (otab_some _ _ (fun k => (nth k v 0 * nth k u 0)%Z)); [reflexivity|].
  intros k Hk. rewrite !rd_some by lia. reflexivity.
Qed.
Lemma v_sum_spec u : v_sum u = Ok (sumn (length u) (fun k => nth k u 0%Z)).
Proof.
  unfold v_sum. rewrite (osum_some _ _ (fun k => nth k u 0%Z)); [reflexivity|].
  intros k Hk. rewrite rd_some by lia. reflexivity.
Qed.
Lemma v_get_spec v i : v_get v i = if inb i (length v) then Ok (nth (Z.to_nat i) v 0%Z) else Throw.
Proof.
  unfold v_get. destruct (inb i (length v)) eqn:E; [|reflexivity].
  unfold inb in E. rewrite rd_some by lia. reflexivity.
Qed.
Lemma v_subvect_spec u a n :
  v_subvect u a n = if ((0 <=? a) && (0 <=? n) && (a + n <=? zlen u))%Z
                    then Ok (tab1 (Z.to_nat n) (fun i => nth (Z.to_nat a + i) u 0%Z)) else Throw.
Proof.
  unfold v_subvect. destruct ((0 <=? a) && (0 <=? n) && (a + n <=? zlen u))%Z eqn:E; [|reflexivity].
  unfold zlen in E. rewrite (otab_some _ _ (fun i => nth (Z.to_nat a + i) u 0%Z)); [reflexivity|].
  intros i Hi. apply rd_some. lia.
Qed.

(* ---------- accessors and sub-blocks ---------- *)
Lemma m_get_spec M i j : dwf M ->
  m_get M i j = if inb i (dnl M) && inb j (dnc M) then Ok (dget M (Z.to_nat i) (Z.to_nat j)) else Throw.
Proof.
  intros W. unfold m_get. destruct (inb i (dnl M)) eqn:E1; [|reflexivity]. destruct (inb j (dnc M)) eqn:E2; [|reflexivity].
  cbn [andb]. unfold inb in *. unfold didx. rewrite rd_dget by (auto; lia). reflexivity.
Qed.

Lemma s_get_spec S i j : swf S ->
  s_get S i j = if inb i (sn S) && inb j (sn S) then Ok (sget S (Z.to_nat i) (Z.to_nat j)) else Throw.
Proof.
  intros W. unfold s_get. destruct (inb i (sn S)) eqn:E1; [|reflexivity]. destruct (inb j (sn S)) eqn:E2; [|reflexivity].
  cbn [andb]. unfold inb in *. rewrite rd_sget by (auto; lia). reflexivity.
Qed.

(* element write: exactly the addressed entry changes *)
Lemma m_put_spec M i j v : dwf M ->
  m_put M i j v = if inb i (dnl M) && inb j (dnc M)
                  then Ok (dn (dnl M) (dnc M) (upd (dd M) (didx M (Z.to_nat i) (Z.to_nat j)) v)) else Throw.
Proof.
  intros W. unfold m_put. destruct (inb i (dnl M)) eqn:E1; [|reflexivity]. destruct (inb j (dnc M)) eqn:E2; [|reflexivity].
  cbn [andb]. unfold inb in *.
  replace (didx M (Z.to_nat i) (Z.to_nat j) <? length (dd M)) with true; [reflexivity|].
  symmetry. apply Nat.ltb_lt. rewrite W. unfold didx. apply cm_lt; lia.
Qed.

Lemma dget_upd M i j v a b : dwf M -> i < dnl M -> j < dnc M -> a < dnl M -> b < dnc M ->
  dget (dn (dnl M) (dnc M) (upd (dd M) (didx M i j) v)) a b = if (a =? i) && (b =? j) then v else dget M a b.
Proof.
  intros W Hi Hj Ha Hb. unfold dget, didx, dn; simpl. rewrite nth_upd.
  replace (i + dnl M * j <? length (dd M)) with true by (symmetry; apply Nat.ltb_lt; rewrite W; apply cm_lt; auto).
  rewrite andb_true_r.
  destruct (Nat.eqb_spec (i + dnl M * j) (a + dnl M * b)) as [E|E].
  - assert (a = i /\ b = j) as [-> ->].
    { destruct (cm_index (dnl M) i j Hi) as [M1 D1]. destruct (cm_index (dnl M) a b Ha) as [M2 D2].
      rewrite E in M1, D1. split; congruence. }
    rewrite !Nat.eqb_refl. reflexivity.
  - destruct (Nat.eqb_spec a i), (Nat.eqb_spec b j); subst; try reflexivity. congruence.
Qed.

Lemma s_put_spec S i j v : swf S ->
  s_put S i j v = if inb i (sn S) && inb j (sn S)
                  then Ok {| sn := sn S; sd := upd (sd S) (pidx (Z.to_nat i) (Z.to_nat j)) v |} else Throw.
Proof.
  intros W. unfold s_put. destruct (inb i (sn S)) eqn:E1; [|reflexivity]. destruct (inb j (sn S)) eqn:E2; [|reflexivity].
  cbn [andb]. unfold inb in *.
  replace (pidx (Z.to_nat i) (Z.to_nat j) <? length (sd S)) with true; [reflexivity|].
  symmetry. apply Nat.ltb_lt. rewrite W. apply pidx_lt; lia.
Qed.

(* writing (i,j) changes (i,j) and (j,i), nothing else *)
Lemma sget_upd S i j v a b : swf S -> i < sn S -> j < sn S ->
  sget {| sn := sn S; sd := upd (sd S) (pidx i j) v |} a b =
  if ((a =? i) && (b =? j)) || ((a =? j) && (b =? i)) then v else sget S a b.
Proof.
  intros W Hi Hj. unfold sget; simpl. rewrite nth_upd.
  replace (pidx i j <? length (sd S)) with true by (symmetry; apply Nat.ltb_lt; rewrite W; apply pidx_lt; auto).
  rewrite andb_true_r.
  destruct (Nat.eqb_spec (pidx i j) (pidx a b)) as [E|E].
  - assert ((a = i /\ b = j) \/ (a = j /\ b = i)) as H.
    { destruct (Nat.le_gt_cases i j), (Nat.le_gt_cases a b).
      - apply pidx_inj in E; auto. lia.
      - rewrite (pidx_sym a b) in E. apply pidx_inj in E; auto; lia.
      - rewrite (pidx_sym i j) in E. apply pidx_inj in E; auto; lia.
      - rewrite (pidx_sym i j), (pidx_sym a b) in E. apply pidx_inj in E; auto; lia. }
    destruct H as [[-> ->]|[-> ->]]; rewrite !Nat.eqb_refl; cbn; auto. rewrite orb_true_r; auto.
  - destruct (Nat.eqb_spec a i), (Nat.eqb_spec b j), (Nat.eqb_spec a j), (Nat.eqb_spec b i); subst; cbn; try reflexivity;
      try congruence. rewrite pidx_sym in E. congruence.
Qed.

Lemma m_submat_spec M a n b k : dwf M ->
  m_submat M a n b k =
  if ((0 <=? a) && (0 <=? n) && (0 <=? b) && (0 <=? k) && (a + n <=? Z.of_nat (dnl M)) && (b + k <=? Z.of_nat (dnc M)))%Z
  then Ok (mk (Z.to_nat n) (Z.to_nat k) (fun i j => dget M (Z.to_nat a + i) (Z.to_nat b + j))) else Throw.
Proof.
  intros W. unfold m_submat.
  destruct ((0 <=? a) && (0 <=? n) && (0 <=? b) && (0 <=? k) && (a + n <=? Z.of_nat (dnl M)) && (b + k <=? Z.of_nat (dnc M)))%Z eqn:E; [|reflexivity].
  cbv zeta.
  rewrite (otab2_some _ _ (fun i j => rd (dd M) (Z.to_nat a + i + (Z.to_nat b + j) * dnl M))
                          (fun i j => dget M (Z.to_nat a + i) (Z.to_nat b + j))); [reflexivity|].
  intros i j Hi Hj. replace (Z.to_nat a + i + (Z.to_nat b + j) * dnl M) with ((Z.to_nat a + i) + dnl M * (Z.to_nat b + j)) by lia.
  apply rd_dget; auto; lia.
Qed.

(* sequential checked writes *)
Section Writes.
  Context {K : Type} (slot : K -> nat) (val : K -> option Z) (g : K -> Z).
  Definition wr_step (ob : option (list Z)) (k : K) : option (list Z) :=
    match ob, val k with
    | Some b, Some e => if slot k <? length b then Some (upd b (slot k) e) else None
    | _, _ => None end.
  Lemma writes_spec ks y :
    (forall k, In k ks -> val k = Some (g k)) -> (forall k, In k ks -> slot k < length y) -> NoDup (map slot ks) ->
    exists b, fold_left wr_step ks (Some y) = Some b /\ length b = length y /\
              (forall k, In k ks -> nth (slot k) b 0%Z = g k) /\
              (forall q, (forall k, In k ks -> slot k <> q) -> nth q b 0%Z = nth q y 0%Z).
  Proof.
    induction ks as [|k ks IH] using rev_ind; intros Hv Hs Hn.
    - exists y. simpl. repeat split; auto. intros k [].
    - rewrite map_app in Hn. simpl in Hn. apply NoDup_remove in Hn. rewrite app_nil_r in Hn. destruct Hn as [Hn Hk].
      destruct IH as (b & Hb & Lb & Gb & Ub); auto.
      { intros; apply Hv; apply in_or_app; auto. } { intros; apply Hs; apply in_or_app; auto. }
      exists (upd b (slot k) (g k)). rewrite fold_left_app, Hb. simpl. unfold wr_step.
      rewrite Hv by (apply in_or_app; right; left; auto).
      replace (slot k <? length b) with true by (symmetry; apply Nat.ltb_lt; rewrite Lb; apply Hs; apply in_or_app; right; left; auto).
      split; [reflexivity|]. split; [rewrite upd_length; auto|]. split.
      + intros k0 Hk0. apply in_app_or in Hk0. destruct Hk0 as [Hk0|[<-|[]]].
        * rewrite nth_upd_other; auto. intro E. apply Hk. rewrite E. apply in_map; auto.
        * apply nth_upd_same. rewrite Lb. apply Hs. apply in_or_app; right; left; auto.
      + intros q Hq. rewrite nth_upd_other by (apply Hq; apply in_or_app; right; left; auto).
        apply Ub. intros; apply Hq; apply in_or_app; auto.
  Qed.
End Writes.

Lemma NoDup_map_inj {A B} (f : A -> B) l : (forall a b, In a l -> In b l -> f a = f b -> a = b) -> NoDup l -> NoDup (map f l).
Proof.
  induction l as [|a l IH]; simpl; intros Hi Hn; [constructor|]. inversion Hn; subst. constructor.
  - intro Hin. apply in_map_iff in Hin. destruct Hin as (b & Hb & Hbl). assert (b = a) by (apply Hi; auto). subst. auto.
  - apply IH; auto.
Qed.

(* dcopy of a contiguous vector into a strided slice *)
Lemma scatter_spec n off inc v y : length v = n -> (n <= 1 \/ 0 < inc) -> (forall k, k < n -> off + inc * k < length y) ->
  exists b, scatter n off inc v y = Some b /\ length b = length y /\
            (forall k, k < n -> nth (off + inc * k) b 0%Z = nth k v 0%Z) /\
            (forall q, (forall k, k < n -> off + inc * k <> q) -> nth q b 0%Z = nth q y 0%Z).
Proof.
  intros Hv Hinc Hb. unfold scatter.
  destruct (writes_spec (fun k => off + inc * k) (rd v) (fun k => nth k v 0%Z) (seq 0 n) y) as (b & H1 & H2 & H3 & H4).
  - intros k Hk. apply in_seq in Hk. apply rd_some. lia.
  - intros k Hk. apply in_seq in Hk. apply Hb. lia.
  - apply NoDup_map_inj; [|apply seq_NoDup]. intros a c Ha Hc E. apply in_seq in Ha, Hc. destruct Hinc; [lia|nia].
  - exists b. split; [exact H1|]. split; auto. split.
    + intros k Hk. apply H3. apply in_seq. lia.
    + intros q Hq. apply H4. intros k Hk. apply in_seq in Hk. apply Hq. lia.
Qed.

Lemma gather_spec n off inc x : (forall k, k < n -> off + inc * k < length x) ->
  gather n off inc x = Some (tab1 n (fun k => nth (off + inc * k) x 0%Z)).
Proof. intros H. unfold gather. apply otab_some. intros k Hk. apply rd_some. auto. Qed.

Lemma m_getcol_spec M j : dwf M ->
  m_getcol M j = if inb j (dnc M) then Ok (tab1 (dnl M) (fun i => dget M i (Z.to_nat j))) else Throw.
Proof.
  intros W. unfold m_getcol. destruct (inb j (dnc M)) eqn:E; [|reflexivity]. unfold inb in E.
  rewrite gather_spec.
  - cbn [lift id]. f_equal. apply tab1_ext. intros i Hi. unfold dget, didx. f_equal. lia.
  - intros k Hk. rewrite W. pose proof (cm_lt (dnl M) (dnc M) k (Z.to_nat j)). lia.
Qed.

Lemma m_getlin_spec M i : dwf M ->
  m_getlin M i = if inb i (dnl M) then Ok (tab1 (dnc M) (fun j => dget M (Z.to_nat i) j)) else Throw.
Proof.
  intros W. unfold m_getlin. destruct (inb i (dnl M)) eqn:E; [|reflexivity]. unfold inb in E.
  rewrite gather_spec; [reflexivity|].
  intros k Hk. rewrite W. apply cm_lt; lia.
Qed.

Lemma m_setcol_spec M j v : dwf M ->
  if (length v =? dnl M) && inb j (dnc M)
  then exists R, m_setcol M j v = Ok R /\ dnl R = dnl M /\ dnc R = dnc M /\ dwf R /\
       forall a b, a < dnl M -> b < dnc M -> dget R a b = if b =? Z.to_nat j then nth a v 0%Z else dget M a b
  else m_setcol M j v = Throw.
Proof.
  intros W. unfold m_setcol. destruct (Nat.eqb_spec (length v) (dnl M)) as [E1|E1]; [|reflexivity].
  destruct (inb j (dnc M)) eqn:E2; [|reflexivity]. cbn [andb]. unfold inb in E2.
  destruct (scatter_spec (dnl M) (dnl M * Z.to_nat j) 1 v (dd M)) as (b & H1 & H2 & H3 & H4); auto.
  { intros k Hk. rewrite W. pose proof (cm_lt (dnl M) (dnc M) k (Z.to_nat j)). lia. }
  exists (dn (dnl M) (dnc M) b). rewrite H1. cbn [lift]. repeat split; auto.
  { unfold dwf; simpl. rewrite H2. exact W. }
  intros a c Ha Hc. unfold dget, didx, dn; simpl. destruct (Nat.eqb_spec c (Z.to_nat j)) as [->|Hn].
  - rewrite <- (H3 a Ha). f_equal. lia.
  - apply H4. intros k Hk E. assert (c = Z.to_nat j); [|contradiction].
    destruct (cm_index (dnl M) a c Ha) as [_ D1]. destruct (cm_index (dnl M) k (Z.to_nat j) Hk) as [_ D2].
    replace (dnl M * Z.to_nat j + 1 * k) with (k + dnl M * Z.to_nat j) in E by lia. rewrite E in D2. congruence.
Qed.

Lemma m_setlin_spec M i v : dwf M ->
  if (length v =? dnc M) && inb i (dnl M)
  then exists R, m_setlin M i v = Ok R /\ dnl R = dnl M /\ dnc R = dnc M /\ dwf R /\
       forall a b, a < dnl M -> b < dnc M -> dget R a b = if a =? Z.to_nat i then nth b v 0%Z else dget M a b
  else m_setlin M i v = Throw.
Proof.
  intros W. unfold m_setlin. destruct (Nat.eqb_spec (length v) (dnc M)) as [E1|E1]; [|reflexivity].
  destruct (inb i (dnl M)) eqn:E2; [|reflexivity]. cbn [andb]. unfold inb in E2.
  destruct (scatter_spec (dnc M) (Z.to_nat i) (dnl M) v (dd M)) as (b & H1 & H2 & H3 & H4); auto.
  { right. lia. }
  { intros k Hk. rewrite W. apply cm_lt; lia. }
  exists (dn (dnl M) (dnc M) b). rewrite H1. cbn [lift]. repeat split; auto.
  { unfold dwf; simpl. rewrite H2. exact W. }
  intros a c Ha Hc. unfold dget, didx, dn; simpl. destruct (Nat.eqb_spec a (Z.to_nat i)) as [->|Hn].
  - apply H3; auto.
  - apply H4. intros k Hk E. assert (a = Z.to_nat i); [|contradiction].
    destruct (cm_index (dnl M) a c Ha) as [D1 _]. destruct (cm_index (dnl M) (Z.to_nat i) k ltac:(lia)) as [D2 _].
    rewrite E in D2. congruence.
Qed.

Lemma m_insertmat_spec M a b B : dwf M -> dwf B ->
  if ((0 <=? a) && (0 <=? b) && (a + Z.of_nat (dnl B) <=? Z.of_nat (dnl M)) && (b + Z.of_nat (dnc B) <=? Z.of_nat (dnc M)))%Z
  then exists R, m_insertmat M a b B = Ok R /\ dnl R = dnl M /\ dnc R = dnc M /\ dwf R /\
       forall i j, i < dnl M -> j < dnc M ->
         dget R i j = if (Z.to_nat a <=? i) && (i <? Z.to_nat a + dnl B) && (Z.to_nat b <=? j) && (j <? Z.to_nat b + dnc B)
                      then dget B (i - Z.to_nat a) (j - Z.to_nat b) else dget M i j
  else m_insertmat M a b B = Throw.
Proof.
  intros WM WB. unfold m_insertmat.
  destruct ((0 <=? a) && (0 <=? b) && (a + Z.of_nat (dnl B) <=? Z.of_nat (dnl M)) && (b + Z.of_nat (dnc B) <=? Z.of_nat (dnc M)))%Z eqn:E; [|reflexivity].
  set (ia := Z.to_nat a). set (jb := Z.to_nat b).
  assert (Hia : ia + dnl B <= dnl M) by lia. assert (Hjb : jb + dnc B <= dnc M) by lia.
  destruct (writes_spec (fun p => didx M (ia + p mod dnl B) (jb + p / dnl B)) (rd (dd B)) (fun p => nth p (dd B) 0%Z)
                        (seq 0 (dnl B * dnc B)) (dd M)) as (r & H1 & H2 & H3 & H4).
  - intros p Hp. apply in_seq in Hp. apply rd_some. rewrite WB. lia.
  - intros p Hp. apply in_seq in Hp. destruct (cm_bound (dnl B) (dnc B) p ltac:(lia)). rewrite WM. unfold didx. apply cm_lt; lia.
  - apply NoDup_map_inj; [|apply seq_NoDup]. intros p q Hp Hq Eq. apply in_seq in Hp, Hq.
    destruct (cm_bound (dnl B) (dnc B) p ltac:(lia)). destruct (cm_bound (dnl B) (dnc B) q ltac:(lia)).
    apply didx_inj in Eq; try lia.
  - exists (dn (dnl M) (dnc M) r). unfold wr_step in H1. fold ia jb. rewrite H1. cbn [lift]. repeat split; auto.
    { unfold dwf; simpl. rewrite H2. exact WM. }
    intros i j Hi Hj. unfold dget at 1. unfold dn at 1; simpl.
    destruct ((ia <=? i) && (i <? ia + dnl B) && (jb <=? j) && (j <? jb + dnc B)) eqn:Ein.
    + set (p := (i - ia) + dnl B * (j - jb)).
      assert (Hp : p < dnl B * dnc B) by (apply cm_lt; lia).
      destruct (cm_index (dnl B) (i - ia) (j - jb) ltac:(lia)) as [Mp Dp]. fold p in Mp, Dp.
      specialize (H3 p ltac:(apply in_seq; lia)). cbv beta in H3. rewrite Mp, Dp in H3.
      replace (ia + (i - ia)) with i in H3 by lia. replace (jb + (j - jb)) with j in H3 by lia.
      unfold didx in *. simpl. rewrite H3. reflexivity.
    + unfold didx in *; simpl. apply H4. intros p Hp Eq. apply in_seq in Hp.
      destruct (cm_bound (dnl B) (dnc B) p ltac:(lia)).
      assert (ia + p mod dnl B = i /\ jb + p / dnl B = j) as [Q1 Q2].
      { apply (didx_inj M); auto; lia. }
      rewrite <- Q1, <- Q2 in Ein. clear - Ein H H0.
      generalize dependent (p mod dnl B). generalize dependent (p / dnl B). intros. lia.
Qed.

Lemma m_transpose_spec A i j : i < dnl A -> j < dnc A -> dget (m_transpose A) j i = dget A i j.
Proof. intros. unfold m_transpose. rewrite dget_mk by auto. reflexivity. Qed.

Lemma m_of_vec_spec v m n : m_of_vec v m n = if m * n =? length v then Ok (dn m n v) else Throw.
Proof. reflexivity. Qed.

Lemma v_mulm_spec v M : dwf M ->
  v_mulm v M = if length v =? dnl M then Ok (tab1 (dnc M) (fun j => sumn (dnl M) (fun i => (nth i v 0 * dget M i j)%Z))) else Throw.
Proof.
  intros W. unfold v_mulm. destruct (Nat.eqb_spec (length v) (dnl M)) as [E|E]; [|reflexivity].
  rewrite m_mulv_spec by apply dwf_mk.
  change (dnc (m_transpose M)) with (dnl M). change (dnl (m_transpose M)) with (dnc M).
  rewrite <- E, Nat.eqb_refl. f_equal.
  apply tab1_ext. intros j Hj. apply sumn_ext. intros i Hi. rewrite m_transpose_spec by lia. lia.
Qed.

(* ---------- SymMatrix rows, blocks, conversions ---------- *)
Lemma s_getlin_spec S i : swf S ->
  s_getlin S i = if inb i (sn S) then Ok (tab1 (sn S) (fun j => sget S (Z.to_nat i) j)) else Throw.
Proof.
  intros W. unfold s_getlin. destruct (inb i (sn S)) eqn:E; [|reflexivity]. unfold inb in E.
  rewrite (otab_some _ _ (fun j => sget S (Z.to_nat i) j)); [reflexivity|].
  intros j Hj. apply rd_sget; auto; lia.
Qed.

Lemma pidx_row_inj i j j' : pidx i j = pidx i j' -> j = j'.
Proof.
  intros E. destruct (Nat.le_gt_cases i j), (Nat.le_gt_cases i j').
  - apply pidx_inj in E; auto; lia.
  - rewrite (pidx_sym i j') in E. apply pidx_inj in E; auto; lia.
  - rewrite (pidx_sym i j) in E. apply pidx_inj in E; auto; lia.
  - rewrite (pidx_sym i j), (pidx_sym i j') in E. apply pidx_inj in E; auto; lia.
Qed.

Lemma pidx_eq_cases i j a b : pidx i j = pidx a b -> (a = i /\ b = j) \/ (a = j /\ b = i).
Proof.
  intros E. destruct (Nat.le_gt_cases i j), (Nat.le_gt_cases a b).
  - apply pidx_inj in E; auto. lia.
  - rewrite (pidx_sym a b) in E. apply pidx_inj in E; auto; lia.
  - rewrite (pidx_sym i j) in E. apply pidx_inj in E; auto; lia.
  - rewrite (pidx_sym i j), (pidx_sym a b) in E. apply pidx_inj in E; auto; lia.
Qed.

Lemma s_setlin_spec S i v : swf S ->
  if (length v =? sn S) && inb i (sn S)
  then exists R, s_setlin S i v = Ok R /\ sn R = sn S /\ swf R /\
       forall a b, a < sn S -> b < sn S ->
         sget R a b = if a =? Z.to_nat i then nth b v 0%Z else if b =? Z.to_nat i then nth a v 0%Z else sget S a b
  else s_setlin S i v = Throw.
Proof.
  intros W. unfold s_setlin. destruct (Nat.eqb_spec (length v) (sn S)) as [E1|E1]; [|reflexivity].
  destruct (inb i (sn S)) eqn:E2; [|reflexivity]. cbn [andb]. unfold inb in E2. set (ii := Z.to_nat i).
  destruct (writes_spec (fun j => pidx ii j) (rd v) (fun j => nth j v 0%Z) (seq 0 (sn S)) (sd S)) as (r & H1 & H2 & H3 & H4).
  - intros j Hj. apply in_seq in Hj. apply rd_some. lia.
  - intros j Hj. apply in_seq in Hj. rewrite W. apply pidx_lt; lia.
  - apply NoDup_map_inj; [|apply seq_NoDup]. intros a b _ _. apply pidx_row_inj.
  - exists {| sn := sn S; sd := r |}. unfold wr_step in H1. rewrite H1. cbn [lift]. repeat split; auto.
    { unfold swf; simpl. rewrite H2. exact W. }
    intros a b Ha Hb. unfold sget at 1; simpl.
    destruct (Nat.eqb_spec a ii) as [->|Na].
    + apply H3. apply in_seq; lia.
    + destruct (Nat.eqb_spec b ii) as [->|Nb].
      * rewrite pidx_sym. apply H3. apply in_seq; lia.
      * apply H4. intros j Hj E. apply pidx_eq_cases in E. lia.
Qed.

Lemma s_block_spec S a b c d : swf S ->
  s_block S a b c d =
  if ((0 <=? a) && (a <=? b) && (b <? Z.of_nat (sn S)) && (0 <=? c) && (c <=? d) && (d <? Z.of_nat (sn S)))%Z
  then Ok (mk (Z.to_nat (b - a + 1)) (Z.to_nat (d - c + 1)) (fun i j => sget S (Z.to_nat a + i) (Z.to_nat c + j))) else Throw.
Proof.
  intros W. unfold s_block.
  destruct ((0 <=? a) && (a <=? b) && (b <? Z.of_nat (sn S)) && (0 <=? c) && (c <=? d) && (d <? Z.of_nat (sn S)))%Z eqn:E; [|reflexivity].
  cbv zeta.
  rewrite (otab2_some _ _ (fun i j => rd (sd S) (pidx (Z.to_nat a + i) (Z.to_nat c + j)))
                          (fun i j => sget S (Z.to_nat a + i) (Z.to_nat c + j))); [reflexivity|].
  intros i j Hi Hj. apply rd_sget; auto; lia.
Qed.

Lemma s_submat4_spec S a n b k : swf S ->
  s_submat4 S a n b k =
  if ((0 <=? a) && (0 <? n) && (0 <=? b) && (0 <? k) && (a + n <=? Z.of_nat (sn S)) && (b + k <=? Z.of_nat (sn S)))%Z
  then Ok (mk (Z.to_nat n) (Z.to_nat k) (fun i j => sget S (Z.to_nat a + i) (Z.to_nat b + j))) else Throw.
Proof.
  intros W. unfold s_submat4.
  destruct ((0 <=? a) && (0 <? n) && (0 <=? b) && (0 <? k) && (a + n <=? Z.of_nat (sn S)) && (b + k <=? Z.of_nat (sn S)))%Z eqn:E; [|reflexivity].
  rewrite s_block_spec by auto.
  replace ((0 <=? a) && (a <=? a + n - 1) && (a + n - 1 <? Z.of_nat (sn S)) && (0 <=? b) && (b <=? b + k - 1) && (b + k - 1 <? Z.of_nat (sn S)))%Z with true by lia.
  replace (a + n - 1 - a + 1)%Z with n by lia. replace (b + k - 1 - b + 1)%Z with k by lia. reflexivity.
Qed.

Lemma s_submat2_spec S a b : swf S ->
  s_submat2 S a b =
  if ((0 <=? a) && (a <? b) && (b <? Z.of_nat (sn S)))%Z
  then Ok (mks (Z.to_nat (b - a + 1)) (fun i j => sget S (Z.to_nat a + i) (Z.to_nat a + j))) else Throw.
Proof.
  intros W. unfold s_submat2. destruct ((0 <=? a) && (a <? b) && (b <? Z.of_nat (sn S)))%Z eqn:E; [|reflexivity].
  cbv zeta. rewrite (oseq_map_some _ _ (fun p => sget S (Z.to_nat a + fst p) (Z.to_nat a + snd p))); [reflexivity|].
  intros p Hp. apply packed_pairs_in in Hp. apply rd_sget; auto; lia.
Qed.

Lemma s_of_dense_spec M : dwf M ->
  s_of_dense M = if (dnl M <=? dnc M) || (dnl M =? 0) then Ok (mks (dnl M) (dget M)) else Throw.
Proof.
  intros W. unfold s_of_dense. destruct ((dnl M <=? dnc M) || (dnl M =? 0)) eqn:E; [|reflexivity].
  rewrite (oseq_map_some _ _ (fun p => dget M (fst p) (snd p))); [reflexivity|].
  intros p Hp. apply packed_pairs_in in Hp. unfold didx. apply rd_dget; auto; lia.
Qed.

Definition sew2 (A B : sym) (f : Z -> Z -> Z) : sym :=
  {| sn := sn A; sd := tab1 (tri (sn A)) (fun k => f (nth k (sd A) 0%Z) (nth k (sd B) 0%Z)) |}.
Definition sew1 (A : sym) (f : Z -> Z) : sym :=
  {| sn := sn A; sd := tab1 (tri (sn A)) (fun k => f (nth k (sd A) 0%Z)) |}.
Lemma swf_sew2 A B f : swf (sew2 A B f). Proof. unfold swf, sew2; simpl. apply tab1_length. Qed.
Lemma swf_sew1 A f : swf (sew1 A f). Proof. unfold swf, sew1; simpl. apply tab1_length. Qed.
Lemma sget_sew2 A B f i j : i < sn A -> j < sn A -> sget (sew2 A B f) i j = f (sget A i j) (sget B i j).
Proof. intros Hi Hj. unfold sget, sew2; simpl. rewrite nth_tab1 by (apply pidx_lt; auto). reflexivity. Qed.
Lemma sget_sew1 A f i j : i < sn A -> j < sn A -> sget (sew1 A f) i j = f (sget A i j).
Proof. intros Hi Hj. unfold sget, sew1; simpl. rewrite nth_tab1 by (apply pidx_lt; auto). reflexivity. Qed.

Lemma s_addsub_spec al A B : swf A -> swf B ->
  s_addsub al A B = if sn A =? sn B then Ok (sew2 A B (fun a b => (al * b + a)%Z)) else Throw.
Proof.
  intros WA WB. unfold s_addsub. destruct (Nat.eqb_spec (sn A) (sn B)) as [E|E]; [|reflexivity].
  fold (tri (sn A)). rewrite axpy_spec; auto. unfold swf in WB. rewrite WB, E. reflexivity.
Qed.

Lemma s_scale_spec A x : swf A -> s_scale A x = Ok (sew1 A (fun a => (a * x)%Z)).
Proof. intros W. unfold s_scale. fold (tri (sn A)). rewrite map_buf_spec; auto. Qed.

(* ---------- the defects of the pinned tree (regression witnesses) ---------- *)
Definition wA : dense := mk 3 2 (fun i j => Z.of_nat (1 + i + 10 * j)).
Definition wB : dense := mk 4 3 (fun i j => Z.of_nat (1 + i + 10 * j)).

Lemma tmultt_pinned_refuted : exists A B, dwf A /\ dwf B /\ dnl A = dnc B /\
  m_tmultt_pinned A B <> Ok (prod_def (dnc A) (dnl B) (dnl A) (fun i l => dget A l i) (fun l j => dget B j l)).
Proof. exists wA, wB. repeat split; try reflexivity. vm_compute. discriminate. Qed.

Lemma tmultt_pinned_partial A B : dnc A = dnl B -> m_tmultt_pinned A B = m_tmultt A B.
Proof. intros E. unfold m_tmultt_pinned, m_tmultt. rewrite E. reflexivity. Qed.

Definition wS : sym := {| sn := 3; sd := [1; 2; 3; 4; 5; 6]%Z |}.
Lemma sym_submat_pinned_refuted : exists S a b, swf S /\ (0 <= a < b)%Z /\ (b < Z.of_nat (sn S))%Z /\
  s_submat2_pinned S a b <> Ok (mks (Z.to_nat (b - a + 1)) (fun i j => sget S (Z.to_nat a + i) (Z.to_nat a + j))).
Proof. exists wS, 1%Z, 2%Z. repeat split; try reflexivity; try lia. vm_compute. discriminate. Qed.

Lemma mulv_pinned_refuted : exists A v, dwf A /\ dnc A = length v /\
  m_mulv_pinned A v <> Ok (tab1 (dnl A) (fun i => sumn (dnc A) (fun j => (dget A i j * nth j v 0)%Z))).
Proof. exists (dn 3 0 []), []. repeat split. vm_compute. discriminate. Qed.

Lemma tmulv_pinned_refuted : exists A v, dwf A /\ dnl A = length v /\
  m_tmulv_pinned A v <> Ok (tab1 (dnc A) (fun j => sumn (dnl A) (fun i => (dget A i j * nth i v 0)%Z))).
Proof. exists (dn 0 3 []), []. repeat split. vm_compute. discriminate. Qed.

Lemma mulv_pinned_partial A v : dwf A -> dnl A <> 0 -> dnc A <> 0 -> m_mulv_pinned A v = m_mulv A v.
Proof.
  intros W M0 N0. unfold m_mulv_pinned, m_mulv, gemv.
  replace (dnl A =? 0) with false by (symmetry; apply Nat.eqb_neq; auto).
  replace (dnc A =? 0) with false by (symmetry; apply Nat.eqb_neq; auto).
  replace (dnl A <? Nat.max 1 (dnl A)) with false by (symmetry; apply Nat.ltb_ge; lia). reflexivity.
Qed.

Definition wM : dense := mk 3 4 (fun i j => Z.of_nat (1 + i + 10 * j)).
Lemma submat_pinned_refuted : exists M a n b k, dwf M /\ (0 <= a < two32)%Z /\ (0 <= n < two32)%Z /\ (0 <= b < two32)%Z /\ (0 <= k < two32)%Z /\
  (a + n > Z.of_nat (dnl M))%Z /\ m_submat_pinned M a n b k <> Throw.
Proof. exists wM, 4294967295%Z, 2%Z, 0%Z, 1%Z. unfold two32. repeat split; try reflexivity; try lia. vm_compute. discriminate. Qed.

(* ---------- determinant from the Bunch-Kaufman pivots ---------- *)
(* bkdet n piv g i D : from position i the pivot array has LAPACK's documented shape (a non-negative entry is a
   1x1 block, two equal negative entries are a 2x2 block) and D is the product of the block determinants *)
Inductive bkdet (n : nat) (piv : list Z) (g : nat -> nat -> Z) : nat -> Z -> Prop :=
| bk_end : bkdet n piv g n 1%Z
| bk_one i p D : i < n -> nth_error piv i = Some p -> (0 <= p)%Z -> bkdet n piv g (i + 1) D -> bkdet n piv g i (g i i * D)%Z
| bk_two i p D : i + 1 < n -> nth_error piv i = Some p -> nth_error piv (i + 1) = Some p -> (p < 0)%Z ->
                 bkdet n piv g (i + 2) D -> bkdet n piv g i ((g i i * g (i + 1)%nat (i + 1)%nat - g i (i + 1)%nat * g (i + 1)%nat i) * D)%Z.

Lemma det_scan_spec n piv g i D : bkdet n piv g i D ->
  forall fuel d c, n - i <= fuel ->
    det_scan fuel n i piv (fun a b => if (a <? n) && (b <? n) then Some (g a b) else None) d c = Some ((d * D)%Z, c).
Proof.
  induction 1 as [|i p D Hi Hp Hp0 Hrec IH|i p D Hi Hp Hq Hp0 Hrec IH]; intros fuel d c Hf.
  - destruct fuel; simpl; [f_equal; f_equal; lia|]. rewrite Nat.leb_refl. f_equal; f_equal; lia.
  - destruct fuel as [|fuel]; [lia|]. simpl.
    replace (n <=? i) with false by (symmetry; apply Nat.leb_gt; auto). rewrite Hp.
    replace (0 <=? p)%Z with true by lia.
    replace (i <? n) with true by (symmetry; apply Nat.ltb_lt; auto). cbn [andb].
    rewrite IH by lia. f_equal; f_equal; lia.
  - destruct fuel as [|fuel]; [lia|]. simpl.
    replace (n <=? i) with false by (symmetry; apply Nat.leb_gt; lia). rewrite Hp.
    replace (0 <=? p)%Z with false by lia.
    replace (i + 1 <? n) with true by (symmetry; apply Nat.ltb_lt; auto). rewrite Hq, Z.eqb_refl.
    replace (i <? n) with true by (symmetry; apply Nat.ltb_lt; lia). cbn [andb].
    rewrite IH by lia. f_equal; f_equal; lia.
Qed.
