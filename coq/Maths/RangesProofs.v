(* Proofs about Range / Ranges / block addressing. *)
From OM Require Import Base.Lists Maths.Ranges.

Lemma rcontains_iff r i : rcontains r i = true <-> fst r <= i <= snd r.
Proof. unfold rcontains. rewrite andb_true_iff, !Nat.leb_le. tauto. Qed.
Lemma rcontains_false r i : rcontains r i = false <-> ~ (fst r <= i <= snd r).
Proof. rewrite <- rcontains_iff. destruct (rcontains r i); split; congruence. Qed.
Lemma reqb_eq r q : reqb r q = true <-> r = q.
Proof. destruct r, q; unfold reqb; simpl. rewrite andb_true_iff, !Nat.eqb_eq. split; [intros [-> ->]; auto|intros H; inversion H; auto]. Qed.

Definition overlap (r q : range) : Prop := exists i, rcontains r i = true /\ rcontains q i = true.

(* the repaired predicate is exactly interval overlap *)
Theorem rintersect_iff_overlap r q : rwf r -> rwf q -> (rintersect r q = true <-> overlap r q).
Proof.
  unfold rwf, rintersect, overlap; intros Hr Hq.
  rewrite !orb_true_iff, !rcontains_iff. split.
  - intros [[H|H]|H]; [exists (fst q)|exists (snd q)|exists (fst r)]; rewrite !rcontains_iff; lia.
  - intros [i [H1 H2]]. rewrite rcontains_iff in H1, H2. lia.
Qed.
Theorem rintersect_sym r q : rwf r -> rwf q -> rintersect r q = rintersect q r.
Proof.
  intros Hr Hq. destruct (rintersect r q) eqn:E1, (rintersect q r) eqn:E2; auto.
  - apply rintersect_iff_overlap in E1; auto. destruct E1 as [i [H1 H2]].
    assert (rintersect q r = true) by (apply rintersect_iff_overlap; auto; exists i; auto). congruence.
  - apply rintersect_iff_overlap in E2; auto. destruct E2 as [i [H1 H2]].
    assert (rintersect r q = true) by (apply rintersect_iff_overlap; auto; exists i; auto). congruence.
Qed.
(* the pinned (unrepaired) predicate misses containment: kept as a regression witness *)
Definition rintersect_pinned (r q : range) : bool := rcontains r (fst q) || rcontains r (snd q).
Example rintersect_pinned_refuted : exists r q, rwf r /\ rwf q /\ overlap r q /\ rintersect_pinned r q = false.
Proof. exists (5, 6), (0, 10). unfold rwf, overlap; simpl. repeat split; try lia. exists 5; auto. Qed.

Definition Inv (rs : list range) : Prop := Forall rwf rs /\ disjoint_ranges rs.

Lemma find_range_from_spec rs q k :
  match find_range_from rs q k with
  | ROk i => exists j, i = k + j /\ j < length rs /\ nth j rs (0,0) = q /\ (forall j', j' < j -> rintersect (nth j' rs (0,0)) q = false)
  | ROverlap => exists j, j < length rs /\ rintersect (nth j rs (0,0)) q = true /\ nth j rs (0,0) <> q
  | RNoRange => forall j, j < length rs -> rintersect (nth j rs (0,0)) q = false
  | RNoBlock => False
  end.
Proof.
  revert k; induction rs as [|r rs IH]; intros k; simpl.
  - intros j Hj; lia.
  - destruct (rintersect r q) eqn:E.
    + destruct (reqb q r) eqn:E2.
      * apply reqb_eq in E2; subst. exists 0; repeat split; auto; try lia.
      * exists 0; repeat split; auto; try lia. intros ->. assert (reqb q q = true) by (apply reqb_eq; auto). congruence.
    + specialize (IH (S k)). destruct (find_range_from rs q (S k)); auto.
      * destruct IH as [j [H1 [H2 [H3 H4]]]]. exists (S j); repeat split; auto; try lia.
        intros [|j'] Hj'; auto. apply H4; lia.
      * destruct IH as [j [H1 [H2 H3]]]. exists (S j); repeat split; auto; lia.
      * intros [|j] Hj; auto. apply IH; lia.
Qed.

Lemma disjoint_app rs q : Forall rwf rs -> rwf q -> disjoint_ranges rs ->
  (forall j, j < length rs -> rintersect (nth j rs (0,0)) q = false) -> disjoint_ranges (rs ++ [q]).
Proof.
  intros Hw Hq Hd Hn a b ind Ha Hb Ca Cb. rewrite app_length in Ha, Hb; simpl in Ha, Hb.
  assert (Hno : forall j, j < length rs -> rcontains (nth j rs (0,0)) ind = true -> rcontains q ind = true -> False).
  { intros j Hj C1 C2. specialize (Hn j Hj).
    assert (rintersect (nth j rs (0,0)) q = true); [|congruence].
    apply rintersect_iff_overlap; auto. rewrite Forall_forall in Hw. apply Hw. apply nth_In; auto. exists ind; auto. }
  destruct (Nat.lt_ge_cases a (length rs)) as [La|La]; destruct (Nat.lt_ge_cases b (length rs)) as [Lb|Lb].
  - rewrite app_nth1 in Ca, Cb by auto. eapply Hd; eauto.
  - assert (b = length rs) by lia; subst b. rewrite app_nth1 in Ca by auto. rewrite app_nth2, Nat.sub_diag in Cb by lia. simpl in Cb.
    exfalso; eapply Hno; eauto.
  - assert (a = length rs) by lia; subst a. rewrite app_nth1 in Cb by auto. rewrite app_nth2, Nat.sub_diag in Ca by lia. simpl in Ca.
    exfalso; eapply Hno; eauto.
  - lia.
Qed.

(* Ranges::add: full specification under the invariant, and preservation of the invariant *)
Theorem ranges_add_spec rs q : Inv rs -> rwf q ->
  match ranges_add rs q with
  | (rs', ROk i) => Inv rs' /\ i < length rs' /\ nth i rs' (0,0) = q /\
                    ((rs' = rs /\ In q rs) \/ (rs' = rs ++ [q] /\ forall r, In r rs -> ~ overlap r q))
  | (rs', ROverlap) => rs' = rs /\ exists r, In r rs /\ r <> q /\ overlap r q
  | _ => False
  end.
Proof.
  intros [Hw Hd] Hq. unfold ranges_add, find_range.
  pose proof (find_range_from_spec rs q 0) as H. destruct (find_range_from rs q 0) eqn:E; auto.
  - destruct H as [j [-> [Hj [Hn _]]]]. simpl. repeat split; auto. left; split; auto. rewrite <- Hn; apply nth_In; auto.
  - destruct H as [j [Hj [Hi Hn]]]. split; auto. exists (nth j rs (0,0)). split; [apply nth_In; auto|split; auto].
    apply rintersect_iff_overlap; auto. rewrite Forall_forall in Hw; apply Hw, nth_In; auto.
  - repeat split.
    + apply Forall_app; split; auto.
    + apply disjoint_app; auto.
    + rewrite app_length; simpl; lia.
    + rewrite app_nth2, Nat.sub_diag by lia; auto.
    + right; split; auto. intros r Hr Ho. apply In_nth with (d := (0,0)) in Hr. destruct Hr as [j [Hj <-]].
      specialize (H j Hj). assert (rintersect (nth j rs (0,0)) q = true); [|congruence].
      apply rintersect_iff_overlap; auto. rewrite Forall_forall in Hw; apply Hw, nth_In; auto.
Qed.

Lemma ranges_add_inv rs q : Inv rs -> rwf q -> Inv (fst (ranges_add rs q)).
Proof.
  intros HI Hq. pose proof (ranges_add_spec rs q HI Hq) as H.
  destruct (ranges_add rs q) as [rs' [i| | |]]; simpl; try tauto. destruct H as [-> _]; auto.
Qed.

(* every Ranges object built from empty by add() of well-formed ranges is pairwise disjoint *)
Theorem ranges_reachable_inv qs : Forall rwf qs -> Inv (fold_left (fun rs q => fst (ranges_add rs q)) qs []).
Proof.
  assert (G : forall qs rs, Inv rs -> Forall rwf qs -> Inv (fold_left (fun rs q => fst (ranges_add rs q)) qs rs)).
  { induction qs0 as [|q qs0 IH]; intros rs HI Hq; simpl; auto. inversion Hq; subst. apply IH; auto. apply ranges_add_inv; auto. }
  intros H. apply G; auto. split; [constructor|]. intros a b ind Ha; simpl in Ha; lia.
Qed.

(* find_index(size_t): the unique block that contains the index, or NonExistingBlock *)
Lemma find_index_from_spec rs ind k :
  match find_index_from rs ind k with
  | ROk i => exists j, i = k + j /\ j < length rs /\ rcontains (nth j rs (0,0)) ind = true
  | RNoBlock => forall j, j < length rs -> rcontains (nth j rs (0,0)) ind = false
  | _ => False
  end.
Proof.
  revert k; induction rs as [|r rs IH]; intros k; simpl.
  - intros j Hj; lia.
  - destruct (rcontains r ind) eqn:E.
    + exists 0; repeat split; auto; lia.
    + specialize (IH (S k)). destruct (find_index_from rs ind (S k)); auto.
      * destruct IH as [j [H1 [H2 H3]]]. exists (S j); repeat split; auto; lia.
      * intros [|j] Hj; auto. apply IH; lia.
Qed.
Theorem find_index_unique rs ind i : Inv rs ->
  (find_index rs ind = ROk i <-> (i < length rs /\ rcontains (nth i rs (0,0)) ind = true)).
Proof.
  intros [Hw Hd]. unfold find_index. pose proof (find_index_from_spec rs ind 0) as H.
  destruct (find_index_from rs ind 0) eqn:E.
  - destruct H as [j [-> [Hj Hc]]]; simpl. split.
    + intros Heq; inversion Heq; subst; auto.
    + intros [Hi Hc']. f_equal. eapply Hd; eauto.
  - tauto.
  - tauto.
  - split; [discriminate|]. intros [Hi Hc]. rewrite H in Hc; auto; discriminate.
Qed.
Theorem find_index_none rs ind : find_index rs ind = RNoBlock <-> (forall j, j < length rs -> rcontains (nth j rs (0,0)) ind = false).
Proof.
  unfold find_index. pose proof (find_index_from_spec rs ind 0) as H.
  destruct (find_index_from rs ind 0) eqn:E; try tauto.
  - destruct H as [j [-> [Hj Hc]]]. split; [discriminate|]. intros Hn. rewrite Hn in Hc; auto; discriminate.
Qed.

(* BlockMatrix: one block per global entry, local coordinates inside the block, injective *)
Theorem blk_addr_spec rows cols i j bi bj ii jj : Inv rows -> Inv cols ->
  blk_addr rows cols i j = Some (bi, bj, ii, jj) ->
  bi < length rows /\ bj < length cols /\
  rcontains (nth bi rows (0,0)) i = true /\ rcontains (nth bj cols (0,0)) j = true /\
  ii < rlen (nth bi rows (0,0)) /\ jj < rlen (nth bj cols (0,0)) /\
  i = fst (nth bi rows (0,0)) + ii /\ j = fst (nth bj cols (0,0)) + jj.
Proof.
  intros Hr Hc. unfold blk_addr.
  destruct (find_index rows i) eqn:E1; try discriminate. destruct (find_index cols j) eqn:E2; try discriminate.
  intros H; inversion H; subst; clear H.
  apply find_index_unique in E1; auto. apply find_index_unique in E2; auto.
  destruct E1 as [L1 C1], E2 as [L2 C2]. pose proof C1 as C1'; pose proof C2 as C2'.
  rewrite rcontains_iff in C1', C2'. unfold rlen. repeat split; auto; lia.
Qed.
Theorem blk_addr_injective rows cols i j i' j' a : Inv rows -> Inv cols ->
  blk_addr rows cols i j = Some a -> blk_addr rows cols i' j' = Some a -> i = i' /\ j = j'.
Proof.
  intros Hr Hc H1 H2. destruct a as [[[bi bj] ii] jj].
  apply blk_addr_spec in H1; auto. apply blk_addr_spec in H2; auto. lia.
Qed.
Theorem blk_addr_total rows cols i j : Inv rows -> Inv cols ->
  (blk_addr rows cols i j = None <->
   ((forall k, k < length rows -> rcontains (nth k rows (0,0)) i = false) \/ (forall k, k < length cols -> rcontains (nth k cols (0,0)) j = false))).
Proof.
  intros Hr Hc. unfold blk_addr.
  pose proof (find_index_from_spec rows i 0) as H1. pose proof (find_index_from_spec cols j 0) as H2. unfold find_index.
  destruct (find_index_from rows i 0) eqn:E1; try tauto; destruct (find_index_from cols j 0) eqn:E2; try tauto.
  - split; [discriminate|]. destruct H1 as [a [_ [La Ca]]], H2 as [b [_ [Lb Cb]]].
    intros [H|H]; [rewrite H in Ca|rewrite H in Cb]; auto; discriminate.
Qed.

(* SymmetricBlockMatrix *)
Theorem sblk_addr_symmetric rs i j : sblk_addr rs i j = sblk_addr rs j i.
Proof.
  destruct (Nat.eq_dec i j) as [->|Hne]; [reflexivity|].
  unfold sblk_addr. destruct (find_index rs i), (find_index rs j); auto.
  destruct (Nat.ltb_spec j i), (Nat.ltb_spec i j); auto; lia.
Qed.
Theorem sblk_addr_spec rs i j bi bj ii jj : Inv rs -> i <= j ->
  sblk_addr rs i j = Some (bi, bj, ii, jj) ->
  bi < length rs /\ bj < length rs /\
  rcontains (nth bi rs (0,0)) i = true /\ rcontains (nth bj rs (0,0)) j = true /\
  ii < rlen (nth bi rs (0,0)) /\ jj < rlen (nth bj rs (0,0)) /\
  i = fst (nth bi rs (0,0)) + ii /\ j = fst (nth bj rs (0,0)) + jj /\
  (* the block is stored in the orientation add_block created it with *)
  fst (nth bi rs (0,0)) <= fst (nth bj rs (0,0)).
Proof.
  intros HI Hij. unfold sblk_addr.
  destruct (find_index rs i) eqn:E1; try discriminate. destruct (find_index rs j) eqn:E2; try discriminate.
  replace (j <? i) with false by (symmetry; apply Nat.ltb_ge; lia).
  intros H; inversion H; subst; clear H.
  apply find_index_unique in E1; auto. apply find_index_unique in E2; auto.
  destruct E1 as [L1 C1], E2 as [L2 C2]. pose proof C1 as C1'; pose proof C2 as C2'.
  rewrite rcontains_iff in C1', C2'. unfold rlen. repeat split; auto; try lia.
  destruct (Nat.eq_dec bi bj) as [->|Hne]; auto.
  destruct (Nat.le_gt_cases (fst (nth bi rs (0,0))) (fst (nth bj rs (0,0)))) as [Hle|Hgt]; auto.
  exfalso. destruct HI as [Hw Hd]. rewrite Forall_forall in Hw.
  assert (Wi : rwf (nth bi rs (0,0))) by (apply Hw, nth_In; auto). unfold rwf in Wi.
  apply Hne. apply (Hd bi bj (fst (nth bi rs (0,0)))); auto; apply rcontains_iff; lia.
Qed.
Theorem sblk_addr_injective rs i j i' j' a : Inv rs -> i <= j -> i' <= j' ->
  sblk_addr rs i j = Some a -> sblk_addr rs i' j' = Some a -> i = i' /\ j = j'.
Proof.
  intros HI H1 H2 A1 A2. destruct a as [[[bi bj] ii] jj].
  apply sblk_addr_spec in A1; auto. apply sblk_addr_spec in A2; auto. lia.
Qed.

(* create_block_index / add_block refuse a range overlapping a different existing one *)
Theorem sblk_add_block_rejects_overlap rs ir jr : Inv rs -> rwf ir -> rwf jr ->
  (exists r, In r rs /\ r <> ir /\ overlap r ir) -> sblk_add_block rs ir jr = BErr rs ROverlap.
Proof.
  intros HI Hi Hj [r [Hin [Hne Ho]]]. unfold sblk_add_block, create_block_index.
  pose proof (ranges_add_spec rs ir HI Hi) as H. unfold ranges_add in H.
  destruct (find_range rs ir) eqn:E; auto; exfalso.
  - destruct H as [_ [Hl [Hn [[_ Hq]|[Habs _]]]]].
    + destruct HI as [Hw Hd]. apply In_nth with (d := (0,0)) in Hin. destruct Hin as [a [La Ha]].
      destruct Ho as [ind [C1 C2]]. subst r. rewrite <- Hn in C2. assert (a = i) by (eapply Hd; eauto). subst a. congruence.
    + apply (f_equal (@length _)) in Habs. rewrite app_length in Habs; simpl in Habs; lia.
  - destruct H as [_ [_ [_ [[Habs _]|[_ Hno]]]]].
    + apply (f_equal (@length _)) in Habs. rewrite app_length in Habs; simpl in Habs; lia.
    + eapply Hno; eauto.
  - auto.
Qed.
Ltac fin := repeat (match goal with |- Inv _ /\ _ => split; [assumption|] | |- _ /\ _ => split end); auto; try lia.
Theorem sblk_add_block_inv rs ir jr rs' bi bj nr nc : Inv rs -> rwf ir -> rwf jr ->
  sblk_add_block rs ir jr = BOk rs' bi bj nr nc ->
  Inv rs' /\ bi < length rs' /\ bj < length rs' /\
  fst (nth bi rs' (0,0)) <= fst (nth bj rs' (0,0)) /\ nr = rlen (nth bi rs' (0,0)) /\ nc = rlen (nth bj rs' (0,0)).
Proof.
  intros HI Hi Hj. unfold sblk_add_block, create_block_index.
  pose proof (ranges_add_spec rs ir HI Hi) as H1. unfold ranges_add in H1.
  destruct (find_range rs ir) eqn:E1; try discriminate.
  - destruct H1 as [HI1 [L1 [N1 _]]].
    pose proof (ranges_add_spec rs jr HI1 Hj) as H2. unfold ranges_add in H2.
    destruct (find_range rs jr) eqn:E2; try discriminate.
    + destruct H2 as [HI2 [L2 [N2 _]]]. destruct (Nat.ltb_spec (fst jr) (fst ir)); intros HH; inversion HH; subst; clear HH;
        rewrite ?N1, ?N2; fin.
    + destruct H2 as [HI2 [L2 [N2 _]]]. assert (N1' : nth i (rs ++ [jr]) (0,0) = ir) by (rewrite app_nth1; auto).
      assert (L1' : i < length (rs ++ [jr])) by (rewrite app_length; simpl; lia).
      destruct (Nat.ltb_spec (fst jr) (fst ir)); intros HH; inversion HH; subst; clear HH;
        rewrite ?N1', ?N2; fin.
  - destruct H1 as [HI1 [L1 [N1 _]]].
    pose proof (ranges_add_spec (rs ++ [ir]) jr HI1 Hj) as H2. unfold ranges_add in H2.
    destruct (find_range (rs ++ [ir]) jr) eqn:E2; try discriminate.
    + destruct H2 as [HI2 [L2 [N2 _]]]. destruct (Nat.ltb_spec (fst jr) (fst ir)); intros HH; inversion HH; subst; clear HH;
        rewrite ?N1, ?N2; fin.
    + destruct H2 as [HI2 [L2 [N2 _]]].
      assert (N1' : nth (length rs) ((rs ++ [ir]) ++ [jr]) (0,0) = ir) by (rewrite app_nth1; auto).
      assert (L1' : length rs < length ((rs ++ [ir]) ++ [jr])) by (rewrite !app_length; simpl; lia).
      destruct (Nat.ltb_spec (fst jr) (fst ir)); intros HH; inversion HH; subst; clear HH;
        rewrite ?N1', ?N2; fin.
Qed.
