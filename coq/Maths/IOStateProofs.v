(* C17 — proofs about the maths IO state machine (IOState.v). *)
From OM Require Import Base.Lists Maths.IOState.
Local Open Scope Z_scope.

(* ---------- the tag string no longer depends on the previous buffer once terminated at gcount ---------- *)
Lemma cstr_firstn_app0 : forall h m r, cstr (firstn m (h ++ 0 :: r)) = cstr (firstn m h).
Proof.
  induction h as [|x t IH]; intros [|m] r; simpl; auto.
  destruct (x =? 0); auto. f_equal; apply IH.
Qed.

Lemma firstn_len_firstn_app : forall (h : list Z) m r, firstn (length h) (firstn m (h ++ r)) = firstn m h.
Proof.
  induction h as [|x t IH]; intros m r.
  - simpl. destruct m; reflexivity.
  - destruct m; simpl; [reflexivity | f_equal; apply IH].
Qed.

(* the string handed to identify no longer depends on the previous content of the static buffer *)
Lemma tagstr_repaired : forall t t' h,
  tag_string repaired (read_tag repaired t h) h = tag_string repaired (read_tag repaired t' h) h.
Proof. intros; unfold tag_string, read_tag; cbn [whole_tag tag_at_gcount repaired]. rewrite !firstn_len_firstn_app; reflexivity. Qed.

(* it is the tag of C07's front-end model (Maths/IOFront.v): the first min(32,size) bytes of the file *)
Lemma tagstr_is_IOFront_tag : forall t bytes,
  tag_string repaired (read_tag repaired t (firstn 32 bytes)) (firstn 32 bytes) = fst (Maths.IOFront.read_tag bytes).
Proof.
  intros t bytes. unfold tag_string, read_tag, Maths.IOFront.read_tag; cbn [whole_tag tag_at_gcount repaired fst].
  rewrite firstn_len_firstn_app. rewrite firstn_firstn, Nat.min_id.
  unfold Maths.IOFront.TAGSIZE.
  destruct (Z.min_spec 32 (Z.of_nat (length bytes))) as [[Hlt ->]|[Hge ->]].
  - reflexivity.
  - rewrite Nat2Z.id. rewrite firstn_all. apply firstn_all2. lia.
Qed.

Local Arguments read_tag : simpl never.
Local Arguments cstr : simpl never.
Local Arguments tag_string : simpl never.
Local Arguments identify : simpl never.
Local Arguments head_of : simpl never.
Local Arguments rd_of : simpl never.
Local Arguments wr_of : simpl never.
Local Arguments inf_of : simpl never.
Local Arguments known : simpl never.

(* ---------- equivalence of process states up to the tag buffer ---------- *)
Definition norm (p : pst) : pst := {| cur := cur p; perm := perm p; tag := repeat 0 32 |}.
Definition eqv (s s' : state) : Prop := norm (fst s) = norm (fst s') /\ snd s = snd s'.
Definition respects {R} (f : state -> state * R) : Prop :=
  forall s s', eqv s s' -> eqv (fst (f s)) (fst (f s')) /\ snd (f s) = snd (f s').

Lemma eqv_refl s : eqv s s. Proof. split; auto. Qed.

Lemma eqv_inv : forall p fs p' fs', eqv (p, fs) (p', fs') -> cur p = cur p' /\ perm p = perm p' /\ fs = fs'.
Proof. intros [c b t] fs [c' b' t'] fs' [H1 H2]; unfold norm in H1; simpl in *. inversion H1; auto. Qed.

Ltac eqv_start :=
  let s := fresh "s" in let s' := fresh "s'" in let H := fresh "H" in
  intros s s' H; destruct s as [[cu pe t] fs]; destruct s' as [[cu' pe' t'] fs'];
  apply eqv_inv in H; simpl in H; destruct H as (? & ? & ?); subst cu' pe' fs'.

Lemma op_read_respects : forall W k n, respects (op_read repaired W k n).
Proof.
  intros W k n. eqv_start. unfold op_read, get_current; simpl.
  destruct pe; simpl; (destruct (nth n fs ENoDir) as [| |ct]; simpl; [split; auto; split; auto | split; auto; split; auto | ]);
    rewrite (tagstr_repaired t t');
    (destruct cu as [g|]; [destruct (identify _ g _) | destruct (find _ (w_ios W))]); simpl; split; auto; split; auto.
Qed.

Lemma op_write_respects : forall W k n, respects (op_write repaired W k n).
Proof.
  intros W k n. eqv_start. unfold op_write, get_current; simpl.
  destruct (nth n fs ENoDir) as [| |ct]; destruct pe; simpl;
    try (split; auto; split; auto; fail);
    (destruct cu as [g|]; [destruct (known g k) | destruct (find _ (w_ios W))]); simpl;
    try (destruct (wr_of W _ k)); simpl; split; auto; split; auto.
Qed.

Lemma op_info_respects : forall W n, respects (op_info repaired W n).
Proof.
  intros W n. eqv_start. unfold op_info; simpl.
  destruct (nth n fs ENoDir) as [| |ct]; simpl; [split; auto; split; auto | split; auto; split; auto | ].
  rewrite (tagstr_repaired t t').
  destruct cu as [g|]; [destruct (identify _ g _) | destruct (find _ (w_ios W))]; simpl; split; auto; split; auto.
Qed.

Lemma set_from_suffix_respects : forall W n, respects (set_from_suffix W n).
Proof.
  intros W n. eqv_start. unfold set_from_suffix; simpl.
  destruct (format_from_suffix W (sfx_of W n)); simpl; split; auto; split; auto.
Qed.

Lemma set_from_name_respects : forall W id, respects (set_from_name W id).
Proof.
  intros W id. eqv_start. unfold set_from_name; simpl.
  destruct (format_named W id); simpl; split; auto; split; auto.
Qed.

Lemma with_retry_respects : forall manip io, respects manip -> respects io -> respects (with_retry manip io).
Proof.
  intros manip io Hm Hi s s' H. unfold with_retry.
  destruct (Hm s s' H) as [Hs Hr].
  destruct (manip s) as [s1 e1], (manip s') as [s1' e1']; simpl in *. subst e1'.
  assert (Hio : eqv (fst (match e1 with None => io s1 | Some e => (s1, (e, [])) end))
                    (fst (match e1 with None => io s1' | Some e => (s1', (e, [])) end))
                /\ snd (match e1 with None => io s1 | Some e => (s1, (e, ([]:list fmt))) end)
                   = snd (match e1 with None => io s1' | Some e => (s1', (e, [])) end)).
  { destruct e1; simpl; auto. }
  destruct (match e1 with None => io s1 | Some e => (s1, (e, [])) end) as [s2 r2].
  destruct (match e1 with None => io s1' | Some e => (s1', (e, [])) end) as [s2' r2'].
  simpl in Hio. destruct Hio as [Hs2 Hr2]. subst r2'.
  destruct (is_maths (fst r2)); simpl; auto.
  destruct (Hi s2 s2' Hs2) as [Hs3 Hr3].
  destruct (io s2) as [s3 r3], (io s2') as [s3' r3']; simpl in *. subst r3'. auto.
Qed.

Lemma no_retry_respects : forall manip io, respects manip -> respects io -> respects (no_retry manip io).
Proof.
  intros manip io Hm Hi s s' H. unfold no_retry.
  destruct (Hm s s' H) as [Hs Hr].
  destruct (manip s) as [s1 e1], (manip s') as [s1' e1']; simpl in *. subst e1'.
  destruct e1; simpl; auto.
Qed.

Lemma step_respects : forall W o, respects (step repaired W o).
Proof.
  intros W [k n|k n|id k n|id k n|k n|n]; simpl.
  - apply with_retry_respects; [apply set_from_suffix_respects | apply op_read_respects].
  - apply with_retry_respects; [apply set_from_suffix_respects | apply op_write_respects].
  - apply no_retry_respects; [apply set_from_name_respects | apply op_read_respects].
  - apply no_retry_respects; [apply set_from_name_respects | apply op_write_respects].
  - apply no_retry_respects; [apply set_from_suffix_respects | apply op_write_respects].
  - apply op_info_respects.
Qed.

(* ---------- invariant: between operations the current format is unset ---------- *)
Definition clean (p : pst) : Prop := cur p = None /\ perm p = false.
(* every io operation consumes a non-permanent format (repaired variant) *)
Definition consumes (io : state -> state * result) : Prop :=
  forall s, perm (fst s) = false -> clean (fst (fst (io s))).

Lemma op_read_consumes : forall W k n, consumes (op_read repaired W k n).
Proof.
  intros W k n [[cu pe t] fs] Hp; simpl in Hp; subst pe. unfold op_read, get_current; simpl.
  destruct (nth n fs ENoDir) as [| |ct]; simpl; try (split; reflexivity).
  destruct cu as [g|]; [destruct (identify _ g _) | destruct (find _ (w_ios W))]; simpl; split; reflexivity.
Qed.

Lemma op_write_consumes : forall W k n, consumes (op_write repaired W k n).
Proof.
  intros W k n [[cu pe t] fs] Hp; simpl in Hp; subst pe. unfold op_write, get_current; simpl.
  destruct (nth n fs ENoDir) as [| |ct]; simpl; try (split; reflexivity);
    (destruct cu as [g|]; [destruct (known g k) | destruct (find _ (w_ios W))]); simpl;
    try (destruct (wr_of W _ k)); simpl; split; reflexivity.
Qed.

Lemma set_from_suffix_perm : forall W n s, perm (fst s) = false -> perm (fst (fst (set_from_suffix W n s))) = false
   /\ (snd (set_from_suffix W n s) <> None -> fst (set_from_suffix W n s) = s).
Proof.
  intros W n [p fs] H. unfold set_from_suffix. destruct (format_from_suffix W (sfx_of W n)); simpl; split; auto; congruence.
Qed.
Lemma set_from_name_perm : forall W id s, perm (fst s) = false -> perm (fst (fst (set_from_name W id s))) = false
   /\ (snd (set_from_name W id s) <> None -> fst (set_from_name W id s) = s).
Proof.
  intros W id [p fs] H. unfold set_from_name. destruct (format_named W id); simpl; split; auto; congruence.
Qed.

Lemma clean_perm p : clean p -> perm p = false. Proof. intros [_ H]; exact H. Qed.

Lemma with_retry_clean : forall manip io s,
  (forall s, perm (fst s) = false -> perm (fst (fst (manip s))) = false /\ (snd (manip s) <> None -> fst (manip s) = s)) ->
  consumes io -> clean (fst s) -> clean (fst (fst (with_retry manip io s))).
Proof.
  intros manip io s Hm Hc Hs. unfold with_retry.
  destruct (Hm s (clean_perm _ Hs)) as [Hp Hid].
  destruct (manip s) as [s1 e1]; simpl in *.
  assert (H1 : clean (fst (fst (match e1 with None => io s1 | Some e => (s1, (e, ([]:list fmt))) end)))).
  { destruct e1; simpl.
    - rewrite Hid by congruence. exact Hs.
    - apply Hc; exact Hp. }
  destruct (match e1 with None => io s1 | Some e => (s1, (e, [])) end) as [s2 r2]; simpl in *.
  destruct (is_maths (fst r2)); simpl; auto.
  specialize (Hc s2 (clean_perm _ H1)). destruct (io s2) as [s3 r3]; simpl in *; auto.
Qed.

Lemma no_retry_clean : forall manip io s,
  (forall s, perm (fst s) = false -> perm (fst (fst (manip s))) = false /\ (snd (manip s) <> None -> fst (manip s) = s)) ->
  consumes io -> clean (fst s) -> clean (fst (fst (no_retry manip io s))).
Proof.
  intros manip io s Hm Hc Hs. unfold no_retry.
  destruct (Hm s (clean_perm _ Hs)) as [Hp Hid].
  destruct (manip s) as [s1 e1]; simpl in *.
  destruct e1; simpl.
  - rewrite Hid by congruence. exact Hs.
  - apply Hc; exact Hp.
Qed.

Lemma op_info_clean : forall W n s, clean (fst s) -> clean (fst (fst (op_info repaired W n s))).
Proof.
  intros W n [[cu pe t] fs] [Hc Hp]; simpl in *; subst. unfold op_info; simpl.
  destruct (nth n fs ENoDir) as [| |ct]; simpl; try (split; reflexivity).
  destruct (find _ (w_ios W)); simpl; split; reflexivity.
Qed.

Lemma step_clean : forall W o s, clean (fst s) -> clean (fst (fst (step repaired W o s))).
Proof.
  intros W [k n|k n|id k n|id k n|k n|n] s H; simpl.
  - apply with_retry_clean; auto using set_from_suffix_perm, op_read_consumes.
  - apply with_retry_clean; auto using set_from_suffix_perm, op_write_consumes.
  - apply no_retry_clean; auto using set_from_name_perm, op_read_consumes.
  - apply no_retry_clean; auto using set_from_name_perm, op_write_consumes.
  - apply no_retry_clean; auto using set_from_suffix_perm, op_write_consumes.
  - apply op_info_clean; auto.
Qed.

Lemma run_clean : forall W h s, clean (fst s) -> clean (fst (run repaired W h s)).
Proof. induction h as [|o h IH]; intros s H; simpl; auto. apply IH, step_clean, H. Qed.

Lemma clean_norm : forall p, clean p -> norm p = pst0.
Proof. intros [c b t] [H1 H2]; simpl in *; subst; reflexivity. Qed.

(* ---------- history independence (repaired code) ---------- *)
(* outcome + selected codecs of the last operation, and the file system it leaves, are those of a fresh process
   started on the file system left by the history *)
Lemma io_history_independent_lemma : forall W h o fs0,
  snd (inproc_after repaired W h o fs0) = snd (fresh_after repaired W h o fs0)
  /\ snd (fst (inproc_after repaired W h o fs0)) = snd (fst (fresh_after repaired W h o fs0)).
Proof.
  intros W h o fs0. unfold inproc_after, fresh_after.
  assert (Hc : clean (fst (run repaired W h (pst0, fs0)))) by (apply run_clean; split; reflexivity).
  assert (He : eqv (run repaired W h (pst0, fs0)) (pst0, snd (run repaired W h (pst0, fs0)))).
  { split; simpl; auto. rewrite (clean_norm _ Hc). reflexivity. }
  destruct (step_respects W o _ _ He) as [[_ Hfs] Hr]. split; auto.
Qed.

(* whole traces: a history run in one process = each operation run in its own fresh process *)
Fixpoint trace_fresh (c : cfg) (W : world) (h : list op) (fs : fsys) : list result :=
  match h with [] => [] | o :: h' => let '(s', r) := step c W o (pst0, fs) in r :: trace_fresh c W h' (snd s') end.

Lemma trace_eqv : forall W h s s', eqv s s' -> trace repaired W h s = trace repaired W h s'.
Proof.
  induction h as [|o h IH]; intros s s' H; simpl; auto.
  destruct (step_respects W o s s' H) as [Hs Hr].
  destruct (step repaired W o s) as [s1 r1], (step repaired W o s') as [s1' r1']; simpl in *. subst. f_equal. apply IH; auto.
Qed.

Lemma trace_fresh_eq : forall W h p fs, clean p -> trace repaired W h (p, fs) = trace_fresh repaired W h fs.
Proof.
  induction h as [|o h IH]; intros p fs Hc; simpl; auto.
  assert (He : eqv (p, fs) (pst0, fs)) by (split; simpl; auto; rewrite (clean_norm _ Hc); reflexivity).
  destruct (step_respects W o _ _ He) as [[Hn Hfs] Hr].
  pose proof (step_clean W o (p, fs) Hc) as Hc1.
  destruct (step repaired W o (p, fs)) as [[p1 fs1] r1], (step repaired W o (pst0, fs)) as [[p1' fs1'] r1']; simpl in *. subst.
  f_equal. apply IH; auto.
Qed.

(* a successful or failed earlier save/load does not influence a save followed by a load *)
Lemma save_then_load_lemma : forall W h k1 n1 k2 n2 fs0,
  trace repaired W [Save k1 n1; Load k2 n2] (run repaired W h (pst0, fs0))
  = trace repaired W [Save k1 n1; Load k2 n2] (pst0, snd (run repaired W h (pst0, fs0))).
Proof.
  intros. apply trace_eqv. split; simpl; auto.
  rewrite (clean_norm _ (run_clean W h (pst0, fs0) (conj eq_refl eq_refl))). reflexivity.
Qed.

(* ---------- the pinned tree: shortest distinguishing histories ---------- *)
(* world used by the refutations: ios order as measured (matlab ascii tex binary); names 0:"x.txt" 1:"v.xyz" 2:"m.tex" 3:"a.xyz";
   contents 0: empty file, 1: a MATLAB file (what Vector::save("v.xyz") writes), 2: a tex file, 3: the 3 bytes "asc";
   reader outcomes: 1001 = success for (content 1, matlab, vector) and (content 2, tex, matrix), success 1002 for
   (content 3, tex, matrix) [stale dimensions], BadStorageType 139 otherwise *)
Definition Wref : world :=
  {| w_ios := [Matlab; Ascii; Tex; Bin];
     w_sfx := [STxt; SUnknown; STex; SUnknown];
     w_head := [[]; [77;65;84;76;65;66;32;53;46;48;32;77;65;84;45;102;105;108;101;44;32;80;108;97;116;102;111;114;109;58;32;120];
                [97;115;99;105;105;10;70;76;79;65;84;10;50;10;48;10;51;10;32;49;32;50;32;51;10;49;10;51;10;32;49;49]; [97;115;99]];
     w_rd := map (fun i => if (i =? (1*4+0)*4+0) || (i =? (2*4+2)*4+1) then 1001 else if i =? (3*4+2)*4+1 then 1002 else 139)
                 (map Z.of_nat (seq 0 64));
     w_wr := repeat (0, 1%nat) 16;
     w_empty := 0%nat; w_inf := [] |}.
Definition fsref : fsys := [EAbsent; EFile 1; EFile 2; EFile 3].

(* defect 8: a failed open leaves the current format set *)
Lemma io_pinned_refuted_lemma :
  snd (inproc_after pinned Wref [Load KMat 0%nat] (Load KVec 1%nat) fsref)
  <> snd (fresh_after pinned Wref [Load KMat 0%nat] (Load KVec 1%nat) fsref).
Proof. vm_compute. congruence. Qed.

(* the static tag buffer: a 3-byte file "asc" is identified as a tex file after a tex file was read *)
Lemma readtag_pinned_refuted_lemma :
  snd (inproc_after pinned Wref [Load KMat 2%nat] (Load KMat 3%nat) fsref)
  <> snd (fresh_after pinned Wref [Load KMat 2%nat] (Load KMat 3%nat) fsref).
Proof. vm_compute. congruence. Qed.

(* each repair alone removes its own witness, and only its own *)
Lemma io_fix_open_only :
  let c := {| consume_before_open := true; tag_at_gcount := false; whole_tag := false |} in
  snd (inproc_after c Wref [Load KMat 0%nat] (Load KVec 1%nat) fsref) = snd (fresh_after c Wref [Load KMat 0%nat] (Load KVec 1%nat) fsref)
  /\ snd (inproc_after c Wref [Load KMat 2%nat] (Load KMat 3%nat) fsref) <> snd (fresh_after c Wref [Load KMat 2%nat] (Load KMat 3%nat) fsref).
Proof. vm_compute. split; congruence. Qed.

(* under the pinned code history independence still holds for histories without failed opens and short files:
   partial statement = invariant "cur = None" is preserved by operations on openable names *)
Definition openable (fs : fsys) (o : op) : bool :=
  match o with
  | Load _ n | ReadAs _ _ n | Info n => match nth n fs ENoDir with EFile _ => true | _ => false end
  | Save _ n | WriteAs _ _ n | WriteSfx _ n => match nth n fs ENoDir with ENoDir => false | _ => true end
  end.
