(* C18: the state an object is left in by load(), including a load that fails and is reported.
   An object = dimensions + allocated storage (cells).  Invariant: storage = f(kind, nlin, ncol).  The readers of
   OpenMEEGMaths IO read a header, compare the kind/dimension of the file with the target, only then assign the dimensions,
   allocate (alloc_data / reference_data) and read the values; load() tries the format selected by the suffix and, when that
   throws, every registered format in turn. *)
From OM Require Import Base.Lists Maths.Dense Maths.DenseModel Maths.DenseProofs.
Local Open Scope nat_scope.

Inductive okind := KVec | KMat | KSym.
Definition okind_eqb (a b : okind) : bool := match a, b with KVec, KVec | KMat, KMat | KSym, KSym => true | _, _ => false end.
Definition cells (k : okind) (nl nc : nat) : nat := match k with KVec => nl | KMat => nl * nc | KSym => nl * (nl + 1) / 2 end.
Record ostate := { s_nl : nat; s_nc : nat; s_store : nat }.
Definition inv (k : okind) (o : ostate) : Prop := s_store o = cells k (s_nl o) (s_nc o).

Inductive header := HBad | HOk (fk : okind) (nl nc : nat).
(* one reader attempt: (reported success?, state afterwards).  data_ok = the values could be read completely. *)
Definition read_attempt (k : okind) (o : ostate) (h : header) (data_ok : bool) : bool * ostate :=
  match h with
  | HBad => (false, o)
  | HOk fk nl nc => if okind_eqb k fk then (data_ok, {| s_nl := nl; s_nc := nc; s_store := cells k nl nc |}) else (false, o)
  end.
(* a reader that assigns the dimensions BEFORE the kind checks (not the code's order) *)
Definition read_attempt_reordered (k : okind) (o : ostate) (h : header) (data_ok : bool) : bool * ostate :=
  match h with
  | HBad => (false, o)
  | HOk fk nl nc => if okind_eqb k fk then (data_ok, {| s_nl := nl; s_nc := nc; s_store := cells k nl nc |})
                    else (false, {| s_nl := nl; s_nc := nc; s_store := s_store o |})
  end.
(* load(): the attempts in order until one succeeds; None = open failure (nothing touched) *)
Fixpoint load_attempts (k : okind) (o : ostate) (l : list (header * bool)) : bool * ostate :=
  match l with
  | [] => (false, o)
  | (h, d) :: t => let '(ok, o') := read_attempt k o h d in if ok then (true, o') else load_attempts k o' t
  end.
Definition load (k : okind) (o : ostate) (opens : bool) (l : list (header * bool)) : bool * ostate :=
  if opens then load_attempts k o l else (false, o).

Lemma read_attempt_inv k o h d : inv k o -> inv k (snd (read_attempt k o h d)).
Proof. intros H. unfold read_attempt. destruct h as [|fk nl nc]; auto. destruct (okind_eqb k fk); auto. reflexivity. Qed.

Lemma load_preserves_invariant k o opens l : inv k o -> inv k (snd (load k o opens l)).
Proof.
  unfold load. destruct opens; auto. revert o. induction l as [|[h d] t IH]; intros o H; simpl; auto.
  pose proof (read_attempt_inv k o h d H) as H'. destruct (read_attempt k o h d) as [ok o']. simpl in H'.
  destruct ok; auto.
Qed.

Lemma failed_open_leaves_state k o l : load k o false l = (false, o).
Proof. reflexivity. Qed.

Lemma wrong_kind_leaves_state k o fk nl nc d : okind_eqb k fk = false -> read_attempt k o (HOk fk nl nc) d = (false, o).
Proof. intros H. unfold read_attempt. rewrite H. reflexivity. Qed.

(* under the invariant the guards of the element accessors keep every access inside the storage *)
Lemma invariant_makes_guards_sufficient k o i j : inv k o -> (i < s_nl o)%nat -> (j < s_nc o)%nat \/ k <> KMat ->
  match k with
  | KVec => (i < s_store o)%nat
  | KMat => (i + s_nl o * j < s_store o)%nat
  | KSym => (j < s_nl o)%nat -> (pidx i j < s_store o)%nat
  end.
Proof.
  unfold inv. intros H Hi Hj. rewrite H. destruct k; simpl.
  - exact Hi.
  - destruct Hj as [Hj|Hj]; [apply cm_lt; auto|congruence].
  - intros Hj'. apply pidx_lt; auto.
Qed.

(* assigning the dimensions before the checks breaks it: a 3-vector that failed to load a 7x1 matrix file claims 7 cells *)
Lemma reordered_reader_breaks_invariant : exists k o h d, inv k o /\ fst (read_attempt_reordered k o h d) = false /\
  ~ inv k (snd (read_attempt_reordered k o h d)) /\ (s_store (snd (read_attempt_reordered k o h d)) < s_nl (snd (read_attempt_reordered k o h d)))%nat.
Proof.
  exists KVec, {| s_nl := 3; s_nc := 1; s_store := 3 |}, (HOk KMat 7 1), true. unfold inv; simpl. repeat split; try lia.
Qed.
