(* C07/C19 -- model of the front end OpenMEEGMaths/src/MathsIO.C + the load() methods of
   Vector/Matrix/SymMatrix/SparseMatrix: suffix -> format, ReadTag with an explicit stream state,
   identify, and the second attempt by auto-detection when the first one raises a maths::Exception.
   Model only: no proofs in this file. *)
From OM Require Import Base.Lists Maths.BinCodec Maths.AsciiCodec.
Local Open Scope Z_scope.

Inductive fmt := FBin | FTxt | FTex | FMat.

(* suffix class of the file name: 0 "bin", 1 "txt", 2 "tex", 3 "mat", 4 another suffix, 5 no '.' at all *)
Definition fmt_of_suffix (s : Z) : res fmt :=
  if s =? 0 then Ok FBin else if s =? 1 then Ok FTxt else if s =? 2 then Ok FTex else if s =? 3 then Ok FMat
  else if s =? 4 then Err ESuffix else Err ENoSuffix.

(* the suffix of a file NAME: what follows the last '.' of the whole path (name.find_last_of(".")) *)
Fixpoint after_last_dot (p : list Z) : option (list Z) :=
  match p with
  | [] => None
  | c :: t => match after_last_dot t with Some s => Some s | None => if c =? 46 then Some t else None end
  end.
Fixpoint bytes_eqb (a b : list Z) : bool :=
  match a, b with [], [] => true | x :: a', y :: b' => (x =? y) && bytes_eqb a' b' | _, _ => false end.
Definition suffix_class (ext : list Z) : Z :=
  if bytes_eqb ext [98; 105; 110] then 0 else if bytes_eqb ext [116; 120; 116] then 1
  else if bytes_eqb ext [116; 101; 120] then 2 else if bytes_eqb ext [109; 97; 116] then 3 else 4.
Definition suffix_of_path (p : list Z) : Z := match after_last_dot p with Some ext => suffix_class ext | None => 5 end.
Definition fmt_of_path (p : list Z) : res fmt := fmt_of_suffix (suffix_of_path p).

(* a file: its bytes, and the token view of the same bytes (lexing assumed, see AsciiCodec.v);
   f_ascii: "the tag starts with a proper float value" (AsciiIO::identify, lexing again) *)
Record file := { f_bytes : list Z; f_lines : list line; f_ascii : bool }.

(* ---- the std::ifstream as far as ReadTag and the binary reader depend on it ---- *)
Record stream := { s_pos : Z; s_fail : bool }.

Definition TAGSIZE : Z := 32.
Fixpoint until_nul (bs : list Z) : list Z :=
  match bs with [] => [] | b :: t => if b =? 0 then [] else b :: until_nul t end.

(* is.read(buffer,32); n = gcount; short read => eof|fail, cleared (repaired); n putbacks; buffer[n]=0 *)
Definition read_tag (bs : list Z) : list Z * stream :=
  let n := Z.min TAGSIZE (Z.of_nat (length bs)) in
  let after_read := {| s_pos := n; s_fail := n <? TAGSIZE |} in
  let after_clear := {| s_pos := s_pos after_read; s_fail := false |} in
  let after_putback := if s_fail after_clear then after_clear
                       else {| s_pos := s_pos after_clear - n; s_fail := false |} in
  (firstn (Z.to_nat n) bs, after_putback).      (* repaired: the whole tag, null characters included *)

Fixpoint starts_with (p bs : list Z) : bool :=
  match p, bs with
  | [], _ => true
  | a :: p', b :: t => (a =? b) && starts_with p' t
  | _ :: _, [] => false
  end.
Definition MAGIC_MAT : list Z := [77; 65; 84; 76; 65; 66].   (* "MATLAB" *)
Definition MAGIC_TEX : list Z := [97; 115; 99; 105; 105].    (* "ascii" *)

Definition is_text (b : Z) : bool := ((32 <=? b) && (b <=? 126)) || ((9 <=? b) && (b <=? 13)).
Definition identify (f : fmt) (tag : list Z) (fl : file) : bool :=
  match f with
  | FBin => true
  | FTxt => forallb is_text tag && f_ascii fl      (* repaired: every byte of the tag printable or white space *)
  | FTex => starts_with MAGIC_TEX tag
  | FMat => starts_with MAGIC_MAT tag
  end.

(* the binary reader starts where the stream stands; on a failed stream every read fails *)
Definition bin_read (k : kind) (st : stream) (bs : list Z) : res obj :=
  if s_fail st then Err EHeader else decode_as k (skipn (Z.to_nat (s_pos st)) bs).

(* tex and MATLAB readers are not part of this model (tex: see TexCodec.v; MATLAB: libmatio container assumed) *)
Definition try_io (f : fmt) (k : kind) (fl : file) (st : stream) : res obj :=
  match f with
  | FBin => bin_read k st (f_bytes fl)
  | FTxt => txt_decode k (f_lines fl)     (* AsciiIO clears the state and seeks to 0 itself *)
  | FTex => Err EUnmodelled
  | FMat => Err EUnmodelled
  end.

Definition first_attempt (sfx : Z) (k : kind) (fl : file) : res obj :=
  match fmt_of_suffix sfx with
  | Err e => Err e
  | Ok f =>
      let '(tag, st) := read_tag (f_bytes fl) in
      if identify f tag fl then try_io f k fl st else Err ENoIO
  end.

Fixpoint auto_attempt (order : list fmt) (k : kind) (fl : file) : res obj :=
  match order with
  | [] => Err ENoIO
  | f :: t =>
      let '(tag, st) := read_tag (f_bytes fl) in
      if identify f tag fl then try_io f k fl st else auto_attempt t k fl
  end.

(* load(): catch (maths::Exception&) { ifs >> *this; } -- om_assert failures and bad_alloc are not maths exceptions *)
Definition caught (e : err) : bool :=
  match e with EAssert | EBadAlloc | EUnmodelled => false | _ => true end.

Definition load (order : list fmt) (sfx : Z) (k : kind) (fl : file) : res obj :=
  match first_attempt sfx k fl with
  | Ok o => Ok o
  | Err e => if caught e then auto_attempt order k fl else Err e
  end.

(* save(): format from the suffix, else the first registered format that knows the object (not modelled:
   only suffixes bin/txt are written through this model) *)
