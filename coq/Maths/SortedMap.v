(* Facts about the ordered association list that models std::map<(size_t,size_t),double> (map_set of BinCodec.v):
   insertion keeps it strictly sorted, lookup after insertion, lookup in a map built by successive insertions, and
   two strictly sorted lists with the same lookups are equal. *)
From OM Require Import Base.Lists Maths.BinCodec Maths.BinCodecProofs.
Require Import ZifyBool.
Local Open Scope Z_scope.

Notation kv := (Z * Z * Z)%type.

Lemma key_eqb_eq a b : key_eqb a b = true <-> a = b.
Proof. unfold key_eqb. destruct a, b; cbn [fst snd]. split; [intros H; f_equal; lia|intros H; inversion H; subst; lia]. Qed.
Lemma key_eqb_refl a : key_eqb a a = true.
Proof. apply key_eqb_eq. reflexivity. Qed.
Lemma key_eqb_sym a b : key_eqb a b = key_eqb b a.
Proof. unfold key_eqb. destruct a, b; cbn [fst snd]. lia. Qed.
Lemma key_total a b : key_eqb a b = false -> key_ltb a b = false -> key_ltb b a = true.
Proof. unfold key_eqb, key_ltb. destruct a, b; cbn [fst snd]. lia. Qed.
Lemma key_lt_neq a b : key_ltb a b = true -> key_eqb a b = false.
Proof. unfold key_eqb, key_ltb. destruct a, b; cbn [fst snd]. lia. Qed.
Lemma key_lt_neq' a b : key_ltb a b = true -> key_eqb b a = false.
Proof. unfold key_eqb, key_ltb. destruct a, b; cbn [fst snd]. lia. Qed.

Fixpoint find (k : Z * Z) (es : list kv) : option Z :=
  match es with [] => None | (k', v) :: t => if key_eqb k k' then Some v else find k t end.

Lemma sorted_cons k v t : sorted_keys t -> Forall (fun e : kv => key_ltb k (fst e) = true) t -> sorted_keys ((k, v) :: t).
Proof.
  intros Hs Hf. cbn [sorted_keys]. split; [|exact Hs]. destruct t as [|[k' v'] t']; [trivial|].
  inversion Hf; subst. assumption.
Qed.

Lemma map_set_lb es k v k0 :
  Forall (fun e : kv => key_ltb k0 (fst e) = true) es -> key_ltb k0 k = true ->
  Forall (fun e : kv => key_ltb k0 (fst e) = true) (map_set es k v).
Proof.
  induction es as [|[k' v'] t IH]; intros Hf Hk; cbn [map_set].
  - constructor; [exact Hk|constructor].
  - inversion Hf; subst. destruct (key_eqb k k'); [constructor; assumption|].
    destruct (key_ltb k k'); [constructor; [exact Hk|exact Hf]|]. constructor; [assumption|apply IH; assumption].
Qed.

Lemma map_set_sorted es k v : sorted_keys es -> sorted_keys (map_set es k v).
Proof.
  induction es as [|[k' v'] t IH]; intros Hs; cbn [map_set].
  - cbn. auto.
  - destruct (key_eqb k k') eqn:E.
    + apply key_eqb_eq in E. subst k'. apply sorted_cons; [eapply sorted_tail; eauto|]. apply (sorted_head_lt _ _ Hs).
    + destruct (key_ltb k k') eqn:L.
      * apply sorted_cons; [exact Hs|]. constructor; [exact L|].
        eapply Forall_impl; [|apply (sorted_head_lt _ _ Hs)]. intros a Ha. cbn [fst] in *. eapply key_ltb_trans; eauto.
      * apply sorted_cons; [apply IH; eapply sorted_tail; eauto|].
        apply map_set_lb; [apply (sorted_head_lt _ _ Hs)|]. cbn [fst]. apply key_total; assumption.
Qed.

Lemma find_map_set es k v k' : find k' (map_set es k v) = if key_eqb k' k then Some v else find k' es.
Proof.
  induction es as [|[k1 v1] t IH]; cbn [map_set find]; [reflexivity|].
  destruct (key_eqb k k1) eqn:E.
  - apply key_eqb_eq in E. subst k1. cbn [find]. destruct (key_eqb k' k); reflexivity.
  - destruct (key_ltb k k1); cbn [find].
    + destruct (key_eqb k' k); reflexivity.
    + rewrite IH. destruct (key_eqb k' k1) eqn:E1; [|reflexivity].
      apply key_eqb_eq in E1. subst k1. rewrite key_eqb_sym, E. reflexivity.
Qed.

(* a map built by successive insertions, the key of each entry passing through g *)
Definition build (g : Z * Z -> Z * Z) (l acc : list kv) : list kv :=
  fold_left (fun a e => map_set a (g (fst e)) (snd e)) l acc.

Lemma build_sorted g l : forall acc, sorted_keys acc -> sorted_keys (build g l acc).
Proof. induction l as [|e t IH]; intros acc H; [exact H|]. apply IH. apply map_set_sorted. exact H. Qed.

Lemma find_build g l k : forall acc,
  find k (build g l acc) = fold_left (fun r e => if key_eqb k (g (fst e)) then Some (snd e) else r) l (find k acc).
Proof. induction l as [|e t IH]; intros acc; [reflexivity|]. cbn [build fold_left]. fold (build g t (map_set acc (g (fst e)) (snd e))). rewrite IH, find_map_set. reflexivity. Qed.

Lemma find_none_lb k es : Forall (fun e : kv => key_ltb k (fst e) = true) es -> find k es = None.
Proof.
  induction 1 as [|[k' v] t H Ht IH]; [reflexivity|]. cbn [find fst] in *. rewrite (key_lt_neq _ _ H). exact IH.
Qed.

(* in a strictly sorted list the last match of a scan is the first one *)
Lemma scan_sorted k es : sorted_keys es -> forall r0,
  fold_left (fun r (e : kv) => if key_eqb k (fst e) then Some (snd e) else r) es r0 =
  match find k es with Some v => Some v | None => r0 end.
Proof.
  induction es as [|[k1 v1] t IH]; intros Hs r0; [reflexivity|].
  cbn [fold_left find fst snd]. rewrite IH by (eapply sorted_tail; eauto).
  destruct (key_eqb k k1) eqn:E; [|reflexivity].
  apply key_eqb_eq in E. subst k1. rewrite find_none_lb; [reflexivity|apply (sorted_head_lt _ _ Hs)].
Qed.

Lemma sorted_find_ext a : forall b, sorted_keys a -> sorted_keys b -> (forall k, find k a = find k b) -> a = b.
Proof.
  induction a as [|[ka va] ta IH]; intros [|[kb vb] tb] Ha Hb H; try reflexivity.
  - specialize (H kb). cbn [find] in H. rewrite key_eqb_refl in H. discriminate.
  - specialize (H ka). cbn [find] in H. rewrite key_eqb_refl in H. discriminate.
  - assert (La := sorted_head_lt _ _ Ha). assert (Lb := sorted_head_lt _ _ Hb). cbn [fst] in La, Lb.
    assert (K : ka = kb).
    { destruct (key_eqb ka kb) eqn:E; [apply key_eqb_eq; exact E|exfalso].
      assert (H1 := H ka). assert (H2 := H kb). cbn [find] in H1, H2.
      rewrite key_eqb_refl, E in H1. rewrite key_eqb_refl, (key_eqb_sym kb ka), E in H2.
      destruct (key_ltb ka kb) eqn:L.
      - rewrite find_none_lb in H1; [discriminate|]. eapply Forall_impl; [|exact Lb]. intros e He. eapply key_ltb_trans; eauto.
      - assert (L' := key_total _ _ E L). symmetry in H2. rewrite find_none_lb in H2; [discriminate|].
        eapply Forall_impl; [|exact La]. intros e He. eapply key_ltb_trans; eauto. }
    subst kb. assert (V := H ka). cbn [find] in V. rewrite key_eqb_refl in V. inversion V; subst vb. f_equal.
    apply IH; [eapply sorted_tail; eauto|eapply sorted_tail; eauto|].
    intros k. specialize (H k). cbn [find] in H. destruct (key_eqb k ka) eqn:E; [|exact H].
    apply key_eqb_eq in E. subst k. rewrite !find_none_lb; auto.
Qed.

(* building from a strictly sorted list through an involution g, then back, gives the list again *)
Lemma build_build g es : (forall k, g (g k) = k) -> sorted_keys es -> build g (build g es []) [] = es.
Proof.
  intros Hg Hs. apply sorted_find_ext; [apply build_sorted; exact I|exact Hs|]. intros k.
  assert (Sc : sorted_keys (build g es [])) by (apply build_sorted; exact I).
  assert (Eq : forall (l : list kv) r0 k0,
     fold_left (fun r (e : kv) => if key_eqb k0 (g (fst e)) then Some (snd e) else r) l r0 =
     fold_left (fun r (e : kv) => if key_eqb (g k0) (fst e) then Some (snd e) else r) l r0).
  { induction l as [|e t IH]; intros r0 k0; [reflexivity|]. cbn [fold_left]. rewrite IH. f_equal.
    replace (key_eqb k0 (g (fst e))) with (key_eqb (g k0) (fst e)); [reflexivity|].
    destruct (key_eqb (g k0) (fst e)) eqn:E.
    - apply key_eqb_eq in E. rewrite <- E, Hg. symmetry. apply key_eqb_refl.
    - destruct (key_eqb k0 (g (fst e))) eqn:E2; [|reflexivity]. apply key_eqb_eq in E2. subst k0. rewrite Hg, key_eqb_refl in E. discriminate. }
  rewrite find_build, Eq, scan_sorted by exact Sc. cbn [find].
  rewrite find_build, Eq, scan_sorted by exact Hs. cbn [find]. rewrite Hg.
  destruct (find k es); reflexivity.
Qed.
