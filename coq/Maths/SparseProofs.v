(* Proofs about the sparse-matrix model: every operation agrees with the dense
   matrix that has the same entries (the view [sdn]). *)
From OM Require Import Base.Lists Maths.Dense Maths.SparseModel.
Local Open Scope Z_scope.

(* ---------- keys ---------- *)
Lemma keqb_eq a b : keqb a b = true <-> a = b.
Proof.
  destruct a as [a1 a2], b as [b1 b2]; unfold keqb; simpl.
  rewrite andb_true_iff, !Nat.eqb_eq. split; [intros [-> ->]; auto | intros H; inversion H; auto].
Qed.
Lemma keqb_refl a : keqb a a = true. Proof. apply keqb_eq; auto. Qed.
Lemma keqb_neq a b : keqb a b = false <-> a <> b.
Proof. rewrite <- keqb_eq. destruct (keqb a b); split; congruence. Qed.
Lemma keqb_sym a b : keqb a b = keqb b a.
Proof. destruct (keqb a b) eqn:E.
  - apply keqb_eq in E; subst; symmetry; apply keqb_refl.
  - symmetry; apply keqb_neq; apply keqb_neq in E; congruence. Qed.
Lemma klt_spec a b : klt a b = true <-> (fst a < fst b \/ (fst a = fst b /\ snd a < snd b))%nat.
Proof. unfold klt. rewrite orb_true_iff, andb_true_iff, !Nat.ltb_lt, Nat.eqb_eq. tauto. Qed.
Lemma klt_irrefl a : klt a a = false.
Proof. destruct (klt a a) eqn:E; auto. apply klt_spec in E; lia. Qed.
Lemma klt_trans a b c : klt a b = true -> klt b c = true -> klt a c = true.
Proof. rewrite !klt_spec; lia. Qed.
Lemma klt_total a b : klt a b = false -> keqb a b = false -> klt b a = true.
Proof.
  intros H1 H2. apply klt_spec. apply keqb_neq in H2.
  destruct (klt a b) eqn:E; [discriminate|].
  assert (~ (fst a < fst b \/ fst a = fst b /\ snd a < snd b))%nat by (rewrite <- klt_spec; congruence).
  destruct a, b; simpl in *. assert (~ (n = n1 /\ n0 = n2)) by (intros [-> ->]; auto). lia.
Qed.

(* ---------- the ordered map ---------- *)
Lemma tfind_treplace k k' v t :
  tfind k (treplace k' v t) = if keqb k k' then (match tfind k' t with Some _ => Some v | None => None end) else tfind k t.
Proof.
  induction t as [|[k0 v0] t IH]; simpl.
  - destruct (keqb k k'); auto.
  - destruct (keqb k' k0) eqn:E0; simpl.
    + apply keqb_eq in E0; subst k0. destruct (keqb k k'); auto.
    + rewrite IH. destruct (keqb k k') eqn:E; auto.
      apply keqb_eq in E; subst k'. rewrite E0; auto.
Qed.

Lemma tfind_tinsert k k' v t : tfind k' t = None ->
  tfind k (tinsert k' v t) = if keqb k k' then Some v else tfind k t.
Proof.
  induction t as [|[k0 v0] t IH]; simpl; intros Hn.
  - destruct (keqb k k'); auto.
  - destruct (keqb k' k0) eqn:E0; [discriminate|].
    destruct (klt k' k0); simpl.
    + destruct (keqb k k'); auto.
    + rewrite IH by auto. destruct (keqb k k') eqn:E; auto.
      apply keqb_eq in E; subst k'. rewrite E0; auto.
Qed.

Theorem tget_tupsert k k' f t :
  tget k (tupsert k' f t) = if keqb k k' then f (tget k' t) else tget k t.
Proof.
  unfold tget, tupsert. destruct (tfind k' t) eqn:E.
  - rewrite tfind_treplace, E. destruct (keqb k k'); auto.
  - rewrite tfind_tinsert by auto. destruct (keqb k k'); auto.
Qed.

(* sortedness *)
Definition lb (k : key) (t : tank) : Prop := Forall (fun e => klt k (fst e) = true) t.
Lemma tsorted_inv e t : tsorted (e :: t) -> tsorted t /\ lb (fst e) t.
Proof.
  revert e; induction t as [|e2 t IH]; intros e H.
  - split; constructor.
  - inversion H; subst. destruct (IH _ H4) as [Hs Hl]. split; auto.
    constructor; auto. eapply Forall_impl; [|exact Hl]. simpl; intros a Ha. eapply klt_trans; eauto.
Qed.
Lemma tsorted_cons e t : tsorted t -> lb (fst e) t -> tsorted (e :: t).
Proof. destruct t as [|e2 t]; intros Hs Hl; constructor; auto. inversion Hl; auto. Qed.
Lemma lb_tfind k t : lb k t -> tfind k t = None.
Proof.
  induction t as [|[k0 v0] t IH]; simpl; intros H; auto. inversion H; subst; simpl in *.
  destruct (keqb k k0) eqn:E; auto. apply keqb_eq in E; subst. rewrite klt_irrefl in H2; discriminate.
Qed.
Lemma lb_treplace k k' v t : lb k t -> lb k (treplace k' v t).
Proof.
  unfold lb; induction t as [|[k0 v0] t IH]; simpl; intros H; auto. inversion H; subst.
  destruct (keqb k' k0); constructor; auto.
Qed.
Lemma lb_tinsert k k' v t : lb k t -> klt k k' = true -> lb k (tinsert k' v t).
Proof.
  unfold lb; induction t as [|[k0 v0] t IH]; simpl; intros H Hk.
  - constructor; auto.
  - inversion H; subst. destruct (klt k' k0); constructor; auto.
Qed.
Lemma treplace_sorted k v t : tsorted t -> tsorted (treplace k v t).
Proof.
  induction t as [|[k0 v0] t IH]; simpl; intros H; auto.
  apply tsorted_inv in H; destruct H as [Hs Hl]; simpl in Hl.
  destruct (keqb k k0); apply tsorted_cons; auto. simpl; apply lb_treplace; auto.
Qed.
Lemma tinsert_sorted k v t : tsorted t -> tfind k t = None -> tsorted (tinsert k v t).
Proof.
  induction t as [|[k0 v0] t IH]; simpl; intros H Hn; [constructor|].
  destruct (keqb k k0) eqn:E0; [discriminate|].
  destruct (klt k k0) eqn:E1.
  - constructor; auto.
  - apply tsorted_inv in H; destruct H as [Hs Hl]; simpl in Hl.
    apply tsorted_cons; auto. simpl. apply lb_tinsert; auto. apply klt_total; auto.
Qed.
Theorem tupsert_sorted k f t : tsorted t -> tsorted (tupsert k f t).
Proof. unfold tupsert; intros H. destruct (tfind k t) eqn:E; [apply treplace_sorted | apply tinsert_sorted]; auto. Qed.

Lemma tbounded_treplace nl nc k v t : tbounded nl nc t -> tbounded nl nc (treplace k v t).
Proof.
  unfold tbounded; induction t as [|[k0 v0] t IH]; simpl; intros H; auto. inversion H; subst.
  destruct (keqb k k0); constructor; auto.
Qed.
Lemma tbounded_tinsert nl nc k v t : (fst k < nl)%nat -> (snd k < nc)%nat -> tbounded nl nc t -> tbounded nl nc (tinsert k v t).
Proof.
  unfold tbounded; induction t as [|[k0 v0] t IH]; simpl; intros H1 H2 H.
  - constructor; auto.
  - inversion H; subst. destruct (klt k k0); constructor; auto.
Qed.
Theorem tupsert_bounded nl nc k f t : (fst k < nl)%nat -> (snd k < nc)%nat -> tbounded nl nc t -> tbounded nl nc (tupsert k f t).
Proof. unfold tupsert; intros. destruct (tfind k t); [apply tbounded_treplace | apply tbounded_tinsert]; auto. Qed.

(* every public mutation keeps the representation invariant *)
Theorem sp_upd_wf A i j f A' : swf_sp A -> sp_upd A i j f = Some A' -> swf_sp A'.
Proof.
  unfold sp_upd, swf_sp; intros [Hs Hb] H.
  destruct ((i <? snl A)%nat && (j <? snc A)%nat) eqn:E; [|discriminate]. inversion H; subst; simpl.
  apply andb_true_iff in E; destruct E as [E1 E2]. apply Nat.ltb_lt in E1, E2.
  split; [apply tupsert_sorted | apply tupsert_bounded]; auto.
Qed.
Theorem sp_upd_view A i j f A' : sp_upd A i j f = Some A' ->
  forall a b, sdn A' a b = if ((a =? i) && (b =? j))%nat then f (sdn A i j) else sdn A a b.
Proof.
  unfold sp_upd, sdn; intros H a b. destruct ((i <? snl A)%nat && (j <? snc A)%nat); [|discriminate].
  inversion H; subst; simpl. rewrite tget_tupsert. reflexivity.
Qed.

(* ---------- sums over the tank vs sums over the dense view ---------- *)
Definition tank_sum (t : tank) (g : nat -> nat -> Z -> Z) : Z :=
  zsum (map (fun e => g (fst (fst e)) (snd (fst e)) (snd e)) t).

Lemma sumn_pick n c (h : nat -> Z) : (c < n)%nat ->
  sumn n (fun k => if (k =? c)%nat then h k else 0) = h c.
Proof.
  intros Hc. rewrite (sumn_ext _ _ (fun k => if (k =? c)%nat then h c else 0)).
  - rewrite sumn_delta. apply Nat.ltb_lt in Hc; rewrite Hc; auto.
  - intros k _. destruct (Nat.eqb_spec k c); subst; auto.
Qed.

Lemma tank_sum_dense t nl nc g : tsorted t -> tbounded nl nc t -> (forall i j, g i j 0 = 0) ->
  tank_sum t g = sumn nl (fun i => sumn nc (fun j => g i j (tget (i, j) t))).
Proof.
  intros Hs Hb Hg. induction t as [|[[r c] v] t IH].
  - unfold tank_sum; simpl. symmetry; apply sumn_zero; intros i _. apply sumn_zero; intros j _. apply Hg.
  - apply tsorted_inv in Hs; destruct Hs as [Hs Hl]; simpl in Hl.
    inversion Hb as [|? ? [Hr Hc] Hb']; subst; simpl in Hr, Hc.
    unfold tank_sum in *; simpl. rewrite IH by auto.
    assert (Hz : tget (r, c) t = 0) by (unfold tget; rewrite lb_tfind; auto).
    transitivity (sumn nl (fun i => sumn nc (fun j => (if ((i =? r) && (j =? c))%nat then g r c v else 0) + g i j (tget (i, j) t)))).
    + symmetry. rewrite (sumn_ext nl _ (fun i => sumn nc (fun j => if ((i =? r) && (j =? c))%nat then g r c v else 0) + sumn nc (fun j => g i j (tget (i, j) t)))).
      2:{ intros i _. apply sumn_add. }
      rewrite sumn_add. f_equal.
      rewrite (sumn_ext nl _ (fun i => if (i =? r)%nat then g r c v else 0)).
      * rewrite sumn_delta. apply Nat.ltb_lt in Hr; rewrite Hr; auto.
      * intros i _. destruct (Nat.eqb_spec i r); simpl.
        -- rewrite sumn_delta. apply Nat.ltb_lt in Hc; rewrite Hc; auto.
        -- apply sumn_zero; auto.
    + apply sumn_ext; intros i _. apply sumn_ext; intros j _.
      unfold tget at 2; simpl. unfold keqb; simpl.
      destruct ((i =? r)%nat && (j =? c)%nat) eqn:E.
      * apply andb_true_iff in E; destruct E as [E1 E2]. apply Nat.eqb_eq in E1, E2; subst.
        rewrite Hz, Hg; ring.
      * fold (tget (i, j) t). ring.
Qed.

(* ---------- accumulation loops ---------- *)
Lemma accum_length work acc : length (accum work acc) = length acc.
Proof. revert acc; induction work as [|p w IH]; intros acc; simpl; auto. unfold accum in *; simpl. rewrite IH, upd_length; auto. Qed.

Lemma accum_nth work acc k : Forall (fun p => (fst p < length acc)%nat) work ->
  nth k (accum work acc) 0 = nth k acc 0 + zsum (map (fun p => if (fst p =? k)%nat then snd p else 0) work).
Proof.
  revert acc; induction work as [|[i w] work IH]; intros acc H; simpl; [ring|].
  inversion H; subst; simpl in *. unfold accum in *; simpl.
  rewrite IH by (rewrite upd_length; auto).
  rewrite nth_upd. destruct (Nat.eqb_spec i k) as [->|Hn]; simpl.
  - apply Nat.ltb_lt in H2; rewrite H2; ring.
  - ring.
Qed.

Lemma zsum_flat_map {A} (f : A -> list Z) l : zsum (flat_map f l) = zsum (map (fun a => zsum (f a)) l).
Proof. induction l; simpl; auto. rewrite zsum_app, IHl; auto. Qed.

Lemma zsum_map_seq n (f : nat -> Z) : zsum (map f (seq 0 n)) = sumn n f.
Proof.
  induction n as [|n IH]; [reflexivity|]. rewrite seq_S, map_app, zsum_app. cbn [sumn map zsum fold_right Nat.add]. rewrite IH; ring.
Qed.

(* ---------- operations vs the dense view ---------- *)
Theorem sp_get_spec A i j : sp_get A i j = if ((i <? snl A) && (j <? snc A))%nat then Some (sdn A i j) else None.
Proof. reflexivity. Qed.

Theorem sp_mulv_spec A x r : swf_sp A -> sp_mulv A x = Some r ->
  length r = snl A /\ forall i, (i < snl A)%nat -> nth i r 0 = sumn (snc A) (fun j => sdn A i j * nth j x 0).
Proof.
  unfold sp_mulv; intros [Hs Hb] H.
  destr_if_in H as E; [|discriminate]. inversion H; subst; clear H.
  apply andb_true_iff in E; destruct E as [_ E].
  split; [rewrite accum_length, repeat_length; auto|]. intros i Hi.
  rewrite accum_nth.
  2:{ rewrite Forall_forall; intros p Hp. apply in_map_iff in Hp; destruct Hp as [e [<- He]]; simpl.
      rewrite repeat_length. rewrite forallb_forall in E. specialize (E e He).
      apply andb_true_iff in E; destruct E as [_ E]; apply Nat.ltb_lt in E; auto. }
  rewrite nth_repeat, map_map; simpl.
  change (zsum (map (fun e => if (fst (fst e) =? i)%nat then snd e * nth (snd (fst e)) x 0 else 0) (stank A)))
    with (tank_sum (stank A) (fun r c v => if (r =? i)%nat then v * nth c x 0 else 0)).
  rewrite (tank_sum_dense _ (snl A) (snc A)); auto.
  2:{ intros a b; destruct (a =? i)%nat; ring. }
  rewrite (sumn_ext _ _ (fun a => if (a =? i)%nat then sumn (snc A) (fun j => tget (a, j) (stank A) * nth j x 0) else 0)).
  - rewrite sumn_pick; auto.
  - intros a _. destruct (a =? i)%nat; auto. apply sumn_zero; auto.
Qed.

Theorem sp_mulv_rejects A x : swf_sp A ->
  (sp_mulv A x = None <-> (snl A = 0%nat \/ exists e, In e (stank A) /\ (length x <= snd (fst e))%nat)).
Proof.
  unfold sp_mulv; intros [Hs Hb]. destruct (Nat.ltb_spec 0 (snl A)) as [Hn|Hn]; simpl.
  2:{ split; auto; intros _; left; lia. }
  destr_if as E.
  - split; [discriminate|]. intros [Hz|[e [He Hl]]]; [lia|]. rewrite forallb_forall in E. specialize (E e He).
    apply andb_true_iff in E; destruct E as [E _]; apply Nat.ltb_lt in E; exfalso; lia.
  - split; auto; intros _. right.
    destruct (forallb_false _ _ E) as [e [He Hf]]. exists e; split; auto.
    unfold tbounded in Hb; rewrite Forall_forall in Hb. destruct (Hb e He) as [Hr _].
    apply Nat.ltb_lt in Hr. rewrite Hr, andb_true_r in Hf. apply Nat.ltb_ge in Hf; auto.
Qed.

(* ---------- row / column sums ---------- *)
Lemma row_sum_dense A i (h : nat -> Z) : swf_sp A -> (i < snl A)%nat ->
  tank_sum (stank A) (fun r c v => if (r =? i)%nat then v * h c else 0) = sumn (snc A) (fun j => sdn A i j * h j).
Proof.
  intros [Hs Hb] Hi. rewrite (tank_sum_dense _ (snl A) (snc A)); auto.
  2:{ intros a b; destruct (a =? i)%nat; ring. }
  rewrite (sumn_ext _ _ (fun a => if (a =? i)%nat then sumn (snc A) (fun j => tget (a, j) (stank A) * h j) else 0)).
  - rewrite sumn_pick; auto.
  - intros a _. destruct (a =? i)%nat; auto. apply sumn_zero; auto.
Qed.

Lemma col_sum_dense A j (h : nat -> Z) : swf_sp A -> (j < snc A)%nat ->
  tank_sum (stank A) (fun r c v => if (c =? j)%nat then h r * v else 0) = sumn (snl A) (fun i => h i * sdn A i j).
Proof.
  intros [Hs Hb] Hj. rewrite (tank_sum_dense _ (snl A) (snc A)); auto.
  2:{ intros a b; destruct (b =? j)%nat; ring. }
  apply sumn_ext; intros a _. cbv beta.
  rewrite (sumn_pick _ j (fun b => h a * tget (a, b) (stank A))); auto.
Qed.

Lemma zsum_map_flat_map {A B} (f : B -> Z) (F : A -> list B) l :
  zsum (map f (flat_map F l)) = zsum (map (fun a => zsum (map f (F a))) l).
Proof. induction l; simpl; auto. rewrite map_app, zsum_app, IHl; auto. Qed.

Lemma zsum_map_ext {A} (f g : A -> Z) l : (forall a, In a l -> f a = g a) -> zsum (map f l) = zsum (map g l).
Proof. induction l; simpl; intros H; auto. rewrite H, IHl; auto. Qed.

Lemma Forall_flat_map {A B} (P : B -> Prop) (F : A -> list B) l :
  (forall a, In a l -> Forall P (F a)) -> Forall P (flat_map F l).
Proof. induction l; simpl; intros H; [constructor|]. apply Forall_app; split; auto. Qed.

(* sparse * (anything addressed by bget) *)
Theorem sp_mul_gen_spec A bnl bnc bget M : swf_sp A -> sp_mul_gen A bnl bnc bget = Some M ->
  snc A = bnl /\ dnl M = snl A /\ dnc M = bnc /\ dwf M /\
  forall i k, (i < snl A)%nat -> (k < bnc)%nat -> dget M i k = sumn (snc A) (fun j => sdn A i j * bget j k).
Proof.
  unfold sp_mul_gen; intros Hwf H. destr_if_in H as E; [|discriminate]. apply Nat.eqb_eq in E.
  inversion H; subst; clear H; simpl. split; [auto|split; [auto|split; [auto|split]]].
  { unfold dwf; simpl. rewrite accum_length, repeat_length; auto. }
  intros i k Hi Hk. unfold dget; simpl. destruct Hwf as [Hs Hb].
  rewrite accum_nth.
  2:{ apply Forall_flat_map; intros e He. rewrite Forall_forall; intros p Hp.
      apply in_map_iff in Hp; destruct Hp as [k' [<- Hk']]; simpl. apply in_seq in Hk'.
      rewrite repeat_length. unfold tbounded in Hb; rewrite Forall_forall in Hb. destruct (Hb e He) as [Hr _].
      unfold didx; simpl. nia. }
  replace (nth (didx _ i k) (repeat 0 (snl A * bnc)) 0) with 0.
  2:{ symmetry. destruct (nth_in_or_default (didx {| dnl := snl A; dnc := bnc; dd := repeat 0 (snl A * bnc) |} i k) (repeat 0 (snl A * bnc)) 0) as [Hin|Hd]; auto. apply repeat_spec in Hin; auto. }
  rewrite zsum_map_flat_map.
  rewrite <- (row_sum_dense A i (fun j => bget j k)) by (try split; auto). unfold tank_sum.
  rewrite Z.add_0_l. apply zsum_map_ext; intros e He.
  unfold tbounded in Hb; rewrite Forall_forall in Hb. destruct (Hb e He) as [Hr Hc].
  rewrite map_map; simpl. rewrite zsum_map_seq.
  destruct (Nat.eqb_spec (fst (fst e)) i) as [Heq|Hne].
  - rewrite (sumn_ext _ _ (fun k' => if (k' =? k)%nat then snd e * bget (snd (fst e)) k' else 0)).
    + rewrite sumn_pick; auto.
    + intros k' Hk'. unfold didx; simpl. rewrite Heq.
      destruct (Nat.eqb_spec k' k) as [->|Hn]; [rewrite Nat.eqb_refl; auto|].
      destruct (Nat.eqb_spec (i + snl A * k') (i + snl A * k)); auto. exfalso; apply Hn; nia.
  - apply sumn_zero; intros k' Hk'. unfold didx; simpl.
    destruct (Nat.eqb_spec (fst (fst e) + snl A * k') (i + snl A * k)); auto.
    exfalso; apply Hne. assert (k' = k) by nia. subst; lia.
Qed.

Theorem sp_mulm_spec A B M : swf_sp A -> sp_mulm A B = Some M ->
  snc A = dnl B /\ dnl M = snl A /\ dnc M = dnc B /\ dwf M /\
  forall i k, (i < snl A)%nat -> (k < dnc B)%nat -> dget M i k = sumn (snc A) (fun j => sdn A i j * dget B j k).
Proof. apply sp_mul_gen_spec. Qed.
Theorem sp_mulsym_spec A B M : swf_sp A -> sp_mulsym A B = Some M ->
  snc A = sn B /\ dnl M = snl A /\ dnc M = sn B /\ dwf M /\
  forall i k, (i < snl A)%nat -> (k < sn B)%nat -> dget M i k = sumn (snc A) (fun j => sdn A i j * sget B j k).
Proof. apply sp_mul_gen_spec. Qed.
Theorem sp_mul_gen_rejects A bnl bnc bget : sp_mul_gen A bnl bnc bget = None <-> snc A <> bnl.
Proof. unfold sp_mul_gen. destruct (Nat.eqb_spec (snc A) bnl); split; congruence. Qed.

(* Matrix * sparse *)
Theorem full_mul_sparse_spec M A R : swf_sp A -> full_mul_sparse M A = Some R ->
  dnc M = snl A /\ dnl R = dnl M /\ dnc R = snc A /\ dwf R /\
  forall k j, (k < dnl M)%nat -> (j < snc A)%nat -> dget R k j = sumn (snl A) (fun i => dget M k i * sdn A i j).
Proof.
  unfold full_mul_sparse; intros Hwf H. destr_if_in H as E; [|discriminate]. apply Nat.eqb_eq in E.
  inversion H; subst; clear H; simpl. split; [auto|split; [auto|split; [auto|split]]].
  { unfold dwf; simpl. rewrite accum_length, repeat_length; auto. }
  intros k j Hk Hj. unfold dget at 1; simpl. destruct Hwf as [Hs Hb].
  rewrite accum_nth.
  2:{ apply Forall_flat_map; intros e He. rewrite Forall_forall; intros p Hp.
      apply in_map_iff in Hp; destruct Hp as [k' [<- Hk']]; simpl. apply in_seq in Hk'.
      rewrite repeat_length. unfold tbounded in Hb; rewrite Forall_forall in Hb. destruct (Hb e He) as [_ Hc].
      unfold didx; simpl. nia. }
  replace (nth (didx _ k j) (repeat 0 (dnl M * snc A)) 0) with 0.
  2:{ symmetry. destruct (nth_in_or_default (didx {| dnl := dnl M; dnc := snc A; dd := repeat 0 (dnl M * snc A) |} k j) (repeat 0 (dnl M * snc A)) 0) as [Hin|Hd]; auto. apply repeat_spec in Hin; auto. }
  rewrite zsum_map_flat_map.
  rewrite <- (col_sum_dense A j (fun i => dget M k i)) by (try split; auto). unfold tank_sum.
  rewrite Z.add_0_l. apply zsum_map_ext; intros e He.
  unfold tbounded in Hb; rewrite Forall_forall in Hb. destruct (Hb e He) as [Hr Hc].
  rewrite map_map; simpl. rewrite zsum_map_seq.
  destruct (Nat.eqb_spec (snd (fst e)) j) as [Heq|Hne].
  - rewrite (sumn_ext _ _ (fun k' => if (k' =? k)%nat then dget M k' (fst (fst e)) * snd e else 0)).
    + rewrite sumn_pick; auto.
    + intros k' Hk'. unfold didx; simpl. rewrite Heq.
      destruct (Nat.eqb_spec k' k) as [->|Hn]; [rewrite Nat.eqb_refl; auto|].
      destruct (Nat.eqb_spec (k' + dnl M * j) (k + dnl M * j)); auto. exfalso; apply Hn; nia.
  - apply sumn_zero; intros k' Hk'. unfold didx; simpl.
    destruct (Nat.eqb_spec (k' + dnl M * snd (fst e)) (k + dnl M * j)); auto.
    exfalso; apply Hne. nia.
Qed.

(* ---------- folds of accumulating upserts ---------- *)
Section TFold.
  Context {W : Type} (cond : W -> bool) (kf : W -> key) (vf : W -> Z).
  Definition tstep (t : tank) (w : W) : tank := if cond w then tupsert (kf w) (fun o => o + vf w) t else t.

  Lemma tfold_view ws t0 k :
    tget k (fold_left tstep ws t0) = tget k t0 + zsum (map (fun w => if cond w && keqb k (kf w) then vf w else 0) ws).
  Proof.
    revert t0; induction ws as [|w ws IH]; intros t0; simpl; [ring|].
    rewrite IH. unfold tstep. destruct (cond w); simpl; [|ring].
    rewrite tget_tupsert. destruct (keqb k (kf w)) eqn:E; [|ring].
    apply keqb_eq in E; subst; ring.
  Qed.
  Lemma tfold_sorted ws t0 : tsorted t0 -> tsorted (fold_left tstep ws t0).
  Proof. revert t0; induction ws as [|w ws IH]; intros t0 H; simpl; auto. apply IH. unfold tstep. destruct (cond w); auto. apply tupsert_sorted; auto. Qed.
  Lemma tfold_bounded nl nc ws t0 : (forall w, In w ws -> cond w = true -> (fst (kf w) < nl)%nat /\ (snd (kf w) < nc)%nat) ->
    tbounded nl nc t0 -> tbounded nl nc (fold_left tstep ws t0).
  Proof.
    revert t0; induction ws as [|w ws IH]; intros t0 Hw H; simpl; auto. apply IH; [intros; apply Hw; simpl; auto|].
    unfold tstep. destruct (cond w) eqn:E; auto. destruct (Hw w (or_introl eq_refl) E). apply tupsert_bounded; auto.
  Qed.
End TFold.

Lemma fold_left_nested {A B C} (step : C -> A -> B -> C) (l1 : list A) (l2 : list B) c0 :
  fold_left (fun c a => fold_left (fun c b => step c a b) l2 c) l1 c0 =
  fold_left (fun c p => step c (fst p) (snd p)) (flat_map (fun a => map (fun b => (a, b)) l2) l1) c0.
Proof.
  revert c0; induction l1 as [|a l1 IH]; intros c0; simpl; auto.
  rewrite fold_left_app, <- IH. f_equal.
  clear. revert c0; induction l2 as [|b l2 IH]; intros c0; simpl; auto.
Qed.

Lemma sdn_row_sum B j c : swf_sp B -> (j < snl B)%nat -> (c < snc B)%nat ->
  zsum (map (fun e2 => if ((fst (fst e2) =? j) && (snd (fst e2) =? c))%nat then snd e2 else 0) (stank B)) = sdn B j c.
Proof.
  intros [Hs Hb] Hj Hc.
  change (tank_sum (stank B) (fun r c' v => if ((r =? j) && (c' =? c))%nat then v else 0) = sdn B j c).
  rewrite (tank_sum_dense _ (snl B) (snc B)); auto.
  2:{ intros a b; destruct ((a =? j) && (b =? c))%nat; auto. }
  rewrite (sumn_ext _ _ (fun a => if (a =? j)%nat then sumn (snc B) (fun b => if (b =? c)%nat then tget (a, b) (stank B) else 0) else 0)).
  - rewrite sumn_pick by auto. rewrite (sumn_pick _ c (fun b => tget (j, b) (stank B))); auto.
  - intros a _. destruct (a =? j)%nat; simpl; auto. apply sumn_zero; auto.
Qed.

Theorem sp_mulsp_spec A B C : swf_sp A -> swf_sp B -> sp_mulsp A B = Some C ->
  snc A = snl B /\ snl C = snl A /\ snc C = snc B /\ swf_sp C /\
  forall i c, (i < snl A)%nat -> (c < snc B)%nat -> sdn C i c = sumn (snc A) (fun j => sdn A i j * sdn B j c).
Proof.
  unfold sp_mulsp; intros HA HB H. destr_if_in H as E; [|discriminate]. apply Nat.eqb_eq in E.
  inversion H; subst; clear H; simpl.
  set (step := fun (t : tank) (e1 e2 : nat * nat * Z) =>
     if (fst (fst e2) =? snd (fst e1))%nat then tupsert (fst (fst e1), snd (fst e2)) (fun o => o + snd e1 * snd e2) t else t).
  change (fold_left _ (stank A) []) with (fold_left (fun t e1 => fold_left (fun t e2 => step t e1 e2) (stank B) t) (stank A) []).
  rewrite fold_left_nested.
  set (ws := flat_map (fun a => map (fun b => (a, b)) (stank B)) (stank A)).
  assert (Hstep : forall t p, step t (fst p) (snd p) =
            tstep (fun p : (nat*nat*Z)*(nat*nat*Z) => (fst (fst (snd p)) =? snd (fst (fst p)))%nat)
                  (fun p => (fst (fst (fst p)), snd (fst (snd p)))) (fun p => snd (fst p) * snd (snd p)) t p) by reflexivity.
  rewrite (fold_left_ext _ _ Hstep). clear Hstep.
  destruct HA as [HsA HbA]; destruct HB as [HsB HbB].
  split; [auto|split; [auto|split; [auto|split]]].
  - split; simpl; [apply tfold_sorted; constructor|]. apply tfold_bounded; [|constructor].
    intros [e1 e2] Hin _; simpl. unfold ws in Hin. apply in_flat_map in Hin. destruct Hin as [a [Ha Hin]].
    apply in_map_iff in Hin. destruct Hin as [b [Heq Hb']]. inversion Heq; subst.
    unfold tbounded in *. rewrite Forall_forall in HbA, HbB. split; [apply HbA | apply HbB]; auto.
  - intros i c Hi Hc. unfold sdn at 1; simpl. rewrite tfold_view. unfold tget at 1; simpl.
    unfold ws. rewrite zsum_map_flat_map.
    rewrite <- (row_sum_dense A i (fun j => sdn B j c)) by (try split; auto). unfold tank_sum. rewrite ?Z.add_0_l.
    apply zsum_map_ext; intros e1 He1. rewrite map_map; simpl.
    unfold tbounded in HbA; rewrite Forall_forall in HbA. destruct (HbA e1 He1) as [Hr1 Hc1].
    unfold keqb; simpl.
    destruct (Nat.eqb_spec (fst (fst e1)) i) as [Heq|Hne].
    + rewrite <- (sdn_row_sum B (snd (fst e1)) c) by (try split; auto; lia).
      rewrite <- zsum_map_scale. apply zsum_map_ext; intros e2 He2.
      rewrite (Nat.eqb_sym i), (proj2 (Nat.eqb_eq _ _) Heq). rewrite (Nat.eqb_sym c).
      destruct ((fst (fst e2) =? snd (fst e1))%nat); destruct ((snd (fst e2) =? c)%nat); simpl; ring.
    + apply zsum_map_zero. intros e2 _. rewrite (Nat.eqb_sym i). destruct (Nat.eqb_spec (fst (fst e1)) i); [contradiction|].
      simpl. rewrite andb_false_r; auto.
Qed.

(* ---------- sum ---------- *)
Lemma tadd_all_view src t k : tsorted src ->
  tget k (tadd_all src t) = tget k t + tget k src.
Proof.
  intros Hs. unfold tadd_all.
  assert (Hstep : forall t e, tupsert (fst e) (fun o => o + snd e) t = tstep (fun _ : nat*nat*Z => true) fst snd t e) by reflexivity.
  rewrite (fold_left_ext _ _ Hstep), tfold_view. f_equal. clear Hstep t. cbn [andb].
  induction src as [|[k0 v0] src IH]; simpl; auto.
  apply tsorted_inv in Hs; destruct Hs as [Hs Hl]; simpl in Hl.
  rewrite IH by auto. unfold tget at 2; simpl. destruct (keqb k k0) eqn:E.
  - apply keqb_eq in E; subst. unfold tget; rewrite lb_tfind by auto. ring.
  - fold (tget k src). ring.
Qed.
Lemma tadd_all_wf nl nc src t : tbounded nl nc src -> tsorted t -> tbounded nl nc t ->
  tsorted (tadd_all src t) /\ tbounded nl nc (tadd_all src t).
Proof.
  intros Hb Hs Hbt. unfold tadd_all.
  assert (Hstep : forall t e, tupsert (fst e) (fun o => o + snd e) t = tstep (fun _ : nat*nat*Z => true) fst snd t e) by reflexivity.
  rewrite (fold_left_ext _ _ Hstep). split; [apply tfold_sorted; auto|apply tfold_bounded; auto].
  intros w Hw _. unfold tbounded in Hb; rewrite Forall_forall in Hb; auto.
Qed.

Theorem sp_add_spec A B C : swf_sp A -> swf_sp B -> sp_add A B = Some C ->
  snl A = snl B /\ snc A = snc B /\ snl C = snl A /\ snc C = snc A /\ swf_sp C /\
  forall i j, sdn C i j = sdn A i j + sdn B i j.
Proof.
  unfold sp_add; intros [HsA HbA] [HsB HbB] H. destr_if_in H as E; [|discriminate].
  apply andb_true_iff in E; destruct E as [E1 E2]; apply Nat.eqb_eq in E1, E2.
  inversion H; subst; clear H; simpl. split; [auto|split; [auto|split; [auto|split; [auto|split]]]].
  - rewrite <- E1, <- E2 in HbB.
    assert (H0 : tsorted (tadd_all (stank A) []) /\ tbounded (snl A) (snc A) (tadd_all (stank A) []))
      by (apply tadd_all_wf; auto; constructor).
    destruct H0 as [H1 H2].
    assert (H0 : tsorted (tadd_all (stank B) (tadd_all (stank A) [])) /\ tbounded (snl A) (snc A) (tadd_all (stank B) (tadd_all (stank A) [])))
      by (apply tadd_all_wf; auto).
    exact H0.
  - intros i j. unfold sdn; simpl. rewrite !tadd_all_view by auto. unfold tget at 1; simpl; ring.
Qed.
Theorem sp_add_rejects A B : sp_add A B = None <-> (snl A <> snl B \/ snc A <> snc B).
Proof.
  unfold sp_add. destruct (Nat.eqb_spec (snl A) (snl B)); destruct (Nat.eqb_spec (snc A) (snc B)); simpl; split; try congruence; try tauto.
Qed.

(* ---------- transpose ---------- *)
Lemma ttrans_view l t0 a b : tsorted l ->
  tget (a, b) (fold_left (fun t e => tupsert (snd (fst e), fst (fst e)) (fun _ => snd e) t) l t0) =
  match tfind (b, a) l with Some v => v | None => tget (a, b) t0 end.
Proof.
  revert t0; induction l as [|[[r c] v] l IH]; intros t0 Hs; simpl; auto.
  apply tsorted_inv in Hs; destruct Hs as [Hs Hl]; simpl in Hl.
  rewrite IH by auto. rewrite tget_tupsert. unfold keqb; simpl.
  rewrite (andb_comm (a =? c)%nat).
  destruct ((b =? r)%nat && (a =? c)%nat) eqn:E; auto.
  apply andb_true_iff in E; destruct E as [E1 E2]; apply Nat.eqb_eq in E1, E2; subst.
  rewrite lb_tfind by auto. auto.
Qed.
Theorem sp_transpose_spec A : swf_sp A ->
  snl (sp_transpose A) = snc A /\ snc (sp_transpose A) = snl A /\ swf_sp (sp_transpose A) /\
  forall i j, sdn (sp_transpose A) i j = sdn A j i.
Proof.
  intros [Hs Hb]. split; [auto|split; [auto|split]].
  - unfold sp_transpose, swf_sp; simpl. unfold tbounded in Hb.
    assert (G : forall l t0, Forall (fun e => (fst (fst e) < snl A)%nat /\ (snd (fst e) < snc A)%nat) l ->
              tsorted t0 -> tbounded (snc A) (snl A) t0 ->
              tsorted (fold_left (fun t e => tupsert (snd (fst e), fst (fst e)) (fun _ => snd e) t) l t0) /\
              tbounded (snc A) (snl A) (fold_left (fun t e => tupsert (snd (fst e), fst (fst e)) (fun _ => snd e) t) l t0)).
    { induction l as [|e l IH]; intros t0 Hl Hs0 Hb0; simpl; auto. inversion Hl; subst. destruct H1.
      apply IH; auto; [apply tupsert_sorted | apply tupsert_bounded]; auto. }
    apply G; auto; constructor.
  - intros i j. unfold sdn, sp_transpose; simpl. rewrite ttrans_view by auto. unfold tget; simpl.
    destruct (tfind (j, i) (stank A)); auto.
Qed.

(* ---------- rows ---------- *)
Theorem sp_getlin_spec A i : sp_getlin A i =
  if (i <? snl A)%nat then Some (map (fun j => sdn A i j) (seq 0 (snc A))) else None.
Proof. reflexivity. Qed.
Theorem sp_getlin_nth A i r j : sp_getlin A i = Some r -> (j < snc A)%nat -> length r = snc A /\ nth j r 0 = sdn A i j.
Proof.
  unfold sp_getlin; intros H Hj. destr_if_in H as E; [|discriminate]. inversion H; subst.
  rewrite map_length, seq_length; split; auto.
  rewrite (nth_indep _ 0 ((fun j => sdn A i j) O)) by (rewrite map_length, seq_length; auto).
  rewrite map_nth, seq_nth; auto.
Qed.

Lemma tset_row_view i (v : list Z) n t a b :
  tget (a, b) (fold_left (fun t j => tupsert (i, j) (fun _ => nth j v 0) t) (seq 0 n) t) =
  if ((a =? i) && (b <? n))%nat then nth b v 0 else tget (a, b) t.
Proof.
  induction n as [|n IH].
  - simpl. rewrite andb_false_r; auto.
  - rewrite seq_S, fold_left_app; simpl. rewrite tget_tupsert, IH. unfold keqb; simpl.
    destruct (Nat.eqb_spec a i); simpl; auto.
    destruct (Nat.eqb_spec b n) as [->|Hn].
    + replace (n <? S n)%nat with true by (symmetry; apply Nat.ltb_lt; lia); auto.
    + destruct (Nat.ltb_spec b n), (Nat.ltb_spec b (S n)); auto; lia.
Qed.
Theorem sp_setlin_spec A v i A' : swf_sp A -> sp_setlin A v i = Some A' ->
  snl A' = snl A /\ snc A' = snc A /\ swf_sp A' /\
  forall a b, sdn A' a b = if ((a =? i) && (b <? length v))%nat then nth b v 0 else sdn A a b.
Proof.
  unfold sp_setlin; intros [Hs Hb] H. destr_if_in H as E; [|discriminate].
  apply andb_true_iff in E; destruct E as [E1 E2]. apply Nat.ltb_lt in E1. apply Nat.leb_le in E2.
  inversion H; subst; clear H; simpl. split; [auto|split; [auto|split]].
  - unfold swf_sp; simpl.
    assert (G : forall n t, (n <= snc A)%nat -> tsorted t -> tbounded (snl A) (snc A) t ->
               tsorted (fold_left (fun t j => tupsert (i, j) (fun _ => nth j v 0) t) (seq 0 n) t) /\
               tbounded (snl A) (snc A) (fold_left (fun t j => tupsert (i, j) (fun _ => nth j v 0) t) (seq 0 n) t)).
    { induction n as [|n IH]; intros t Hn Hst Hbt; [simpl; auto|].
      rewrite seq_S, fold_left_app; simpl. destruct (IH t) as [I1 I2]; auto; try lia.
      split; [apply tupsert_sorted | apply tupsert_bounded]; auto; simpl; lia. }
    apply G; auto.
  - intros a b. unfold sdn; simpl. apply tset_row_view.
Qed.
Theorem sp_setlin_rejects A v i : sp_setlin A v i = None <-> (snl A <= i \/ snc A < length v)%nat.
Proof.
  unfold sp_setlin. destruct (Nat.ltb_spec i (snl A)); destruct (Nat.leb_spec (length v) (snc A)); simpl; split; try congruence; try lia; intros; exfalso; lia.
Qed.

(* ---------- norm ---------- *)
Theorem sp_frob2_spec A : swf_sp A ->
  sp_frob2 A = sumn (snl A) (fun i => sumn (snc A) (fun j => sdn A i j * sdn A i j)).
Proof.
  intros [Hs Hb]. unfold sp_frob2.
  change (tank_sum (stank A) (fun _ _ v => v * v) = sumn (snl A) (fun i => sumn (snc A) (fun j => sdn A i j * sdn A i j))).
  apply tank_sum_dense; auto.
Qed.

(* ---------- conversion to dense ---------- *)
Lemma to_dense_fold nl nc l b0 i j : tsorted l -> tbounded nl nc l -> length b0 = (nl * nc)%nat -> (i < nl)%nat -> (j < nc)%nat ->
  nth (i + nl * j) (fold_left (fun b e => upd b (fst (fst e) + nl * snd (fst e))%nat (snd e)) l b0) 0 =
  match tfind (i, j) l with Some v => v | None => nth (i + nl * j) b0 0 end.
Proof.
  revert b0; induction l as [|[[r c] v] l IH]; intros b0 Hs Hb Hl Hi Hj; simpl; auto.
  apply tsorted_inv in Hs; destruct Hs as [Hs Hlb]; simpl in Hlb. inversion Hb as [|? ? [Hr Hc] Hb']; subst; simpl in *.
  rewrite IH by (auto; rewrite upd_length; auto). unfold keqb; simpl.
  destruct ((i =? r)%nat && (j =? c)%nat) eqn:E.
  - apply andb_true_iff in E; destruct E as [E1 E2]; apply Nat.eqb_eq in E1, E2; subst.
    rewrite lb_tfind by auto. apply nth_upd_same. nia.
  - destruct (tfind (i, j) l); auto. apply nth_upd_other.
    intros Heq. assert (j = c) by nia. subst. assert (i = r) by lia. subst. rewrite !Nat.eqb_refl in E; discriminate.
Qed.
Theorem sp_to_dense_spec A : swf_sp A ->
  dnl (sp_to_dense A) = snl A /\ dnc (sp_to_dense A) = snc A /\
  forall i j, (i < snl A)%nat -> (j < snc A)%nat -> dget (sp_to_dense A) i j = sdn A i j.
Proof.
  intros [Hs Hb]. split; [auto|split; [auto|]]. intros i j Hi Hj.
  unfold dget, didx, sp_to_dense; simpl. rewrite (to_dense_fold (snl A) (snc A)); auto.
  - unfold sdn, tget. destruct (tfind (i, j) (stank A)); auto. rewrite nth_repeat; auto.
  - apply repeat_length.
Qed.
