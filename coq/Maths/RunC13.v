(* EXTRACT-Z: c13 run_c13 *)
(* Executable entry point for the C13 correspondence (and the accessor half of C18). *)
From OM Require Import Base.Lists Base.Wire Maths.Dense Maths.DenseModel Maths.Alias.
Local Open Scope Z_scope.

Definition getDense : dec dense :=
  do nl <- getN; do nc <- getN; do vs <- getZs (nl * nc); ret {| dnl := nl; dnc := nc; dd := vs |}.
Definition getSym : dec sym :=
  do n <- getN; do vs <- getZs (n * (n + 1) / 2); ret {| sn := n; sd := vs |}.
Definition outVec (v : list Z) : wire := ST_OK :: zn (length v) :: v.
Definition outDense (M : dense) : wire := ST_OK :: zn (dnl M) :: zn (dnc M) :: dd M.
Definition outSym (S : sym) : wire := ST_OK :: zn (sn S) :: sd S.
Definition outZ (x : Z) : wire := [ST_OK; x].
Definition ST_UNDEF : Z := 4.      (* out-of-bounds access / uninitialised result *)
Definition outOpt {A} (o : res A) (k : A -> wire) : wire := match o with Ok a => k a | Throw => [ST_ASSERT] | Undef => [ST_UNDEF] end.

Definition d1 {A} (a : dec A) (k : A -> wire) (w : wire) : wire := run_dec a w k.
Definition d2 {A B} (a : dec A) (b : dec B) (k : A -> B -> wire) (w : wire) : wire :=
  run_dec (do x <- a; do y <- b; ret (x, y)) w (fun '(x, y) => k x y).
Definition d3 {A B C} (a : dec A) (b : dec B) (c : dec C) (k : A -> B -> C -> wire) (w : wire) : wire :=
  run_dec (do x <- a; do y <- b; do z <- c; ret (x, y, z)) w (fun '(x, y, z) => k x y z).
Definition d4 {A B C D} (a : dec A) (b : dec B) (c : dec C) (d : dec D) (k : A -> B -> C -> D -> wire) (w : wire) : wire :=
  run_dec (do x <- a; do y <- b; do z <- c; do t <- d; ret (x, y, z, t)) w (fun '(x, y, z, t) => k x y z t).
Definition d5 {A B C D E} (a : dec A) (b : dec B) (c : dec C) (d : dec D) (e : dec E) (k : A -> B -> C -> D -> E -> wire) (w : wire) : wire :=
  run_dec (do x <- a; do y <- b; do z <- c; do t <- d; do u <- e; ret (x, y, z, t, u)) w (fun '(x, y, z, t, u) => k x y z t u).

Definition run_c13 (w : wire) : wire :=
  match w with
  | 1 :: w => d3 getDense getZ getZ (fun M i j => outOpt (m_get M i j) outZ) w
  | 2 :: w => d4 getDense getZ getZ getZ (fun M i j v => outOpt (m_put M i j v) outDense) w
  | 3 :: w => d5 getDense getZ getZ getZ getZ (fun M a b c d => outOpt (m_submat M a b c d) outDense) w
  | 4 :: w => d4 getDense getZ getZ getDense (fun M a b B => outOpt (m_insertmat M a b B) outDense) w
  | 5 :: w => d2 getDense getZ (fun M j => outOpt (m_getcol M j) outVec) w
  | 6 :: w => d3 getDense getZ getVec (fun M j v => outOpt (m_setcol M j v) outDense) w
  | 7 :: w => d2 getDense getZ (fun M i => outOpt (m_getlin M i) outVec) w
  | 8 :: w => d3 getDense getZ getVec (fun M i v => outOpt (m_setlin M i v) outDense) w
  | 9 :: w => d2 getDense getDense (fun A B => outOpt (m_mult A B) outDense) w
  | 10 :: w => d2 getDense getSym (fun A B => outOpt (m_mult_sym A B) outDense) w
  | 11 :: w => d2 getDense getDense (fun A B => outOpt (m_addsub 1 A B) outDense) w
  | 12 :: w => d2 getDense getDense (fun A B => outOpt (m_addsub (-1) A B) outDense) w
  | 13 :: w => d2 getDense getZ (fun A x => outOpt (m_scale A x) outDense) w
  | 14 :: w => d2 getDense getDense (fun A B => outOpt (m_addsub 1 A B) outDense) w
  | 15 :: w => d2 getDense getDense (fun A B => outOpt (m_addsub (-1) A B) outDense) w
  | 16 :: w => d2 getDense getZ (fun A x => outOpt (m_scale A x) outDense) w
  | 17 :: w => d2 getDense getVec (fun A v => outOpt (m_mulv A v) outVec) w
  | 18 :: w => d2 getDense getVec (fun A v => outOpt (m_tmulv A v) outVec) w
  | 19 :: w => d2 getDense getDense (fun A B => outOpt (m_tmult A B) outDense) w
  | 20 :: w => d2 getDense getDense (fun A B => outOpt (m_multt A B) outDense) w
  | 21 :: w => d2 getDense getDense (fun A B => outOpt (m_tmultt A B) outDense) w
  | 22 :: w => d1 getDense (fun A => outDense (m_transpose A)) w
  | 23 :: w => d1 getDense (fun A => outOpt (m_frob2 A) outZ) w
  | 24 :: w => d2 getDense getDense (fun A B => outOpt (m_dot A B) outZ) w
  | 25 :: w => d2 getDense getZ (fun A x => outDense (m_set A x)) w
  | 26 :: w => d1 getSym (fun S => outDense (sym_to_dense S)) w
  | 27 :: w => d3 getVec getN getN (fun v m n => outOpt (m_of_vec v m n) outDense) w
  | 30 :: w => d2 getVec getZ (fun v i => outOpt (v_get v i) outZ) w
  | 31 :: w => d2 getVec getVec (fun u v => outOpt (v_add u v) outVec) w
  | 32 :: w => d2 getVec getVec (fun u v => outOpt (v_sub u v) outVec) w
  | 33 :: w => d1 getVec (fun u => outOpt (v_neg u) outVec) w
  | 34 :: w => d2 getVec getZ (fun u x => outOpt (v_scale u x) outVec) w
  | 35 :: w => d2 getVec getZ (fun u x => outOpt (v_addc u x) outVec) w
  | 36 :: w => d2 getVec getZ (fun u x => outOpt (v_addc u (- x)) outVec) w
  | 37 :: w => d2 getVec getVec (fun u v => outOpt (v_dot u v) outZ) w
  | 38 :: w => d2 getVec getVec (fun u v => outOpt (v_kmult u v) outVec) w
  | 39 :: w => d2 getVec getVec (fun u v => outOpt (v_outer u v) outDense) w
  | 40 :: w => d1 getVec (fun u => outOpt (v_sum u) outZ) w
  | 41 :: w => d1 getVec (fun u => outOpt (v_norm2 u) outZ) w
  | 42 :: w => d3 getVec getZ getZ (fun u a b => outOpt (v_subvect u a b) outVec) w
  | 43 :: w => d2 getVec getDense (fun v M => outOpt (v_mulm v M) outVec) w
  | 44 :: w => d2 getVec getVec (fun u v => outOpt (v_add u v) outVec) w
  | 45 :: w => d2 getVec getVec (fun u v => outOpt (v_sub u v) outVec) w
  | 46 :: w => d2 getVec getZ (fun u x => outOpt (v_scale u x) outVec) w
  | 47 :: w => d2 getVec getZ (fun u x => outOpt (v_set u x) outVec) w
  | 50 :: w => d3 getSym getZ getZ (fun S i j => outOpt (s_get S i j) outZ) w
  | 51 :: w => d4 getSym getZ getZ getZ (fun S i j v => outOpt (s_put S i j v) outSym) w
  | 52 :: w => d2 getSym getZ (fun S i => outOpt (s_getlin S i) outVec) w
  | 53 :: w => d3 getSym getZ getVec (fun S i v => outOpt (s_setlin S i v) outSym) w
  | 54 :: w => d5 getSym getZ getZ getZ getZ (fun S a b c d => outOpt (s_submat4 S a b c d) outDense) w
  | 55 :: w => d3 getSym getZ getZ (fun S a b => outOpt (s_submat2 S a b) outSym) w
  | 56 :: w => d2 getSym getSym (fun A B => outOpt (s_addsub 1 A B) outSym) w
  | 57 :: w => d2 getSym getSym (fun A B => outOpt (s_addsub (-1) A B) outSym) w
  | 58 :: w => d2 getSym getSym (fun A B => outOpt (s_mult_sym A B) outDense) w
  | 59 :: w => d2 getSym getDense (fun A B => outOpt (s_mult A B) outDense) w
  | 60 :: w => d2 getSym getVec (fun A v => outOpt (s_mulv A v) outVec) w
  | 61 :: w => d2 getSym getZ (fun A x => outOpt (s_scale A x) outSym) w
  | 62 :: w => d2 getSym getSym (fun A B => outOpt (s_addsub 1 A B) outSym) w
  | 63 :: w => d2 getSym getSym (fun A B => outOpt (s_addsub (-1) A B) outSym) w
  | 64 :: w => d2 getSym getZ (fun A x => outOpt (s_scale A x) outSym) w
  | 65 :: w => d1 getDense (fun M => outOpt (s_of_dense M) outSym) w
  | 66 :: w => d5 getSym getZ getZ getZ getZ (fun S a b c d => outOpt (s_block S a b c d) outDense) w
  | 70 :: w => d4 getVec getN getN getZ (fun data who k x => let '(a, b, c) := copy_scenario data who k x in ST_OK :: zn (length a) :: a ++ b ++ c) w
  (* pinned variants (regression witnesses of repaired defects) *)
  | 103 :: w => d5 getDense getZ getZ getZ getZ (fun M a b c d => outOpt (m_submat_pinned M a b c d) outDense) w
  | 117 :: w => d2 getDense getVec (fun A v => outOpt (m_mulv_pinned A v) outVec) w
  | 118 :: w => d2 getDense getVec (fun A v => outOpt (m_tmulv_pinned A v) outVec) w
  | 121 :: w => d2 getDense getDense (fun A B => outOpt (m_tmultt_pinned A B) outDense) w
  | 155 :: w => d3 getSym getZ getZ (fun S a b => outOpt (s_submat2_pinned S a b) outSym) w
  | _ => [-1]
  end.
