(* Storage layouts of OpenMEEGMaths: Vector, Matrix (column-major i+nlin*j),
   SymMatrix (packed upper i+j(j+1)/2, i<=j).  Values are integers: every operation
   modelled here uses + - * only, and the correspondence runs on integer-valued doubles
   (exact below 2^53). *)
From OM Require Import Base.Lists.
Local Open Scope Z_scope.

Record dense := { dnl : nat; dnc : nat; dd : list Z }.
Definition dwf (M : dense) : Prop := length (dd M) = (dnl M * dnc M)%nat.
Definition didx (M : dense) (i j : nat) : nat := (i + dnl M * j)%nat.
Definition dget (M : dense) (i j : nat) : Z := nth (didx M i j) (dd M) 0.
Definition dzero (nl nc : nat) : dense := {| dnl := nl; dnc := nc; dd := repeat 0 (nl * nc) |}.

(* packed symmetric *)
Record sym := { sn : nat; sd : list Z }.
Definition pidx (i j : nat) : nat := if (i <=? j)%nat then (i + j * (j + 1) / 2)%nat else (j + i * (i + 1) / 2)%nat.
Definition sget (S : sym) (i j : nat) : Z := nth (pidx i j) (sd S) 0.
Definition swf (S : sym) : Prop := length (sd S) = (sn S * (sn S + 1) / 2)%nat.

Lemma didx_lt M i j : (i < dnl M)%nat -> (j < dnc M)%nat -> (didx M i j < dnl M * dnc M)%nat.
Proof. unfold didx; intros Hi Hj. nia. Qed.

Lemma didx_inj M i j i' j' : (i < dnl M)%nat -> (i' < dnl M)%nat ->
  didx M i j = didx M i' j' -> i = i' /\ j = j'.
Proof. unfold didx; intros Hi Hi' H. assert (j = j') by nia. subst; split; auto; nia. Qed.

Lemma dzero_get nl nc i j : dget (dzero nl nc) i j = 0.
Proof. unfold dget, dzero; simpl. destruct (nth_in_or_default (didx {| dnl := nl; dnc := nc; dd := repeat 0 (nl * nc) |} i j) (repeat 0 (nl*nc)) 0) as [H|H]; auto. apply repeat_spec in H; auto. Qed.
