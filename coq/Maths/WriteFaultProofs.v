From OM Require Import Base.Lists Maths.WriteFault.
Local Open Scope Z_scope.

Definition total (chunks : list Z) : Z := zsum chunks.
Definition nonneg (chunks : list Z) : Prop := Forall (fun c => 0 <= c) chunks.

Lemma run_writer_failed chunks s : failed s = true -> run_writer chunks s = s.
Proof. revert s; induction chunks as [|c l IH]; intros s H; simpl; auto. replace (swrite s c) with s by (unfold swrite; rewrite H; reflexivity). apply IH; auto. Qed.

Lemma run_writer_spec chunks : nonneg chunks -> forall s, failed s = false -> 0 <= cap s ->
  let r := run_writer chunks s in
  (if total chunks <=? cap s then failed r = false /\ written r = written s + total chunks /\ cap r = cap s - total chunks
   else failed r = true /\ written r = written s + cap s).
Proof.
  induction 1 as [|c l Hc Hl IH]; intros s Hf Hcap; simpl.
  - unfold total; simpl. replace (0 <=? cap s) with true by lia. repeat split; auto; lia.
  - unfold total in *; simpl.
    assert (E : swrite s c = if c <=? cap s then {| cap := cap s - c; failed := false; written := written s + c |}
                             else {| cap := 0; failed := true; written := written s + cap s |})
      by (unfold swrite; rewrite Hf; reflexivity).
    rewrite E. clear E. destruct (Z.leb_spec c (cap s)) as [L|L].
    + specialize (IH {| cap := cap s - c; failed := false; written := written s + c |} eq_refl ltac:(simpl; lia)).
      simpl in IH. destruct (Z.leb_spec (zsum l) (cap s - c)), (Z.leb_spec (c + zsum l) (cap s)); try lia.
      * destruct IH as (A & B & C). repeat split; auto; lia.
      * destruct IH as (A & B). split; auto; lia.
    + rewrite run_writer_failed by reflexivity. simpl.
      assert (0 <= zsum l). { clear - Hl. induction Hl; simpl; lia. }
      destruct (Z.leb_spec (c + zsum l) (cap s)); try lia; split; auto.
Qed.

(* every write failure is reported, at whatever byte the device fills up *)
Lemma write_fault_reported chunks k : nonneg chunks -> 0 <= k < total chunks -> fst (save true chunks k) = Reported.
Proof.
  intros N K. unfold save. pose proof (run_writer_spec chunks N (sopen k) eq_refl ltac:(simpl; lia)) as H. simpl in H.
  destruct (Z.leb_spec (total chunks) k); [lia|]. destruct H as [-> _]. reflexivity.
Qed.
Lemma open_failure_reported chunks k : save false chunks k = (Reported, 0).
Proof. reflexivity. Qed.
Lemma no_fault_saved chunks k : nonneg chunks -> total chunks <= k -> save true chunks k = (Saved, total chunks).
Proof.
  intros N K. unfold save. pose proof (run_writer_spec chunks N (sopen k) eq_refl ltac:(simpl; pose proof N; unfold total in K; clear - K N; induction N; simpl in *; lia)) as H.
  simpl in H. destruct (Z.leb_spec (total chunks) k); [|lia]. destruct H as (-> & -> & _). reflexivity.
Qed.
Lemma file_within_capacity chunks k : nonneg chunks -> 0 <= k -> snd (save true chunks k) <= k.
Proof.
  intros N K. unfold save. pose proof (run_writer_spec chunks N (sopen k) eq_refl ltac:(simpl; lia)) as H. simpl in H.
  destruct (Z.leb_spec (total chunks) k); simpl; destruct H as (_ & -> & _) || destruct H as (_ & ->); lia.
Qed.
(* the pinned path never reports: Matrix::save onto a full device returns normally *)
Lemma write_fault_pinned_refuted : exists chunks k, nonneg chunks /\ 0 <= k < total chunks /\ fst (save_pinned true chunks k) = Saved.
Proof. exists [8; 72], 0. repeat split; try (unfold total; simpl; lia). repeat constructor; lia. Qed.
