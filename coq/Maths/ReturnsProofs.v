(* Every value-returning method of Vector / Matrix / SymMatrix (origins translated from the source, Gen/GenReturns.v)
   returns an object built by a sized constructor or a deep copy, or an expression of such methods; the only result that
   shares a buffer is the documented in-place solver SymMatrix::solveLin(Matrix&), which returns its (non-const) argument. *)
From Coq Require Import List. Import ListNotations.
From OM Require Import Gen.GenReturns.

Definition fresh_origin (o : origin) : Prop := o = Fresh \/ o = Composite.
Lemma value_methods_return_fresh : Forall (Forall fresh_origin) value_returning_methods.
Proof. unfold value_returning_methods, fresh_origin. repeat (apply Forall_cons || apply Forall_nil); cbv; repeat (apply Forall_cons || apply Forall_nil); auto. Qed.
Lemma in_place_solver_is_the_only_exception :
  length in_place_solvers = 1 /\ Forall (Forall (fun o => o = SharedWithArgument)) in_place_solvers.
Proof. split; [reflexivity|]. unfold in_place_solvers. repeat (apply Forall_cons || apply Forall_nil); cbv; repeat (apply Forall_cons || apply Forall_nil); auto. Qed.
Lemma many_methods_covered : 40 <= length value_returning_methods.
Proof. apply PeanoNat.Nat.leb_le. vm_compute. reflexivity. Qed.
