(* Wire format shared by the extracted model and the C++ harness:
   a case is a list of integers, a result is a list of integers.
   All decoding is Gallina so that the OCaml driver stays generic. *)
From OM Require Import Base.Lists.
Local Open Scope Z_scope.

Definition wire := list Z.
Definition dec (A : Type) := wire -> option (A * wire).

Definition ret {A} (a : A) : dec A := fun w => Some (a, w).
Definition bind {A B} (m : dec A) (f : A -> dec B) : dec B :=
  fun w => match m w with Some (a, w') => f a w' | None => None end.
Notation "'do' x <- m ; k" := (bind m (fun x => k)) (at level 200, x pattern, m at level 100, k at level 200).

Definition getZ : dec Z := fun w => match w with x :: w' => Some (x, w') | [] => None end.
Definition getN : dec nat := fun w => match w with x :: w' => if x <? 0 then None else Some (Z.to_nat x, w') | [] => None end.

Fixpoint getZs (n : nat) : dec (list Z) :=
  match n with
  | O => ret []
  | S n' => do x <- getZ; do xs <- getZs n'; ret (x :: xs)
  end.
Fixpoint getNs (n : nat) : dec (list nat) :=
  match n with
  | O => ret []
  | S n' => do x <- getN; do xs <- getNs n'; ret (x :: xs)
  end.
Fixpoint getMany {A} (n : nat) (d : dec A) : dec (list A) :=
  match n with
  | O => ret []
  | S n' => do x <- d; do xs <- getMany n' d; ret (x :: xs)
  end.

(* length-prefixed list *)
Definition getVec : dec (list Z) := do n <- getN; getZs n.

Definition run_dec {A} (d : dec A) (w : wire) (k : A -> wire) : wire :=
  match d w with Some (a, []) => k a | _ => [-1] end.  (* -1 : malformed case (generator bug) *)

Definition zn (n : nat) : Z := Z.of_nat n.
(* status codes *)
Definition ST_OK : Z := 0.
Definition ST_ASSERT : Z := 1.      (* std::invalid_argument from om_assert *)
Definition ST_MATHS : Z := 2.       (* maths::Exception family *)
Definition ST_OTHER : Z := 3.       (* any other exception *)
