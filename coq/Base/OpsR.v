(* The real-number instance of Ops (theorems).  Total functions of Coq's Reals:
   sqrt (0 on negatives), ln (0 on non-positives), x/0 = x * /0; comparisons through the decidability
   of the order; atan2 by the usual case split from atan (the C convention atan2(y,x), range (-PI,PI]). *)
From Coq Require Import Reals ZArith.
From OM Require Import Base.Ops.
Local Open Scope R_scope.

Definition Rltb (x y : R) : bool := if Rlt_dec x y then true else false.
Definition Rleb (x y : R) : bool := if Rle_dec x y then true else false.
Definition Reqb (x y : R) : bool := if Req_EM_T x y then true else false.

Definition Ratan2 (y x : R) : R :=
  if Rlt_dec 0 x then atan (y / x)
  else if Rlt_dec x 0 then (if Rle_dec 0 y then atan (y / x) + PI else atan (y / x) - PI)
  else if Rlt_dec 0 y then PI / 2
  else if Rlt_dec y 0 then - (PI / 2)
  else 0.

Definition OpsR : Ops R :=
  {| f0 := 0; f1 := 1; fadd := Rplus; fsub := Rminus; fmul := Rmult; fdiv := Rdiv;
     fopp := Ropp; fabs := Rabs; fltb := Rltb; fleb := Rleb; feqb := Reqb; fofZ := IZR;
     fsqrt := sqrt; fln := ln; fatan2 := Ratan2; fpi := PI |}.

Lemma Rltb_true x y : Rltb x y = true <-> x < y.
Proof. unfold Rltb; destruct (Rlt_dec x y); split; auto; discriminate. Qed.
Lemma Rltb_false x y : Rltb x y = false <-> y <= x.
Proof. unfold Rltb; destruct (Rlt_dec x y); split; auto; try discriminate; intros; [exfalso; apply (Rlt_irrefl x); apply Rlt_le_trans with y; auto | apply Rnot_lt_le; auto]. Qed.
Lemma Rleb_true x y : Rleb x y = true <-> x <= y.
Proof. unfold Rleb; destruct (Rle_dec x y); split; auto; discriminate. Qed.
Lemma Rleb_false x y : Rleb x y = false <-> y < x.
Proof. unfold Rleb; destruct (Rle_dec x y); split; auto; try discriminate; intros; [exfalso; apply (Rlt_irrefl x); apply Rle_lt_trans with y; auto | apply Rnot_le_lt; auto]. Qed.
Lemma Reqb_true x y : Reqb x y = true <-> x = y.
Proof. unfold Reqb; destruct (Req_EM_T x y); split; auto; discriminate. Qed.
