(* One record of numeric operations; models of floating-point code are written once over it and
   instantiated three ways (DESIGN 2.1):
     - R      : theorems (ring / field / nra / lra after cbn)
     - Q / Z  : exact witnesses and exact correspondence on dyadic inputs
     - OCaml float : the extracted function takes the record as an argument; the driver builds it
       from Stdlib (+. *. sqrt log atan2 Float.abs compare) -- no Extract Constant. *)
From Coq Require Import ZArith.

Record Ops (F : Type) := mkOps {
  f0 : F; f1 : F;
  fadd : F -> F -> F; fsub : F -> F -> F; fmul : F -> F -> F; fdiv : F -> F -> F;
  fopp : F -> F; fabs : F -> F;
  fltb : F -> F -> bool; fleb : F -> F -> bool; feqb : F -> F -> bool;
  fofZ : Z -> F;
  fsqrt : F -> F; fln : F -> F; fatan2 : F -> F -> F;   (* fatan2 y x, as C's atan2(y,x) *)
  fpi : F
}.
Arguments f0 {F}. Arguments f1 {F}. Arguments fadd {F}. Arguments fsub {F}. Arguments fmul {F}.
Arguments fdiv {F}. Arguments fopp {F}. Arguments fabs {F}. Arguments fltb {F}. Arguments fleb {F}.
Arguments feqb {F}. Arguments fofZ {F}. Arguments fsqrt {F}. Arguments fln {F}. Arguments fatan2 {F}.
Arguments fpi {F}.

(* Notations usable inside a Section with  Context {F} (o : Ops F).  Open with
   Local Open Scope ops_scope.  *)
Declare Scope ops_scope.
Delimit Scope ops_scope with ops.
