(* The exact rational instance of Ops (witnesses by vm_compute, exact correspondence on dyadic inputs).
   Results are kept reduced (Qred) so that long computations stay small.
   sqrt / ln / atan2 / pi do not exist over Q: they are TOTAL DUMMIES (constant 0) and must never occur in a
   statement made about the Q instance. *)
From Coq Require Import QArith Qabs ZArith.
From OM Require Import Base.Ops.
Local Open Scope Q_scope.

Definition Qltb (x y : Q) : bool := match x ?= y with Lt => true | _ => false end.
Definition Qleb (x y : Q) : bool := match x ?= y with Gt => false | _ => true end.

Definition OpsQ : Ops Q :=
  {| f0 := 0; f1 := 1;
     fadd := fun a b => Qred (a + b); fsub := fun a b => Qred (a - b);
     fmul := fun a b => Qred (a * b); fdiv := fun a b => Qred (a / b);
     fopp := Qopp; fabs := Qabs; fltb := Qltb; fleb := Qleb; feqb := Qeq_bool; fofZ := inject_Z;
     fsqrt := fun _ => 0; fln := fun _ => 0; fatan2 := fun _ _ => 0; fpi := 0 |}.

Lemma Qltb_true x y : Qltb x y = true <-> x < y.
Proof. unfold Qltb. rewrite Qlt_alt. destruct (x ?= y); split; congruence. Qed.
Lemma Qleb_true x y : Qleb x y = true <-> x <= y.
Proof. unfold Qleb. rewrite Qle_alt. destruct (x ?= y); split; congruence. Qed.
