(* 3-vectors generic over a record of numeric operations (Base/Ops.v): the operations of
   OpenMEEG/include/vect3.h, each with the SAME operand order and association as the C++ text, so that
   the float instance performs the same IEEE operations in the same order.  Definitions only.

     C++ (vect3.h)                                   here
     Vect3(a,b,c)                                    mkV a b c
     u+v, u-v, -u                                    vadd u v, vsub u v, vopp u
     u*d, d*u  = Vect3(d*m[0],d*m[1],d*m[2])         vscale d u
     u/d       = Vect3(m[0]/d,m[1]/d,m[2]/d)         vdivs u d
     u*=d      (m[i] = m[i]*d)                       vscale d u   (IEEE * is commutative)
     u/=d      = u*=(1.0/d)                          vdiveq u d
     u.multadd(d,v)  (m[i] += d*v[i])                vmultadd u d v
     dotprod(u,v) = (ux*vx+uy*vy)+uz*vz              dot u v
     u^v, crossprod(u,v)                             cross u v
     u.norm2() = (sqr x+sqr y)+sqr z                 norm2 u
     u.norm()  = sqrt(norm2)                         norm u
     det(a,b,c) = dotprod(a,crossprod(b,c))          det3 a b c
     u.normalize()  (u /= u.norm())                  normalize u                                   *)
From OM Require Import Base.Ops.
From Coq Require Import ZArith QArith.

Record vec3 (F : Type) := mkV { vx : F; vy : F; vz : F }.
Arguments mkV {F}. Arguments vx {F}. Arguments vy {F}. Arguments vz {F}.

Section Vec3.
  Context {F : Type} (o : Ops F).
  Local Notation "a + b" := (fadd o a b).
  Local Notation "a - b" := (fsub o a b).
  Local Notation "a * b" := (fmul o a b).
  Local Notation "a / b" := (fdiv o a b).
  Local Notation V := (vec3 F).

  Definition vzero : V := mkV (f0 o) (f0 o) (f0 o).
  Definition vconst (a : F) : V := mkV a a a.                       (* Vect3(const double a) *)
  Definition vadd (u v : V) : V := mkV (vx u + vx v) (vy u + vy v) (vz u + vz v).
  Definition vsub (u v : V) : V := mkV (vx u - vx v) (vy u - vy v) (vz u - vz v).
  Definition vopp (u : V) : V := mkV (fopp o (vx u)) (fopp o (vy u)) (fopp o (vz u)).
  Definition vscale (d : F) (u : V) : V := mkV (d * vx u) (d * vy u) (d * vz u).
  Definition vdivs (u : V) (d : F) : V := mkV (vx u / d) (vy u / d) (vz u / d).
  Definition vdiveq (u : V) (d : F) : V := vscale (f1 o / d) u.
  Definition vmultadd (acc : V) (d : F) (v : V) : V :=
    mkV (vx acc + d * vx v) (vy acc + d * vy v) (vz acc + d * vz v).
  Definition sqr (x : F) : F := x * x.
  Definition dot (u v : V) : F := vx u * vx v + vy u * vy v + vz u * vz v.
  Definition cross (u v : V) : V :=
    mkV (vy u * vz v - vz u * vy v) (vz u * vx v - vx u * vz v) (vx u * vy v - vy u * vx v).
  Definition norm2 (u : V) : F := sqr (vx u) + sqr (vy u) + sqr (vz u).
  Definition norm (u : V) : F := fsqrt o (norm2 u).
  Definition det3 (a b c : V) : F := dot a (cross b c).
  Definition normalize (u : V) : V := vdiveq u (norm u).
  Definition vnth (u : V) (i : nat) : F := match i with O => vx u | S O => vy u | _ => vz u end.

  (* numeric literals: integer n, and the decimal literal num/den (den a power of ten).  For the float
     instance  fofZ  is exact below 2^53 and one correctly rounded division yields the double nearest to the
     decimal value, i.e. what the C++ compiler produces for the literal (the translators check the bound). *)
  Definition fZ (n : Z) : F := fofZ o n.
  Definition fQ (q : Q) : F := fofZ o (Qnum q) / fofZ o (Zpos (Qden q)).
  Definition f2 : F := fZ 2.
  Definition f3 : F := fZ 3.

  (* std::isnormal(x): neither zero, subnormal, infinite nor NaN, expressed with comparisons only:
     DBL_MIN <= |x| <= DBL_MAX  (both false on NaN; DBL_MIN = 2^-1022, DBL_MAX = 2^971 (2^53-1), both
     exactly representable and exactly produced by fofZ / one division in the float instance). *)
  Definition dbl_min : F := f1 o / fofZ o (2 ^ 1022)%Z.
  Definition dbl_max : F := fofZ o ((2 ^ 53 - 1) * 2 ^ 971)%Z.
  (* the same two constants without big-integer arithmetic at run time (the extracted model evaluates them on every call):
     2^n by repeated squaring in F -- exact in doubles (powers of two below 2^1024), equal to fofZ (2^n) over R *)
  Fixpoint fpow2 (n : positive) : F :=
    match n with
    | xH => fofZ o 2
    | xO p => let h := fpow2 p in h * h
    | xI p => let h := fpow2 p in fofZ o 2 * (h * h)
    end.
  Definition dbl_min_fast : F := f1 o / fpow2 1022.
  Definition dbl_max_fast : F := fofZ o (2 ^ 53 - 1)%Z * fpow2 971.
  Definition fisnormal (x : F) : bool :=
    andb (fleb o dbl_min_fast (fabs o x)) (fleb o (fabs o x) dbl_max_fast).
End Vec3.
