(* Rigid motions and uniform scalings of 3-space over the real instance (Base/OpsR.v) of the vector
   operations of Base/Vec3.v.  A rigid map is given abstractly -- a map `rot` on vectors that is additive,
   homogeneous and preserves dot and cross products (i.e. a proper rotation) plus a translation -- so the
   invariance theorems of C02 hold for every such map; the instance built from a unit quaternion shows the
   record is inhabited by every rotation the generators use (lib/models.py rational_quaternion). *)
From Coq Require Import Reals Lra.
From OM Require Import Base.Ops Base.Vec3 Base.OpsR.
Local Open Scope R_scope.

Notation V3 := (vec3 R).
Notation vaddR := (vadd OpsR). Notation vsubR := (vsub OpsR). Notation vscaleR := (vscale OpsR).
Notation voppR := (vopp OpsR). Notation vdivsR := (vdivs OpsR). Notation vdiveqR := (vdiveq OpsR).
Notation dotR := (dot OpsR). Notation crossR := (cross OpsR). Notation norm2R := (norm2 OpsR).
Notation normR := (norm OpsR). Notation det3R := (det3 OpsR). Notation normalizeR := (normalize OpsR).
Notation vmultaddR := (vmultadd OpsR). Notation vzeroR := (vzero OpsR). Notation vconstR := (@vconst R).

Lemma v3_eq (u v : V3) : vx u = vx v -> vy u = vy v -> vz u = vz v -> u = v.
Proof. destruct u, v; cbn; intros; subst; reflexivity. Qed.

Ltac v3 := apply v3_eq; cbn; try ring.

Record rigid := mkRigid {
  rot : V3 -> V3;
  tr : V3;
  rot_add : forall u v, rot (vaddR u v) = vaddR (rot u) (rot v);
  rot_scale : forall a u, rot (vscaleR a u) = vscaleR a (rot u);
  rot_dot : forall u v, dotR (rot u) (rot v) = dotR u v;
  rot_cross : forall u v, crossR (rot u) (rot v) = rot (crossR u v) }.

(* action on points *)
Definition app (g : rigid) (p : V3) : V3 := vaddR (rot g p) (tr g).

Section RigidLemmas.
  Variable g : rigid.

  Lemma vsub_as_add (u v : V3) : vsubR u v = vaddR u (vscaleR (-1) v).
  Proof. v3. Qed.
  Lemma vopp_as_scale (u : V3) : voppR u = vscaleR (-1) u.
  Proof. v3. Qed.
  Lemma vdivs_as_scale (u : V3) (d : R) : vdivsR u d = vscaleR (/ d) u.
  Proof. v3; unfold Rdiv; ring. Qed.

  Lemma rot_sub u v : rot g (vsubR u v) = vsubR (rot g u) (rot g v).
  Proof. rewrite !vsub_as_add, rot_add, rot_scale; reflexivity. Qed.
  Lemma rot_opp u : rot g (voppR u) = voppR (rot g u).
  Proof. rewrite !vopp_as_scale, rot_scale; reflexivity. Qed.
  Lemma rot_divs u d : rot g (vdivsR u d) = vdivsR (rot g u) d.
  Proof. rewrite !vdivs_as_scale, rot_scale; reflexivity. Qed.
  Lemma rot_diveq u d : rot g (vdiveqR u d) = vdiveqR (rot g u) d.
  Proof. unfold vdiveq; rewrite rot_scale; reflexivity. Qed.
  Lemma rot_zero : rot g (vconstR 0) = vconstR 0.
  Proof.
    replace (vconstR 0) with (vscaleR 0 (vconstR 0)) at 1 by v3.
    rewrite rot_scale. v3.
  Qed.
  Lemma rot_norm2 u : norm2R (rot g u) = norm2R u.
  Proof.
    replace (norm2R (rot g u)) with (dotR (rot g u) (rot g u)) by (unfold norm2, dot, sqr; reflexivity).
    rewrite rot_dot. unfold norm2, dot, sqr; reflexivity.
  Qed.
  Lemma rot_norm u : normR (rot g u) = normR u.
  Proof. unfold norm; rewrite rot_norm2; reflexivity. Qed.
  Lemma rot_det3 a b c : det3R (rot g a) (rot g b) (rot g c) = det3R a b c.
  Proof. unfold det3; rewrite rot_cross, rot_dot; reflexivity. Qed.
  Lemma rot_normalize u : normalizeR (rot g u) = rot g (normalizeR u).
  Proof. unfold normalize; rewrite rot_norm, rot_diveq; reflexivity. Qed.

  (* differences of moved points are rotated differences: the translation cancels *)
  Lemma app_sub p q : vsubR (app g p) (app g q) = rot g (vsubR p q).
  Proof. rewrite rot_sub. unfold app. v3. Qed.
  Lemma app_add_vec p u : vaddR (rot g u) (app g p) = app g (vaddR u p).
  Proof. unfold app; rewrite rot_add. v3. Qed.
  Lemma app_add_vec_r p u : vaddR (app g p) (rot g u) = app g (vaddR p u).
  Proof. unfold app; rewrite rot_add. v3. Qed.
End RigidLemmas.

(* ---- the rotation of a unit quaternion (a,b,c,d), a^2+b^2+c^2+d^2 = 1 ---------------------------------- *)
Section Quaternion.
  Variables a b c d : R.
  Hypothesis unit : a * a + b * b + c * c + d * d = 1.

  Definition qrot (u : V3) : V3 :=
    mkV ((a*a+b*b-c*c-d*d) * vx u + 2*(b*c-a*d) * vy u + 2*(b*d+a*c) * vz u)
        (2*(b*c+a*d) * vx u + (a*a-b*b+c*c-d*d) * vy u + 2*(c*d-a*b) * vz u)
        (2*(b*d-a*c) * vx u + 2*(c*d+a*b) * vy u + (a*a-b*b-c*c+d*d) * vz u).

  Lemma qrot_add u v : qrot (vaddR u v) = vaddR (qrot u) (qrot v).
  Proof. v3. Qed.
  Lemma qrot_scale k u : qrot (vscaleR k u) = vscaleR k (qrot u).
  Proof. v3. Qed.
  Lemma qrot_dot u v : dotR (qrot u) (qrot v) = dotR u v.
  Proof.
    destruct u as [u1 u2 u3], v as [v1 v2 v3]; cbn.
    transitivity ((a*a+b*b+c*c+d*d) * (a*a+b*b+c*c+d*d) * (u1*v1+u2*v2+u3*v3)); [ring | rewrite unit; ring].
  Qed.
  Lemma qrot_cross u v : crossR (qrot u) (qrot v) = qrot (crossR u v).
  Proof.
    destruct u as [u1 u2 u3], v as [v1 v2 v3]. apply v3_eq; cbn.
    - transitivity ((a*a+b*b+c*c+d*d) * ((a*a+b*b-c*c-d*d)*(u2*v3-u3*v2) + 2*(b*c-a*d)*(u3*v1-u1*v3) + 2*(b*d+a*c)*(u1*v2-u2*v1))); [ring | rewrite unit; ring].
    - transitivity ((a*a+b*b+c*c+d*d) * (2*(b*c+a*d)*(u2*v3-u3*v2) + (a*a-b*b+c*c-d*d)*(u3*v1-u1*v3) + 2*(c*d-a*b)*(u1*v2-u2*v1))); [ring | rewrite unit; ring].
    - transitivity ((a*a+b*b+c*c+d*d) * (2*(b*d-a*c)*(u2*v3-u3*v2) + 2*(c*d+a*b)*(u3*v1-u1*v3) + (a*a-b*b-c*c+d*d)*(u1*v2-u2*v1))); [ring | rewrite unit; ring].
  Qed.

  Definition rigid_of_quaternion (t : V3) : rigid :=
    {| rot := qrot; tr := t; rot_add := qrot_add; rot_scale := qrot_scale; rot_dot := qrot_dot; rot_cross := qrot_cross |}.
End Quaternion.

(* ---- identity, composition, inverse ---------------------------------------------------------------------- *)
Definition rigid_id : rigid.
Proof.
  refine {| rot := fun u => u; tr := vconstR 0 |}; intros; reflexivity.
Defined.

Definition rigid_comp (g h : rigid) : rigid.
Proof.
  refine {| rot := fun u => rot g (rot h u); tr := app g (tr h) |}; intros.
  - rewrite !rot_add; reflexivity.
  - rewrite !rot_scale; reflexivity.
  - rewrite !rot_dot; reflexivity.
  - rewrite !rot_cross; reflexivity.
Defined.

Lemma rigid_comp_app g h p : app (rigid_comp g h) p = app g (app h p).
Proof. unfold app; cbn [rot tr rigid_comp]. unfold app. rewrite !rot_add. v3. Qed.

Lemma app_id p : app rigid_id p = p.
Proof. unfold app; cbn. v3. Qed.

(* a rotation is injective (it preserves norms), hence so is a rigid map *)
Lemma norm2_zero (u : V3) : norm2R u = 0 -> u = vconstR 0.
Proof.
  destruct u as [x y z]; unfold norm2, sqr; cbn; intros H.
  assert (x = 0 /\ y = 0 /\ z = 0) as (-> & -> & ->) by (repeat split; nra). reflexivity.
Qed.
Lemma rot_injective g u v : rot g u = rot g v -> u = v.
Proof.
  intros H. assert (E : rot g (vsubR u v) = vconstR 0) by (rewrite rot_sub, H; v3).
  assert (N : norm2R (vsubR u v) = 0) by (rewrite <- (rot_norm2 g), E; unfold norm2, sqr; cbn; ring).
  apply norm2_zero in N. apply v3_eq; [injection N as N1 _ _ | injection N as _ N2 _ | injection N as _ _ N3]; cbn in *; lra.
Qed.
Lemma app_injective g p q : app g p = app g q -> p = q.
Proof.
  intros H. apply (rot_injective g). unfold app in H.
  apply v3_eq; [apply (f_equal vx) in H | apply (f_equal vy) in H | apply (f_equal vz) in H]; cbn in H; lra.
Qed.

(* ---- uniform scaling ---------------------------------------------------------------------------------------- *)
Definition scl (s : R) (p : V3) : V3 := vscaleR s p.

Lemma scl_sub s p q : vsubR (scl s p) (scl s q) = scl s (vsubR p q).
Proof. unfold scl; v3. Qed.
Lemma scl_add s p q : vaddR (scl s p) (scl s q) = scl s (vaddR p q).
Proof. unfold scl; v3. Qed.
Lemma scl_dot s t u v : dotR (scl s u) (scl t v) = s * t * dotR u v.
Proof. unfold scl, dot; cbn; ring. Qed.
Lemma scl_cross s t u v : crossR (scl s u) (scl t v) = scl (s * t) (crossR u v).
Proof. unfold scl; v3. Qed.
Lemma scl_scl s t u : scl s (scl t u) = scl (s * t) u.
Proof. unfold scl; v3. Qed.
Lemma scl_norm2 s u : norm2R (scl s u) = s * s * norm2R u.
Proof. unfold scl, norm2, sqr; cbn; ring. Qed.
Lemma sqrt_scale s x : 0 <= s -> sqrt (s * s * x) = s * sqrt x.
Proof.
  intros Hs. destruct (Rle_dec 0 x) as [Hx | Hx].
  - rewrite sqrt_mult by nra. rewrite sqrt_square by assumption. reflexivity.
  - assert (x < 0) by lra. rewrite (sqrt_neg_0 x) by lra.
    destruct (Req_dec s 0) as [-> | Hn]; [rewrite !Rmult_0_l, sqrt_0; ring |].
    rewrite sqrt_neg_0 by nra. ring.
Qed.
Lemma scl_norm s u : 0 <= s -> normR (scl s u) = s * normR u.
Proof. intros; unfold norm; rewrite scl_norm2; cbn [fsqrt OpsR]; apply sqrt_scale; assumption. Qed.
Lemma scl_det3 s a b c : det3R (scl s a) (scl s b) (scl s c) = s * s * s * det3R a b c.
Proof. unfold det3; rewrite scl_cross, scl_dot; ring. Qed.
