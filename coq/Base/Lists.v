(* Shared list/sum machinery: checked update, finite sums. stdlib style, lia-driven. *)
From Coq Require Export List Arith ZArith Lia Bool.
Export ListNotations.
Local Open Scope Z_scope.

(* write x at position i (no-op when out of range: callers guard) *)
Fixpoint upd {A} (l : list A) (i : nat) (x : A) : list A :=
  match l, i with
  | [], _ => []
  | _ :: t, O => x :: t
  | h :: t, S i' => h :: upd t i' x
  end.

Lemma upd_length {A} (l : list A) i x : length (upd l i x) = length l.
Proof. revert i; induction l as [|h t IH]; intros [|i]; simpl; auto. Qed.

Lemma nth_upd_same {A} (l : list A) i x d : (i < length l)%nat -> nth i (upd l i x) d = x.
Proof. revert i; induction l as [|h t IH]; intros [|i] H; simpl in *; try lia; auto. apply IH; lia. Qed.

Lemma nth_upd_other {A} (l : list A) i j x d : i <> j -> nth j (upd l i x) d = nth j l d.
Proof. revert i j; induction l as [|h t IH]; intros [|i] [|j] H; simpl; auto; try congruence. Qed.

Lemma nth_upd {A} (l : list A) i j x d :
  nth j (upd l i x) d = if (Nat.eqb i j && Nat.ltb i (length l))%bool then x else nth j l d.
Proof.
  destruct (Nat.eqb_spec i j) as [->|Hn]; simpl.
  - destruct (Nat.ltb_spec j (length l)) as [Hl|Hl].
    + apply nth_upd_same; auto.
    + rewrite !nth_overflow; auto. rewrite upd_length; auto.
  - apply nth_upd_other; auto.
Qed.

(* sum_{k<n} f k *)
Fixpoint sumn (n : nat) (f : nat -> Z) : Z :=
  match n with O => 0 | S n' => sumn n' f + f n' end.

Lemma sumn_ext n f g : (forall k, (k < n)%nat -> f k = g k) -> sumn n f = sumn n g.
Proof. induction n as [|n IH]; simpl; intros H; auto. rewrite IH, H; auto. Qed.

Lemma sumn_zero n f : (forall k, (k < n)%nat -> f k = 0) -> sumn n f = 0.
Proof. induction n as [|n IH]; simpl; intros H; auto. rewrite IH, H; auto. Qed.

Lemma sumn_add n f g : sumn n (fun k => f k + g k) = sumn n f + sumn n g.
Proof. induction n as [|n IH]; simpl; auto. rewrite IH; ring. Qed.

Lemma sumn_scale n f c : sumn n (fun k => c * f k) = c * sumn n f.
Proof. induction n as [|n IH]; simpl; [ring|]. rewrite IH; ring. Qed.

(* a single spike *)
Lemma sumn_delta n c a :
  sumn n (fun k => if Nat.eqb k c then a else 0) = if Nat.ltb c n then a else 0.
Proof.
  induction n as [|n IH]; simpl; auto. rewrite IH.
  destruct (Nat.eqb_spec n c) as [->|Hn].
  - replace (c <? c)%nat with false by (symmetry; apply Nat.ltb_ge; lia).
    replace (c <? S c)%nat with true by (symmetry; apply Nat.ltb_lt; lia). ring.
  - destruct (Nat.ltb_spec c n), (Nat.ltb_spec c (S n)); try lia; ring.
Qed.

Lemma sumn_swap n m (f : nat -> nat -> Z) :
  sumn n (fun i => sumn m (fun j => f i j)) = sumn m (fun j => sumn n (fun i => f i j)).
Proof.
  induction n as [|n IH]; simpl.
  - symmetry; apply sumn_zero; auto.
  - rewrite IH, <- sumn_add; auto.
Qed.

(* sum of a list *)
Definition zsum (l : list Z) : Z := fold_right Z.add 0 l.
Lemma zsum_app a b : zsum (a ++ b) = zsum a + zsum b.
Proof. induction a; simpl; auto. rewrite IHa; ring. Qed.

Lemma fold_left_add_acc (l : list Z) a : fold_left Z.add l a = a + zsum l.
Proof. revert a; induction l as [|x l IH]; intros a; simpl; [ring|]. rewrite IH; ring. Qed.

Lemma zsum_nth_sumn (l : list Z) : zsum l = sumn (length l) (fun k => nth k l 0).
Proof.
  induction l as [|x l IH] using rev_ind; simpl; auto.
  rewrite zsum_app, app_length; simpl. replace (length l + 1)%nat with (S (length l)) by lia.
  simpl. rewrite app_nth2, Nat.sub_diag by lia; simpl.
  rewrite IH. f_equal; [|ring]. apply sumn_ext; intros k Hk. rewrite app_nth1; auto.
Qed.

Tactic Notation "destr_if_in" hyp(H) "as" ident(E) :=
  match type of H with context [if ?b then _ else _] => destruct b eqn:E end.
Tactic Notation "destr_if" "as" ident(E) :=
  match goal with |- context [if ?b then _ else _] => destruct b eqn:E end.

Lemma forallb_false {A} (f : A -> bool) (l : list A) :
  forallb f l = false -> exists e, In e l /\ f e = false.
Proof.
  induction l as [|a l IH]; simpl; [discriminate|]. intros H.
  destruct (f a) eqn:E.
  - destruct (IH H) as [e [He Hf]]. exists e; split; auto.
  - exists a; split; auto.
Qed.

Lemma fold_left_ext {A B} (f g : A -> B -> A) (H : forall a b, f a b = g a b) l a :
  fold_left f l a = fold_left g l a.
Proof. revert a; induction l as [|x l IH]; intros a; simpl; auto. rewrite H; auto. Qed.

Lemma zsum_map_scale {A} c (f : A -> Z) l : zsum (map (fun a => c * f a) l) = c * zsum (map f l).
Proof. induction l; simpl; [ring|]. rewrite IHl; ring. Qed.

Lemma zsum_map_zero {A} (f : A -> Z) l : (forall a, In a l -> f a = 0) -> zsum (map f l) = 0.
Proof. induction l; simpl; intros H; auto. rewrite H, IHl; auto. Qed.
