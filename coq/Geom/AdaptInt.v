(* C08 -- model of OpenMEEG/include/integrator.h: Integrator::integrate, triangle_integration (fixed rule)
   and adaptive_integration (relative stopping rule, 4-way refinement, depth = max_depth), generic over
     - the numeric operations (Ops F),
     - the value type T of the integrand (double or Vect3 in the code) through a small record VOps,
     - the integrand itself,
     - the quadrature rule (list of (barycentric coordinates, weight); the code's table is handed in).
   No proofs here (AdaptIntProofs.v). *)
From Coq Require Import List ZArith Bool.
From OM Require Import Base.Ops.
Import ListNotations.

Section AdaptInt.
Context {F : Type} (o : Ops F).

Local Notation "x + y" := (fadd o x y).
Local Notation "x - y" := (fsub o x y).
Local Notation "x * y" := (fmul o x y).

(* ---- Vect3 (vect3.h), only what the integrator needs, same operation order ---- *)
Definition pt : Type := (F * F * F)%type.
Definition px (p : pt) : F := fst (fst p).
Definition py (p : pt) : F := snd (fst p).
Definition pz (p : pt) : F := snd p.
Definition pzero : pt := (f0 o, f0 o, f0 o).
Definition padd (a b : pt) : pt := (px a + px b, py a + py b, pz a + pz b).
Definition psub (a b : pt) : pt := (px a - px b, py a - py b, pz a - pz b).
Definition pscale (d : F) (a : pt) : pt := (d * px a, d * py a, d * pz a).        (* Vect3::operator*(double): d*m[i] *)
Definition pmultadd (a : pt) (d : F) (v : pt) : pt := (px a + d * px v, py a + d * py v, pz a + d * pz v).
Definition pcross (a b : pt) : pt :=
  (py a * pz b - pz a * py b, pz a * px b - px a * pz b, px a * py b - py a * px b).
Definition pnorm2 (a : pt) : F := px a * px a + py a * py a + pz a * pz a.
Definition pnorm (a : pt) : F := fsqrt o (pnorm2 a).

Definition tri : Type := (pt * pt * pt)%type.
Definition t0 (t : tri) : pt := fst (fst t).
Definition t1 (t : tri) : pt := snd (fst t).
Definition t2 (t : tri) : pt := snd t.

(* ---- value type of the integrand ---- *)
Record VOps (T : Type) := mkVOps {
  vzero : T;                 (* T result = 0.0 *)
  vadd : T -> T -> T;        (* += *)
  vsub : T -> T -> T;        (* coarse-refined *)
  vscale : F -> T -> T;      (* weight*function(v), result*area2 *)
  vnorm : T -> F             (* Integrator::norm *)
}.
Arguments vzero {T}. Arguments vadd {T}. Arguments vsub {T}. Arguments vscale {T}. Arguments vnorm {T}.

Definition scalarV : VOps F := mkVOps F (f0 o) (fadd o) (fsub o) (fmul o) (fabs o).
Definition vect3V : VOps pt := mkVOps pt pzero padd psub pscale pnorm.

(* ---- quadrature rule: (barycentric coordinates, weight) ---- *)
Definition qrule : Type := list ((F * F * F) * F).

Section Integrand.
Context {T : Type} (V : VOps T).
Variable rule : qrule.
Variable tol : F.
Variable f : pt -> T.

(* integrator.h triangle_integration *)
Definition quad_point (bw : (F * F * F) * F) (t : tri) : pt :=
  let b := fst bw in
  pmultadd (pmultadd (pmultadd pzero (fst (fst b)) (t0 t)) (snd (fst b)) (t1 t)) (snd b) (t2 t).

Definition area2 (t : tri) : F := pnorm (pcross (psub (t1 t) (t0 t)) (psub (t2 t) (t0 t))).

Definition triangle_integration (t : tri) : T :=
  let result := fold_left (fun acc bw => vadd V acc (vscale V (snd bw) (f (quad_point bw t)))) rule (vzero V) in
  vscale V (area2 t) result.

(* the four sub-triangles of adaptive_integration, in the code's order *)
Definition half : F := fdiv o (f1 o) (f1 o + f1 o).
Definition midpoint (a b : pt) : pt := pscale half (padd a b).
Definition subtriangles (t : tri) : list tri :=
  let m0 := midpoint (t1 t) (t2 t) in
  let m1 := midpoint (t2 t) (t0 t) in
  let m2 := midpoint (t0 t) (t1 t) in
  [ (t0 t, m1, m2); (m0, t1 t, m2); (m0, m1, t2 t); (m0, m1, m2) ].

Definition vsum (l : list T) : T := fold_left (vadd V) l (vzero V).

(* integrator.h:83 adaptive_integration; `level` is the structural argument.
   norm(coarse-refined)<=tolerance*norm(coarse) || level==0  -> refined, else the sum of the four recursive calls,
   each handed its own coarse value integrals[i]. *)
Fixpoint adaptive_integration (level : nat) (t : tri) (coarse : T) : T :=
  let subs := subtriangles t in
  let integrals := map triangle_integration subs in
  let refined := vsum integrals in
  if fleb o (vnorm V (vsub V coarse refined)) (tol * vnorm V coarse) then refined
  else match level with
       | O => refined
       | S l => vsum (map (fun ti => adaptive_integration l (fst ti) (snd ti)) (combine subs integrals))
       end.

(* Integrator::integrate *)
Definition integrate (max_depth : nat) (t : tri) : T :=
  let coarse := triangle_integration t in
  match max_depth with O => coarse | _ => adaptive_integration max_depth t coarse end.

(* the shape of the refinement performed (for the statements about "same refinement tree") *)
Inductive rtree := Leaf | Node (a b c d : rtree).
Fixpoint adaptive_tree (level : nat) (t : tri) (coarse : T) : rtree :=
  let subs := subtriangles t in
  let integrals := map triangle_integration subs in
  let refined := vsum integrals in
  if fleb o (vnorm V (vsub V coarse refined)) (tol * vnorm V coarse) then Leaf
  else match level with
       | O => Leaf
       | S l => match map (fun ti => adaptive_tree l (fst ti) (snd ti)) (combine subs integrals) with
                | [a; b; c; d] => Node a b c d
                | _ => Leaf
                end
       end.
End Integrand.
End AdaptInt.

Arguments vzero {F T}. Arguments vadd {F T}. Arguments vsub {F T}. Arguments vscale {F T}. Arguments vnorm {F T}.
