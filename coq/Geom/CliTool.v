(* C20 — statements about the tools, over the table generated from the sources (Gen/GenCli.v).
   The table conditions are decided by vm_compute; everything quantified over command lines is by lemma. *)
From Coq Require Import List Arith ZArith Bool Lia.
From OM Require Import Geom.Cli Geom.CliProofs Gen.GenCli.
Import ListNotations.
Local Open Scope nat_scope.

(* ---------------------------------------------------------------- table conditions (recomputed on every run) *)
Lemma gen_tools_ok : forallb tool_ok gen_tools = true.
Proof. vm_compute. reflexivity. Qed.
Lemma gen_pre_ok : forallb pre_ok gen_tools = true.
Proof. vm_compute. reflexivity. Qed.
Lemma gen_unknown_ok : forallb unknown_ok gen_tools = true.
Proof. vm_compute. reflexivity. Qed.
Lemma gen_aliases_ok : forallb aliases_ok gen_tools = true.
Proof. vm_compute. reflexivity. Qed.

Lemma gen_documented_ok : forallb documented_ok gen_tools = true.
Proof. vm_compute. reflexivity. Qed.

Lemma gen_params_used_ok : forallb tool_params_used_ok gen_tools = true.
Proof. vm_compute. reflexivity. Qed.

Lemma gen_option_count_ok : forallb option_count_ok gen_tools = true.
Proof. vm_compute. reflexivity. Qed.
Lemma gen_unknown_check_ok : forallb unknown_check_ok gen_tools = true.
Proof. vm_compute. reflexivity. Qed.

Lemma gen_doc_order_ok : forallb tool_doc_order_ok gen_tools = true.
Proof. vm_compute. reflexivity. Qed.

Lemma gen_geo_ordering_ok : forallb geo_ordering_ok gen_tools = true.
Proof. vm_compute. reflexivity. Qed.

Lemma gen_variant_doc_ok : forallb variant_doc_ok gen_tools = true.
Proof. vm_compute. reflexivity. Qed.

Lemma in_gen {P : tool -> bool} t : forallb P gen_tools = true -> In t gen_tools -> P t = true.
Proof. intros H Hin. rewrite forallb_forall in H. auto. Qed.

Lemma tool_block_ok t b : In t gen_tools -> In b (t_blocks t) -> block_ok b = true.
Proof.
  intros Ht Hb. pose proof (in_gen t gen_tools_ok Ht) as H. unfold tool_ok in H.
  apply andb_true_iff in H as [H _]. rewrite forallb_forall in H. auto.
Qed.

(* ---------------------------------------------------------------- indices in range *)
Lemma indices_in_range t b argv i u :
  In t gen_tools -> In b (t_blocks t) -> block_option argv b = Ret (Some i) ->
  In u (b_uses b) -> guard_holds (u_guard u) (num_args argv i) = true ->
  u_k u <= num_args argv i /\ i + u_k u < List.length argv.
Proof. intros Ht Hb Ho Hu Hg. eapply block_in_range; eauto. eapply tool_block_ok; eauto. Qed.

(* ... and what is read at a position k>=1 is a parameter: it does not start with '-' *)
Lemma reads_are_parameters t b argv i u tk :
  In t gen_tools -> In b (t_blocks t) -> block_option argv b = Ret (Some i) ->
  In u (b_uses b) -> guard_holds (u_guard u) (num_args argv i) = true -> 1 <= u_k u ->
  nth_error argv (i + u_k u) = Some tk -> is_dash tk = false.
Proof.
  intros Ht Hb Ho Hu Hg Hk Hn. destruct (indices_in_range t b argv i u Ht Hb Ho Hu Hg) as [H1 _].
  eapply num_args_nodash; eauto.
Qed.

Lemma no_read_outside_argv t argv : In t gen_tools -> r_final (run_tool t argv) <> FCrash.
Proof. intros Ht. apply tool_no_crash. apply (in_gen t gen_tools_ok Ht). Qed.

Lemma positional_in_range t argv k s :
  In t gen_tools -> In (k, s) (t_argv_uses t) -> pre_exit t argv = None -> k < List.length argv.
Proof.
  intros Ht Hin Hpre. pose proof (in_gen t gen_tools_ok Ht) as H. unfold tool_ok in H.
  apply andb_true_iff in H as [_ H]. rewrite forallb_forall in H. specialize (H _ Hin).
  unfold argv_use_ok in H. simpl in H.
  apply existsb_exists in H as (p & Hp & Hc). apply existsb_exists in Hc as (c & Hc & Hk).
  destruct c as [m| | | |]; simpl in Hk; try discriminate. apply Nat.ltb_lt in Hk.
  pose proof (pre_exit_from_none_argc t argv (t_pre t) p m Hpre Hp Hc). lia.
Qed.

(* ---------------------------------------------------------------- incomplete command lines *)
Lemma in_blocks_nonempty t b : In b (t_blocks t) -> t_blocks t <> [].
Proof. intros H E. rewrite E in H. contradiction. Qed.

Lemma incomplete_rejected t b a argv i :
  In t gen_tools -> In b (t_blocks t) -> In a (b_aliases b) -> pre_exit t argv = None ->
  find_argument argv a = Some i -> num_args argv i < nmand b ->
  r_final (run_tool t argv) = FExit 1%Z.
Proof.
  intros Ht Hb Ha Hpre Hf Hn.
  assert (Ho : block_option argv b = Exit 1%Z) by (eapply alias_loop_incomplete; eauto).
  destruct (run_tool_blocks t argv Hpre (in_blocks_nonempty t b Hb)) as [Hfin _].
  destruct (run_blocks_incomplete argv (t_blocks t) 0 0 (t_unknown_exit t) b Hb Ho) as [H|H].
  - congruence.
  - exfalso. apply (no_read_outside_argv t argv Ht). congruence.
Qed.

Lemma early_return_nonzero t argv c :
  In t gen_tools -> help_mode argv = false -> pre_exit t argv = Some c ->
  c <> 0%Z /\ r_final (run_tool t argv) = FExit c /\ r_execs (run_tool t argv) = [].
Proof.
  intros Ht Hh Hpre. split.
  - eapply pre_exit_from_code; eauto. apply (in_gen t gen_pre_ok Ht).
  - unfold run_tool. rewrite Hpre. simpl; auto.
Qed.

Definition has_argc_check (t : tool) (k : nat) : bool :=
  existsb (fun p => existsb (fun c => match c with CArgcLt m => k <=? m | _ => false end) (pc_conds p)) (t_pre t).

Lemma argc_check_fires t k argv :
  has_argc_check t k = true -> List.length argv < k -> pre_exit t argv <> None.
Proof.
  unfold has_argc_check. intros H Hl. apply existsb_exists in H as (p & Hp & Hc).
  apply existsb_exists in Hc as (c & Hc & Hk). destruct c as [m| | | |]; try discriminate.
  apply Nat.leb_le in Hk. eapply pre_exit_from_argc; eauto. lia.
Qed.

Lemma too_few_arguments_nonzero t k argv :
  In t gen_tools -> has_argc_check t k = true -> List.length argv < k -> help_mode argv = false ->
  exists c, c <> 0%Z /\ r_final (run_tool t argv) = FExit c /\ r_execs (run_tool t argv) = [].
Proof.
  intros Ht Hc Hl Hh. destruct (pre_exit t argv) as [c|] eqn:E.
  - exists c. eapply early_return_nonzero; eauto.
  - exfalso. eapply argc_check_fires; eauto.
Qed.

Lemma minverser_in : In tool_om_minverser gen_tools.
Proof. vm_compute. tauto. Qed.
Lemma minverser_incomplete_nonzero argv :
  List.length argv < 3 -> help_mode argv = false ->
  exists c, c <> 0%Z /\ r_final (run_tool tool_om_minverser argv) = FExit c /\ r_execs (run_tool tool_om_minverser argv) = [].
Proof. intros. apply (too_few_arguments_nonzero tool_om_minverser 3); auto. apply minverser_in. Qed.

Lemma pre_exit_from_cond t argv ps p c :
  In p ps -> In c (pc_conds p) -> cond_holds t argv c = true -> pre_exit_from t argv ps <> None.
Proof.
  induction ps as [|p0 r IH]; intros Hp Hc Hh; simpl in *; [contradiction|].
  destruct (existsb (cond_holds t argv) (pc_conds p0)) eqn:E; [discriminate|].
  destruct Hp as [->|Hp]; [|auto].
  exfalso. assert (existsb (cond_holds t argv) (pc_conds p) = true); [|congruence].
  apply existsb_exists. exists c; auto.
Qed.

(* a required file-name option that is missing (or empty, or last on the line) is rejected *)
Lemma required_option_missing_rejected t p v argv :
  In t gen_tools -> In p (t_pre t) -> In (CEmpty v) (pc_conds p) -> var_empty t argv v = true ->
  help_mode argv = false ->
  exists c, c <> 0%Z /\ r_final (run_tool t argv) = FExit c /\ r_execs (run_tool t argv) = [].
Proof.
  intros Ht Hp Hc Hv Hh. destruct (pre_exit t argv) as [c|] eqn:E.
  - exists c. eapply early_return_nonzero; eauto.
  - exfalso. eapply (pre_exit_from_cond t argv (t_pre t) p (CEmpty v)); eauto.
Qed.

(* ---------------------------------------------------------------- conflicting / unknown options *)
Lemma alias_loop_none argv al nm f :
  alias_loop argv al nm f = Ret None -> f = None /\ forall a, In a al -> find_argument argv a = None.
Proof.
  revert f; induction al as [|a r IH]; intros f H; simpl in H.
  - injection H as ->. split; auto. intros a [].
  - destruct (option3 argv a nm) as [[j|]|c] eqn:E; [| |discriminate].
    + destruct f; [discriminate|]. apply IH in H as [H _]. discriminate.
    + apply IH in H as [H1 H2]. split; auto. intros b [<-|Hb]; auto. apply option3_none in E; auto.
Qed.

Lemma alias_given_present argv b a : In a (b_aliases b) -> In a argv -> present argv b.
Proof.
  intros Ha Hin Hn. unfold block_option in Hn. apply alias_loop_none in Hn as [_ Hn].
  specialize (Hn a Ha). apply find_argument_none in Hn. contradiction.
Qed.

Lemma conflicting_rejected t argv j j' b b' :
  In t gen_tools -> pre_exit t argv = None -> j <> j' ->
  nth_error (t_blocks t) j = Some b -> nth_error (t_blocks t) j' = Some b' ->
  present argv b -> present argv b' ->
  r_final (run_tool t argv) = FExit 1%Z.
Proof.
  intros Ht Hpre Hne Hj Hj' Hp Hp'.
  assert (Hb : In b (t_blocks t)) by (eapply nth_error_In; eauto).
  destruct (run_tool_blocks t argv Hpre (in_blocks_nonempty t b Hb)) as [Hfin _].
  assert (H : snd (run_blocks argv (t_blocks t) 0 0 (t_unknown_exit t)) = FExit 1%Z \/
              snd (run_blocks argv (t_blocks t) 0 0 (t_unknown_exit t)) = FCrash).
  { destruct (Nat.lt_total j j') as [L|[L|L]]; [|contradiction|].
    - eapply (run_blocks_two argv (t_blocks t) 0 _ j j' b b'); eauto.
    - eapply (run_blocks_two argv (t_blocks t) 0 _ j' j b' b); eauto. }
  destruct H as [H|H]; [congruence|].
  exfalso. apply (no_read_outside_argv t argv Ht). congruence.
Qed.

Lemma unknown_option_rejected t argv :
  In t gen_tools -> t_blocks t <> [] -> pre_exit t argv = None ->
  (forall b a, In b (t_blocks t) -> In a (b_aliases b) -> ~ In a argv) ->
  exists c, c <> 0%Z /\ r_final (run_tool t argv) = FExit c /\ r_execs (run_tool t argv) = [].
Proof.
  intros Ht Hne Hpre Habs.
  destruct (run_tool_blocks t argv Hpre Hne) as [Hfin Hex].
  assert (Hnone : forall b, In b (t_blocks t) -> block_option argv b = Ret None).
  { intros b Hb. unfold block_option. apply alias_loop_absent.
    intros a Ha. apply find_argument_none. eauto. }
  rewrite (run_blocks_none_present _ _ _ _ _ Hnone) in Hfin, Hex.
  pose proof (in_gen t gen_unknown_ok Ht) as Hu. unfold unknown_ok in Hu.
  destruct (t_blocks t) as [|b0 bs]; [contradiction|].
  destruct (t_unknown_exit t) as [c|]; [|discriminate].
  exists c. simpl in *. split; auto. apply negb_true_iff in Hu. apply Z.eqb_neq in Hu; auto.
Qed.

(* at most one option of the tool on the line: a rejected line has started no work *)
Lemma rejected_runs_nothing t argv c :
  pre_exit t argv = None -> t_blocks t <> [] ->
  (forall j j' b b', nth_error (t_blocks t) j = Some b -> nth_error (t_blocks t) j' = Some b' ->
                     present argv b -> present argv b' -> j = j') ->
  r_final (run_tool t argv) = FExit c -> r_execs (run_tool t argv) = [].
Proof.
  intros Hpre Hne Hu Hf. destruct (run_tool_blocks t argv Hpre Hne) as [Hfin Hex].
  rewrite Hex. apply (run_blocks_rejected_clean argv (t_blocks t) 0 (t_unknown_exit t) c Hu). rewrite <- Hfin. exact Hf.
Qed.

(* ---------------------------------------------------------------- aliases *)
Section Aliases.
  Variables (pre post : list tok).

  Definition here (nm : nat) : res (option nat) :=
    if count_args post <? nm then Exit 1%Z else Ret (Some (List.length pre)).

  Lemma find_other a c : c <> a -> ~ In c pre -> ~ In c post ->
    find_argument (pre ++ a :: post) c = None.
  Proof.
    intros Hne H1 H2. apply find_argument_none. intros Hin. apply in_app_or in Hin as [Hin|[Hin|Hin]]; auto.
  Qed.

  Lemma block_option_here b0 a :
    In a (b_aliases b0) -> NoDup (b_aliases b0) ->
    (forall c, In c (b_aliases b0) -> ~ In c pre /\ ~ In c post) ->
    block_option (pre ++ a :: post) b0 = here (nmand b0).
  Proof.
    intros Ha Hnd Habs. unfold block_option.
    rewrite (alias_loop_single _ _ _ a Ha Hnd).
    - unfold option3. rewrite find_argument_app_here by (apply Habs; auto).
      unfold num_args. rewrite skipn_app_exact. reflexivity.
    - intros c Hc Hne. destruct (Habs c Hc). apply find_other; auto.
  Qed.

  Lemma block_option_elsewhere b0 a :
    ~ In a (b_aliases b0) ->
    (forall c, In c (b_aliases b0) -> ~ In c pre /\ ~ In c post) ->
    block_option (pre ++ a :: post) b0 = Ret None.
  Proof.
    intros Ha Habs. unfold block_option. apply alias_loop_absent.
    intros c Hc. destruct (Habs c Hc). apply find_other; auto. intros ->; contradiction.
  Qed.

  Lemma variant_here b0 a :
    variant_of (pre ++ a :: post) b0 (List.length pre) = existsb (tok_eqb a) (b_variant b0).
  Proof.
    unfold variant_of. rewrite app_nth2, Nat.sub_diag by lia. simpl.
    induction (b_variant b0) as [|v r IH]; simpl; auto. rewrite IH. f_equal.
    destruct (tok_dec a v) as [->|Hne].
    - rewrite !tok_eqb_refl. reflexivity.
    - replace (tok_eqb v a) with false by (symmetry; apply tok_eqb_neq; congruence).
      symmetry; apply tok_eqb_neq; auto.
  Qed.

  (* what the block sequence does on pre ++ alias :: post depends on the alias only through its block and variant bit *)
  Lemma run_blocks_alias a a' bs idx nopt unk :
    (forall b0, In b0 bs -> NoDup (b_aliases b0) /\
                (In a (b_aliases b0) <-> In a' (b_aliases b0)) /\
                (In a (b_aliases b0) -> existsb (tok_eqb a) (b_variant b0) = existsb (tok_eqb a') (b_variant b0)) /\
                (forall c, In c (b_aliases b0) -> ~ In c pre /\ ~ In c post)) ->
    run_blocks (pre ++ a :: post) bs idx nopt unk = run_blocks (pre ++ a' :: post) bs idx nopt unk.
  Proof.
    revert idx nopt; induction bs as [|b0 r IH]; intros idx nopt H; [reflexivity|].
    destruct (H b0 (or_introl eq_refl)) as (Hnd & Hiff & Hvar & Habs).
    assert (Hr : forall b1, In b1 r -> NoDup (b_aliases b1) /\
                (In a (b_aliases b1) <-> In a' (b_aliases b1)) /\
                (In a (b_aliases b1) -> existsb (tok_eqb a) (b_variant b1) = existsb (tok_eqb a') (b_variant b1)) /\
                (forall c, In c (b_aliases b1) -> ~ In c pre /\ ~ In c post))
      by (intros b1 Hb1; apply H; simpl; auto).
    cbn [run_blocks].
    destruct (in_dec tok_dec a (b_aliases b0)) as [Hin|Hnin].
    - rewrite (block_option_here b0 a Hin Hnd Habs), (block_option_here b0 a' (proj1 Hiff Hin) Hnd Habs).
      unfold here. destruct (count_args post <? nmand b0); [reflexivity|].
      destruct (negb (nopt =? 0)); [reflexivity|].
      rewrite !variant_here, (Hvar Hin).
      assert (Hn : num_args (pre ++ a :: post) (List.length pre) = num_args (pre ++ a' :: post) (List.length pre))
        by (unfold num_args; rewrite !skipn_app_exact; reflexivity).
      rewrite Hn.
      assert (Hl : List.length (pre ++ a :: post) = List.length (pre ++ a' :: post))
        by (rewrite !app_length; reflexivity).
      rewrite Hl. rewrite (IH (S idx) 1 Hr). reflexivity.
    - assert (Hnin' : ~ In a' (b_aliases b0)) by (intros X; apply Hnin; apply Hiff; auto).
      rewrite (block_option_elsewhere b0 a Hnin Habs), (block_option_elsewhere b0 a' Hnin' Habs).
      apply IH; auto.
  Qed.
End Aliases.

Lemma existsb_eqb_in a l : existsb (tok_eqb a) l = true <-> In a l.
Proof.
  rewrite existsb_exists. split.
  - intros (x & Hx & E). apply tok_eqb_eq in E. subst; auto.
  - intros H. exists a. split; auto. apply tok_eqb_refl.
Qed.

Lemma aliases_equivalent t b a a' pre post :
  In t gen_tools -> In b (t_blocks t) -> In a (b_aliases b) -> In a' (b_aliases b) ->
  (In a (b_variant b) <-> In a' (b_variant b)) ->
  (forall c, In c (all_aliases t) -> ~ In c pre /\ ~ In c post) ->
  run_blocks (pre ++ a :: post) (t_blocks t) 0 0 (t_unknown_exit t) =
  run_blocks (pre ++ a' :: post) (t_blocks t) 0 0 (t_unknown_exit t).
Proof.
  intros Ht Hb Ha Ha' Hv Habs.
  pose proof (in_gen t gen_aliases_ok Ht) as Hok. unfold aliases_ok in Hok.
  apply andb_true_iff in Hok as [Hnd _]. apply nodupb_NoDup in Hnd. unfold all_aliases in *.
  apply run_blocks_alias. intros b0 Hb0.
  assert (Hsame : forall x, In x (b_aliases b) -> In x (b_aliases b0) -> b0 = b).
  { intros x Hx Hx0. apply In_nth_error in Hb as [j Hj]. apply In_nth_error in Hb0 as [j0 Hj0].
    pose proof (flat_map_NoDup_disj b_aliases (t_blocks t) j j0 b b0 x Hnd Hj Hj0 Hx Hx0) as E. subst.
    congruence. }
  split; [eapply flat_map_NoDup_inner; eauto|]. split; [|split].
  - split; intros Hx.
    + rewrite (Hsame a Ha Hx); auto.
    + rewrite (Hsame a' Ha' Hx); auto.
  - intros Hx. rewrite (Hsame a Ha Hx).
    destruct (existsb (tok_eqb a) (b_variant b)) eqn:E1, (existsb (tok_eqb a') (b_variant b)) eqn:E2; auto.
    + apply existsb_eqb_in in E1. apply Hv in E1. apply existsb_eqb_in in E1. congruence.
    + apply existsb_eqb_in in E2. apply Hv in E2. apply existsb_eqb_in in E2. congruence.
  - intros c Hc. apply Habs. apply in_flat_map. exists b0; auto.
Qed.

(* ---------------------------------------------------------------- typed options *)
Lemma nth_error_after {A} (pre : list A) x y post : nth_error (pre ++ x :: y :: post) (S (List.length pre)) = Some y.
Proof. induction pre as [|a pre IH]; simpl; auto. Qed.
Lemma nth_error_after_last {A} (pre : list A) x : nth_error (pre ++ [x]) (S (List.length pre)) = None.
Proof. induction pre as [|a pre IH]; simpl; auto. Qed.

Lemma typed_reads_next_token pre name v post :
  ~ In name pre -> typed_lookup (pre ++ name :: v :: post) name = VAt (S (List.length pre)) v.
Proof.
  intros H. unfold typed_lookup. rewrite find_argument_app_here by auto. rewrite nth_error_after. reflexivity.
Qed.

Lemma typed_name_last pre name :
  ~ In name pre -> typed_lookup (pre ++ [name]) name = VAtEnd.
Proof.
  intros H. unfold typed_lookup. rewrite find_argument_app_here by auto. rewrite nth_error_after_last. reflexivity.
Qed.

(* ---------------------------------------------------------------- documented option names *)
Lemma documented_accepted t a :
  In t gen_tools -> In a (t_documented t) -> exists b, In b (t_blocks t) /\ In a (b_aliases b).
Proof.
  intros Ht Ha. pose proof (in_gen t gen_documented_ok Ht) as H. unfold documented_ok in H.
  rewrite forallb_forall in H. specialize (H a Ha). apply existsb_exists in H as (x & Hx & E).
  apply tok_eqb_eq in E. subst x. apply in_flat_map in Hx. exact Hx.
Qed.

(* ---------------------------------------------------------------- every given parameter is consumed *)
Lemma covers_read b n i k :
  covers b n = true -> 1 <= k <= n -> In (k, i + k) (block_reads b i n).
Proof.
  unfold covers, reads_at, block_reads. intros H Hk. rewrite forallb_forall in H.
  assert (Hin : In k (seq 1 n)) by (apply in_seq; lia).
  specialize (H k Hin). apply existsb_exists in H as (x & Hx & E). apply Nat.eqb_eq in E. subst x.
  apply in_map_iff in Hx as (u & Hu & Hf). apply in_map_iff. exists u. split; [rewrite Hu; reflexivity|exact Hf].
Qed.

Lemma documented_parameters_all_read t b argv i k :
  In t gen_tools -> In b (t_blocks t) -> block_option argv b = Ret (Some i) ->
  (num_args argv i = nmand b \/ num_args argv i = List.length (b_parms b)) ->
  1 <= k <= num_args argv i -> In (k, i + k) (block_reads b i (num_args argv i)).
Proof.
  intros Ht Hb _ Hn Hk. pose proof (in_gen t gen_params_used_ok Ht) as H. unfold tool_params_used_ok in H.
  rewrite forallb_forall in H. specialize (H b Hb). unfold params_used_ok in H. apply andb_true_iff in H as [H1 H2].
  destruct Hn as [Hn|Hn]; rewrite Hn in *; apply covers_read; auto.
Qed.

(* ---------------------------------------------------------------- options are counted before any block runs *)
Lemma two_in_filter {A} (f : A -> bool) (l : list A) a a' :
  a <> a' -> In a l -> In a' l -> f a = true -> f a' = true -> 2 <= List.length (filter f l).
Proof.
  intros Hne. induction l as [|x l IH]; intros Ha Ha' Hf Hf'; [contradiction|].
  simpl. destruct Ha as [->|Ha], Ha' as [->|Ha'].
  - contradiction.
  - rewrite Hf. simpl. assert (In a' (filter f l)) by (apply filter_In; auto).
    destruct (filter f l); [contradiction|simpl; lia].
  - rewrite Hf'. simpl. assert (In a (filter f l)) by (apply filter_In; auto).
    destruct (filter f l); [contradiction|simpl; lia].
  - specialize (IH Ha Ha' Hf Hf'). destruct (f x); simpl; lia.
Qed.

Lemma aliases_found_or_absent argv (al : list tok) :
  (exists a, In a al /\ In a argv) \/ (forall a, In a al -> find_argument argv a = None).
Proof.
  induction al as [|a r IH].
  - right. intros a [].
  - destruct IH as [(x & Hx & Hin)|IH]; [left; exists x; simpl; auto|].
    destruct (find_argument argv a) as [i|] eqn:E.
    + left. exists a. split; [simpl; auto|]. apply find_argument_some in E as [E _]. eapply nth_error_In; eauto.
    + right. intros x [<-|Hx]; auto.
Qed.

Lemma present_alias argv b : present argv b -> exists a, In a (b_aliases b) /\ In a argv.
Proof.
  unfold present, block_option. intros H.
  destruct (aliases_found_or_absent argv (b_aliases b)) as [G|G]; auto.
  exfalso. apply H. apply alias_loop_absent. exact G.
Qed.

Lemma pre_exit_none_cond t argv p c :
  pre_exit t argv = None -> In p (t_pre t) -> In c (pc_conds p) -> cond_holds t argv c = false.
Proof.
  intros Hpre Hp Hc. destruct (cond_holds t argv c) eqn:E; auto. exfalso.
  eapply (pre_exit_from_cond t argv (t_pre t) p c); eauto.
Qed.

Lemma rejected_runs_nothing_full t argv c :
  In t gen_tools -> is_dash (hd [] argv) = false ->
  r_final (run_tool t argv) = FExit c -> r_execs (run_tool t argv) = [].
Proof.
  intros Ht Hh Hf. destruct (pre_exit t argv) as [c0|] eqn:Hpre.
  - unfold run_tool. rewrite Hpre. reflexivity.
  - destruct (t_blocks t) as [|b0 bs] eqn:Eb.
    + unfold run_tool. rewrite Hpre, Eb. destruct (existsb _ _); reflexivity.
    + assert (Hne : t_blocks t <> []) by (rewrite Eb; discriminate).
      apply (rejected_runs_nothing t argv c Hpre Hne); auto.
      intros j j' b b' Hj Hj' Hp Hp'.
      destruct (Nat.eq_dec j j') as [|Hjj]; auto. exfalso.
      pose proof (in_gen t gen_option_count_ok Ht) as Hoc. unfold option_count_ok in Hoc. rewrite Eb in Hoc.
      apply existsb_exists in Hoc as (p & Hpin & Hoc). apply existsb_exists in Hoc as (cd & Hcd & Hm).
      destruct cd as [| | |ign|]; simpl in Hm; try discriminate.
      pose proof (pre_exit_none_cond t argv p (CManyOptions ign) Hpre Hpin Hcd) as Hfalse. simpl in Hfalse.
      apply Nat.ltb_ge in Hfalse.
      destruct (present_alias argv b Hp) as (a & Ha & Hina). destruct (present_alias argv b' Hp') as (a' & Ha' & Hina').
      pose proof (in_gen t gen_aliases_ok Ht) as Hok. unfold aliases_ok in Hok.
      apply andb_true_iff in Hok as [Hnd _]. apply nodupb_NoDup in Hnd. unfold all_aliases in *.
      assert (Haa : a <> a').
      { intros <-. apply Hjj. eapply (flat_map_NoDup_disj b_aliases (t_blocks t) j j' b b' a); eauto. }
      rewrite forallb_forall in Hm.
      assert (Hca : counted_option ign a = true) by (apply Hm; apply in_flat_map; exists b; split; auto; eapply nth_error_In; eauto).
      assert (Hca' : counted_option ign a' = true) by (apply Hm; apply in_flat_map; exists b'; split; auto; eapply nth_error_In; eauto).
      assert (Hd : is_dash a = true) by (unfold counted_option in Hca; apply andb_true_iff in Hca as [X _]; exact X).
      assert (Hd' : is_dash a' = true) by (unfold counted_option in Hca'; apply andb_true_iff in Hca' as [X _]; exact X).
      destruct argv as [|h rest]; [contradiction|]. simpl in Hh.
      assert (Hr : In a rest) by (destruct Hina as [<-|X]; [congruence|exact X]).
      assert (Hr' : In a' rest) by (destruct Hina' as [<-|X]; [congruence|exact X]).
      pose proof (two_in_filter (counted_option ign) rest a a' Haa Hr Hr' Hca Hca') as H2.
      unfold num_options in Hfalse. simpl in Hfalse. lia.
Qed.

(* ---------------------------------------------------------------- typed-option tools reject what they do not know *)
Lemma unknown_argument_rejected t argv i :
  In t gen_tools -> has_unknown_check t = true -> help_mode argv = false ->
  1 <= i < List.length argv -> marked t argv i = false ->
  exists c, c <> 0%Z /\ r_final (run_tool t argv) = FExit c /\ r_execs (run_tool t argv) = [].
Proof.
  intros Ht Hu Hh Hi Hm. destruct (pre_exit t argv) as [c|] eqn:E.
  - exists c. eapply early_return_nonzero; eauto.
  - exfalso. unfold has_unknown_check in Hu. apply existsb_exists in Hu as (p & Hp & Hu).
    apply existsb_exists in Hu as (cd & Hcd & Hk). destruct cd; try discriminate.
    pose proof (pre_exit_none_cond t argv p CUnknown E Hp Hcd) as Hf. simpl in Hf.
    unfold unknown_argument in Hf.
    destruct (find (fun i0 => negb (marked t argv i0)) (seq 1 (List.length argv - 1))) eqn:F; [discriminate|].
    assert (Hin : In i (seq 1 (List.length argv - 1))) by (apply in_seq; lia).
    pose proof (find_none _ _ F i Hin) as Hn. cbv beta in Hn. rewrite Hm in Hn. discriminate.
Qed.

(* a string option followed by something that starts with '-' keeps its default *)
Lemma string_value_skips_option pre name v post dflt :
  ~ In name pre -> is_dash v = true -> string_value (pre ++ name :: v :: post) name dflt = dflt.
Proof. intros H Hv. unfold string_value. rewrite typed_reads_next_token by auto. rewrite Hv. reflexivity. Qed.

(* ---------------------------------------------------------------- documented order = order read *)
Lemma documented_order_read t b argv i u :
  In t gen_tools -> In b (t_blocks t) -> block_option argv b = Ret (Some i) ->
  (num_args argv i = List.length (doc_full b) \/ num_args argv i = List.length (doc_mand b)) ->
  In u (b_uses b) -> guard_holds (u_guard u) (num_args argv i) = true -> 1 <= u_k u ->
  exists d, nth_error (if num_args argv i =? List.length (doc_full b) then doc_full b else doc_mand b) (u_k u - 1) = Some d
            /\ compat d (u_kind u) = true.
Proof.
  intros Ht Hb _ Hn Hu Hg Hk.
  pose proof (in_gen t gen_doc_order_ok Ht) as H. unfold tool_doc_order_ok in H.
  rewrite forallb_forall in H. specialize (H b Hb). unfold doc_order_ok in H.
  apply andb_true_iff in H as [H _]. apply andb_true_iff in H as [H _]. apply andb_true_iff in H as [Hfull Hmand].
  assert (G : forall docs, line_ok b docs = true -> num_args argv i = List.length docs ->
              exists d, nth_error docs (u_k u - 1) = Some d /\ compat d (u_kind u) = true).
  { intros docs Hl Hlen. unfold line_ok in Hl. rewrite forallb_forall in Hl. specialize (Hl u Hu).
    unfold use_follows_doc in Hl. rewrite <- Hlen, Hg in Hl.
    replace (1 <=? u_k u) with true in Hl by (symmetry; apply Nat.leb_le; exact Hk). simpl in Hl.
    destruct (nth_error docs (u_k u - 1)) as [d|]; [|discriminate]. exists d; auto. }
  destruct (Nat.eqb_spec (num_args argv i) (List.length (doc_full b))) as [E|E].
  - apply G; auto.
  - destruct Hn as [Hn|Hn]; [contradiction|]. apply G; auto.
Qed.

(* ---------------------------------------------------------------- -old-ordering reaches every Geometry *)
Lemma gen_flag_vars_unique :
  forallb (fun t0 => forallb (fun d1 => forallb (fun d2 => implb (tok_eqb (d_var d2) (d_var d1)) (tok_eqb (d_name d2) (d_name d1)))
                                         (flag_decls t0)) (flag_decls t0)) gen_tools = true.
Proof. vm_compute. reflexivity. Qed.

Lemma old_ordering_reaches_every_geometry t b argv o :
  In t gen_tools -> ordering_var t <> None -> In b (t_blocks t) -> In o (block_orderings t argv b) ->
  o = bool_value argv tok_old_ordering false.
Proof.
  intros Ht Hv Hb Ho. pose proof (in_gen t gen_geo_ordering_ok Ht) as H. unfold geo_ordering_ok in H.
  unfold ordering_var in *.
  destruct (find (fun d => tok_eqb (d_name d) tok_old_ordering) (flag_decls t)) as [d|] eqn:F; [|contradiction].
  rewrite forallb_forall in H. specialize (H b Hb). rewrite forallb_forall in H.
  unfold block_orderings in Ho. apply in_map_iff in Ho as (g & <- & Hg). specialize (H g Hg).
  apply tok_eqb_eq in H. subst g. unfold flag_value.
  apply find_some in F as [Hin Hn]. apply tok_eqb_eq in Hn.
  destruct (find (fun d0 => tok_eqb (d_var d0) (d_var d)) (flag_decls t)) as [d'|] eqn:F'.
  - apply find_some in F' as [Hin' Hn'].
    pose proof gen_flag_vars_unique as Huniq.
    rewrite forallb_forall in Huniq. specialize (Huniq t Ht). rewrite forallb_forall in Huniq. specialize (Huniq d Hin).
    rewrite forallb_forall in Huniq. specialize (Huniq d' Hin'). rewrite Hn' in Huniq. simpl in Huniq.
    apply tok_eqb_eq in Huniq. rewrite Huniq, Hn. reflexivity.
  - exfalso. pose proof (find_none _ _ F' d Hin) as X. cbv beta in X.
    rewrite tok_eqb_refl in X. discriminate.
Qed.

(* ---------------------------------------------------------------- alias -> variant partition *)
Lemma alias_variant_partition t b a :
  In t gen_tools -> In b (t_blocks t) -> In a (t_documented t) -> ~ In a (b_variant b).
Proof.
  intros Ht Hb Hd Hv. pose proof (in_gen t gen_variant_doc_ok Ht) as H. unfold variant_doc_ok in H.
  rewrite forallb_forall in H. specialize (H b Hb). rewrite forallb_forall in H. specialize (H a Hv).
  apply negb_true_iff in H. assert (existsb (tok_eqb a) (t_documented t) = true); [|congruence].
  apply existsb_exists. exists a. split; auto. apply tok_eqb_refl.
Qed.

Lemma documented_alias_default_variant t b a pre post :
  In t gen_tools -> In b (t_blocks t) -> In a (t_documented t) ->
  variant_of (pre ++ a :: post) b (List.length pre) = false.
Proof.
  intros Ht Hb Hd. rewrite variant_here.
  destruct (existsb (tok_eqb a) (b_variant b)) eqn:E; auto. exfalso.
  apply existsb_eqb_in in E. eapply alias_variant_partition; eauto.
Qed.

(* ---------------------------------------------------------------- the parameters of an option end at the next '-' argument *)
Lemma truncated_then_flag_rejected pre a args flag post nm :
  ~ In a pre -> Forall (fun x => is_dash x = false) args -> is_dash flag = true -> List.length args < nm ->
  option3 (pre ++ a :: args ++ flag :: post) a nm = Exit 1%Z.
Proof.
  intros Ha Hargs Hflag Hlen. unfold option3. rewrite find_argument_app_here by auto.
  rewrite num_args_cut by auto. replace (List.length args <? nm) with true by (symmetry; apply Nat.ltb_lt; exact Hlen).
  reflexivity.
Qed.
