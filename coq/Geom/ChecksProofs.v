(* Lemmas about the orchestration of the validity checks (theorems of C12); every statement is for an arbitrary
   triangle-triangle predicate [isect] and point-in-interface predicate [inside]. *)
From Coq Require Import List Bool Arith Lia.
From OM Require Import Geom.Checks.
Import ListNotations.

Section Proofs.
Variable T : Type.
Variable vid : T -> nat * nat * nat.
Variable isect : T -> T -> bool.
Notation contains := (contains T vid).
Notation v3 := (v3 T vid).
Notation share_no_vertex := (share_no_vertex T vid).
Notation guard_pinned := (guard_pinned T vid).
Notation has_self_intersection := (has_self_intersection T vid isect).
Notation has_self_intersection_pinned := (has_self_intersection_pinned T vid isect).
Notation mesh_intersection := (mesh_intersection T isect).
Notation self_check := (self_check T vid isect).
Notation check_mesh := (check_mesh T vid isect).

Lemma fold_or {A} (f : A -> bool) l : forall acc,
  fold_left (fun a x => if f x then true else a) l acc = acc || existsb f l.
Proof.
  induction l; intros; simpl; [rewrite orb_false_r; auto|].
  rewrite IHl. destruct (f a), acc; simpl; auto.
Qed.
Lemma fold_and {A} (f : A -> bool) l : forall acc,
  fold_left (fun a x => if f x then false else a) l acc = acc && forallb (fun x => negb (f x)) l.
Proof.
  induction l; intros; simpl; [rewrite andb_true_r; auto|].
  rewrite IHl. destruct (f a), acc; simpl; auto.
Qed.

Lemma inner_loop_spec guard t1 rest : forall acc,
  inner_loop T isect guard t1 rest acc = acc || existsb (fun t2 => guard t1 t2 && isect t1 t2) rest.
Proof.
  unfold inner_loop. induction rest; intros; simpl; [rewrite orb_false_r; auto|].
  rewrite IHrest. destruct (guard t1 a), (isect t1 a), acc; simpl; auto.
Qed.

Fixpoint pairs_ex (guard : T -> T -> bool) (ts : list T) : bool :=
  match ts with
  | [] => false
  | t1 :: r => existsb (fun t2 => guard t1 t2 && isect t1 t2) (t1 :: r) || pairs_ex guard r
  end.

Lemma hsi_loop_spec guard ts : forall acc, hsi_loop T isect guard ts acc = acc || pairs_ex guard ts.
Proof.
  induction ts; intros; [simpl; rewrite orb_false_r; auto|].
  cbn [hsi_loop pairs_ex]. rewrite IHts, inner_loop_spec. rewrite orb_assoc. reflexivity.
Qed.

Lemma pairs_ex_iff guard ts : pairs_ex guard ts = true <->
  exists l1 t1 l2 t2, ts = l1 ++ t1 :: l2 /\ In t2 (t1 :: l2) /\ guard t1 t2 = true /\ isect t1 t2 = true.
Proof.
  induction ts; cbn [pairs_ex].
  - split; [discriminate|]. intros (l1 & t1 & l2 & t2 & E & _). destruct l1; discriminate.
  - rewrite orb_true_iff, IHts, existsb_exists. split.
    + intros [(t2 & Hin & H) | (l1 & t1 & l2 & t2 & E & Hin & G & I)].
      * apply andb_true_iff in H. exists [], a, ts, t2. tauto.
      * exists (a :: l1), t1, l2, t2. subst. auto.
    + intros (l1 & t1 & l2 & t2 & E & Hin & G & I). destruct l1 as [|x l1]; simpl in E; inversion E; subst.
      * left. exists t2. rewrite G, I. auto.
      * right. exists l1, t1, l2, t2. auto.
Qed.

(* vertex-disjointness as a proposition *)
Definition disjoint_vertices (t1 t2 : T) : Prop := forall k l, (k < 3)%nat -> (l < 3)%nat -> v3 t1 k <> v3 t2 l.

Lemma contains_iff t v : contains t v = true <-> exists k, (k < 3)%nat /\ v3 t k = v.
Proof.
  unfold Checks.contains. rewrite !orb_true_iff, !Nat.eqb_eq. split.
  - intros [[H | H] | H]; [exists 0%nat | exists 1%nat | exists 2%nat]; auto.
  - intros (k & Hk & H). destruct k as [|[|[|k]]]; [auto | auto | auto | lia].
Qed.

Lemma share_no_vertex_iff t1 t2 : share_no_vertex t1 t2 = true <-> disjoint_vertices t1 t2.
Proof.
  unfold Checks.share_no_vertex, disjoint_vertices. rewrite !andb_true_iff, !negb_true_iff. split.
  - intros [[H0 H1] H2] k l Hk Hl E.
    assert (C : contains t1 (v3 t2 l) = true) by (apply contains_iff; eauto).
    destruct l as [|[|[|l]]]; [congruence | congruence | congruence | lia].
  - intros H. repeat split; apply not_true_is_false; intro C; apply contains_iff in C; destruct C as (k & Hk & E);
      [apply (H k 0%nat) | apply (H k 1%nat) | apply (H k 2%nat)]; auto.
Qed.

Lemma share_no_vertex_sym t1 t2 : share_no_vertex t1 t2 = share_no_vertex t2 t1.
Proof.
  apply eq_true_iff_eq. rewrite !share_no_vertex_iff. unfold disjoint_vertices.
  split; intros H k l Hk Hl E; apply (H l k Hl Hk); auto.
Qed.

(* has_self_intersection (repaired): reports exactly the intersecting pairs that share no vertex *)
Lemma self_intersection_iff_ordered (m : list T) : has_self_intersection m = true <->
  exists l1 t1 l2 t2, m = l1 ++ t1 :: l2 /\ In t2 (t1 :: l2) /\ disjoint_vertices t1 t2 /\ isect t1 t2 = true.
Proof.
  unfold Checks.has_self_intersection. rewrite hsi_loop_spec. cbn [orb]. rewrite pairs_ex_iff.
  split; intros (l1 & t1 & l2 & t2 & E & Hin & G & I); exists l1, t1, l2, t2; repeat split; auto; apply share_no_vertex_iff; auto.
Qed.

Lemma self_intersection_iff (m : list T) : (forall a b, isect a b = isect b a) ->
  (has_self_intersection m = true <->
   exists t1 t2, In t1 m /\ In t2 m /\ disjoint_vertices t1 t2 /\ isect t1 t2 = true).
Proof.
  intro Hsym. rewrite self_intersection_iff_ordered. split.
  - intros (l1 & t1 & l2 & t2 & E & Hin & G & I). exists t1, t2. subst. repeat split; auto.
    + apply in_app_iff. right. left. auto.
    + apply in_app_iff. right. auto.
  - intros (t1 & t2 & H1 & H2 & G & I).
    apply in_split in H1. destruct H1 as (l1 & l2 & E).
    assert (In t2 l1 \/ In t2 (t1 :: l2)) by (subst; apply in_app_iff in H2; auto).
    destruct H as [H | H].
    + apply in_split in H. destruct H as (l3 & l4 & E').
      exists l3, t2, (l4 ++ t1 :: l2), t1. subst. rewrite <- app_assoc. simpl. repeat split; auto.
      * right. apply in_app_iff. right. left. auto.
      * intros k l Hk Hl Eq. apply (G l k Hl Hk). auto.
      * rewrite Hsym. auto.
    + exists l1, t1, l2, t2. auto.
Qed.

(* the pinned guard is constantly false: nothing is ever reported *)
Lemma guard_pinned_false t1 t2 : guard_pinned t1 t2 = false.
Proof.
  unfold Checks.guard_pinned. assert (contains t1 (v3 t1 2) = true) by (apply contains_iff; exists 2%nat; auto).
  rewrite H. simpl. rewrite andb_false_r. reflexivity.
Qed.
Lemma pinned_never_reports (m : list T) : has_self_intersection_pinned m = false.
Proof.
  unfold Checks.has_self_intersection_pinned. rewrite hsi_loop_spec. cbn [orb].
  induction m; cbn [pairs_ex]; auto. rewrite IHm, orb_false_r.
  apply not_true_is_false. rewrite existsb_exists. intros (x & _ & H). rewrite guard_pinned_false in H. discriminate.
Qed.

Lemma mesh_intersection_iff (m1 m2 : list T) : mesh_intersection m1 m2 = true <->
  exists t1 t2, In t1 m1 /\ In t2 m2 /\ isect t1 t2 = true.
Proof.
  unfold Checks.mesh_intersection.
  assert (Hin : forall t1 acc, fold_left (fun a' t2 => a' || isect t1 t2) m2 acc = acc || existsb (isect t1) m2).
  { intro t1. induction m2 as [|x m2 IHm2]; intros; simpl; [rewrite orb_false_r; auto|]. rewrite IHm2. rewrite orb_assoc. reflexivity. }
  assert (Hout : forall acc, fold_left (fun a t1 => fold_left (fun a' t2 => a' || isect t1 t2) m2 a) m1 acc
                             = acc || existsb (fun t1 => existsb (isect t1) m2) m1).
  { induction m1 as [|x m1 IHm1]; intros; simpl; [rewrite orb_false_r; auto|]. rewrite IHm1, Hin, orb_assoc. reflexivity. }
  rewrite Hout. cbn [orb]. rewrite existsb_exists. split.
  - intros (t1 & H1 & H). apply existsb_exists in H. destruct H as (t2 & H2 & H). eauto.
  - intros (t1 & t2 & H1 & H2 & H). exists t1. split; auto. apply existsb_exists. eauto.
Qed.

Lemma self_check_loop_spec nested ms : forall ok,
  self_check_loop T vid isect nested ms ok = true <->
  ok = true /\ (forall m, In m ms -> has_self_intersection m = false) /\
  (nested = true -> forall l1 m1 l2 m2, ms = l1 ++ m1 :: l2 -> In m2 l2 -> mesh_intersection m1 m2 = false).
Proof.
  induction ms as [|m1 r IH]; intros ok; cbn [self_check_loop].
  - split; [intro; split; auto; split; [intros m []|]|tauto].
    intros _ l1 m1 l2 m2 E. destruct l1; discriminate.
  - rewrite IH. clear IH. split.
    + intros (Hok & Hself & Hpair).
      destruct nested.
      * rewrite fold_and in Hok. apply andb_true_iff in Hok. destruct Hok as [Hok Hall].
        destruct (has_self_intersection m1) eqn:E1; [discriminate|].
        rewrite forallb_forall in Hall.
        split; [auto|]. split.
        -- intros m [Hm | Hm]; [subst; auto | auto].
        -- intros _ l1 m l2 m2 E Hin. destruct l1 as [|x l1]; simpl in E; inversion E; subst.
           ++ apply negb_true_iff. apply Hall. auto.
           ++ eapply Hpair; eauto.
      * destruct (has_self_intersection m1) eqn:E1; [discriminate|].
        split; [auto|]. split; [|discriminate]. intros m [Hm | Hm]; [subst; auto | auto].
    + intros (Hok & Hself & Hpair). subst ok.
      rewrite (Hself m1 (or_introl eq_refl)).
      split; [|split].
      * destruct nested; auto. rewrite fold_and. simpl. apply forallb_forall. intros m2 Hin.
        apply negb_true_iff. apply (Hpair eq_refl [] m1 r m2); auto.
      * intros m Hm. apply Hself. right. auto.
      * intros Hn l1 m l2 m2 E Hin. apply (Hpair Hn (m1 :: l1) m l2 m2); [subst; auto | auto].
Qed.

Lemma self_check_iff nested ms : self_check nested ms = true <->
  (forall m, In m ms -> has_self_intersection m = false) /\
  (nested = true -> forall l1 m1 l2 m2, ms = l1 ++ m1 :: l2 -> In m2 l2 -> mesh_intersection m1 m2 = false).
Proof. unfold Checks.self_check. rewrite self_check_loop_spec. tauto. Qed.

Lemma check_mesh_iff ms m : check_mesh ms m = true <->
  has_self_intersection m = false /\ forall mesh, In mesh ms -> mesh_intersection mesh m = false.
Proof.
  unfold Checks.check_mesh. rewrite fold_and, andb_true_iff, forallb_forall. split.
  - intros [H1 H2]. split; [destruct (has_self_intersection m); [discriminate|auto]|].
    intros mesh Hin. apply negb_true_iff. auto.
  - intros [H1 H2]. rewrite H1. split; auto. intros x Hin. apply negb_true_iff. auto.
Qed.

Variable P : Type.
Variable inside : P -> bool.
Lemma n_outside_zero ds : n_outside P inside ds = 0%nat <-> forall d, In d ds -> inside d = true.
Proof.
  unfold n_outside.
  assert (G : forall n, fold_left (fun n d => if inside d then n else S n) ds n = 0%nat <->
                        n = 0%nat /\ forall d, In d ds -> inside d = true).
  { induction ds; intros; simpl; [split; [intro; split; auto; intros d []|tauto]|].
    rewrite IHds. destruct (inside a) eqn:E.
    - split; intros [H1 H2]; split; auto. intros d [Hd | Hd]; [subst; auto | auto].
    - split; [intros [H1 _]; discriminate|]. intros [_ H]. rewrite (H a (or_introl eq_refl)) in E. discriminate. }
  rewrite G. tauto.
Qed.

Lemma check_inner_iff nested ds : check_inner P inside nested ds = true <->
  nested = true /\ forall d, In d ds -> inside d = true.
Proof.
  unfold Checks.check_inner. destruct nested; simpl; [|split; [discriminate|intros [H _]; discriminate]].
  destruct (Nat.eqb (n_outside P inside ds) 0) eqn:E; simpl.
  - apply Nat.eqb_eq in E. pose proof (proj1 (n_outside_zero ds) E). tauto.
  - apply Nat.eqb_neq in E. split; [discriminate|]. intros [_ H]. exfalso. apply E. apply (proj2 (n_outside_zero ds)). auto.
Qed.

Lemma tool_exit_status nested ms m dips :
  (om_check_geom T vid isect P inside nested ms m dips = 0%nat \/ om_check_geom T vid isect P inside nested ms m dips = 1%nat) /\
  (om_check_geom T vid isect P inside nested ms m dips = 0%nat <->
   self_check nested ms = true /\
   (forall mm, m = Some mm -> check_mesh ms mm = true) /\
   (forall ds, dips = Some ds -> nested = true /\ check_inner P inside nested ds = true)).
Proof.
  unfold om_check_geom.
  destruct (self_check nested ms) eqn:ES; simpl.
  2: { split; [auto|]. split; [discriminate|]. intros [H _]; discriminate. }
  destruct m as [mm|]; destruct dips as [ds|]; simpl;
    repeat match goal with |- context [check_mesh ms ?x] => destruct (check_mesh ms x) eqn:? end; simpl;
    destruct nested; simpl;
    repeat match goal with |- context [check_inner P inside ?b ?x] => destruct (check_inner P inside b x) eqn:? end; simpl;
    (split; [auto|]; split;
      [ try discriminate; intros _; repeat split; auto; intros; try discriminate;
        repeat match goal with E : Some _ = Some _ |- _ => inversion E; subst; clear E end; auto
      | try (intros _; reflexivity); intros (_ & Hm & Hd);
        try (specialize (Hm _ eq_refl); congruence);
        try (destruct (Hd _ eq_refl); congruence) ]).
Qed.

Lemma assemble_refuses {HM} (assemble : list (list T) -> HM) nested ms :
  (om_assemble_hm T vid isect assemble nested ms = (0%nat, Some (assemble ms)) <-> self_check nested ms = true) /\
  (om_assemble_hm T vid isect assemble nested ms = (1%nat, None) <-> self_check nested ms = false).
Proof.
  unfold om_assemble_hm. destruct (self_check nested ms); simpl; split; split; auto; discriminate.
Qed.
End Proofs.

(* The checks do not depend on anything attached to a triangle besides the identities of its vertices and what the
   predicate sees: decorate every triangle with arbitrary data D (its index in the geometry - unsigned(-1) for an
   isolated mesh -, the current-barrier / isolated / outermost flags of its mesh, ...): the verdicts are those of the
   undecorated meshes.  In particular selfCheck is the same with and without a conductivity file. *)
Section Decorated.
Variable T D : Type.
Variable vid : T -> nat * nat * nat.
Variable isect : T -> T -> bool.
Let T' : Type := (D * T)%type.
Let vid' (t : T') := vid (snd t).
Let isect' (a b : T') := isect (snd a) (snd b).

Lemma existsb_map {A B} (f : A -> B) (g : B -> bool) l : existsb g (map f l) = existsb (fun x => g (f x)) l.
Proof. induction l; simpl; auto. rewrite IHl. reflexivity. Qed.

Lemma existsb_ext' {A} (f g : A -> bool) l : (forall x, f x = g x) -> existsb f l = existsb g l.
Proof. intro H. induction l; simpl; auto. rewrite H, IHl. reflexivity. Qed.

Lemma pairs_ex_decorated guard' guard (Hg : forall a b, guard' a b = guard (snd a) (snd b)) (m : list T') :
  pairs_ex T' isect' guard' m = pairs_ex T isect guard (map snd m).
Proof.
  induction m as [|t m IH]; [reflexivity|].
  cbn [pairs_ex map]. rewrite IH. f_equal.
  change (snd t :: map snd m) with (map snd (t :: m)). rewrite existsb_map.
  apply existsb_ext'. intros x. unfold isect'. rewrite Hg. reflexivity.
Qed.

Lemma hsi_decorated (m : list T') :
  has_self_intersection T' vid' isect' m = has_self_intersection T vid isect (map snd m).
Proof.
  unfold has_self_intersection. rewrite !hsi_loop_spec. cbn [orb].
  apply pairs_ex_decorated. intros a b. reflexivity.
Qed.

Lemma mesh_intersection_decorated (m1 m2 : list T') :
  mesh_intersection T' isect' m1 m2 = mesh_intersection T isect (map snd m1) (map snd m2).
Proof.
  apply eq_true_iff_eq. rewrite !mesh_intersection_iff. split.
  - intros (t1 & t2 & H1 & H2 & H). exists (snd t1), (snd t2). repeat split; auto; apply in_map; auto.
  - intros (t1 & t2 & H1 & H2 & H). apply in_map_iff in H1. apply in_map_iff in H2.
    destruct H1 as (a & Ea & Ha), H2 as (b & Eb & Hb). exists a, b. subst. auto.
Qed.

Lemma self_check_decorated nested (ms : list (list T')) :
  self_check T' vid' isect' nested ms = self_check T vid isect nested (map (map snd) ms).
Proof.
  unfold self_check. generalize true.
  induction ms as [|m1 r IH]; intro ok; [reflexivity|].
  cbn [self_check_loop map]. rewrite hsi_decorated.
  set (ok1 := if has_self_intersection T vid isect (map snd m1) then false else ok).
  assert (E : forall a, fold_left (fun a m2 => if mesh_intersection T' isect' m1 m2 then false else a) r a
                      = fold_left (fun a m2 => if mesh_intersection T isect (map snd m1) m2 then false else a) (map (map snd) r) a).
  { clear. induction r as [|m2 r IHr]; intro a; [reflexivity|]. cbn [fold_left map]. rewrite mesh_intersection_decorated. apply IHr. }
  destruct nested; [rewrite E|]; apply IH.
Qed.
End Decorated.
