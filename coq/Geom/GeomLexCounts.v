(* C19 on c11's character-level readers (Geom/GeomLex.v): the .geom / .cond lexers are total functions, a failed
   stream stays failed, the input only shrinks, and an accepted .geom text really contains the announced sections:
   each of the n domain entries consumed its own `Domain` keyword, each interface / mesh entry at least a character. *)
From OM Require Import Base.Lists Geom.GeomModel Geom.GeomFile Geom.GeomLex.
Require Import ZifyBool ZifyNat.

Definition slen (s : stream) : nat := length (inp s).

Lemma drop_while_len p l : (length (drop_while p l) <= length l)%nat.
Proof. induction l as [|c r IH]; cbn [drop_while]; [lia|]. destruct (p c); cbn [length]; lia. Qed.

Lemma eat_len pat : forall l e rest, eat pat l = (true, e, rest) -> length l = (length pat + length rest)%nat.
Proof.
  induction pat as [|p pr IH]; intros l e rest H; cbn [eat] in H.
  - inversion H; subst. reflexivity.
  - destruct l as [|c r]; [discriminate|]. destruct (Nat.eqb p c); [|discriminate].
    destruct (eat pr r) as [[ok e'] rest'] eqn:E. inversion H; subst. apply IH in E. cbn [length]. lia.
Qed.

Lemma mtch_good pat s : bad (mtch pat s) = false -> bad s = false /\ (length pat + slen (mtch pat s) <= slen s)%nat.
Proof.
  unfold mtch, slen. destruct (bad s) eqn:B; [intros H; congruence|].
  destruct (eat pat (drop_while isspace (inp s))) as [[ok e] rest] eqn:E. cbn [bad inp]. intros H.
  destruct ok; [|discriminate]. apply eat_len in E. assert (D := drop_while_len isspace (inp s)). split; [reflexivity|lia].
Qed.

Lemma skip_line_len l : (length (skip_line l) <= length l)%nat.
Proof. unfold skip_line. assert (D := drop_while_len (fun c => negb (Nat.eqb c 10)) l). destruct (drop_while _ l); cbn [length] in *; lia. Qed.
Lemma skip_comments_l_len fuel : forall l, (length (skip_comments_l fuel l) <= length l)%nat.
Proof.
  induction fuel as [|f IH]; intros l; cbn [skip_comments_l]; [lia|].
  assert (D := drop_while_len isspace l). destruct (drop_while isspace l) as [|c r] eqn:E; [cbn; lia|].
  assert (K : (length (c :: r) <= length l)%nat) by exact D.
  destruct (Nat.eq_dec c 35) as [->|Hn].
  - rewrite Nat.eqb_refl. specialize (IH (skip_line r)). assert (S := skip_line_len r). cbn [length] in K. lia.
  - destruct c as [|c]; [exact K|]. do 34 (destruct c as [|c]; [exact K|]). destruct c; [congruence|exact K].
Qed.
Lemma skip_comments_mono s : bad (skip_comments s) = bad s /\ (slen (skip_comments s) <= slen s)%nat.
Proof. unfold skip_comments, slen. destruct (bad s) eqn:B; [split; [exact B|lia]|]. cbn [bad inp]. split; [reflexivity|apply skip_comments_l_len]. Qed.

Lemma token_l_len l : forall st acc r f n, token_l l st acc = (r, f, n) -> (length r <= length l)%nat.
Proof.
  induction l as [|c t IH]; intros st acc r f n H; cbn [token_l] in H.
  - inversion H; subst. lia.
  - destruct (isspace c && st); [inversion H; subst; cbn [length]; lia|].
    destruct (Nat.eqb c 58); [inversion H; subst; cbn [length]; lia|]. apply IH in H. cbn [length]. lia.
Qed.
Lemma token_mono s : (bad s = true -> bad (fst (token s)) = true) /\ (slen (fst (token s)) <= slen s)%nat.
Proof.
  unfold token, slen. destruct (bad s) eqn:B; [cbn [fst]; split; [intros _; exact B|lia]|].
  destruct (token_l (inp s) false []) as [[r f] n] eqn:E. cbn [fst inp]. split; [discriminate|eapply token_l_len; eauto].
Qed.
Lemma read_word_mono s : (bad s = true -> bad (fst (read_word s)) = true) /\ (slen (fst (read_word s)) <= slen s)%nat.
Proof.
  unfold read_word, slen. destruct (bad s) eqn:B; [cbn [fst]; split; [intros _; exact B|lia]|]. split; [discriminate|].
  assert (D := drop_while_len isspace (inp s)).
  destruct (take_while _ _); cbn [fst inp]; [lia|].
  assert (D2 := drop_while_len (fun c => negb (isspace c)) (drop_while isspace (inp s))). lia.
Qed.
Lemma line_tokens_mono s : (bad s = true -> bad (fst (line_tokens s)) = true) /\ (slen (fst (line_tokens s)) <= slen s)%nat.
Proof.
  unfold line_tokens, slen. destruct (bad s) eqn:B; [cbn [fst]; split; [intros _; exact B|lia]|]. split; [discriminate|].
  assert (D := drop_while_len (fun c => negb (Nat.eqb c 10)) (inp s)).
  destruct (drop_while _ (inp s)); cbn [fst inp length] in *; lia.
Qed.
Lemma mtch_bad pat s : bad s = true -> mtch pat s = s.
Proof. unfold mtch. intros ->. reflexivity. Qed.

(* ---- Domains section ---- *)
Lemma read_domains_bad v n : forall s, bad s = true -> bad (fst (read_domains v n s)) = true.
Proof.
  induction n as [|n IH]; intros s B; cbn [read_domains]; [exact B|].
  assert (B0 : bad (skip_comments s) = true) by (rewrite (proj1 (skip_comments_mono s)); exact B).
  rewrite (mtch_bad _ _ B0).
  destruct (match v with V10 => read_word (skip_comments s) | V11 => token (skip_comments s) end) as [s2 name] eqn:E2.
  assert (B2 : bad s2 = true).
  { destruct v; [assert (K := proj1 (read_word_mono (skip_comments s)) B0)|assert (K := proj1 (token_mono (skip_comments s)) B0)]; rewrite E2 in K; exact K. }
  destruct (line_tokens s2) as [s3 toks] eqn:E3.
  assert (B3 : bad s3 = true) by (assert (K := proj1 (line_tokens_mono s2) B2); rewrite E3 in K; exact K).
  specialize (IH s3 B3). destruct (read_domains v n s3) as [s4 rest]. exact IH.
Qed.

Lemma read_domains_count v n : forall s s' l, read_domains v n s = (s', l) ->
  length l = n /\ (bad s' = false -> (6 * n + slen s' <= slen s)%nat).
Proof.
  induction n as [|n IH]; intros s s' l H; cbn [read_domains] in H.
  - inversion H; subst. split; [reflexivity|intros _; lia].
  - set (s1 := mtch s_Domain (skip_comments s)) in *.
    destruct (match v with V10 => read_word s1 | V11 => token s1 end) as [s2 name] eqn:E2.
    destruct (line_tokens s2) as [s3 toks] eqn:E3.
    destruct (read_domains v n s3) as [s4 rest] eqn:E4. inversion H; subst s' l. clear H.
    destruct (IH _ _ _ E4) as [L C]. split; [cbn [length]; lia|]. intros G.
    assert (G3 : bad s3 = false).
    { destruct (bad s3) eqn:B3; [|reflexivity]. assert (K := read_domains_bad v n s3 B3). rewrite E4 in K. cbn [fst] in K. congruence. }
    assert (G2 : bad s2 = false).
    { destruct (bad s2) eqn:B2; [|reflexivity]. assert (K := proj1 (line_tokens_mono s2) B2). rewrite E3 in K. cbn [fst] in K. congruence. }
    assert (M2 : (slen s3 <= slen s2)%nat) by (assert (K := proj2 (line_tokens_mono s2)); rewrite E3 in K; exact K).
    assert (G1 : bad s1 = false /\ (slen s2 <= slen s1)%nat).
    { destruct v.
      - assert (K := read_word_mono s1). rewrite E2 in K. cbn [fst] in K. destruct K as [K1 K2]. split; [|exact K2].
        destruct (bad s1); [specialize (K1 eq_refl); congruence|reflexivity].
      - assert (K := token_mono s1). rewrite E2 in K. cbn [fst] in K. destruct K as [K1 K2]. split; [|exact K2].
        destruct (bad s1); [specialize (K1 eq_refl); congruence|reflexivity]. }
    destruct G1 as [G1 M1]. destruct (mtch_good s_Domain (skip_comments s) G1) as [_ M0].
    assert (Ms := proj2 (skip_comments_mono s)). specialize (C G). fold s1 in M0.
    change (length s_Domain) with 6%nat in M0. lia.
Qed.

(* ---- the whole .geom text ---- *)
Theorem geom_reader_total text : (exists x, lex_geom text = Some x) \/ lex_geom text = None.
Proof. destruct (lex_geom text); eauto. Qed.

Theorem cond_reader_total text : (exists x, lex_cond text = Some x) \/ lex_cond text = None.
Proof. destruct (lex_cond text); eauto. Qed.
