(* C10 -- what deflate adds: exactly coef on every cell of the vertex block of an outermost mesh (rank-one update). *)
From Coq Require Import List NArith ZArith Bool FMapPositive Reals Lra Lia.
From OM Require Import Base.Ops Geom.Assembly Geom.AssemblyProofs.
Import ListNotations.
Local Open Scope R_scope.

Section DeflateValue.
Variable g : igeom R.
Notation mgetR := (mget RO).
Notation maddR := (madd RO).
Notation vixg := (vix g).
Notation dmf := (deflate_mesh_frame (fun _ => (0, 0, 0)) (fun _ => 0) (fun _ _ => 0) (fun _ _ _ => 0) g).

Lemma mget_fold_madd (i : N) (jj : N -> N) (x : R) L M r c :
  mgetR (fold_left (fun M b => maddR M i (jj b) x) L M) r c
  = mgetR M r c + Rsum (fun b => if hit i (jj b) r c then x else 0) L.
Proof.
  revert M; induction L as [|b L IH]; intros M; simpl; [lra|].
  rewrite IH, mget_madd. lra.
Qed.

Lemma hit_vix a b r c (vs : list N) :
  (forall u v, In u vs -> In v vs -> vixg u = vixg v -> u = v) ->
  In a vs -> In b vs -> In r vs -> In c vs ->
  hit (vixg a) (vixg b) (vixg r) (vixg c) = (N.eqb a r && N.eqb b c) || (N.eqb a c && N.eqb b r).
Proof.
  intros Hinj Ha Hb Hr Hc. unfold hit.
  assert (forall u v, In u vs -> In v vs -> N.eqb (vixg u) (vixg v) = N.eqb u v) as E.
  { intros u v Hu Hv. destruct (N.eqb_spec u v) as [->|Hne]; [apply N.eqb_refl|].
    apply N.eqb_neq; intros H; apply Hne, Hinj; auto. }
  rewrite !E by auto. destruct (N.eqb a r), (N.eqb a c); auto.
Qed.

Lemma deflate_mesh_value coef vs : NoDup vs ->
  (forall u v, In u vs -> In v vs -> vixg u = vixg v -> u = v) ->
  forall M r c, In r vs -> In c vs ->
  mgetR (deflate_mesh RO g M coef vs) (vixg r) (vixg c) = mgetR M (vixg r) (vixg c) + coef.
Proof.
  induction vs as [|a rest IH]; intros Hnd Hinj M r c Hr Hc; [contradiction|].
  inversion Hnd as [|? ? Ha Hnd']; subst.
  cbn [deflate_mesh].
  set (M' := fold_left (fun M b => maddR M (vixg a) (vixg b) coef) (a :: rest) M).
  assert (forall b, In b (a :: rest) ->
            hit (vixg a) (vixg b) (vixg r) (vixg c) = (N.eqb a r && N.eqb b c) || (N.eqb a c && N.eqb b r)) as Hh.
  { intros b Hb. apply (hit_vix a b r c (a :: rest)); simpl; auto. }
  assert (mgetR M' (vixg r) (vixg c) = mgetR M (vixg r) (vixg c)
          + Rsum (fun b => if (N.eqb a r && N.eqb b c) || (N.eqb a c && N.eqb b r) then coef else 0) (a :: rest)) as EM.
  { unfold M'. rewrite (mget_fold_madd (vixg a) vixg coef). f_equal. apply Rsum_ext; intros b Hb. rewrite Hh; auto. }
  assert (forall u v, In u rest -> In v rest -> vixg u = vixg v -> u = v) as Hinj' by (intros; apply Hinj; simpl; auto).
  assert (~ In (vixg a) (map vixg rest)) as Hna.
  { intros Hin. apply in_map_iff in Hin. destruct Hin as [b [Eb Hb]]. assert (b = a) by (apply Hinj; simpl; auto). subst; auto. }
  destruct (N.eqb_spec a r) as [<-|Har].
  - (* r = a *)
    rewrite dmf by (left; exact Hna). rewrite EM. f_equal.
    transitivity (Rsum (fun b => if N.eqb b c then coef else 0) (a :: rest)).
    { apply Rsum_ext; intros b Hb. simpl. destruct (N.eqb_spec b c) as [->|Hbc]; simpl; auto.
      destruct (N.eqb_spec a c) as [<-|]; simpl; auto.
      destruct (N.eqb_spec b a) as [->|]; auto. congruence. }
    rewrite (Rsum_spike (fun _ => coef) c (a :: rest) Hnd).
    replace (memN c (a :: rest)) with true by (symmetry; apply memN_In; auto). auto.
  - destruct (N.eqb_spec a c) as [<-|Hac].
    + (* c = a, r in rest *)
      rewrite dmf by (right; exact Hna). rewrite EM. f_equal.
      transitivity (Rsum (fun b => if N.eqb b r then coef else 0) (a :: rest)).
      { apply Rsum_ext; intros b Hb. simpl. auto. }
      rewrite (Rsum_spike (fun _ => coef) r (a :: rest) Hnd).
      replace (memN r (a :: rest)) with true by (symmetry; apply memN_In; auto). auto.
    + (* both in rest *)
      assert (In r rest) as Hr' by (destruct Hr; [congruence|auto]).
      assert (In c rest) as Hc' by (destruct Hc; [congruence|auto]).
      rewrite (IH Hnd' Hinj' M' r c Hr' Hc'). rewrite EM. 
      rewrite Rsum_zero; [lra|]. intros b _. simpl; auto.
Qed.
End DeflateValue.
