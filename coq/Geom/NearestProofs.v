(* dpc returns a nearest point of the triangle on ALL ten leaves under the hypothesis "no obtuse corner on the clamped
   side" (theorem dpc_nearest_partial of C09).  Method: Karush-Kuhn-Tucker certificate (p-h).(V-h) <= 0 for the three
   vertices V, everything reduced to the Gram scalars a00 a10 a11 b0 b1 of the code. *)
From Coq Require Import Reals Lra Lia List Bool Psatz.
From OM Require Import Base.Ops Geom.V3Q Geom.V3R Geom.Danielsson Geom.DanielssonProofs.
Local Open Scope R_scope.

Notation rv := (@vec R).
Definition gdot (p : rv) (T : @tri R) (al : rv) (V : rv) : R :=
  vdot Rops (vsub Rops p (recon Rops T al)) (vsub Rops V (recon Rops T al)).

(* sufficiency of the certificate *)
Lemma kkt_nearest : forall p A B C al,
  get3 al 0 + get3 al 1 + get3 al 2 = 1 ->
  gdot p (A, B, C) al A <= 0 -> gdot p (A, B, C) al B <= 0 -> gdot p (A, B, C) al C <= 0 ->
  forall a b c, 0 <= a -> 0 <= b -> 0 <= c -> a + b + c = 1 ->
  vnorm2 Rops (vsub Rops p (recon Rops (A, B, C) al)) <= vnorm2 Rops (vsub Rops p (recon Rops (A, B, C) (a, b, c))).
Proof.
  intros [[px py] pz] [[ax ay] az] [[bx by_] bz] [[cx cy] cz] [[l0 l1] l2] Hs GA GB GC a b c Ha Hb Hc Habc.
  unfold gdot in *. revert GA GB GC Hs. coords. intros GA GB GC Hs.
  set (hx := l0 * ax + l1 * bx + l2 * cx) in *. set (hy := l0 * ay + l1 * by_ + l2 * cy) in *. set (hz := l0 * az + l1 * bz + l2 * cz) in *.
  set (qx := a * ax + b * bx + c * cx). set (qy := a * ay + b * by_ + c * cy). set (qz := a * az + b * bz + c * cz).
  set (gA := (px - hx) * (ax - hx) + (py - hy) * (ay - hy) + (pz - hz) * (az - hz)) in *.
  set (gB := (px - hx) * (bx - hx) + (py - hy) * (by_ - hy) + (pz - hz) * (bz - hz)) in *.
  set (gC := (px - hx) * (cx - hx) + (py - hy) * (cy - hy) + (pz - hz) * (cz - hz)) in *.
  set (cr := (px - hx) * (qx - hx) + (py - hy) * (qy - hy) + (pz - hz) * (qz - hz)).
  assert (E : cr = a * gA + b * gB + c * gC).
  { unfold cr, gA, gB, gC, qx, qy, qz. replace a with (1 - b - c) by lra. ring. }
  assert (Hcr : cr <= 0).
  { rewrite E. assert (a * gA <= 0) by nra. assert (b * gB <= 0) by nra. assert (c * gC <= 0) by nra. lra. }
  pose proof (Rle_0_sqr (hx - qx)) as S1. pose proof (Rle_0_sqr (hy - qy)) as S2. pose proof (Rle_0_sqr (hz - qz)) as S3.
  unfold Rsqr in S1, S2, S3.
  replace ((px - qx) * (px - qx) + (py - qy) * (py - qy) + (pz - qz) * (pz - qz))
    with ((px - hx) * (px - hx) + (py - hy) * (py - hy) + (pz - hz) * (pz - hz) - 2 * cr
          + ((hx - qx) * (hx - qx) + (hy - qy) * (hy - qy) + (hz - qz) * (hz - qz))) by (unfold cr; ring).
  lra.
Qed.

(* the three certificates in the Gram scalars of the code (relative to vertex A) *)
Lemma g_expand : forall p A B C l0 x1 x2, l0 + x1 + x2 = 1 ->
  let e1 := vsub Rops B A in let e2 := vsub Rops C A in let w := vsub Rops p A in
  let a00 := vdot Rops e1 e1 in let a10 := vdot Rops e1 e2 in let a11 := vdot Rops e2 e2 in
  let b0 := vdot Rops w e1 in let b1 := vdot Rops w e2 in
  let Q := x1 * x1 * a00 + 2 * x1 * x2 * a10 + x2 * x2 * a11 in
  gdot p (A, B, C) (l0, x1, x2) A = - (x1 * b0 + x2 * b1) + Q /\
  gdot p (A, B, C) (l0, x1, x2) B = b0 - (x1 * a00 + x2 * a10) - (x1 * b0 + x2 * b1) + Q /\
  gdot p (A, B, C) (l0, x1, x2) C = b1 - (x1 * a10 + x2 * a11) - (x1 * b0 + x2 * b1) + Q.
Proof.
  intros [[px py] pz] [[ax ay] az] [[bx by_] bz] [[cx cy] cz] l0 x1 x2 Hs. cbv zeta.
  replace l0 with (1 - x1 - x2) by lra. unfold gdot. coords. repeat split; ring.
Qed.

Lemma edge_CB_expand : forall p A B C,
  let e1 := vsub Rops B A in let e2 := vsub Rops C A in let w := vsub Rops p A in
  vdot Rops (vsub Rops p C) (vsub Rops B C) = vdot Rops w e1 - vdot Rops w e2 - vdot Rops e1 e2 + vdot Rops e2 e2 /\
  vdot Rops (vsub Rops B C) (vsub Rops B C) = vdot Rops e1 e1 - 2 * vdot Rops e1 e2 + vdot Rops e2 e2.
Proof.
  intros [[px py] pz] [[ax ay] az] [[bx by_] bz] [[cx cy] cz]. cbv zeta. coords. split; ring.
Qed.

Lemma lagrange : forall A B C,
  let e1 := vsub Rops B A in let e2 := vsub Rops C A in
  0 <= vdot Rops e1 e1 * vdot Rops e2 e2 - vdot Rops e1 e2 * vdot Rops e1 e2 /\ 0 <= vdot Rops e1 e1 /\ 0 <= vdot Rops e2 e2.
Proof.
  intros [[ax ay] az] [[bx by_] bz] [[cx cy] cz]. cbv zeta. coords.
  set (u1 := bx - ax). set (u2 := by_ - ay). set (u3 := bz - az). set (v1 := cx - ax). set (v2 := cy - ay). set (v3 := cz - az).
  assert (0 <= u1 * u1 + u2 * u2 + u3 * u3) by (pose proof (Rle_0_sqr u1); pose proof (Rle_0_sqr u2); pose proof (Rle_0_sqr u3); unfold Rsqr in *; lra).
  assert (0 <= v1 * v1 + v2 * v2 + v3 * v3) by (pose proof (Rle_0_sqr v1); pose proof (Rle_0_sqr v2); pose proof (Rle_0_sqr v3); unfold Rsqr in *; lra).
  split; [|split; assumption].
  replace ((u1 * u1 + u2 * u2 + u3 * u3) * (v1 * v1 + v2 * v2 + v3 * v3) - (u1 * v1 + u2 * v2 + u3 * v3) * (u1 * v1 + u2 * v2 + u3 * v3))
    with ((u2 * v3 - u3 * v2) * (u2 * v3 - u3 * v2) + (u3 * v1 - u1 * v3) * (u3 * v1 - u1 * v3) + (u1 * v2 - u2 * v1) * (u1 * v2 - u2 * v1)) by ring.
  pose proof (Rle_0_sqr (u2 * v3 - u3 * v2)) as S1. pose proof (Rle_0_sqr (u3 * v1 - u1 * v3)) as S2. pose proof (Rle_0_sqr (u1 * v2 - u2 * v1)) as S3.
  unfold Rsqr in S1, S2, S3. lra.
Qed.

(* the vertex certificate: pi - K = an (N-K) + am (M-K), an >= 0 >= am; x=|N-K|^2, y=|M-K|^2, u=(N-K).(M-K) *)
Lemma vertex_cert : forall x y u an am, 0 < x -> 0 <= x * y - u * u -> 0 <= an -> am <= 0 ->
  an * x + am * u <= 0 -> an * u + am * y <= 0.
Proof.
  intros x y u an am Hx Hd Han Ham H.
  destruct (Rle_dec u 0) as [Hu | Hu].
  - assert (0 <= y) by (destruct (Rle_dec 0 y); auto; exfalso; assert (x * y < 0) by nra; nra). nra.
  - assert (Hu' : 0 < u) by lra.
    assert (E : (an * u + am * y) * x - (an * x + am * u) * u = am * (x * y - u * u)) by ring.
    assert (am * (x * y - u * u) <= 0) by nra.
    assert ((an * x + am * u) * u <= 0) by nra.
    assert ((an * u + am * y) * x <= 0) by lra.
    nra.
Qed.

Definition plane_coords (p : rv) (T : @tri R) : R * R * R :=
  let '(A, B, C) := T in
  let e1 := vsub Rops B A in let e2 := vsub Rops C A in let w := vsub Rops p A in
  let a00 := vdot Rops e1 e1 in let a10 := vdot Rops e1 e2 in let a11 := vdot Rops e2 e2 in
  let b0 := vdot Rops w e1 in let b1 := vdot Rops w e2 in
  let d := a00 * a11 - a10 * a10 in
  let r1 := (b0 * a11 - b1 * a10) / d in let r2 := (a00 * b1 - a10 * b0) / d in
  (1 - r1 - r2, r1, r2).

(* whenever two barycentric coordinates of the orthogonal projection are negative, the angle at the third vertex
   (the one that stays) is not obtuse *)
Definition no_obtuse_corner_on_clamped_side (p : rv) (T : @tri R) : Prop :=
  let '(A, B, C) := T in let '(cA, cB, cC) := plane_coords p T in
  (cA < 0 -> cB < 0 -> 0 <= vdot Rops (vsub Rops A C) (vsub Rops B C)) /\
  (cA < 0 -> cC < 0 -> 0 <= vdot Rops (vsub Rops A B) (vsub Rops C B)) /\
  (cB < 0 -> cC < 0 -> 0 <= vdot Rops (vsub Rops B A) (vsub Rops C A)).

Lemma corner_expand : forall A B C,
  let e1 := vsub Rops B A in let e2 := vsub Rops C A in
  vdot Rops (vsub Rops A C) (vsub Rops B C) = vdot Rops e2 e2 - vdot Rops e1 e2 /\
  vdot Rops (vsub Rops A B) (vsub Rops C B) = vdot Rops e1 e1 - vdot Rops e1 e2.
Proof. intros [[ax ay] az] [[bx by_] bz] [[cx cy] cz]. cbv zeta. coords. split; ring. Qed.

Definition keep (P : Prop) : Prop := P.
Ltac unlet := repeat match goal with v := _ |- _ => subst v end.
Ltac vc x y u an am := match goal with |- ?G <= 0 => replace G with (an * u + am * y) by (unlet; ring) end;
                       apply (vertex_cert x y u an am).

Theorem dpc_nearest_all_leaves : forall p T al0 d2 al ins,
  dist_point_triangle Rops p T al0 = DOk d2 al ins -> no_obtuse_corner_on_clamped_side p T ->
  forall a b c, 0 <= a -> 0 <= b -> 0 <= c -> a + b + c = 1 ->
  d2 <= vnorm2 Rops (vsub Rops p (recon Rops T (a, b, c))).
Proof.
  intros p [[A B] C] [[x y] z] d2 al ins H Hno.
  assert (Hd2 : keep (d2 = vnorm2 Rops (vsub Rops p (recon Rops (A, B, C) al)))) by exact (dpc_distance_of_recon _ _ _ _ _ _ H).
  pose proof (dpc_weights_nonneg_sum1 _ _ _ _ _ _ H) as (_ & _ & _ & Hsum).
  unfold no_obtuse_corner_on_clamped_side, plane_coords in Hno.
  destruct (corner_expand A B C) as [CE1 CE2]. cbv zeta in CE1, CE2. rewrite CE1, CE2 in Hno. clear CE1 CE2.
  destruct (edge_CB_expand p A B C) as [EE1 EE2]. cbv zeta in EE1, EE2.
  destruct (lagrange A B C) as (Lg & L00 & L11). cbv zeta in Lg, L00, L11.
  dpc_leaves H.
  all: unfold keep in Hd2; rewrite Hd2; intros a b c Ha Hb Hc Habc; apply kkt_nearest; auto; clear a b c Ha Hb Hc Habc Hd2.
  all: match goal with |- gdot ?pp (?AA, ?BB, ?CC) (?l0, ?x1, ?x2) _ <= 0 =>
         let Hs := fresh "Hs" in assert (Hs : l0 + x1 + x2 = 1) by (cbv [get3 fst snd] in Hsum; lra);
         destruct (g_expand pp AA BB CC l0 x1 x2 Hs) as (GA & GB & GC); cbv zeta in GA, GB, GC; rewrite ?GA, ?GB, ?GC; clear GA GB GC Hs Hsum end.
  all: set (a00 := vdot Rops (vsub Rops B A) (vsub Rops B A)) in *; set (a10 := vdot Rops (vsub Rops B A) (vsub Rops C A)) in *;
       set (a11 := vdot Rops (vsub Rops C A) (vsub Rops C A)) in *; set (b0 := vdot Rops (vsub Rops p A) (vsub Rops B A)) in *;
       set (b1 := vdot Rops (vsub Rops p A) (vsub Rops C A)) in *.
  all: apply Reqb_false in Ed.
  all: assert (Hd : 0 < a00 * a11 - a10 * a10) by lra.
  all: assert (H00 : 0 < a00) by nra; assert (H11 : 0 < a11) by nra.
  all: assert (Hy : 0 < a00 - 2 * a10 + a11) by
         (assert (Ey : (a00 - 2 * a10 + a11) * a00 = (a00 - a10) * (a00 - a10) + (a00 * a11 - a10 * a10)) by ring;
          pose proof (Rle_0_sqr (a00 - a10)) as Sq; unfold Rsqr in Sq;
          destruct (Rle_dec (a00 - 2 * a10 + a11) 0) as [Hle | Hgt]; [exfalso; assert ((a00 - 2 * a10 + a11) * a00 <= 0) by (replace 0 with (0 * a00) by ring; apply Rmult_le_compat_r; lra); lra | lra]).
  all: assert (N1 : r1 * a00 + r2 * a10 = b0) by (unfold r1, r2; field; lra).
  all: assert (N2 : r1 * a10 + r2 * a11 = b1) by (unfold r1, r2; field; lra).
  all: try (assert (Ht : t * (a00 - 2 * a10 + a11) = b0 - b1 - a10 + a11) by (unfold t; rewrite EE1, EE2; field; lra)).
  all: try (assert (Ht : t * a11 = b1) by (unfold t; field; lra)).
  all: try (assert (Ht : t * a00 = b0) by (unfold t; field; lra)).
  all: clear EE1 EE2.
  all: clearbody r1 r2; try clearbody t; clearbody a00 a10 a11 b0 b1; clear Ed Lg L00 L11; subst b0 b1.
  all: destruct Hno as (Hn1 & Hn2 & Hn3).
  all: try (timeout 15 nra).
  all: set (Y := a00 - 2 * a10 + a11) in *; set (cA := 1 - r1 - r2) in *; set (d := a00 * a11 - a10 * a10) in *.
  - (* drop A, t>1 -> B : g_A *)
    assert (Yt : Y < t * Y) by nra.
    assert (Hc : r2 * Y + cA * (a00 - a10) <= 0) by (unfold Y, cA in *; nra).
    destruct (Rle_dec 0 r2) as [P | P].
    + vc Y a00 (a00 - a10) r2 cA; try lra. unfold Y, d in *; nra.
    + assert (0 <= a00 - a10) by (apply Hn2; lra). unfold cA in *. nra.
  - (* drop A, t<0 -> C : g_A *)
    assert (Yt : t * Y < 0) by nra.
    assert (Hc : r1 * Y + cA * (a11 - a10) <= 0) by (unfold Y, cA in *; nra).
    destruct (Rle_dec 0 r1) as [P | P].
    + vc Y a11 (a11 - a10) r1 cA; try lra. unfold Y, d in *; nra.
    + assert (0 <= a11 - a10) by (apply Hn1; lra). unfold cA in *. nra.
  - (* drop A, edge CB : g_A = cA d / Y *)
    assert (Id1 : (a11 - (r1 * a10 + r2 * a11)) * Y - (r1 * a00 + r2 * a10 - (r1 * a10 + r2 * a11) - a10 + a11) * (a11 - a10) = cA * d) by (unfold Y, cA, d; ring).
    match goal with |- ?G <= 0 => replace G with (a11 - (r1 * a10 + r2 * a11) - t * (a11 - a10) + t * (t * Y - (r1 * a00 + r2 * a10 - (r1 * a10 + r2 * a11) - a10 + a11))) by (unfold Y; ring) end.
    rewrite Ht. set (g := a11 - (r1 * a10 + r2 * a11) - t * (a11 - a10)).
    assert (Eg : g * Y = cA * d) by (unfold g; rewrite <- Id1, <- Ht; ring).
    assert (cA * d <= 0) by nra. assert (g <= 0) by nra. lra.
  - (* drop B, t>1 -> C : g_B *)
    vc a11 Y (a11 - a10) cA r1; try (unfold cA in *; lra). unfold Y, d in *; nra. unfold cA in *; nra.
  - (* drop B, t<0 -> A : g_B *)
    destruct (Rle_dec 0 r2) as [P | P].
    + vc a11 a00 a10 r2 r1; try lra. unfold d in *; nra. nra.
    + assert (0 <= a10) by (apply Hn3; lra). nra.
  - (* drop B, edge AC : g_B = r1 d / a11 *)
    assert (Id1 : (r1 * a00 + r2 * a10) * a11 - (r1 * a10 + r2 * a11) * a10 = r1 * d) by (unfold d; ring).
    match goal with |- ?G <= 0 => replace G with (r1 * a00 + r2 * a10 - t * a10 + t * (t * a11 - (r1 * a10 + r2 * a11))) by ring end.
    rewrite Ht. set (g := r1 * a00 + r2 * a10 - t * a10).
    assert (Eg : g * a11 = r1 * d) by (unfold g; rewrite <- Id1, <- Ht; ring).
    assert (r1 * d <= 0) by nra. assert (g <= 0) by nra. lra.
  - (* drop C, t>1 -> B : g_C *)
    vc a00 Y (a00 - a10) cA r2; try (unfold cA in *; lra). unfold Y, d in *; nra. unfold cA in *; nra.
  - (* drop C, t<0 -> A : g_C *)
    vc a00 a11 a10 r1 r2; try lra. unfold d in *; nra. nra.
  - (* drop C, edge AB : g_C = r2 d / a00 *)
    assert (Id1 : (r1 * a10 + r2 * a11) * a00 - (r1 * a00 + r2 * a10) * a10 = r2 * d) by (unfold d; ring).
    match goal with |- ?G <= 0 => replace G with (r1 * a10 + r2 * a11 - t * a10 + t * (t * a00 - (r1 * a00 + r2 * a10))) by ring end.
    rewrite Ht. set (g := r1 * a10 + r2 * a11 - t * a10).
    assert (Eg : g * a00 = r2 * d) by (unfold g; rewrite <- Id1, <- Ht; ring).
    assert (r2 * d <= 0) by nra. assert (g <= 0) by nra. lra.
Qed.
