(* C02, assembly level: the head matrix of C10's assembly model (Geom/Assembly.v: Details::HeadMatrix, the S/N/D
   blocks and Details::deflate, with the kernels as parameters) reads the vertex coordinates only through the dot
   products of edge vectors in BlocksBase::N.  Hence: same kernel values (Sk, Dk: the invariance theorems of
   Geom/RigidKernels.v), same areas, rigidly moved vertices  ==>  the same head matrix, entry by entry. *)
From Coq Require Import Reals List NArith FunctionalExtensionality.
From OM Require Import Base.Ops Base.Vec3 Base.OpsR Base.Rigid Geom.Assembly.
Local Open Scope R_scope.

Definition v2t (v : V3) : R * R * R := (vx v, vy v, vz v).
Definition t2v (t : R * R * R) : V3 := let '(a, b, c) := t in mkV a b c.
Lemma t2v_v2t v : t2v (v2t v) = v. Proof. destruct v; reflexivity. Qed.
Lemma v2t_t2v t : v2t (t2v t) = t. Proof. destruct t as [[a b] c]; reflexivity. Qed.

Lemma asm_vsub u w : Assembly.vsub OpsR (v2t u) (v2t w) = v2t (vsubR u w).
Proof. destruct u, w; reflexivity. Qed.
Lemma asm_dot u w : Assembly.dot OpsR (v2t u) (v2t w) = dotR u w.
Proof. destruct u, w; reflexivity. Qed.

Section Lift.
  Variable g : rigid.
  Variable pos : N -> R * R * R.
  (* the same vertices in the moved frame *)
  Definition moved_pos (v : N) : R * R * R := v2t (app g (t2v (pos v))).

  Lemma CB_moved t v : CB OpsR moved_pos t v = v2t (rot g (t2v (CB OpsR pos t v))).
  Proof.
    unfold CB, moved_pos. destruct (edge_of t v) as [a b].
    rewrite asm_vsub, app_sub. f_equal. f_equal.
    rewrite <- (v2t_t2v (pos a)), <- (v2t_t2v (pos b)), asm_vsub, !t2v_v2t. reflexivity.
  Qed.

  Lemma CB_dot_moved t1 v1 t2 v2 :
    Assembly.dot OpsR (CB OpsR moved_pos t1 v1) (CB OpsR moved_pos t2 v2)
    = Assembly.dot OpsR (CB OpsR pos t1 v1) (CB OpsR pos t2 v2).
  Proof.
    rewrite !CB_moved, asm_dot, rot_dot.
    rewrite <- (v2t_t2v (CB OpsR pos t1 v1)) at 2. rewrite <- (v2t_t2v (CB OpsR pos t2 v2)) at 2.
    rewrite asm_dot. reflexivity.
  Qed.

  Variable area : N -> R.

  Lemma Nterm_moved : Nterm OpsR moved_pos area = Nterm OpsR pos area.
  Proof.
    extensionality factor; extensionality Sread; extensionality t1; extensionality v1;
      extensionality t2; extensionality v2.
    unfold Nterm. rewrite CB_dot_moved. reflexivity.
  Qed.

  Lemma Nval_moved : Nval OpsR moved_pos area = Nval OpsR pos area.
  Proof. unfold Nval. rewrite Nterm_moved. reflexivity. Qed.

  Variable geo : igeom R.

  Lemma N_diag_moved : N_diag OpsR moved_pos area geo = N_diag OpsR pos area geo.
  Proof.
    extensionality M; extensionality coeff; extensionality Sread; extensionality m; extensionality vs.
    revert M. induction vs as [| a rest IH]; intros M; cbn [N_diag]; [reflexivity |].
    rewrite Nval_moved. apply IH.
  Qed.

  Lemma N_off_moved : N_off OpsR moved_pos area geo = N_off OpsR pos area geo.
  Proof. unfold N_off. rewrite Nval_moved. reflexivity. Qed.

  Variables (K : R) (Sk : N -> N -> R) (Dk : N -> N -> nat -> R).

  Lemma diag_block_moved : diag_block OpsR moved_pos area Sk Dk geo = diag_block OpsR pos area Sk Dk geo.
  Proof. unfold diag_block. rewrite N_diag_moved. reflexivity. Qed.

  Lemma nondiag_block_moved : nondiag_block OpsR moved_pos area Sk Dk geo = nondiag_block OpsR pos area Sk Dk geo.
  Proof. unfold nondiag_block. rewrite N_off_moved. reflexivity. Qed.

  Lemma pair_step_moved : pair_step OpsR K moved_pos area Sk Dk geo = pair_step OpsR K pos area Sk Dk geo.
  Proof. unfold pair_step. rewrite diag_block_moved, nondiag_block_moved. reflexivity. Qed.

  (* the head matrix, deflation included, is the same store (hence every entry read by mget is the same) *)
  Lemma headmat_moved : headmat OpsR K moved_pos area Sk Dk geo = headmat OpsR K pos area Sk Dk geo.
  Proof. unfold headmat, assemble_pairs. rewrite pair_step_moved. reflexivity. Qed.

  Lemma headmat_entries_moved i j :
    mget OpsR (headmat OpsR K moved_pos area Sk Dk geo) i j = mget OpsR (headmat OpsR K pos area Sk Dk geo) i j.
  Proof. rewrite headmat_moved. reflexivity. Qed.
End Lift.
