(* Exactness of the generated quadrature tables (Gen/GenQuadTables.v, regenerated from integrator.h on every
   run): moments of every monomial l0^a l1^b l2^c up to the degree of each rule, over Q, by vm_compute on the
   finite set of monomials, lifted to "for all a b c" by forallb_forall.  No reals here. *)
From OM Require Import Gen.GenQuadTables Geom.Quadrature.
From Coq Require Import ZArith QArith Qabs List Lia Bool.
Import ListNotations.
Local Open Scope Q_scope.

Fixpoint qpow (x : Q) (n : nat) : Q := match n with O => 1 | S k => x * qpow x k end.
Fixpoint zfact (n : nat) : Z := match n with O => 1%Z | S k => (Z.of_nat (S k) * zfact k)%Z end.

(* sum_i w_i l_i0^a l_i1^b l_i2^c *)
Definition moment (rule : list qpoint) (a b c : nat) : Q :=
  fold_right (fun p acc => qp_w p * (qpow (qp_l0 p) a * qpow (qp_l1 p) b * qpow (qp_l2 p) c) + acc) 0 rule.

(* the same with the accumulator kept reduced (what vm_compute evaluates) *)
(* the generated entries share one denominator 10^k, so all terms of a moment have the same denominator *)
Definition qadd_fast (x y : Q) : Q :=
  if Qeq_bool y 0 then x
  else if Pos.eqb (Qden x) (Qden y) then (Qnum x + Qnum y)%Z # Qden x else Qred (x + y).
Lemma qadd_fast_eq x y : qadd_fast x y == x + y.
Proof.
  unfold qadd_fast. destruct (Qeq_bool y 0) eqn:E0.
  - apply Qeq_bool_eq in E0. rewrite E0. ring.
  - destruct (Pos.eqb_spec (Qden x) (Qden y)) as [E|E].
    + unfold Qeq, Qplus. cbn [Qnum Qden]. rewrite <- E. rewrite Pos2Z.inj_mul. ring.
    + apply Qred_correct.
Qed.
Definition moment_r (rule : list qpoint) (a b c : nat) : Q :=
  fold_right (fun p acc => qadd_fast (qp_w p * (qpow (qp_l0 p) a * qpow (qp_l1 p) b * qpow (qp_l2 p) c)) acc) 0 rule.
Lemma moment_r_eq rule a b c : moment_r rule a b c == moment rule a b c.
Proof.
  unfold moment_r, moment. induction rule as [|p r IH]; cbn [fold_right]; [reflexivity|].
  rewrite qadd_fast_eq, IH. reflexivity.
Qed.

(* Dirichlet formula on the reference triangle (area 1/2): a! b! c! / (a+b+c+2)! *)
Definition dirichletQ (a b c : nat) : Q :=
  inject_Z (zfact a * zfact b * zfact c) / inject_Z (zfact (a + b + c + 2)).

Definition monos (d : nat) : list (nat * nat * nat) :=
  flat_map (fun a => flat_map (fun b => map (fun c => (a, b, c)) (seq 0 (S d - a - b))) (seq 0 (S d - a))) (seq 0 (S d)).

Lemma monos_complete d a b c : (a + b + c <= d)%nat -> In (a, b, c) (monos d).
Proof.
  intros H. unfold monos. apply in_flat_map. exists a. split; [apply in_seq; lia|].
  apply in_flat_map. exists b. split; [apply in_seq; lia|].
  apply in_map_iff. exists c. split; auto. apply in_seq; lia.
Qed.

Definition eps14 : Q := 1 # 100000000000000.     (* 1e-14 *)

Definition within (eps x : Q) : bool := Qle_bool (- eps) x && Qle_bool x eps.
Lemma within_spec eps x : within eps x = true -> - eps <= x /\ x <= eps.
Proof. unfold within. rewrite andb_true_iff, !Qle_bool_iff. auto. Qed.

Definition moment_err (rule : list qpoint) (m : nat * nat * nat) : Q :=
  let '(a, b, c) := m in moment_r rule a b c - dirichletQ a b c.

Definition moments_ok (rule : list qpoint) (d : nat) : bool :=
  forallb (fun m => within eps14 (moment_err rule m)) (monos d).

Lemma moments_ok_spec rule d : moments_ok rule d = true ->
  forall a b c, (a + b + c <= d)%nat ->
    - eps14 <= moment rule a b c - dirichletQ a b c /\ moment rule a b c - dirichletQ a b c <= eps14.
Proof.
  intros H a b c Hd. unfold moments_ok in H. rewrite forallb_forall in H.
  specialize (H (a, b, c) (monos_complete d a b c Hd)). apply within_spec in H.
  unfold moment_err in H. rewrite moment_r_eq in H. exact H.
Qed.

(* the degree of each rule (orders 1..3 are the reachable ones: safe_order) *)
Definition rule_degree (order : nat) : nat :=
  match order with 0 => 2 | 1 => 4 | 2 => 5 | _ => 8 end%nat.

(* the sweeps themselves (rule_moments) are in Geom/QuadTablesBig.v: same statements, evaluated with BigZ *)

(* the degrees are sharp: one degree higher, a monomial is off by more than 1e-7 *)
Definition eps7 : Q := 1 # 10000000.
Lemma rule1_degree_sharp : eps7 < Qabs (moment_err (rule_of_order 1) (5, 0, 0))%nat. Proof. vm_compute. reflexivity. Qed.
Lemma rule2_degree_sharp : eps7 < Qabs (moment_err (rule_of_order 2) (6, 0, 0))%nat. Proof. vm_compute. reflexivity. Qed.
Lemma rule3_degree_sharp : eps7 < Qabs (moment_err (rule_of_order 3) (9, 0, 0))%nat. Proof. vm_compute. reflexivity. Qed.

(* weights sum to 1/2 (the a=b=c=0 moment), nodes are barycentric: l0+l1+l2 = 1 within 2e-15, all >= 0, w > 0 *)
Definition eps15x2 : Q := 2 # 1000000000000000.
Definition node_ok (p : qpoint) : bool :=
  within eps15x2 (qp_l0 p + qp_l1 p + qp_l2 p - 1) && Qle_bool 0 (qp_l0 p) && Qle_bool 0 (qp_l1 p) && Qle_bool 0 (qp_l2 p)
  && negb (Qle_bool (qp_w p) 0).
Lemma rules_nodes_ok : forallb (fun o => forallb node_ok (rule_of_order o)) [0; 1; 2; 3]%nat = true.
Proof. vm_compute. reflexivity. Qed.

Lemma rule_points_barycentric_lemma order p : (order <= 3)%nat -> In p (rule_of_order order) ->
  - eps15x2 <= qp_l0 p + qp_l1 p + qp_l2 p - 1 /\ qp_l0 p + qp_l1 p + qp_l2 p - 1 <= eps15x2 /\
  0 <= qp_l0 p /\ 0 <= qp_l1 p /\ 0 <= qp_l2 p /\ 0 < qp_w p.
Proof.
  intros Ho Hin. pose proof rules_nodes_ok as H. rewrite forallb_forall in H.
  assert (Hi : In order [0; 1; 2; 3]%nat) by (simpl; lia).
  specialize (H order Hi). rewrite forallb_forall in H. specialize (H p Hin).
  unfold node_ok in H. rewrite !andb_true_iff in H. destruct H as [[[[H1 H2] H3] H4] H5].
  apply within_spec in H1. rewrite Qle_bool_iff in H2, H3, H4.
  rewrite negb_true_iff in H5. destruct H1 as [H1a H1b]. repeat split; auto.
  apply Qnot_le_lt. intros C. apply Qle_bool_iff in C. congruence.
Qed.

Lemma rule_lengths : map (fun o => length (rule_of_order o)) [0; 1; 2; 3]%nat = [3; 6; 7; 16]%nat.
Proof. vm_compute. reflexivity. Qed.

(* every order requested from the constructor lands on 1..3: rule 0 (3 points) is unreachable *)
Lemma safe_order_range n : (1 <= safe_order n <= 3)%nat.
Proof.
  unfold safe_order. destruct (Nat.ltb_spec 0 n), (Nat.ltb_spec n 4); simpl; try lia;
  destruct (Nat.ltb_spec n 1); lia.
Qed.

(* weights: sum_i w_i vs 1/2.  The tables carry 15 decimals; the sums are off by -2e-15, +1e-15, -5e-15. *)
Definition weights_sum (rule : list qpoint) : Q := Qred (fold_right (fun p acc => qp_w p + acc) 0 rule).
Definition eps15x5 : Q := 5 # 1000000000000000.
Lemma weights_sums :
  weights_sum (rule_of_order 1) - (1 # 2) == - (2 # 1000000000000000) /\
  weights_sum (rule_of_order 2) - (1 # 2) == 1 # 1000000000000000 /\
  weights_sum (rule_of_order 3) - (1 # 2) == - (5 # 1000000000000000).
Proof. repeat split; vm_compute; reflexivity. Qed.
Lemma rule_weights_sum_half_lemma order : (1 <= order <= 3)%nat ->
  - eps15x5 <= weights_sum (rule_of_order order) - (1 # 2) /\ weights_sum (rule_of_order order) - (1 # 2) <= eps15x5.
Proof.
  intros H. destruct order as [|[|[|[|o]]]]; try lia; split; vm_compute; discriminate.
Qed.
