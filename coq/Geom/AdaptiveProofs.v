(* Adaptive integration of polynomials.
   1. adaptive bound with a triangle-dependent, sub-additive error budget B (generalises QuadProofs.adaptive_error_bound);
   2. UNCONDITIONAL: affine integrands c + g.x -- Integrator::integrate returns area * f(centroid) within the 1e-14 band
      at every order, depth and tolerance (the coefficient norm of the restriction to a sub-triangle does not grow:
      it is bounded through the vertex values, and the budget is sub-additive under the split);
   3. CONDITIONAL (Section hypotheses, stated): any integrand that is, on every triangle, a polynomial of degree <= the
      rule's degree in that triangle's barycentric coordinates, with an additive integral given by Dirichlet's formula
      and coefficient norm <= K.  The unconditional statement for degree >= 2 needs either the additivity of the
      Dirichlet functional under the split or a coefficient-norm bound in a basis that does not grow (Bernstein);
      neither is proved here. *)
From Coq Require Import Reals Qreals QArith Lra Lia List ZArith.
From OM Require Import Base.Ops Base.OpsR Base.Vec3 Gen.GenQuadTables Geom.Quadrature Geom.QuadTablesProofs Geom.QuadProofs.
Import ListNotations.
Local Open Scope R_scope.

Section AdaptiveBudget.
  Variable rule : list qpoint.
  Variable tol : R.
  Variable f : V3 -> R.
  Variable I : V3 -> V3 -> V3 -> R.
  Variable B : V3 -> V3 -> V3 -> R.
  Hypothesis I_additive : forall t0 t1 t2,
    I t0 t1 t2 = I t0 (midpoint OpsR t2 t0) (midpoint OpsR t0 t1) + I (midpoint OpsR t1 t2) t1 (midpoint OpsR t0 t1)
               + I (midpoint OpsR t1 t2) (midpoint OpsR t2 t0) t2 + I (midpoint OpsR t1 t2) (midpoint OpsR t2 t0) (midpoint OpsR t0 t1).
  Hypothesis B_subadditive : forall t0 t1 t2,
    B t0 (midpoint OpsR t2 t0) (midpoint OpsR t0 t1) + B (midpoint OpsR t1 t2) t1 (midpoint OpsR t0 t1)
      + B (midpoint OpsR t1 t2) (midpoint OpsR t2 t0) t2 + B (midpoint OpsR t1 t2) (midpoint OpsR t2 t0) (midpoint OpsR t0 t1)
    <= B t0 t1 t2.
  Hypothesis rule_error : forall t0 t1 t2,
    Rabs (triangle_integration_rule OpsR (RS_scalar OpsR) rule f t0 t1 t2 - I t0 t1 t2) <= B t0 t1 t2.

  Lemma adaptive_budget_lemma level : forall t0 t1 t2 coarse,
    Rabs (adaptive_integration_rule OpsR (RS_scalar OpsR) rule tol f t0 t1 t2 coarse level - I t0 t1 t2) <= B t0 t1 t2.
  Proof.
    assert (Hrefined : forall t0 t1 t2,
      let m0 := midpoint OpsR t1 t2 in let m1 := midpoint OpsR t2 t0 in let m2 := midpoint OpsR t0 t1 in
      Rabs (0 + triangle_integration_rule OpsR (RS_scalar OpsR) rule f t0 m1 m2
              + triangle_integration_rule OpsR (RS_scalar OpsR) rule f m0 t1 m2
              + triangle_integration_rule OpsR (RS_scalar OpsR) rule f m0 m1 t2
              + triangle_integration_rule OpsR (RS_scalar OpsR) rule f m0 m1 m2 - I t0 t1 t2) <= B t0 t1 t2).
    { intros t0 t1 t2 m0 m1 m2. rewrite (I_additive t0 t1 t2). fold m0 m1 m2.
      pose proof (B_subadditive t0 t1 t2) as HB. fold m0 m1 m2 in HB.
      pose proof (rule_error t0 m1 m2) as E0. pose proof (rule_error m0 t1 m2) as E1.
      pose proof (rule_error m0 m1 t2) as E2. pose proof (rule_error m0 m1 m2) as E3.
      apply Rabs_le_inv' in E0, E1, E2, E3. apply Rabs_le. lra. }
    induction level as [|level IH]; intros t0 t1 t2 coarse.
    - cbn [adaptive_integration_rule rs_add rs_zero RS_scalar fadd f0 OpsR]. apply Hrefined.
    - cbn [adaptive_integration_rule rs_add rs_zero rs_sub rs_norm RS_scalar fadd f0 fleb fmul OpsR].
      match goal with |- context [if ?b then _ else _] => destruct b end.
      + apply Hrefined.
      + rewrite (I_additive t0 t1 t2). pose proof (B_subadditive t0 t1 t2) as HB. cbv zeta.
        set (m0 := midpoint OpsR t1 t2) in *. set (m1 := midpoint OpsR t2 t0) in *. set (m2 := midpoint OpsR t0 t1) in *.
        pose proof (IH t0 m1 m2 (triangle_integration_rule OpsR (RS_scalar OpsR) rule f t0 m1 m2)) as E0.
        pose proof (IH m0 t1 m2 (triangle_integration_rule OpsR (RS_scalar OpsR) rule f m0 t1 m2)) as E1.
        pose proof (IH m0 m1 t2 (triangle_integration_rule OpsR (RS_scalar OpsR) rule f m0 m1 t2)) as E2.
        pose proof (IH m0 m1 m2 (triangle_integration_rule OpsR (RS_scalar OpsR) rule f m0 m1 m2)) as E3.
        apply Rabs_le_inv' in E0, E1, E2, E3. apply Rabs_le. lra.
  Qed.

  Lemma integrate_budget_lemma_rule depth t0 t1 t2 :
    Rabs (match depth with
          | O => triangle_integration_rule OpsR (RS_scalar OpsR) rule f t0 t1 t2
          | _ => adaptive_integration_rule OpsR (RS_scalar OpsR) rule tol f t0 t1 t2
                   (triangle_integration_rule OpsR (RS_scalar OpsR) rule f t0 t1 t2) depth
          end - I t0 t1 t2) <= B t0 t1 t2.
  Proof. destruct depth; [apply rule_error | apply adaptive_budget_lemma]. Qed.
End AdaptiveBudget.

(* ---- quarter areas (individually) ---------------------------------------------------------------------- *)
Lemma quarter_areas (t0 t1 t2 : V3) :
  let m0 := midpoint OpsR t1 t2 in let m1 := midpoint OpsR t2 t0 in let m2 := midpoint OpsR t0 t1 in
  area2 OpsR t0 m1 m2 = / 4 * area2 OpsR t0 t1 t2 /\ area2 OpsR m0 t1 m2 = / 4 * area2 OpsR t0 t1 t2 /\
  area2 OpsR m0 m1 t2 = / 4 * area2 OpsR t0 t1 t2 /\ area2 OpsR m0 m1 m2 = / 4 * area2 OpsR t0 t1 t2.
Proof.
  intros m0 m1 m2. repeat split; apply sub_area2; subst m0 m1 m2; destruct t0, t1, t2; crunch.
Qed.

Lemma area2_nonneg (t0 t1 t2 : V3) : 0 <= area2 OpsR t0 t1 t2.
Proof. unfold area2, norm; cbn [fsqrt OpsR]; apply sqrt_pos. Qed.

(* ---- affine integrands, unconditional ------------------------------------------------------------------ *)
Definition affine (c : R) (g : V3) (v : V3) : R := c + dot OpsR g v.
Definition affine_I (c : R) (g : V3) (t0 t1 t2 : V3) : R :=
  area2 OpsR t0 t1 t2 * (c / 2 + (dot OpsR g t0 + dot OpsR g t1 + dot OpsR g t2) / 6).
Definition affine_N (c : R) (g : V3) (t0 t1 t2 : V3) : R :=
  Rabs c + Rabs (dot OpsR g t0) + Rabs (dot OpsR g t1) + Rabs (dot OpsR g t2).

Lemma dirichletR_100 : dirichletR 1 0 0 = / 6. Proof. unfold dirichletR; cbn. lra. Qed.
Lemma dirichletR_010 : dirichletR 0 1 0 = / 6. Proof. unfold dirichletR; cbn. lra. Qed.
Lemma dirichletR_001 : dirichletR 0 0 1 = / 6. Proof. unfold dirichletR; cbn. lra. Qed.

Lemma affine_rule_error order c g t0 t1 t2 : (1 <= order <= 3)%nat ->
  Rabs (triangle_integration OpsR (RS_scalar OpsR) order (affine c g) t0 t1 t2 - affine_I c g t0 t1 t2)
    <= eps14R * affine_N c g t0 t1 t2 * area2 OpsR t0 t1 t2.
Proof.
  intros Ho.
  pose (p := [(c, (0, 0, 0)%nat); (dot OpsR g t0, (1, 0, 0)%nat); (dot OpsR g t1, (0, 1, 0)%nat); (dot OpsR g t2, (0, 0, 1)%nat)] : list term).
  assert (Hd : pdeg_le (rule_degree order) p).
  { destruct order as [|[|[|[|o]]]]; try lia; repeat constructor; cbn; lia. }
  pose proof (polynomial_exactness_lemma order (affine c g) t0 t1 t2 p ltac:(lia) Hd) as H.
  assert (Hf : forall l0 l1 l2, affine c g (bary_point OpsR l0 l1 l2 t0 t1 t2) = peval p l0 l1 l2).
  { intros. unfold affine, bary_point, vmultadd, vzero, dot, peval, tmono, monoR, p; destruct g, t0, t1, t2; cbn. ring. }
  specialize (H Hf).
  assert (Hi : area2 OpsR t0 t1 t2 * pintegral p = affine_I c g t0 t1 t2).
  { unfold affine_I, pintegral, p; cbn [fold_right fst tdir]. rewrite dirichletR_000, dirichletR_100, dirichletR_010, dirichletR_001. field. }
  assert (Hn : pnorm1 p = affine_N c g t0 t1 t2).
  { unfold affine_N, pnorm1, p; cbn [fold_right fst]. ring. }
  rewrite Hi, Hn in H. exact H.
Qed.

Lemma dot_midpoint (g a b : V3) : dot OpsR g (midpoint OpsR a b) = (dot OpsR g a + dot OpsR g b) / 2.
Proof. unfold midpoint, dot, vscale, vadd; rewrite half_R; destruct g, a, b; cbn. field. Qed.

Lemma Rabs_half_sum x y : Rabs ((x + y) / 2) <= (Rabs x + Rabs y) / 2.
Proof. unfold Rabs; destruct (Rcase_abs ((x + y) / 2)), (Rcase_abs x), (Rcase_abs y); lra. Qed.

Theorem adaptive_exact_on_affine_lemma ord depth tol c g t0 t1 t2 :
  Rabs (integrate OpsR (RS_scalar OpsR) ord depth tol (affine c g) t0 t1 t2 - affine_I c g t0 t1 t2)
    <= eps14R * affine_N c g t0 t1 t2 * area2 OpsR t0 t1 t2.
Proof.
  unfold integrate.
  apply (integrate_budget_lemma_rule (rule_of_order (safe_order ord)) tol (affine c g) (affine_I c g)
           (fun a b d => eps14R * affine_N c g a b d * area2 OpsR a b d)).
  - (* I additive *)
    intros a b d. unfold affine_I. destruct (quarter_areas a b d) as [E0 [E1 [E2 E3]]]. cbv zeta in E0, E1, E2, E3.
    rewrite E0, E1, E2, E3, !dot_midpoint. field.
  - (* budget sub-additive *)
    intros a b d. destruct (quarter_areas a b d) as [E0 [E1 [E2 E3]]]. cbv zeta in E0, E1, E2, E3.
    rewrite E0, E1, E2, E3. unfold affine_N. rewrite !dot_midpoint.
    pose proof (Rabs_half_sum (dot OpsR g b) (dot OpsR g d)) as M0.
    pose proof (Rabs_half_sum (dot OpsR g d) (dot OpsR g a)) as M1.
    pose proof (Rabs_half_sum (dot OpsR g a) (dot OpsR g b)) as M2.
    pose proof (area2_nonneg a b d) as Ha. pose proof (Rabs_pos c).
    assert (He : 0 < eps14R) by (unfold eps14R; apply Rinv_0_lt_compat; cbn; lra).
    set (A := area2 OpsR a b d) in *. set (ga := Rabs (dot OpsR g a)) in *. set (gb := Rabs (dot OpsR g b)) in *.
    set (gd := Rabs (dot OpsR g d)) in *.
    set (x0 := Rabs ((dot OpsR g b + dot OpsR g d) / 2)) in *. set (x1 := Rabs ((dot OpsR g d + dot OpsR g a) / 2)) in *.
    set (x2 := Rabs ((dot OpsR g a + dot OpsR g b) / 2)) in *.
    replace (eps14R * (Rabs c + ga + x1 + x2) * (/ 4 * A) + eps14R * (Rabs c + x0 + gb + x2) * (/ 4 * A) +
             eps14R * (Rabs c + x0 + x1 + gd) * (/ 4 * A) + eps14R * (Rabs c + x0 + x1 + x2) * (/ 4 * A))
      with (eps14R * A * / 4 * (4 * Rabs c + ga + gb + gd + 3 * (x0 + x1 + x2))) by ring.
    replace (eps14R * (Rabs c + ga + gb + gd) * A) with (eps14R * A * / 4 * (4 * Rabs c + 4 * (ga + gb + gd))) by field.
    apply Rmult_le_compat_l; [|lra].
    apply Rmult_le_pos; [apply Rmult_le_pos; lra|lra].
  - intros a b d. apply (affine_rule_error (safe_order ord)). apply safe_order_range.
Qed.

(* ---- general polynomials, conditional ------------------------------------------------------------------ *)
Section AdaptivePolynomial.
  Variable ord : nat.
  Variable f : V3 -> R.
  Variable I : V3 -> V3 -> V3 -> R.
  Variable K : R.
  Hypothesis I_additive : forall t0 t1 t2,
    I t0 t1 t2 = I t0 (midpoint OpsR t2 t0) (midpoint OpsR t0 t1) + I (midpoint OpsR t1 t2) t1 (midpoint OpsR t0 t1)
               + I (midpoint OpsR t1 t2) (midpoint OpsR t2 t0) t2 + I (midpoint OpsR t1 t2) (midpoint OpsR t2 t0) (midpoint OpsR t0 t1).
  (* on every triangle f is a polynomial of degree <= the rule's degree in that triangle's barycentric coordinates,
     its integral is given by Dirichlet's formula, and its coefficient norm is at most K *)
  Hypothesis f_polynomial : forall t0 t1 t2, exists p,
    pdeg_le (rule_degree (safe_order ord)) p /\
    (forall l0 l1 l2, f (bary_point OpsR l0 l1 l2 t0 t1 t2) = peval p l0 l1 l2) /\
    I t0 t1 t2 = area2 OpsR t0 t1 t2 * pintegral p /\ pnorm1 p <= K.

  Theorem adaptive_exact_on_polynomials_lemma depth tol t0 t1 t2 :
    Rabs (integrate OpsR (RS_scalar OpsR) ord depth tol f t0 t1 t2 - I t0 t1 t2) <= eps14R * K * area2 OpsR t0 t1 t2.
  Proof.
    apply (integrate_error_bound_lemma ord depth tol f I (eps14R * K)); auto.
    intros a b d. destruct (f_polynomial a b d) as [p [Hd [Hf [Hi Hk]]]].
    pose proof (safe_order_range ord) as Hr.
    pose proof (polynomial_exactness_lemma (safe_order ord) f a b d p ltac:(lia) Hd Hf) as H.
    rewrite Hi. unfold triangle_integration in H. eapply Rle_trans; [exact H|].
    pose proof (area2_nonneg a b d). assert (He : 0 < eps14R) by (unfold eps14R; apply Rinv_0_lt_compat; cbn; lra).
    apply Rmult_le_compat_r; auto. apply Rmult_le_compat_l; lra.
  Qed.
End AdaptivePolynomial.
