(* EXTRACT-Z: c17 run_c17 *)
(* Executable entry point of the C17 correspondence: wire case -> wire result.
   first integer = machine: 1 IO state (Maths/IOState.v), 2 Geometry, 3 Sensors, 4 Mesh (Geom/*State.v). *)
From OM Require Import Base.Lists Base.Wire Maths.IOState Maths.LinOpState Maths.ComputeState Gen.GenC17 Geom.ReaderRegistry Geom.GeomState Geom.SensorsState Geom.MeshState.
Local Open Scope Z_scope.

Definition getFmt : dec fmt :=
  do x <- getN; match x with 0 => ret Matlab | 1 => ret Ascii | 2 => ret Tex | 3 => ret Bin | _ => fun _ => None end%nat.
Definition getKind : dec kind :=
  do x <- getN; match x with 0 => ret KVec | 1 => ret KMat | 2 => ret KSym | 3 => ret KSparse | _ => fun _ => None end%nat.
Definition getSfx : dec sfx :=
  do x <- getN; match x with 0 => ret SMat | 1 => ret STxt | 2 => ret STex | 3 => ret SBin | 4 => ret SUnknown | 5 => ret SNone
                | _ => fun _ => None end%nat.
Definition getEntry : dec entry :=
  do x <- getN; match x with 0 => ret ENoDir | 1 => ret EAbsent | S (S c) => ret (EFile c) end%nat.
Definition getList {A} (d : dec A) : dec (list A) := do n <- getN; getMany n d.
Definition getOp : dec op :=
  do o <- getN; do a <- getN; do k <- getKind; do n <- getN;
  match o with
  | 0 => ret (Load k n) | 1 => ret (Save k n) | 2 => ret (ReadAs a k n) | 3 => ret (WriteAs a k n)
  | 4 => ret (WriteSfx k n) | 5 => ret (Info n) | _ => fun _ => None
  end%nat.

Definition getWorld : dec world :=
  do ios <- getList getFmt; do sf <- getList getSfx; do hd <- getList getVec;
  do rd <- getVec; do wr <- getList (do v <- getZ; do c <- getN; ret (v, c)); do e <- getN; do inf <- getVec;
  ret {| w_ios := ios; w_sfx := sf; w_head := hd; w_rd := rd; w_wr := wr; w_empty := e; w_inf := inf |}.

Definition fmt_mask (l : list fmt) : Z :=
  fold_left Z.lor (map (fun g => Z.shiftl 1 (Z.of_nat (fmt_idx g))) l) 0.
Definition outEntry (e : entry) : Z := match e with ENoDir => 0 | EAbsent => 1 | EFile c => Z.of_nat (S (S c)) end.

Definition op_name (o : op) : nat :=
  match o with Load _ n | Save _ n | ReadAs _ _ n | WriteAs _ _ n | WriteSfx _ n | Info n => n end.
(* per operation: outcome, mask of selected codecs, entry of the operation's file before the operation *)
Fixpoint trace3 (c : cfg) (W : world) (fresh : bool) (h : list op) (s : state) : wire * fsys :=
  match h with
  | [] => ([], snd s)
  | o :: h' =>
      let '(s', r) := step c W o (if fresh then (pst0, snd s) else s) in
      let '(t, f) := trace3 c W fresh h' s' in
      (fst r :: fmt_mask (snd r) :: outEntry (nth (op_name o) (snd s) ENoDir) :: t, f)
  end.

(* c17 1 <mode> <cfg bits> world fs ops :  mode 0 = one process, mode 1 = every operation in a fresh process;
   output = (outcome, touched mask, entry before) per operation, then the final file system *)
Definition run_io (w : wire) : wire :=
  run_dec (do mode <- getN; do cb <- getN; do W <- getWorld; do fs <- getList getEntry; do ops <- getList getOp;
           ret (mode, cb, W, fs, ops)) w
    (fun '(mode, cb, W, fs, ops) =>
       let c := {| consume_before_open := Nat.odd cb; tag_at_gcount := Nat.odd (Nat.div2 cb); whole_tag := Nat.odd (Nat.div2 (Nat.div2 cb)) |} in
       let '(t, f) := trace3 c W (match mode with O => false | _ => true end) ops (pst0, fs) in
       t ++ map outEntry f).

Definition getBool : dec bool := do x <- getN; ret (negb (Nat.eqb x 0)).
Definition lenpref (l : list (list Z)) : wire := flat_map (fun o => Z.of_nat (length o) :: o) l.

(* ---- machine 2: Geometry ---- *)
Definition getGdesc : dec gdesc :=
  do st <- getZ; do vs <- getVec; do nm <- getN; do nd <- getN; do fin <- getBool; do mk <- getBool;
  do inv <- getVec; do ni <- getVec; do pa <- getN; do ti <- getN; do cb <- getN; do pr <- getN; do ne <- getBool; do hm <- getZ;
  ret {| d_status := st; d_verts := vs; d_nmeshes := nm; d_ndomains := nd; d_finalized := fin; d_marks := mk; d_inv_add := inv;
         d_noniso := ni; d_parts := pa; d_tri_idx := ti; d_cbt := cb; d_pairs := pr; d_nested := ne; d_headmat := hm |}.
Definition getGop : dec gop := do o <- getN; do i <- getN; match o with O => ret (GLoad i) | 1%nat => ret GHeadMat | 2%nat => ret GOther | 3%nat => ret GFinalize | 4%nat => ret GPollute | _ => ret (GSetCond i) end.
Definition run_geom (w : wire) : wire :=
  run_dec (do fx <- getBool; do W <- getList getGdesc; do ops <- getList getGop; ret (fx, W, ops)) w
    (fun '(fx, W, ops) => lenpref (g_trace fx W ops gst0)).

(* ---- machine 3: Sensors ---- *)
Definition getSdesc : dec sdesc :=
  do st <- getZ; do lb <- getBool; do nm <- getVec; do nl <- getN; do nc <- getN;
  ret {| s_status := st; s_labeled := lb; s_names := nm; s_nlin := nl; s_ncol := nc |}.
Definition run_sens (w : wire) : wire :=
  run_dec (do fx <- getBool; do ge <- getBool; do W <- getList getSdesc; do ops <- getList getN; ret (fx, ge, W, ops)) w
    (fun '(fx, ge, W, ops) => lenpref (s_trace fx ge W ops sst0)).

(* ---- machine 4: Mesh ---- *)
Definition getMdesc : dec mdesc :=
  do st <- getZ; do vs <- getVec; do ts <- getList (do a <- getN; do b <- getN; do c <- getN; ret (a, b, c)); do so <- getZ; do sf <- getBool; do so2 <- getZ; do sf2 <- getBool;
  ret {| m_status := st; m_vs := vs; m_ts := ts; m_source := so; m_sflag := sf; m_source2 := so2; m_sflag2 := sf2 |}.
Definition getMop : dec mop := do o <- getN; do i <- getN; match o with O => ret (MLoad i) | 1%nat => ret MSurfSource | _ => ret MSurfSource2 end.
Definition run_mesh (w : wire) : wire :=
  run_dec (do cb <- getN; do W <- getList getMdesc; do ops <- getList getMop; ret (cb, W, ops)) w
    (fun '(cb, W, ops) =>
       let c := {| clear_flags := Nat.odd cb; clear_private_geometry := Nat.odd (Nat.div2 cb) |} in
       lenpref (m_trace c W ops mst0)).

(* ---- machine 5: one Vector/Matrix/SymMatrix/SparseMatrix object ---- *)
Definition getLdesc : dec ldesc :=
  do st <- getZ; do nl <- getN; do nc <- getN; do es <- getList (do k <- getZ; do v <- getZ; ret (k, v));
  ret {| l_status := st; l_nl := nl; l_nc := nc; l_entries := es |}.
Definition run_linop (w : wire) : wire :=
  run_dec (do fx <- getBool; do sp <- getBool; do W <- getList getLdesc; do ops <- getList getN; ret (fx, sp, W, ops)) w
    (fun '(fx, sp, W, ops) => lenpref (l_trace fx sp W ops lst0)).

(* ---- machine 6: computations on shared objects; the catalogue (reads, declared writes) is the generated one ---- *)
Definition run_compute (w : wire) : wire :=
  run_dec (do init <- getVec; do fr <- getVec; do ops <- getList getN; ret (init, fr, ops)) w
    (fun '(init, fr, ops) =>
       let W := map (fun p => {| c_reads := fst (fst p); c_writes := snd (fst p); c_fresh := snd p |}) (combine code_compute_catalogue fr) in
       flat_map (fun r => [fst r; snd r]) (c_trace init W ops init)).

(* ---- machine 8: several geometries, point-locating assemblies; catalogue (reads, writes, fresh result) on the wire ---- *)
Definition run_multi (w : wire) : wire :=
  run_dec (do init <- getVec; do cat <- getList (do rs <- getList getN; do ws <- getList getN; do f <- getZ; ret {| c_reads := rs; c_writes := ws; c_fresh := f |});
           do ops <- getList getN; ret (init, cat, ops)) w
    (fun '(init, cat, ops) => flat_map (fun r => [fst r; snd r]) (c_trace init cat ops init)).

(* ---- machine 7: reader registry; kinds 0 ok, 1 fails without leaving the stream open, 2 fails with the stream open ---- *)
Definition getFkind : dec (nat * fkind) :=
  do fm <- getN; do k <- getN; do st <- getZ;
  ret (fm, match k with O => FOk | 1%nat => FFailBeforeOpen st | _ => FFailAfterOpen st end).
Definition run_registry (w : wire) : wire :=
  run_dec (do cl <- getBool; do nf <- getN; do h <- getList getFkind; ret (cl, nf, h)) w
    (fun '(cl, nf, h) => fst (r_trace cl h (repeat false nf))).

Definition run_c17 (w : wire) : wire :=
  match w with
  | 1 :: w' => run_io w'
  | 2 :: w' => run_geom w'
  | 3 :: w' => run_sens w'
  | 4 :: w' => run_mesh w'
  | 5 :: w' => run_linop w'
  | 6 :: w' => run_compute w'
  | 7 :: w' => run_registry w'
  | 8 :: w' => run_multi w'
  | _ => [-1]
  end.
