(* EXTRACT-F: c02 frun_c02 *)
(* Executable entry point for the decision models of Geom/Decisions.v (float instance vs the C++, checks/c02.py).
   op 1  Geometry::domain(p):  ints  1 nd { nb { inside(0/1) nom { orientation(+1/-1) ntri } } }
                               floats p(3) then 9 per triangle, in the order of the integer description
         result ints [0; index of the first domain containing p, or -1], floats [summed solid angle of every interface visited
         ... none: only the decision is compared]
   op 2  dist_point_interface scan: floats = the distances in triangle order; result ints [0; index of the first strict minimum or -1] *)
From OM Require Import Base.Ops Base.Vec3 Geom.Kernels Geom.Decisions.
From Coq Require Import ZArith List.
Import ListNotations.

Section Run.
  Context {F : Type} (o : Ops F).
  Local Notation V := (vec3 F).

  Definition st := (list Z * list F)%type.
  Definition rd (A : Type) := st -> option (A * st).
  Definition rret {A} (a : A) : rd A := fun s => Some (a, s).
  Definition rbind {A B} (m : rd A) (k : A -> rd B) : rd B := fun s => match m s with Some (a, s') => k a s' | None => None end.
  Notation "'rdo' x <- m ; k" := (rbind m (fun x => k)) (at level 200, x pattern, m at level 100, k at level 200).
  Definition rZ : rd Z := fun s => match s with (z :: zs, fs) => Some (z, (zs, fs)) | _ => None end.
  Definition rN : rd nat := fun s => match s with (z :: zs, fs) => if (z <? 0)%Z then None else Some (Z.to_nat z, (zs, fs)) | _ => None end.
  Definition rV : rd V := fun s => match s with (zs, a :: b :: c :: fs) => Some (mkV a b c, (zs, fs)) | _ => None end.
  Fixpoint rMany {A} (n : nat) (d : rd A) : rd (list A) :=
    match n with O => rret [] | S n' => rdo x <- d; rdo xs <- rMany n' d; rret (x :: xs) end.

  Definition rTri : rd (@tri F) := rdo a <- rV; rdo b <- rV; rdo c <- rV; rret (a, b, c).
  Definition rOmesh : rd (F * list (@tri F)) :=
    rdo ori <- rZ; rdo n <- rN; rdo ts <- rMany n rTri; rret (fofZ o ori, ts).
  Definition rBoundary : rd (bool * list (F * list (@tri F))) :=
    rdo ins <- rZ; rdo n <- rN; rdo oms <- rMany n rOmesh; rret (negb (Z.eqb ins 0), oms).
  Definition rDomain : rd (list (bool * list (F * list (@tri F)))) := rdo n <- rN; rMany n rBoundary.

  Definition bad : list Z * list F := ([(-1)%Z], []).

  Definition frun_c02 (zs : list Z) (fs : list F) : list Z * list F :=
    match zs with
    | 1%Z :: zs' =>
      match (rdo p <- rV; rdo nd <- rN; rdo ds <- rMany nd rDomain; rret (p, ds)) (zs', fs) with
      | Some ((p, ds), ([], [])) =>
        ([0%Z; match first_domain o p ds O with Some k => Z.of_nat k | None => (-1)%Z end], [])
      | _ => bad
      end
    | 2%Z :: [] =>
      ([0%Z; match argmin_first o fs with Some k => Z.of_nat k | None => (-1)%Z end], [])
    | _ => bad
    end.
End Run.
