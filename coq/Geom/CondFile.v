(* Token-level model of the conductivity file reader (OpenMEEG/include/Properties.H PropertyLoader / Named,
   PropertiesSpecialized.h, Geometry::read_conductivity_file).  After the header line the file is a sequence of
   lines: comments (first non-blank character '#', skipped by skip_comments) and entries "name value".
   Named::define keeps the FIRST definition of a name (a second one only prints a warning); afterwards every domain
   looks its own name up; a missing name is BadDomain. *)
From OM Require Import Base.Lists.

Section Cond.
Variable V : Type.                    (* conductivity values: never inspected here *)

Inductive cline := CComment | CEntry (name : nat) (value : V).

Definition table := list (nat * V).

Fixpoint lookup (n : nat) (t : table) : option V :=
  match t with
  | [] => None
  | (k, v) :: r => if Nat.eqb k n then Some v else lookup n r
  end.

(* Named::define: insert unless already present *)
Definition define (t : table) (n : nat) (v : V) : table :=
  match lookup n t with Some _ => t | None => t ++ [(n, v)] end.

Definition read_line (t : table) (l : cline) : table :=
  match l with CComment => t | CEntry n v => define t n v end.

Definition read_cond (header_ok : bool) (ls : list cline) : option table :=
  if header_ok then Some (fold_left read_line ls []) else None.

(* read_conductivity_file: every domain (given by its name) gets the value defined for its name *)
Fixpoint attach (t : table) (doms : list nat) : option (list V) :=
  match doms with
  | [] => Some []
  | d :: r => match lookup d t, attach t r with
              | Some v, Some vs => Some (v :: vs)
              | _, _ => None        (* UnknownProperty -> BadDomain *)
              end
  end.

Definition load_cond (header_ok : bool) (ls : list cline) (doms : list nat) : option (list V) :=
  match read_cond header_ok ls with Some t => attach t doms | None => None end.

(* reference semantics: the first entry line carrying the name *)
Fixpoint first_entry (n : nat) (ls : list cline) : option V :=
  match ls with
  | [] => None
  | CComment :: r => first_entry n r
  | CEntry k v :: r => if Nat.eqb k n then Some v else first_entry n r
  end.
End Cond.
Arguments CComment {V}. Arguments CEntry {V}.
Arguments lookup {V}. Arguments define {V}. Arguments read_line {V}. Arguments read_cond {V}. Arguments attach {V}.
Arguments load_cond {V}. Arguments first_entry {V}.
