(* Lemmas about coq/Geom/GeomModel.v: index generation, pair quantities, mesh pairs, outermost domain,
   domain membership. *)
From OM Require Import Base.Lists Base.Ops Geom.GeomModel.
From Coq Require Import Permutation.
Local Open Scope Z_scope.

(* ------------------------------------------------------------------ zseq *)
Lemma zseq_length a n : length (zseq a n) = n.
Proof. unfold zseq. rewrite map_length, seq_length. reflexivity. Qed.

Lemma zseq_S a n : zseq a (S n) = a :: zseq (a + 1) n.
Proof.
  unfold zseq. simpl. f_equal; [lia|]. rewrite <- seq_shift, map_map.
  apply map_ext. intros k. lia.
Qed.

Lemma zseq_app a n m : zseq a (n + m) = zseq a n ++ zseq (a + Z.of_nat n) m.
Proof.
  revert a; induction n as [|n IH]; intros a.
  - simpl. replace (a + 0) with a by lia. reflexivity.
  - replace (S n + m)%nat with (S (n + m)) by lia. rewrite !zseq_S, IH. simpl. do 3 f_equal. lia.
Qed.

Lemma zseq_In a n x : In x (zseq a n) <-> a <= x < a + Z.of_nat n.
Proof.
  unfold zseq. rewrite in_map_iff. split.
  - intros [k [<- Hk]]. apply in_seq in Hk. lia.
  - intros H. exists (Z.to_nat (x - a)). split; [lia|]. apply in_seq. lia.
Qed.

Lemma zseq_NoDup a n : NoDup (zseq a n).
Proof.
  revert a; induction n as [|n IH]; intros a; [constructor|].
  rewrite zseq_S. constructor; [|apply IH]. rewrite zseq_In. lia.
Qed.

(* ------------------------------------------------------------------ vertices (new ordering) *)
Definition valid_count (vs invalid : list nat) : nat := length (filter (fun v => negb (memn v invalid)) vs).
Definition assigned (l : list Z) : list Z := filter (fun z => negb (z =? -1)) l.

Lemma number_vertices_spec vs invalid : forall idx l i, 0 <= idx ->
  number_vertices vs invalid idx = (l, i) ->
  length l = length vs /\ assigned l = zseq idx (valid_count vs invalid) /\ i = idx + Z.of_nat (valid_count vs invalid)
  /\ (forall k, (k < length vs)%nat -> memn (nth k vs 0%nat) invalid = true -> nth k l 0 = -1)
  /\ (forall k, (k < length vs)%nat -> memn (nth k vs 0%nat) invalid = false -> idx <= nth k l 0 < i).
Proof.
  induction vs as [|v r IH]; intros idx l i H0 H; simpl in H.
  - inversion H; subst. unfold valid_count; simpl.
    split; [auto|]. split; [auto|]. split; [lia|]. split; intros k Hk; simpl in Hk; lia.
  - unfold valid_count in *. simpl. destruct (memn v invalid) eqn:E.
    + destruct (number_vertices r invalid idx) as [l' i'] eqn:R. inversion H; subst.
      destruct (IH _ _ _ H0 R) as (A & B & C & D1 & D2). simpl.
      split; [auto|]. split; [auto|]. split; [auto|]. split.
      * intros [|k] Hk Hm; simpl; auto. apply D1; [simpl in Hk; lia|auto].
      * intros [|k] Hk Hm; simpl in *; [congruence|]. apply D2; auto; lia.
    + destruct (number_vertices r invalid (idx + 1)) as [l' i'] eqn:R. inversion H; subst.
      assert (H1 : 0 <= idx + 1) by lia.
      destruct (IH _ _ _ H1 R) as (A & B & C & D1 & D2). simpl.
      replace (idx =? -1) with false by (symmetry; apply Z.eqb_neq; lia). simpl.
      rewrite zseq_S, B.
      split; [auto|]. split; [auto|]. split; [try rewrite Zpos_P_of_succ_nat; lia|]. split.
      * intros [|k] Hk Hm; simpl in *; [congruence|]. apply D1; auto; lia.
      * intros [|k] Hk Hm; simpl in *; [lia|].
        assert (idx + 1 <= nth k l' 0 < i) by (apply D2; auto; lia). lia.
Qed.

(* ------------------------------------------------------------------ triangles *)
Definition barf (f : flags) : bool := f_cb f && negb (f_iso f).
Definition isof (f : flags) : bool := f_cb f && f_iso f.

Fixpoint sel (p : flags -> bool) (fl : list flags) (ts : list (list Z)) : list Z :=
  match ts with
  | [] => []
  | t :: r => (if p (hd flags0 fl) then t else []) ++ sel p (tl fl) r
  end.

Fixpoint ntris (p : flags -> bool) (ms : list lmesh) (fl : list flags) : nat :=
  match ms with
  | [] => 0
  | m :: r => ((if p (hd flags0 fl) then length (lm_tris m) else 0) + ntris p r (tl fl))%nat
  end.

Lemma tris_spec ms : forall fl a pre a' b nb0 l b' nb,
  number_live_tris ms fl a = (pre, a') ->
  number_barrier_tris ms fl pre b nb0 = (l, b', nb) ->
  length l = length ms
  /\ sel live fl l = zseq a (ntris live ms fl) /\ a' = a + Z.of_nat (ntris live ms fl)
  /\ sel barf fl l = zseq b (ntris barf ms fl) /\ b' = b + Z.of_nat (ntris barf ms fl)
  /\ nb = nb0 + Z.of_nat (ntris barf ms fl)
  /\ sel isof fl l = repeat (-1) (ntris isof ms fl).
Proof.
  induction ms as [|m r IH]; intros fl a pre a' b nb0 l b' nb H1 H2; simpl in H1, H2.
  - inversion H1; inversion H2; subst. simpl. repeat split; auto; lia.
  - unfold live, barf, isof in *. simpl.
    destruct (hd flags0 fl) as [cb iso out] eqn:Ef. simpl in *.
    destruct iso, cb; simpl in *.
    + (* isolated barrier *)
      destruct (number_live_tris r (tl fl) a) as [p1 a1] eqn:R1. inversion H1; subst. simpl in H2.
      destruct (number_barrier_tris r (tl fl) p1 b nb0) as [[l1 b1] n1] eqn:R2. inversion H2; subst.
      destruct (IH _ _ _ _ _ _ _ _ _ R1 R2) as (A & B & C & D & E & G & I). simpl. rewrite ?Ef; simpl.
      rewrite repeat_app. repeat split; auto; try lia. f_equal; auto.
    + (* isolated, not a barrier: keeps the load-time numbers *)
      destruct (number_live_tris r (tl fl) a) as [p1 a1] eqn:R1. inversion H1; subst. simpl in H2.
      destruct (number_barrier_tris r (tl fl) p1 b nb0) as [[l1 b1] n1] eqn:R2. inversion H2; subst.
      destruct (IH _ _ _ _ _ _ _ _ _ R1 R2) as (A & B & C & D & E & G & I). simpl. rewrite ?Ef; simpl. repeat split; auto; lia.
    + (* barrier, not isolated *)
      destruct (number_live_tris r (tl fl) a) as [p1 a1] eqn:R1. inversion H1; subst. simpl in H2.
      destruct (number_barrier_tris r (tl fl) p1 (b + Z.of_nat (length (lm_tris m))) (nb0 + Z.of_nat (length (lm_tris m)))) as [[l1 b1] n1] eqn:R2.
      inversion H2; subst.
      destruct (IH _ _ _ _ _ _ _ _ _ R1 R2) as (A & B & C & D & E & G & I). simpl. rewrite ?Ef; simpl.
      rewrite zseq_app, D. repeat split; auto; lia.
    + (* live *)
      destruct (number_live_tris r (tl fl) (a + Z.of_nat (length (lm_tris m)))) as [p1 a1] eqn:R1. inversion H1; subst. simpl in H2.
      destruct (number_barrier_tris r (tl fl) p1 b nb0) as [[l1 b1] n1] eqn:R2. inversion H2; subst.
      destruct (IH _ _ _ _ _ _ _ _ _ R1 R2) as (A & B & C & D & E & G & I). simpl. rewrite ?Ef; simpl.
      rewrite zseq_app, B. repeat split; auto; lia.
Qed.

(* The statement of generate_indices_bijection (new ordering), for every geometry, every flag assignment and
   every set of excluded vertices. *)
Definition index_spec (g : geom) (fl : list flags) (invalid : list nat) (ix : indices) : Prop :=
  let Nv := valid_count (seq 0 (g_nv g)) invalid in
  let Nt := ntris live (g_meshes g) fl in
  let B := ntris barf (g_meshes g) fl in
  let N := Z.of_nat (Nv + Nt) in
  (* the indices of the valid vertices followed by those of the triangles of current-carrying meshes, in geometry
     order, are exactly 0,1,...,N-1: a bijection onto [0,N) *)
  assigned (ix_v ix) ++ sel live fl (ix_t ix) = zseq 0 (Nv + Nt)
  (* triangles of (non isolated) current barriers come next: [N,N+B) *)
  /\ sel barf fl (ix_t ix) = zseq N B
  (* excluded vertices and triangles of isolated meshes carry unsigned(-1) *)
  /\ (forall v, (v < g_nv g)%nat -> memn v invalid = true -> nth v (ix_v ix) 0 = -1)
  /\ (forall v, (v < g_nv g)%nat -> memn v invalid = false -> 0 <= nth v (ix_v ix) 0 < Z.of_nat Nv)
  /\ sel isof fl (ix_t ix) = repeat (-1) (ntris isof (g_meshes g) fl)
  /\ length (ix_v ix) = g_nv g /\ length (ix_t ix) = length (g_meshes g)
  /\ ix_n ix = N + Z.of_nat B /\ ix_nb ix = Z.of_nat B.

Lemma generate_indices_new_spec g fl invalid : index_spec g fl invalid (generate_indices g false fl invalid).
Proof.
  unfold index_spec, generate_indices.
  destruct (number_vertices (seq 0 (g_nv g)) invalid 0) as [v i0] eqn:RV.
  destruct (number_live_tris (g_meshes g) fl i0) as [pre i] eqn:RL.
  destruct (number_barrier_tris (g_meshes g) fl pre i 0) as [[t n] nb] eqn:RB. simpl.
  destruct (number_vertices_spec _ _ _ _ _ (Z.le_refl 0) RV) as (A & B & C & D1 & D2).
  destruct (tris_spec _ _ _ _ _ _ _ _ _ _ RL RB) as (T0 & T1 & T2 & T3 & T4 & T5 & T6).
  rewrite seq_length in *. subst.
  repeat split; auto.
  - rewrite B, T1, zseq_app. reflexivity.
  - rewrite T3. f_equal. lia.
  - intros v0 Hv Hm. apply D1; auto. rewrite seq_nth; auto.
  - specialize (D2 v0 H). rewrite seq_nth in D2 by auto. simpl in D2. apply D2 in H0. lia.
  - specialize (D2 v0 H). rewrite seq_nth in D2 by auto. simpl in D2. apply D2 in H0. lia.
  - lia.
Qed.

(* ------------------------------------------------------------------ old ordering *)
(* every mesh numbers its own vertex references, then (if it carries current) its triangles *)
Fixpoint old_layout (ms : list lmesh) (fl : list flags) : list (nat * nat) :=   (* (#vertex refs, #live tris) per mesh *)
  match ms with
  | [] => []
  | m :: r => (length (lm_verts m), if live (hd flags0 fl) then length (lm_tris m) else 0%nat) :: old_layout r (tl fl)
  end.

Lemma assign_length vs : forall vidx idx v i, assign vidx vs idx = (v, i) -> length v = length vidx /\ i = idx + Z.of_nat (length vs).
Proof.
  induction vs as [|x r IH]; intros vidx idx v i H; simpl in H.
  - inversion H; subst. simpl. split; auto; lia.
  - apply IH in H. rewrite upd_length in H. destruct H. split; auto. simpl length. lia.
Qed.

(* on a list of distinct vertex numbers, assign writes idx, idx+1, ... at those positions and nothing else *)
Lemma assign_spec vs : forall vidx idx v i, NoDup vs -> (forall x, In x vs -> (x < length vidx)%nat) ->
  assign vidx vs idx = (v, i) ->
  (forall k, (k < length vs)%nat -> nth (nth k vs 0%nat) v 0 = idx + Z.of_nat k)
  /\ (forall x, ~ In x vs -> nth x v 0 = nth x vidx 0).
Proof.
  induction vs as [|x r IH]; intros vidx idx v i ND Hb H; simpl in H.
  - inversion H; subst. split; intros; simpl in *; auto; lia.
  - inversion ND; subst. destruct (IH _ _ _ _ H3 ltac:(intros y Hy; rewrite upd_length; apply Hb; right; auto) H) as [A B].
    split.
    + intros [|k] Hk; simpl in *.
      * rewrite B by auto. rewrite nth_upd_same; [lia|]. apply Hb; left; auto.
      * rewrite A by lia. lia.
    + intros y Hy. rewrite B by (intros C; apply Hy; right; auto).
      apply nth_upd_other. intros ->. apply Hy; left; auto.
Qed.

(* ------------------------------------------------------------------ common domains, pair quantities *)
Lemma memn_In k l : memn k l = true <-> In k l.
Proof.
  unfold memn. rewrite existsb_exists. split.
  - intros [x [Hx E]]. apply Nat.eqb_eq in E. subst; auto.
  - intros H. exists k. split; auto. apply Nat.eqb_refl.
Qed.

Lemma domains_of_In g m k : In k (domains_of g m) <-> (k < length (g_doms g))%nat /\ dom_has_mesh (dom g k) m = true.
Proof. unfold domains_of. rewrite filter_In, in_seq. split; intros [A B]; split; auto; lia. Qed.

Lemma filter_filter {A} (p q : A -> bool) l : filter p (filter q l) = filter (fun x => q x && p x) l.
Proof. induction l as [|a l IH]; simpl; auto. destruct (q a); simpl; [destruct (p a)|]; rewrite IH; auto. Qed.

(* the set intersection computed by the code is the symmetric filter *)
Lemma common_domains_sym_form g m1 m2 :
  common_domains g m1 m2 = filter (fun k => dom_has_mesh (dom g k) m1 && dom_has_mesh (dom g k) m2) (seq 0 (length (g_doms g))).
Proof.
  unfold common_domains. unfold domains_of at 2. rewrite filter_filter.
  apply filter_ext_in. intros k Hk. f_equal.
  destruct (dom_has_mesh (dom g k) m2) eqn:E.
  - apply memn_In, domains_of_In. split; auto. apply in_seq in Hk. lia.
  - destruct (memn k (domains_of g m2)) eqn:E2; auto. apply memn_In, domains_of_In in E2. destruct E2; congruence.
Qed.

Lemma common_domains_sym g m1 m2 : common_domains g m1 m2 = common_domains g m2 m1.
Proof. rewrite !common_domains_sym_form. apply filter_ext. intros k. apply andb_comm. Qed.

Lemma relative_orientation_sym g m1 m2 : relative_orientation g m1 m2 = relative_orientation g m2 m1.
Proof.
  unfold relative_orientation. rewrite (Nat.eqb_sym m2 m1). destruct (Nat.eqb m1 m2); auto.
  rewrite (common_domains_sym g m2 m1). destruct (common_domains g m1 m2); auto.
  rewrite Z.eqb_sym. reflexivity.
Qed.

Section PairFloats.
Context {F : Type} (o : Ops F).
Lemma eval_common_sym g conds f m1 m2 : eval_common o g conds f m1 m2 = eval_common o g conds f m2 m1.
Proof. unfold eval_common. rewrite common_domains_sym. reflexivity. Qed.
End PairFloats.

(* ------------------------------------------------------------------ mesh pairs *)
Section Pairs.
Variable g : geom.
Variable fl : list flags.
Variable snz : nat -> nat -> bool.

Definition communicating (i j : nat) : bool :=
  negb (f_iso (nth i fl flags0)) && negb (f_iso (nth j fl flags0)) && snz i j && negb (relative_orientation g i j =? 0).

Lemma pairs_In i j s :
  In (i, j, s) (make_mesh_pairs g fl snz) <->
  (j <= i < length (g_meshes g))%nat /\ communicating i j = true /\ s = relative_orientation g i j.
Proof.
  unfold make_mesh_pairs, communicating. rewrite in_flat_map. split.
  - intros [i' [Hi H]]. apply in_seq in Hi.
    destruct (f_iso (nth i' fl flags0)) eqn:E1; [inversion H|].
    apply in_flat_map in H. destruct H as [j' [Hj H]]. apply in_seq in Hj.
    destruct (negb (f_iso (nth j' fl flags0)) && snz i' j' && negb (relative_orientation g i' j' =? 0)) eqn:E2; [|inversion H].
    destruct H as [H|[]]. inversion H; subst. rewrite E1. simpl.
    repeat split; try lia. apply andb_true_iff in E2. destruct E2 as [E2 E3]. apply andb_true_iff in E2. destruct E2 as [E2 E4].
    rewrite E2, E3, E4. reflexivity.
  - intros [Hr [Hc Hs]]. exists i. split; [apply in_seq; lia|].
    apply andb_true_iff in Hc. destruct Hc as [Hc H4]. apply andb_true_iff in Hc. destruct Hc as [Hc H3].
    apply andb_true_iff in Hc. destruct Hc as [H1 H2]. apply negb_true_iff in H1. rewrite H1.
    apply in_flat_map. exists j. split; [apply in_seq; lia|]. rewrite H2, H3, H4. simpl. left. subst; auto.
Qed.

Lemma NoDup_app_intro {A} (a b : list A) : NoDup a -> NoDup b -> (forall x, In x a -> ~ In x b) -> NoDup (a ++ b).
Proof.
  induction a as [|x a IH]; intros Ha Hb Hd; simpl; auto.
  inversion Ha; subst. constructor.
  - rewrite in_app_iff. intros [C|C]; [auto|]. apply (Hd x); [left; auto|auto].
  - apply IH; auto. intros y Hy. apply Hd. right; auto.
Qed.

Lemma flat_map_NoDup {A B} (f : A -> list B) (l : list A) :
  NoDup l -> (forall a, In a l -> NoDup (f a)) ->
  (forall a a' b, In a l -> In a' l -> In b (f a) -> In b (f a') -> a = a') ->
  NoDup (flat_map f l).
Proof.
  induction l as [|x l IH]; intros ND H1 H2; simpl; [constructor|].
  inversion ND; subst. apply NoDup_app_intro.
  - apply H1; left; auto.
  - apply IH; auto; [intros; apply H1; right; auto | intros; eapply H2; eauto; right; auto].
  - intros b Hb C. apply in_flat_map in C. destruct C as [a' [Ha' Hb']].
    assert (x = a') by (eapply H2; eauto; [left; auto|right; auto]). subst. auto.
Qed.

Lemma pairs_NoDup : NoDup (map (fun p => (fst (fst p), snd (fst p))) (make_mesh_pairs g fl snz)).
Proof.
  unfold make_mesh_pairs. rewrite flat_map_concat_map, concat_map, map_map, <- flat_map_concat_map.
  apply flat_map_NoDup.
  - apply seq_NoDup.
  - intros i _. destruct (f_iso (nth i fl flags0)); [constructor|].
    rewrite flat_map_concat_map, concat_map, map_map, <- flat_map_concat_map.
    apply flat_map_NoDup.
    + apply seq_NoDup.
    + intros j _. destruct (_ && _ && _); simpl; repeat constructor; auto.
    + intros j j' b _ _ H1 H2.
      destruct (negb (f_iso (nth j fl flags0)) && snz i j && negb (relative_orientation g i j =? 0)); simpl in H1; [|tauto].
      destruct (negb (f_iso (nth j' fl flags0)) && snz i j' && negb (relative_orientation g i j' =? 0)); simpl in H2; [|tauto].
      destruct H1 as [<-|[]]. destruct H2 as [H2|[]]. inversion H2; auto.
  - intros i i' b _ _ H1 H2.
    assert (P : forall i0, In b (map (fun p : nat * nat * Z => (fst (fst p), snd (fst p)))
               (if f_iso (nth i0 fl flags0) then []
                else flat_map (fun j => let o := relative_orientation g i0 j in
                       if negb (f_iso (nth j fl flags0)) && snz i0 j && negb (o =? 0) then [(i0, j, o)] else []) (seq 0 (S i0)))) -> fst b = i0).
    { intros i0 H. destruct (f_iso (nth i0 fl flags0)); [inversion H|].
      apply in_map_iff in H. destruct H as [[[x y] z] [E H]]. apply in_flat_map in H. destruct H as [j [_ H]].
      cbv zeta in H. destruct (_ && _ && _) in H; [|inversion H]. destruct H as [H|[]]. inversion H; subst. reflexivity. }
    rewrite <- (P i H1), <- (P i' H2). reflexivity.
Qed.

(* every unordered pair {i,j} of communicating meshes is listed exactly once, as (max,min) *)
Lemma pairs_cover_once i j : (i < length (g_meshes g))%nat -> (j < length (g_meshes g))%nat ->
  (forall a b, snz a b = snz b a) ->
  communicating i j = true ->
  let hi := Nat.max i j in let lo := Nat.min i j in
  In (hi, lo, relative_orientation g i j) (make_mesh_pairs g fl snz)
  /\ (i <> j -> forall s, ~ In (lo, hi, s) (make_mesh_pairs g fl snz)).
Proof.
  intros Hi Hj Hs Hc hi lo. assert (Csym : forall a b, communicating a b = communicating b a).
  { intros a b. unfold communicating. rewrite (Hs a b), (relative_orientation_sym g a b).
    destruct (f_iso (nth a fl flags0)), (f_iso (nth b fl flags0)); reflexivity. }
  split.
  - apply pairs_In. subst hi lo. destruct (Nat.le_ge_cases i j) as [L|L].
    + rewrite Nat.max_r, Nat.min_l by auto. rewrite Csym, relative_orientation_sym. repeat split; auto.
    + rewrite Nat.max_l, Nat.min_r by auto. repeat split; auto.
  - intros Hne s C. apply pairs_In in C. subst hi lo. destruct C as [C _]. lia.
Qed.
End Pairs.

(* ------------------------------------------------------------------ outermost domain *)
Lemma first_index_spec {A} (p : A -> bool) (l : list A) : forall k0 k d,
  first_index p l k0 = Some k ->
  (k0 <= k)%nat /\ (k - k0 < length l)%nat /\ p (nth (k - k0) l d) = true /\ forall j, (j < k - k0)%nat -> p (nth j l d) = false.
Proof.
  induction l as [|a l IH]; intros k0 k d H; simpl in H; [discriminate|].
  destruct (p a) eqn:E.
  - inversion H; subst. rewrite Nat.sub_diag. simpl. split; [lia|]. split; [lia|]. split; [auto|]. intros j Hj; lia.
  - apply (IH _ _ d) in H. destruct H as (A1 & A2 & A3 & A4).
    replace (k - k0)%nat with (S (k - S k0)) by lia. simpl. split; [lia|]. split; [lia|]. split; [auto|].
    intros [|j] Hj; auto. apply A4. lia.
Qed.

Lemma first_index_none {A} (p : A -> bool) (l : list A) : forall k0,
  first_index p l k0 = None <-> forall a, In a l -> p a = false.
Proof.
  induction l as [|a l IH]; intros k0; simpl.
  - split; auto. intros _ a [].
  - destruct (p a) eqn:E.
    + split; [discriminate|]. intros H. rewrite (H a) in E by auto. discriminate.
    + rewrite IH. split; intros H b; [intros [<-|Hb]; auto|intros Hb; apply H; auto].
Qed.

Definition no_inside (d : list gbound) : bool := forallb (fun b => negb (b_inside b)) d.

(* the outermost domain is the first domain none of whose boundaries is an "inside" one *)
Lemma outermost_domain_spec g k : outermost_domain g = Some k ->
  (k < length (g_doms g))%nat /\ no_inside (dom g k) = true /\ forall j, (j < k)%nat -> no_inside (dom g j) = false.
Proof.
  unfold outermost_domain. intros H. apply (first_index_spec _ _ _ _ []) in H.
  rewrite Nat.sub_0_r in H. destruct H as (_ & A & B & C). unfold dom, no_inside. auto.
Qed.

Lemma outermost_domain_none g : outermost_domain g = None <-> forall d, In d (g_doms g) -> no_inside d = false.
Proof. apply first_index_none. Qed.

(* when exactly one domain has no inside (the hypothesis written in Geometry::finalize), it is the one returned *)
Lemma outermost_domain_unique g k : (k < length (g_doms g))%nat -> no_inside (dom g k) = true ->
  (forall j, (j < length (g_doms g))%nat -> no_inside (dom g j) = true -> j = k) -> outermost_domain g = Some k.
Proof.
  intros Hk Hn Hu. destruct (outermost_domain g) as [k'|] eqn:E.
  - apply outermost_domain_spec in E. destruct E as (A & B & _). f_equal. apply Hu; auto.
  - exfalso. rewrite outermost_domain_none in E. specialize (E (dom g k)). unfold dom in *.
    rewrite E in Hn; [discriminate|]. apply nth_In; auto.
Qed.

(* set_outermost only raises outermost flags, exactly on the meshes of the boundaries of that domain *)
Definition raise_out (ms : list nat) (fl : list flags) : list flags :=
  fold_left (fun fl m => let f := nth m fl flags0 in upd fl m (mkFlags (f_cb f) (f_iso f) (f_out f || negb (f_iso f)))) ms fl.

Lemma raise_out_spec : forall ms fl m,
  length (raise_out ms fl) = length fl /\
  f_cb (nth m (raise_out ms fl) flags0) = f_cb (nth m fl flags0) /\
  f_iso (nth m (raise_out ms fl) flags0) = f_iso (nth m fl flags0) /\
  f_out (nth m (raise_out ms fl) flags0) = (f_out (nth m fl flags0) || (memn m ms && Nat.ltb m (length fl) && negb (f_iso (nth m fl flags0)))).
Proof.
  induction ms as [|x ms IH]; intros fl m.
  - unfold raise_out; simpl. rewrite orb_false_r. auto.
  - change (raise_out (x :: ms) fl) with (raise_out ms (upd fl x (mkFlags (f_cb (nth x fl flags0)) (f_iso (nth x fl flags0)) (f_out (nth x fl flags0) || negb (f_iso (nth x fl flags0)))))).
    destruct (IH (upd fl x (mkFlags (f_cb (nth x fl flags0)) (f_iso (nth x fl flags0)) (f_out (nth x fl flags0) || negb (f_iso (nth x fl flags0))))) m) as (A & B & C & D).
    rewrite upd_length in *. rewrite A, B, C, D. rewrite !nth_upd. simpl memn.
    destruct (Nat.eqb_spec x m) as [->|Hn]; simpl.
    + rewrite Nat.eqb_refl. destruct (Nat.ltb m (length fl)); simpl; repeat split; auto.
      * destruct (f_out (nth m fl flags0)), (f_iso (nth m fl flags0)), (memn m ms); reflexivity.
      * rewrite !andb_false_r. auto.
    + replace (Nat.eqb m x) with false by (symmetry; apply Nat.eqb_neq; auto). simpl. repeat split; auto.
Qed.

Lemma set_outermost_raise g fl k : set_outermost g fl k = raise_out (flat_map (fun b => map snd (b_om b)) (dom g k)) fl.
Proof. reflexivity. Qed.

(* ------------------------------------------------------------------ nested flag: characterisation *)
Lemma check_nested_iff g outer : check_nested g outer = true <->
  (forall k, (k < length (g_doms g))%nat -> k <> outer -> (count_inside (dom g k) < 2)%nat)
  /\ (forall m, (m < length (g_meshes g))%nat -> oriented_sum g m mod 4294967296 <> 0).
Proof.
  unfold check_nested. rewrite andb_true_iff, !forallb_forall. split; intros [A B]; split.
  - intros k Hk Hn. specialize (A k ltac:(apply in_seq; lia)). apply orb_true_iff in A. destruct A as [A|A].
    + apply Nat.eqb_eq in A. congruence.
    + apply Nat.ltb_lt in A. auto.
  - intros m Hm. specialize (B m ltac:(apply in_seq; lia)). apply negb_true_iff, Z.eqb_neq in B. auto.
  - intros k Hk. apply in_seq in Hk. destruct (Nat.eqb_spec k outer); simpl; auto. apply Nat.ltb_lt. apply A; auto; lia.
  - intros m Hm. apply in_seq in Hm. apply negb_true_iff, Z.eqb_neq. apply B. lia.
Qed.

(* ------------------------------------------------------------------ Domain::contains on a nested chain *)
Notation sigd := (list (bool * nat)).
Definition sig_of (d : list gbound) : sigd := map (fun b => (b_inside b, b_if b)) d.
Definition contains_sig (ins : nat -> bool) (s : sigd) : bool := forallb (fun b => Bool.eqb (ins (snd b)) (fst b)) s.

Lemma dom_contains_sig ins d : dom_contains ins d = contains_sig ins (sig_of d).
Proof. unfold dom_contains, contains_sig, sig_of. induction d as [|b d IH]; simpl; auto. rewrite IH. reflexivity. Qed.

Lemma forallb_perm {A} (p : A -> bool) l l' : Permutation l l' -> forallb p l = forallb p l'.
Proof.
  induction 1; simpl; auto.
  - rewrite IHPermutation; auto.
  - destruct (p x), (p y); auto.
  - congruence.
Qed.

Lemma count_perm {A} (p : A -> bool) l l' : Permutation l l' -> length (filter p l) = length (filter p l').
Proof.
  induction 1; simpl; auto.
  - destruct (p x); simpl; auto.
  - destruct (p x), (p y); simpl; auto.
  - congruence.
Qed.

(* the k-th domain of n nested interfaces (0 innermost): inside interface k (if k<n), outside interface k-1 (if k>0) *)
Definition chain_dom (n k : nat) : sigd :=
  (if Nat.ltb k n then [(true, k)] else []) ++ (if Nat.ltb 0 k then [(false, (k - 1)%nat)] else []).
Definition chain_sigs (n : nat) : list sigd := map (chain_dom n) (seq 0 (S n)).

(* insideness of a point w.r.t. nested closed surfaces is monotone: inside k => inside k+1 *)
Definition monotone (n : nat) (ins : nat -> bool) : Prop := forall k, (S k < n)%nat -> ins k = true -> ins (S k) = true.

Lemma monotone_threshold n ins : monotone n ins -> exists j, (j <= n)%nat /\ forall k, (k < n)%nat -> ins k = Nat.leb j k.
Proof.
  induction n as [|n IH]; intros M.
  - exists 0%nat. split; auto. intros k Hk; lia.
  - destruct IH as [j [Hj Hk]]. { intros k Hk; apply M; lia. }
    destruct (Nat.eq_dec j n) as [->|Hne].
    + (* nothing inside up to n-1 *)
      destruct (ins n) eqn:E.
      * exists n. split; [lia|]. intros k Hk'. destruct (Nat.eq_dec k n) as [->|]; [rewrite E; symmetry; apply Nat.leb_le; lia|]. apply Hk; lia.
      * exists (S n). split; [lia|]. intros k Hk'. destruct (Nat.eq_dec k n) as [->|].
        -- rewrite E. symmetry. apply Nat.leb_gt. lia.
        -- rewrite Hk by lia. destruct (Nat.leb_spec n k), (Nat.leb_spec (S n) k); auto; lia.
    + exists j. split; [lia|]. intros k Hk'. destruct (Nat.eq_dec k n) as [->|]; [|apply Hk; lia].
      assert (ins (n - 1)%nat = true) by (rewrite Hk by lia; apply Nat.leb_le; lia).
      replace n with (S (n - 1)) at 1 by lia. rewrite M; auto; [|lia]. symmetry. apply Nat.leb_le. lia.
Qed.

Lemma chain_dom_contains n ins j k : (j <= n)%nat -> (k <= n)%nat -> (forall i, (i < n)%nat -> ins i = Nat.leb j i) ->
  contains_sig ins (chain_dom n k) = Nat.eqb k j.
Proof.
  intros Hj Hk H. unfold chain_dom, contains_sig. rewrite forallb_app.
  destruct (Nat.ltb_spec k n), (Nat.ltb_spec 0 k); simpl; rewrite ?andb_true_r, ?H by lia.
  - destruct (Nat.leb_spec j k), (Nat.leb_spec j (k - 1)), (Nat.eqb_spec k j); simpl; auto; lia.
  - destruct (Nat.leb_spec j k), (Nat.eqb_spec k j); simpl; auto; lia.
  - destruct (Nat.leb_spec j (k - 1)), (Nat.eqb_spec k j); simpl; auto; lia.
  - destruct (Nat.eqb_spec k j); auto; lia.
Qed.

Lemma count_eqb_seq j : forall n a, length (filter (fun k => Nat.eqb k j) (seq a n)) = if (Nat.leb a j && Nat.ltb j (a + n))%bool then 1%nat else 0%nat.
Proof.
  induction n as [|n IH]; intros a; simpl.
  - destruct (Nat.leb_spec a j), (Nat.ltb_spec j (a + 0)); simpl; auto; lia.
  - destruct (Nat.eqb_spec a j) as [->|Hn]; simpl; rewrite IH.
    + destruct (Nat.leb_spec (S j) j), (Nat.leb_spec j j), (Nat.ltb_spec j (j + S n)); simpl; auto; lia.
    + destruct (Nat.leb_spec (S a) j), (Nat.leb_spec a j), (Nat.ltb_spec j (S a + n)), (Nat.ltb_spec j (a + S n)); simpl; auto; lia.
Qed.

Lemma filter_map_len {A B} (p : B -> bool) (f : A -> B) l : length (filter p (map f l)) = length (filter (fun x => p (f x)) l).
Proof. induction l as [|a l IH]; simpl; auto. destruct (p (f a)); simpl; auto. Qed.

(* exactly one domain of a nested chain contains a point, whatever the (monotone) insideness pattern *)
Lemma chain_unique n ins : monotone n ins -> length (filter (contains_sig ins) (chain_sigs n)) = 1%nat.
Proof.
  intros M. destruct (monotone_threshold n ins M) as [j [Hj H]].
  unfold chain_sigs. rewrite filter_map_len.
  rewrite (filter_ext_in _ (fun k => Nat.eqb k j)).
  - rewrite count_eqb_seq. destruct (Nat.leb_spec 0 j), (Nat.ltb_spec j (0 + S n)); simpl; auto; lia.
  - intros k Hk. apply in_seq in Hk. apply chain_dom_contains; auto; lia.
Qed.

Lemma Forall2_count {A} (p q : A -> bool) l l' (R : A -> A -> Prop) :
  (forall a b, R a b -> p a = q b) -> Forall2 R l l' -> length (filter p l) = length (filter q l').
Proof.
  intros H. induction 1; simpl; auto. rewrite (H _ _ H0). destruct (q y); simpl; auto.
Qed.

(* unique_domain_nested_chain: a geometry whose domains are, up to the order of the domains and of the boundaries
   inside each domain, those of n nested interfaces: every point whose insideness pattern is monotone lies in
   exactly one domain, and Geometry::domain(p) returns it *)
Lemma unique_domain_chain g n ins ss :
  Forall2 (@Permutation _) ss (chain_sigs n) -> Permutation (map sig_of (g_doms g)) ss -> monotone n ins ->
  length (filter (dom_contains ins) (g_doms g)) = 1%nat.
Proof.
  intros F P M.
  rewrite (filter_ext _ (fun d => contains_sig ins (sig_of d))) by (intros; apply dom_contains_sig).
  rewrite <- filter_map_len. rewrite (count_perm _ _ _ P).
  rewrite (Forall2_count (contains_sig ins) (contains_sig ins) _ _ _ (fun a b Hab => forallb_perm _ a b Hab) F).
  apply chain_unique; auto.
Qed.

Lemma count_one_unique {A} (p : A -> bool) (l : list A) d : length (filter p l) = 1%nat ->
  exists k, (k < length l)%nat /\ p (nth k l d) = true /\ first_index p l 0 = Some k
            /\ forall k', (k' < length l)%nat -> p (nth k' l d) = true -> k' = k.
Proof.
  intros H.
  assert (G : forall k0, exists k, (k < length l)%nat /\ p (nth k l d) = true /\ first_index p l k0 = Some (k0 + k)%nat
            /\ forall k', (k' < length l)%nat -> p (nth k' l d) = true -> k' = k).
  { induction l as [|a l IH]; intros k0; simpl in *; [discriminate|].
    destruct (p a) eqn:E.
    - simpl in H. exists 0%nat. split; [lia|]. split; [auto|]. split; [f_equal; lia|].
      intros [|k'] Hk Hp; auto. exfalso.
      assert (In (nth k' l d) (filter p l)) by (apply filter_In; split; auto; apply nth_In; lia).
      destruct (filter p l); [inversion H0|simpl in H; lia].
    - destruct (IH H (S k0)) as [k [A1 [A2 [A3 A4]]]]. exists (S k). split; [lia|]. split; [auto|]. split.
      + rewrite A3. f_equal. lia.
      + intros [|k'] Hk Hp; [congruence|]. f_equal. apply A4; auto. lia. }
  destruct (G 0%nat) as [k Hk]. exists k. simpl in Hk. exact Hk.
Qed.

(* ------------------------------------------------------------------ nested classification against the chain spec *)
(* "the interfaces form a chain under inclusion", read off a valid description: the domains are, up to order, those
   of n nested interfaces *)
Definition chain_spec (g : geom) : Prop :=
  exists n ss, Forall2 (@Permutation _) ss (chain_sigs n) /\ Permutation (map sig_of (g_doms g)) ss.

Lemma Forall2_In_l {A B} (R : A -> B -> Prop) l l' a : Forall2 R l l' -> In a l -> exists b, In b l' /\ R a b.
Proof.
  induction 1; intros H1; [inversion H1|]. destruct H1 as [<-|H1].
  - exists y; split; auto. left; auto.
  - destruct (IHForall2 H1) as [b [Hb Hr]]. exists b; split; auto. right; auto.
Qed.

Lemma chain_spec_domain g k : chain_spec g -> (k < length (g_doms g))%nat ->
  exists n j, Permutation (sig_of (dom g k)) (chain_dom n j).
Proof.
  intros [n [ss [F P]]] Hk.
  assert (In (sig_of (dom g k)) (map sig_of (g_doms g))) by (apply in_map, nth_In; auto).
  apply (Permutation_in _ P) in H. destruct (Forall2_In_l _ _ _ _ F H) as [c [Hc Hp]].
  unfold chain_sigs in Hc. apply in_map_iff in Hc. destruct Hc as [j [<- _]]. exists n, j. auto.
Qed.

Lemma count_inside_sig d : count_inside d = length (filter (fun b : bool * nat => fst b) (sig_of d)).
Proof. unfold count_inside, sig_of. induction d as [|b d IH]; simpl; auto. destruct (b_inside b); simpl; auto. Qed.

Lemma chain_dom_inside n j : (length (filter (fun b : bool * nat => fst b) (chain_dom n j)) < 2)%nat.
Proof. unfold chain_dom. destruct (Nat.ltb j n), (Nat.ltb 0 j); simpl; lia. Qed.

(* partial correctness: a chain passes the first criterion; the flag is true as soon as the second (orientation) one
   also passes *)
Lemma nested_partial g outer : chain_spec g ->
  (forall m, (m < length (g_meshes g))%nat -> oriented_sum g m mod 4294967296 <> 0) -> check_nested g outer = true.
Proof.
  intros C H. apply check_nested_iff. split; auto. intros k Hk _.
  destruct (chain_spec_domain g k C Hk) as [n [j P]].
  rewrite count_inside_sig, (count_perm _ _ _ P). apply chain_dom_inside.
Qed.

(* two sibling inclusions in a body (the topology of data/HeadNNb): meshes 0,1 = blobs, 2 = outer *)
Definition sib_om (m : nat) : list (Z * nat) := [(-1, m)].
Definition g_siblings : geom :=
  mkGeom 0 [mkLMesh [] []; mkLMesh [] []; mkLMesh [] []]
    [ [mkGB true 0 (sib_om 0)];
      [mkGB true 1 (sib_om 1)];
      [mkGB true 2 (sib_om 2); mkGB false 0 (sib_om 0); mkGB false 1 (sib_om 1)];
      [mkGB false 2 (sib_om 2)] ].

Lemma chain_dom_length n j : (length (chain_dom n j) <= 2)%nat.
Proof. unfold chain_dom. destruct (Nat.ltb j n), (Nat.ltb 0 j); simpl; lia. Qed.

Lemma nested_refuted : exists g outer, outermost_domain g = Some outer /\ check_nested g outer = true /\ ~ chain_spec g.
Proof.
  exists g_siblings, 3%nat. split; [reflexivity|]. split; [vm_compute; reflexivity|].
  intros C. destruct (chain_spec_domain g_siblings 2 C ltac:(simpl; lia)) as [n [j P]].
  apply Permutation_length in P. pose proof (chain_dom_length n j). simpl in P. lia.
Qed.
