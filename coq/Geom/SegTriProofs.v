(* The exact oracle of C12 (Geom/TriTri.v: seg_tri, isect_oracle) means what it says, over the reals:
   a verdict of seg_tri is exact (closed segment against closed triangle), and a positive verdict of isect_oracle
   exhibits a common point of the two closed triangles. *)
From Coq Require Import Reals Lra Psatz List Bool ZArith.
From OM Require Import Base.Ops Geom.V3Q Geom.V3R Geom.TriTri Geom.TriTriProofs.
Local Open Scope R_scope.

(* the closed segment [a,b] and the closed triangle (u,v,w) have a common point *)
Definition seg_point (t : R) (a b : rvec) : rvec :=
  (vx a + t * (vx b - vx a), vy a + t * (vy b - vy a), vz a + t * (vz b - vz a)).
Definition seg_meets_tri (a b u v w : rvec) : Prop :=
  exists t al be ga, 0 <= t <= 1 /\ weights al be ga /\ seg_point t a b = comb al be ga u v w.

Lemma sgn_neg x : sgn Rops x = (-1)%Z <-> x < 0.
Proof.
  unfold sgn, lt, gt. rops. destruct (Rltb x 0) eqn:E1.
  - apply Rltb_true in E1. tauto.
  - apply Rltb_false in E1. destruct (Rltb 0 x) eqn:E2; split; intro H; try discriminate; lra.
Qed.
Lemma sgn_pos x : sgn Rops x = 1%Z <-> 0 < x.
Proof.
  unfold sgn, lt, gt. rops. destruct (Rltb x 0) eqn:E1.
  - apply Rltb_true in E1. split; intro H; try discriminate; lra.
  - apply Rltb_false in E1. destruct (Rltb 0 x) eqn:E2.
    + apply Rltb_true in E2. tauto.
    + apply Rltb_false in E2. split; intro H; try discriminate; lra.
Qed.
Lemma sgn_zero x : sgn Rops x = 0%Z <-> x = 0.
Proof.
  unfold sgn, lt, gt. rops. destruct (Rltb x 0) eqn:E1.
  - apply Rltb_true in E1. split; intro H; try discriminate; lra.
  - apply Rltb_false in E1. destruct (Rltb 0 x) eqn:E2.
    + apply Rltb_true in E2. split; intro H; try discriminate; lra.
    + apply Rltb_false in E2. split; intro H; auto; lra.
Qed.
Lemma sgn_cases x : (sgn Rops x = (-1)%Z /\ x < 0) \/ (sgn Rops x = 0%Z /\ x = 0) \/ (sgn Rops x = 1%Z /\ 0 < x).
Proof.
  destruct (Rtotal_order x 0) as [H | [H | H]].
  - left. split; auto. apply sgn_neg; auto.
  - right; left. split; auto. apply sgn_zero; auto.
  - right; right. split; auto. apply sgn_pos; auto.
Qed.

Ltac r3 := cbv [orient3 vdot vsub vcross vx vy vz mkv fst snd]; rops.

Section Coordinates.
Variables ax ay az bx by_ bz ux uy uz vx_ vy_ vz_ wx wy wz : R.
Let a : rvec := (ax, ay, az). Let b : rvec := (bx, by_, bz).
Let u : rvec := (ux, uy, uz). Let v : rvec := (vx_, vy_, vz_). Let w : rvec := (wx, wy, wz).
Let Da := orient3 Rops u v w a. Let Db := orient3 Rops u v w b.
Let s1 := orient3 Rops a b u v. Let s2 := orient3 Rops a b v w. Let s3 := orient3 Rops a b w u.

(* the signed volumes are the (unnormalised) barycentric coordinates of the point where the line (a,b) meets the plane *)
Lemma volumes_sum : s1 + s2 + s3 = Db - Da.
Proof. subst s1 s2 s3 Da Db a b u v w. r3. ring. Qed.

Lemma plane_value_on_segment t : orient3 Rops u v w (seg_point t a b) = (1 - t) * Da + t * Db.
Proof. subst Da Db a b u v w. unfold seg_point. r3. ring. Qed.

Lemma plane_value_in_triangle al be ga : al + be + ga = 1 -> orient3 Rops u v w (comb al be ga u v w) = 0.
Proof. intro H. replace ga with (1 - al - be) by lra. subst a b u v w. unfold comb. r3. ring. Qed.

Lemma crossing_point_x : (s1 + s2 + s3) * ax - Da * (bx - ax) = s2 * ux + s3 * vx_ + s1 * wx.
Proof. subst s1 s2 s3 Da Db a b u v w. r3. ring. Qed.
Lemma crossing_point_y : (s1 + s2 + s3) * ay - Da * (by_ - ay) = s2 * uy + s3 * vy_ + s1 * wy.
Proof. subst s1 s2 s3 Da Db a b u v w. r3. ring. Qed.
Lemma crossing_point_z : (s1 + s2 + s3) * az - Da * (bz - az) = s2 * uz + s3 * vz_ + s1 * wz.
Proof. subst s1 s2 s3 Da Db a b u v w. r3. ring. Qed.

(* a common point forces the three volumes to be the weights times one common factor *)
Lemma volumes_of_common_point t al be ga :
  al + be + ga = 1 -> seg_point t a b = comb al be ga u v w ->
  s1 = ga * (Db - Da) /\ s2 = al * (Db - Da) /\ s3 = be * (Db - Da).
Proof.
  intros Hs E. subst s1 s2 s3 Da Db a b u v w. unfold seg_point, comb in E. cbv [vx vy vz fst snd] in E.
  inversion E as [[Ex Ey Ez]]. clear E.
  remember (bx - ax) as dx eqn:Hdx. remember (by_ - ay) as dy eqn:Hdy. remember (bz - az) as dz eqn:Hdz.
  assert (Hbx : bx = ax + dx) by lra. assert (Hby : by_ = ay + dy) by lra. assert (Hbz : bz = az + dz) by lra.
  clear Hdx Hdy Hdz. subst bx by_ bz.
  assert (Hax : ax = al * ux + be * vx_ + ga * wx - t * dx) by lra.
  assert (Hay : ay = al * uy + be * vy_ + ga * wy - t * dy) by lra.
  assert (Haz : az = al * uz + be * vz_ + ga * wz - t * dz) by lra.
  clear Ex Ey Ez. subst ax ay az. replace ga with (1 - al - be) by lra.
  r3. repeat split; ring.
Qed.
End Coordinates.


Lemma div_nonneg x S : (0 <= x /\ 0 < S) \/ (x <= 0 /\ S < 0) -> 0 <= x / S.
Proof.
  intros [[Hx HS] | [Hx HS]].
  - unfold Rdiv. apply Rmult_le_pos; auto. left. apply Rinv_0_lt_compat; auto.
  - replace (x / S) with ((- x) / (- S)) by (field; lra). unfold Rdiv. apply Rmult_le_pos; [lra |]. left. apply Rinv_0_lt_compat; lra.
Qed.
Lemma div_le1 x S : (x <= S /\ 0 < S) \/ (S <= x /\ S < 0) -> x / S <= 1.
Proof.
  intros [[Hx HS] | [Hx HS]].
  - apply Rmult_le_reg_r with S; auto. unfold Rdiv. rewrite Rmult_assoc, Rinv_l; lra.
  - replace (x / S) with ((- x) / (- S)) by (field; lra). apply Rmult_le_reg_r with (- S); [lra |].
    unfold Rdiv. rewrite Rmult_assoc, Rinv_l; lra.
Qed.
Lemma coord_ok S Da ax bx s1 s2 s3 ux vx_ wx : S <> 0 ->
  S * ax - Da * (bx - ax) = s2 * ux + s3 * vx_ + s1 * wx ->
  ax + (- Da / S) * (bx - ax) = s2 / S * ux + s3 / S * vx_ + s1 / S * wx.
Proof.
  intros HS H. transitivity ((S * ax - Da * (bx - ax)) / S); [field; auto | rewrite H; field; auto].
Qed.

(* opposite strict sides of the plane + three volumes of one strict sign: the crossing point is in the triangle *)
Lemma crossing_weights Da Db s1 s2 s3 :
  s1 + s2 + s3 = Db - Da -> (Da < 0 < Db \/ Db < 0 < Da) ->
  ((0 < s1 /\ 0 < s2 /\ 0 < s3) \/ (s1 < 0 /\ s2 < 0 /\ s3 < 0)) ->
  let S := s1 + s2 + s3 in
  S <> 0 /\ 0 <= - Da / S <= 1 /\ weights (s2 / S) (s3 / S) (s1 / S).
Proof.
  intros HS Hab Hs S. assert (S0 : S <> 0) by (subst S; lra).
  split; auto. split.
  - split; [apply div_nonneg | apply div_le1]; subst S; lra.
  - unfold weights. split; [| split; [| split]]; try (apply div_nonneg; subst S; lra).
    subst S. field. auto.
Qed.

Lemma seg_tri_Some_true_inv a b u v w : seg_tri Rops a b u v w = Some true ->
  let Da := orient3 Rops u v w a in let Db := orient3 Rops u v w b in
  let s1 := orient3 Rops a b u v in let s2 := orient3 Rops a b v w in let s3 := orient3 Rops a b w u in
  (Da < 0 < Db \/ Db < 0 < Da) /\ ((0 < s1 /\ 0 < s2 /\ 0 < s3) \/ (s1 < 0 /\ s2 < 0 /\ s3 < 0)).
Proof.
  unfold seg_tri. cbv zeta.
  destruct (sgn_cases (orient3 Rops u v w a)) as [[Ea Ha] | [[Ea Ha] | [Ea Ha]]]; rewrite Ea; cbn [Z.eqb orb]; try discriminate;
  destruct (sgn_cases (orient3 Rops u v w b)) as [[Eb Hb] | [[Eb Hb] | [Eb Hb]]]; rewrite Eb; cbn [Z.eqb orb Pos.eqb]; try discriminate;
  destruct (sgn_cases (orient3 Rops a b u v)) as [[E1 H1] | [[E1 H1] | [E1 H1]]]; rewrite E1; cbn [Z.eqb orb andb Pos.eqb]; try discriminate;
  destruct (sgn_cases (orient3 Rops a b v w)) as [[E2 H2] | [[E2 H2] | [E2 H2]]]; rewrite E2; cbn [Z.eqb orb andb Pos.eqb]; try discriminate;
  destruct (sgn_cases (orient3 Rops a b w u)) as [[E3 H3] | [[E3 H3] | [E3 H3]]]; rewrite E3; cbn [Z.eqb orb andb Pos.eqb]; try discriminate;
  intros _; (split; [lra | lra]).
Qed.

Lemma seg_tri_Some_false_inv a b u v w : seg_tri Rops a b u v w = Some false ->
  let Da := orient3 Rops u v w a in let Db := orient3 Rops u v w b in
  let s1 := orient3 Rops a b u v in let s2 := orient3 Rops a b v w in let s3 := orient3 Rops a b w u in
  (Da < 0 /\ Db < 0) \/ (0 < Da /\ 0 < Db) \/
  (s1 <> 0 /\ s2 <> 0 /\ s3 <> 0 /\ ~ (0 < s1 /\ 0 < s2 /\ 0 < s3) /\ ~ (s1 < 0 /\ s2 < 0 /\ s3 < 0)).
Proof.
  unfold seg_tri. cbv zeta.
  destruct (sgn_cases (orient3 Rops u v w a)) as [[Ea Ha] | [[Ea Ha] | [Ea Ha]]]; rewrite Ea; cbn [Z.eqb orb]; try discriminate;
  destruct (sgn_cases (orient3 Rops u v w b)) as [[Eb Hb] | [[Eb Hb] | [Eb Hb]]]; rewrite Eb; cbn [Z.eqb orb Pos.eqb]; try discriminate;
  try (intros _; lra);
  destruct (sgn_cases (orient3 Rops a b u v)) as [[E1 H1] | [[E1 H1] | [E1 H1]]]; rewrite E1; cbn [Z.eqb orb andb Pos.eqb]; try discriminate;
  destruct (sgn_cases (orient3 Rops a b v w)) as [[E2 H2] | [[E2 H2] | [E2 H2]]]; rewrite E2; cbn [Z.eqb orb andb Pos.eqb]; try discriminate;
  destruct (sgn_cases (orient3 Rops a b w u)) as [[E3 H3] | [[E3 H3] | [E3 H3]]]; rewrite E3; cbn [Z.eqb orb andb Pos.eqb]; try discriminate;
  intros _; right; right; repeat split; lra.
Qed.

Theorem seg_tri_true_sound : forall a b u v w, seg_tri Rops a b u v w = Some true -> seg_meets_tri a b u v w.
Proof.
  intros a b u v w H. apply seg_tri_Some_true_inv in H. cbv zeta in H. destruct H as [Hab Hs].
  destruct a as [[ax ay] az], b as [[bx by_] bz], u as [[ux uy] uz], v as [[vx_ vy_] vz_], w as [[wx wy] wz].
  pose proof (volumes_sum ax ay az bx by_ bz ux uy uz vx_ vy_ vz_ wx wy wz) as HS.
  pose proof (crossing_point_x ax ay az bx by_ bz ux uy uz vx_ vy_ vz_ wx wy wz) as HX.
  pose proof (crossing_point_y ax ay az bx by_ bz ux uy uz vx_ vy_ vz_ wx wy wz) as HY.
  pose proof (crossing_point_z ax ay az bx by_ bz ux uy uz vx_ vy_ vz_ wx wy wz) as HZ.
  destruct (crossing_weights _ _ _ _ _ HS Hab Hs) as (S0 & Ht & W).
  set (S := _ + _ + _) in *.
  exists (- orient3 Rops (ux, uy, uz) (vx_, vy_, vz_) (wx, wy, wz) (ax, ay, az) / S).
  eexists; eexists; eexists. split; [exact Ht |]. split; [exact W |].
  unfold seg_point, comb. cbv [vx vy vz fst snd].
  rewrite (coord_ok _ _ _ _ _ _ _ _ _ _ S0 HX), (coord_ok _ _ _ _ _ _ _ _ _ _ S0 HY), (coord_ok _ _ _ _ _ _ _ _ _ _ S0 HZ).
  reflexivity.
Qed.

Theorem seg_tri_false_sound : forall a b u v w, seg_tri Rops a b u v w = Some false -> ~ seg_meets_tri a b u v w.
Proof.
  intros a b u v w H (t & al & be & ga & Ht & W & E). apply seg_tri_Some_false_inv in H. cbv zeta in H.
  destruct W as (Hal & Hbe & Hga & Hsum).
  destruct a as [[ax ay] az], b as [[bx by_] bz], u as [[ux uy] uz], v as [[vx_ vy_] vz_], w as [[wx wy] wz].
  pose proof (plane_value_on_segment ax ay az bx by_ bz ux uy uz vx_ vy_ vz_ wx wy wz t) as HP.
  pose proof (plane_value_in_triangle ux uy uz vx_ vy_ vz_ wx wy wz al be ga Hsum) as HT.
  pose proof (volumes_of_common_point ax ay az bx by_ bz ux uy uz vx_ vy_ vz_ wx wy wz t al be ga Hsum E) as (V1 & V2 & V3).
  rewrite E, HT in HP.
  set (Da := orient3 Rops (ux, uy, uz) (vx_, vy_, vz_) (wx, wy, wz) (ax, ay, az)) in *.
  set (Db := orient3 Rops (ux, uy, uz) (vx_, vy_, vz_) (wx, wy, wz) (bx, by_, bz)) in *.
  set (s1 := orient3 Rops _ _ _ _) in V1. set (s2 := orient3 Rops _ _ _ _) in V2. set (s3 := orient3 Rops _ _ _ _) in V3.
  fold s1 s2 s3 in H.
  destruct H as [[Ha Hb] | [[Ha Hb] | (N1 & N2 & N3 & NP & NN)]].
  - nra.
  - nra.
  - destruct (Rtotal_order (Db - Da) 0) as [K | [K | K]].
    + apply NN. repeat split.
      * destruct Hga as [Hga | Hga]; [nra | exfalso; apply N1; rewrite V1, <- Hga; ring].
      * destruct Hal as [Hal | Hal]; [nra | exfalso; apply N2; rewrite V2, <- Hal; ring].
      * destruct Hbe as [Hbe | Hbe]; [nra | exfalso; apply N3; rewrite V3, <- Hbe; ring].
    + apply N1. rewrite V1, K. ring.
    + apply NP. repeat split.
      * destruct Hga as [Hga | Hga]; [nra | exfalso; apply N1; rewrite V1, <- Hga; ring].
      * destruct Hal as [Hal | Hal]; [nra | exfalso; apply N2; rewrite V2, <- Hal; ring].
      * destruct Hbe as [Hbe | Hbe]; [nra | exfalso; apply N3; rewrite V3, <- Hbe; ring].
Qed.

(* ---- the oracle of C12: a positive verdict exhibits a common point of the two closed triangles ---- *)
Lemma oor_Some_true x y : oor x y = Some true -> x = Some true \/ y = Some true.
Proof. destruct x as [[|]|], y as [[|]|]; cbn; intro H; try discriminate; auto. Qed.
Lemma oor_Some_false x y : oor x y = Some false -> x = Some false /\ y = Some false.
Proof. destruct x as [[|]|], y as [[|]|]; cbn; intro H; try discriminate; auto. Qed.

(* a point of an edge is a point of the triangle *)
Lemma weights_edge t : 0 <= t <= 1 -> weights (1 - t) t 0 /\ weights 0 (1 - t) t /\ weights t 0 (1 - t).
Proof. intro H. unfold weights. repeat split; lra. Qed.
Lemma edge_pq t p q r : seg_point t p q = comb (1 - t) t 0 p q r.
Proof. destruct p as [[? ?] ?], q as [[? ?] ?], r as [[? ?] ?]. unfold seg_point, comb. cbv [vx vy vz fst snd]. f_equal; [f_equal |]; ring. Qed.
Lemma edge_qr t p q r : seg_point t q r = comb 0 (1 - t) t p q r.
Proof. destruct p as [[? ?] ?], q as [[? ?] ?], r as [[? ?] ?]. unfold seg_point, comb. cbv [vx vy vz fst snd]. f_equal; [f_equal |]; ring. Qed.
Lemma edge_rp t p q r : seg_point t r p = comb t 0 (1 - t) p q r.
Proof. destruct p as [[? ?] ?], q as [[? ?] ?], r as [[? ?] ?]. unfold seg_point, comb. cbv [vx vy vz fst snd]. f_equal; [f_equal |]; ring. Qed.

(* some edge of one triangle meets the other triangle *)
Definition an_edge_meets (p1 q1 r1 p2 q2 r2 : rvec) : Prop :=
  seg_meets_tri p1 q1 p2 q2 r2 \/ seg_meets_tri q1 r1 p2 q2 r2 \/ seg_meets_tri r1 p1 p2 q2 r2 \/
  seg_meets_tri p2 q2 p1 q1 r1 \/ seg_meets_tri q2 r2 p1 q1 r1 \/ seg_meets_tri r2 p2 p1 q1 r1.

Lemma an_edge_meets_not_disjoint p1 q1 r1 p2 q2 r2 : an_edge_meets p1 q1 r1 p2 q2 r2 -> ~ disjoint_tri p1 q1 r1 p2 q2 r2.
Proof.
  intros H D. unfold an_edge_meets in H.
  destruct H as [H | [H | [H | [H | [H | H]]]]]; destruct H as (t & al & be & ga & Ht & W & E);
    destruct (weights_edge t Ht) as (W1 & W2 & W3).
  - apply (D _ _ _ _ _ _ W1 W). rewrite <- edge_pq. exact E.
  - apply (D _ _ _ _ _ _ W2 W). rewrite <- edge_qr. exact E.
  - apply (D _ _ _ _ _ _ W3 W). rewrite <- edge_rp. exact E.
  - apply (D _ _ _ _ _ _ W W1). rewrite <- edge_pq. symmetry. exact E.
  - apply (D _ _ _ _ _ _ W W2). rewrite <- edge_qr. symmetry. exact E.
  - apply (D _ _ _ _ _ _ W W3). rewrite <- edge_rp. symmetry. exact E.
Qed.

Theorem isect_oracle_true_sound : forall p1 q1 r1 p2 q2 r2,
  isect_oracle Rops (p1, q1, r1) (p2, q2, r2) = Some true ->
  an_edge_meets p1 q1 r1 p2 q2 r2 /\ ~ disjoint_tri p1 q1 r1 p2 q2 r2.
Proof.
  intros p1 q1 r1 p2 q2 r2 H.
  assert (A : an_edge_meets p1 q1 r1 p2 q2 r2).
  { unfold isect_oracle in H. unfold an_edge_meets.
    apply oor_Some_true in H. destruct H as [H | H]; apply oor_Some_true in H; destruct H as [H | H].
    - apply oor_Some_true in H. destruct H as [H | H]; apply seg_tri_true_sound in H; tauto.
    - apply seg_tri_true_sound in H; tauto.
    - apply oor_Some_true in H. destruct H as [H | H]; apply seg_tri_true_sound in H; tauto.
    - apply seg_tri_true_sound in H; tauto. }
  split; [exact A | apply an_edge_meets_not_disjoint; exact A].
Qed.

(* a negative verdict: no edge of either triangle meets the other triangle (for two triangles in generic position this is
   disjointness; that last step - the intersection of two non-coplanar triangles, if any, ends on an edge - is not proved) *)
Theorem isect_oracle_false_no_edge_meets : forall p1 q1 r1 p2 q2 r2,
  isect_oracle Rops (p1, q1, r1) (p2, q2, r2) = Some false -> ~ an_edge_meets p1 q1 r1 p2 q2 r2.
Proof.
  intros p1 q1 r1 p2 q2 r2 H. unfold isect_oracle in H.
  apply oor_Some_false in H. destruct H as [H1 H2].
  apply oor_Some_false in H1. destruct H1 as [H1 H13]. apply oor_Some_false in H1. destruct H1 as [H11 H12].
  apply oor_Some_false in H2. destruct H2 as [H2 H23]. apply oor_Some_false in H2. destruct H2 as [H21 H22].
  apply seg_tri_false_sound in H11, H12, H13, H21, H22, H23. unfold an_edge_meets. tauto.
Qed.

(* the verdicts occur: a segment through a triangle, one beside it, one touching its plane (rational instance, evaluated) *)
Definition qv (x y z : Z) : @vec QArith_base.Q := (QArith_base.inject_Z x, QArith_base.inject_Z y, QArith_base.inject_Z z).
Example seg_tri_examples :
  seg_tri Qops (qv 1 1 (-1)) (qv 1 1 1) (qv 0 0 0) (qv 4 0 0) (qv 0 4 0) = Some true /\
  seg_tri Qops (qv 5 5 (-1)) (qv 5 5 1) (qv 0 0 0) (qv 4 0 0) (qv 0 4 0) = Some false /\
  seg_tri Qops (qv 1 1 1) (qv 1 1 2) (qv 0 0 0) (qv 4 0 0) (qv 0 4 0) = Some false /\
  seg_tri Qops (qv 1 1 0) (qv 1 1 2) (qv 0 0 0) (qv 4 0 0) (qv 0 4 0) = None.
Proof. vm_compute. repeat split. Qed.
