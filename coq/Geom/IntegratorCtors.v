(* integrator.h: the constructor overloads of class Integrator and what each delegates to (order, max_depth, tolerance):
     Integrator(ord)             : Integrator(ord,0,0.0)
     Integrator(ord,tol)         : Integrator(ord,10,tol)
     Integrator(ord,levels,tol=0.0001)                                                    DEFINITIONS ONLY *)
From OM Require Import Base.Ops Base.Vec3 Geom.Quadrature.
From Coq Require Import ZArith QArith.

Section Ctors.
  Context {F : Type} (o : Ops F).
  Definition default_tolerance : F := fQ o (1 # 10000).
  (* ctor: 1 = (ord), 2 = (ord,tol), 3 = (ord,levels), anything else = (ord,levels,tol)  ->  (max_depth, tolerance) *)
  Definition integrator_params (ctor : Z) (levels : nat) (tol : F) : nat * F :=
    match ctor with
    | 1%Z => (0%nat, f0 o)
    | 2%Z => (10%nat, tol)
    | 3%Z => (levels, default_tolerance)
    | _ => (levels, tol)
    end.
End Ctors.
