(* Quadrature over the reals: the exact-table facts of QuadTablesProofs.v lifted to R (Q2R), linearity lift to
   arbitrary polynomials, the link to the model (triangle_integration on any triangle = area2 * reference rule),
   the 4-way refinement partitions the area, and the adaptive scheme inherits any per-triangle error bound. *)
From Coq Require Import Reals Qreals QArith Lra Lia List ZArith.
From OM Require Import Base.Ops Base.OpsR Base.Vec3 Gen.GenQuadTables Geom.Quadrature Geom.QuadTablesProofs Geom.QuadTablesBig.
Import ListNotations.
Local Open Scope R_scope.

Notation V3 := (vec3 R).

(* ---- the reference rule over R ------------------------------------------------------------------------- *)
Definition refquad (rule : list qpoint) (g : R -> R -> R -> R) : R :=
  fold_right (fun p acc => Q2R (qp_w p) * g (Q2R (qp_l0 p)) (Q2R (qp_l1 p)) (Q2R (qp_l2 p)) + acc) 0 rule.

Definition monoR (a b c : nat) (l0 l1 l2 : R) : R := l0 ^ a * l1 ^ b * l2 ^ c.
(* Dirichlet's formula: the integral of l0^a l1^b l2^c over the reference triangle {l >= 0, l0+l1+l2 = 1}
   with respect to dl1 dl2 (area 1/2).  It is used as the DEFINITION of the monomial integral (not derived
   from a measure-theoretic integral). *)
Definition dirichletR (a b c : nat) : R := IZR (zfact a * zfact b * zfact c) / IZR (zfact (a + b + c + 2)).
Definition eps14R : R := / IZR (10 ^ 14).

Lemma zfact_pos n : (0 < zfact n)%Z.
Proof. induction n; cbn [zfact]; [lia|]. apply Z.mul_pos_pos; lia. Qed.

Lemma Q2R_inject_Z z : Q2R (inject_Z z) = IZR z.
Proof. unfold Q2R, inject_Z; cbn. rewrite Rinv_1. ring. Qed.

Lemma Q2R_qpow x n : Q2R (qpow x n) = Q2R x ^ n.
Proof. induction n; cbn [qpow pow]; [unfold Q2R; cbn; lra|]. rewrite Q2R_mult, IHn. reflexivity. Qed.

Lemma Q2R_moment rule a b c : Q2R (moment rule a b c) = refquad rule (monoR a b c).
Proof.
  unfold moment, refquad, monoR. induction rule as [|p r IH]; cbn [fold_right]; [unfold Q2R; cbn; lra|].
  rewrite Q2R_plus, !Q2R_mult, !Q2R_qpow, IH. reflexivity.
Qed.

Lemma Q2R_dirichlet a b c : Q2R (dirichletQ a b c) = dirichletR a b c.
Proof.
  unfold dirichletQ, dirichletR. rewrite Q2R_div, !Q2R_inject_Z; [reflexivity|].
  intros H. unfold Qeq, inject_Z in H; cbn in H. pose proof (zfact_pos (a + b + c + 2)). lia.
Qed.

Lemma Q2R_eps14 : Q2R eps14 = eps14R.
Proof. unfold eps14, eps14R, Q2R; cbn. lra. Qed.

Theorem rule_moments_R order a b c : (order <= 3)%nat -> (a + b + c <= rule_degree order)%nat ->
  Rabs (refquad (rule_of_order order) (monoR a b c) - dirichletR a b c) <= eps14R.
Proof.
  intros Ho Hd. destruct (rule_moments order Ho a b c Hd) as [H1 H2].
  apply Qle_Rle in H1, H2. rewrite Q2R_opp in H1. rewrite Q2R_minus, Q2R_moment, Q2R_dirichlet, Q2R_eps14 in H1, H2.
  apply Rabs_le. lra.
Qed.

(* ---- linearity lift ------------------------------------------------------------------------------------ *)
Lemma refquad_lin rule g g1 g2 c :
  (forall l0 l1 l2, g l0 l1 l2 = c * g1 l0 l1 l2 + g2 l0 l1 l2) ->
  refquad rule g = c * refquad rule g1 + refquad rule g2.
Proof. intros H. unfold refquad. induction rule as [|p r IH]; cbn [fold_right]; [ring|]. rewrite IH, H. ring. Qed.

Lemma refquad_zero rule g : (forall l0 l1 l2, g l0 l1 l2 = 0) -> refquad rule g = 0.
Proof. intros H. unfold refquad. induction rule as [|p r IH]; cbn [fold_right]; [ring|]. rewrite IH, H. ring. Qed.

Lemma refquad_ext rule g h : (forall l0 l1 l2, g l0 l1 l2 = h l0 l1 l2) -> refquad rule g = refquad rule h.
Proof. intros H. unfold refquad. induction rule as [|p r IH]; cbn [fold_right]; [ring|]. rewrite IH, H. ring. Qed.

(* polynomials in the barycentric coordinates, as coefficient lists *)
Definition term := (R * (nat * nat * nat))%type.
Definition tmono (t : term) : R -> R -> R -> R := let '(_, (a, b, c)) := t in monoR a b c.
Definition tdir (t : term) : R := let '(_, (a, b, c)) := t in dirichletR a b c.
Definition tdeg (t : term) : nat := let '(_, (a, b, c)) := t in (a + b + c)%nat.
Definition peval (p : list term) (l0 l1 l2 : R) : R := fold_right (fun t acc => fst t * tmono t l0 l1 l2 + acc) 0 p.
(* the integral of the polynomial over the reference triangle: Dirichlet's formula term by term *)
Definition pintegral (p : list term) : R := fold_right (fun t acc => fst t * tdir t + acc) 0 p.
Definition pnorm1 (p : list term) : R := fold_right (fun t acc => Rabs (fst t) + acc) 0 p.
Definition pdeg_le (d : nat) (p : list term) : Prop := Forall (fun t => (tdeg t <= d)%nat) p.

Theorem polynomial_exactness_ref order p : (order <= 3)%nat -> pdeg_le (rule_degree order) p ->
  Rabs (refquad (rule_of_order order) (peval p) - pintegral p) <= eps14R * pnorm1 p.
Proof.
  intros Ho Hd. induction p as [|t p IH].
  - cbn [pintegral pnorm1 fold_right]. rewrite (refquad_zero _ (peval [])) by reflexivity.
    replace (0 - 0) with 0 by ring. rewrite Rabs_R0. lra.
  - inversion Hd as [|t' p' Ht Hp]; subst. specialize (IH Hp).
    rewrite (refquad_lin _ (peval (t :: p)) (tmono t) (peval p) (fst t)) by reflexivity.
    cbn [pintegral pnorm1 fold_right]. fold (pintegral p) (pnorm1 p).
    replace (fst t * refquad (rule_of_order order) (tmono t) + refquad (rule_of_order order) (peval p) - (fst t * tdir t + pintegral p))
      with (fst t * (refquad (rule_of_order order) (tmono t) - tdir t) + (refquad (rule_of_order order) (peval p) - pintegral p)) by ring.
    eapply Rle_trans; [apply Rabs_triang|]. rewrite Rabs_mult.
    assert (Hm : Rabs (refquad (rule_of_order order) (tmono t) - tdir t) <= eps14R).
    { destruct t as [c [[a b] cc]]. cbn [tmono tdir]. apply rule_moments_R; auto. }
    pose proof (Rabs_pos (fst t)).
    assert (Rabs (fst t) * Rabs (refquad (rule_of_order order) (tmono t) - tdir t) <= Rabs (fst t) * eps14R)
      by (apply Rmult_le_compat_l; auto).
    lra.
Qed.

(* ---- the model on an arbitrary triangle ---------------------------------------------------------------- *)
Lemma fQ_R q : fQ OpsR q = Q2R q.
Proof. reflexivity. Qed.

Lemma fold_left_sum {A} (h : A -> R) l a :
  fold_left (fun acc p => acc + h p) l a = a + fold_right (fun p acc => h p + acc) 0 l.
Proof. revert a; induction l as [|x l IH]; intros a; cbn [fold_left fold_right]; [ring|]. rewrite IH. ring. Qed.

(* affine image: on ANY triangle the rule is area2 times the reference rule applied to f o (barycentric map) *)
Theorem affine_image_lemma rule (f : V3 -> R) t0 t1 t2 :
  triangle_integration_rule OpsR (RS_scalar OpsR) rule f t0 t1 t2 =
  area2 OpsR t0 t1 t2 * refquad rule (fun l0 l1 l2 => f (bary_point OpsR l0 l1 l2 t0 t1 t2)).
Proof.
  unfold triangle_integration_rule, rule_sum, refquad. cbn [rs_scale rs_add rs_zero RS_scalar fmul fadd f0 OpsR].
  f_equal. rewrite (fold_left_sum (fun p => Q2R (qp_w p) * f (quad_node OpsR p t0 t1 t2))). rewrite Rplus_0_l.
  reflexivity.
Qed.

Theorem polynomial_exactness_lemma order (f : V3 -> R) t0 t1 t2 p :
  (order <= 3)%nat -> pdeg_le (rule_degree order) p ->
  (forall l0 l1 l2, f (bary_point OpsR l0 l1 l2 t0 t1 t2) = peval p l0 l1 l2) ->
  Rabs (triangle_integration OpsR (RS_scalar OpsR) order f t0 t1 t2 - area2 OpsR t0 t1 t2 * pintegral p)
    <= eps14R * pnorm1 p * area2 OpsR t0 t1 t2.
Proof.
  intros Ho Hd Hf. unfold triangle_integration. rewrite affine_image_lemma.
  rewrite (refquad_ext _ _ (peval p)) by exact Hf.
  rewrite <- Rmult_minus_distr_l, Rabs_mult.
  assert (Ha : 0 <= area2 OpsR t0 t1 t2) by (unfold area2, norm; cbn [fsqrt OpsR]; apply sqrt_pos).
  rewrite (Rabs_right (area2 OpsR t0 t1 t2)) by lra.
  pose proof (polynomial_exactness_ref order p Ho Hd).
  replace (eps14R * pnorm1 p * area2 OpsR t0 t1 t2) with (area2 OpsR t0 t1 t2 * (eps14R * pnorm1 p)) by ring.
  apply Rmult_le_compat_l; auto.
Qed.

Lemma dirichletR_000 : dirichletR 0 0 0 = / 2.
Proof. unfold dirichletR; cbn. lra. Qed.

(* constants integrate to the area (= area2/2), within 1e-14 relative *)
Theorem constants_integrate_to_area_lemma order c t0 t1 t2 : (order <= 3)%nat ->
  Rabs (triangle_integration OpsR (RS_scalar OpsR) order (fun _ => c) t0 t1 t2 - c * (area2 OpsR t0 t1 t2 / 2))
    <= eps14R * Rabs c * area2 OpsR t0 t1 t2.
Proof.
  intros Ho.
  pose proof (polynomial_exactness_lemma order (fun _ => c) t0 t1 t2 [(c, (0, 0, 0)%nat)] Ho) as H.
  cbn [pintegral pnorm1 fold_right fst tdir] in H. rewrite dirichletR_000 in H.
  replace (c * (area2 OpsR t0 t1 t2 / 2)) with (area2 OpsR t0 t1 t2 * (c * / 2 + 0)) by (unfold Rdiv; ring).
  replace (eps14R * Rabs c * area2 OpsR t0 t1 t2) with (eps14R * (Rabs c + 0) * area2 OpsR t0 t1 t2) by ring.
  apply H.
  - constructor; [cbn; lia|constructor].
  - intros. unfold peval, tmono, monoR; cbn. ring.
Qed.

(* ---- Vect3-valued integrands ---------------------------------------------------------------------------- *)
(* Vect3-valued integrands: the template instantiated at T = Vect3 is, component by component, the scalar one *)
Lemma rule_sum_vec3_comp (pr : V3 -> R) rule (f : V3 -> V3) t0 t1 t2 :
  (forall u v, pr (vadd OpsR u v) = pr u + pr v) -> (forall a u, pr (vscale OpsR a u) = a * pr u) -> pr (vconst 0) = 0 ->
  pr (rule_sum OpsR (RS_vec3 OpsR) rule f t0 t1 t2) = rule_sum OpsR (RS_scalar OpsR) rule (fun v => pr (f v)) t0 t1 t2.
Proof.
  intros Hadd Hsc H0. unfold rule_sum. cbn [rs_add rs_scale rs_zero RS_vec3 RS_scalar fadd fmul f0 OpsR].
  rewrite <- H0 at 2. generalize (@vconst R 0). induction rule as [|p r IH]; intros acc; cbn [fold_left]; [reflexivity|].
  rewrite IH, Hadd, Hsc. reflexivity.
Qed.

Lemma triangle_integration_vec3_comp (pr : V3 -> R) rule (f : V3 -> V3) t0 t1 t2 :
  (forall u v, pr (vadd OpsR u v) = pr u + pr v) -> (forall a u, pr (vscale OpsR a u) = a * pr u) -> pr (vconst 0) = 0 ->
  pr (triangle_integration_rule OpsR (RS_vec3 OpsR) rule f t0 t1 t2) =
  triangle_integration_rule OpsR (RS_scalar OpsR) rule (fun v => pr (f v)) t0 t1 t2.
Proof.
  intros Hadd Hsc H0. unfold triangle_integration_rule. cbn [rs_scale RS_vec3 RS_scalar fmul OpsR].
  rewrite Hsc, (rule_sum_vec3_comp pr) by assumption. reflexivity.
Qed.

Theorem triangle_integration_vec3_components_lemma rule (f : V3 -> V3) t0 t1 t2 :
  let r := triangle_integration_rule OpsR (RS_vec3 OpsR) rule f t0 t1 t2 in
  vx r = triangle_integration_rule OpsR (RS_scalar OpsR) rule (fun v => vx (f v)) t0 t1 t2 /\
  vy r = triangle_integration_rule OpsR (RS_scalar OpsR) rule (fun v => vy (f v)) t0 t1 t2 /\
  vz r = triangle_integration_rule OpsR (RS_scalar OpsR) rule (fun v => vz (f v)) t0 t1 t2.
Proof.
  cbv zeta. repeat split; apply (triangle_integration_vec3_comp _ rule f t0 t1 t2); intros; reflexivity.
Qed.

(* ---- refinement ---------------------------------------------------------------------------------------- *)
Lemma norm2_nonneg (v : V3) : 0 <= norm2 OpsR v.
Proof. destruct v as [x y z]. unfold norm2, sqr; cbn. nra. Qed.

Lemma sqrt_sixteenth x : 0 <= x -> sqrt (/ 16 * x) = / 4 * sqrt x.
Proof.
  intros H. rewrite sqrt_mult_alt by lra. f_equal.
  replace (/ 16) with (/ 4 * / 4) by lra. apply sqrt_square. lra.
Qed.

Lemma half_R : fQ OpsR (1 # 2) = / 2.
Proof. unfold fQ; cbn. lra. Qed.

Lemma sub_area2 (t0 t1 t2 a b c : V3) :
  norm2 OpsR (cross OpsR (vsub OpsR b a) (vsub OpsR c a)) = / 16 * norm2 OpsR (cross OpsR (vsub OpsR t1 t0) (vsub OpsR t2 t0)) ->
  area2 OpsR a b c = / 4 * area2 OpsR t0 t1 t2.
Proof.
  intros H. unfold area2, norm. cbn [fsqrt OpsR]. rewrite H. apply sqrt_sixteenth, norm2_nonneg.
Qed.

Ltac crunch := unfold midpoint, norm2, cross, vsub, vscale, vadd, sqr; rewrite ?half_R; cbn; field.

(* the four sub-triangles of the midpoint split partition the area *)
Theorem refinement_partition_lemma (t0 t1 t2 : V3) :
  let m0 := midpoint OpsR t1 t2 in let m1 := midpoint OpsR t2 t0 in let m2 := midpoint OpsR t0 t1 in
  area2 OpsR t0 m1 m2 + area2 OpsR m0 t1 m2 + area2 OpsR m0 m1 t2 + area2 OpsR m0 m1 m2 = area2 OpsR t0 t1 t2.
Proof.
  intros m0 m1 m2.
  assert (E0 : area2 OpsR t0 m1 m2 = / 4 * area2 OpsR t0 t1 t2) by (apply sub_area2; subst m0 m1 m2; destruct t0, t1, t2; crunch).
  assert (E1 : area2 OpsR m0 t1 m2 = / 4 * area2 OpsR t0 t1 t2) by (apply sub_area2; subst m0 m1 m2; destruct t0, t1, t2; crunch).
  assert (E2 : area2 OpsR m0 m1 t2 = / 4 * area2 OpsR t0 t1 t2) by (apply sub_area2; subst m0 m1 m2; destruct t0, t1, t2; crunch).
  assert (E3 : area2 OpsR m0 m1 m2 = / 4 * area2 OpsR t0 t1 t2) by (apply sub_area2; subst m0 m1 m2; destruct t0, t1, t2; crunch).
  lra.
Qed.

Lemma Rabs_le_inv' x y : Rabs x <= y -> - y <= x <= y.
Proof. intros H. unfold Rabs in H. destruct (Rcase_abs x); lra. Qed.

(* ---- adaptive integration ------------------------------------------------------------------------------ *)
Section Adaptive.
  Variable rule : list qpoint.
  Variable tol : R.
  Variable f : V3 -> R.
  (* I: the quantity the rule approximates on each triangle (e.g. the true integral), additive under the split *)
  Variable I : V3 -> V3 -> V3 -> R.
  Variable eps : R.
  Hypothesis I_additive : forall t0 t1 t2,
    I t0 t1 t2 = I t0 (midpoint OpsR t2 t0) (midpoint OpsR t0 t1) + I (midpoint OpsR t1 t2) t1 (midpoint OpsR t0 t1)
               + I (midpoint OpsR t1 t2) (midpoint OpsR t2 t0) t2 + I (midpoint OpsR t1 t2) (midpoint OpsR t2 t0) (midpoint OpsR t0 t1).
  Hypothesis rule_error : forall t0 t1 t2,
    Rabs (triangle_integration_rule OpsR (RS_scalar OpsR) rule f t0 t1 t2 - I t0 t1 t2) <= eps * area2 OpsR t0 t1 t2.

  Lemma adaptive_error_bound_lemma level : forall t0 t1 t2 coarse,
    Rabs (adaptive_integration_rule OpsR (RS_scalar OpsR) rule tol f t0 t1 t2 coarse level - I t0 t1 t2)
      <= eps * area2 OpsR t0 t1 t2.
  Proof.
    assert (Hrefined : forall t0 t1 t2,
      let m0 := midpoint OpsR t1 t2 in let m1 := midpoint OpsR t2 t0 in let m2 := midpoint OpsR t0 t1 in
      Rabs (0 + triangle_integration_rule OpsR (RS_scalar OpsR) rule f t0 m1 m2
              + triangle_integration_rule OpsR (RS_scalar OpsR) rule f m0 t1 m2
              + triangle_integration_rule OpsR (RS_scalar OpsR) rule f m0 m1 t2
              + triangle_integration_rule OpsR (RS_scalar OpsR) rule f m0 m1 m2 - I t0 t1 t2) <= eps * area2 OpsR t0 t1 t2).
    { intros t0 t1 t2 m0 m1 m2. rewrite (I_additive t0 t1 t2). fold m0 m1 m2.
      rewrite <- (refinement_partition_lemma t0 t1 t2). fold m0 m1 m2.
      pose proof (rule_error t0 m1 m2) as E0. pose proof (rule_error m0 t1 m2) as E1.
      pose proof (rule_error m0 m1 t2) as E2. pose proof (rule_error m0 m1 m2) as E3.
      apply Rabs_le_inv' in E0, E1, E2, E3. apply Rabs_le. lra. }
    induction level as [|level IH]; intros t0 t1 t2 coarse.
    - cbn [adaptive_integration_rule rs_add rs_zero RS_scalar fadd f0 OpsR]. apply Hrefined.
    - cbn [adaptive_integration_rule rs_add rs_zero rs_sub rs_norm RS_scalar fadd f0 fleb fmul OpsR].
      match goal with |- context [if ?b then _ else _] => destruct b end.
      + apply Hrefined.
      + rewrite (I_additive t0 t1 t2). rewrite <- (refinement_partition_lemma t0 t1 t2). cbv zeta.
        set (m0 := midpoint OpsR t1 t2). set (m1 := midpoint OpsR t2 t0). set (m2 := midpoint OpsR t0 t1).
        pose proof (IH t0 m1 m2 (triangle_integration_rule OpsR (RS_scalar OpsR) rule f t0 m1 m2)) as E0.
        pose proof (IH m0 t1 m2 (triangle_integration_rule OpsR (RS_scalar OpsR) rule f m0 t1 m2)) as E1.
        pose proof (IH m0 m1 t2 (triangle_integration_rule OpsR (RS_scalar OpsR) rule f m0 m1 t2)) as E2.
        pose proof (IH m0 m1 m2 (triangle_integration_rule OpsR (RS_scalar OpsR) rule f m0 m1 m2)) as E3.
        apply Rabs_le_inv' in E0, E1, E2, E3. apply Rabs_le. lra.
  Qed.
End Adaptive.

(* Integrator(ord,levels,tol).integrate inherits the bound, whatever depth and tolerance *)
Theorem integrate_error_bound_lemma ord depth tol f I eps :
  (forall t0 t1 t2,
    I t0 t1 t2 = I t0 (midpoint OpsR t2 t0) (midpoint OpsR t0 t1) + I (midpoint OpsR t1 t2) t1 (midpoint OpsR t0 t1)
               + I (midpoint OpsR t1 t2) (midpoint OpsR t2 t0) t2 + I (midpoint OpsR t1 t2) (midpoint OpsR t2 t0) (midpoint OpsR t0 t1)) ->
  (forall t0 t1 t2,
    Rabs (triangle_integration_rule OpsR (RS_scalar OpsR) (rule_of_order (safe_order ord)) f t0 t1 t2 - I t0 t1 t2)
      <= eps * area2 OpsR t0 t1 t2) ->
  forall t0 t1 t2,
    Rabs (integrate OpsR (RS_scalar OpsR) ord depth tol f t0 t1 t2 - I t0 t1 t2) <= eps * area2 OpsR t0 t1 t2.
Proof.
  intros Hadd Herr t0 t1 t2. unfold integrate. destruct depth as [|d].
  - apply Herr.
  - apply adaptive_error_bound_lemma; auto.
Qed.

(* instance: constants.  I = c * area2/2 is additive by refinement_partition, the rule error is 1e-14 |c| area2:
   adaptive integration of a constant returns the area times the constant within 1e-14 relative, for every
   depth, tolerance and triangle *)
Theorem adaptive_constants_lemma ord depth tol c t0 t1 t2 :
  Rabs (integrate OpsR (RS_scalar OpsR) ord depth tol (fun _ => c) t0 t1 t2 - c * (area2 OpsR t0 t1 t2 / 2))
    <= eps14R * Rabs c * area2 OpsR t0 t1 t2.
Proof.
  apply (integrate_error_bound_lemma ord depth tol (fun _ => c) (fun a b d => c * (area2 OpsR a b d / 2)) (eps14R * Rabs c)).
  - intros a b d. rewrite <- (refinement_partition_lemma a b d). cbv zeta. lra.
  - intros a b d. apply (constants_integrate_to_area_lemma (safe_order ord) c a b d).
    pose proof (safe_order_range ord). lia.
Qed.
