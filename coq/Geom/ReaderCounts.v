(* C19 -- count / stream-state logic of the bnd (line-structured tokens) and .mesh (bytes) readers
   OpenMEEG/include/MeshIOs/{bnd,mesh}.h on the repaired tree.  Model only: no proofs here.
   bnd: a file is its lines of tokens, '#' comment lines already removed (io_utils::skip_comments assumed);
   a token shows what `>> unsigned` / `>> double` deliver when they consume it whole (None: failure) and the
   identity of the keywords: 1 "Type=", 2 "NumberPositions=", 3 "UnitPosition", 4 "Positions", 5 "NumberPolygons=",
   6 "TypePolygons=", 7 "3", 8 "Polygons", 0 anything else. *)
From OM Require Import Base.Lists Maths.BinCodec Geom.MeshCount.
Local Open Scope Z_scope.

Record rtok := { r_int : option Z; r_dbl : option Z; r_word : Z }.
Definition rstream := list (list rtok).
Definition rskip (s : rstream) : rstream := tl s.
Fixpoint rnext (s : rstream) : option (rtok * rstream) :=
  match s with
  | [] => None
  | [] :: r => rnext r
  | (t :: l) :: r => Some (t, l :: r)
  end.
Definition E_ASSERT : Z := 1.     (* om_error / std::invalid_argument *)

Definition r_uint (s : rstream) : mres (Z * rstream) :=
  match rnext s with Some (t, s') => match r_int t with Some n => MOk (n, s') | None => MErr E_FORMAT end | None => MErr E_FORMAT end.
Definition r_dbl1 (s : rstream) : mres (Z * rstream) :=
  match rnext s with Some (t, s') => match r_dbl t with Some w => MOk (w, s') | None => MErr E_FORMAT end | None => MErr E_FORMAT end.
(* `fs >> st` : the word id of the next token, 0 at end of file (st stays empty) *)
Definition r_word1 (s : rstream) : Z * rstream :=
  match rnext s with Some (t, s') => (r_word t, s') | None => (0, []) end.

Fixpoint r_many (get : rstream -> mres (Z * rstream)) (k : nat) (s : rstream) : mres (list Z * rstream) :=
  match k with
  | O => MOk ([], s)
  | S k' => match get s with
            | MErr e => MErr e
            | MOk (x, r) => match r_many get k' r with MErr e => MErr e | MOk (xs, r') => MOk (x :: xs, r') end
            end
  end.
Fixpoint r_items (fuel : nat) (get : rstream -> mres (Z * rstream)) (k : nat) (n : Z) (s : rstream) : mres (list (list Z) * rstream) :=
  if n <=? 0 then MOk ([], s)
  else match fuel with
       | O => MErr E_FORMAT
       | S fuel' =>
           match r_many get k s with
           | MErr e => MErr e
           | MOk (x, r) => match r_items fuel' get k (n - 1) r with MErr e => MErr e | MOk (xs, r') => MOk (x :: xs, r') end
           end
       end.
Definition rtotal (s : rstream) : nat := length (concat s).

Definition read_bnd (s : rstream) : mres (list (list Z) * list (list Z)) :=
  let '(w0, s0) := r_word1 s in
  let '(w1, s1) := if w0 =? 1 then r_word1 (rskip s0) else (w0, s0) in
  if negb (w1 =? 2) then MErr E_ASSERT else
  match r_uint s1 with MErr e => MErr e | MOk (npts, s2) =>
  let '(w2, s3) := r_word1 s2 in
  let s4 := if w2 =? 3 then rskip s3 else s3 in
  let '(w3, s5) := r_word1 s4 in
  if negb (w3 =? 4) then MErr E_ASSERT else
  match r_items (S (rtotal s5)) r_dbl1 3 npts s5 with MErr e => MErr e | MOk (pts, s6) =>
  let '(w4, s7) := r_word1 s6 in
  if negb (w4 =? 5) then MErr E_ASSERT else
  match r_uint s7 with MErr e => MErr e | MOk (ntr, s8) =>
  let '(w5, s9) := r_word1 s8 in
  if negb (w5 =? 6) then MErr E_ASSERT else
  let '(w6, s10) := r_word1 s9 in
  if negb (w6 =? 7) then MErr E_ASSERT else
  let '(w7, s11) := r_word1 s10 in
  if negb (w7 =? 8) then MErr E_ASSERT else
  match r_items (S (rtotal s11)) r_uint 3 ntr s11 with MErr e => MErr e | MOk (trs, _) =>
  check_tris npts pts trs
  end end end end.

(* ---- .mesh : bytes, with the stream's fail flag ---- *)
Record bst := { b_rest : list Z; b_fail : bool }.
Definition b_u32 (st : bst) : Z * bst :=
  if b_fail st then (0, st)
  else match rd32 (b_rest st) with
       | Some (v, r) => (v, {| b_rest := r; b_fail := false |})
       | None => (0, {| b_rest := []; b_fail := true |})      (* short read: the value is garbage, never used *)
       end.
Definition b_ignore (n : Z) (st : bst) : bst :=
  if b_fail st then st else {| b_rest := skipn (Z.to_nat (Z.min n (Z.of_nat (length (b_rest st))))) (b_rest st); b_fail := false |}.
Fixpoint b_words (n : nat) (bs : list Z) : list Z :=
  match n with O => [] | S n' => match rd32 bs with Some (v, r) => v :: b_words n' r | None => [] end end.
Fixpoint group3 (l : list Z) : list (list Z) :=
  match l with a :: b :: c :: t => [a; b; c] :: group3 t | _ => [] end.

Definition read_mesh (bs : list Z) : mres (list (list Z) * list (list Z)) :=
  let st0 := b_ignore 9 {| b_rest := bs; b_fail := (length bs <? 9)%nat |} in
  let '(arg, st1) := b_u32 st0 in
  let st2 := b_ignore arg st1 in
  let '(vpf, st3) := b_u32 st2 in
  let '(mt, st4) := b_u32 st3 in
  let st5 := b_ignore 4 st4 in
  if b_fail st5 then MErr E_FORMAT
  else if negb (vpf =? 3) then MErr E_ASSERT
  else if negb (mt =? 1) then MErr E_ASSERT
  else
    let '(npts, st6) := b_u32 st5 in
    if b_fail st6 || (Z.of_nat (length (b_rest st6)) <? 12 * npts) then MErr E_FORMAT
    else
      let pts := group3 (b_words (Z.to_nat (3 * npts)) (b_rest st6)) in
      let st7 := b_ignore (12 * npts) st6 in
      let '(nn, st8) := b_u32 st7 in
      let st9 := b_ignore 4 (b_ignore (12 * nn) st8) in
      let '(ntr, st10) := b_u32 st9 in
      if b_fail st10 || (Z.of_nat (length (b_rest st10)) <? 12 * ntr) then MErr E_FORMAT
      else check_tris npts pts (group3 (b_words (Z.to_nat (3 * ntr)) (b_rest st10))).
