(* EXTRACT-Z: c20 run_c20 *)
(* Executable entry point for the C20 correspondence.
   case   : toolidx ntok, then per token: len bytes.   toolidx = -1 lists the offending uses of the generated table
   result : final code nexec, per executed block: block variant pos nargs nreads and nreads pairs k pos,
            then ndecl, per typed option: vkind pos len bytes (token after the name) slen sbytes (string value).
            final: 0 runs on, 1 exit with code, 2 read outside argv *)
From OM Require Import Base.Lists Base.Wire Geom.Cli Gen.GenCli.
Local Open Scope Z_scope.

Definition getTok : dec tok := do n <- getN; getZs n.
Definition getArgv : dec (list tok) := do n <- getN; getMany n getTok.

Definition outTok (t : tok) : wire := zn (List.length t) :: t.
Definition outExec (e : exec) : wire :=
  [zn (e_block e); if e_variant e then 1 else 0; zn (e_pos e); zn (e_nargs e); zn (List.length (e_reads e))]
  ++ flat_map (fun kp => [zn (fst kp); zn (snd kp)]) (e_reads e).
Definition outVal (v : tval) : wire :=
  match v with
  | VAbsent => [0; 0] ++ outTok []
  | VAtEnd => [1; 0] ++ outTok []
  | VAt p t => [2; zn p] ++ outTok t
  end.
Definition outFinal (f : final) : wire :=
  match f with FDone => [0; 0] | FExit c => [1; c] | FCrash => [2; 0] end.

Definition outResult (t : tool) (argv : list tok) : wire :=
  let r := run_tool t argv in
  outFinal (r_final r) ++ [zn (List.length (r_execs r))] ++ flat_map outExec (r_execs r)
  ++ [zn (List.length (t_decls t))]
  ++ flat_map (fun d => outVal (typed_lookup argv (d_name d)) ++ outTok (decl_string argv d)) (t_decls t)
  ++ match conv_plan_of gen_suffix_formats t argv with
     | None => [0]
     | Some p => [1] ++ outTok (cp_in p) ++ outTok (cp_in_fmt p) ++ outTok (cp_out p) ++ outTok (cp_out_fmt p)
     end
  (* OLD_ORDERING of the Geometries built by the executed blocks *)
  ++ (let os := flat_map (fun e => match nth_error (t_blocks t) (e_block e) with
                                   | Some b => block_orderings t argv b | None => [] end) (r_execs r) in
      zn (List.length os) :: map (fun o : bool => if o then 1 else 0) os).

Fixpoint offenders (ts : list tool) (idx : nat) : wire :=
  match ts with
  | [] => []
  | t :: r =>
      flat_map (fun bk => [zn idx; zn (fst bk); zn (snd bk)]) (bad_uses t)
      ++ flat_map (fun k => [zn idx; -1; zn k]) (bad_argv_uses t)
      ++ (if pre_ok t then [] else [zn idx; -2; 0])
      ++ (if unknown_ok t then [] else [zn idx; -3; 0])
      ++ (if aliases_ok t then [] else [zn idx; -4; 0])
      ++ (if documented_ok t then [] else [zn idx; -5; 0])
      ++ (if tool_params_used_ok t then [] else [zn idx; -6; 0])
      ++ (if option_count_ok t then [] else [zn idx; -7; 0])
      ++ (if tool_doc_order_ok t then [] else [zn idx; -9; 0])
      ++ (if geo_ordering_ok t then [] else [zn idx; -10; 0])
      ++ (if variant_doc_ok t then [] else [zn idx; -11; 0])
      ++ (if unknown_check_ok t then [] else [zn idx; -8; 0])
      ++ offenders r (S idx)
  end.

Definition run_c20 (w : wire) : wire :=
  match w with
  | (-1) :: _ => offenders gen_tools 0
  | _ =>
    run_dec (do ti <- getN; do argv <- getArgv; ret (ti, argv)) w
      (fun '(ti, argv) =>
         match nth_error gen_tools ti with
         | Some t => outResult t argv
         | None => [-1]
         end)
  end.
