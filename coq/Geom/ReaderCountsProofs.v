(* C19: the .mesh and bnd readers never return more vertices / triangles than the file holds. *)
From OM Require Import Base.Lists Maths.BinCodec Maths.BinCodecProofs Geom.MeshCount Geom.ReaderCounts.
Require Import ZifyBool.
Local Open Scope Z_scope.

Lemma b_words_length n : forall bs, (4 * n <= length bs)%nat -> length (b_words n bs) = n.
Proof.
  induction n as [|n IH]; intros bs H; [reflexivity|].
  destruct bs as [|a [|b [|c [|d t]]]]; cbn [length] in H; try lia.
  cbn [b_words rd32 length]. rewrite IH; [reflexivity|cbn [length] in *; lia].
Qed.
Lemma group3_length n : forall l, length l = (3 * n)%nat -> length (group3 l) = n.
Proof.
  induction n as [|n IH]; intros l H.
  - destruct l; [reflexivity|discriminate].
  - destruct l as [|a [|b [|c t]]]; cbn [length] in H; try lia. cbn [group3 length]. rewrite IH; [reflexivity|lia].
Qed.
Lemma b_u32_len st v st' : b_u32 st = (v, st') -> (length (b_rest st') <= length (b_rest st))%nat.
Proof.
  unfold b_u32. destruct (b_fail st); [intros H; inversion H; subst; lia|].
  destruct (rd32 (b_rest st)) as [[x r]|] eqn:E; intros H; inversion H; subst; cbn [b_rest length]; [|lia].
  apply rd32_some_length in E. lia.
Qed.
Lemma b_ignore_len n st : (length (b_rest (b_ignore n st)) <= length (b_rest st))%nat.
Proof. unfold b_ignore. destruct (b_fail st); [lia|]. cbn [b_rest]. rewrite skipn_length. lia. Qed.

(* a .mesh file that is accepted holds at least the announced vertices and triangles, and exactly those are returned *)
Theorem mesh_announced_count_checked bs pts trs :
  read_mesh bs = MOk (pts, trs) ->
  12 * Z.of_nat (length pts) + 12 * Z.of_nat (length trs) <= Z.of_nat (length bs) + 12 * Z.of_nat (length trs) /\
  12 * Z.of_nat (length pts) <= Z.of_nat (length bs) /\ 12 * Z.of_nat (length trs) <= Z.of_nat (length bs).
Proof.
  unfold read_mesh. set (st00 := {| b_rest := bs; b_fail := (length bs <? 9)%nat |}).
  assert (L0 : length (b_rest st00) = length bs) by reflexivity.
  assert (L0' := b_ignore_len 9 st00). set (st0 := b_ignore 9 st00) in *.
  destruct (b_u32 st0) as [arg st1] eqn:E1. assert (L1 := b_u32_len _ _ _ E1).
  assert (L2 := b_ignore_len arg st1). set (st2 := b_ignore arg st1) in *.
  destruct (b_u32 st2) as [vpf st3] eqn:E3. assert (L3 := b_u32_len _ _ _ E3).
  destruct (b_u32 st3) as [mt st4] eqn:E4. assert (L4 := b_u32_len _ _ _ E4).
  assert (L5 := b_ignore_len 4 st4). set (st5 := b_ignore 4 st4) in *.
  destruct (b_fail st5); [discriminate|].
  destruct (negb (vpf =? 3)); [discriminate|]. destruct (negb (mt =? 1)); [discriminate|].
  destruct (b_u32 st5) as [npts st6] eqn:E6. assert (L6 := b_u32_len _ _ _ E6).
  remember (Z.to_nat (3 * npts)) as kp eqn:Ekp.
  destruct (b_fail st6 || (Z.of_nat (length (b_rest st6)) <? 12 * npts)) eqn:C6; [discriminate|].
  assert (L7 := b_ignore_len (12 * npts) st6). set (st7 := b_ignore (12 * npts) st6) in *.
  destruct (b_u32 st7) as [nn st8] eqn:E8. assert (L8 := b_u32_len _ _ _ E8).
  assert (L9a := b_ignore_len (12 * nn) st8). assert (L9 := b_ignore_len 4 (b_ignore (12 * nn) st8)).
  set (st9 := b_ignore 4 (b_ignore (12 * nn) st8)) in *.
  destruct (b_u32 st9) as [ntr st10] eqn:E10. assert (L10 := b_u32_len _ _ _ E10).
  remember (Z.to_nat (3 * ntr)) as kt eqn:Ekt.
  destruct (b_fail st10 || (Z.of_nat (length (b_rest st10)) <? 12 * ntr)) eqn:C10; [discriminate|].
  unfold check_tris. destruct (forallb _ _); [|discriminate]. intros H. injection H as Hp Ht. subst pts trs.
  assert (Np : 0 <= npts \/ npts < 0) by lia. assert (Nt : 0 <= ntr \/ ntr < 0) by lia.
  assert (P : Z.of_nat (length (group3 (b_words kp (b_rest st6)))) = Z.max 0 npts).
  { destruct Np as [Np|Np].
    - rewrite (group3_length (Z.to_nat npts)); [lia|]. rewrite b_words_length; lia.
    - replace kp with 0%nat by lia. cbn. lia. }
  assert (T : Z.of_nat (length (group3 (b_words kt (b_rest st10)))) = Z.max 0 ntr).
  { destruct Nt as [Nt|Nt].
    - rewrite (group3_length (Z.to_nat ntr)); [lia|]. rewrite b_words_length; lia.
    - replace kt with 0%nat by lia. cbn. lia. }
  rewrite P, T. lia.
Qed.

