(* C19: the .mesh and bnd readers never return more vertices / triangles than the file holds. *)
From OM Require Import Base.Lists Maths.BinCodec Maths.BinCodecProofs Geom.MeshCount Geom.ReaderCounts.
Require Import ZifyBool.
Local Open Scope Z_scope.

Lemma b_words_length n : forall bs, (4 * n <= length bs)%nat -> length (b_words n bs) = n.
Proof.
  induction n as [|n IH]; intros bs H; [reflexivity|].
  destruct bs as [|a [|b [|c [|d t]]]]; cbn [length] in H; try lia.
  cbn [b_words rd32 length]. rewrite IH; [reflexivity|cbn [length] in *; lia].
Qed.
Lemma group3_length n : forall l, length l = (3 * n)%nat -> length (group3 l) = n.
Proof.
  induction n as [|n IH]; intros l H.
  - destruct l; [reflexivity|discriminate].
  - destruct l as [|a [|b [|c t]]]; cbn [length] in H; try lia. cbn [group3 length]. rewrite IH; [reflexivity|lia].
Qed.
Lemma b_u32_len st v st' : b_u32 st = (v, st') -> (length (b_rest st') <= length (b_rest st))%nat.
Proof.
  unfold b_u32. destruct (b_fail st); [intros H; inversion H; subst; lia|].
  destruct (rd32 (b_rest st)) as [[x r]|] eqn:E; intros H; inversion H; subst; cbn [b_rest length]; [|lia].
  apply rd32_some_length in E. lia.
Qed.
Lemma b_ignore_len n st : (length (b_rest (b_ignore n st)) <= length (b_rest st))%nat.
Proof. unfold b_ignore. destruct (b_fail st); [lia|]. cbn [b_rest]. rewrite skipn_length. lia. Qed.

(* a .mesh file that is accepted holds at least the announced vertices and triangles, and exactly those are returned *)
Theorem mesh_announced_count_checked bs pts trs :
  read_mesh bs = MOk (pts, trs) ->
  12 * Z.of_nat (length pts) + 12 * Z.of_nat (length trs) <= Z.of_nat (length bs) + 12 * Z.of_nat (length trs) /\
  12 * Z.of_nat (length pts) <= Z.of_nat (length bs) /\ 12 * Z.of_nat (length trs) <= Z.of_nat (length bs).
Proof.
  unfold read_mesh. set (st00 := {| b_rest := bs; b_fail := (length bs <? 9)%nat |}).
  assert (L0 : length (b_rest st00) = length bs) by reflexivity.
  assert (L0' := b_ignore_len 9 st00). set (st0 := b_ignore 9 st00) in *.
  destruct (b_u32 st0) as [arg st1] eqn:E1. assert (L1 := b_u32_len _ _ _ E1).
  assert (L2 := b_ignore_len arg st1). set (st2 := b_ignore arg st1) in *.
  destruct (b_u32 st2) as [vpf st3] eqn:E3. assert (L3 := b_u32_len _ _ _ E3).
  destruct (b_u32 st3) as [mt st4] eqn:E4. assert (L4 := b_u32_len _ _ _ E4).
  assert (L5 := b_ignore_len 4 st4). set (st5 := b_ignore 4 st4) in *.
  destruct (b_fail st5); [discriminate|].
  destruct (negb (vpf =? 3)); [discriminate|]. destruct (negb (mt =? 1)); [discriminate|].
  destruct (b_u32 st5) as [npts st6] eqn:E6. assert (L6 := b_u32_len _ _ _ E6).
  remember (Z.to_nat (3 * npts)) as kp eqn:Ekp.
  destruct (b_fail st6 || (Z.of_nat (length (b_rest st6)) <? 12 * npts)) eqn:C6; [discriminate|].
  assert (L7 := b_ignore_len (12 * npts) st6). set (st7 := b_ignore (12 * npts) st6) in *.
  destruct (b_u32 st7) as [nn st8] eqn:E8. assert (L8 := b_u32_len _ _ _ E8).
  assert (L9a := b_ignore_len (12 * nn) st8). assert (L9 := b_ignore_len 4 (b_ignore (12 * nn) st8)).
  set (st9 := b_ignore 4 (b_ignore (12 * nn) st8)) in *.
  destruct (b_u32 st9) as [ntr st10] eqn:E10. assert (L10 := b_u32_len _ _ _ E10).
  remember (Z.to_nat (3 * ntr)) as kt eqn:Ekt.
  destruct (b_fail st10 || (Z.of_nat (length (b_rest st10)) <? 12 * ntr)) eqn:C10; [discriminate|].
  unfold check_tris. destruct (forallb _ _); [|discriminate]. intros H. injection H as Hp Ht. subst pts trs.
  assert (Np : 0 <= npts \/ npts < 0) by lia. assert (Nt : 0 <= ntr \/ ntr < 0) by lia.
  assert (P : Z.of_nat (length (group3 (b_words kp (b_rest st6)))) = Z.max 0 npts).
  { destruct Np as [Np|Np].
    - rewrite (group3_length (Z.to_nat npts)); [lia|]. rewrite b_words_length; lia.
    - replace kp with 0%nat by lia. cbn. lia. }
  assert (T : Z.of_nat (length (group3 (b_words kt (b_rest st10)))) = Z.max 0 ntr).
  { destruct Nt as [Nt|Nt].
    - rewrite (group3_length (Z.to_nat ntr)); [lia|]. rewrite b_words_length; lia.
    - replace kt with 0%nat by lia. cbn. lia. }
  rewrite P, T. lia.
Qed.


(* ================= bnd ================= *)
Lemma rnext_total s t s' : rnext s = Some (t, s') -> rtotal s = S (rtotal s').
Proof.
  unfold rtotal. induction s as [|l r IH]; cbn [rnext]; [discriminate|].
  destruct l as [|x l']; intros H.
  - cbn [concat app]. apply IH. exact H.
  - inversion H; subst. cbn [concat app length]. reflexivity.
Qed.
Lemma rskip_total s : (rtotal (rskip s) <= rtotal s)%nat.
Proof. unfold rtotal, rskip. destruct s as [|l r]; cbn [tl concat]; [lia|]. rewrite app_length. lia. Qed.
Lemma r_word1_total s w s' : r_word1 s = (w, s') -> (rtotal s' <= rtotal s)%nat.
Proof.
  unfold r_word1. destruct (rnext s) as [[t s1]|] eqn:E; intros H; inversion H; subst.
  - apply rnext_total in E. lia.
  - unfold rtotal. cbn. lia.
Qed.
Lemma r_uint_total s n s' : r_uint s = MOk (n, s') -> rtotal s = S (rtotal s').
Proof.
  unfold r_uint. destruct (rnext s) as [[t s1]|] eqn:E; [|discriminate]. destruct (r_int t); [|discriminate].
  intros H; inversion H; subst. eapply rnext_total; eauto.
Qed.
Lemma r_dbl1_total s n s' : r_dbl1 s = MOk (n, s') -> rtotal s = S (rtotal s').
Proof.
  unfold r_dbl1. destruct (rnext s) as [[t s1]|] eqn:E; [|discriminate]. destruct (r_dbl t); [|discriminate].
  intros H; inversion H; subst. eapply rnext_total; eauto.
Qed.

Lemma r_many_total get k :
  (forall s x r, get s = MOk (x, r) -> rtotal s = S (rtotal r)) ->
  forall s xs r, r_many get k s = MOk (xs, r) -> rtotal s = (k + rtotal r)%nat /\ length xs = k.
Proof.
  intros G. induction k as [|k IH]; intros s xs r H; cbn [r_many] in H.
  - inversion H; subst. split; reflexivity.
  - destruct (get s) as [[x r1]|e] eqn:E; [|discriminate].
    destruct (r_many get k r1) as [[xs' r2]|e] eqn:E2; [|discriminate].
    inversion H; subst. apply G in E. apply IH in E2. cbn [length]. lia.
Qed.

Lemma r_items_total get k :
  (forall s x r, get s = MOk (x, r) -> rtotal s = S (rtotal r)) ->
  forall fuel n s xs r, r_items fuel get k n s = MOk (xs, r) ->
  Z.of_nat (length xs) = Z.max 0 n /\ Z.of_nat (rtotal s) = Z.of_nat k * Z.max 0 n + Z.of_nat (rtotal r).
Proof.
  intros G. induction fuel as [|fuel IH]; intros n s xs r H; cbn [r_items] in H.
  - destruct (n <=? 0) eqn:En; [|discriminate]. inversion H; subst. cbn [length]. split; lia.
  - destruct (n <=? 0) eqn:En.
    + inversion H; subst. cbn [length]. split; lia.
    + destruct (r_many get k s) as [[x r1]|e] eqn:E; [|discriminate].
      destruct (r_items fuel get k (n - 1) r1) as [[xs' r2]|e] eqn:E2; [|discriminate].
      inversion H; subst. apply (r_many_total get k G) in E. apply IH in E2.
      destruct E as [E Ex]. destruct E2 as (L1 & L2). cbn [length].
      assert (M : Z.max 0 n = Z.max 0 (n - 1) + 1) by lia. rewrite M. split; [lia|].
      rewrite Z.mul_add_distr_l. lia.
Qed.

(* a bnd file that is accepted holds the announced numbers of vertices and triangles: exactly those are returned,
   and the file has at least three tokens for each of them *)
Theorem bnd_announced_count_checked s pts trs :
  read_bnd s = MOk (pts, trs) ->
  exists npts ntr : Z,
    Z.of_nat (length pts) = Z.max 0 npts /\ Z.of_nat (length trs) = Z.max 0 ntr /\
    3 * Z.max 0 npts + 3 * Z.max 0 ntr + 2 <= Z.of_nat (rtotal s).
Proof.
  unfold read_bnd. intros H.
  destruct (r_word1 s) as [w0 s0] eqn:E0. assert (T0 := r_word1_total _ _ _ E0).
  destruct (if w0 =? 1 then r_word1 (rskip s0) else (w0, s0)) as [w1 s1] eqn:E1.
  assert (T1 : (rtotal s1 <= rtotal s0)%nat).
  { destruct (w0 =? 1); [|inversion E1; subst; lia]. apply r_word1_total in E1. assert (K := rskip_total s0). lia. }
  destruct (negb (w1 =? 2)); [discriminate|].
  destruct (r_uint s1) as [[npts s2]|e] eqn:E2; [|discriminate]. apply r_uint_total in E2.
  destruct (r_word1 s2) as [w2 s3] eqn:E3. assert (T3 := r_word1_total _ _ _ E3).
  set (s4 := if w2 =? 3 then rskip s3 else s3) in *.
  assert (T4 : (rtotal s4 <= rtotal s3)%nat) by (unfold s4; destruct (w2 =? 3); [apply rskip_total|lia]).
  destruct (r_word1 s4) as [w3 s5] eqn:E5. assert (T5 := r_word1_total _ _ _ E5).
  destruct (negb (w3 =? 4)); [discriminate|].
  destruct (r_items (S (rtotal s5)) r_dbl1 3 npts s5) as [[ps s6]|e] eqn:E6; [|discriminate].
  apply (r_items_total r_dbl1 3 r_dbl1_total) in E6. destruct E6 as [P1 P2].
  destruct (r_word1 s6) as [w4 s7] eqn:E7. assert (T7 := r_word1_total _ _ _ E7).
  destruct (negb (w4 =? 5)); [discriminate|].
  destruct (r_uint s7) as [[ntr s8]|e] eqn:E8; [|discriminate]. apply r_uint_total in E8.
  destruct (r_word1 s8) as [w5 s9] eqn:E9. assert (T9 := r_word1_total _ _ _ E9).
  destruct (negb (w5 =? 6)); [discriminate|].
  destruct (r_word1 s9) as [w6 s10] eqn:E10. assert (T10 := r_word1_total _ _ _ E10).
  destruct (negb (w6 =? 7)); [discriminate|].
  destruct (r_word1 s10) as [w7 s11] eqn:E11. assert (T11 := r_word1_total _ _ _ E11).
  destruct (negb (w7 =? 8)); [discriminate|].
  destruct (r_items (S (rtotal s11)) r_uint 3 ntr s11) as [[qs s12]|e] eqn:E12; [|discriminate].
  apply (r_items_total r_uint 3 r_uint_total) in E12. destruct E12 as [Q1 Q2].
  unfold check_tris in H. destruct (forallb (in_range npts) qs); [|discriminate].
  injection H as Hp Ht. subst pts trs.
  exists npts, ntr. split; [exact P1|]. split; [exact Q1|]. lia.
Qed.

(* hence no file with fewer tokens than the returned vertices and triangles need can be accepted *)
Theorem bnd_short_file_rejected s pts trs :
  Z.of_nat (rtotal s) < 3 * Z.of_nat (length pts) + 3 * Z.of_nat (length trs) + 2 -> read_bnd s <> MOk (pts, trs).
Proof. intros Hs H. destruct (bnd_announced_count_checked s pts trs H) as (a & b & A & B & C). lia. Qed.
