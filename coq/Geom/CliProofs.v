(* C20 — lemmas about the command-line model (Geom/Cli.v).  Stdlib style, lia-driven. *)
From Coq Require Import List Arith ZArith Bool Lia.
From OM Require Import Geom.Cli.
Import ListNotations.
Local Open Scope nat_scope.

(* ---------------------------------------------------------------- tokens *)
Lemma tok_eqb_refl t : tok_eqb t t = true.
Proof. induction t as [|x t IH]; simpl; auto. rewrite Z.eqb_refl; auto. Qed.

Lemma tok_eqb_eq a b : tok_eqb a b = true <-> a = b.
Proof.
  split.
  - revert b; induction a as [|x a IH]; intros [|y b] H; simpl in H; try discriminate; auto.
    apply andb_true_iff in H as [H1 H2]. apply Z.eqb_eq in H1. f_equal; auto.
  - intros ->; apply tok_eqb_refl.
Qed.

Lemma tok_eqb_neq a b : tok_eqb a b = false <-> a <> b.
Proof.
  split.
  - intros H E. apply tok_eqb_eq in E. congruence.
  - intros H. destruct (tok_eqb a b) eqn:E; auto. apply tok_eqb_eq in E. contradiction.
Qed.

Lemma tok_dec (a b : tok) : {a = b} + {a <> b}.
Proof. apply list_eq_dec. apply Z.eq_dec. Qed.

(* ---------------------------------------------------------------- find_argument *)
Lemma find_from_spec name l i0 j :
  find_from name l i0 = Some j ->
  i0 <= j /\ nth_error l (j - i0) = Some name /\
  forall p, p < j - i0 -> forall t, nth_error l p = Some t -> t <> name.
Proof.
  revert i0; induction l as [|t r IH]; intros i0 H; simpl in H; [discriminate|].
  destruct (tok_eqb name t) eqn:E.
  - injection H as <-. apply tok_eqb_eq in E; subst. rewrite Nat.sub_diag. simpl. repeat split; auto. intros p Hp; lia.
  - apply IH in H as (H1 & H2 & H3). split; [lia|]. split.
    + replace (j - i0) with (S (j - S i0)) by lia. exact H2.
    + intros p Hp u Hu. destruct p as [|p]; simpl in Hu.
      * injection Hu as <-. apply tok_eqb_neq in E. congruence.
      * apply (H3 p); auto. lia.
Qed.

Lemma find_from_none name l i0 : find_from name l i0 = None <-> ~ In name l.
Proof.
  revert i0; induction l as [|t r IH]; intros i0; simpl.
  - split; auto.
  - destruct (tok_eqb name t) eqn:E.
    + apply tok_eqb_eq in E; subst. split; [discriminate|]. intros H; exfalso; apply H; auto.
    + apply tok_eqb_neq in E. rewrite IH. split; intros H; [intros [H1|H1]; [congruence|auto]|auto].
Qed.

Lemma find_argument_some argv name i :
  find_argument argv name = Some i -> nth_error argv i = Some name /\ i < List.length argv.
Proof.
  unfold find_argument. intros H. apply find_from_spec in H as (_ & H & _). rewrite Nat.sub_0_r in H.
  split; auto. apply nth_error_Some. congruence.
Qed.

Lemma find_argument_none argv name : find_argument argv name = None <-> ~ In name argv.
Proof. apply find_from_none. Qed.

Lemma find_from_shift name l i0 : find_from name l (S i0) = option_map S (find_from name l i0).
Proof. revert i0; induction l as [|t r IH]; intros i0; simpl; auto. destruct (tok_eqb name t); auto. Qed.

(* first occurrence in pre ++ a :: post when a is not in pre *)
Lemma find_from_app_here pre a post i0 :
  ~ In a pre -> find_from a (pre ++ a :: post) i0 = Some (i0 + List.length pre).
Proof.
  revert i0; induction pre as [|t r IH]; intros i0 H; simpl.
  - rewrite tok_eqb_refl. f_equal; lia.
  - destruct (tok_eqb a t) eqn:E.
    + apply tok_eqb_eq in E; subst. exfalso; apply H; simpl; auto.
    + rewrite IH by (intros H1; apply H; simpl; auto). f_equal; lia.
Qed.

Lemma find_argument_app_here pre a post :
  ~ In a pre -> find_argument (pre ++ a :: post) a = Some (List.length pre).
Proof. intros H. unfold find_argument. rewrite find_from_app_here; auto. Qed.

(* ---------------------------------------------------------------- num_args *)
Lemma count_args_le l : count_args l <= List.length l.
Proof. induction l as [|t r IH]; simpl; auto. destruct (is_dash t); simpl; lia. Qed.

Lemma count_args_nodash l p t : p < count_args l -> nth_error l p = Some t -> is_dash t = false.
Proof.
  revert p; induction l as [|u r IH]; intros p Hp Ht; simpl in *; [lia|].
  destruct (is_dash u) eqn:E; [lia|].
  destruct p as [|p]; simpl in Ht.
  - injection Ht as <-; auto.
  - apply (IH p); auto. lia.
Qed.

Lemma count_args_stop l : count_args l < List.length l -> exists t, nth_error l (count_args l) = Some t /\ is_dash t = true.
Proof.
  induction l as [|u r IH]; simpl; [lia|].
  destruct (is_dash u) eqn:E; intros H.
  - exists u; simpl; auto.
  - simpl. apply IH. lia.
Qed.

Lemma count_args_app args t post :
  Forall (fun x => is_dash x = false) args -> is_dash t = true -> count_args (args ++ t :: post) = List.length args.
Proof.
  induction 1 as [|x args Hx _ IH]; intros Ht; simpl.
  - rewrite Ht; auto.
  - rewrite Hx, IH; auto.
Qed.

Lemma count_args_all args : Forall (fun x => is_dash x = false) args -> count_args args = List.length args.
Proof. induction 1 as [|x args Hx _ IH]; simpl; auto. rewrite Hx, IH; auto. Qed.

Lemma num_args_bound argv i : i < List.length argv -> i + num_args argv i < List.length argv.
Proof.
  intros H. unfold num_args. pose proof (count_args_le (skipn (S i) argv)) as L.
  rewrite skipn_length in L. lia.
Qed.

Lemma nth_error_skipn {A} (l : list A) n p : nth_error (skipn n l) p = nth_error l (n + p).
Proof. revert l; induction n as [|n IH]; intros l; simpl; auto. destruct l; simpl; auto. destruct p; auto. Qed.

(* every position i+1 .. i+num_args holds a token that does not start with '-' *)
Lemma num_args_nodash argv i k t :
  1 <= k <= num_args argv i -> nth_error argv (i + k) = Some t -> is_dash t = false.
Proof.
  intros Hk Ht. unfold num_args in Hk.
  apply (count_args_nodash (skipn (S i) argv) (k - 1)); [lia|].
  rewrite nth_error_skipn. replace (S i + (k - 1)) with (i + k) by lia. auto.
Qed.

Lemma skipn_app_exact {A} (pre : list A) x post : skipn (S (List.length pre)) (pre ++ x :: post) = post.
Proof. induction pre as [|a pre IH]; simpl; auto. Qed.

Lemma num_args_cut pre o args t post :
  Forall (fun x => is_dash x = false) args -> is_dash t = true ->
  num_args (pre ++ o :: args ++ t :: post) (List.length pre) = List.length args.
Proof. intros H1 H2. unfold num_args. rewrite skipn_app_exact. apply count_args_app; auto. Qed.

Lemma num_args_all pre o args :
  Forall (fun x => is_dash x = false) args -> num_args (pre ++ o :: args) (List.length pre) = List.length args.
Proof. intros H. unfold num_args. rewrite skipn_app_exact. apply count_args_all; auto. Qed.

(* ---------------------------------------------------------------- option / alias loop *)
Lemma option3_some argv name nm i :
  option3 argv name nm = Ret (Some i) -> find_argument argv name = Some i /\ nm <= num_args argv i.
Proof.
  unfold option3. destruct (find_argument argv name) as [j|]; [|discriminate].
  destruct (Nat.ltb_spec (num_args argv j) nm) as [L|L]; [discriminate|]. intros H; injection H as <-. auto.
Qed.

Lemma option3_exit argv name nm c : option3 argv name nm = Exit c -> c = 1%Z.
Proof.
  unfold option3. destruct (find_argument argv name) as [j|]; [|discriminate].
  destruct (num_args argv j <? nm); [|discriminate]. intros H; injection H; auto.
Qed.

Lemma option3_none argv name nm : option3 argv name nm = Ret None <-> find_argument argv name = None.
Proof.
  unfold option3. destruct (find_argument argv name) as [j|]; [|tauto].
  destruct (num_args argv j <? nm); split; discriminate.
Qed.

Lemma alias_loop_some argv al nm f i :
  alias_loop argv al nm f = Ret (Some i) ->
  f = Some i \/ (f = None /\ exists a, In a al /\ find_argument argv a = Some i /\ nm <= num_args argv i).
Proof.
  revert f; induction al as [|a r IH]; intros f H; simpl in H.
  - injection H as ->; auto.
  - destruct (option3 argv a nm) as [[j|]|c] eqn:E; [| |discriminate].
    + destruct f as [f0|]; [discriminate|].
      apply IH in H as [H|[H _]]; [|discriminate]. injection H as ->.
      apply option3_some in E as [E1 E2]. right; split; auto. exists a; simpl; auto.
    + apply IH in H as [H|(H & b & Hb & H2)]; auto. right; split; auto. exists b; simpl; auto.
Qed.

Lemma alias_loop_exit argv al nm f c : alias_loop argv al nm f = Exit c -> c = 1%Z.
Proof.
  revert f; induction al as [|a r IH]; intros f H; simpl in H; [discriminate|].
  destruct (option3 argv a nm) as [[j|]|c'] eqn:E.
  - destruct f; [injection H; auto|eauto].
  - eauto.
  - injection H as <-. eapply option3_exit; eauto.
Qed.

Lemma alias_loop_absent argv al nm f :
  (forall a, In a al -> find_argument argv a = None) -> alias_loop argv al nm f = Ret f.
Proof.
  induction al as [|a r IH]; intros H; simpl; auto.
  replace (option3 argv a nm) with (@Ret (option nat) None).
  - apply IH. intros b Hb; apply H; simpl; auto.
  - symmetry; apply option3_none. apply H; simpl; auto.
Qed.

(* one present alias with too few arguments makes the loop exit *)
Lemma alias_loop_incomplete argv al nm f a i :
  In a al -> find_argument argv a = Some i -> num_args argv i < nm ->
  alias_loop argv al nm f = Exit 1%Z.
Proof.
  revert f; induction al as [|b r IH]; intros f Ha Hf Hn; simpl in *; [contradiction|].
  destruct (option3 argv b nm) as [[j|]|c] eqn:E.
  - destruct Ha as [->|Ha].
    + apply option3_some in E as [E1 E2]. rewrite Hf in E1. injection E1 as <-. lia.
    + destruct f; auto.
  - destruct Ha as [->|Ha]; auto. apply option3_none in E. congruence.
  - f_equal. eapply option3_exit; eauto.
Qed.

(* exactly one alias of the list occurs in argv: the loop is option3 on that alias *)
Lemma alias_loop_single argv al nm a :
  In a al -> NoDup al -> (forall b, In b al -> b <> a -> find_argument argv b = None) ->
  alias_loop argv al nm None = option3 argv a nm.
Proof.
  induction al as [|b r IH]; intros Ha Hnd Hother; simpl in *; [contradiction|].
  inversion Hnd as [|? ? Hnb Hnr]; subst.
  destruct Ha as [->|Ha].
  - destruct (option3 argv a nm) as [[j|]|c] eqn:E; auto.
    + apply alias_loop_absent. intros c Hc. apply Hother; auto. intros ->; contradiction.
    + apply alias_loop_absent. intros c Hc. apply Hother; auto. intros ->; contradiction.
  - assert (b <> a) by (intros ->; contradiction).
    replace (option3 argv b nm) with (@Ret (option nat) None)
      by (symmetry; apply option3_none; apply Hother; auto).
    apply IH; auto.
Qed.

(* ---------------------------------------------------------------- guards / in-range *)
Lemma use_ok_sound nm u n :
  use_ok nm u = true -> nm <= n -> guard_holds (u_guard u) n = true -> u_k u <= n.
Proof.
  unfold use_ok. intros H Hn Hg.
  destruct (le_lt_dec (u_k u) n) as [|Hlt]; auto.
  rewrite forallb_forall in H. specialize (H n).
  rewrite Hg in H. simpl in H. assert (false = true); [|discriminate].
  apply H. apply in_seq. lia.
Qed.

Lemma block_option_some argv b i :
  block_option argv b = Ret (Some i) ->
  exists a, In a (b_aliases b) /\ find_argument argv a = Some i /\ nmand b <= num_args argv i.
Proof.
  unfold block_option. intros H. apply alias_loop_some in H as [H|[_ H]]; [discriminate|auto].
Qed.

Lemma block_reads_in b i n k p :
  In (k, p) (block_reads b i n) -> exists u, In u (b_uses b) /\ guard_holds (u_guard u) n = true /\ k = u_k u /\ p = i + u_k u.
Proof.
  unfold block_reads. intros H. apply in_map_iff in H as (u & Hu & Hin). apply filter_In in Hin as [H1 H2].
  injection Hu as <- <-. exists u; auto.
Qed.

(* the core statement: an accepted option block only reads parameters it was given *)
Lemma block_in_range argv b i :
  block_ok b = true -> block_option argv b = Ret (Some i) ->
  forall u, In u (b_uses b) -> guard_holds (u_guard u) (num_args argv i) = true ->
  u_k u <= num_args argv i /\ i + u_k u < List.length argv.
Proof.
  intros Hok Hopt u Hu Hg.
  apply block_option_some in Hopt as (a & Ha & Hf & Hn).
  unfold block_ok in Hok. rewrite forallb_forall in Hok.
  pose proof (use_ok_sound _ _ _ (Hok u Hu) Hn Hg) as Hk. split; auto.
  apply find_argument_some in Hf as [_ Hi]. pose proof (num_args_bound argv i Hi). lia.
Qed.

Lemma block_no_crash argv b i :
  block_ok b = true -> block_option argv b = Ret (Some i) ->
  existsb (fun kp => List.length argv <=? snd kp) (block_reads b i (num_args argv i)) = false.
Proof.
  intros Hok Hopt. destruct (existsb _ _) eqn:E; auto. exfalso.
  apply existsb_exists in E as ([k p] & Hin & Hle). simpl in Hle. apply Nat.leb_le in Hle.
  apply block_reads_in in Hin as (u & Hu & Hg & -> & ->).
  pose proof (block_in_range argv b i Hok Hopt u Hu Hg). lia.
Qed.

(* ---------------------------------------------------------------- run_blocks *)
Lemma run_blocks_no_crash argv bs idx nopt unk :
  forallb block_ok bs = true -> snd (run_blocks argv bs idx nopt unk) <> FCrash.
Proof.
  revert idx nopt; induction bs as [|b r IH]; intros idx nopt Hok; simpl.
  - destruct (nopt =? 0); [destruct unk|]; discriminate.
  - simpl in Hok. apply andb_true_iff in Hok as [Hb Hr].
    destruct (block_option argv b) as [[i|]|c] eqn:E; simpl; try discriminate; auto.
    destruct (nopt =? 0); simpl; [|discriminate].
    rewrite (block_no_crash argv b i Hb E).
    specialize (IH (S idx) 1 Hr). destruct (run_blocks argv r (S idx) 1 unk); simpl in *; auto.
Qed.

Definition present (argv : list tok) (b : block) : Prop := block_option argv b <> Ret None.

(* reached with num_options already 1, any further option given on the line ends in exit 1 *)
Lemma run_blocks_second argv bs idx nopt unk :
  nopt <> 0 -> (exists b, In b bs /\ present argv b) ->
  run_blocks argv bs idx nopt unk = ([], FExit 1%Z).
Proof.
  intros Hn. revert idx; induction bs as [|b r IH]; intros idx (b0 & Hin & Hp); simpl in *; [contradiction|].
  destruct (block_option argv b) as [[i|]|c] eqn:E.
  - destruct (Nat.eqb_spec nopt 0); [contradiction|]. reflexivity.
  - apply IH. destruct Hin as [->|Hin]; [unfold present in Hp; congruence|eauto].
  - f_equal. f_equal. eapply alias_loop_exit; eauto.
Qed.

Lemma run_blocks_none_present argv bs idx nopt unk :
  (forall b, In b bs -> block_option argv b = Ret None) ->
  run_blocks argv bs idx nopt unk = ([], if nopt =? 0 then match unk with Some c => FExit c | None => FDone end else FDone).
Proof.
  revert idx; induction bs as [|b r IH]; intros idx H; simpl; auto.
  rewrite (H b) by (simpl; auto). apply IH. intros b' Hb'; apply H; simpl; auto.
Qed.

(* every status produced by the block sequence is 1 or the unknown-option status *)
Lemma run_blocks_exit_code argv bs idx nopt unk c :
  snd (run_blocks argv bs idx nopt unk) = FExit c -> c = 1%Z \/ unk = Some c.
Proof.
  revert idx nopt; induction bs as [|b r IH]; intros idx nopt H; simpl in H.
  - destruct (nopt =? 0); [destruct unk|]; try discriminate. injection H as ->; auto.
  - destruct (block_option argv b) as [[i|]|c'] eqn:E; simpl in H.
    + destruct (nopt =? 0); simpl in H; [|injection H; auto].
      destruct (existsb _ _); simpl in H; [discriminate|].
      specialize (IH (S idx) 1). destruct (run_blocks argv r (S idx) 1 unk); simpl in *; auto.
    + eauto.
    + injection H as <-. left. eapply alias_loop_exit; eauto.
Qed.

(* a block of the sequence whose option is present but incomplete: the run cannot complete *)
Lemma run_blocks_incomplete argv bs idx nopt unk b :
  In b bs -> block_option argv b = Exit 1%Z ->
  snd (run_blocks argv bs idx nopt unk) = FExit 1%Z \/ snd (run_blocks argv bs idx nopt unk) = FCrash.
Proof.
  revert idx nopt; induction bs as [|b0 r IH]; intros idx nopt Hin Hb; simpl in *; [contradiction|].
  destruct (block_option argv b0) as [[i|]|c'] eqn:E; simpl.
  - destruct Hin as [->|Hin]; [congruence|].
    destruct (nopt =? 0); simpl; auto.
    destruct (existsb _ _); simpl; auto.
    specialize (IH (S idx) 1 Hin Hb). destruct (run_blocks argv r (S idx) 1 unk); simpl in *; auto.
  - destruct Hin as [->|Hin]; [congruence|]. auto.
  - left. f_equal. eapply alias_loop_exit; eauto.
Qed.

(* two present options: never FDone *)
Lemma run_blocks_two argv bs idx unk j j' b b' :
  j < j' -> nth_error bs j = Some b -> nth_error bs j' = Some b' -> present argv b -> present argv b' ->
  snd (run_blocks argv bs idx 0 unk) = FExit 1%Z \/ snd (run_blocks argv bs idx 0 unk) = FCrash.
Proof.
  revert idx j j'; induction bs as [|b0 r IH]; intros idx j j' Hlt Hj Hj' Hp Hp'; [destruct j; discriminate|].
  simpl. destruct (block_option argv b0) as [[i|]|c'] eqn:E; simpl.
  - destruct (existsb _ _); simpl; auto.
    assert (Hex : exists x, In x r /\ present argv x).
    { destruct j' as [|j']; [lia|]. simpl in Hj'. exists b'; split; auto. eapply nth_error_In; eauto. }
    rewrite (run_blocks_second argv r (S idx) 1 unk) by (auto; lia). simpl; auto.
  - destruct j as [|j].
    + simpl in Hj. injection Hj as ->. unfold present in Hp. congruence.
    + destruct j' as [|j']; [lia|]. simpl in Hj, Hj'. apply (IH (S idx) j j'); auto. lia.
  - left. f_equal. eapply alias_loop_exit; eauto.
Qed.

(* at most one option present: a rejected line has run nothing *)
Lemma run_blocks_rejected_clean argv bs idx unk c :
  (forall j j' b b', nth_error bs j = Some b -> nth_error bs j' = Some b' -> present argv b -> present argv b' -> j = j') ->
  snd (run_blocks argv bs idx 0 unk) = FExit c -> fst (run_blocks argv bs idx 0 unk) = [].
Proof.
  revert idx; induction bs as [|b0 r IH]; intros idx Huniq H; simpl in *; auto.
  destruct (block_option argv b0) as [[i|]|c'] eqn:E; simpl in *; auto.
  - destruct (existsb _ _); simpl in *; [discriminate|].
    rewrite run_blocks_none_present in H.
    + simpl in H. discriminate.
    + intros b Hb. destruct (block_option argv b) as [[i'|]|c''] eqn:E'; auto; exfalso.
      * apply In_nth_error in Hb as [p Hp].
        assert (0 = S p); [|discriminate].
        apply (Huniq 0 (S p) b0 b); simpl; auto; unfold present; congruence.
      * apply In_nth_error in Hb as [p Hp].
        assert (0 = S p); [|discriminate].
        apply (Huniq 0 (S p) b0 b); simpl; auto; unfold present; congruence.
  - apply IH; auto. intros j j' b b' Hj Hj' Hp Hp'.
    assert (S j = S j'); [|lia]. apply (Huniq (S j) (S j') b b'); auto.
Qed.

(* ---------------------------------------------------------------- whole tool *)
Lemma pre_exit_from_code t argv ps c :
  forallb (precheck_ok t) ps = true -> help_mode argv = false -> pre_exit_from t argv ps = Some c -> c <> 0%Z.
Proof.
  induction ps as [|p r IH]; intros Hok Hh H; simpl in *; [discriminate|].
  apply andb_true_iff in Hok as [Hp Hr].
  destruct (existsb (cond_holds t argv) (pc_conds p)) eqn:E; [|auto].
  injection H as <-. unfold precheck_ok in Hp. apply orb_true_iff in Hp as [Hp|Hp].
  - exfalso. apply existsb_exists in E as (c0 & Hc0 & Hc). rewrite forallb_forall in Hp. specialize (Hp c0 Hc0).
    destruct c0; simpl in *; try discriminate. congruence.
  - apply negb_true_iff in Hp. apply Z.eqb_neq in Hp. auto.
Qed.

Lemma pre_exit_from_argc t argv ps p k :
  In p ps -> In (CArgcLt k) (pc_conds p) -> List.length argv < k -> pre_exit_from t argv ps <> None.
Proof.
  induction ps as [|p0 r IH]; intros Hp Hc Hl; simpl in *; [contradiction|].
  destruct (existsb (cond_holds t argv) (pc_conds p0)) eqn:E; [discriminate|].
  destruct Hp as [->|Hp]; [|auto].
  exfalso. assert (existsb (cond_holds t argv) (pc_conds p) = true); [|congruence].
  apply existsb_exists. exists (CArgcLt k). split; auto. simpl. apply Nat.ltb_lt; auto.
Qed.

Lemma pre_exit_from_none_argc t argv ps p k :
  pre_exit_from t argv ps = None -> In p ps -> In (CArgcLt k) (pc_conds p) -> k <= List.length argv.
Proof.
  intros H Hp Hc. destruct (le_lt_dec k (List.length argv)); auto.
  exfalso. eapply pre_exit_from_argc; eauto.
Qed.

Lemma tool_no_crash t argv : tool_ok t = true -> r_final (run_tool t argv) <> FCrash.
Proof.
  unfold tool_ok, run_tool. intros H. apply andb_true_iff in H as [Hb Ha].
  destruct (pre_exit t argv) eqn:Epre; simpl; [discriminate|].
  destruct (t_blocks t) as [|b0 bs] eqn:Eb.
  - destruct (existsb _ (t_argv_uses t)) eqn:E; simpl; [|discriminate]. exfalso.
    apply existsb_exists in E as ([k s] & Hin & Hle). simpl in Hle. apply Nat.leb_le in Hle.
    rewrite forallb_forall in Ha. specialize (Ha _ Hin). unfold argv_use_ok in Ha. simpl in Ha.
    apply existsb_exists in Ha as (p & Hp & Hc). apply existsb_exists in Hc as (c & Hc & Hk).
    destruct c as [m| | | |]; simpl in Hk; try discriminate. apply Nat.ltb_lt in Hk.
    pose proof (pre_exit_from_none_argc t argv (t_pre t) p m Epre Hp Hc). lia.
  - cbv zeta. cbn [r_final]. apply run_blocks_no_crash; auto.
Qed.

Lemma run_tool_blocks t argv :
  pre_exit t argv = None -> t_blocks t <> [] ->
  r_final (run_tool t argv) = snd (run_blocks argv (t_blocks t) 0 0 (t_unknown_exit t)) /\
  r_execs (run_tool t argv) = fst (run_blocks argv (t_blocks t) 0 0 (t_unknown_exit t)).
Proof.
  intros Hpre Hb. unfold run_tool. rewrite Hpre. destruct (t_blocks t) as [|b0 bs] eqn:Eb; [contradiction|].
  cbv zeta. cbn [r_final r_execs]. auto.
Qed.

(* ---------------------------------------------------------------- aliases *)
Lemma nodupb_NoDup l : nodupb l = true -> NoDup l.
Proof.
  induction l as [|a r IH]; simpl; intros H; constructor.
  - apply andb_true_iff in H as [H _]. apply negb_true_iff in H. intros Hin.
    assert (existsb (tok_eqb a) r = true); [|congruence].
    apply existsb_exists. exists a; split; auto. apply tok_eqb_refl.
  - apply IH. apply andb_true_iff in H as [_ H]; auto.
Qed.

Lemma NoDup_app_l {A} (l1 l2 : list A) : NoDup (l1 ++ l2) -> NoDup l1.
Proof. induction l1 as [|a l1 IH]; simpl; intros H; constructor; inversion H; subst; auto. intros Hin; apply H2; apply in_or_app; auto. Qed.
Lemma NoDup_app_r {A} (l1 l2 : list A) : NoDup (l1 ++ l2) -> NoDup l2.
Proof. induction l1 as [|a l1 IH]; simpl; auto. intros H; inversion H; auto. Qed.
Lemma NoDup_app_disj {A} (l1 l2 : list A) x : NoDup (l1 ++ l2) -> In x l1 -> In x l2 -> False.
Proof.
  induction l1 as [|a l1 IH]; simpl; intros H H1 H2; [contradiction|]. inversion H; subst.
  destruct H1 as [->|H1]; [apply H4; apply in_or_app; auto|auto].
Qed.

Lemma flat_map_NoDup_inner {A B} (f : A -> list B) l a : NoDup (flat_map f l) -> In a l -> NoDup (f a).
Proof.
  induction l as [|x l IH]; simpl; intros H Hin; [contradiction|].
  destruct Hin as [->|Hin]; [eapply NoDup_app_l; eauto|]. apply IH; auto. eapply NoDup_app_r; eauto.
Qed.

(* distinct positions of a flat_map with no repetition hold disjoint lists *)
Lemma flat_map_NoDup_disj {A B} (f : A -> list B) l j j' a a' x :
  NoDup (flat_map f l) -> nth_error l j = Some a -> nth_error l j' = Some a' -> In x (f a) -> In x (f a') -> j = j'.
Proof.
  revert j j'; induction l as [|y l IH]; intros j j' Hnd Hj Hj' Hx Hx'; [destruct j; discriminate|].
  simpl in Hnd. destruct j as [|j], j' as [|j']; simpl in *; auto.
  - injection Hj as ->. exfalso. eapply NoDup_app_disj; eauto. apply in_flat_map. exists a'; split; auto. eapply nth_error_In; eauto.
  - injection Hj' as ->. exfalso. eapply NoDup_app_disj; eauto. apply in_flat_map. exists a; split; auto. eapply nth_error_In; eauto.
  - f_equal. apply IH; auto. eapply NoDup_app_r; eauto.
Qed.
